(** Proofs for C13 (Model/Vpop.v against Spec/VpopSpec.v). *)
From Qv Require Import Common.Bytes Gen.GenVpop Model.Vpop Spec.VpopSpec.
Local Open Scope Z_scope.

(** * Facts about the generated constants (each is a proof obligation: it fails when the C changes) *)
Lemma dotqm_eq : VP_DOTQM = QMAIL. Proof. reflexivity. Qed.
Lemma default_eq : VP_DEFAULT = DEFAULT. Proof. reflexivity. Qed.
Lemma dash_eq : VP_DASH = DASH. Proof. reflexivity. Qed.
Lemma scandash_eq : VP_SCANDASH = DASH. Proof. reflexivity. Qed.
Lemma slash_eq : VP_SLASH = SLASH. Proof. reflexivity. Qed.
Lemma dot_eq : VP_DOT = DOT. Proof. reflexivity. Qed.
Lemma colon_eq : VP_COLON = COLON. Proof. reflexivity. Qed.
Lemma dots_eq : VP_DOTS = [DOT; DOT]. Proof. reflexivity. Qed.
Lemma flag0 : flag 0 = 2%nat. Proof. reflexivity. Qed.
Lemma flag1 : flag 1 = 3%nat. Proof. reflexivity. Qed.
Lemma flag2 : flag 2 = 3%nat. Proof. reflexivity. Qed.
Lemma flag3 : flag 3 = 1%nat. Proof. reflexivity. Qed.
Lemma rc_dir_eq : VP_RC_DIR = 1. Proof. reflexivity. Qed.
Lemma rc_qmail_eq : VP_RC_QMAIL = 1. Proof. reflexivity. Qed.
Lemma rc_prefix_eq : VP_RC_PREFIX = 4. Proof. reflexivity. Qed.
Lemma rc_catchall_eq : VP_RC_CATCHALL = 2. Proof. reflexivity. Qed.
Lemma rc_notlocal_eq : VP_RC_NOTLOCAL = 5. Proof. reflexivity. Qed.
Lemma bounce_mul_eq : VP_BOUNCE_MUL = 2%nat. Proof. reflexivity. Qed.
Lemma len_qmail : length QMAIL = 7%nat. Proof. reflexivity. Qed.
Lemma len_default : length DEFAULT = 7%nat. Proof. reflexivity. Qed.
Lemma len_dashdefault : length DASHDEFAULT = 8%nat. Proof. reflexivity. Qed.
Lemma path_max_big : (15 < VP_PATH_MAX)%nat.
Proof. apply Nat.ltb_lt. vm_compute. reflexivity. Qed.

Lemma mem_In e l : mem e l = true <-> In e l.
Proof.
  unfold mem. rewrite existsb_exists. split.
  - intros [x [Hx He]]. apply N.eqb_eq in He. now subst.
  - intros H. exists e. split; [exact H|apply N.eqb_refl].
Qed.

Ltac mem_list := unfold mem; simpl existsb; rewrite ?orb_false_r; rewrite ?orb_true_iff; rewrite ?N.eqb_eq.

Lemma qm_absent_spec e : mem e VP_QM_ABSENT = true <-> e = VP_ENOENT \/ e = VP_EISDIR \/ e = VP_ENAMETOOLONG.
Proof. unfold VP_QM_ABSENT, VP_ENOENT, VP_EISDIR, VP_ENAMETOOLONG. mem_list. tauto. Qed.
Lemma qm_exists_spec e : mem e VP_QM_EXISTS = true <-> e = VP_EACCES.
Proof. unfold VP_QM_EXISTS, VP_EACCES. mem_list. tauto. Qed.
Lemma qm_nomem_hard e : mem e VP_QM_NOMEM = true ->
  e <> VP_ENOENT /\ e <> VP_EISDIR /\ e <> VP_ENAMETOOLONG /\ e <> VP_EACCES.
Proof.
  unfold VP_QM_NOMEM, VP_ENOENT, VP_EISDIR, VP_ENAMETOOLONG, VP_EACCES. mem_list.
  intros [H|[H|H]]; subst; repeat split; discriminate.
Qed.
Lemma dir_soft_spec e : mem e VP_DIR_SOFT = true <-> e = VP_ENOENT \/ e = VP_ENOTDIR \/ e = VP_ENAMETOOLONG.
Proof. unfold VP_DIR_SOFT, VP_ENOENT, VP_ENOTDIR, VP_ENAMETOOLONG. mem_list. tauto. Qed.
Lemma dir_soft_not_eacces e : mem e VP_DIR_SOFT = true -> N.eqb e VP_EACCES = false.
Proof.
  intros H. apply dir_soft_spec in H. apply N.eqb_neq.
  unfold VP_ENOENT, VP_ENOTDIR, VP_ENAMETOOLONG, VP_EACCES in *. destruct H as [H|[H|H]]; subst; discriminate.
Qed.
Lemma neg_enomem : - Z.of_N VP_ENOMEM < 0. Proof. reflexivity. Qed.
Lemma neg_edone : - Z.of_N VP_EDONE < 0. Proof. reflexivity. Qed.
Lemma neg_enoent : - Z.of_N VP_ENOENT < 0. Proof. reflexivity. Qed.
Lemma neg_efault : - Z.of_N VP_EFAULT < 0. Proof. reflexivity. Qed.
(* soft kernel errnos of absent names / files that are no directories *)
Lemma enoent_soft : mem VP_ENOENT VP_DIR_SOFT = true. Proof. reflexivity. Qed.
Lemma enotdir_soft : mem VP_ENOTDIR VP_DIR_SOFT = true. Proof. reflexivity. Qed.
Lemma enoent_qm : mem VP_ENOENT VP_QM_NOMEM = false /\ mem VP_ENOENT VP_QM_EXISTS = false /\ mem VP_ENOENT VP_QM_ABSENT = true.
Proof. repeat split. Qed.
Lemma dom_missing_absent : mem VP_ENOENT VP_DOM_ERR = false /\ mem VP_ENOENT VP_DOM_ABSENT = true. Proof. split; reflexivity. Qed.
Lemma dom_file_absent : mem VP_ENOTDIR VP_DOM_ERR = false /\ mem VP_ENOTDIR VP_DOM_ABSENT = true. Proof. split; reflexivity. Qed.

(** * Names *)
Lemma map_dot2colon s : map dot2colon s = colons s.
Proof. unfold colons. apply map_ext. intros b. unfold dot2colon. now rewrite dot_eq, colon_eq. Qed.

Definition pname (pre : bytes) : name := QMAIL ++ colons pre ++ DASHDEFAULT.

Lemma qmname_2 s :
  (qmname 2 s = None /\ (VP_PATH_MAX <= length s + 7)%nat) \/ qmname 2 s = Some (QMAIL ++ colons s).
Proof.
  unfold qmname. replace (Nat.testbit 2 1) with true by reflexivity. replace (Nat.testbit 2 0) with false by reflexivity.
  rewrite dotqm_eq, len_qmail, map_dot2colon.
  destruct (VP_PATH_MAX <=? 7 + length s)%nat eqn:E.
  - left. apply Nat.leb_le in E. split; [reflexivity|lia].
  - now right.
Qed.

Lemma qmname_3 s :
  (qmname 3 s = None /\ (VP_PATH_MAX <= length s + 15)%nat) \/ qmname 3 s = Some (pname s).
Proof.
  unfold qmname. replace (Nat.testbit 3 1) with true by reflexivity. replace (Nat.testbit 3 0) with true by reflexivity.
  rewrite dotqm_eq, default_eq, dash_eq, len_qmail, len_default, map_dot2colon.
  destruct (VP_PATH_MAX <=? 7 + length s)%nat eqn:E1; [left; apply Nat.leb_le in E1; split; [reflexivity|lia]|].
  destruct (VP_PATH_MAX <=? 7 + length s + 1)%nat eqn:E2; [left; apply Nat.leb_le in E2; split; [reflexivity|lia]|].
  destruct (VP_PATH_MAX <=? 7 + length s + 1 + 7)%nat eqn:E3; [left; apply Nat.leb_le in E3; split; [reflexivity|lia]|].
  right. unfold pname, DASHDEFAULT. now rewrite <- !app_assoc.
Qed.

Lemma qmname_1 s : qmname 1 s = Some (QMAIL ++ DEFAULT).
Proof.
  unfold qmname. replace (Nat.testbit 1 1) with false by reflexivity. replace (Nat.testbit 1 0) with true by reflexivity.
  rewrite dotqm_eq, default_eq, len_qmail, len_default.
  destruct (VP_PATH_MAX <=? 7 + 7)%nat eqn:E; [|reflexivity].
  apply Nat.leb_le in E. pose proof path_max_big. lia.
Qed.

(** * qmexists *)
(** what a descriptor handed back through [*fd] refers to *)
Definition fd_ok (fs : name -> entry) (nm : name) (fd : option entry) : Prop :=
  match fd with
  | Some e => e = fs nm /\ (e = EDir \/ exists c, e = EFile c)
  | None => exists c, fs nm = EErr c
  end.

Inductive qm_case (fs : name -> entry) (nm : name) (bound len : nat) : list probe * qmres -> Prop :=
| qc_guard : (VP_PATH_MAX <= len + bound)%nat -> qm_case fs nm bound len ([], QMerr (- Z.of_N VP_ENOENT))
| qc_yes fd : present (fs nm) -> fd_ok fs nm fd -> qm_case fs nm bound len ([PFile nm], QMyes fd)
| qc_no : ~ present (fs nm) -> ~ qm_hard (fs nm) -> qm_case fs nm bound len ([PFile nm], QMno)
| qc_err z : z < 0 -> qm_hard (fs nm) -> qm_case fs nm bound len ([PFile nm], QMerr z).

Lemma qm_open_case fs nm bound len : qm_case fs nm bound len ([PFile nm], qm_open fs nm).
Proof.
  unfold qm_open. destruct (fs nm) as [|c| |e] eqn:E; cbn [file_open].
  - (* absent *) destruct enoent_qm as [H1 [H2 H3]]. rewrite H1, H2, H3.
    apply qc_no; rewrite E; simpl; tauto.
  - apply qc_yes; [rewrite E; exact I|]. simpl. rewrite E. split; [reflexivity|right; eauto].
  - apply qc_yes; [rewrite E; exact I|]. simpl. rewrite E. split; [reflexivity|left; reflexivity].
  - destruct (mem e VP_QM_NOMEM) eqn:M1.
    { apply qc_err; [apply neg_enomem|]. rewrite E. simpl. now apply qm_nomem_hard. }
    destruct (mem e VP_QM_EXISTS) eqn:M2.
    { apply qm_exists_spec in M2. apply qc_yes; [rewrite E; exact M2|]. simpl. eauto. }
    destruct (mem e VP_QM_ABSENT) eqn:M3.
    { apply qm_absent_spec in M3. apply qc_no; rewrite E; simpl.
      - intros H. unfold VP_ENOENT, VP_EISDIR, VP_ENAMETOOLONG, VP_EACCES in *. destruct M3 as [M|[M|M]]; subst; discriminate.
      - tauto. }
    apply qc_err; [apply neg_edone|]. rewrite E. simpl.
    assert (A : ~ (e = VP_ENOENT \/ e = VP_EISDIR \/ e = VP_ENAMETOOLONG)) by (rewrite <- qm_absent_spec; congruence).
    assert (B : e <> VP_EACCES) by (rewrite <- qm_exists_spec; congruence).
    tauto.
Qed.

Lemma qmexists_2 fs s : qm_case fs (QMAIL ++ colons s) 7 (length s) (qmexists fs 2 s).
Proof.
  unfold qmexists. destruct (qmname_2 s) as [[H B]|H]; rewrite H.
  - now apply qc_guard.
  - apply qm_open_case.
Qed.
Lemma qmexists_3 fs s : qm_case fs (pname s) 15 (length s) (qmexists fs 3 s).
Proof.
  unfold qmexists. destruct (qmname_3 s) as [[H B]|H]; rewrite H.
  - now apply qc_guard.
  - apply qm_open_case.
Qed.
Lemma qmexists_1 fs s : qm_case fs (QMAIL ++ DEFAULT) 0 0 (qmexists fs 1 s).
Proof. unfold qmexists. rewrite qmname_1. apply qm_open_case. Qed.

(** * Components *)
Lemma in_colons b s : In b (colons s) -> In b s \/ b = COLON.
Proof.
  unfold colons. rewrite in_map_iff. intros [x [Hx Hin]].
  destruct (N.eqb x DOT); [right; now subst|left; now subst].
Qed.

Lemma no_slash_qmail : ~ In SLASH QMAIL.
Proof. unfold QMAIL, SLASH. simpl. intros H. repeat (destruct H as [H|H]; [discriminate|]). exact H. Qed.
Lemma no_slash_default : ~ In SLASH DEFAULT.
Proof. unfold DEFAULT, SLASH. simpl. intros H. repeat (destruct H as [H|H]; [discriminate|]). exact H. Qed.
Lemma no_slash_dashdefault : ~ In SLASH DASHDEFAULT.
Proof. unfold DASHDEFAULT. simpl. intros [H|H]; [discriminate|now apply no_slash_default]. Qed.
Lemma no_slash_colons s : ~ In SLASH s -> ~ In SLASH (colons s).
Proof. intros H Hin. apply in_colons in Hin. destruct Hin as [Hin|Hin]; [auto|discriminate]. Qed.

Lemma component_qmail_app rest : ~ In SLASH rest -> component (QMAIL ++ rest).
Proof.
  intros H. unfold component. split; [|split].
  - rewrite in_app_iff. intros [A|A]; [now apply no_slash_qmail|auto].
  - unfold QMAIL. simpl. discriminate.
  - unfold QMAIL. simpl. discriminate.
Qed.
Lemma component_qm2 s : ~ In SLASH s -> component (QMAIL ++ colons s).
Proof. intros H. apply component_qmail_app. now apply no_slash_colons. Qed.
Lemma component_pname s : ~ In SLASH s -> component (pname s).
Proof.
  intros H. apply component_qmail_app. rewrite in_app_iff. intros [A|A].
  - revert A. now apply no_slash_colons.
  - now apply no_slash_dashdefault.
Qed.
Lemma component_catch : component (QMAIL ++ DEFAULT).
Proof. apply component_qmail_app. apply no_slash_default. Qed.

Lemma qm_case_probes fs nm bound len r :
  qm_case fs nm bound len r -> component nm -> Forall (fun p => component (probe_name p)) (fst r).
Proof. intros H C. inversion H; subst; simpl; repeat (constructor; try exact C). Qed.

Lemma refused_false local : refused local = false -> component local.
Proof.
  unfold refused. rewrite slash_eq, dots_eq. intros H. apply orb_false_iff in H as [H1 H2].
  unfold component. split; [|split].
  - intros Hin. apply mem_In in Hin. congruence.
  - intros ->. simpl in H2. discriminate.
  - intros ->. simpl in H2. discriminate.
Qed.
Lemma refused_true local : refused local = true -> ~ component local.
Proof.
  unfold refused. rewrite slash_eq, dots_eq. intros H [C1 [C2 C3]]. apply orb_true_iff in H as [H|H].
  - apply mem_In in H. contradiction.
  - apply andb_true_iff in H as [H Heq]. apply andb_true_iff in H as [Hl1 Hl2].
    apply bytes_eqb_eq in Heq. apply Nat.ltb_lt in Hl1. apply Nat.leb_le in Hl2. simpl in Hl2.
    destruct local as [|a [|b [|c l]]]; simpl in *; try lia; congruence.
Qed.

(** * The dash scan *)
Lemma dash_loop_confined fs : forall rest pre lg r,
  dash_loop fs pre rest = (lg, r) -> ~ In SLASH pre -> ~ In SLASH rest ->
  Forall (fun p => component (probe_name p)) lg.
Proof.
  induction rest as [|b rest IH]; intros pre lg r H Hp Hr; simpl in H.
  - inversion H; subst. constructor.
  - assert (Hp' : ~ In SLASH (pre ++ [b])).
    { rewrite in_app_iff. simpl. intros [A|[A|[]]]; [auto|]. apply Hr. left. exact A. }
    assert (Hr' : ~ In SLASH rest) by (intros A; apply Hr; now right).
    destruct (N.eqb b VP_SCANDASH).
    + rewrite flag2 in H. pose proof (qmexists_3 fs pre) as Q.
      destruct (qmexists fs 3 pre) as [lg1 r1].
      pose proof (qm_case_probes _ _ _ _ _ Q (component_pname _ Hp)) as F. simpl in F.
      destruct r1 as [fd| |e].
      * inversion H; subst. exact F.
      * destruct (dash_loop fs (pre ++ [b]) rest) as [lg' r'] eqn:D. inversion H; subst.
        apply Forall_app. split; [exact F|]. eapply IH; eauto.
      * inversion H; subst. exact F.
    + eapply IH; eauto.
Qed.

Lemma dash_loop_sound fs : forall rest pre lg r,
  dash_loop fs pre rest = (lg, r) ->
  match r with
  | Some z => exists mid post, rest = mid ++ DASH :: post /\
      ((z = 4 /\ present (fs (pname (pre ++ mid))))
       \/ (z < 0 /\ ((VP_PATH_MAX <= length (pre ++ mid) + 15)%nat \/ qm_hard (fs (pname (pre ++ mid))))))
  | None => forall mid post, rest = mid ++ DASH :: post -> ~ present (fs (pname (pre ++ mid)))
  end.
Proof.
  induction rest as [|b rest IH]; intros pre lg r H; simpl in H.
  - inversion H; subst. intros mid post E. destruct mid; discriminate.
  - rewrite scandash_eq in H. destruct (N.eqb b DASH) eqn:Eb.
    + apply N.eqb_eq in Eb. subst b. rewrite flag2 in H. pose proof (qmexists_3 fs pre) as Q.
      destruct (qmexists fs 3 pre) as [lg1 r1]. inversion Q as [G|fd P F|NP NH|z Hz Hh]; subst.
      * inversion H; subst. exists [], rest. split; [reflexivity|]. right. split; [apply neg_enoent|].
        left. now rewrite app_nil_r.
      * inversion H; subst. exists [], rest. split; [reflexivity|]. left. rewrite app_nil_r, rc_prefix_eq. now split.
      * destruct (dash_loop fs (pre ++ [DASH]) rest) as [lg' r'] eqn:D. inversion H; subst.
        specialize (IH _ _ _ D). destruct r as [z|].
        -- destruct IH as [mid [post [E X]]]. exists (DASH :: mid), post. split; [now rewrite E|].
           now rewrite <- app_assoc in X.
        -- intros mid post E. destruct mid as [|m mid]; simpl in E.
           ++ now rewrite app_nil_r.
           ++ inversion E; subst. specialize (IH mid post eq_refl). now rewrite <- app_assoc in IH.
      * inversion H; subst. exists [], rest. split; [reflexivity|]. right. split; [exact Hz|]. right. now rewrite app_nil_r.
    + apply N.eqb_neq in Eb. specialize (IH _ _ _ H). destruct r as [z|].
      * destruct IH as [mid [post [E X]]]. exists (b :: mid), post. split; [now rewrite E|].
        now rewrite <- app_assoc in X.
      * intros mid post E. destruct mid as [|m mid]; simpl in E.
        -- inversion E; subst. congruence.
        -- inversion E; subst. specialize (IH mid post eq_refl). now rewrite <- app_assoc in IH.
Qed.

(** * The catch-all *)
Lemma is_bounce_spec b c : is_bounce b c = true <-> bounce_line b c.
Proof. unfold is_bounce, bounce_line. rewrite bounce_mul_eq. apply bytes_eqb_eq. Qed.

Definition CATCH : name := QMAIL ++ DEFAULT.

Lemma catchall_sound fs vb :
  fst (catchall fs vb) = [PFile CATCH] /\
  (0 < snd (catchall fs vb) -> snd (catchall fs vb) = 2 /\ form_catchall fs vb) /\
  (snd (catchall fs vb) = 0 -> ~ form_catchall fs vb) /\
  (snd (catchall fs vb) < 0 -> qm_hard (fs CATCH) \/ (vb <> None /\ fs CATCH = EDir)).
Proof.
  unfold catchall. rewrite flag3. pose proof (qmexists_1 fs []) as Q. fold CATCH in Q.
  destruct (qmexists fs 1 []) as [lg r]. simpl fst. simpl snd.
  unfold form_catchall, bounces. fold CATCH.
  inversion Q as [G|fd P F|NP NH|z Hz Hh]; subst.
  - pose proof path_max_big. lia.
  - split; [reflexivity|]. destruct fd as [e|]; simpl in F.
    + destruct F as [Ee Ek]. subst e. destruct vb as [b|].
      * destruct Ek as [Ek|[c Ek]].
        -- rewrite Ek. split; [intros L; pose proof neg_edone; lia|]. split; [intros L; pose proof neg_edone; lia|].
           intros _. right. split; [discriminate|reflexivity].
        -- rewrite Ek in P |- *. destruct (is_bounce b c) eqn:B.
           ++ apply is_bounce_spec in B. split; [lia|]. split; [tauto|lia].
           ++ assert (NB : ~ bounce_line b c) by (rewrite <- is_bounce_spec; congruence).
              rewrite rc_catchall_eq. split; [tauto|]. split; lia.
      * rewrite rc_catchall_eq. split; [intros _; split; [reflexivity|split; [exact P|tauto]]|]. split; lia.
    + destruct F as [c Ec]. rewrite Ec in *. rewrite rc_catchall_eq.
      split; [intros _; split; [reflexivity|split; [exact P|destruct vb; tauto]]|]. split; lia.
  - split; [reflexivity|]. split; [lia|]. split; [tauto|lia].
  - split; [reflexivity|]. split; [lia|]. split; [lia|]. intros _. now left.
Qed.

(** * user_exists after the domain directory is open *)
Definition forms (fs : name -> entry) (vb : option bytes) (local : bytes) : Prop :=
  form_dir fs local \/ form_qmail fs local \/ form_qmail_default fs local \/ form_prefix fs local \/ form_catchall fs vb.

Definition code_form (fs : name -> entry) (vb : option bytes) (local : bytes) (z : Z) : Prop :=
  (z = 1 /\ (form_dir fs local \/ form_qmail fs local \/ form_qmail_default fs local))
  \/ (z = 4 /\ form_prefix fs local)
  \/ (z = 2 /\ form_catchall fs vb).

Lemma code_form_forms fs vb local z : code_form fs vb local z -> forms fs vb local /\ 0 < z.
Proof. unfold code_form, forms. intros [[-> H]|[[-> H]|[-> H]]]; split; try lia; tauto. Qed.

Lemma in_domain_confined fs vb local :
  component local -> Forall (fun p => component (probe_name p)) (probes (in_domain fs vb local)).
Proof.
  intros C. assert (NS : ~ In SLASH local) by apply C.
  assert (P0 : Forall (fun p => component (probe_name p)) [PDir local]) by (constructor; [exact C|constructor]).
  unfold in_domain. destruct (dir_open (fs local)) as [e|]; [|exact P0].
  destruct (negb (mem e VP_DIR_SOFT)); [exact P0|]. destruct (N.eqb e VP_EACCES); [exact P0|].
  rewrite flag0, flag1.
  pose proof (qm_case_probes _ _ _ _ _ (qmexists_2 fs local) (component_qm2 _ NS)) as F1.
  destruct (qmexists fs 2 local) as [l1 r1]. simpl in F1.
  assert (F2 : Forall (fun p => component (probe_name p))
                 (fst (match r1 with QMno => qmexists fs 3 local | _ => ([], r1) end))).
  { destruct r1; simpl; try constructor. apply (qm_case_probes _ _ _ _ _ (qmexists_3 fs local) (component_pname _ NS)). }
  destruct (match r1 with QMno => qmexists fs 3 local | _ => ([], r1) end) as [l2 r2]. simpl in F2.
  assert (F12 : Forall (fun p => component (probe_name p)) (PDir local :: l1 ++ l2)).
  { constructor; [exact C|]. apply Forall_app. now split. }
  destruct r2 as [fd| |e2]; simpl; try exact F12.
  destruct (dash_loop fs [] local) as [l3 r3] eqn:D.
  assert (F3 : Forall (fun p => component (probe_name p)) l3).
  { eapply dash_loop_confined; eauto. }
  destruct r3 as [z|]; simpl.
  - constructor; [exact C|]. rewrite !Forall_app. tauto.
  - pose proof (catchall_sound fs vb) as [F4 _]. destruct (catchall fs vb) as [l4 z]. simpl in *. subst l4.
    constructor; [exact C|]. rewrite !Forall_app. repeat split; try assumption.
    constructor; [apply component_catch|constructor].
Qed.

Lemma in_domain_userdir_eq fs vb local :
  userdir (in_domain fs vb local) = match dir_open (fs local) with None => Some local | Some _ => None end.
Proof.
  unfold in_domain. destruct (dir_open (fs local)) as [e|]; [|reflexivity].
  destruct (negb (mem e VP_DIR_SOFT)); [reflexivity|]. destruct (N.eqb e VP_EACCES); [reflexivity|].
  destruct (qmexists fs (flag 0) local) as [l1 r1].
  destruct (match r1 with QMno => qmexists fs (flag 1) local | _ => ([], r1) end) as [l2 r2].
  destruct r2; try reflexivity.
  destruct (dash_loop fs [] local) as [l3 r3]. destruct r3; [reflexivity|].
  destruct (catchall fs vb). reflexivity.
Qed.

Lemma in_domain_userdir fs vb local n :
  userdir (in_domain fs vb local) = Some n -> n = local /\ fs local = EDir.
Proof.
  rewrite in_domain_userdir_eq. destruct (fs local); simpl; intros H; inversion H. now split.
Qed.

Lemma in_domain_sound fs vb local :
  let o := in_domain fs vb local in
  (0 < rc o -> code_form fs vb local (rc o)) /\
  (rc o = 0 -> ~ forms fs vb local) /\
  (rc o < 0 -> io_error fs vb local).
Proof.
  unfold io_error. rewrite len_qmail, len_dashdefault. change (7 + 8)%nat with 15%nat.
  cbv zeta. unfold in_domain.
  destruct (dir_open (fs local)) as [e|] eqn:DO.
  2:{ (* the user directory exists *)
      assert (E : fs local = EDir) by (destruct (fs local); simpl in DO; congruence).
      simpl. rewrite rc_dir_eq. split; [|split]; try lia. intros _. left. split; [reflexivity|]. left. exact E. }
  destruct (mem e VP_DIR_SOFT) eqn:SOFT; simpl negb; cbv iota.
  2:{ (* hard failure of the directory lookup *)
      simpl. split; [pose proof neg_edone; lia|]. split; [pose proof neg_edone; lia|]. intros _. right. left.
      destruct (fs local) as [|c| |c]; simpl in DO; try discriminate; injection DO as DO; subst e.
      - now rewrite enoent_soft in SOFT.
      - now rewrite enotdir_soft in SOFT.
      - unfold dir_hard. assert (A : ~ (c = VP_ENOENT \/ c = VP_ENOTDIR \/ c = VP_ENAMETOOLONG)) by (rewrite <- dir_soft_spec; congruence). tauto. }
  rewrite (dir_soft_not_eacces _ SOFT).
  assert (ND : ~ form_dir fs local).
  { unfold form_dir. intros E. rewrite E in DO. discriminate. }
  rewrite flag0, flag1.
  pose proof (qmexists_2 fs local) as Q1. destruct (qmexists fs 2 local) as [l1 r1].
  inversion Q1 as [G|fd P F|NP1 NH1|z Hz Hh]; subst.
  - (* PATH_MAX guard *) simpl. split; [pose proof neg_enoent; lia|]. split; [pose proof neg_enoent; lia|]. intros _. left. lia.
  - (* .qmail-local *) simpl. rewrite rc_qmail_eq. split; [|split]; try lia. intros _. left. split; [reflexivity|]. right. left. exact P.
  - (* not there: .qmail-local-default *)
    pose proof (qmexists_3 fs local) as Q2. destruct (qmexists fs 3 local) as [l2 r2].
    inversion Q2 as [G|fd P F|NP2 NH2|z Hz Hh]; subst.
    + simpl. split; [pose proof neg_enoent; lia|]. split; [pose proof neg_enoent; lia|]. intros _. left. lia.
    + simpl. rewrite rc_qmail_eq. split; [|split]; try lia. intros _. left. split; [reflexivity|]. right. right. exact P.
    + (* the dash scan *)
      destruct (dash_loop fs [] local) as [l3 r3] eqn:D. pose proof (dash_loop_sound fs _ _ _ _ D) as DS.
      destruct r3 as [z|].
      * simpl. destruct DS as [mid [post [E [[Hz P]|[Hz X]]]]]; simpl app in *.
        -- subst z. split; [|split]; try lia. intros _. right. left. split; [reflexivity|]. exists mid, post. now split.
        -- split; [lia|]. split; [lia|]. intros _. destruct X as [X|X].
           ++ left. subst local. rewrite app_length. simpl. lia.
           ++ right. right. right. right. left. exists mid, post. now split.
      * pose proof (catchall_sound fs vb) as [_ [C1 [C2 C3]]]. destruct (catchall fs vb) as [l4 z]. simpl in *.
        split; [|split].
        -- intros L. destruct (C1 L) as [-> FC]. right. right. now split.
        -- intros L. unfold forms. intros [A|[A|[A|[A|A]]]].
           ++ exact (ND A).
           ++ exact (NP1 A).
           ++ exact (NP2 A).
           ++ destruct A as [pre [post [E PP]]]. apply (DS pre post E). exact PP.
           ++ exact (C2 L A).
        -- intros L. destruct (C3 L) as [X|X]; tauto.
    + simpl. split; [lia|]. split; [lia|]. intros _. right. right. right. left. exact Hh.
  - simpl. split; [lia|]. split; [lia|]. intros _. right. right. left. exact Hh.
Qed.

(** * users/cdb *)
Lemma key_eqb d1 d2 : bytes_eqb (VP_KEY_FIRST :: d1 ++ [VP_KEY_LAST]) (VP_KEY_FIRST :: d2 ++ [VP_KEY_LAST]) = bytes_eqb d1 d2.
Proof.
  destruct (bytes_eqb d1 d2) eqn:E.
  - apply bytes_eqb_eq in E. subst. apply bytes_eqb_eq. reflexivity.
  - destruct (bytes_eqb (VP_KEY_FIRST :: d1 ++ [VP_KEY_LAST]) (VP_KEY_FIRST :: d2 ++ [VP_KEY_LAST])) eqn:E2; [|reflexivity].
    apply bytes_eqb_eq in E2. injection E2 as E2. apply app_inv_tail in E2. subst.
    assert (bytes_eqb d2 d2 = true) by now apply bytes_eqb_eq. congruence.
Qed.

Lemma find_ext' {A} (f g : A -> bool) (l : list A) : (forall x, f x = g x) -> find f l = find g l.
Proof. intros H. induction l as [|x l IH]; simpl; [reflexivity|]. rewrite H, IH. reflexivity. Qed.

Lemma vget_dir_eq db domain :
  vget_dir db domain =
  if (VP_CDBKEY <=? length domain + 3)%nat then inl (- Z.of_N VP_EFAULT) else inr (domain_state db domain).
Proof.
  unfold vget_dir, domain_state. replace (length domain + 2 + 1)%nat with (length domain + 3)%nat by lia.
  destruct (VP_CDBKEY <=? length domain + 3)%nat; [reflexivity|]. destruct db as [l|]; [|reflexivity].
  unfold bytes in *. induction l as [|kv l IH]; cbn [find]; [reflexivity|]. rewrite key_eqb.
  destruct (bytes_eqb (fst kv) domain); [reflexivity|exact IH].
Qed.

Lemma domain_found_state db domain :
  domain_found db domain -> (VP_CDBKEY <=? length domain + 3)%nat = false /\ domain_state db domain = Some DomTree.
Proof.
  intros [L [l [-> [pre [post [-> F]]]]]]. split; [apply Nat.leb_gt; lia|]. unfold domain_state.
  induction pre as [|kv pre IH]; simpl.
  - assert (E : bytes_eqb domain domain = true) by now apply bytes_eqb_eq. now rewrite E.
  - inversion F as [|x y Hx Hy]; subst. destruct (bytes_eqb (fst kv) domain) eqn:E.
    + apply bytes_eqb_eq in E. contradiction.
    + now apply IH.
Qed.

(** * The property theorems *)
Theorem user_exists_sound db fs vb domain local :
  domain_found db domain ->
  let o := user_exists db fs vb domain local in
  (0 < rc o -> mailbox fs vb local /\ code_form fs vb local (rc o)) /\
  (rc o = 0 -> ~ mailbox fs vb local) /\
  (rc o < 0 -> io_error fs vb local).
Proof.
  intros DF. cbv zeta. unfold user_exists, user_exists_with. destruct (refused local) eqn:R.
  - simpl. apply refused_true in R. split; [lia|]. split; [|lia]. intros _ [C _]. contradiction.
  - apply refused_false in R. rewrite vget_dir_eq. destruct (domain_found_state _ _ DF) as [G S]. rewrite G, S.
    cbn [dom_errno]. pose proof (in_domain_sound fs vb local) as [A [B C]]. split; [|split].
    + intros L. specialize (A L). split; [|exact A]. split; [exact R|]. apply code_form_forms in A. apply A.
    + intros L [_ M]. now apply B.
    + exact C.
Qed.

Theorem user_exists_exact db fs vb domain local :
  domain_found db domain -> ~ io_error fs vb local ->
  let z := rc (user_exists db fs vb domain local) in
  (z = 1 \/ z = 2 \/ z = 4 <-> mailbox fs vb local) /\ (z = 0 <-> ~ mailbox fs vb local).
Proof.
  intros DF NE. cbv zeta. pose proof (user_exists_sound db fs vb domain local DF) as [A [B C]]. cbv zeta in *.
  set (z := rc (user_exists db fs vb domain local)) in *.
  assert (NN : 0 <= z) by (destruct (Z_lt_le_dec z 0) as [L|L]; [exfalso; apply NE; now apply C|exact L]).
  split; split.
  - intros H. apply A. lia.
  - intros M. destruct (Z.eq_dec z 0) as [E|E]; [exfalso; now apply B|].
    assert (L : 0 < z) by lia. destruct (A L) as [_ CF]. unfold code_form in CF. tauto.
  - exact B.
  - intros NM. destruct (Z.eq_dec z 0) as [E|E]; [exact E|]. exfalso. apply NM. apply A. lia.
Qed.

Theorem user_exists_with_confined vg fs vb local :
  let o := user_exists_with vg fs vb local in
  confined (probes o) /\
  (forall n, userdir o = Some n -> n = local /\ component local /\ fs local = EDir).
Proof.
  cbv zeta. unfold user_exists_with, confined. destruct (refused local) eqn:R.
  { simpl. split; [constructor|discriminate]. }
  apply refused_false in R.
  destruct vg as [e|[d|]]; try (simpl; split; [constructor|discriminate]).
  destruct (dom_errno d) as [e|].
  { destruct (mem e VP_DOM_ERR); [simpl; split; [constructor|discriminate]|].
    destruct (mem e VP_DOM_ABSENT); [simpl; split; [constructor|discriminate]|].
    destruct (mem e VP_DOM_EXISTS); simpl; (split; [constructor|discriminate]). }
  split; [now apply in_domain_confined|].
  intros n H. apply in_domain_userdir in H. tauto.
Qed.

Theorem user_exists_confined db fs vb domain local :
  let o := user_exists db fs vb domain local in
  confined (probes o) /\
  (forall n, userdir o = Some n -> n = local /\ component local /\ fs local = EDir).
Proof. apply user_exists_with_confined. Qed.

Lemma firstn_In' {A} (x : A) n l : In x (firstn n l) -> In x l.
Proof.
  revert l; induction n as [|n IH]; intros l H; simpl in H; [contradiction|].
  destruct l as [|y l]; [contradiction|]. destruct H as [H|H]; [now left|right; now apply IH].
Qed.

(** the comparison with the bounce line is equality for texts without NUL *)
Lemma cstr_nonul l : ~ In 0%N l -> cstr l = l.
Proof.
  induction l as [|b l IH]; simpl; [reflexivity|]. intros H.
  destruct (N.eqb b 0) eqn:E; [apply N.eqb_eq in E; exfalso; apply H; now left|].
  f_equal. apply IH. intros A. apply H. now right.
Qed.

Theorem bounce_line_eq vb c : ~ In 0%N c -> vb <> [] -> (bounce_line vb c <-> c = vb).
Proof.
  intros NC NV. unfold bounce_line.
  assert (NF : ~ In 0%N (firstn (2 * length vb) c)).
  { intros A. apply NC. eapply firstn_In'; eauto. }
  rewrite (cstr_nonul _ NF).
  destruct (le_lt_dec (length c) (2 * length vb)) as [L|L].
  - rewrite firstn_all2 by exact L. tauto.
  - split; intros H.
    + exfalso. assert (E : length (firstn (2 * length vb) c) = length vb) by now rewrite H.
      rewrite firstn_length in E. destruct vb as [|v vb']; [congruence|]. cbn [length] in *. lia.
    + subst c. lia.
Qed.

(** * The boolean checker reflects the specification *)
Lemma component_b_spec n : component_b n = true <-> component n.
Proof.
  unfold component_b, component. rewrite !andb_true_iff, !negb_true_iff. split.
  - intros [[A B] C]. split; [|split].
    + intros H. apply mem_In in H. congruence.
    + intros ->. simpl in B. discriminate.
    + intros ->. simpl in C. discriminate.
  - intros [A [B C]]. split; [split|].
    + destruct (mem SLASH n) eqn:E; [apply mem_In in E; contradiction|reflexivity].
    + destruct (bytes_eqb n [DOT]) eqn:E; [apply bytes_eqb_eq in E; contradiction|reflexivity].
    + destruct (bytes_eqb n [DOT; DOT]) eqn:E; [apply bytes_eqb_eq in E; contradiction|reflexivity].
Qed.

Lemma confined_b_spec ps : confined_b ps = true <-> confined ps.
Proof.
  unfold confined_b, confined. rewrite forallb_forall, Forall_forall.
  split; intros H p Hp; apply component_b_spec; auto.
Qed.

Lemma present_b_spec e : present_b e = true <-> present e.
Proof. destruct e; simpl; try tauto; try (split; [discriminate|contradiction]). apply N.eqb_eq. Qed.

Lemma dir_hard_b_spec e : dir_hard_b e = true <-> dir_hard e.
Proof.
  destruct e as [| | |c]; simpl; try (split; [discriminate|contradiction]).
  rewrite !andb_true_iff, !negb_true_iff, !N.eqb_neq. tauto.
Qed.
Lemma qm_hard_b_spec e : qm_hard_b e = true <-> qm_hard e.
Proof.
  destruct e as [| | |c]; simpl; try (split; [discriminate|contradiction]).
  rewrite !andb_true_iff, !negb_true_iff, !N.eqb_neq. tauto.
Qed.
Lemma is_dir_b_spec e : is_dir_b e = true <-> e = EDir.
Proof. destruct e; simpl; split; congruence. Qed.

Lemma dash_prefixes_spec : forall rest pre p,
  In p (dash_prefixes pre rest) <-> exists mid post, rest = mid ++ DASH :: post /\ p = pre ++ mid.
Proof.
  induction rest as [|b rest IH]; intros pre p; simpl.
  - split; [contradiction|]. intros [mid [post [E _]]]. destruct mid; discriminate.
  - rewrite in_app_iff, IH. split.
    + intros [H|[mid [post [E ->]]]].
      * destruct (N.eqb b DASH) eqn:Eb; [|contradiction]. apply N.eqb_eq in Eb. destruct H as [<-|[]].
        exists [], rest. subst b. split; [reflexivity|now rewrite app_nil_r].
      * exists (b :: mid), post. split; [now rewrite E|now rewrite <- app_assoc].
    + intros [mid [post [E ->]]]. destruct mid as [|m mid]; simpl in E.
      * injection E as -> ->. left. rewrite N.eqb_refl. left. now rewrite app_nil_r.
      * injection E as -> ->. right. exists mid, post. split; [reflexivity|now rewrite <- app_assoc].
Qed.

Lemma form_prefix_b_spec fs local : form_prefix_b fs local = true <-> form_prefix fs local.
Proof.
  unfold form_prefix_b, form_prefix. rewrite existsb_exists. split.
  - intros [p [Hin P]]. apply dash_prefixes_spec in Hin as [mid [post [E ->]]]. exists mid, post.
    split; [exact E|]. now apply present_b_spec.
  - intros [pre [post [E P]]]. exists pre. split; [|now apply present_b_spec].
    apply dash_prefixes_spec. exists pre, post. now split.
Qed.

Lemma bounces_b_spec fs vb : bounces_b fs vb = true <-> bounces fs vb.
Proof.
  unfold bounces_b, bounces. destruct vb as [b|]; [|split; [discriminate|contradiction]].
  destruct (fs (QMAIL ++ DEFAULT)); try (split; [discriminate|contradiction]). apply bytes_eqb_eq.
Qed.

Lemma form_catchall_b_spec fs vb : form_catchall_b fs vb = true <-> form_catchall fs vb.
Proof.
  unfold form_catchall_b, form_catchall. rewrite andb_true_iff, negb_true_iff, present_b_spec.
  split; intros [A B]; split; try exact A.
  - rewrite <- bounces_b_spec. congruence.
  - destruct (bounces_b fs vb) eqn:E; [apply bounces_b_spec in E; contradiction|reflexivity].
Qed.

Lemma forms1_b_spec fs local :
  forms1_b fs local = true <-> form_dir fs local \/ form_qmail fs local \/ form_qmail_default fs local.
Proof.
  unfold forms1_b, form_dir, form_qmail, form_qmail_default.
  rewrite !orb_true_iff, is_dir_b_spec, !present_b_spec. tauto.
Qed.

Lemma mailbox_b_spec fs vb local : mailbox_b fs vb local = true <-> mailbox fs vb local.
Proof.
  unfold mailbox_b, mailbox. rewrite andb_true_iff, !orb_true_iff, component_b_spec, forms1_b_spec,
    form_prefix_b_spec, form_catchall_b_spec. tauto.
Qed.

Lemma io_error_b_spec fs vb local : io_error_b fs vb local = true <-> io_error fs vb local.
Proof.
  unfold io_error_b, io_error. rewrite !orb_true_iff, andb_true_iff, Nat.leb_le, dir_hard_b_spec, !qm_hard_b_spec,
    is_dir_b_spec, existsb_exists.
  assert (X : (exists p, In p (dash_prefixes [] local) /\ qm_hard_b (fs (QMAIL ++ colons p ++ DASHDEFAULT)) = true)
              <-> (exists pre post, local = pre ++ DASH :: post /\ qm_hard (fs (QMAIL ++ colons pre ++ DASHDEFAULT)))).
  { split.
    - intros [p [Hin P]]. apply dash_prefixes_spec in Hin as [mid [post [E ->]]]. exists mid, post.
      split; [exact E|]. now apply qm_hard_b_spec.
    - intros [pre [post [E P]]]. exists pre. split; [|now apply qm_hard_b_spec].
      apply dash_prefixes_spec. exists pre, post. now split. }
  rewrite X.
  assert (Y : (match vb with Some _ => true | None => false end = true) <-> vb <> None).
  { destruct vb; split; congruence. }
  rewrite Y. tauto.
Qed.

Lemma if_false {A} (a b : A) : (if false then a else b) = b. Proof. reflexivity. Qed.
Lemma if_true {A} (a b : A) : (if true then a else b) = a. Proof. reflexivity. Qed.

(** What a verdict "ok" of the checker on an observation (rc, conf, probes) means, for a domain with a record
    whose path is a directory and a local part that is a path component: the observation is confined, no
    configuration from the domain directory itself or from outside was taken for the user's, and rc is related
    to the existence of the mailbox as in C13_exists. *)
Theorem checker_sound db lay vbfile domain local z conf ps :
  spec_ok_C13 db lay vbfile domain local z conf ps = true ->
  confined ps /\ (conf = 0 \/ conf = 1)%N /\
  (component local -> (length domain + 3 < VP_CDBKEY)%nat -> domain_state db domain = Some DomTree ->
   let fs := fs_of_layout lay in let vb := vpopbounce_of vbfile in
   (0 < z -> mailbox fs vb local /\ code_form fs vb local z) /\
   (z = 0 -> ~ mailbox fs vb local) /\
   (z < 0 -> io_error fs vb local)).
Proof.
  unfold spec_ok_C13. intros H. apply andb_true_iff in H as [H H3]. apply andb_true_iff in H as [H1 H2].
  split; [now apply confined_b_spec|]. split; [apply N.leb_le in H2; lia|].
  intros C L S. cbv zeta. apply component_b_spec in C. rewrite C in H3. simpl negb in H3.
  match type of H3 with (if false then _ else ?B) = true => change (B = true) in H3 end.
  assert (G : (VP_CDBKEY <=? length domain + 3)%nat = false) by (apply Nat.leb_gt; lia).
  rewrite G, S in H3.
  destruct (0 <? z) eqn:P.
  - apply Z.ltb_lt in P. apply andb_true_iff in H3 as [H3 _]. apply andb_true_iff in H3 as [M K].
    apply mailbox_b_spec in M. split; [|split; lia]. intros _. split; [exact M|]. unfold code_form.
    destruct (z =? 1) eqn:E1; [apply Z.eqb_eq in E1; apply forms1_b_spec in K; tauto|].
    destruct (z =? 4) eqn:E4; [apply Z.eqb_eq in E4; apply form_prefix_b_spec in K; tauto|].
    destruct (z =? 2) eqn:E2; [apply Z.eqb_eq in E2; apply form_catchall_b_spec in K; tauto|discriminate].
  - apply Z.ltb_ge in P. destruct (z =? 0) eqn:E0.
    + apply Z.eqb_eq in E0. split; [lia|]. split; [|lia]. intros _ M. apply mailbox_b_spec in M.
      rewrite M in H3. discriminate.
    + apply Z.eqb_neq in E0. split; [lia|]. split; [lia|]. intros _. now apply io_error_b_spec.
Qed.

(** The model's own observation always passes the checker (so a verdict "bad" on a C observation that equals
    the model's cannot occur: disagreement with the model or a real violation is needed). *)
Theorem model_passes_checker db lay vbfile domain local :
  let o := user_exists db (fs_of_layout lay) (vpopbounce_of vbfile) domain local in
  spec_ok_C13 db lay vbfile domain local (rc o) (conf_of o) (probes o) = true.
Proof.
  cbv zeta. set (fs := fs_of_layout lay). set (vb := vpopbounce_of vbfile).
  pose proof (user_exists_confined db fs vb domain local) as [CF UD]. cbv zeta in CF, UD.
  unfold spec_ok_C13. fold fs vb. apply confined_b_spec in CF. rewrite CF. rewrite andb_true_l.
  assert (CO : (conf_of (user_exists db fs vb domain local) <=? 1)%N = true).
  { unfold conf_of. destruct (userdir _); reflexivity. }
  rewrite CO. rewrite andb_true_l.
  unfold user_exists, user_exists_with in *. destruct (refused local) eqn:R.
  { apply refused_true in R. destruct (component_b local) eqn:C; [apply component_b_spec in C; contradiction|]. simpl negb.
    match goal with |- (if true then ?B else _) = true => change (B = true) end. reflexivity. }
  apply refused_false in R. pose proof R as C. apply component_b_spec in C. rewrite C. simpl negb.
  match goal with |- (if false then _ else ?B) = true => change (B = true) end.
  rewrite vget_dir_eq in *. destruct (VP_CDBKEY <=? length domain + 3)%nat eqn:G; [reflexivity|].
  destruct (domain_state db domain) as [[| |]|] eqn:S; try reflexivity.
  cbn [dom_errno] in *.
  pose proof (in_domain_sound fs vb local) as [A [B E]]. cbv zeta in A, B, E.
  set (o := in_domain fs vb local) in *.
  destruct (0 <? rc o) eqn:P.
  - apply Z.ltb_lt in P. specialize (A P). destruct (code_form_forms _ _ _ _ A) as [F _].
    assert (M : mailbox fs vb local) by (split; assumption). apply mailbox_b_spec in M. rewrite M. rewrite andb_true_l.
    assert (K : (if rc o =? 1 then forms1_b fs local else if rc o =? 4 then form_prefix_b fs local
                 else if rc o =? 2 then form_catchall_b fs vb else false) = true).
    { unfold code_form in A. destruct A as [[-> X]|[[-> X]|[-> X]]]; simpl.
      - now apply forms1_b_spec. - now apply form_prefix_b_spec. - now apply form_catchall_b_spec. }
    rewrite K. rewrite andb_true_l. unfold conf_of. destruct (userdir o) as [n|] eqn:U; [|reflexivity].
    destruct (UD n eq_refl) as [-> [_ D]].
    assert (R1 : rc o = 1). { unfold o, in_domain. rewrite D. simpl. apply rc_dir_eq. }
    rewrite R1, D. reflexivity.
  - apply Z.ltb_ge in P. destruct (rc o =? 0) eqn:E0.
    + apply Z.eqb_eq in E0. specialize (B E0). destruct (mailbox_b fs vb local) eqn:M; [|reflexivity].
      apply mailbox_b_spec in M. destruct M as [_ M]. contradiction.
    + apply Z.eqb_neq in E0. apply io_error_b_spec. apply E. lia.
Qed.

(** * The reply to RCPT TO *)
Lemma nouser_pre_550 : exists t, VP_NOUSER_PRE = REPLY_550 ++ t.
Proof. eexists. reflexivity. Qed.

Theorem rcpt_reply_sound db fs vb domain local :
  let l := map to_lower local in
  let d := map to_lower domain in
  domain_found db d ->
  match fst (addrparse_rcpt db fs vb local domain) with
  | RAccept => mailbox fs vb l
  | RNoUser text => ~ mailbox fs vb l /\ exists t, text = REPLY_550 ++ t
  | RError e => 0 < e /\ io_error fs vb l
  end.
Proof.
  cbv zeta. intros DF. unfold addrparse_rcpt, reply_of. cbn [fst].
  pose proof (user_exists_sound db fs vb _ (map to_lower local) DF) as [A [B C]]. cbv zeta in A, B, C.
  set (z := rc (user_exists db fs vb (map to_lower domain) (map to_lower local))) in *.
  destruct (z <? 0) eqn:L.
  - apply Z.ltb_lt in L. split; [lia|now apply C].
  - apply Z.ltb_ge in L. destruct (z =? 0) eqn:E.
    + apply Z.eqb_eq in E. split; [now apply B|]. destruct nouser_pre_550 as [t ->].
      eexists. rewrite <- app_assoc. reflexivity.
    + apply Z.eqb_neq in E. apply A. lia.
Qed.

Theorem rcpt_reply_exact db fs vb domain local :
  let l := map to_lower local in
  let d := map to_lower domain in
  domain_found db d -> ~ io_error fs vb l ->
  let r := fst (addrparse_rcpt db fs vb local domain) in
  (r = RAccept <-> mailbox fs vb l) /\
  (~ mailbox fs vb l <-> exists t, r = RNoUser (REPLY_550 ++ t)).
Proof.
  cbv zeta. intros DF NE. pose proof (rcpt_reply_sound db fs vb domain local DF) as S. cbv zeta in S.
  destruct (fst (addrparse_rcpt db fs vb local domain)) as [|text|e].
  - split; [tauto|]. split; [tauto|]. intros [t H]. discriminate.
  - destruct S as [NM [t ->]]. split; [split; [discriminate|tauto]|]. split; eauto.
  - destruct S as [_ S]. contradiction.
Qed.

Definition rcpt_obs (r : rcpt_reply) : Z * bytes :=
  match r with RAccept => (0, []) | RNoUser t => (-1, t) | RError e => (e, []) end.

Lemma starts_550 l d : starts_with REPLY_550 (VP_NOUSER_PRE ++ (l ++ AT :: d) ++ VP_NOUSER_POST) = true.
Proof. reflexivity. Qed.

Theorem model_passes_rcpt_checker db lay vbfile domain local :
  let ro := addrparse_rcpt db (fs_of_layout lay) (vpopbounce_of vbfile) local domain in
  spec_ok_C13_rcpt db lay vbfile domain local (fst (rcpt_obs (fst ro))) (snd (rcpt_obs (fst ro)))
    (conf_of (snd ro)) (probes (snd ro)) = true.
Proof.
  cbv zeta. unfold addrparse_rcpt, reply_of. cbn [fst snd].
  set (fs := fs_of_layout lay). set (vb := vpopbounce_of vbfile).
  set (l := map to_lower local). set (d := map to_lower domain).
  pose proof (user_exists_confined db fs vb d l) as [CF UD]. cbv zeta in CF, UD.
  unfold spec_ok_C13_rcpt. fold fs vb l d. apply confined_b_spec in CF. rewrite CF. rewrite andb_true_l.
  assert (CO : (conf_of (user_exists db fs vb d l) <=? 1)%N = true).
  { unfold conf_of. destruct (userdir _); reflexivity. }
  rewrite CO. rewrite andb_true_l. clear CF UD CO.
  unfold user_exists, user_exists_with. destruct (refused l) eqn:R.
  { apply refused_true in R. destruct (component_b l) eqn:C; [apply component_b_spec in C; contradiction|].
    simpl negb. match goal with |- (if true then ?B else _) = true => change (B = true) end.
    cbn [rc probes]. change (0 <? 0) with false. change (0 =? 0) with true. cbn [rcpt_obs fst snd nil_b].
    rewrite starts_550. reflexivity. }
  apply refused_false in R. pose proof R as C. apply component_b_spec in C. rewrite C. simpl negb.
  match goal with |- (if false then _ else ?B) = true => change (B = true) end.
  rewrite vget_dir_eq. destruct (VP_CDBKEY <=? length d + 3)%nat eqn:G; [reflexivity|].
  destruct (domain_state db d) as [[| |]|] eqn:S.
  - cbn [dom_errno].
    pose proof (in_domain_sound fs vb l) as [A [B E]]. cbv zeta in A, B, E.
    set (o := in_domain fs vb l) in *.
    destruct (rc o <? 0) eqn:L.
    + apply Z.ltb_lt in L. cbn [rcpt_obs fst snd].
      assert (N0 : (- rc o =? 0) = false) by (apply Z.eqb_neq; lia).
      assert (N1 : (- rc o =? -1) = false).
      { apply Z.eqb_neq. intros H. assert (rc o = 1) by lia. lia. }
      rewrite N0, N1. apply andb_true_iff. split; [apply Z.ltb_lt; lia|]. apply io_error_b_spec. now apply E.
    + apply Z.ltb_ge in L. destruct (rc o =? 0) eqn:E0.
      * apply Z.eqb_eq in E0. cbn [rcpt_obs fst snd]. change (-1 =? 0) with false. change (-1 =? -1) with true.
        rewrite starts_550, andb_true_r. destruct (mailbox_b fs vb l) eqn:M; [|reflexivity].
        apply mailbox_b_spec in M. destruct M as [_ M]. exfalso. now apply (B E0).
      * apply Z.eqb_neq in E0. cbn [rcpt_obs fst snd nil_b]. change (0 =? 0) with true. rewrite andb_true_r.
        assert (P : 0 < rc o) by lia. specialize (A P). destruct (code_form_forms _ _ _ _ A) as [F _].
        apply mailbox_b_spec. now split.
  - reflexivity.
  - reflexivity.
  - reflexivity.
Qed.

(** * Address literals *)
Theorem literal_reply_sound localip liphost db fs vb local iptext :
  let l := map to_lower local in
  domain_found db liphost ->
  match fst (addrparse_literal localip liphost db fs vb local iptext) with
  | RAccept => literal_is_local localip (map to_lower iptext) = true /\ mailbox fs vb l
  | RNoUser text => (literal_is_local localip (map to_lower iptext) = false \/ ~ mailbox fs vb l) /\ exists t, text = REPLY_550 ++ t
  | RError e => 0 < e /\ io_error fs vb l
  end.
Proof.
  cbv zeta. intros DF. unfold addrparse_literal.
  destruct (literal_is_local localip (map to_lower iptext)) eqn:M; cbn [fst].
  - unfold reply_of.
    pose proof (user_exists_sound db fs vb _ (map to_lower local) DF) as [A [B C]]. cbv zeta in A, B, C.
    set (z := rc (user_exists db fs vb liphost (map to_lower local))) in *.
    destruct (z <? 0) eqn:L.
    + apply Z.ltb_lt in L. split; [lia|now apply C].
    + apply Z.ltb_ge in L. destruct (z =? 0) eqn:E.
      * apply Z.eqb_eq in E. split; [right; now apply B|]. destruct nouser_pre_550 as [t ->].
        eexists. rewrite <- app_assoc. reflexivity.
      * apply Z.eqb_neq in E. split; [reflexivity|]. apply A. lia.
  - split; [now left|]. destruct nouser_pre_550 as [t ->]. eexists. rewrite <- app_assoc. reflexivity.
Qed.

(** the comparison is equality of the bracketed text (without tag) with the local address *)
Lemma prefix_rbr : forall rest localip, ~ In RBR rest -> ~ In RBR localip ->
  firstn (length localip) (rest ++ [RBR]) = localip -> nth (length localip) (rest ++ [RBR]) 0%N = RBR -> rest = localip.
Proof.
  induction rest as [|r rest IH]; intros [|a l] NR NL A B; cbn [length firstn app nth] in *.
  - reflexivity.
  - injection A as A1 A2. exfalso. apply NL. left. now symmetry.
  - exfalso. apply NR. now left.
  - injection A as A1 A2. subst a. f_equal. apply IH; try assumption.
    + intros H. apply NR. now right.
    + intros H. apply NL. now right.
Qed.

Lemma literal_is_local_spec localip ip : ~ In RBR localip -> ~ In RBR ip ->
  literal_is_local localip ip = true <->
  (if bytes_eqb (firstn (length VP_IPV6TAG) ip) (map to_lower VP_IPV6TAG) then skipn (length VP_IPV6TAG) ip else ip) = localip.
Proof.
  intros NL NI. unfold literal_is_local, literal_text.
  set (rest := if bytes_eqb (firstn (length VP_IPV6TAG) ip) (map to_lower VP_IPV6TAG) then skipn (length VP_IPV6TAG) ip else ip).
  assert (NR : ~ In RBR rest).
  { unfold rest. destruct (bytes_eqb _ _); [|exact NI]. intros H. apply NI. clear -H.
    revert H. generalize (length VP_IPV6TAG). intros n. revert ip. induction n as [|n IH]; intros ip H; [exact H|].
    destruct ip as [|b ip]; [exact H|]. right. now apply IH. }
  clearbody rest. rewrite andb_true_iff, bytes_eqb_eq, N.eqb_eq. split.
  - intros [A B]. now apply prefix_rbr.
  - intros <-. split.
    + rewrite firstn_app, Nat.sub_diag, firstn_all. simpl. now rewrite app_nil_r.
    + rewrite app_nth2, Nat.sub_diag by lia. reflexivity.
Qed.

(** C18 proofs, part 2: the event list of the model satisfies the one-pass checker
    [spec_ok_C18].  A relation [Rel] between the program state and the checker state
    reached after the events so far is preserved by every primitive (write, net_read,
    handshake, close) and carried through the loops by induction on the fuel.

    The four facts about the code that the proof needs (they are the proposed fixes;
    each is a generated constant, so with a fix missing the corresponding lemma fails):
    [fix_purge], [fix_route], [fix_free_ssl], [fix_pinned]. *)
From Qv Require Import Common.Bytes Gen.GenNetio Gen.GenStarttls Model.NetRead Spec.LineSpec
  Proofs.NetReadProofs Model.TlsClient Spec.TlsSwitchSpec Proofs.TlsSwitchRead.
Local Open Scope bool_scope.

Lemma fix_purge : ST_PURGES = true.   (* lib/netio.c drops input that was buffered under another TLS state *)
Proof. reflexivity. Qed.
Lemma fix_route : ST_QUITMSG_RESETS_ROUTE = false.   (* quitmsg() keeps expect_tls and the client certificate of the route *)
Proof. reflexivity. Qed.
Lemma fix_free_ssl : ST_QIN_FREES_SSL = true.   (* quitmsg_if_net() drops the TLS session together with the socket *)
Proof. reflexivity. Qed.
Lemma fix_pinned : ST_PINNED_NEEDS_TLS = true.   (* main() refuses a host with a tlshosts file outside TLS *)
Proof. reflexivity. Qed.

Section Sim.
Variable tf : conn -> list (N * Z).

(* ------------------------------------------------------------------ the relation *)
(** the part of lineinn that the next read will look at *)
Definition einn (s : st) : bytes := if Bool.eqb (s_innssl s) (s_ssl s) then s_inn s else [].
Definition synced (s : st) : Prop := s_innssl s = s_ssl s.

Definition Inv (k : tcase) (s : st) (c : cst) : Prop :=
  s_xtls s = k_route k /\ s_rcert s = k_route k /\
  length (s_inn s) <= LINEINBUF - 1 /\
  (if s_sock s then
     match x_ph c with
     | PNone => False
     | PClear | PFailed => s_ssl s = false /\ rest (s_tls s) = tls_stream (conn_of k (x_k c))
     | PTls prev => s_ssl s = true /\ prev = length (einn s) + length (rest (s_tls s)) /\
                    exists used, tls_stream (conn_of k (x_k c)) = used ++ einn s ++ rest (s_tls s)
     end
   else s_ssl s = false).

Definition Rel (k : tcase) (s : st) (c : cst) : Prop := steps tf k cst0 (s_tr s) = Some c /\ Inv k s c.
Definition Tr (k : tcase) (s : st) : Prop := exists c, steps tf k cst0 (s_tr s) = Some c.

Definition ok_res {A} (k : tcase) (P : A -> st -> cst -> Prop) (r : res A) : Prop :=
  match r with
  | Ret a s' => exists c', Rel k s' c' /\ P a s' c'
  | Exit s' | Stuck s' => Tr k s'
  end.

Lemma steps_app k tr1 : forall c tr2,
  steps tf k c (tr1 ++ tr2) = match steps tf k c tr1 with Some c' => steps tf k c' tr2 | None => None end.
Proof.
  induction tr1 as [|e tr1 IH]; intros c tr2; simpl; [reflexivity|].
  destruct (step tf k c e); [apply IH|reflexivity].
Qed.

Lemma Rel_Tr k s c : Rel k s c -> Tr k s.
Proof. intros [H _]. now exists c. Qed.

Lemma Rel_log k s c e c' :
  steps tf k cst0 (s_tr s) = Some c -> step tf k c e = Some c' -> Inv k s c' -> Rel k (log e s) c'.
Proof.
  intros Ht Hs Hi. split.
  - cbn [log s_tr]. rewrite steps_app, Ht. cbn [steps]. now rewrite Hs.
  - exact Hi.
Qed.

Lemma ok_bind {A B} k (m : res A) (f : A -> st -> res B) (P : A -> st -> cst -> Prop) (Q : B -> st -> cst -> Prop) :
  ok_res k P m ->
  (forall a s c, Rel k s c -> P a s c -> ok_res k Q (f a s)) ->
  ok_res k Q (rbind m f).
Proof.
  intros Hm Hf. destruct m as [a s|s|s]; cbn [rbind ok_res] in *; [|exact Hm|exact Hm].
  destruct Hm as (c & Hr & Hp). now apply (Hf a s c).
Qed.

Lemma ok_weaken {A} k (P Q : A -> st -> cst -> Prop) (r : res A) :
  ok_res k P r -> (forall a s c, Rel k s c -> P a s c -> Q a s c) -> ok_res k Q r.
Proof.
  intros H Hw. destruct r as [a s|s|s]; cbn [ok_res] in *; [|exact H|exact H].
  destruct H as (c & Hr & Hp). exists c. split; [exact Hr|now apply Hw].
Qed.

Definition kind (p : phase) : nat := match p with PNone => 0 | PClear => 1 | PFailed => 2 | PTls _ => 3 end.
Definition subN (a b : N) : Prop := N.lor b a = b.
Definition keeps (c c' : cst) : Prop :=
  x_k c' = x_k c /\ x_vfy c' = x_vfy c /\ kind (x_ph c') = kind (x_ph c) /\ subN (x_acc c) (x_acc c').

Lemma subN_refl a : subN a a.
Proof. unfold subN. apply N.lor_diag. Qed.
Lemma subN_trans a b c : subN a b -> subN b c -> subN a c.
Proof. unfold subN. intros H1 H2. rewrite <- H2 at 1. rewrite <- N.lor_assoc, H1. exact H2. Qed.
Lemma subN_lor_l a b : subN a (N.lor a b).
Proof. unfold subN. rewrite (N.lor_comm a b), <- N.lor_assoc. now rewrite N.lor_diag. Qed.
Lemma subN_lor_r a b : subN b (N.lor a b).
Proof. unfold subN. rewrite <- N.lor_assoc. now rewrite N.lor_diag. Qed.
Lemma subN_lor a b c : subN a c -> subN b c -> subN (N.lor a b) c.
Proof. unfold subN. intros H1 H2. rewrite N.lor_assoc, H1. exact H2. Qed.
Lemma subN_0 a : subN 0 a.
Proof. unfold subN. apply N.lor_0_r. Qed.

Lemma keeps_refl c : keeps c c.
Proof. repeat split. apply subN_refl. Qed.
Lemma keeps_trans a b c : keeps a b -> keeps b c -> keeps a c.
Proof.
  intros (H1 & H2 & H3 & H4) (G1 & G2 & G3 & G4). repeat split; try congruence.
  eapply subN_trans; eassumption.
Qed.

(* ------------------------------------------------------------------ write *)
Lemma nwrite_ok k s c b :
  Rel k s c -> s_sock s = true -> (x_ph c = PFailed -> b = ST_CMD_QUIT) -> Rel k (nwrite b s) c.
Proof.
  intros Hr Hsock Hq. unfold nwrite. apply (Rel_log k s c _ c (proj1 Hr)); [|exact (proj2 Hr)].
  destruct Hr as [_ (_ & _ & _ & Hp)]. rewrite Hsock in Hp. cbn [step].
  destruct (x_ph c) as [| | |prev]; [contradiction| | |].
  - destruct Hp as [-> _]. reflexivity.
  - destruct Hp as [-> _]. rewrite (Hq eq_refl). now rewrite (proj2 (bytes_eqb_eq _ _) eq_refl).
  - destruct Hp as [-> _]. reflexivity.
Qed.

(* ------------------------------------------------------------------ net_read *)
Lemma firstn_app_exact {A} (a b : list A) n : n = length a -> firstn n (a ++ b) = a.
Proof. intros ->. rewrite firstn_app, Nat.sub_diag, firstn_all. simpl. apply app_nil_r. Qed.
Lemma skipn_app_exact {A} (a b : list A) n : n = length a -> skipn n (a ++ b) = b.
Proof. intros ->. rewrite skipn_app, Nat.sub_diag, skipn_all. reflexivity. Qed.

Definition read_post (c : cst) (s : st) (it : ritem) (s' : st) (c' : cst) : Prop :=
  keeps c c' /\ s_sock s' = true /\ s_linein s' = s_linein s /\
  (forall l, it = RLine l -> kind (x_ph c) = 3 -> subN (line_ext l) (x_acc c')) /\ synced s'.

Lemma upd_net_tr s i e : s_tr (upd_net s i e) = s_tr s.
Proof. unfold upd_net. destruct (s_ssl s); reflexivity. Qed.

(** net_read() behind drop_stale_input() *)
Definition nread_core (s : st) : res ritem :=
  let '(it, r) := net_read2 {| inn := s_inn s; en := chan s |} in
  let s1 := upd_net s (inn r) (en r) in
  match it with
  | RDie => Exit (die s1)
  | RStuck => Stuck s1
  | _ => Ret it (log (EvR (s_ssl s) it (length (inn r) + length (rest (en r)))) s1)
  end.

Lemma nread_core_ok k s c :
  Rel k s c -> s_sock s = true -> synced s -> ok_res k (read_post c s) (nread_core s).
Proof.
  intros Hr Hsock Hsyn. pose proof LB as HLB.
  destruct Hr as [Ht (Hx & Hrc & Hlen & Hp)]. rewrite Hsock in Hp.
  assert (He : einn s = s_inn s) by (unfold einn; rewrite Hsyn, Bool.eqb_reflx; reflexivity).
  rewrite He in Hp.
  unfold nread_core.
  destruct (net_read2 {| inn := s_inn s; en := chan s |}) as [it r] eqn:En.
  destruct (net_read2_spec {| inn := s_inn s; en := chan s |} it r Hlen En) as (Hit & Hlen').
  unfold total in Hit. cbn [inn en] in Hit.
  assert (Ht' : steps tf k cst0 (s_tr (upd_net s (inn r) (en r))) = Some c) by (rewrite upd_net_tr; exact Ht).
  assert (Hdie : Tr k (die (upd_net s (inn r) (en r)))) by (exists c; exact Ht').
  assert (Hstuck : Tr k (upd_net s (inn r) (en r))) by (exists c; exact Ht').
  destruct (x_ph c) as [| | |prev] eqn:Eph; [contradiction| | |].
  - (* clear *)
    destruct Hp as [Hssl Htls].
    assert (Hgo : forall it0, ok_res k (read_post c s)
              (Ret it0 (log (EvR (s_ssl s) it0 (length (inn r) + length (rest (en r)))) (upd_net s (inn r) (en r))))).
    { intros it0. exists c. split.
      - apply (Rel_log k _ c _ c Ht').
        + cbn [step]. rewrite Eph, Hssl. reflexivity.
        + unfold Inv, upd_net. rewrite Hssl. cbn. rewrite Hsock, Eph. repeat split; assumption.
      - unfold read_post. repeat split; try apply subN_refl.
        + unfold upd_net. rewrite Hssl. cbn. exact Hsock.
        + unfold upd_net. rewrite Hssl. reflexivity.
        + intros l _ Hk. rewrite Eph in Hk. discriminate.
        + unfold synced, upd_net. rewrite Hssl. cbn. rewrite <- Hssl. exact Hsyn. }
    destruct it; try apply Hgo; [exact Hdie|exact Hstuck].
  - (* after a failed handshake *)
    destruct Hp as [Hssl Htls].
    assert (Hgo : forall it0, ok_res k (read_post c s)
              (Ret it0 (log (EvR (s_ssl s) it0 (length (inn r) + length (rest (en r)))) (upd_net s (inn r) (en r))))).
    { intros it0. exists c. split.
      - apply (Rel_log k _ c _ c Ht').
        + cbn [step]. rewrite Eph, Hssl. reflexivity.
        + unfold Inv, upd_net. rewrite Hssl. cbn. rewrite Hsock, Eph. repeat split; assumption.
      - unfold read_post. repeat split; try apply subN_refl.
        + unfold upd_net. rewrite Hssl. cbn. exact Hsock.
        + unfold upd_net. rewrite Hssl. reflexivity.
        + intros l _ Hk. rewrite Eph in Hk. discriminate.
        + unfold synced, upd_net. rewrite Hssl. cbn. rewrite <- Hssl. exact Hsyn. }
    destruct it; try apply Hgo; [exact Hdie|exact Hstuck].
  - (* inside TLS *)
    destruct Hp as (Hssl & Hprev & used & Hused).
    unfold chan in *. rewrite Hssl in *.
    assert (Hin : s_innssl s = true) by (rewrite Hsyn; exact Hssl).
    set (T := tls_stream (conn_of k (x_k c))) in *.
    set (lft := length (inn r) + length (rest (en r))).
    (* what a step that consumes [j] looks like *)
    assert (Hgo : forall it0 j acc',
               s_inn s ++ rest (s_tls s) = j ++ inn r ++ rest (en r) ->
               step tf k c (EvR true it0 lft) = Some (mkC (x_k c) (PTls lft) (x_vfy c) acc') ->
               subN (x_acc c) acc' ->
               (forall l, it0 = RLine l -> subN (line_ext l) acc') ->
               ok_res k (read_post c s) (Ret it0 (log (EvR true it0 lft) (upd_net s (inn r) (en r))))).
    { intros it0 j acc' Hj Hstep Hacc Hext. exists (mkC (x_k c) (PTls lft) (x_vfy c) acc').
      split.
      - apply (Rel_log k _ c _ _ Ht' Hstep).
        unfold Inv, einn, upd_net. rewrite Hssl. cbn. rewrite Hin, Hsock. cbn. repeat split; try assumption.
        exists (used ++ j). fold T. rewrite Hused, Hj. now rewrite <- app_assoc.
      - unfold read_post, keeps. cbn [x_k x_vfy x_ph x_acc kind]. rewrite Eph. repeat split; try assumption.
        + unfold upd_net. rewrite Hssl. cbn. exact Hsock.
        + unfold upd_net. rewrite Hssl. reflexivity.
        + intros l Hl _. now apply Hext.
        + unfold synced, upd_net. rewrite Hssl. cbn. exact Hin. }
    assert (HlenT : length T = length used + prev).
    { rewrite Hused, Hprev. rewrite !app_length. lia. }
    destruct it as [l| | | | |]; cbn [erase item_ok] in Hit; unfold total in Hit; cbn [inn en] in Hit.
    + (* a line *)
      destruct Hit as (Hcut & _ & _).
      apply (Hgo (RLine l) (l ++ [CR; LF]) (N.lor (x_acc c) (line_ext l))).
      * rewrite Hcut. now rewrite <- !app_assoc.
      * cbn [step]. rewrite Eph. cbn [negb].
        assert (Hpl : prev = length l + 2 + lft).
        { pose proof (f_equal (@length _) Hcut) as Hc2. rewrite !app_length in Hc2. simpl in Hc2. unfold lft. lia. }
        fold T. replace (Nat.leb lft prev) with true by (symmetry; apply Nat.leb_le; lia).
        replace (sub T (length T - prev) (prev - lft)) with (l ++ [CR; LF]).
        { rewrite (proj2 (bytes_eqb_eq _ _) eq_refl). reflexivity. }
        unfold sub. replace (length T - prev) with (length used) by lia.
        rewrite Hused, skipn_app_exact by reflexivity. rewrite Hcut.
        replace (l ++ [CR; LF] ++ inn r ++ rest (en r)) with ((l ++ [CR; LF]) ++ inn r ++ rest (en r)) by now rewrite <- app_assoc.
        symmetry. apply firstn_app_exact. rewrite app_length. simpl. lia.
      * apply subN_lor_l.
      * intros l0 Hl0. inversion Hl0; subst. apply subN_lor_r.
    + destruct Hit as (j & _ & Hj).
      apply (Hgo RInval j (x_acc c) Hj); [|apply subN_refl|discriminate].
      cbn [step]. rewrite Eph. cbn [negb].
      replace (Nat.leb lft prev) with true; [reflexivity|].
      symmetry. apply Nat.leb_le. pose proof (f_equal (@length _) Hj) as Hc2. rewrite !app_length in Hc2. unfold lft. lia.
    + destruct Hit as (j & _ & Hj).
      apply (Hgo R2big j (x_acc c) Hj); [|apply subN_refl|discriminate].
      cbn [step]. rewrite Eph. cbn [negb].
      replace (Nat.leb lft prev) with true; [reflexivity|].
      symmetry. apply Nat.leb_le. pose proof (f_equal (@length _) Hj) as Hc2. rewrite !app_length in Hc2. unfold lft. lia.
    + (* reset: nothing is left *)
      destruct (net_read2_reset _ _ En) as (Hi0 & Hr0).
      apply (Hgo RReset (s_inn s ++ rest (s_tls s)) (x_acc c)); [|  |apply subN_refl|discriminate].
      * rewrite Hi0, Hr0. now rewrite !app_nil_r.
      * cbn [step]. rewrite Eph. cbn [negb].
        replace (Nat.leb lft prev) with true; [reflexivity|].
        symmetry. apply Nat.leb_le. unfold lft. rewrite Hi0, Hr0. simpl. lia.
    + exact Hdie.
    + exact Hstuck.
Qed.

Lemma Rel_purge k s c :
  Rel k s c -> Rel k (purge s) c /\ synced (purge s).
Proof.
  intros Hr. unfold purge. rewrite fix_purge. cbn [andb].
  destruct (Bool.eqb (s_innssl s) (s_ssl s)) eqn:E; cbn [negb].
  - split; [exact Hr|]. now apply Bool.eqb_prop.
  - split; [|reflexivity].
    destruct Hr as [Ht (Hx & Hrc & Hlen & Hp)]. split; [exact Ht|].
    unfold Inv, einn in *. cbn. rewrite E in Hp. rewrite Bool.eqb_reflx.
    repeat split; try assumption. lia.
Qed.

Lemma nread_ok k s c :
  Rel k s c -> s_sock s = true -> ok_res k (read_post c s) (nread s).
Proof.
  intros Hr Hsock. destruct (Rel_purge k s c Hr) as (Hr' & Hsyn).
  assert (Hs' : s_sock (purge s) = true).
  { unfold purge. destruct (ST_PURGES && negb (Bool.eqb (s_innssl s) (s_ssl s))); exact Hsock. }
  assert (Hl' : s_linein (purge s) = s_linein s).
  { unfold purge. destruct (ST_PURGES && negb (Bool.eqb (s_innssl s) (s_ssl s))); reflexivity. }
  change (nread s) with (nread_core (purge s)).
  eapply ok_weaken; [apply (nread_core_ok k (purge s) c Hr' Hs' Hsyn)|].
  intros it s' c' _ (H1 & H2 & H3 & H4). split; [exact H1|]. split; [exact H2|]. split; [congruence|exact H4].
Qed.

(* ------------------------------------------------------------------ netget(0) *)
Lemma Rel_set_linein k s c l : Rel k s c -> Rel k (set_linein l s) c.
Proof. intros H. exact H. Qed.

Definition get_post (c : cst) (v : Z) (s' : st) (c' : cst) : Prop :=
  keeps c c' /\ s_sock s' = true /\
  ((0 <? v)%Z = true -> kind (x_ph c) = 3 -> subN (line_ext (s_linein s')) (x_acc c')) /\ synced s'.

Lemma neg_not_pos e : (0 <? neg e)%Z = false.
Proof. unfold neg. apply Z.ltb_ge. lia. Qed.

Lemma netget0_ok k s c :
  Rel k s c -> s_sock s = true -> ok_res k (get_post c) (netget0 s).
Proof.
  intros Hr Hsock. unfold netget0.
  eapply ok_bind; [apply nread_ok; eassumption|].
  intros it s1 c1 Hr1 (Hk & Hs1 & _ & Hext & Hsyn).
  assert (Herr : forall e s2, Rel k s2 c1 -> s_sock s2 = true -> synced s2 -> ok_res k (get_post c) (Ret (neg e) s2)).
  { intros e s2 Hr2 Hs2 Hy2. exists c1. split; [exact Hr2|]. split; [exact Hk|]. split; [exact Hs2|].
    split; [|exact Hy2]. intros H. rewrite neg_not_pos in H. discriminate. }
  destruct it as [l| | | | |]; try (apply Herr; assumption).
  destruct (netget_code l) as [code|].
  - exists c1. split; [apply Rel_set_linein; exact Hr1|].
    split; [exact Hk|]. split; [exact Hs1|]. split; [|exact Hsyn].
    intros _ Hk3. cbn [set_linein s_linein]. now apply (Hext l).
  - apply Herr; [apply Rel_set_linein; exact Hr1|exact Hs1|exact Hsyn].
Qed.

(* ------------------------------------------------------------------ greeting() *)
Definition loop_post (c : cst) (s' : st) (c' : cst) : Prop := keeps c c' /\ s_sock s' = true /\ synced s'.

Lemma ehlo_loop_ok k fuel : forall sc ret err s c,
  Rel k s c -> s_sock s = true -> synced s -> (kind (x_ph c) = 3 -> subN ret (x_acc c)) ->
  ok_res k (fun r s' c' => loop_post c s' c' /\
             match r with inl t => (t <? 0)%Z = true | inr (ret', _) => kind (x_ph c) = 3 -> subN ret' (x_acc c') end)
         (ehlo_loop fuel sc ret err s).
Proof.
  induction fuel as [|fuel IH]; intros sc ret err s c Hr Hsock Hsyn Hret; cbn [ehlo_loop].
  { destruct (dash3 s); [exact (Rel_Tr _ _ _ Hr)|].
    exists c. split; [exact Hr|]. split; [split; [apply keeps_refl|split; assumption]|exact Hret]. }
  destruct (dash3 s).
  2:{ exists c. split; [exact Hr|]. split; [split; [apply keeps_refl|split; assumption]|exact Hret]. }
  eapply ok_bind; [apply netget0_ok; eassumption|].
  intros t s1 c1 Hr1 (Hk1 & Hs1 & Hext & Hy1).
  assert (Hk13 : kind (x_ph c1) = kind (x_ph c)) by apply Hk1.
  assert (Hrec : forall ret' err', (kind (x_ph c) = 3 -> subN ret' (x_acc c1)) ->
            ok_res k (fun r s' c' => loop_post c s' c' /\
               match r with inl t => (t <? 0)%Z = true | inr (ret'', _) => kind (x_ph c) = 3 -> subN ret'' (x_acc c') end)
              (ehlo_loop fuel sc ret' err' s1)).
  { intros ret' err' Hret'. eapply ok_weaken; [apply (IH sc ret' err' s1 c1 Hr1 Hs1 Hy1)|].
    - intros H3. apply Hret'. congruence.
    - intros r s' c' _ ((Hk' & Hs' & Hy') & Hm). split; [split; [eapply keeps_trans; eassumption|split; assumption]|].
      destruct r as [|[ret'' ?]]; [exact Hm|]. intros H3. apply Hm. congruence. }
  assert (Hold : kind (x_ph c) = 3 -> subN ret (x_acc c1)).
  { intros H3. eapply subN_trans; [apply Hret; exact H3|apply Hk1]. }
  destruct (negb (Z.eqb sc t)) eqn:Ene.
  - destruct (t <? 0)%Z eqn:Et.
    + exists c1. split; [exact Hr1|]. split; [split; [assumption|split; assumption]|exact Et].
    + apply Hrec. exact Hold.
  - apply negb_false_iff, Z.eqb_eq in Ene. subst t.
    destruct (Z.eqb sc ST_EHLO_OK && negb err) eqn:E2; [|apply Hrec; exact Hold].
    apply andb_true_iff in E2 as [Esc _]. apply Z.eqb_eq in Esc.
    destruct (check_ext (ext_arg (s_linein s1)) <? 0)%Z eqn:Eneg; [apply Hrec; exact Hold|].
    apply Hrec. intros H3. apply subN_lor; [apply Hold; exact H3|].
    assert (Hpos : (0 <? sc)%Z = true) by (rewrite Esc; reflexivity).
    specialize (Hext Hpos H3). unfold line_ext in Hext. rewrite Eneg in Hext. exact Hext.
Qed.

Lemma helo_loop_ok k fuel : forall sc err s c,
  Rel k s c -> s_sock s = true -> synced s ->
  ok_res k (fun r s' c' => loop_post c s' c' /\ match r with inl t => (t <? 0)%Z = true | inr _ => True end)
         (helo_loop fuel sc err s).
Proof.
  induction fuel as [|fuel IH]; intros sc err s c Hr Hsock Hsyn; cbn [helo_loop].
  { destruct (dash3 s); [exact (Rel_Tr _ _ _ Hr)|].
    exists c. split; [exact Hr|]. split; [split; [apply keeps_refl|split; assumption]|exact I]. }
  destruct (dash3 s).
  2:{ exists c. split; [exact Hr|]. split; [split; [apply keeps_refl|split; assumption]|exact I]. }
  eapply ok_bind; [apply netget0_ok; eassumption|].
  intros t s1 c1 Hr1 (Hk1 & Hs1 & _ & Hy1).
  destruct (t <? 0)%Z eqn:Et.
  - exists c1. split; [exact Hr1|]. split; [split; [assumption|split; assumption]|exact Et].
  - eapply ok_weaken; [apply (IH sc _ s1 c1 Hr1 Hs1 Hy1)|].
    intros r s' c' _ ((Hk' & Hs' & Hy') & Hm). split; [split; [eapply keeps_trans; eassumption|split; assumption]|exact Hm].
Qed.

Definition can_write (c : cst) : Prop := kind (x_ph c) = 1 \/ kind (x_ph c) = 3.

Lemma can_write_not_failed c b : can_write c -> x_ph c = PFailed -> b = ST_CMD_QUIT.
Proof. intros [H|H] E; rewrite E in H; discriminate. Qed.

Lemma keeps_can_write c c' : keeps c c' -> can_write c -> can_write c'.
Proof. intros (_ & _ & Hk & _) [H|H]; [left|right]; congruence. Qed.

Definition greet_post (c : cst) (g : Z) (s' : st) (c' : cst) : Prop :=
  loop_post c s' c' /\ ((0 <=? g)%Z = true -> kind (x_ph c) = 3 -> subN (Z.to_N g) (x_acc c')).

Lemma greeting_ok k s c :
  Rel k s c -> s_sock s = true -> can_write c -> ok_res k (greet_post c) (greeting s).
Proof.
  intros Hr Hsock Hw. unfold greeting.
  assert (Hr0 : Rel k (nwrite (helo_cmd ST_CMD_EHLO) s) c).
  { apply nwrite_ok; [exact Hr|exact Hsock|now apply can_write_not_failed]. }
  assert (Hneg : forall e s' c', Rel k s' c' -> loop_post c s' c' -> ok_res k (greet_post c) (Ret (neg e) s')).
  { intros e s' c' Hr' Hp. exists c'. split; [exact Hr'|]. split; [exact Hp|].
    intros _ _. unfold neg. destruct e; simpl; apply subN_0. }
  assert (Hnegv : forall v s' c', (v <? 0)%Z = true -> Rel k s' c' -> loop_post c s' c' -> ok_res k (greet_post c) (Ret v s')).
  { intros v s' c' Hv Hr' Hp. exists c'. split; [exact Hr'|]. split; [exact Hp|].
    intros H. apply Z.leb_le in H. apply Z.ltb_lt in Hv. lia. }
  eapply ok_bind; [apply netget0_ok; [exact Hr0|exact Hsock]|].
  intros sc s1 c1 Hr1 (Hk1 & Hs1 & _ & Hy1).
  destruct (sc <? 0)%Z eqn:Esc; [apply (Hnegv _ _ c1); [exact Esc|exact Hr1|split; [assumption|split; assumption]]|].
  eapply ok_bind; [apply (ehlo_loop_ok k _ sc 0%N false s1 c1 Hr1 Hs1 Hy1); intros _; apply subN_0|].
  intros r s2 c2 Hr2 ((Hk2 & Hs2 & Hy2) & Hm).
  assert (Hk02 : keeps c c2) by (eapply keeps_trans; eassumption).
  assert (Hp2 : loop_post c s2 c2) by (split; [assumption|split; assumption]).
  destruct r as [t|[ret err]].
  { apply (Hnegv _ _ c2); [exact Hm|exact Hr2|exact Hp2]. }
  destruct err; [apply (Hneg _ _ c2 Hr2); exact Hp2|].
  destruct (Z.eqb sc ST_EHLO_OK).
  { exists c2. split; [exact Hr2|]. split; [exact Hp2|].
    intros _ H3. rewrite N2Z.id. apply Hm. destruct Hk1 as (_ & _ & Hkk & _). congruence. }
  assert (Hr3 : Rel k (nwrite (helo_cmd ST_CMD_HELO) s2) c2).
  { apply nwrite_ok; [exact Hr2|exact Hs2|]. apply can_write_not_failed. eapply keeps_can_write; eassumption. }
  eapply ok_bind; [apply netget0_ok; [exact Hr3|exact Hs2]|].
  intros sh s4 c4 Hr4 (Hk4 & Hs4 & _ & Hy4).
  assert (Hk04 : keeps c c4) by (eapply keeps_trans; eassumption).
  assert (Hp4 : loop_post c s4 c4) by (split; [assumption|split; assumption]).
  destruct (sh <? 0)%Z eqn:Esh; [apply (Hnegv _ _ c4); [exact Esh|exact Hr4|exact Hp4]|].
  eapply ok_bind; [apply (helo_loop_ok k _ sh false s4 c4 Hr4 Hs4 Hy4)|].
  intros r2 s5 c5 Hr5 ((Hk5 & Hs5 & Hy5) & Hm5).
  assert (Hk05 : keeps c c5) by (eapply keeps_trans; eassumption).
  assert (Hp5 : loop_post c s5 c5) by (split; [assumption|split; assumption]).
  destruct r2 as [t|err2].
  { apply (Hnegv _ _ c5); [exact Hm5|exact Hr5|exact Hp5]. }
  destruct (negb err2 && Z.eqb sh ST_EHLO_OK).
  { exists c5. split; [exact Hr5|]. split; [exact Hp5|]. intros _ _. apply subN_0. }
  destruct (negb err2 && (ST_HELO_FAIL_LO <=? sh)%Z && (sh <=? ST_HELO_FAIL_HI)%Z); apply (Hneg _ _ c5 Hr5); exact Hp5.
Qed.

(* ------------------------------------------------------------------ quitmsg, shutdown *)
Lemma Rel_closed k s c : Rel k s c -> Rel k (set_conn false false s) c.
Proof.
  intros [Ht (Hx & Hrc & Hlen & _)]. split; [exact Ht|].
  unfold Inv. cbn. repeat split; assumption.
Qed.

Lemma quit_loop_ok k fuel : forall s c,
  Rel k s c -> s_sock s = true ->
  ok_res k (fun _ s' _ => s_sock s' = true) (quit_loop fuel s).
Proof.
  induction fuel as [|fuel IH]; intros s c Hr Hsock; cbn [quit_loop]; [exact (Rel_Tr _ _ _ Hr)|].
  eapply ok_bind; [apply nread_ok; eassumption|].
  intros it s1 c1 Hr1 (_ & Hs1 & _ & _).
  destruct it as [l| | | | |]; try (exists c1; split; [exact Hr1|exact Hs1]).
  destruct (Nat.leb 4 (length l) && N.eqb (nth 3 l 0%N) DASH).
  - apply (IH _ c1); [apply Rel_set_linein; exact Hr1|exact Hs1].
  - exists c1. split; [apply Rel_set_linein; exact Hr1|exact Hs1].
Qed.

Definition closed_post (_ : unit) (s' : st) (_ : cst) : Prop := s_sock s' = false.

Lemma quitmsg_ok k s c :
  Rel k s c -> s_sock s = true -> ok_res k closed_post (quitmsg s).
Proof.
  intros Hr Hsock. unfold quitmsg.
  assert (Hr0 : Rel k (nwrite ST_CMD_QUIT s) c) by (apply nwrite_ok; [exact Hr|exact Hsock|reflexivity]).
  eapply ok_bind; [apply (quit_loop_ok k _ _ c Hr0 Hsock)|].
  intros u s1 c1 Hr1 _. rewrite fix_route.
  exists c1. split; [apply Rel_closed; exact Hr1|reflexivity].
Qed.

Lemma shutdown_clean_ok {A} k s c (P : A -> st -> cst -> Prop) :
  Rel k s c -> ok_res k P (shutdown_clean s).
Proof.
  intros Hr. unfold shutdown_clean. destruct (s_sock s) eqn:Es; [|exact (Rel_Tr _ _ _ Hr)].
  pose proof (quitmsg_ok k s c Hr Es) as H.
  destruct (quitmsg s) as [u s1|s1|s1]; cbn [ok_res] in *; [|exact H|exact H].
  destruct H as (c1 & Hr1 & _). exact (Rel_Tr _ _ _ Hr1).
Qed.

Lemma shutdown_abort_ok {A} k s c (P : A -> st -> cst -> Prop) :
  Rel k s c -> ok_res k P (shutdown_abort s).
Proof. intros Hr. exact (Rel_Tr k _ c (Rel_closed k s c Hr)). Qed.

Lemma quitmsg_if_net_ok k err s c :
  Rel k s c -> s_sock s = true -> ok_res k closed_post (quitmsg_if_net err s).
Proof.
  intros Hr Hsock. unfold quitmsg_if_net. destruct (closes_socket err); [|now apply (quitmsg_ok k s c)].
  rewrite fix_free_ssl. exists c. split; [apply Rel_closed; exact Hr|reflexivity].
Qed.

Lemma connection_died_ok k s c :
  Rel k s c -> s_sock s = true -> kind (x_ph c) = 1 -> Rel k (connection_died s) c /\ s_sock (connection_died s) = false.
Proof.
  intros [Ht (Hx & Hrc & Hlen & Hp)] Hsock Hk. rewrite Hsock in Hp.
  destruct (x_ph c); try discriminate. destruct Hp as [Hssl _].
  split; [|reflexivity]. split; [exact Ht|]. unfold Inv. cbn. repeat split; assumption.
Qed.

(** what the callers of quitmsg & co. do with the result *)
Lemma next_ok k (m : res unit) :
  ok_res k closed_post m ->
  ok_res k (fun (ok : bool) s' c' => if ok then s_sock s' = true /\ can_write c' else s_sock s' = false)
    (rdo (_, s') <- m; Ret false s').
Proof.
  intros H. eapply ok_bind; [exact H|]. intros u s' c' Hr' Hp. exists c'. split; [exact Hr'|exact Hp].
Qed.

(* ------------------------------------------------------------------ tls_init *)
Lemma tls_reply_loop_ok k fuel : forall i s c,
  Rel k s c -> s_sock s = true -> synced s ->
  ok_res k (fun _ s' c' => loop_post c s' c') (tls_reply_loop fuel i s).
Proof.
  induction fuel as [|fuel IH]; intros i s c Hr Hsock Hsyn; cbn [tls_reply_loop].
  { destruct ((0 <? i)%Z && dash3 s); [exact (Rel_Tr _ _ _ Hr)|].
    exists c. split; [exact Hr|]. split; [apply keeps_refl|split; assumption]. }
  destruct ((0 <? i)%Z && dash3 s).
  2:{ exists c. split; [exact Hr|]. split; [apply keeps_refl|split; assumption]. }
  eapply ok_bind; [apply netget0_ok; eassumption|].
  intros t s1 c1 Hr1 (Hk1 & Hs1 & _ & Hy1).
  destruct (negb (Z.eqb i t)).
  - exists c1. split; [exact Hr1|]. split; [assumption|split; assumption].
  - eapply ok_weaken; [apply (IH i s1 c1 Hr1 Hs1 Hy1)|].
    intros r s' c' _ (Hk' & Hs' & Hy'). split; [eapply keeps_trans; eassumption|split; assumption].
Qed.

(** what is left of tlsa_usable says whether a usable record exists *)
Lemma filter_usable_le t : length (filter usable_rec t) <= count_usable t.
Proof.
  unfold count_usable. induction t as [|[u r] t IH]; simpl; [lia|].
  unfold usable_rec at 1. cbn [fst snd]. destruct (usage_usable u); simpl; [|exact IH].
  destruct (0 <? r)%Z; simpl; lia.
Qed.

Lemma dane_add_spec t : forall n u,
  count_usable t <= n -> dane_add t n = Some u ->
  u = (n - count_usable t) + length (filter usable_rec t).
Proof.
  induction t as [|[us r] t IH]; intros n u Hn H; cbn [dane_add] in H.
  { inversion H. unfold count_usable. simpl. lia. }
  unfold count_usable in *. cbn [filter fst] in *. unfold usable_rec at 1. cbn [fst snd].
  destruct (usage_usable us) eqn:Eu; cbn [negb andb length] in *.
  2:{ apply IH; assumption. }
  destruct (r <? 0)%Z eqn:Eneg; [discriminate|].
  destruct (Z.eqb r 0) eqn:Ez.
  - apply Z.eqb_eq in Ez. subst r. rewrite Z.ltb_irrefl.
    destruct (Nat.eqb (n - 1) 0) eqn:En.
    + apply Nat.eqb_eq in En. inversion H. subst u.
      pose proof (filter_usable_le t) as Hle. unfold count_usable in Hle. lia.
    + apply Nat.eqb_neq in En. rewrite (IH (n - 1) u); [lia|lia|exact H].
  - apply Z.eqb_neq in Ez. apply Z.ltb_ge in Eneg.
    replace (0 <? r)%Z with true by (symmetry; apply Z.ltb_lt; lia). cbn [length].
    rewrite (IH n u); [lia|lia|exact H].
Qed.

Lemma existsb_filter {A} (f : A -> bool) l : Nat.ltb 0 (length (filter f l)) = existsb f l.
Proof. induction l as [|x l IH]; simpl; [reflexivity|]. destruct (f x); simpl; [reflexivity|exact IH]. Qed.

Lemma usable_spec t u :
  (if Nat.eqb (count_usable t) 0 then Some 0 else dane_add t (count_usable t)) = Some u ->
  Nat.ltb 0 u = existsb usable_rec t.
Proof.
  intros H. rewrite <- existsb_filter. pose proof (filter_usable_le t) as Hle.
  destruct (Nat.eqb (count_usable t) 0) eqn:E.
  - apply Nat.eqb_eq in E. inversion H. subst u. replace (length (filter usable_rec t)) with 0 by lia. reflexivity.
  - rewrite (dane_add_spec t _ u (le_n _) H). rewrite Nat.sub_diag. reflexivity.
Qed.

Lemma Rel_report k s c w : Rel k s c -> Rel k (report w s) c.
Proof. intros H. exact H. Qed.

Lemma Rel_log_gen k s s' c e c' :
  s_tr s' = s_tr s ++ [e] -> steps tf k cst0 (s_tr s) = Some c -> step tf k c e = Some c' -> Inv k s' c' -> Rel k s' c'.
Proof.
  intros Htr Ht Hs Hi. split; [|exact Hi].
  rewrite Htr, steps_app, Ht. cbn [steps]. now rewrite Hs.
Qed.

Lemma kind1 p : kind p = 1 -> p = PClear.
Proof. destruct p; simpl; intros H; try discriminate; reflexivity. Qed.

Definition tls_post (c : cst) (cn : conn) (r : Z) (s' : st) (c' : cst) : Prop :=
  x_k c' = x_k c /\ s_sock s' = true /\
  (r = 0%Z -> kind (x_ph c') = 3 /\ (need_verify tf cn = true -> x_vfy c' = true)).

Lemma tls_init_ok k cn s c :
  Rel k s c -> s_sock s = true -> x_ph c = PClear -> conn_of k (x_k c) = cn ->
  ok_res k (tls_post c cn) (tls_init cn (tf cn) s).
Proof.
  intros Hr Hsock Hph Hcn. pose proof LB as HLB. unfold tls_init.
  assert (Hfail : forall s' c' r, Rel k s' c' -> x_k c' = x_k c -> s_sock s' = true -> r <> 0%Z ->
            ok_res k (tls_post c cn) (Ret r s')).
  { intros s' c' r Hr' Hk' Hs' Hnz. exists c'. split; [exact Hr'|]. split; [exact Hk'|]. split; [exact Hs'|].
    intros H0. contradiction. }
  assert (Hnz : forall i : Z, (if (i <? 0)%Z then (- i)%Z else Z.of_N ST_EDONE) <> 0%Z).
  { intros i. destruct (i <? 0)%Z eqn:E; [apply Z.ltb_lt in E; lia|discriminate]. }
  destruct (pinned cn && negb (c_pinload cn)).
  { apply (Hfail _ c); [apply Rel_report; exact Hr|reflexivity|exact Hsock|discriminate]. }
  set (s0 := log (EvCert (s_rcert s)) s).
  assert (Hr0 : Rel k s0 c).
  { apply (Rel_log k s c _ c (proj1 Hr)); [|exact (proj2 Hr)].
    cbn [step]. rewrite Hph. destruct Hr as [_ (_ & Hrc & _)]. rewrite Hrc.
    now rewrite Bool.eqb_reflx. }
  assert (Hs0 : s_sock s0 = true) by exact Hsock.
  destruct (if Nat.eqb (count_usable (tf cn)) 0 then Some 0 else dane_add (tf cn) (count_usable (tf cn)))
    as [usable|] eqn:Eu.
  2:{ apply (Hfail _ c); [apply Rel_report; exact Hr0|reflexivity|exact Hs0|discriminate]. }
  assert (Hr1 : Rel k (nwrite ST_CMD_STARTTLS s0) c).
  { apply nwrite_ok; [exact Hr0|exact Hs0|]. intros E. rewrite Hph in E. discriminate. }
  eapply ok_bind; [apply (netget0_ok k _ c Hr1 Hs0)|].
  intros i0 s1 c1 Hr2 (Hk1 & Hs1 & _ & Hy1).
  eapply ok_bind; [apply (tls_reply_loop_ok k _ i0 s1 c1 Hr2 Hs1 Hy1)|].
  intros i s3 c2 Hr3 (Hk2 & Hs3 & Hy3).
  assert (Hk02 : keeps c c2) by (eapply keeps_trans; eassumption).
  assert (Hxk : x_k c2 = x_k c) by apply Hk02.
  assert (Hph2 : x_ph c2 = PClear).
  { apply kind1. destruct Hk02 as (_ & _ & Hkk & _). rewrite Hkk, Hph. reflexivity. }
  destruct (negb (Z.eqb i ST_STARTTLS_OK)).
  { apply (Hfail _ c2); [exact Hr3|exact Hxk|exact Hs3|apply Hnz]. }
  destruct Hr3 as [Ht4 (Hx4 & Hrc4 & Hlen4 & Hp4)]. rewrite Hs3, Hph2 in Hp4. destruct Hp4 as [Hssl4 Htls4].
  rewrite Hxk, Hcn in Htls4.
  assert (Hin4 : s_innssl s3 = false) by (unfold synced in Hy3; congruence).
  set (T := tls_stream cn) in *.
  set (sb := set_clr (s_inn s3) {| cur := []; future := c_post cn |} s3).
  assert (Hstep : step tf k c2 (EvHs (length (s_inn s3)) (c_hs cn)) =
                  Some (mkC (x_k c2) (if N.eqb (c_hs cn) 0 then PTls (length T) else PFailed) false 0)).
  { cbn [step]. rewrite Hph2, Hxk, Hcn. reflexivity. }
  destruct (N.eqb (c_hs cn) 0) eqn:Ehs; cbn [negb].
  2:{ (* the handshake failed *)
    apply (Hfail _ (mkC (x_k c2) PFailed false 0)); [|exact Hxk|exact Hs3|].
    - apply (Rel_log k sb c2 _ _ Ht4 Hstep).
      unfold Inv, sb. cbn. rewrite Hs3. repeat split; try assumption.
      rewrite Hxk, Hcn. exact Htls4.
    - apply N.eqb_neq in Ehs. intros H0. apply Ehs. lia. }
  (* inside TLS now *)
  set (s5 := set_conn true (s_sock (log (EvHs (length (s_inn s3)) (c_hs cn)) sb)) (log (EvHs (length (s_inn s3)) (c_hs cn)) sb)).
  set (c5 := mkC (x_k c2) (PTls (length T)) false 0).
  assert (HI5 : forall v, Inv k s5 (mkC (x_k c2) (PTls (length T)) v 0)).
  { intros v. unfold Inv, einn, s5, sb. cbn. rewrite Hs3, Hin4. cbn. repeat split; try assumption.
    - rewrite Htls4. reflexivity.
    - exists []. rewrite Hxk, Hcn. cbn. fold T. symmetry. exact Htls4. }
  assert (Hr5 : Rel k s5 c5).
  { apply (Rel_log_gen k sb s5 c2 _ c5 eq_refl Ht4 Hstep). apply HI5. }
  assert (Hs5 : s_sock s5 = true) by exact Hs3.
  destruct (pinned cn || Nat.ltb 0 usable) eqn:Env.
  - set (c6 := mkC (x_k c2) (PTls (length T)) (N.eqb (c_verify cn) 0) 0).
    assert (Hr6 : Rel k (log (EvVfy (c_verify cn)) s5) c6).
    { apply (Rel_log k s5 c5 _ c6 (proj1 Hr5)); [reflexivity|apply HI5]. }
    destruct (negb (N.eqb (c_verify cn) 0)) eqn:Ev.
    + apply (Hfail _ c6); [exact Hr6|exact Hxk|exact Hs5|discriminate].
    + exists c6. split; [exact Hr6|]. split; [exact Hxk|]. split; [exact Hs5|].
      intros _. split; [reflexivity|]. intros _. cbn. now apply negb_false_iff in Ev.
  - exists c5. split; [exact Hr5|]. split; [exact Hxk|]. split; [exact Hs5|].
    intros _. split; [reflexivity|]. intros Hnv. unfold need_verify in Hnv.
    rewrite <- (usable_spec _ _ Eu), Env in Hnv. discriminate.
Qed.

(* ------------------------------------------------------------------ connect_mx *)
Lemma banner_loop_ok k fuel : forall sc fe s c,
  Rel k s c -> s_sock s = true -> synced s ->
  ok_res k (fun _ s' c' => loop_post c s' c') (banner_loop fuel sc fe s).
Proof.
  induction fuel as [|fuel IH]; intros sc fe s c Hr Hsock Hsyn; cbn [banner_loop].
  { destruct (dash3 s); [exact (Rel_Tr _ _ _ Hr)|].
    exists c. split; [exact Hr|]. split; [apply keeps_refl|split; assumption]. }
  destruct (dash3 s).
  2:{ exists c. split; [exact Hr|]. split; [apply keeps_refl|split; assumption]. }
  eapply ok_bind; [apply netget0_ok; eassumption|].
  intros t s1 c1 Hr1 (Hk1 & Hs1 & _ & Hy1).
  destruct (Z.eqb t (neg ST_ECONNRESET)).
  - exists c1. split; [exact Hr1|]. split; [assumption|split; assumption].
  - destruct (0 <? t)%Z.
    + eapply ok_weaken; [apply (IH sc _ s1 c1 Hr1 Hs1 Hy1)|].
      intros r s' c' _ (Hk' & Hs' & Hy'). split; [eapply keeps_trans; eassumption|split; assumption].
    + exists c1. split; [exact Hr1|]. split; [assumption|split; assumption].
Qed.

(** what connect_mx() hands to main(): nothing (socket closed), or a connection on which the
    transmission may start as far as connect_mx() is concerned *)
Definition mail_ready (k : tcase) (cn : conn) (g : Z) (s' : st) (c' : cst) : Prop :=
  s_sock s' = true /\ conn_of k (x_k c') = cn /\
  match x_ph c' with
  | PTls _ => s_ssl s' = true /\ (need_verify tf cn = true -> x_vfy c' = true) /\ subN (Z.to_N g) (x_acc c')
  | PClear => s_ssl s' = false /\ k_route k = false /\ existsb usable_rec (tf cn) = false
  | _ => False
  end.

Definition iter_post (k : tcase) (cn : conn) (r : option Z) (s' : st) (c' : cst) : Prop :=
  match r with
  | Some g => mail_ready k cn g s' c'
  | None => s_sock s' = false
  end.

Lemma conn_iter_ok k i cn s c :
  Rel k s c -> s_sock s = false -> i < length (k_conns k) -> conn_of k i = cn ->
  ok_res k (iter_post k cn) (conn_iter i cn (tf cn) s).
Proof.
  intros Hr Hsock Hi Hcn. unfold conn_iter.
  set (c0 := mkC i PClear false 0).
  set (s0 := log (EvConn i) (open_conn cn s)).
  assert (Hr0 : Rel k s0 c0).
  { destruct Hr as [Ht (Hx & Hrc & Hlen & Hp)]. rewrite Hsock in Hp.
    apply (Rel_log k (open_conn cn s) c _ c0 Ht).
    - cbn [step]. replace (Nat.ltb i (length (k_conns k))) with true; [reflexivity|].
      symmetry. now apply Nat.ltb_lt.
    - unfold Inv, open_conn. cbn. repeat split; try assumption.
      rewrite Hcn. unfold rest, tls_stream. reflexivity. }
  assert (Hs0 : s_sock s0 = true) by reflexivity.
  assert (Hnext : forall m, ok_res k closed_post m -> ok_res k (iter_post k cn) (rdo (_, s') <- m; Ret None s')).
  { intros m Hm. eapply ok_bind; [exact Hm|]. intros u s' c' Hr' Hp. exists c'. split; [exact Hr'|exact Hp]. }
  eapply ok_bind; [apply (netget0_ok k s0 c0 Hr0 Hs0)|].
  intros sc0 s1 c1 Hr1 (Hk1 & Hs1 & _ & Hy1).
  assert (Hkind1 : kind (x_ph c1) = 1) by (destruct Hk1 as (_ & _ & Hkk & _); exact Hkk).
  destruct ((sc0 <? 0)%Z && Z.eqb sc0 (neg ST_ECONNRESET)).
  { destruct (connection_died_ok k s1 c1 Hr1 Hs1 Hkind1) as (Hrd & Hsd).
    exists c1. split; [exact Hrd|exact Hsd]. }
  destruct ((sc0 <? 0)%Z && Z.eqb sc0 (neg ST_EINVAL)).
  { apply Hnext. now apply (quitmsg_ok k s1 c1). }
  destruct (sc0 <? 0)%Z.
  { now apply (shutdown_abort_ok k s1 c1). }
  eapply ok_bind; [apply (banner_loop_ok k _ sc0 false s1 c1 Hr1 Hs1 Hy1)|].
  intros [sc flagerr] s2 c2 Hr2 (Hk2 & Hs2 & _).
  assert (Hk02 : keeps c0 c2) by (eapply keeps_trans; eassumption).
  assert (Hkind2 : kind (x_ph c2) = 1) by (destruct Hk02 as (_ & _ & Hkk & _); exact Hkk).
  destruct (Z.eqb sc (neg ST_ECONNRESET)).
  { destruct (connection_died_ok k s2 c2 Hr2 Hs2 Hkind2) as (Hrd & Hsd).
    exists c2. split; [exact Hrd|exact Hsd]. }
  destruct (negb (Z.eqb sc ST_GREETING_OK) || flagerr).
  { apply Hnext. now apply (quitmsg_if_net_ok k sc s2 c2). }
  eapply ok_bind; [apply (greeting_ok k s2 c2 Hr2 Hs2); left; exact Hkind2|].
  intros g s3 c3 Hr3 ((Hk3 & Hs3 & _) & _).
  assert (Hk03 : keeps c0 c3) by (eapply keeps_trans; eassumption).
  assert (Hkind3 : kind (x_ph c3) = 1) by (destruct Hk03 as (_ & _ & Hkk & _); exact Hkk).
  assert (Hph3 : x_ph c3 = PClear) by (apply kind1; exact Hkind3).
  assert (Hxk3 : x_k c3 = i) by (destruct Hk03 as (Hkk & _); exact Hkk).
  destruct (g <? 0)%Z.
  { apply Hnext. now apply (quitmsg_if_net_ok k g s3 c3). }
  destruct (negb (N.eqb (N.land (Z.to_N g) ST_ESMTP_STARTTLS) 0)).
  - (* STARTTLS offered *)
    assert (Hcn3 : conn_of k (x_k c3) = cn) by (rewrite Hxk3; exact Hcn).
    eapply ok_bind; [apply (tls_init_ok k cn s3 c3 Hr3 Hs3 Hph3 Hcn3)|].
    intros r s4 c4 Hr4 (Hxk4 & Hs4 & Hr0').
    destruct (r <? 0)%Z.
    { now apply (shutdown_clean_ok k s4 c4). }
    destruct (negb (Z.eqb r 0)) eqn:Er.
    { apply Hnext. now apply (quitmsg_if_net_ok k _ s4 c4). }
    apply negb_false_iff, Z.eqb_eq in Er. destruct (Hr0' Er) as (Hkind4 & Hvfy4).
    eapply ok_bind; [apply (greeting_ok k s4 c4 Hr4 Hs4); right; exact Hkind4|].
    intros g2 s5 c5 Hr5 ((Hk5 & Hs5 & _) & Hext5).
    destruct (g2 <? 0)%Z eqn:Eg2.
    { apply Hnext. now apply (quitmsg_if_net_ok k g2 s5 c5). }
    assert (Hg2 : (0 <=? g2)%Z = true) by (apply Z.leb_le; apply Z.ltb_ge in Eg2; exact Eg2).
    specialize (Hext5 Hg2 Hkind4).
    destruct Hk5 as (Hxk5 & Hvfy5 & Hkind5 & _).
    pose proof Hr5 as [_ (_ & _ & _ & Hp5)]. rewrite Hs5 in Hp5.
    exists c5. split; [exact Hr5|]. cbn [iter_post]. unfold mail_ready.
    split; [exact Hs5|]. split; [rewrite Hxk5, Hxk4, Hxk3; exact Hcn|].
    destruct (x_ph c5) as [| | |prev] eqn:Eph5; try (rewrite Hkind4 in Hkind5; discriminate).
    destruct Hp5 as (Hssl5 & _).
    split; [exact Hssl5|]. split; [|exact Hext5]. intros Hn. rewrite Hvfy5. now apply Hvfy4.
  - (* no STARTTLS *)
    destruct (s_xtls s3) eqn:Ext.
    { apply Hnext. now apply (quitmsg_ok k s3 c3). }
    destruct (Nat.ltb 0 (length (tf cn))) eqn:Etl.
    { apply Hnext. now apply (quitmsg_ok k s3 c3). }
    pose proof Hr3 as [_ (Hx3 & _ & _ & Hp3)]. rewrite Hs3, Hph3 in Hp3. destruct Hp3 as (Hssl3 & _).
    exists c3. split; [exact Hr3|]. cbn [iter_post]. unfold mail_ready. rewrite Hph3.
    split; [exact Hs3|]. split; [rewrite Hxk3; exact Hcn|].
    split; [exact Hssl3|]. split; [congruence|].
    apply Nat.ltb_ge in Etl. destruct (tf cn); [reflexivity|simpl in Etl; lia].
Qed.

Lemma skipn_cons_nth {A} (l : list A) : forall i x t d,
  skipn i l = x :: t -> nth i l d = x /\ skipn (S i) l = t /\ i < length l.
Proof.
  induction l as [|y l IH]; intros i x t d H.
  - destruct i; discriminate.
  - destruct i as [|i].
    + simpl in H. inversion H; subst. simpl. repeat split. lia.
    + simpl in H. destruct (IH i x t d H) as (H1 & H2 & H3). simpl. repeat split; [exact H1|exact H2|lia].
Qed.

Definition mx_post (k : tcase) (r : option (conn * Z)) (s' : st) (c' : cst) : Prop :=
  match r with
  | Some (cn, g) => mail_ready k cn g s' c'
  | None => s_sock s' = false
  end.

Lemma connect_mx_ok k :
  (forall cn, In cn (k_conns k) -> tf cn = tlsa_eff (k_conns k)) ->
  forall todo i s c, todo = skipn i (k_conns k) -> Rel k s c -> s_sock s = false ->
  ok_res k (mx_post k) (connect_mx (k_conns k) i todo s).
Proof.
  intros Hown. induction todo as [|cn todo IH]; intros i s c Htodo Hr Hsock; cbn [connect_mx].
  - set (s' := if asks_tlsa (k_conns k) then log (EvTlsa 0) s else s).
    assert (Hr' : Rel k s' c).
    { unfold s'. destruct (asks_tlsa (k_conns k)); [|exact Hr].
      apply (Rel_log k s c _ c (proj1 Hr)); [reflexivity|exact (proj2 Hr)]. }
    exists c. split; [exact Hr'|]. unfold s'. cbn. destruct (asks_tlsa (k_conns k)); exact Hsock.
  - set (s' := if asks_tlsa (k_conns k) then log (EvTlsa 0) s else s).
    assert (Hr' : Rel k s' c).
    { unfold s'. destruct (asks_tlsa (k_conns k)); [|exact Hr].
      apply (Rel_log k s c _ c (proj1 Hr)); [reflexivity|exact (proj2 Hr)]. }
    assert (Hs' : s_sock s' = false) by (unfold s'; destruct (asks_tlsa (k_conns k)); exact Hsock).
    destruct (skipn_cons_nth (k_conns k) i cn todo no_conn (eq_sym Htodo)) as (Hnth & Hrest & Hlt).
    assert (Hin : In cn (k_conns k)) by (rewrite <- Hnth; apply nth_In; exact Hlt).
    rewrite <- (Hown cn Hin).
    eapply ok_bind; [apply (conn_iter_ok k i cn s' c Hr' Hs' Hlt Hnth)|].
    intros r s1 c1 Hr1 Hp. destruct r as [g|].
    + exists c1. split; [exact Hr1|exact Hp].
    + apply (IH (S i) s1 c1); [now rewrite Hrest|exact Hr1|exact Hp].
Qed.

Lemma final_Tr {A} k (P : A -> st -> cst -> Prop) (r : res A) :
  ok_res k P r -> Tr k (match r with Ret _ s => s | Exit s => s | Stuck s => s end).
Proof.
  destruct r as [a s|s|s]; cbn [ok_res]; intros H; [|exact H|exact H].
  destruct H as (c & Hr & _). exact (Rel_Tr _ _ _ Hr).
Qed.

Lemma Rel_init k : Rel k (init_st k) cst0.
Proof.
  split; [reflexivity|]. unfold Inv, init_st. cbn. repeat split. lia.
Qed.

Theorem run_Tr k : (forall cn, In cn (k_conns k) -> tf cn = tlsa_eff (k_conns k)) -> Tr k (final (run k)).
Proof.
  intros Hc. unfold final. apply (final_Tr k (fun _ _ _ => True)). unfold run.
  eapply ok_bind.
  - apply (connect_mx_ok k Hc (k_conns k) 0 (init_st k) cst0 eq_refl (Rel_init k) eq_refl).
  - intros r s c Hr Hp. destruct r as [[cn g]|].
    2:{ apply (shutdown_abort_ok k _ c). apply Rel_report. exact Hr. }
    cbn [mx_post] in Hp. destruct Hp as (Hs & Hcn & Hph).
    rewrite fix_pinned. cbn [andb].
    destruct (negb (s_ssl s) && pinned cn) eqn:Epin.
    { apply (shutdown_clean_ok k _ c). apply Rel_report. exact Hr. }
    apply (shutdown_clean_ok k _ c).
    assert (Hrm : Rel k (log (EvMail (s_ssl s) (Z.to_N g)) s) c).
    { apply (Rel_log k s c _ c (proj1 Hr)); [|exact (proj2 Hr)].
      cbn [step]. rewrite Hcn.
      destruct (x_ph c) as [| | |prev] eqn:Eph; try contradiction.
      - destruct Hph as (Hssl & Hroute & Hnt). rewrite Hssl in *. cbn [negb andb orb] in *.
        unfold need_verify. rewrite Epin, Hroute, Hnt. reflexivity.
      - destruct Hph as (Hssl & Hv & Hsub). rewrite Hssl. cbn [negb orb].
        unfold subN in Hsub. rewrite Hsub, N.eqb_refl. cbn [negb orb].
        destruct (need_verify tf cn) eqn:En; [rewrite (Hv eq_refl)|]; reflexivity. }
    apply nwrite_ok; [exact Hrm|exact Hs|].
    intros E. cbn in E. destruct (x_ph c); try discriminate; contradiction.
Qed.

Theorem model_spec_with k :
  (forall cn, In cn (k_conns k) -> tf cn = tlsa_eff (k_conns k)) -> spec_ok_with tf k (trace k) = true.
Proof.
  intros Hc. destruct (run_Tr k Hc) as (c & H). unfold spec_ok_with, trace. now rewrite H.
Qed.

End Sim.

Lemma tlsa_eqb_eq a : forall b, tlsa_eqb a b = true -> a = b.
Proof.
  induction a as [|[u r] a IH]; intros [|[v q] b] H; simpl in H; try discriminate; [reflexivity|].
  apply andb_true_iff in H as [H H3]. apply andb_true_iff in H as [H1 H2].
  apply N.eqb_eq in H1. apply Z.eqb_eq in H2. subst. f_equal. now apply IH.
Qed.

Lemma class_complement k :
  class_wrong_host k = false -> forall cn, In cn (k_conns k) -> own_tlsa cn = tlsa_eff (k_conns k).
Proof.
  unfold class_wrong_host. intros H cn Hin. apply negb_false_iff in H.
  rewrite forallb_forall in H. apply tlsa_eqb_eq. now apply H.
Qed.

(** with the records connect_mx() really uses: no exception *)
Theorem model_spec_eff k : spec_ok_with (fun _ => tlsa_eff (k_conns k)) k (trace k) = true.
Proof. apply model_spec_with. reflexivity. Qed.

(** with the records of each host itself: outside the class of the known finding *)
Theorem model_spec_ok k : class_wrong_host k = false -> spec_ok_C18 k (trace k) = true.
Proof. intros Hc. apply model_spec_with. now apply class_complement. Qed.

(** Proofs about Model/NetRead.v, part 2: independence of TCP segmentation.

    For every byte stream in which CR and LF only occur as the pair CR LF ("clean"
    streams: what every conforming client sends), the sequence of items the reader
    produces is the same for ALL ways of cutting the stream into segments: it is
    [spec_items]: one item per CRLF-terminated line, [Line l] when the line has at
    most LINEINBUF-3 octets and [E2big] otherwise, an unterminated tail yields nothing. *)
From Qv Require Import Common.Bytes Gen.GenNetio Model.NetRead Spec.LineSpec Proofs.NetReadProofs.
From Coq Require Import Lia.

Definition free (l : bytes) : Prop := no_crlf l.

Lemma free_app a b : free (a ++ b) <-> free a /\ free b.
Proof. unfold free, no_crlf. apply Forall_app. Qed.

Lemma index_of_free c l : free l -> c = CR \/ c = LF -> index_of c l = None.
Proof.
  induction l as [|b l IH]; intros Hf Hc; [reflexivity|].
  inversion Hf as [|? ? [H1 H2] Hl]; subst. simpl.
  destruct (N.eqb b c) eqn:E; [apply N.eqb_eq in E; destruct Hc; congruence|].
  rewrite (IH Hl Hc). reflexivity.
Qed.

Lemma index_of_app_free c l x : free l -> c = CR \/ c = LF ->
  index_of c (l ++ x) = option_map (fun i => length l + i) (index_of c x).
Proof.
  induction l as [|b l IH]; intros Hf Hc; simpl.
  - destruct (index_of c x); reflexivity.
  - inversion Hf as [|? ? [H1 H2] Hl]; subst.
    destruct (N.eqb b c) eqn:E; [apply N.eqb_eq in E; destruct Hc; congruence|].
    rewrite (IH Hl Hc). destruct (index_of c x); reflexivity.
Qed.

Lemma find_eol_free l : free l -> find_eol l = (None, false).
Proof.
  intros H. unfold find_eol. rewrite (index_of_free CR l H (or_introl eq_refl)), (index_of_free LF l H (or_intror eq_refl)). reflexivity.
Qed.

Lemma find_eol_cr_end l : free l -> find_eol (l ++ [CR]) = (Some (S (length l)), false).
Proof.
  intros H. unfold find_eol.
  rewrite (index_of_app_free CR l [CR] H (or_introl eq_refl)), (index_of_app_free LF l [CR] H (or_intror eq_refl)).
  simpl. rewrite Nat.add_0_r. reflexivity.
Qed.

Lemma find_eol_crlf l x : free l -> find_eol (l ++ [CR; LF] ++ x) = (Some (length l + 2), true).
Proof.
  intros H. unfold find_eol.
  rewrite (index_of_app_free CR l _ H (or_introl eq_refl)), (index_of_app_free LF l _ H (or_intror eq_refl)).
  simpl. rewrite Nat.add_0_r. replace (length l + 1) with (S (length l)) by lia.
  rewrite Nat.eqb_refl. f_equal. f_equal. lia.
Qed.

(** a prefix of  l ++ CRLF ++ R  (l free) is a prefix of l, or l ++ CR, or contains the CRLF *)
Lemma prefix_shape : forall (buf rst l R : bytes), buf ++ rst = l ++ [CR; LF] ++ R ->
  (exists l2, l = buf ++ l2 /\ rst = l2 ++ [CR; LF] ++ R)
  \/ (buf = l ++ [CR] /\ rst = LF :: R)
  \/ (exists x, buf = l ++ [CR; LF] ++ x /\ R = x ++ rst).
Proof.
  induction buf as [|b buf IH]; intros rst l R H.
  - left. exists l. simpl in *. auto.
  - destruct l as [|c l].
    + simpl in H. injection H as Hb Ht. destruct buf as [|b2 buf].
      * right. left. simpl in Ht. subst. split; reflexivity.
      * simpl in Ht. injection Ht as Hb2 Ht2. right. right. exists buf. subst. split; auto.
    + simpl in H. injection H as Hb Ht.
      destruct (IH rst l R Ht) as [(l2 & E1 & E2)|[(E1 & E2)|(x & E1 & E2)]].
      * left. exists l2. subst. auto.
      * right. left. subst. auto.
      * right. right. exists x. subst. auto.
Qed.

Lemma free_prefix a b : free (a ++ b) -> free a.
Proof. intros H. apply free_app in H. tauto. Qed.

(** ---------- readinput facts ---------- *)
Lemma readinput_some_progress e len d e' : readinput e len = Some (d, e') -> 2 <= len ->
  d <> [] /\ length (rest e') < length (rest e).
Proof.
  intros H Hl. destruct (readinput_spec _ _ _ _ H) as (Hr & _ & Hne). specialize (Hne Hl).
  split; [exact Hne|]. rewrite Hr, app_length. destruct d; [congruence|simpl; lia].
Qed.

Lemma next_segment_none f : next_segment f = None -> concat f = [].
Proof.
  induction f as [|x f IH]; [reflexivity|]. simpl. destruct x; [exact IH|discriminate].
Qed.

Lemma readinput_none e len : readinput e len = None -> rest e = [].
Proof.
  unfold readinput, rest. destruct (cur e) as [|b c] eqn:Ec.
  - destruct (next_segment (future e)) as [[c f]|] eqn:En; [discriminate|].
    intros _. simpl. now apply next_segment_none.
  - discriminate.
Qed.

Lemma readinput_nonempty e len : rest e <> [] -> exists d e', readinput e len = Some (d, e').
Proof.
  intros H. destruct (readinput e len) as [[d e']|] eqn:E; [eauto|]. apply readinput_none in E. congruence.
Qed.

(** ---------- loop_long on clean input ---------- *)
Lemma LBv : LINEINBUF = 1002. Proof. reflexivity. Qed.

Lemma loop_long_clean fuel : forall e hc x R,
  length (rest e) < fuel ->
  ((hc = false /\ free x /\ rest e = x ++ [CR; LF] ++ R) \/ (hc = true /\ rest e = LF :: R)) ->
  exists i e', loop_long fuel e hc = (Some i, e') /\ i ++ rest e' = R /\ length i <= LINEINBUF - 2.
Proof.
  pose proof LBv as HL.
  induction fuel as [|f IH]; intros e hc x R Hf Hsh; [lia|].
  cbn [loop_long].
  assert (Hne : rest e <> []) by (destruct Hsh as [(_ & _ & E)|(_ & E)]; rewrite E; destruct x; discriminate).
  destruct (readinput_nonempty e LINEINBUF Hne) as (b & e1 & Er). rewrite Er.
  destruct (readinput_spec _ _ _ _ Er) as (Hrest & Hblen & _).
  destruct (readinput_some_progress _ _ _ _ Er ltac:(lia)) as (Hbne & Hprog).
  destruct Hsh as [(-> & Hfx & Hre)|(-> & Hre)].
  - cbn [andb].
    rewrite Hre in Hrest. symmetry in Hrest.
    destruct (prefix_shape _ _ _ _ Hrest) as [(l2 & E1 & E2)|[(E1 & E2)|(y & E1 & E2)]].
    + (* chunk inside the over-long line *)
      assert (Hfb : free b) by (subst x; eapply free_prefix; exact Hfx).
      rewrite (find_eol_free b Hfb).
      apply (IH e1 false l2 R); [lia|]. left. repeat split; auto. subst x. apply free_app in Hfx. tauto.
    + (* chunk ends in the CR *)
      subst b. rewrite (find_eol_cr_end x Hfx).
      assert (Hc : (negb false && Nat.eqb (S (length x)) (length (x ++ [CR])) && N.eqb (nth (S (length x) - 1) (x ++ [CR]) 0%N) CR) = true).
      { assert (Hl : length (x ++ [CR]) = S (length x)) by (rewrite app_length; simpl; lia).
        rewrite Hl, Nat.eqb_refl. replace (S (length x) - 1) with (length x) by lia.
        rewrite app_nth2 by lia. rewrite Nat.sub_diag. reflexivity. }
      rewrite Hc. apply (IH e1 true [] R); [lia|]. right. auto.
    + (* chunk contains the CRLF *)
      subst b. rewrite (find_eol_crlf x y Hfx).
      assert (Hc : (negb true && Nat.eqb (length x + 2) (length (x ++ [CR; LF] ++ y)) && N.eqb (nth (length x + 2 - 1) (x ++ [CR; LF] ++ y) 0%N) CR) = false) by reflexivity.
      rewrite Hc. eexists _, _. split; [reflexivity|]. split.
      * replace (length x + 2) with (length (x ++ [CR; LF])) by (rewrite app_length; simpl; lia).
        rewrite app_assoc. rewrite skipn_app, skipn_all, Nat.sub_diag. simpl. symmetry. exact E2.
      * rewrite skipn_length. rewrite !app_length in *. simpl in *. lia.
  - (* the LF that completes the CR of the previous chunk *)
    rewrite Hre in Hrest. destruct b as [|b0 b]; [congruence|]. simpl in Hrest. inversion Hrest; subst b0.
    cbn [andb nth]. change (N.eqb LF LF) with true. cbn [andb].
    eexists _, _. split; [reflexivity|]. split; [reflexivity|]. simpl in *. lia.
Qed.

(** ---------- the read loop on clean input ---------- *)
(** remaining input is  l ++ CRLF ++ R;  [buf] is what is already in lineinbuf: a prefix of l or l ++ CR *)
Definition line_item (l : bytes) : item := if Nat.leb (length l + 3) LINEINBUF then Line l else E2big.

Lemma read_loop_clean fuel : forall buf e l R,
  length (rest e) < fuel ->
  free l ->
  length buf <= LINEINBUF - 2 ->
  ((exists l2, l = buf ++ l2 /\ rest e = l2 ++ [CR; LF] ++ R) \/ (buf = l ++ [CR] /\ rest e = LF :: R)) ->
  exists s', read_loop fuel buf e = (line_item l, s') /\ total s' = R /\ length (inn s') <= LINEINBUF - 2.
Proof.
  pose proof LBv as HL.
  induction fuel as [|f IH]; intros buf e l R Hf Hfl Hbl Hsh; [lia|].
  cbn [read_loop].
  assert (Hne : rest e <> []) by (destruct Hsh as [(l2 & _ & E)|(_ & E)]; rewrite E; [destruct l2|]; discriminate).
  destruct (readinput_nonempty e (LINEINBUF - length buf) Hne) as (d & e1 & Er). rewrite Er.
  destruct (readinput_spec _ _ _ _ Er) as (Hrest & Hdlen & _).
  destruct (readinput_some_progress _ _ _ _ Er ltac:(lia)) as (Hdne & Hprog).
  assert (Hbd : length (buf ++ d) <= LINEINBUF - 1) by (rewrite app_length; lia).
  (* the whole pending input *)
  assert (HT : (buf ++ d) ++ rest e1 = l ++ [CR; LF] ++ R).
  { rewrite <- app_assoc, <- Hrest. destruct Hsh as [(l2 & E1 & E2)|(E1 & E2)].
    - rewrite E2, E1. now rewrite <- app_assoc.
    - rewrite E2, E1. now rewrite <- app_assoc. }
  destruct (prefix_shape _ _ _ _ HT) as [(l2 & E1 & E2)|[(E1 & E2)|(y & E1 & E2)]].
  - (* still inside the line *)
    assert (Hfb : free (buf ++ d)) by (rewrite E1 in Hfl; eapply free_prefix; exact Hfl).
    rewrite (find_eol_free _ Hfb). cbn iota.
    destruct (Nat.ltb (length (buf ++ d)) (LINEINBUF - 1)) eqn:Elt.
    + apply Nat.ltb_lt in Elt. apply (IH (buf ++ d) e1 l R); [lia|exact Hfl|lia|]. left. exists l2. auto.
    + (* buffer full: the line has at least LINEINBUF-1 octets *)
      apply Nat.ltb_ge in Elt.
      destruct (loop_long_clean (S (length (rest e1))) e1 false l2 R ltac:(lia)) as (i & e2 & Hll & Hi & Hil).
      { left. repeat split; auto. rewrite E1 in Hfl. apply free_app in Hfl. tauto. }
      rewrite Hll. unfold line_item.
      assert (Hlong : Nat.leb (length l + 3) LINEINBUF = false).
      { apply Nat.leb_gt. rewrite E1, app_length. lia. }
      rewrite Hlong. eexists. split; [reflexivity|]. unfold total. cbn [inn en]. auto.
  - (* the buffer ends in the CR of the line end *)
    rewrite E1. rewrite (find_eol_cr_end l Hfl).
    assert (Hlen : length (l ++ [CR]) = S (length l)) by (rewrite app_length; simpl; lia).
    rewrite Hlen. cbn [negb andb]. rewrite Nat.eqb_refl. cbn [andb].
    replace (S (length l) - 1) with (length l) by lia.
    assert (Hnth : nth (length l) (l ++ [CR]) 0%N = CR) by (rewrite app_nth2 by lia; rewrite Nat.sub_diag; reflexivity).
    rewrite Hnth. change (N.eqb CR CR) with true. rewrite andb_true_r.
    rewrite E1, Hlen in Hbd.
    destruct (Nat.ltb (S (length l)) (LINEINBUF - 1)) eqn:Elt.
    + (* room for the LF: read on *)
      cbn iota. apply Nat.ltb_lt in Elt.
      rewrite <- E1. apply (IH (buf ++ d) e1 l R); [lia|exact Hfl|rewrite E1, Hlen; lia|]. right. auto.
    + (* CR is the last octet that fits: the line has LINEINBUF-2 octets *)
      apply Nat.ltb_ge in Elt. cbn iota.
      assert (Heq : Nat.eqb (S (length l)) (LINEINBUF - 1) = true) by (apply Nat.eqb_eq; lia).
      rewrite Heq. cbn [andb].
      replace (S (length l) - 1) with (length l) by lia. rewrite Hnth. change (N.eqb CR CR) with true. cbn iota.
      destruct (loop_long_clean (S (length (rest e1))) e1 true [] R ltac:(lia)) as (i & e2 & Hll & Hi & Hil).
      { right. auto. }
      rewrite Hll. unfold line_item.
      assert (Hlong : Nat.leb (length l + 3) LINEINBUF = false) by (apply Nat.leb_gt; lia).
      rewrite Hlong. eexists. split; [reflexivity|]. unfold total. cbn [inn en]. auto.
  - (* the CRLF is in the buffer *)
    rewrite E1. rewrite (find_eol_crlf l y Hfl).
    assert (Hlen : length l + 2 <= LINEINBUF - 1).
    { rewrite E1 in Hbd. rewrite !app_length in Hbd. simpl in Hbd. lia. }
    assert (Hretry : (negb true && Nat.eqb (length l + 2) (length (l ++ [CR; LF] ++ y)) && Nat.ltb (length (l ++ [CR; LF] ++ y)) (LINEINBUF - 1)
                      && N.eqb (nth (length l + 2 - 1) (l ++ [CR; LF] ++ y) 0%N) CR) = false) by reflexivity.
    rewrite Hretry. cbn iota.
    unfold line_item.
    assert (Hshort : Nat.leb (length l + 3) LINEINBUF = true) by (apply Nat.leb_le; lia).
    rewrite Hshort. eexists. split.
    + f_equal. f_equal. replace (length l + 2 - 2) with (length l) by lia.
      rewrite firstn_app, firstn_all, Nat.sub_diag. simpl. now rewrite app_nil_r.
    + unfold total. cbn [inn en]. split.
      * replace (length l + 2) with (length (l ++ [CR; LF])) by (rewrite app_length; simpl; lia).
        rewrite app_assoc, skipn_app, skipn_all, Nat.sub_diag. simpl. symmetry. exact E2.
      * rewrite skipn_length. rewrite E1 in Hbd. rewrite !app_length in *. simpl in *. lia.
Qed.

(** ---------- one net_read on clean input ---------- *)
Definition inn_ok (s : rstate) : Prop := length (inn s) <= LINEINBUF - 2.

Lemma net_read_clean_line s l R : inn_ok s -> free l -> total s = l ++ [CR; LF] ++ R ->
  exists s', net_read s = (line_item l, s') /\ total s' = R /\ inn_ok s'.
Proof.
  pose proof LBv as HL. unfold inn_ok, total. intros Hi Hfl HT.
  unfold net_read.
  destruct (inn s) as [|b0 i0] eqn:Ei.
  { simpl in HT. apply (read_loop_clean (S (length (rest (en s)))) [] (en s) l R); [lia|exact Hfl|simpl; lia|].
    left. exists l. auto. }
  rewrite <- Ei in *. clear b0 i0 Ei.
  destruct (prefix_shape _ _ _ _ HT) as [(l2 & E1 & E2)|[(E1 & E2)|(y & E1 & E2)]].
  - assert (Hfb : free (inn s)) by (rewrite E1 in Hfl; eapply free_prefix; exact Hfl).
    rewrite (find_eol_free _ Hfb).
    apply (read_loop_clean (S (length (rest (en s)))) (inn s) (en s) l R); [lia|exact Hfl|exact Hi|]. left. exists l2. auto.
  - rewrite E1. rewrite (find_eol_cr_end l Hfl).
    assert (Hlen : length (l ++ [CR]) = S (length l)) by (rewrite app_length; simpl; lia).
    replace (S (length l) - 1) with (length l) by lia.
    assert (Hnth : nth (length l) (l ++ [CR]) 0%N = CR) by (rewrite app_nth2 by lia; rewrite Nat.sub_diag; reflexivity).
    rewrite Hnth, Hlen, Nat.eqb_refl. change (N.eqb CR CR) with true. cbn [andb].
    rewrite <- E1.
    apply (read_loop_clean (S (length (rest (en s)))) (inn s) (en s) l R); [lia|exact Hfl|exact Hi|]. right. auto.
  - rewrite E1. rewrite (find_eol_crlf l y Hfl).
    assert (Hlen : length l + 2 <= LINEINBUF - 2).
    { rewrite E1 in Hi. rewrite !app_length in Hi. simpl in Hi. lia. }
    unfold line_item.
    assert (Hshort : Nat.leb (length l + 3) LINEINBUF = true) by (apply Nat.leb_le; lia).
    rewrite Hshort. eexists. split.
    + f_equal. f_equal. replace (length l + 2 - 2) with (length l) by lia.
      rewrite firstn_app, firstn_all, Nat.sub_diag. simpl. now rewrite app_nil_r.
    + cbn [inn en]. split.
      * replace (length l + 2) with (length (l ++ [CR; LF])) by (rewrite app_length; simpl; lia).
        rewrite app_assoc, skipn_app, skipn_all, Nat.sub_diag. simpl. symmetry. exact E2.
      * rewrite skipn_length. rewrite E1 in Hi. rewrite !app_length in *. simpl in *. lia.
Qed.

(** no line end ahead: the reader waits until the connection is closed *)
Lemma loop_long_dead fuel : forall e, length (rest e) < fuel -> free (rest e) ->
  exists e', loop_long fuel e false = (None, e').
Proof.
  induction fuel as [|f IH]; intros e Hf Hfr; [lia|]. cbn [loop_long].
  destruct (readinput e LINEINBUF) as [[b e1]|] eqn:Er; [|eauto].
  destruct (readinput_spec _ _ _ _ Er) as (Hrest & _ & _).
  destruct (readinput_some_progress _ _ _ _ Er ltac:(pose proof LBv; lia)) as (_ & Hprog).
  cbn [andb]. rewrite Hrest in Hfr. apply free_app in Hfr as [Hfb Hfr1].
  rewrite (find_eol_free b Hfb). apply IH; [lia|exact Hfr1].
Qed.

Lemma read_loop_dead fuel : forall buf e, length (rest e) < fuel -> free (buf ++ rest e) ->
  length buf <= LINEINBUF - 2 ->
  exists s', read_loop fuel buf e = (Dead, s').
Proof.
  pose proof LBv as HL.
  induction fuel as [|f IH]; intros buf e Hf Hfr Hbl; [lia|]. cbn [read_loop].
  destruct (readinput e (LINEINBUF - length buf)) as [[d e1]|] eqn:Er; [|eauto].
  destruct (readinput_spec _ _ _ _ Er) as (Hrest & Hdlen & _).
  destruct (readinput_some_progress _ _ _ _ Er ltac:(lia)) as (_ & Hprog).
  rewrite Hrest, app_assoc in Hfr. pose proof (free_prefix _ _ Hfr) as Hfb.
  rewrite (find_eol_free _ Hfb). cbn iota.
  destruct (Nat.ltb (length (buf ++ d)) (LINEINBUF - 1)) eqn:Elt.
  - apply Nat.ltb_lt in Elt. apply IH; [lia|exact Hfr|lia].
  - apply free_app in Hfr as [_ Hfr1].
    destruct (loop_long_dead (S (length (rest e1))) e1 ltac:(lia) Hfr1) as (e2 & Hll). rewrite Hll. eauto.
Qed.

Lemma net_read_clean_dead s : inn_ok s -> free (total s) -> exists s', net_read s = (Dead, s').
Proof.
  unfold inn_ok, total. intros Hi Hfr. unfold net_read.
  destruct (inn s) as [|b0 i0] eqn:Ei.
  { apply read_loop_dead; [lia|exact Hfr|pose proof LBv; simpl; lia]. }
  rewrite <- Ei in *. pose proof (free_prefix _ _ Hfr) as Hfb.
  rewrite (find_eol_free _ Hfb). apply read_loop_dead; [lia|exact Hfr|exact Hi].
Qed.

(** ---------- the schedule-free specification ---------- *)
(** cut a stream at its CRLF pairs: the complete lines, in order (an unterminated tail is dropped) *)
Fixpoint split_lines (cur s : bytes) {struct s} : list bytes :=
  match s with
  | [] => []
  | b :: s' =>
      if N.eqb b CR then
        match s' with
        | c :: s'' => if N.eqb c LF then rev cur :: split_lines [] s'' else split_lines (b :: cur) s'
        | [] => []
        end
      else split_lines (b :: cur) s'
  end.

Definition spec_items (s : bytes) : list item := map line_item (split_lines [] s) ++ [Dead].

(** a clean stream has no CR/LF at all, or is  l ++ CRLF ++ R  with l free of CR/LF and R clean *)
Lemma clean_decompose : forall s, clean_stream s = true ->
  free s \/ exists l R, s = l ++ [CR; LF] ++ R /\ free l /\ clean_stream R = true.
Proof.
  induction s as [|b s IH]; intros H; [left; constructor|].
  cbn [clean_stream] in H.
  destruct (N.eqb b CR) eqn:Ecr.
  - apply N.eqb_eq in Ecr. subst b. destruct s as [|c s]; [discriminate|].
    apply andb_true_iff in H as [Hc Hs]. apply N.eqb_eq in Hc. subst c.
    right. exists [], s. repeat split; auto. constructor.
  - destruct (N.eqb b LF) eqn:Elf; [discriminate|].
    apply N.eqb_neq in Ecr. apply N.eqb_neq in Elf.
    destruct (IH H) as [Hf|(l & R & E & Hfl & HR)].
    + left. constructor; auto.
    + right. exists (b :: l), R. subst s. repeat split; auto. constructor; auto.
Qed.

Lemma split_lines_free : forall s cur, free s -> split_lines cur s = [].
Proof.
  induction s as [|b s IH]; intros cur Hf; [reflexivity|]. cbn [split_lines].
  inversion Hf as [|? ? [H1 H2] Hs]; subst.
  destruct (N.eqb b CR) eqn:E; [apply N.eqb_eq in E; congruence|]. apply IH. exact Hs.
Qed.

Lemma split_lines_line : forall l cur R, free l ->
  split_lines cur (l ++ [CR; LF] ++ R) = (rev cur ++ l) :: split_lines [] R.
Proof.
  induction l as [|b l IH]; intros cur R Hf.
  - simpl. now rewrite app_nil_r.
  - inversion Hf as [|? ? [H1 H2] Hl]; subst. cbn [app split_lines].
    destruct (N.eqb b CR) eqn:E; [apply N.eqb_eq in E; congruence|].
    change (CR :: LF :: R) with ([CR; LF] ++ R). rewrite (IH (b :: cur) R Hl). simpl. rewrite <- app_assoc. reflexivity.
Qed.

(** ---------- the reader on clean streams ---------- *)
Lemma line_item_live l : line_item l <> Dead /\ line_item l <> Stuck.
Proof. unfold line_item. destruct (Nat.leb (length l + 3) LINEINBUF); split; discriminate. Qed.

Lemma reader_clean : forall n s fuel, length (total s) <= n -> n < fuel -> inn_ok s ->
  clean_stream (total s) = true ->
  map fst (reader fuel s) = spec_items (total s).
Proof.
  induction n as [|n IH]; intros s fuel Hn Hf Hi Hc.
  - assert (Ht : total s = []) by (destruct (total s); [reflexivity|simpl in Hn; lia]).
    destruct fuel; [lia|]. cbn [reader].
    destruct (net_read_clean_dead s Hi) as (s' & Hr); [rewrite Ht; constructor|].
    rewrite Hr, Ht. reflexivity.
  - destruct fuel; [lia|]. cbn [reader].
    destruct (clean_decompose _ Hc) as [Hfr|(l & R & E & Hfl & HR)].
    + destruct (net_read_clean_dead s Hi Hfr) as (s' & Hr). rewrite Hr.
      unfold spec_items. rewrite (split_lines_free _ [] Hfr). reflexivity.
    + destruct (net_read_clean_line s l R Hi Hfl E) as (s' & Hr & Ht' & Hi').
      rewrite Hr. destruct (line_item_live l) as (Hnd & Hns).
      unfold spec_items. rewrite E, (split_lines_line l [] R Hfl). cbn [map app rev].
      assert (Hrec : map fst (reader fuel s') = spec_items R).
      { rewrite <- Ht'. apply (IH s' fuel); [|lia|exact Hi'|now rewrite Ht'].
        rewrite Ht'. rewrite E in Hn. rewrite !app_length in Hn. simpl in Hn. lia. }
      destruct (line_item l) eqn:El; try congruence; cbn [map fst]; rewrite Hrec; reflexivity.
Qed.

(** The sequence of items (lines and too-long errors) the reader produces for a clean stream does not
    depend on how the stream is cut into segments: it is [spec_items stream]. *)
Theorem reader_schedule_independent stream cuts : clean_stream stream = true ->
  map fst (run_reader stream cuts) = spec_items stream.
Proof.
  intros Hc. unfold run_reader.
  set (s0 := {| inn := []; en := {| cur := []; future := segments stream cuts |} |}).
  assert (Ht : total s0 = stream) by (unfold total, rest, s0; cbn [inn en cur future]; now rewrite concat_segments).
  rewrite <- Ht at 2. apply (reader_clean (length stream)); [now rewrite Ht|lia| |now rewrite Ht].
  unfold inn_ok, s0. simpl. pose proof LBv. lia.
Qed.

(** C09, "AUTH is refused before EHLO": the trace notes [NEsmtp e] record which greeting was accepted last; the
    abstract machine keeps it in [a_esmtp] and accepts an AUTH note only when it is true.  This file shows that the
    server can be in the state in which AUTH is possible (command state 0x10), or have its ESMTP flag set, only if the last
    accepted greeting was an EHLO - over every round of the command loop.  (The flag alone is NOT equivalent to
    that: a refused HELO clears it without leaving the EHLO state.) *)
From Qv Require Import Common.Bytes Gen.GenNetio Gen.GenSession Model.NetRead Model.Session Spec.SessionSpec Proofs.RelayDecide Proofs.AuthSync.
From Coq Require Import Lia.

Definition esm_step (e : event) (b : bool) : bool := match e with Note (NEsmtp x) => x | _ => b end.
Definition esm_run (evs : list event) (b : bool) : bool := fold_left (fun b e => esm_step e b) evs b.
Definition is_esm_note (e : event) : bool := match e with Note (NEsmtp _) => true | _ => false end.
Definition has_esm (evs : list event) : bool := existsb is_esm_note evs.

Lemma has_esm_app a b : has_esm (a ++ b) = has_esm a || has_esm b.
Proof. apply existsb_app. Qed.
Lemma esm_run_app a b x : esm_run (a ++ b) x = esm_run b (esm_run a x).
Proof. unfold esm_run. apply fold_left_app. Qed.
Lemma esm_run_none evs b : has_esm evs = false -> esm_run evs b = b.
Proof.
  revert b; induction evs as [|e r IH]; intros b H; [reflexivity|].
  cbn [has_esm existsb] in H. apply orb_false_iff in H as [He Hr]. cbn [esm_run fold_left]. fold (esm_run r (esm_step e b)).
  rewrite (IH _ Hr). destruct e as [c|x y| | |n]; try reflexivity. destruct n; try reflexivity. discriminate.
Qed.

(** which rows of commands[] can leave the command state at 0x10 *)
Definition row_ok (ie : nat * (list N * N * nat * Z * N)) : bool :=
  let '(i, (_, mask, hid, st, _)) := ie in
  match hid with
  | 7 => true                                            (* DATA: the handler computes 0x08 << esmtp itself *)
  | 3 => Z.eqb st 0 && negb (Nat.eqb i 4)                 (* HELO -> 1 << i, not 0x10 *)
  | 4 => Z.eqb st 0 && Nat.eqb i 4                        (* EHLO -> 0x10 *)
  | 9 => N.eqb mask 16 && Z.ltb st 0                      (* AUTH only in 0x10, state unchanged *)
  | _ => Z.ltb st 0 || (Z.eqb st 0 && negb (Nat.eqb i 4)) || (Z.ltb 0 st && negb (Z.eqb st 16))
  end.
Lemma rows_ok : forallb row_ok (combine (seq 0 (length commands)) commands) = true.
Proof. vm_compute. reflexivity. Qed.

Lemma find_cmd_in' tbl : forall k l i c, find_cmd tbl k l = Some (i, c) -> In (i, c) (combine (seq k (length tbl)) tbl).
Proof.
  induction tbl as [|e t IH]; intros k l i c H; simpl in H; [discriminate|].
  destruct e as [[[[name mask] hid] st] flags].
  destruct (strncaseeq name l).
  - inversion H; subst. simpl. left. reflexivity.
  - simpl. right. apply (IH _ _ _ _ H).
Qed.
Lemma find_cmd_row l i c : find_cmd commands 0 l = Some (i, c) -> row_ok (i, c) = true.
Proof.
  intros H. apply find_cmd_in' in H. pose proof rows_ok as T. rewrite forallb_forall in T. exact (T _ H).
Qed.

Section Esm.
Variable o : oracles.

Lemma trace_step_esm e a a' : trace_step o e a = Some a' -> a_esmtp a' = esm_step e (a_esmtp a).
Proof.
  unfold trace_step. intros H.
  destruct e as [c|env msg| | |n]; try (inversion H; subst; reflexivity).
  - destruct (a_txn a); [destruct (bytes_eqb _ _)|]; inversion H; subst. reflexivity.
  - destruct n;
      repeat (match type of H with
              | context [match ?x with _ => _ end] => destruct x eqn:?
              | context [if ?x then _ else _] => destruct x eqn:?
              end; try discriminate);
      inversion H; subst; reflexivity.
Qed.
Lemma trace_run_esm evs : forall a a', trace_run o evs a = Some a' -> a_esmtp a' = esm_run evs (a_esmtp a).
Proof.
  induction evs as [|e r IH]; intros a a' H; cbn [trace_run] in H.
  - inversion H; subst. reflexivity.
  - destruct (trace_step o e a) as [a1|] eqn:E; [|discriminate].
    rewrite (IH _ _ H), (trace_step_esm _ _ _ E). reflexivity.
Qed.

(** the invariant: b = "the last accepted greeting was EHLO" *)
Definition K (s : sstate) (b : bool) : Prop := (esmtp s = true -> b = true) /\ (comstate s = 16%N -> b = true).

(** a handler that is not HELO/EHLO: no greeting note, the ESMTP flag stays, the command state stays or becomes 0x08 << esmtp *)
Definition keeps (s s' : sstate) : Prop :=
  esmtp s' = esmtp s /\ (comstate s' = comstate s \/ comstate s' = helo_state (esmtp s)).

Lemma K_keeps s s' b : K s b -> keeps s s' -> K s' b.
Proof.
  intros [K1 K2] [He Hc]. split; [rewrite He; exact K1|].
  destruct Hc as [E|E]; rewrite E; [exact K2|]. unfold helo_state. destruct (esmtp s) eqn:Ee; [intros _; auto|discriminate].
Qed.
Lemma keeps_refl s : keeps s s. Proof. split; auto. Qed.
Lemma dp_core s : esmtp (snd (data_pending s)) = esmtp s /\ comstate (snd (data_pending s)) = comstate s.
Proof. unfold data_pending. destruct (inn (rd s)); [|auto]. destruct (cur (en (rd s))); auto. Qed.
Lemma keeps_tarpit s s' : keeps s s' -> keeps s (tarpit s').
Proof. intros [He Hc]. destruct (dp_core s') as [E1 E2]. unfold tarpit, keeps. rewrite E1, E2. auto. Qed.
Lemma keeps_freedata s s' : keeps s s' -> keeps s (freedata s').
Proof.
  intros [He Hc]. unfold keeps, freedata. cbn [esmtp comstate]. split; [exact He|].
  destruct (N.eqb (N.land (comstate s') TRANS_STATES) 0); [exact Hc|]. right. now rewrite He.
Qed.

Lemma wait_for_quit_esm fuel : forall s, has_esm (wait_for_quit fuel s) = false.
Proof.
  induction fuel as [|f IH]; intros s; cbn [wait_for_quit]; [reflexivity|].
  destruct (net_read (rd s)) as [it r'].
  destruct it; try reflexivity;
    try (match goal with |- context [if ?b then [Reply 221; Closed] else _] => destruct b; [reflexivity|] end);
    (match goal with |- context [if ?b then [Note NBadClose; Reply 550; Closed] else _] => destruct b; [reflexivity|] end);
    cbn [has_esm existsb is_esm_note orb]; apply IH.
Qed.

Lemma sync_pipelining_esm f s sp s2 : sync_pipelining f s = (sp, s2) ->
  keeps s s2 /\ (forall evs, sp = Some evs -> has_esm evs = false).
Proof.
  unfold sync_pipelining. destruct (data_pending s) as [p sd] eqn:Ed.
  assert (Hb : keeps s sd).
  { destruct (dp_core s) as [E1 E2]. rewrite Ed in E1, E2. cbn [snd] in E1, E2. split; auto. }
  destruct (negb p). { intros H; inversion H; subst. split; [exact Hb|discriminate]. }
  destruct (esmtp sd).
  { intros H; inversion H; subst. split; [exact Hb|]. intros evs E; inversion E; subst.
    cbn [has_esm existsb is_esm_note orb]. apply wait_for_quit_esm. }
  destruct (net_read (rd sd)) as [it r'].
  destruct it; intros H; inversion H; subst; (split; [exact Hb|]); intros evs E; inversion E; subst;
    try reflexivity; cbn [has_esm existsb is_esm_note orb]; apply (wait_for_quit_esm f (set_rd sd r')).
Qed.

Lemma pre_ok_esm pre : pre_ok pre -> has_esm pre = false.
Proof.
  unfold pre_ok, has_esm. induction pre as [|e r IH]; [reflexivity|]. cbn [forallb existsb]. intros H.
  apply andb_true_iff in H as [He Hr]. rewrite (IH Hr), orb_false_r.
  destruct e as [c|x y| | |n]; try reflexivity; try discriminate. destruct n; try discriminate; reflexivity.
Qed.

Lemma relay_decide_esm s cls res s1 pre : relay_decide o s cls = (res, s1, pre) ->
  keeps s s1 /\ has_esm pre = false.
Proof.
  intros H. destruct (relay_decide_core _ _ _ _ _ _ H) as (Hc & Hp). split; [|exact (pre_ok_esm _ Hp)].
  destruct Hc as (_ & C2 & C3 & _). split; auto.
Qed.

Ltac kp := first [ solve [apply keeps_refl] | solve [apply keeps_tarpit; kp] | solve [apply keeps_freedata; kp] | solve [split; cbn [esmtp comstate]; auto] ].

Lemma h_rcpt_esm s arg evs h s' : h_rcpt o s arg = (evs, h, s') -> has_esm evs = false /\ keeps s s'.
Proof.
  unfold h_rcpt. intros H.
  destruct (o_addr o true arg) as [| | |addr more cls];
    try (destruct (Nat.leb MAXRCPT (rcptcount s))); try (inversion H; subst; (split; [reflexivity|kp])).
  destruct (relay_decide o s cls) as [[res s1] pre] eqn:Er.
  destruct (relay_decide_esm _ _ _ _ _ Er) as (Hb & Hpre).
  destruct res as [al|h0]; [|inversion H; subst; split; [exact Hpre|exact Hb]].
  repeat (match type of H with
          | context [match ?x with _ => _ end] => destruct x eqn:?
          | context [if ?x then _ else _] => destruct x eqn:?
          end; try discriminate);
    inversion H; subst; (split; [rewrite ?has_esm_app, ?Hpre; reflexivity|]);
    first [ exact Hb | solve [apply keeps_tarpit; exact Hb]
          | solve [apply keeps_tarpit; destruct Hb as [A B]; split; cbn [esmtp comstate]; auto]
          | solve [destruct Hb as [A B]; split; cbn [esmtp comstate]; auto] ].
Qed.

Lemma subm_gate_esm s res s1 pre : subm_gate o s = (res, s1, pre) ->
  keeps s s1 /\ has_esm pre = false.
Proof.
  unfold subm_gate. destruct (o_submission o); [apply relay_decide_esm|]. intros H; inversion H; subst. split; [apply keeps_refl|auto].
Qed.

Lemma h_from_esm s arg len evs h s' : h_from o s arg len = (evs, h, s') -> has_esm evs = false /\ keeps s s'.
Proof.
  unfold h_from. intros H.
  destruct (o_addr o false arg) as [| | |addr more cls]; [inversion H; subst; split; [reflexivity|split; cbn [esmtp comstate]; auto]| | |];
    (match type of H with context [subm_gate o ?sc] =>
       destruct (subm_gate o sc) as [[res s1] pre] eqn:Eg; destruct (subm_gate_esm _ _ _ _ Eg) as (Hb & Hpre) end);
    (assert (Hb' : keeps s s1) by (destruct Hb as [A B]; split; cbn [esmtp comstate] in *; auto)); clear Hb;
    (destruct res as [al|h0]; [|inversion H; subst; split; [exact Hpre|exact Hb']]);
    repeat (match type of H with
            | context [match ?x with _ => _ end] => destruct x eqn:?
            | context [if ?x then _ else _] => destruct x eqn:?
            end; try discriminate);
    inversion H; subst; (split; [rewrite ?has_esm_app, ?Hpre; reflexivity|]);
    first [ exact Hb' | solve [apply keeps_tarpit; exact Hb']
          | solve [destruct Hb' as [A B]; split; cbn [esmtp comstate]; auto] ].
Qed.

Lemma h_data_esm f s evs h s' : h_data f o s = (evs, h, s') -> has_esm evs = false /\ keeps s s'.
Proof.
  unfold h_data. intros H.
  destruct (Nat.eqb (goodrcpt s) 0).
  { inversion H; subst. split; [reflexivity|kp]. }
  destruct (sync_pipelining f s) as [sp s2] eqn:Esp.
  destruct (sync_pipelining_esm _ _ _ _ Esp) as (Hb & Hq).
  destruct sp as [e|].
  { inversion H; subst. split; [apply Hq; reflexivity|exact Hb]. }
  match type of H with context [data_loop ?a ?b ?c ?d ?e] => destruct (data_loop a b c d e) as [de r'] end.
  destruct Hb as [A B].
  destruct de;
    repeat (match type of H with
            | context [match ?x with _ => _ end] => destruct x eqn:?
            | context [if ?x then _ else _] => destruct x eqn:?
            | context [let '(_, _) := ?x in _] => destruct x eqn:?
            end; try discriminate);
    inversion H; subst; (split; [reflexivity|]);
    first [ solve [split; cbn [set_rd esmtp comstate]; auto]
          | solve [apply keeps_freedata; split; cbn [set_rd esmtp comstate]; auto] ].
Qed.

Lemma on_error_esm s h ev so : on_error s h = (ev, so) ->
  has_esm ev = false /\ match so with Some s' => keeps s s' | None => True end.
Proof.
  unfold on_error. intros H. destruct (Nat.ltb MAXBADCMDS (badcmds s)).
  - inversion H; subst. split; [reflexivity|exact Logic.I].
  - destruct h; inversion H; subst; (split; [reflexivity|]);
      first [ solve [split; cbn [set_badcmds esmtp comstate]; auto] | solve [apply keeps_tarpit; split; cbn [set_badcmds esmtp comstate]; auto] ].
Qed.

(** one command *)
Lemma dispatch_esm f s l evs h s1 b : dispatch f o s l = (evs, h, s1) -> K s b -> K s1 (esm_run evs b).
Proof.
  unfold dispatch. intros H HK.
  assert (Kq : forall (e : list event) s', has_esm e = false -> keeps s s' -> K s' (esm_run e b))
    by (intros e s' E Hk; rewrite (esm_run_none _ _ E); exact (K_keeps _ _ _ HK Hk)).
  destruct (negb (line_valid l)). { inversion H; subst. apply Kq; [reflexivity|apply keeps_refl]. }
  destruct (find_cmd commands 0 l) as [[i [[[[name mask] hid] st] flags]]|] eqn:Ef.
  2:{ inversion H; subst. apply Kq; [reflexivity|apply keeps_refl]. }
  pose proof (find_cmd_row _ _ _ Ef) as Hrow. unfold row_ok in Hrow.
  destruct (N.eqb (N.land (comstate s) mask) 0). { inversion H; subst. apply Kq; [reflexivity|apply keeps_refl]. }
  destruct (N.eqb (N.land flags 2) 0 && Nat.ltb CMD_LINE_MAX (length l)). { inversion H; subst. apply Kq; [reflexivity|apply keeps_refl]. }
  destruct (N.eqb (N.land flags 1) 0 && negb (Nat.eqb (length (skipn (length name) l)) 0)). { inversion H; subst. apply Kq; [reflexivity|apply keeps_refl]. }
  destruct (negb (N.eqb (N.land flags 4) 0) && negb (N.eqb (nth 0 (skipn (length name) l) 0%N) SP)). { inversion H; subst. apply Kq; [reflexivity|apply keeps_refl]. }
  (* after_handler on success: the new command state is 0x10 only if it is the old one passed through *)
  assert (NotE : (Z.ltb st 0 || (Z.eqb st 0 && negb (Nat.eqb i 4)) || (Z.ltb 0 st && negb (Z.eqb st 16))) = true ->
            forall cs : N, (if Z.ltb 0 st then Z.to_N st else if Z.eqb st 0 then N.shiftl 1 (N.of_nat i) else cs) = 16%N -> cs = 16%N).
  { intros Hst cs.
    destruct (Z.ltb 0 st) eqn:Epos.
    - apply Z.ltb_lt in Epos. destruct (Z.ltb st 0) eqn:En; [apply Z.ltb_lt in En; lia|].
      destruct (Z.eqb st 0) eqn:Ez; [apply Z.eqb_eq in Ez; lia|]. cbn [orb andb] in Hst.
      apply negb_true_iff in Hst. apply Z.eqb_neq in Hst. intros E16. exfalso. apply Hst.
      rewrite <- (Z2N.id st) by lia. rewrite E16. reflexivity.
    - destruct (Z.eqb st 0) eqn:Ez; [|auto].
      destruct (Z.ltb st 0) eqn:En; [apply Z.ltb_lt in En; apply Z.eqb_eq in Ez; lia|]. cbn [orb andb] in Hst.
      rewrite orb_false_r in Hst. apply negb_true_iff in Hst. apply Nat.eqb_neq in Hst.
      intros E16. exfalso. apply Hst.
      assert (Hi : i < 16 \/ 16 <= i) by lia. destruct Hi as [Hi|Hi].
      + do 16 (destruct i as [|i]; [try reflexivity; cbn in E16; discriminate|]). lia.
      + exfalso. rewrite N.shiftl_1_l in E16.
        assert (X : (2 ^ 16 <= 2 ^ N.of_nat i)%N) by (apply N.pow_le_mono_r; lia). rewrite E16 in X. cbn in X. lia. }
  assert (Kh : forall (e : list event) s', has_esm e = false -> keeps s s' ->
            (Z.ltb st 0 || (Z.eqb st 0 && negb (Nat.eqb i 4)) || (Z.ltb 0 st && negb (Z.eqb st 16))) = true ->
            K (set_badcmds (set_comstate s' (if Z.ltb 0 st then Z.to_N st else if Z.eqb st 0 then N.shiftl 1 (N.of_nat i) else comstate s')) 0)
              (esm_run e b)).
  { intros e s' E Hk Hst. rewrite (esm_run_none _ _ E). destruct (K_keeps _ _ _ HK Hk) as [K1 K2].
    split; [exact K1|]. cbn [set_badcmds set_comstate comstate]. intros E16. apply K2. exact (NotE Hst _ E16). }
  unfold after_handler, run_handler in H.
  destruct hid as [|[|[|[|[|[|[|[|[|[|[|[|[|hid]]]]]]]]]]]]].
  - (* NOOP *) destruct (sync_pipelining f s) as [sp s2] eqn:Esp. destruct (sync_pipelining_esm _ _ _ _ Esp) as (Hb & Hq).
    destruct sp as [e|]; inversion H; subst; [apply Kq; auto|apply Kh; auto].
  - inversion H; subst. apply Kq; [reflexivity|apply keeps_refl].
  - (* RSET *)
    destruct (N.leb 8 (comstate s)).
    + assert (Hpos : (0 <? Z.of_N (helo_state (esmtp s)))%Z = true) by (unfold helo_state; destruct (esmtp s); reflexivity).
      rewrite Hpos in H. inversion H; subst. rewrite N2Z.id. cbn [esm_run fold_left esm_step].
      destruct HK as [K1 K2]. split; cbn [set_badcmds set_comstate freedata esmtp comstate]; [exact K1|].
      unfold helo_state. destruct (esmtp s); [intros _; auto|discriminate].
    + inversion H; subst. cbn [esm_run fold_left esm_step]. destruct HK as [K1 K2].
      split; cbn [set_badcmds set_comstate esmtp comstate]; [exact K1|].
      (* RSET before a greeting: the row's state column; it is not 0x10 *)
      pose proof (Kh [Reply 250] s eq_refl (keeps_refl s) Hrow) as [_ X]. exact X.
  - (* HELO *)
    destruct (o_helo o (skipn 5 l)); inversion H; subst.
    + cbn [esm_run fold_left esm_step].
      split; cbn [set_badcmds set_comstate esmtp comstate]; [discriminate|].
      (* the new command state is the row's 1 << i: not 0x10 *)
      apply andb_true_iff in Hrow as [Hz Hi]. apply Z.eqb_eq in Hz. subst st.
      intros E16. exfalso.
      assert (X : 0%N = 16%N).
      { apply (NotE (eq_trans (f_equal (fun x => (0 <? 0)%Z || ((0 =? 0)%Z && x) || ((0 <? 0)%Z && negb (0 =? 16)%Z)) Hi) eq_refl) 0%N). exact E16. }
      discriminate.
    + cbn [esm_run fold_left esm_step]. destruct HK as [K1 K2].
      split; cbn [freedata esmtp comstate]; [discriminate|].
      destruct (N.eqb (N.land (comstate s) TRANS_STATES) 0); [exact K2|].
      unfold helo_state. destruct (esmtp s); [intros _; auto|discriminate].
  - (* EHLO *)
    destruct (o_helo o (skipn 5 l)); inversion H; subst.
    + cbn [esm_run fold_left esm_step]. split; intros _; reflexivity.
    + apply Kq; [reflexivity|apply keeps_freedata; apply keeps_refl].
  - (* MAIL *)
    destruct (h_from o s (skipn (length name) l) (length l)) as [[e h'] s'] eqn:Eh.
    destruct (h_from_esm _ _ _ _ _ _ Eh) as (Hn & Hb).
    destruct h'; inversion H; subst; try (apply Kq; assumption). apply Kh; assumption.
  - (* RCPT *)
    destruct (h_rcpt o s (skipn (length name) l)) as [[e h'] s'] eqn:Eh.
    destruct (h_rcpt_esm _ _ _ _ _ Eh) as (Hn & Hb).
    destruct h'; inversion H; subst; try (apply Kq; assumption). apply Kh; assumption.
  - (* DATA *)
    destruct (h_data f o s) as [[e h'] s'] eqn:Eh.
    destruct (h_data_esm _ _ _ _ _ Eh) as (Hn & Hb).
    destruct h'; inversion H; subst; try (apply Kq; assumption).
    rewrite (esm_run_none _ _ Hn). destruct (K_keeps _ _ _ HK Hb) as [K1 K2].
    assert (Hpos : (0 <? Z.of_N (helo_state (esmtp s')))%Z = true) by (unfold helo_state; destruct (esmtp s'); reflexivity).
    rewrite Hpos. rewrite N2Z.id. split; cbn [set_badcmds set_comstate esmtp comstate]; [exact K1|].
    unfold helo_state. destruct (esmtp s'); [intros _; auto|discriminate].
  - (* STARTTLS *) destruct (negb (esmtp s)); inversion H; subst; apply Kq; first [reflexivity|apply keeps_refl].
  - (* AUTH *)
    apply andb_true_iff in Hrow as [_ Hst].
    assert (Hst' : (Z.ltb st 0 || (Z.eqb st 0 && negb (Nat.eqb i 4)) || (Z.ltb 0 st && negb (Z.eqb st 16))) = true) by (rewrite Hst; reflexivity).
    destruct (authed s || negb (o_authperm o)). { inversion H; subst. apply Kq; [reflexivity|apply keeps_refl]. }
    destruct (o_auth o (skipn 5 l)) as [nm|c|]; inversion H; subst.
    + apply (Kh [Note (NAuth nm); Reply 235] (set_authname s nm)); [reflexivity|split; cbn [set_authname esmtp comstate]; auto|exact Hst'].
    + apply Kq; [reflexivity|apply keeps_refl].
    + apply Kq; [reflexivity|apply keeps_refl].
  - (* VRFY *) inversion H; subst. apply Kh; [reflexivity|apply keeps_refl|exact Hrow].
  - (* BDAT *) inversion H; subst. apply Kq; [reflexivity|apply keeps_refl].
  - (* POST *)
    destruct (N.eqb (comstate s) 1 && bytes_eqb (sub l 4 10) [32; 47; 32; 72; 84; 84; 80; 47; 49; 46]%N);
      inversion H; subst; apply Kq; first [reflexivity|apply keeps_refl].
  - inversion H; subst. apply Kq; [reflexivity|apply keeps_refl].
Qed.

Lemma step_esm f s evs s' b : step f o s = (evs, Some s') -> K s b -> K s' (esm_run evs b).
Proof.
  unfold step. intros H HK. destruct (net_read (rd s)) as [it r'].
  assert (HK0 : K (set_rd s r') b) by exact HK.
  destruct it as [l| | | |].
  - destruct (dispatch f o (set_rd s r') l) as [[e h] s1] eqn:Ed.
    pose proof (dispatch_esm _ _ _ _ _ _ _ Ed HK0) as Hd.
    destruct h;
      try (destruct (on_error s1 _) as [ev so'] eqn:Eoe; inversion H; subst;
           destruct (on_error_esm _ _ _ _ Eoe) as (Hn & Hb);
           rewrite esm_run_app, (esm_run_none _ _ Hn); exact (K_keeps _ _ _ Hd Hb)).
    + inversion H; subst. rewrite esm_run_app. cbn [esm_run fold_left esm_step]. exact Hd.
    + inversion H.
  - destruct (on_error_esm _ _ _ _ H) as (Hn & Hb). rewrite (esm_run_none _ _ Hn). exact (K_keeps _ _ _ HK0 Hb).
  - destruct (on_error_esm _ _ _ _ H) as (Hn & Hb). rewrite (esm_run_none _ _ Hn). exact (K_keeps _ _ _ HK0 Hb).
  - inversion H.
  - inversion H.
Qed.

End Esm.

(** C18 proofs, part 2: the event list of the model satisfies the one-pass checker
    [spec_ok_C18].  A relation [Rel] between the program state and the checker state
    reached after the events so far is preserved by every primitive (write, net_read,
    handshake, close) and carried through the loops by induction on the fuel.

    The four facts about the code that the proof needs (they are the proposed fixes;
    each is a generated constant, so with a fix missing the corresponding lemma fails):
    [fix_pending], [fix_route], [fix_free_ssl], [fix_pinned]. *)
From Qv Require Import Common.Bytes Gen.GenNetio Gen.GenStarttls Model.NetRead Spec.LineSpec
  Proofs.NetReadProofs Model.TlsSwitch Spec.TlsSwitchSpec Proofs.TlsSwitchRead.
Local Open Scope bool_scope.

Lemma fix_pending : ST_CHECKS_PENDING = true.   (* tls_init() refuses clear text behind the STARTTLS reply *)
Proof. reflexivity. Qed.
Lemma fix_route : ST_QUITMSG_RESETS_ROUTE = false.   (* quitmsg() keeps expect_tls and the client certificate of the route *)
Proof. reflexivity. Qed.
Lemma fix_free_ssl : ST_QIN_FREES_SSL = true.   (* quitmsg_if_net() drops the TLS session together with the socket *)
Proof. reflexivity. Qed.
Lemma fix_pinned : ST_PINNED_NEEDS_TLS = true.   (* a tlshosts file demands STARTTLS *)
Proof. reflexivity. Qed.

(* ------------------------------------------------------------------ the relation *)
Definition Inv (k : tcase) (s : st) (c : cst) : Prop :=
  s_xtls s = k_route k /\ s_rcert s = k_route k /\
  length (s_inn s) <= LINEINBUF - 1 /\
  (if s_sock s then
     match x_ph c with
     | PNone => False
     | PClear | PFailed => s_ssl s = false /\ rest (s_tls s) = tls_stream (conn_of k (x_k c))
     | PTls prev => s_ssl s = true /\ prev = avail s /\
                    exists used, tls_stream (conn_of k (x_k c)) = used ++ s_inn s ++ rest (s_tls s)
     end
   else s_ssl s = false).

Definition Rel (k : tcase) (s : st) (c : cst) : Prop := steps k cst0 (s_tr s) = Some c /\ Inv k s c.
Definition Tr (k : tcase) (s : st) : Prop := exists c, steps k cst0 (s_tr s) = Some c.

Definition ok_res {A} (k : tcase) (P : A -> st -> cst -> Prop) (r : res A) : Prop :=
  match r with
  | Ret a s' => exists c', Rel k s' c' /\ P a s' c'
  | Exit s' | Stuck s' => Tr k s'
  end.

Lemma steps_app k tr1 : forall c tr2,
  steps k c (tr1 ++ tr2) = match steps k c tr1 with Some c' => steps k c' tr2 | None => None end.
Proof.
  induction tr1 as [|e tr1 IH]; intros c tr2; simpl; [reflexivity|].
  destruct (step k c e); [apply IH|reflexivity].
Qed.

Lemma Rel_Tr k s c : Rel k s c -> Tr k s.
Proof. intros [H _]. now exists c. Qed.

Lemma Rel_log k s c e c' :
  steps k cst0 (s_tr s) = Some c -> step k c e = Some c' -> Inv k s c' -> Rel k (log e s) c'.
Proof.
  intros Ht Hs Hi. split.
  - cbn [log s_tr]. rewrite steps_app, Ht. cbn [steps]. now rewrite Hs.
  - exact Hi.
Qed.

Lemma ok_bind {A B} k (m : res A) (f : A -> st -> res B) (P : A -> st -> cst -> Prop) (Q : B -> st -> cst -> Prop) :
  ok_res k P m ->
  (forall a s c, Rel k s c -> P a s c -> ok_res k Q (f a s)) ->
  ok_res k Q (rbind m f).
Proof.
  intros Hm Hf. destruct m as [a s|s|s]; cbn [rbind ok_res] in *; [|exact Hm|exact Hm].
  destruct Hm as (c & Hr & Hp). now apply (Hf a s c).
Qed.

Lemma ok_weaken {A} k (P Q : A -> st -> cst -> Prop) (r : res A) :
  ok_res k P r -> (forall a s c, Rel k s c -> P a s c -> Q a s c) -> ok_res k Q r.
Proof.
  intros H Hw. destruct r as [a s|s|s]; cbn [ok_res] in *; [|exact H|exact H].
  destruct H as (c & Hr & Hp). exists c. split; [exact Hr|now apply Hw].
Qed.

Definition kind (p : phase) : nat := match p with PNone => 0 | PClear => 1 | PFailed => 2 | PTls _ => 3 end.
Definition subN (a b : N) : Prop := N.lor b a = b.
Definition keeps (c c' : cst) : Prop :=
  x_k c' = x_k c /\ x_vfy c' = x_vfy c /\ kind (x_ph c') = kind (x_ph c) /\ subN (x_acc c) (x_acc c').

Lemma subN_refl a : subN a a.
Proof. unfold subN. apply N.lor_diag. Qed.
Lemma subN_trans a b c : subN a b -> subN b c -> subN a c.
Proof. unfold subN. intros H1 H2. rewrite <- H2 at 1. rewrite <- N.lor_assoc, H1. exact H2. Qed.
Lemma subN_lor_l a b : subN a (N.lor a b).
Proof. unfold subN. rewrite (N.lor_comm a b), <- N.lor_assoc. now rewrite N.lor_diag. Qed.
Lemma subN_lor_r a b : subN b (N.lor a b).
Proof. unfold subN. rewrite <- N.lor_assoc. now rewrite N.lor_diag. Qed.
Lemma subN_lor a b c : subN a c -> subN b c -> subN (N.lor a b) c.
Proof. unfold subN. intros H1 H2. rewrite N.lor_assoc, H1. exact H2. Qed.
Lemma subN_0 a : subN 0 a.
Proof. unfold subN. apply N.lor_0_r. Qed.

Lemma keeps_refl c : keeps c c.
Proof. repeat split. apply subN_refl. Qed.
Lemma keeps_trans a b c : keeps a b -> keeps b c -> keeps a c.
Proof.
  intros (H1 & H2 & H3 & H4) (G1 & G2 & G3 & G4). repeat split; try congruence.
  eapply subN_trans; eassumption.
Qed.

(* ------------------------------------------------------------------ write *)
Lemma nwrite_ok k s c b :
  Rel k s c -> s_sock s = true -> (x_ph c = PFailed -> b = ST_CMD_QUIT) -> Rel k (nwrite b s) c.
Proof.
  intros Hr Hsock Hq. unfold nwrite. apply (Rel_log k s c _ c (proj1 Hr)); [|exact (proj2 Hr)].
  destruct Hr as [_ (_ & _ & _ & Hp)]. rewrite Hsock in Hp. cbn [step].
  destruct (x_ph c) as [| | |prev]; [contradiction| | |].
  - destruct Hp as [-> _]. reflexivity.
  - destruct Hp as [-> _]. rewrite (Hq eq_refl). now rewrite (proj2 (bytes_eqb_eq _ _) eq_refl).
  - destruct Hp as [-> _]. reflexivity.
Qed.

(* ------------------------------------------------------------------ net_read *)
Lemma firstn_app_exact {A} (a b : list A) n : n = length a -> firstn n (a ++ b) = a.
Proof. intros ->. rewrite firstn_app, Nat.sub_diag, firstn_all. simpl. apply app_nil_r. Qed.
Lemma skipn_app_exact {A} (a b : list A) n : n = length a -> skipn n (a ++ b) = b.
Proof. intros ->. rewrite skipn_app, Nat.sub_diag, skipn_all. reflexivity. Qed.

Definition read_post (c : cst) (s : st) (it : ritem) (s' : st) (c' : cst) : Prop :=
  keeps c c' /\ s_sock s' = true /\ s_linein s' = s_linein s /\
  (forall l, it = RLine l -> kind (x_ph c) = 3 -> subN (line_ext l) (x_acc c')).

Lemma upd_net_tr s i e : s_tr (upd_net s i e) = s_tr s.
Proof. unfold upd_net. destruct (s_ssl s); reflexivity. Qed.

Lemma nread_ok k s c :
  Rel k s c -> s_sock s = true -> ok_res k (read_post c s) (nread s).
Proof.
  intros Hr Hsock. pose proof LB as HLB.
  destruct Hr as [Ht (Hx & Hrc & Hlen & Hp)]. rewrite Hsock in Hp.
  unfold nread.
  destruct (net_read2 {| inn := s_inn s; en := chan s |}) as [it r] eqn:En.
  destruct (net_read2_spec {| inn := s_inn s; en := chan s |} it r Hlen En) as (Hit & Hlen').
  unfold total in Hit. cbn [inn en] in Hit.
  assert (Ht' : steps k cst0 (s_tr (upd_net s (inn r) (en r))) = Some c) by (rewrite upd_net_tr; exact Ht).
  assert (Hdie : Tr k (die (upd_net s (inn r) (en r)))) by (exists c; exact Ht').
  assert (Hstuck : Tr k (upd_net s (inn r) (en r))) by (exists c; exact Ht').
  destruct (x_ph c) as [| | |prev] eqn:Eph; [contradiction| | |].
  - (* clear *)
    destruct Hp as [Hssl Htls].
    assert (Hgo : forall it0, ok_res k (read_post c s)
              (Ret it0 (log (EvR (s_ssl s) it0 (length (inn r) + length (rest (en r)))) (upd_net s (inn r) (en r))))).
    { intros it0. exists c. split.
      - apply (Rel_log k _ c _ c Ht').
        + cbn [step]. rewrite Eph, Hssl. reflexivity.
        + unfold Inv, upd_net. rewrite Hssl. cbn. rewrite Hsock, Eph. repeat split; assumption.
      - unfold read_post. repeat split; try apply subN_refl.
        + unfold upd_net. rewrite Hssl. cbn. exact Hsock.
        + unfold upd_net. rewrite Hssl. reflexivity.
        + intros l _ Hk. rewrite Eph in Hk. discriminate. }
    destruct it; try apply Hgo; [exact Hdie|exact Hstuck].
  - (* after a failed handshake *)
    destruct Hp as [Hssl Htls].
    assert (Hgo : forall it0, ok_res k (read_post c s)
              (Ret it0 (log (EvR (s_ssl s) it0 (length (inn r) + length (rest (en r)))) (upd_net s (inn r) (en r))))).
    { intros it0. exists c. split.
      - apply (Rel_log k _ c _ c Ht').
        + cbn [step]. rewrite Eph, Hssl. reflexivity.
        + unfold Inv, upd_net. rewrite Hssl. cbn. rewrite Hsock, Eph. repeat split; assumption.
      - unfold read_post. repeat split; try apply subN_refl.
        + unfold upd_net. rewrite Hssl. cbn. exact Hsock.
        + unfold upd_net. rewrite Hssl. reflexivity.
        + intros l _ Hk. rewrite Eph in Hk. discriminate. }
    destruct it; try apply Hgo; [exact Hdie|exact Hstuck].
  - (* inside TLS *)
    destruct Hp as (Hssl & Hprev & used & Hused).
    unfold chan in *. rewrite Hssl in *.
    unfold avail, chan in Hprev. rewrite Hssl in Hprev.
    set (T := tls_stream (conn_of k (x_k c))) in *.
    set (lft := length (inn r) + length (rest (en r))).
    (* what a step that consumes [j] looks like *)
    assert (Hgo : forall it0 j acc',
               s_inn s ++ rest (s_tls s) = j ++ inn r ++ rest (en r) ->
               step k c (EvR true it0 lft) = Some (mkC (x_k c) (PTls lft) (x_vfy c) acc') ->
               subN (x_acc c) acc' ->
               (forall l, it0 = RLine l -> subN (line_ext l) acc') ->
               ok_res k (read_post c s) (Ret it0 (log (EvR true it0 lft) (upd_net s (inn r) (en r))))).
    { intros it0 j acc' Hj Hstep Hacc Hext. exists (mkC (x_k c) (PTls lft) (x_vfy c) acc').
      split.
      - apply (Rel_log k _ c _ _ Ht' Hstep).
        unfold Inv, upd_net. rewrite Hssl. cbn. rewrite Hsock. repeat split; try assumption.
        exists (used ++ j). fold T. rewrite Hused, Hj. now rewrite <- app_assoc.
      - unfold read_post, keeps. cbn [x_k x_vfy x_ph x_acc kind]. rewrite Eph. repeat split; try assumption.
        + unfold upd_net. rewrite Hssl. cbn. exact Hsock.
        + unfold upd_net. rewrite Hssl. reflexivity.
        + intros l Hl _. now apply Hext. }
    assert (HlenT : length T = length used + prev).
    { rewrite Hused, Hprev. rewrite !app_length. lia. }
    destruct it as [l| | | | |]; cbn [erase item_ok] in Hit; unfold total in Hit; cbn [inn en] in Hit.
    + (* a line *)
      destruct Hit as (Hcut & _ & _).
      apply (Hgo (RLine l) (l ++ [CR; LF]) (N.lor (x_acc c) (line_ext l))).
      * rewrite Hcut. now rewrite <- !app_assoc.
      * cbn [step]. rewrite Eph. cbn [negb].
        assert (Hpl : prev = length l + 2 + lft).
        { pose proof (f_equal (@length _) Hcut) as Hc2. rewrite !app_length in Hc2. simpl in Hc2. unfold lft. lia. }
        fold T. replace (Nat.leb lft prev) with true by (symmetry; apply Nat.leb_le; lia).
        replace (sub T (length T - prev) (prev - lft)) with (l ++ [CR; LF]).
        { rewrite (proj2 (bytes_eqb_eq _ _) eq_refl). reflexivity. }
        unfold sub. replace (length T - prev) with (length used) by lia.
        rewrite Hused, skipn_app_exact by reflexivity. rewrite Hcut.
        replace (l ++ [CR; LF] ++ inn r ++ rest (en r)) with ((l ++ [CR; LF]) ++ inn r ++ rest (en r)) by now rewrite <- app_assoc.
        symmetry. apply firstn_app_exact. rewrite app_length. simpl. lia.
      * apply subN_lor_l.
      * intros l0 Hl0. inversion Hl0; subst. apply subN_lor_r.
    + destruct Hit as (j & _ & Hj).
      apply (Hgo RInval j (x_acc c) Hj); [|apply subN_refl|discriminate].
      cbn [step]. rewrite Eph. cbn [negb].
      replace (Nat.leb lft prev) with true; [reflexivity|].
      symmetry. apply Nat.leb_le. pose proof (f_equal (@length _) Hj) as Hc2. rewrite !app_length in Hc2. unfold lft. lia.
    + destruct Hit as (j & _ & Hj).
      apply (Hgo R2big j (x_acc c) Hj); [|apply subN_refl|discriminate].
      cbn [step]. rewrite Eph. cbn [negb].
      replace (Nat.leb lft prev) with true; [reflexivity|].
      symmetry. apply Nat.leb_le. pose proof (f_equal (@length _) Hj) as Hc2. rewrite !app_length in Hc2. unfold lft. lia.
    + (* reset: nothing is left *)
      destruct (net_read2_reset _ _ En) as (Hi0 & Hr0).
      apply (Hgo RReset (s_inn s ++ rest (s_tls s)) (x_acc c)); [|  |apply subN_refl|discriminate].
      * rewrite Hi0, Hr0. now rewrite !app_nil_r.
      * cbn [step]. rewrite Eph. cbn [negb].
        replace (Nat.leb lft prev) with true; [reflexivity|].
        symmetry. apply Nat.leb_le. unfold lft. rewrite Hi0, Hr0. simpl. lia.
    + exact Hdie.
    + exact Hstuck.
Qed.

(* ------------------------------------------------------------------ netget(0) *)
Lemma Rel_set_linein k s c l : Rel k s c -> Rel k (set_linein l s) c.
Proof. intros H. exact H. Qed.

Definition get_post (c : cst) (v : Z) (s' : st) (c' : cst) : Prop :=
  keeps c c' /\ s_sock s' = true /\
  ((0 <? v)%Z = true -> kind (x_ph c) = 3 -> subN (line_ext (s_linein s')) (x_acc c')).

Lemma neg_not_pos e : (0 <? neg e)%Z = false.
Proof. unfold neg. apply Z.ltb_ge. lia. Qed.

Lemma netget0_ok k s c :
  Rel k s c -> s_sock s = true -> ok_res k (get_post c) (netget0 s).
Proof.
  intros Hr Hsock. unfold netget0.
  eapply ok_bind; [apply nread_ok; eassumption|].
  intros it s1 c1 Hr1 (Hk & Hs1 & _ & Hext).
  assert (Herr : forall e s2, Rel k s2 c1 -> s_sock s2 = true -> ok_res k (get_post c) (Ret (neg e) s2)).
  { intros e s2 Hr2 Hs2. exists c1. split; [exact Hr2|]. split; [exact Hk|]. split; [exact Hs2|].
    intros H. rewrite neg_not_pos in H. discriminate. }
  destruct it as [l| | | | |]; try (apply Herr; assumption).
  destruct (netget_code l) as [code|].
  - exists c1. split; [apply Rel_set_linein; exact Hr1|].
    split; [exact Hk|]. split; [exact Hs1|].
    intros _ Hk3. cbn [set_linein s_linein]. now apply (Hext l).
  - apply Herr; [apply Rel_set_linein; exact Hr1|exact Hs1].
Qed.

(* ------------------------------------------------------------------ greeting() *)
Definition loop_post (c : cst) (s' : st) (c' : cst) : Prop := keeps c c' /\ s_sock s' = true.

Lemma ehlo_loop_ok k fuel : forall sc ret err s c,
  Rel k s c -> s_sock s = true -> (kind (x_ph c) = 3 -> subN ret (x_acc c)) ->
  ok_res k (fun r s' c' => loop_post c s' c' /\
             match r with inl t => (t <? 0)%Z = true | inr (ret', _) => kind (x_ph c) = 3 -> subN ret' (x_acc c') end)
         (ehlo_loop fuel sc ret err s).
Proof.
  induction fuel as [|fuel IH]; intros sc ret err s c Hr Hsock Hret; cbn [ehlo_loop].
  { destruct (dash3 s); [exact (Rel_Tr _ _ _ Hr)|].
    exists c. split; [exact Hr|]. split; [split; [apply keeps_refl|exact Hsock]|exact Hret]. }
  destruct (dash3 s).
  2:{ exists c. split; [exact Hr|]. split; [split; [apply keeps_refl|exact Hsock]|exact Hret]. }
  eapply ok_bind; [apply netget0_ok; eassumption|].
  intros t s1 c1 Hr1 (Hk1 & Hs1 & Hext).
  assert (Hk13 : kind (x_ph c1) = kind (x_ph c)) by apply Hk1.
  assert (Hrec : forall ret' err', (kind (x_ph c) = 3 -> subN ret' (x_acc c1)) ->
            ok_res k (fun r s' c' => loop_post c s' c' /\
               match r with inl t => (t <? 0)%Z = true | inr (ret'', _) => kind (x_ph c) = 3 -> subN ret'' (x_acc c') end)
              (ehlo_loop fuel sc ret' err' s1)).
  { intros ret' err' Hret'. eapply ok_weaken; [apply (IH sc ret' err' s1 c1 Hr1 Hs1)|].
    - intros H3. apply Hret'. congruence.
    - intros r s' c' _ ((Hk' & Hs') & Hm). split; [split; [eapply keeps_trans; eassumption|exact Hs']|].
      destruct r as [|[ret'' ?]]; [exact Hm|]. intros H3. apply Hm. congruence. }
  assert (Hold : kind (x_ph c) = 3 -> subN ret (x_acc c1)).
  { intros H3. eapply subN_trans; [apply Hret; exact H3|apply Hk1]. }
  destruct (negb (Z.eqb sc t)) eqn:Ene.
  - destruct (t <? 0)%Z eqn:Et.
    + exists c1. split; [exact Hr1|]. split; [split; assumption|exact Et].
    + apply Hrec. exact Hold.
  - apply negb_false_iff, Z.eqb_eq in Ene. subst t.
    destruct (Z.eqb sc ST_EHLO_OK && negb err) eqn:E2; [|apply Hrec; exact Hold].
    apply andb_true_iff in E2 as [Esc _]. apply Z.eqb_eq in Esc.
    destruct (check_ext (ext_arg (s_linein s1)) <? 0)%Z eqn:Eneg; [apply Hrec; exact Hold|].
    apply Hrec. intros H3. apply subN_lor; [apply Hold; exact H3|].
    assert (Hpos : (0 <? sc)%Z = true) by (rewrite Esc; reflexivity).
    specialize (Hext Hpos H3). unfold line_ext in Hext. rewrite Eneg in Hext. exact Hext.
Qed.

Lemma helo_loop_ok k fuel : forall sc err s c,
  Rel k s c -> s_sock s = true ->
  ok_res k (fun r s' c' => loop_post c s' c' /\ match r with inl t => (t <? 0)%Z = true | inr _ => True end)
         (helo_loop fuel sc err s).
Proof.
  induction fuel as [|fuel IH]; intros sc err s c Hr Hsock; cbn [helo_loop].
  { destruct (dash3 s); [exact (Rel_Tr _ _ _ Hr)|].
    exists c. split; [exact Hr|]. split; [split; [apply keeps_refl|exact Hsock]|exact I]. }
  destruct (dash3 s).
  2:{ exists c. split; [exact Hr|]. split; [split; [apply keeps_refl|exact Hsock]|exact I]. }
  eapply ok_bind; [apply netget0_ok; eassumption|].
  intros t s1 c1 Hr1 (Hk1 & Hs1 & _).
  destruct (t <? 0)%Z eqn:Et.
  - exists c1. split; [exact Hr1|]. split; [split; assumption|exact Et].
  - eapply ok_weaken; [apply (IH sc _ s1 c1 Hr1 Hs1)|].
    intros r s' c' _ ((Hk' & Hs') & Hm). split; [split; [eapply keeps_trans; eassumption|exact Hs']|exact Hm].
Qed.

Definition can_write (c : cst) : Prop := kind (x_ph c) = 1 \/ kind (x_ph c) = 3.

Lemma can_write_not_failed c b : can_write c -> x_ph c = PFailed -> b = ST_CMD_QUIT.
Proof. intros [H|H] E; rewrite E in H; discriminate. Qed.

Lemma keeps_can_write c c' : keeps c c' -> can_write c -> can_write c'.
Proof. intros (_ & _ & Hk & _) [H|H]; [left|right]; congruence. Qed.

Definition greet_post (c : cst) (g : Z) (s' : st) (c' : cst) : Prop :=
  loop_post c s' c' /\ ((0 <=? g)%Z = true -> kind (x_ph c) = 3 -> subN (Z.to_N g) (x_acc c')).

Lemma greeting_ok k s c :
  Rel k s c -> s_sock s = true -> can_write c -> ok_res k (greet_post c) (greeting s).
Proof.
  intros Hr Hsock Hw. unfold greeting.
  assert (Hr0 : Rel k (nwrite (helo_cmd ST_CMD_EHLO) s) c).
  { apply nwrite_ok; [exact Hr|exact Hsock|now apply can_write_not_failed]. }
  assert (Hneg : forall e s' c', Rel k s' c' -> loop_post c s' c' -> ok_res k (greet_post c) (Ret (neg e) s')).
  { intros e s' c' Hr' Hp. exists c'. split; [exact Hr'|]. split; [exact Hp|].
    intros _ _. unfold neg. destruct e; simpl; apply subN_0. }
  assert (Hnegv : forall v s' c', (v <? 0)%Z = true -> Rel k s' c' -> loop_post c s' c' -> ok_res k (greet_post c) (Ret v s')).
  { intros v s' c' Hv Hr' Hp. exists c'. split; [exact Hr'|]. split; [exact Hp|].
    intros H. apply Z.leb_le in H. apply Z.ltb_lt in Hv. lia. }
  eapply ok_bind; [apply netget0_ok; [exact Hr0|exact Hsock]|].
  intros sc s1 c1 Hr1 (Hk1 & Hs1 & _).
  destruct (sc <? 0)%Z eqn:Esc; [apply (Hnegv _ _ c1); [exact Esc|exact Hr1|split; assumption]|].
  eapply ok_bind; [apply (ehlo_loop_ok k _ sc 0%N false s1 c1 Hr1 Hs1); intros _; apply subN_0|].
  intros r s2 c2 Hr2 ((Hk2 & Hs2) & Hm).
  assert (Hk02 : keeps c c2) by (eapply keeps_trans; eassumption).
  destruct r as [t|[ret err]].
  { apply (Hnegv _ _ c2); [exact Hm|exact Hr2|split; assumption]. }
  destruct err; [apply (Hneg _ _ c2 Hr2); split; assumption|].
  destruct (Z.eqb sc ST_EHLO_OK).
  { exists c2. split; [exact Hr2|]. split; [split; assumption|].
    intros _ H3. rewrite N2Z.id. apply Hm. destruct Hk1 as (_ & _ & Hkk & _). congruence. }
  assert (Hr3 : Rel k (nwrite (helo_cmd ST_CMD_HELO) s2) c2).
  { apply nwrite_ok; [exact Hr2|exact Hs2|]. apply can_write_not_failed. eapply keeps_can_write; eassumption. }
  eapply ok_bind; [apply netget0_ok; [exact Hr3|exact Hs2]|].
  intros sh s4 c4 Hr4 (Hk4 & Hs4 & _).
  assert (Hk04 : keeps c c4) by (eapply keeps_trans; eassumption).
  destruct (sh <? 0)%Z eqn:Esh; [apply (Hnegv _ _ c4); [exact Esh|exact Hr4|split; assumption]|].
  eapply ok_bind; [apply (helo_loop_ok k _ sh false s4 c4 Hr4 Hs4)|].
  intros r2 s5 c5 Hr5 ((Hk5 & Hs5) & Hm5).
  assert (Hk05 : keeps c c5) by (eapply keeps_trans; eassumption).
  destruct r2 as [t|err2].
  { apply (Hnegv _ _ c5); [exact Hm5|exact Hr5|split; assumption]. }
  destruct (negb err2 && Z.eqb sh ST_EHLO_OK).
  { exists c5. split; [exact Hr5|]. split; [split; assumption|]. intros _ _. apply subN_0. }
  destruct (negb err2 && (ST_HELO_FAIL_LO <=? sh)%Z && (sh <=? ST_HELO_FAIL_HI)%Z); apply (Hneg _ _ c5 Hr5); split; assumption.
Qed.

(** Proofs about Model/TlsSwitch.v (property C17).  For every oracle and every
    script of the client:
      - a round that switches to TLS ([TSwitch]) starts from a STARTTLS line
        behind which the clear-text reader holds nothing (lineinn empty, nothing
        unread in the current segment, no further clear-text segment) and ends
        in a reader whose only source is the TLS stream;
      - the whole trace passes the phase/transaction checker that is RESET at the
        switch ([ttrace_run]);
      - STARTTLS says "ready" only in ESMTP mode, outside TLS, with a usable
        certificate, in the EHLO state; it is announced only outside TLS with a
        certificate file;
      - a handshake that fails leaves ssl unset and the session state untouched.
    Method: case analysis of the STARTTLS round; everything else is one round of
    Session.step, for which Proofs/SessionProofs.v provides the simulation
    relation [R].  Facts about the C that the proofs rest on come from the
    regenerated Gen/GenSession.v (STARTTLS row) and Gen/GenTls.v (guards, order
    of calls) and are re-checked by computation here. *)
From Qv Require Import Common.Bytes Gen.GenNetio Gen.GenSession Gen.GenTls Model.NetRead Model.Session
  Spec.SessionSpec Proofs.SessionProofs Proofs.AuthSync Proofs.EsmtpSync Model.TlsSwitch Spec.TlsSpec.
From Coq Require Import Lia ZArith.

(** ---------- facts regenerated from the C ---------- *)
Lemma guards_ok :
  STARTTLS_REFUSES_IN_TLS = true /\ STARTTLS_REFUSES_NON_ESMTP = true /\ TLS_SYNC_BEFORE_READY = true
  /\ EHLO_OFFER_NEEDS_NO_TLS = true /\ EHLO_OFFER_NEEDS_CERT = true.
Proof. repeat split; reflexivity. Qed.

Lemma codes_ok : TLS_READY_CODE = 220%N /\ TLS_FAIL_CODE = 454%N.
Proof. split; reflexivity. Qed.

(** the STARTTLS row: only in the EHLO state (0x10), afterwards the initial state (0x1) *)
Definition tls_entry_ok (c : list N * N * nat * Z * N) : bool :=
  let '(_, mask, hid, st, _) := c in
  if Nat.eqb hid STARTTLS_HANDLER then N.eqb mask 16 && Z.eqb st 1 else true.

Lemma tls_table_ok : forallb tls_entry_ok commands = true /\ existsb (fun c => let '(_, _, hid, _, _) := c in Nat.eqb hid STARTTLS_HANDLER) commands = true.
Proof. split; vm_compute; reflexivity. Qed.

Lemma find_cmd_in' tbl : forall k l i c, find_cmd tbl k l = Some (i, c) -> In c tbl.
Proof.
  induction tbl as [|e t IH]; intros k l i c H; simpl in H; [discriminate|].
  destruct e as [[[[name mask] hid] st] flags].
  destruct (strncaseeq name l).
  - inversion H; subst. left. reflexivity.
  - right. apply (IH (S k) l i). exact H.
Qed.

Lemma starttls_row_spec l i name mask hid st flags :
  starttls_row l = Some (i, (name, mask, hid, st, flags)) ->
  mask = 16%N /\ st = 1%Z /\ line_valid l = true.
Proof.
  unfold starttls_row. destruct (line_valid l); [|discriminate].
  destruct (find_cmd commands 0 l) as [[i' [[[[n' m'] h'] s'] f']]|] eqn:Ef; [|discriminate].
  destruct (Nat.eqb h' STARTTLS_HANDLER) eqn:Eh; [|discriminate].
  intros H; inversion H; subst.
  apply find_cmd_in' in Ef. destruct tls_table_ok as [T _]. rewrite forallb_forall in T.
  specialize (T _ Ef). unfold tls_entry_ok in T. rewrite Eh in T.
  apply andb_true_iff in T as [Tm Ts]. apply N.eqb_eq in Tm. apply Z.eqb_eq in Ts. auto.
Qed.

(** ---------- small facts about event lists ---------- *)
Lemma not_switch_tag b evs : ~ In TSwitch (tag b evs).
Proof. unfold tag. intros H. apply in_map_iff in H as (x & Hx & _). discriminate. Qed.

Lemma in_tag b b' e evs : In (TE b' e) (tag b evs) -> b' = b /\ In e evs.
Proof. unfold tag. intros H. apply in_map_iff in H as (x & Hx & Hin). inversion Hx; subst. auto. Qed.

Lemma not_offer_tag b evs : ~ In TOffer (tag b evs).
Proof. unfold tag. intros H. apply in_map_iff in H as (x & Hx & _). discriminate. Qed.

Lemma tag_app b x y : tag b (x ++ y) = tag b x ++ tag b y.
Proof. unfold tag. apply map_app. Qed.

Lemma offer_cases o t evs so : offer o t evs so = [] \/ offer o t evs so = [TOffer].
Proof. unfold offer. destruct so; [|auto]. destruct (_ && _); auto. Qed.

(** ---------- sync_pipelining ---------- *)
Lemma data_pending_false s sd : data_pending s = (false, sd) -> sd = s /\ inn (rd s) = [] /\ cur (en (rd s)) = [].
Proof.
  unfold data_pending. destruct (inn (rd s)); [|discriminate].
  destruct (cur (en (rd s))); [|discriminate]. intros H; inversion H; auto.
Qed.

Lemma sync_none f s s1 : sync_pipelining f s = (None, s1) ->
  s1 = s /\ inn (rd s) = [] /\ cur (en (rd s)) = [].
Proof.
  unfold sync_pipelining. destruct (data_pending s) as [p sd] eqn:Ed.
  destruct p; cbn [negb].
  - destruct (esmtp sd); [discriminate|].
    destruct (net_read (rd sd)) as [it r']. destruct it; discriminate.
  - intros H; inversion H; subst. apply data_pending_false in Ed. exact Ed.
Qed.

Lemma sync_pending f s : (inn (rd s) <> [] \/ cur (en (rd s)) <> []) ->
  exists evs s1, sync_pipelining f s = (Some evs, s1).
Proof.
  intros Hp. destruct (sync_pipelining f s) as [[evs|] s1] eqn:E; [eauto|].
  apply sync_none in E as (_ & Hi & Hc). destruct Hp; congruence.
Qed.

(** replies of wait_for_quit *)
Lemma wait_for_quit_replies fuel : forall s c, In (Reply c) (wait_for_quit fuel s) -> c = 503%N \/ c = 221%N \/ c = 550%N.
Proof.
  induction fuel as [|f IH]; intros s c; cbn [wait_for_quit]; [intros [H|[]]; discriminate|].
  destruct (net_read (rd s)) as [it r'].
  destruct it; try (intros []; fail); try (intros [H|[]]; discriminate);
    repeat (match goal with |- In _ (if ?b then _ else _) -> _ => destruct b end);
    intros H;
    repeat (destruct H as [H|H]; [try discriminate; inversion H; auto|]);
    try (destruct H; fail); eapply IH; exact H.
Qed.

Lemma sync_replies f s evs s1 c : sync_pipelining f s = (Some evs, s1) -> In (Reply c) evs ->
  c = 503%N \/ c = 221%N \/ c = 550%N.
Proof.
  unfold sync_pipelining. destruct (data_pending s) as [p sd].
  destruct (negb p); [discriminate|].
  destruct (esmtp sd).
  - intros H; inversion H; subst. intros [Hc|Hc]; [inversion Hc; auto|]. eapply wait_for_quit_replies; exact Hc.
  - destruct (net_read (rd sd)) as [it r'].
    destruct it; intros H; inversion H; subst; try (intros []; fail);
      (intros [Hc|Hc]; [inversion Hc; auto|]); eapply wait_for_quit_replies; exact Hc.
Qed.

(** ---------- the STARTTLS handler, case by case ---------- *)
Definition hs_post (t : tstate) (s : sstate) (r : hs_result) (evs : list tevent) (h : hres) (t1 : tstate) : Prop :=
  match r with
  | HS_ok segs l' =>
      evs = [TE false (Reply TLS_READY_CODE); TSwitch] /\ h = H0
      /\ t1 = {| ss := set_rd s {| inn := []; en := {| cur := []; future := segs |} |}; tls := true; later := l' |}
  | HS_fail a e' l' =>
      evs = TE false (Reply TLS_READY_CODE) :: (if a then [TFail] else []) ++ [TE false (Reply TLS_FAIL_CODE)] /\ h = HEDONE
      /\ t1 = {| ss := set_rd s {| inn := []; en := e' |}; tls := false; later := l' |}
  | HS_eof =>
      evs = [TE false (Reply TLS_READY_CODE); TE false (Reply TLS_FAIL_CODE)] /\ h = HEDONE
      /\ t1 = {| ss := set_rd s {| inn := []; en := {| cur := []; future := [] |} |}; tls := false; later := [] |}
  | HS_wait => evs = [TE false (Reply TLS_READY_CODE)] /\ h = HEXIT /\ t1 = mk t s
  | HS_unmodelled => evs = [TE false (Reply TLS_READY_CODE); TUnmodelled] /\ h = HEXIT /\ t1 = mk t s
  end.

Lemma h_starttls_spec f o closes t s evs h t1 : h_starttls f o closes t s = (evs, h, t1) ->
  (evs = [] /\ h = HSEQ /\ t1 = mk t s /\ (tls t = true \/ esmtp s = false))
  \/ (evs = [TE false (Reply TLS_FAIL_CODE)] /\ (h = HUNKNOWN \/ h = HEDONE) /\ t1 = mk t s
      /\ tls t = false /\ esmtp s = true /\ o_tlsinit o = false)
  \/ (exists e s1, sync_pipelining f s = (Some e, s1) /\ evs = tag false e /\ h = HEXIT /\ t1 = mk t s1
      /\ tls t = false /\ esmtp s = true /\ o_tlsinit o = true)
  \/ (tls t = false /\ esmtp s = true /\ o_tlsinit o = true /\ inn (rd s) = [] /\ cur (en (rd s)) = []
      /\ hs_post t s (handshake (o_eat o) (en (rd s)) (later t) closes) evs h t1).
Proof.
  unfold h_starttls. destruct guards_ok as (G1 & G2 & G3 & _). rewrite G1, G2, G3. cbn [andb].
  destruct (tls t) eqn:Et; cbn [orb].
  { intros H; inversion H; subst. left. auto. }
  destruct (esmtp s) eqn:Ee; cbn [negb].
  2:{ intros H; inversion H; subst. left. auto. }
  destruct (o_tlsinit o) eqn:Ei; cbn [negb].
  2:{ intros H; inversion H; subst. right; left. destruct TLS_ERR_RETURNS_EDONE; auto 10. }
  destruct (sync_pipelining f s) as [[e|] s1] eqn:Es.
  { intros H; inversion H; subst. right; right; left. exists e, s1. auto 10. }
  apply sync_none in Es as (-> & Hi & Hc).
  intros H. right; right; right.
  rewrite Hi in H. replace (if NETIO_DROPS_STALE_INPUT then @nil N else []) with (@nil N) in H by (destruct NETIO_DROPS_STALE_INPUT; reflexivity).
  unfold hs_post.
  destruct (handshake (o_eat o) (en (rd s)) (later t) closes) as [segs l'|a e' l'| | |];
    inversion H; subst; cbn [tag map app]; repeat split; auto.
Qed.

(** smtploop around the handler *)
Lemma tdispatch_spec f o closes t s l i name mask hid st flags evs h t1 :
  starttls_row l = Some (i, (name, mask, hid, st, flags)) ->
  tdispatch f o closes t s l i (name, mask, hid, st, flags) = (evs, h, t1) ->
  (evs = [] /\ t1 = mk t s /\ (h = HSEQ \/ h = HE2BIG \/ h = HEINVAL))
  \/ (N.land (comstate s) 16 <> 0%N /\
      exists h' t1', h_starttls f o closes t s = (evs, h', t1')
        /\ ((h' = H0 /\ h = H0 /\ t1 = mk t1' (set_badcmds (set_comstate (ss t1') 1%N) 0))
            \/ (h' <> H0 /\ h = h' /\ t1 = t1'))).
Proof.
  intros Hrow. apply starttls_row_spec in Hrow as (-> & -> & _).
  unfold tdispatch.
  destruct (N.eqb (N.land (comstate s) 16) 0) eqn:Em.
  { intros H; inversion H; subst. left. auto. }
  apply N.eqb_neq in Em.
  destruct (N.eqb (N.land flags 2) 0 && Nat.ltb CMD_LINE_MAX (length l)).
  { intros H; inversion H; subst. left. auto. }
  destruct (N.eqb (N.land flags 1) 0 && negb (Nat.eqb (length (skipn (length name) l)) 0)).
  { intros H; inversion H; subst. left. auto. }
  destruct (negb (N.eqb (N.land flags 4) 0) && negb (N.eqb (nth 0 (skipn (length name) l) 0%N) SP)).
  { intros H; inversion H; subst. left. auto. }
  destruct (h_starttls f o closes t s) as [[e h'] t1'] eqn:Eh.
  intros H. right. split; [exact Em|]. exists h', t1'.
  destruct h'; inversion H; subst; (split; [reflexivity|]); try (right; split; [discriminate|auto]).
  left. auto.
Qed.

(** ---------- what a round leaves of the session ---------- *)
Definition same_session (s' s : sstate) : Prop :=
  comstate s' = comstate s /\ esmtp s' = esmtp s /\ helostr s' = helostr s /\ mailfrom s' = mailfrom s
  /\ rcpts s' = rcpts s /\ rcptcount s' = rcptcount s /\ goodrcpt s' = goodrcpt s /\ relkey s' = relkey s
  /\ authname s' = authname s.

Lemma same_refl s : same_session s s.
Proof. unfold same_session. auto 10. Qed.

Lemma same_set_rd s r : same_session (set_rd s r) s.
Proof. unfold same_session. cbn. auto 10. Qed.

Lemma same_trans a b c : same_session a b -> same_session b c -> same_session a c.
Proof. unfold same_session. intuition congruence. Qed.

Lemma same_tarpit s : same_session (tarpit s) s.
Proof.
  unfold tarpit, data_pending. destruct (inn (rd s)); [|apply same_refl].
  destruct (cur (en (rd s))); [apply same_refl|]. cbn [snd]. apply same_set_rd.
Qed.

Lemma same_set_badcmds s n : same_session (set_badcmds s n) s.
Proof. unfold same_session. cbn. auto 10. Qed.

Lemma on_error_same s h ev s' : on_error s h = (ev, Some s') -> same_session s' s.
Proof.
  unfold on_error. destruct (Nat.ltb MAXBADCMDS (badcmds s)); [discriminate|].
  destruct h; intros H; inversion H; subst;
    repeat (first [ apply same_set_badcmds | apply same_refl
                  | eapply same_trans; [apply same_tarpit|] | eapply same_trans; [apply same_set_badcmds|] ]).
Qed.

Lemma R_same o s' s a : same_session s' s -> R o s a -> R o s' a.
Proof.
  unfold same_session, R. intros (E1 & _ & _ & E4 & E5 & E6 & E7 & E8 & _). rewrite E1, E4, E5, E6, E7, E8. auto.
Qed.

Lemma authed_same s' s : same_session s' s -> authed s' = authed s.
Proof. unfold same_session, authed. intros (_ & _ & _ & _ & _ & _ & _ & _ & E). rewrite E. reflexivity. Qed.
Lemma K_same s' s b : same_session s' s -> K s b -> K s' b.
Proof. unfold same_session, K. intros (Ec & Ee & _). rewrite Ec, Ee. auto. Qed.

(** ---------- one round, in normal form ---------- *)
Lemma tstep_cases f o closes t evs so : tstep f o closes t = (evs, so) ->
  (exists e0 so0, step f (orc o (tls t)) (ss t) = (e0, so0)
     /\ evs = tag (tls t) e0 ++ offer o t e0 so0 /\ so = option_map (mk t) so0
     /\ (forall l r', net_read (rd (ss t)) = (Line l, r') -> starttls_row l = None))
  \/ (exists l r' i row ev1 h t1, net_read (rd (ss t)) = (Line l, r') /\ starttls_row l = Some (i, row)
        /\ tdispatch f o closes t (set_rd (ss t) r') l i row = (ev1, h, t1)
        /\ match h with
           | HEXIT => evs = ev1 /\ so = None
           | H0 => evs = ev1 ++ [TE (tls t1) (Note NBadReset)] /\ so = Some t1
           | _ => exists ev so', on_error (ss t1) h = (ev, so') /\ evs = ev1 ++ tag (tls t1) ev /\ so = option_map (mk t1) so'
           end).
Proof.
  unfold tstep.
  destruct (step f (orc o (tls t)) (ss t)) as [e0 so0] eqn:Es.
  destruct (net_read (rd (ss t))) as [it r'] eqn:En.
  assert (Plain : (tag (tls t) e0 ++ offer o t e0 so0, option_map (mk t) so0) = (evs, so) ->
          (forall l r'0, (it, r') = (Line l, r'0) -> starttls_row l = None) ->
          exists e1 so1, (e0, so0) = (e1, so1) /\ evs = tag (tls t) e1 ++ offer o t e1 so1 /\ so = option_map (mk t) so1
             /\ (forall l r'0, (it, r') = (Line l, r'0) -> starttls_row l = None)).
  { intros H Hn. inversion H; subst. exists e0, so0. auto. }
  destruct it as [l| | | |]; try (intros H; left; apply Plain; [exact H|intros l0 r0 E; discriminate]).
  destruct (starttls_row l) as [[i row]|] eqn:Er.
  2:{ intros H; left; apply Plain; [exact H|]. intros l0 r0 E; inversion E; subst. exact Er. }
  destruct (tdispatch f o closes t (set_rd (ss t) r') l i row) as [[ev1 h] t1] eqn:Ed.
  intros H. right. exists l, r', i, row, ev1, h, t1.
  split; [reflexivity|]. split; [exact Er|]. split; [exact Ed|].
  destruct h; try (destruct (on_error (ss t1) _) as [ev so'] eqn:Eo; inversion H; subst; exists ev, so'; auto; fail);
    inversion H; subst; auto.
Qed.

(** the three outcomes of a round that handles a STARTTLS line; [s] = the session once the line is taken from the reader *)
Definition round_switch (o : toracles) (closes : bool) (t : tstate) (s : sstate) (evs : list tevent) (so : option tstate) : Prop :=
  exists segs l',
    handshake (o_eat o) (en (rd s)) (later t) closes = HS_ok segs l'
    /\ evs = [TE false (Reply TLS_READY_CODE); TSwitch; TE true (Note NBadReset)]
    /\ so = Some {| ss := set_badcmds (set_comstate (set_rd s {| inn := []; en := {| cur := []; future := segs |} |}) 1%N) 0;
                    tls := true; later := l' |}.

Definition round_failed (o : toracles) (closes : bool) (t : tstate) (s : sstate) (evs : list tevent) (so : option tstate) : Prop :=
  match handshake (o_eat o) (en (rd s)) (later t) closes with
  | HS_ok _ _ => False
  | HS_fail a e' l' =>
      exists ev so', on_error (set_rd s {| inn := []; en := e' |}) HEDONE = (ev, so')
        /\ evs = (TE false (Reply TLS_READY_CODE) :: (if a then [TFail] else []) ++ [TE false (Reply TLS_FAIL_CODE)]) ++ tag false ev
        /\ so = option_map (fun s' => {| ss := s'; tls := false; later := l' |}) so'
  | HS_eof =>
      exists ev so', on_error (set_rd s {| inn := []; en := {| cur := []; future := [] |} |}) HEDONE = (ev, so')
        /\ evs = [TE false (Reply TLS_READY_CODE); TE false (Reply TLS_FAIL_CODE)] ++ tag false ev
        /\ so = option_map (fun s' => {| ss := s'; tls := false; later := [] |}) so'
  | HS_wait => evs = [TE false (Reply TLS_READY_CODE)] /\ so = None
  | HS_unmodelled => evs = [TE false (Reply TLS_READY_CODE); TUnmodelled] /\ so = None
  end.

Definition round_refused (t : tstate) (s : sstate) (evs : list tevent) (so : option tstate) : Prop :=
  (exists e, evs = tag (tls t) e /\ quiet e /\ forall c, In (Reply c) e -> c <> 220%N)
  /\ (forall t', so = Some t' -> tls t' = tls t /\ later t' = later t /\ same_session (ss t') s).

Lemma starttls_round f o closes t evs so l r' i row :
  tstep f o closes t = (evs, so) -> net_read (rd (ss t)) = (Line l, r') -> starttls_row l = Some (i, row) ->
  let s := set_rd (ss t) r' in
  (tls t = false /\ esmtp s = true /\ o_tlsinit o = true /\ N.land (comstate s) 16 <> 0%N
   /\ inn r' = [] /\ cur (en r') = []
   /\ (round_switch o closes t s evs so \/ round_failed o closes t s evs so))
  \/ round_refused t s evs so.
Proof.
  intros Hstep Hread Hrow s.
  apply tstep_cases in Hstep as [(e0 & so0 & _ & _ & _ & Hn)|(l0 & r0 & i0 & row0 & ev1 & h & t1 & Hr0 & Hrow0 & Hd & Hh)].
  { rewrite (Hn _ _ Hread) in Hrow. discriminate. }
  rewrite Hread in Hr0. inversion Hr0; subst l0 r0. rewrite Hrow in Hrow0. inversion Hrow0; subst i0 row0.
  destruct row as [[[[name mask] hid] st] flags].
  fold s in Hd.
  assert (Refused : forall hh pre, quiet pre -> (forall c, In (Reply c) pre -> c <> 220%N) ->
            (exists ev so', on_error s hh = (ev, so') /\ evs = tag (tls t) pre ++ tag (tls t) ev /\ so = option_map (mk (mk t s)) so') ->
            round_refused t s evs so).
  { intros hh pre Hq Hc (ev & so' & Ho & -> & ->).
    destruct (on_error_spec (o_clear o) _ _ _ _ Ho) as (Hq2 & Hc2 & _).
    split.
    - exists (pre ++ ev). rewrite tag_app. split; [reflexivity|]. split; [apply quiet_app; assumption|].
      intros c Hin. apply in_app_or in Hin as [Hin|Hin]; [auto|]. apply Hc2 in Hin. lia.
    - intros t' Ht. destruct so' as [s'|]; [|discriminate]. inversion Ht; subst. cbn.
      split; [reflexivity|]. split; [reflexivity|]. eapply on_error_same; exact Ho. }
  destruct (tdispatch_spec _ _ _ _ _ _ _ _ _ _ _ _ _ _ _ Hrow Hd) as [(-> & -> & Hh3)|(Hm & h' & t1' & Hhs & Hfin)].
  { (* refused before the handler *)
    right.
    apply (Refused h []); [reflexivity|intros c Hx; destruct Hx|].
    destruct Hh3 as [Hx | [Hx | Hx]]; subst h; exact Hh. }
  destruct (h_starttls_spec _ _ _ _ _ _ _ _ Hhs) as [(-> & -> & -> & Hg)|[(-> & Hh' & -> & Ht & He & Hi)|[(e & s1 & Hsy & -> & -> & -> & Ht & He & Hi)|(Ht & He & Hi & Hinn & Hcur & Hpost)]]].
  - (* return 1 *)
    right.
    destruct Hfin as [(Hx & _)|(_ & -> & ->)]; [discriminate|].
    apply (Refused HSEQ []); [reflexivity|intros c Hx; destruct Hx|exact Hh].
  - (* no usable certificate *)
    right.
    destruct Hfin as [(Hx & _)|(_ & -> & ->)]; [destruct Hh' as [Hy|Hy]; rewrite Hy in Hx; discriminate|].
    assert (Hev : exists ev so', on_error s h' = (ev, so') /\ evs = [TE false (Reply TLS_FAIL_CODE)] ++ tag false ev
                    /\ so = option_map (mk (mk t s)) so').
    { destruct Hh' as [Hy|Hy]; subst h'; destruct Hh as (ev & so' & Ho & -> & ->); exists ev, so'; cbn [mk tls ss] in *;
        rewrite Ht; auto. }
    destruct Hev as (ev & so' & Ho & -> & ->).
    apply (Refused h' [Reply TLS_FAIL_CODE]).
    + reflexivity.
    + intros c [Hc|[]]. inversion Hc. destruct codes_ok as [_ ->]. discriminate.
    + exists ev, so'. rewrite Ht. cbn [tag map]. auto.
  - (* clear text pending: wait_for_quit *)
    right.
    destruct Hfin as [(Hx & _)|(_ & -> & ->)]; [discriminate|].
    destruct Hh as (-> & ->). split.
    + exists e. rewrite Ht. split; [reflexivity|].
      destruct (sync_pipelining_spec _ _ _ _ Hsy) as (Hq & _). split; [apply Hq; reflexivity|].
      intros c Hc. destruct (sync_replies _ _ _ _ _ Hsy Hc) as [Hx|[Hx|Hx]]; rewrite Hx; discriminate.
    + intros t' Hx; discriminate.
  - (* the handshake *)
    left. unfold s in Hinn, Hcur. cbn [set_rd rd] in Hinn, Hcur.
    repeat (split; [assumption|]).
    unfold hs_post in Hpost. unfold round_switch, round_failed.
    destruct (handshake (o_eat o) (en (rd s)) (later t) closes) as [segs l'|a e' l'| | |] eqn:Ehs.
    + destruct Hpost as (-> & -> & ->).
      destruct Hfin as [(_ & -> & ->)|(Hx & _)]; [|congruence].
      destruct Hh as (-> & ->). left. exists segs, l'. auto.
    + destruct Hpost as (-> & -> & ->).
      destruct Hfin as [(Hx & _)|(_ & -> & ->)]; [discriminate|].
      destruct Hh as (ev & so' & Ho & -> & ->). right. exists ev, so'. cbn [ss tls] in *. repeat split; auto.
      all: try (destruct so'; reflexivity).
    + destruct Hpost as (-> & -> & ->).
      destruct Hfin as [(Hx & _)|(_ & -> & ->)]; [discriminate|].
      destruct Hh as (ev & so' & Ho & -> & ->). right. exists ev, so'. cbn [ss tls] in *. repeat split; auto.
      all: try (destruct so'; reflexivity).
    + destruct Hpost as (-> & -> & ->).
      destruct Hfin as [(Hx & _)|(_ & -> & ->)]; [discriminate|].
      destruct Hh as (-> & ->). right. auto.
    + destruct Hpost as (-> & -> & ->).
      destruct Hfin as [(Hx & _)|(_ & -> & ->)]; [discriminate|].
      destruct Hh as (-> & ->). right. auto.
Qed.

(** ---------- the handshake oracle ---------- *)
Lemma handshake_ok n e l closes segs l' : handshake n e l closes = HS_ok segs l' ->
  exhausted e = true /\ l = (HsOk, segs) :: l'.
Proof.
  unfold handshake. destruct (exhausted e).
  - destruct l as [|[[|] sg] lt]; [destruct closes; discriminate| |discriminate].
    intros H; inversion H; subst. auto.
  - destruct (eat n (cur e :: future e)) as [[|c f]|]; try discriminate.
    destruct l; [destruct closes|]; discriminate.
Qed.

Ltac in_list H :=
  repeat match type of H with
         | In _ (_ ++ _) => apply in_app_or in H as [H|H]
         | In _ (_ :: _) => destruct H as [H|H]; [try discriminate|]
         | In _ [] => destruct H
         | In _ (if ?a then _ else _) => destruct a
         | In TSwitch (tag _ _) => exfalso; exact (not_switch_tag _ _ H)
         | In TOffer (tag _ _) => exfalso; exact (not_offer_tag _ _ H)
         end.

Lemma failed_no_switch o closes t s evs so : round_failed o closes t s evs so -> ~ In TSwitch evs.
Proof.
  unfold round_failed. intros H Hin.
  destruct (handshake (o_eat o) (en (rd s)) (later t) closes) as [? ?|a e' l'| | |]; [exact H| | | |].
  - destruct H as (ev & so' & _ & -> & _). in_list Hin.
  - destruct H as (ev & so' & _ & -> & _). in_list Hin.
  - destruct H as (-> & _). in_list Hin.
  - destruct H as (-> & _). in_list Hin.
Qed.

Lemma refused_no_switch t s evs so : round_refused t s evs so -> ~ In TSwitch evs.
Proof. intros ((e & -> & _) & _). apply not_switch_tag. Qed.

Lemma plain_no_switch o t b e0 so0 : ~ In TSwitch (tag b e0 ++ offer o t e0 so0).
Proof.
  intros H. apply in_app_or in H as [H|H]; [exact (not_switch_tag _ _ H)|].
  destruct (offer_cases o t e0 so0) as [E|E]; rewrite E in H; in_list H.
Qed.

(** ---------- (1) the switch happens on an empty buffer ---------- *)
Theorem no_cleartext_at_switch f o closes t evs so :
  tstep f o closes t = (evs, so) -> In TSwitch evs ->
  exists l r' segs l',
    net_read (rd (ss t)) = (Line l, r') /\ starttls_row l <> None
    /\ inn r' = [] /\ exhausted (en r') = true
    /\ later t = (HsOk, segs) :: l'
    /\ tls t = false /\ esmtp (ss t) = true /\ o_tlsinit o = true /\ N.land (comstate (ss t)) 16 <> 0%N
    /\ evs = [TE false (Reply TLS_READY_CODE); TSwitch; TE true (Note NBadReset)]
    /\ so = Some {| ss := set_badcmds (set_comstate (set_rd (ss t) {| inn := []; en := {| cur := []; future := segs |} |}) 1%N) 0;
                    tls := true; later := l' |}.
Proof.
  intros Hstep Hin.
  destruct (tstep_cases _ _ _ _ _ _ Hstep) as [(e0 & so0 & _ & -> & _ & _)|(l & r' & i & row & ev1 & h & t1 & Hread & Hrow & _)].
  { exfalso. exact (plain_no_switch _ _ _ _ _ Hin). }
  destruct (starttls_round _ _ _ _ _ _ _ _ _ _ Hstep Hread Hrow) as [(Ht & He & Hi & Hm & Hinn & Hcur & [Hsw|Hf])|Hr].
  - destruct Hsw as (segs & l' & Hhs & -> & ->).
    apply handshake_ok in Hhs as (Hex & Hl). cbn [set_rd rd] in Hex.
    exists l, r', segs, l'. rewrite Hrow. repeat split; auto; discriminate.
  - exfalso. exact (failed_no_switch _ _ _ _ _ _ Hf Hin).
  - exfalso. exact (refused_no_switch _ _ _ _ Hr Hin).
Qed.

(** with clear text behind the STARTTLS line (in lineinn or unread in the socket) the server does not even say "ready":
    the session ends in wait_for_quit, or the command is refused for another reason *)
Theorem pending_cleartext_never_switches f o closes t evs so l r' :
  tstep f o closes t = (evs, so) -> net_read (rd (ss t)) = (Line l, r') -> starttls_row l <> None ->
  inn r' <> [] \/ cur (en r') <> [] ->
  ~ In TSwitch evs /\ (forall b, ~ In (TE b (Reply TLS_READY_CODE)) evs)
  /\ (forall x, In x evs -> exists e, x = TE (tls t) e /\ quiet_ev e = true)
  /\ (forall t', so = Some t' -> tls t' = tls t /\ later t' = later t /\ same_session (ss t') (ss t)).
Proof.
  intros Hstep Hread Hrow Hp.
  destruct (starttls_row l) as [[i row]|] eqn:Er; [|congruence].
  destruct (starttls_round _ _ _ _ _ _ _ _ _ _ Hstep Hread Er) as [(_ & _ & _ & _ & Hinn & Hcur & _)|Hr].
  { destruct Hp; congruence. }
  split; [exact (refused_no_switch _ _ _ _ Hr)|].
  destruct Hr as ((e & -> & Hq & Hc) & Hs).
  split; [|split].
  - intros b Hin. apply in_tag in Hin as (_ & Hin). destruct codes_ok as [E _]. rewrite E in Hin. exact (Hc _ Hin eq_refl).
  - intros x Hin. unfold tag in Hin. apply in_map_iff in Hin as (e1 & <- & Hin). exists e1. split; [reflexivity|].
    unfold quiet in Hq. rewrite forallb_forall in Hq. exact (Hq _ Hin).
  - intros t' Ht. destruct (Hs t' Ht) as (H1 & H2 & Hsame).
    split; [exact H1|]. split; [exact H2|]. eapply same_trans; [exact Hsame|apply same_set_rd].
Qed.

(** ---------- (3) when STARTTLS is accepted, when it is announced ---------- *)
(** "220 ready for tls" is said only outside TLS, in ESMTP mode, in the EHLO state, with a usable certificate,
    and with nothing pending in the clear-text reader *)
Theorem ready_only_if f o closes t evs so l r' b :
  tstep f o closes t = (evs, so) -> net_read (rd (ss t)) = (Line l, r') -> starttls_row l <> None ->
  In (TE b (Reply TLS_READY_CODE)) evs ->
  b = false /\ tls t = false /\ esmtp (ss t) = true /\ o_tlsinit o = true /\ N.land (comstate (ss t)) 16 <> 0%N
  /\ inn r' = [] /\ cur (en r') = [].
Proof.
  intros Hstep Hread Hrow Hin.
  destruct (starttls_row l) as [[i row]|] eqn:Er; [|congruence].
  destruct (starttls_round _ _ _ _ _ _ _ _ _ _ Hstep Hread Er) as [(Ht & He & Hi & Hm & Hinn & Hcur & Hx)|Hr].
  - assert (b = false); [|auto 10].
    destruct Hx as [(segs & l' & _ & -> & _)|Hf].
    + in_list Hin. inversion Hin; reflexivity.
    + unfold round_failed in Hf.
      destruct (handshake _ _ _ _) as [? ?|a e' l'| | |]; [contradiction| | | |].
      * destruct Hf as (ev & so' & _ & -> & _). in_list Hin; try (inversion Hin; reflexivity).
        apply in_tag in Hin as (-> & _). reflexivity.
      * destruct Hf as (ev & so' & _ & -> & _). in_list Hin; try (inversion Hin; reflexivity).
        apply in_tag in Hin as (-> & _). reflexivity.
      * destruct Hf as (-> & _). in_list Hin; inversion Hin; reflexivity.
      * destruct Hf as (-> & _). in_list Hin; inversion Hin; reflexivity.
  - exfalso. destruct Hr as ((e & -> & _ & Hc) & _).
    apply in_tag in Hin as (_ & Hin). destruct codes_ok as [E _]. rewrite E in Hin. exact (Hc _ Hin eq_refl).
Qed.

(** refusal: without ESMTP, inside TLS, or without a usable certificate a STARTTLS line changes nothing *)
Theorem refused f o closes t evs so l r' :
  tstep f o closes t = (evs, so) -> net_read (rd (ss t)) = (Line l, r') -> starttls_row l <> None ->
  tls t = true \/ esmtp (ss t) = false \/ o_tlsinit o = false \/ N.land (comstate (ss t)) 16 = 0%N ->
  ~ In TSwitch evs /\ (forall b, ~ In (TE b (Reply TLS_READY_CODE)) evs)
  /\ (forall t', so = Some t' -> tls t' = tls t /\ later t' = later t /\ same_session (ss t') (ss t)).
Proof.
  intros Hstep Hread Hrow Hg.
  destruct (starttls_row l) as [[i row]|] eqn:Er; [|congruence].
  destruct (starttls_round _ _ _ _ _ _ _ _ _ _ Hstep Hread Er) as [(Ht & He & Hi & Hm & _)|Hr].
  { cbn [set_rd esmtp comstate] in He, Hm. destruct Hg as [Hg|[Hg|[Hg|Hg]]]; congruence. }
  split; [exact (refused_no_switch _ _ _ _ Hr)|].
  destruct Hr as ((e & -> & _ & Hc) & Hs). split.
  - intros b Hin. apply in_tag in Hin as (_ & Hin). destruct codes_ok as [E _]. rewrite E in Hin. exact (Hc _ Hin eq_refl).
  - intros t' Ht. destruct (Hs t' Ht) as (H1 & H2 & Hsame).
    split; [exact H1|]. split; [exact H2|]. eapply same_trans; [exact Hsame|apply same_set_rd].
Qed.

(** the announcement *)
Theorem not_offered f o closes t evs so : tstep f o closes t = (evs, so) -> In TOffer evs ->
  tls t = false /\ o_certfile o = true /\ exists s', so = Some (mk t s') /\ esmtp s' = true.
Proof.
  intros Hstep Hin.
  destruct (tstep_cases _ _ _ _ _ _ Hstep) as [(e0 & so0 & _ & -> & -> & _)|(l & r' & i & row & ev1 & h & t1 & Hread & Hrow & _)].
  - apply in_app_or in Hin as [Hin|Hin]; [exfalso; exact (not_offer_tag _ _ Hin)|].
    unfold offer in Hin. destruct so0 as [s'|]; [|destruct Hin].
    destruct guards_ok as (_ & _ & _ & G4 & G5). rewrite G4, G5 in Hin. cbn [negb orb] in Hin.
    destruct (existsb is_helo_note e0 && esmtp s' && negb (tls t) && o_certfile o) eqn:E; [|destruct Hin].
    apply andb_true_iff in E as [E Ec]. apply andb_true_iff in E as [E Et]. apply andb_true_iff in E as [_ Ee].
    apply negb_true_iff in Et. split; [exact Et|]. split; [exact Ec|]. exists s'. auto.
  - exfalso.
    destruct (starttls_round _ _ _ _ _ _ _ _ _ _ Hstep Hread Hrow) as [(_ & _ & _ & _ & _ & _ & [Hsw|Hf])|Hr].
    + destruct Hsw as (segs & l' & _ & -> & _). in_list Hin.
    + unfold round_failed in Hf.
      destruct (handshake _ _ _ _) as [? ?|a e' l'| | |]; [contradiction| | | |].
      * destruct Hf as (ev & so' & _ & -> & _). in_list Hin.
      * destruct Hf as (ev & so' & _ & -> & _). in_list Hin.
      * destruct Hf as (-> & _). in_list Hin.
      * destruct Hf as (-> & _). in_list Hin.
    + destruct Hr as ((e & -> & _) & _). exact (not_offer_tag _ _ Hin).
Qed.

(** ---------- (4) a failed handshake ---------- *)
(** the server said "ready" but the round did not switch: the handshake failed (or nothing came).  If the session goes on,
    it does so in clear text, in the state it had before the STARTTLS command, and the client was told (454). *)
Theorem failed_handshake f o closes t evs so l r' :
  tstep f o closes t = (evs, so) -> net_read (rd (ss t)) = (Line l, r') -> starttls_row l <> None ->
  In (TE false (Reply TLS_READY_CODE)) evs -> ~ In TSwitch evs ->
  forall t', so = Some t' ->
    tls t' = false /\ same_session (ss t') (ss t) /\ In (TE false (Reply TLS_FAIL_CODE)) evs.
Proof.
  intros Hstep Hread Hrow Hin Hns t' Hso.
  destruct (starttls_row l) as [[i row]|] eqn:Er; [|congruence].
  destruct (starttls_round _ _ _ _ _ _ _ _ _ _ Hstep Hread Er) as [(Ht & He & Hi & Hm & _ & _ & [Hsw|Hf])|Hr].
  - exfalso. destruct Hsw as (segs & l' & _ & -> & _). apply Hns. right; left; reflexivity.
  - unfold round_failed in Hf.
    destruct (handshake _ _ _ _) as [? ?|a e' l'| | |]; [contradiction| | | |].
    + destruct Hf as (ev & so' & Ho & -> & ->). destruct so' as [s'|]; [|discriminate]. inversion Hso; subst. cbn [tls ss].
      split; [reflexivity|]. split.
      * eapply same_trans; [eapply on_error_same; exact Ho|]. eapply same_trans; apply same_set_rd.
      * apply in_or_app. left. right. apply in_or_app. right. left. reflexivity.
    + destruct Hf as (ev & so' & Ho & -> & ->). destruct so' as [s'|]; [|discriminate]. inversion Hso; subst. cbn [tls ss].
      split; [reflexivity|]. split.
      * eapply same_trans; [eapply on_error_same; exact Ho|]. eapply same_trans; apply same_set_rd.
      * right; left; reflexivity.
    + destruct Hf as (_ & ->). discriminate.
    + destruct Hf as (_ & ->). discriminate.
  - exfalso. destruct Hr as ((e & -> & _ & Hc) & _).
    apply in_tag in Hin as (_ & Hin). destruct codes_ok as [E _]. rewrite E in Hin. exact (Hc _ Hin eq_refl).
Qed.

(** ssl is set by a completed handshake and by nothing else; it is never unset *)
Theorem tls_only_by_switch f o closes t evs so t' : tstep f o closes t = (evs, so) -> so = Some t' ->
  (tls t' = true <-> tls t = true \/ In TSwitch evs).
Proof.
  intros Hstep Hso.
  destruct (tstep_cases _ _ _ _ _ _ Hstep) as [(e0 & so0 & _ & -> & -> & _)|(l & r' & i & row & ev1 & h & t1 & Hread & Hrow & _)].
  - destruct so0 as [s'|]; [|discriminate]. inversion Hso; subst. cbn [mk tls]. split; [auto|].
    intros [H|H]; [exact H|]. exfalso. exact (plain_no_switch _ _ _ _ _ H).
  - destruct (starttls_round _ _ _ _ _ _ _ _ _ _ Hstep Hread Hrow) as [(Ht & _ & _ & _ & _ & _ & [Hsw|Hf])|Hr].
    + destruct Hsw as (segs & l' & _ & -> & ->). inversion Hso; subst. cbn [tls]. split; [|reflexivity].
      intros _. right. right; left; reflexivity.
    + pose proof (failed_no_switch _ _ _ _ _ _ Hf) as Hns.
      assert (tls t' = false).
      { unfold round_failed in Hf.
        destruct (handshake _ _ _ _) as [? ?|a e' l'| | |]; [contradiction| | | |].
        - destruct Hf as (ev & so' & _ & _ & ->). destruct so'; [|discriminate]. inversion Hso; reflexivity.
        - destruct Hf as (ev & so' & _ & _ & ->). destruct so'; [|discriminate]. inversion Hso; reflexivity.
        - destruct Hf as (_ & ->). discriminate.
        - destruct Hf as (_ & ->). discriminate. }
      rewrite H, Ht. split; [discriminate|]. intros [Hx|Hx]; [discriminate|contradiction].
    + pose proof (refused_no_switch _ _ _ _ Hr) as Hns.
      destruct Hr as (_ & Hs). destruct (Hs t' Hso) as (E & _). rewrite E. split; [auto|].
      intros [Hx|Hx]; [exact Hx|contradiction].
Qed.

(** ---------- (2) the trace checker with reset at the switch ---------- *)
Lemma trace_step_orc o b e a : trace_step (orc o b) e a = trace_step (o_clear o) e a.
Proof. destruct e as [c|env msg| | |n]; try reflexivity; destruct n; reflexivity. Qed.

Lemma trace_run_orc o b evs : forall a, trace_run (orc o b) evs a = trace_run (o_clear o) evs a.
Proof.
  induction evs as [|e r IH]; intros a; cbn [trace_run]; [reflexivity|].
  rewrite trace_step_orc. destruct (trace_step (o_clear o) e a); [apply IH|reflexivity].
Qed.

Lemma ttrace_run_tag oc b evs : forall a, ttrace_run oc (tag b evs) a = trace_run oc evs a.
Proof.
  induction evs as [|e r IH]; intros a; cbn [tag map ttrace_run trace_run]; [reflexivity|].
  destruct (trace_step oc e a); [apply IH|reflexivity].
Qed.

Lemma ttrace_run_app oc e1 e2 : forall a,
  ttrace_run oc (e1 ++ e2) a = match ttrace_run oc e1 a with Some a' => ttrace_run oc e2 a' | None => None end.
Proof.
  induction e1 as [|e r IH]; intros a; cbn [app ttrace_run]; [reflexivity|].
  destruct e as [b e| | | |]; try apply IH.
  destruct (trace_step oc e a); [apply IH|reflexivity].
Qed.

Definition tquiet_ev (x : tevent) : bool :=
  match x with TE _ e => quiet_ev e | TSwitch => false | _ => true end.

Lemma tquiet_trace oc evs : forall a, forallb tquiet_ev evs = true -> ttrace_run oc evs a = Some a.
Proof.
  induction evs as [|e r IH]; intros a; cbn [forallb ttrace_run]; [reflexivity|].
  intros H. apply andb_true_iff in H as [He Hr].
  destruct e as [b e| | | |]; try (apply IH; exact Hr); [|discriminate].
  destruct e as [c|env msg| | |n]; try discriminate; try (cbn [trace_step]; apply IH; exact Hr).
  destruct n; try discriminate; cbn [trace_step]; apply IH; exact Hr.
Qed.

Lemma tquiet_tag b e : quiet e -> forallb tquiet_ev (tag b e) = true.
Proof.
  unfold quiet, tag. induction e as [|x r IH]; cbn [map forallb]; [reflexivity|].
  intros H. apply andb_true_iff in H as [Hx Hr]. cbn [tquiet_ev]. rewrite Hx. apply IH. exact Hr.
Qed.

Lemma tquiet_app x y : forallb tquiet_ev x = true -> forallb tquiet_ev y = true -> forallb tquiet_ev (x ++ y) = true.
Proof. intros Hx Hy. rewrite forallb_app, Hx, Hy. reflexivity. Qed.

Lemma failed_tquiet o closes t s evs so : round_failed o closes t s evs so -> forallb tquiet_ev evs = true.
Proof.
  unfold round_failed. intros H.
  destruct (handshake (o_eat o) (en (rd s)) (later t) closes) as [? ?|a e' l'| | |]; [contradiction| | | |].
  - destruct H as (ev & so' & Ho & -> & _).
    destruct (on_error_spec (o_clear o) _ _ _ _ Ho) as (Hq & _).
    apply tquiet_app; [destruct a; reflexivity|apply tquiet_tag; exact Hq].
  - destruct H as (ev & so' & Ho & -> & _).
    destruct (on_error_spec (o_clear o) _ _ _ _ Ho) as (Hq & _).
    apply tquiet_app; [reflexivity|apply tquiet_tag; exact Hq].
  - destruct H as (-> & _). reflexivity.
  - destruct H as (-> & _). reflexivity.
Qed.

(** in the EHLO state nothing of a transaction exists *)
Lemma R_ehlo_state oc s a : R oc s a -> N.land (comstate s) 16 <> 0%N ->
  comstate s = 16%N /\ mailfrom s = [] /\ rcpts s = [] /\ rcptcount s = 0 /\ goodrcpt s = 0.
Proof.
  intros HR Hm. pose proof (R_comstate oc s a HR) as Hc.
  destruct HR as [(Hn & Hl & Hg & Hph & Htx) _].
  assert (Ec : comstate s = 16%N).
  { destruct Hc as [E|[E|[E|[E|E]]]]; try exact E; rewrite E in Hm; exfalso; apply Hm; reflexivity. }
  split; [exact Ec|].
  destruct (a_phase a) eqn:Ep.
  - rewrite Ec in Hph. discriminate.
  - destruct (a_txn a) as [[f rs]|].
    + destruct Htx as ([E|E] & _); discriminate.
    + destruct Htx as (_ & Hmf & Hrc). rewrite Hrc in Hl, Hg. cbn in Hl, Hg. rewrite <- Hl in Hn. auto.
  - destruct Hph as [E _]. rewrite Ec in E. discriminate.
  - destruct Hph as [E _]. rewrite Ec in E. discriminate.
Qed.

Lemma R_after_switch oc s r a :
  mailfrom s = [] -> rcpts s = [] -> rcptcount s = 0 -> goodrcpt s = 0 -> Irel oc (a_cert a) (relkey s) ->
  R oc (set_badcmds (set_comstate (set_rd s r) 1%N) 0) (a_reset a).
Proof.
  intros Hmf Hrc Hn Hg Hi. split; [|exact Hi].
  cbn [set_badcmds set_comstate set_rd comstate mailfrom rcpts rcptcount goodrcpt].
  rewrite Hmf, Hrc, Hn, Hg. unfold Rc, a_reset. cbn. repeat split; auto.
Qed.

Theorem tstep_inv f o closes t a evs so : R (o_clear o) (ss t) a -> a_auth a = authed (ss t) -> K (ss t) (a_esmtp a) ->
  tstep f o closes t = (evs, so) ->
  exists a', ttrace_run (o_clear o) evs a = Some a'
    /\ (forall t', so = Some t' -> R (o_clear o) (ss t') a' /\ a_auth a' = authed (ss t') /\ K (ss t') (a_esmtp a')).
Proof.
  intros HR HA HK Hstep.
  destruct (tstep_cases _ _ _ _ _ _ Hstep) as [(e0 & so0 & Hs & -> & -> & _)|(l & r' & i & row & ev1 & h & t1 & Hread & Hrow & _)].
  - assert (HR' : R (orc o (tls t)) (ss t) a) by exact HR.
    destruct (step_spec _ _ _ _ _ _ HR' HA HK Hs) as (a' & Htr & _ & Hnext).
    exists a'. split.
    + rewrite ttrace_run_app, ttrace_run_tag, <- (trace_run_orc o (tls t)), Htr.
      apply tquiet_trace. destruct (offer_cases o t e0 so0) as [E|E]; rewrite E; reflexivity.
    + intros t' Ht. destruct so0 as [s'|]; [|discriminate]. inversion Ht; subst. cbn [mk ss].
      destruct (Hnext s' eq_refl) as (HRs & _). split; [exact HRs|]. split.
      * rewrite (trace_run_auth _ _ _ _ Htr), (step_auth _ _ _ _ _ Hs), HA. reflexivity.
      * rewrite (trace_run_esm _ _ _ _ Htr). exact (step_esm _ _ _ _ _ _ Hs HK).
  - destruct (starttls_round _ _ _ _ _ _ _ _ _ _ Hstep Hread Hrow) as [(Ht & He & Hi & Hm & Hinn & Hcur & [Hsw|Hf])|Hr].
    + destruct Hsw as (segs & l' & _ & -> & ->). exists (a_reset a). split; [reflexivity|].
      intros t' Hx. inversion Hx; subst. cbn [ss].
      assert (HRs : R (o_clear o) (set_rd (ss t) r') a) by exact HR.
      destruct (R_ehlo_state _ _ _ HRs Hm) as (_ & Hmf & Hrc & Hn & Hg).
      split; [apply (R_after_switch (o_clear o) (set_rd (ss t) r')); auto; exact (proj2 HRs)|]. split.
      * cbn [a_reset a_auth]. exact HA.
      * cbn [a_reset a_esmtp]. split; cbn [set_badcmds set_comstate set_rd esmtp comstate]; [exact (proj1 HK)|discriminate].
    + exists a. split; [apply tquiet_trace; exact (failed_tquiet _ _ _ _ _ _ Hf)|].
      intros t' Hx. unfold round_failed in Hf.
      destruct (handshake _ _ _ _) as [? ?|a0 e' l'| | |]; [contradiction| | | |].
      * destruct Hf as (ev & so' & Ho & _ & ->). destruct so' as [s'|]; [|discriminate]. inversion Hx; subst. cbn [ss].
        pose proof (on_error_same _ _ _ _ Ho) as Hsame.
        split; [eapply R_same; [exact Hsame|]; exact HR|]. split; [rewrite (authed_same _ _ Hsame); exact HA|exact (K_same _ _ _ Hsame HK)].
      * destruct Hf as (ev & so' & Ho & _ & ->). destruct so' as [s'|]; [|discriminate]. inversion Hx; subst. cbn [ss].
        pose proof (on_error_same _ _ _ _ Ho) as Hsame.
        split; [eapply R_same; [exact Hsame|]; exact HR|]. split; [rewrite (authed_same _ _ Hsame); exact HA|exact (K_same _ _ _ Hsame HK)].
      * destruct Hf as (_ & ->). discriminate.
      * destruct Hf as (_ & ->). discriminate.
    + destruct Hr as ((e & -> & Hq & _) & Hs). exists a. split; [apply tquiet_trace, tquiet_tag; exact Hq|].
      intros t' Hx. destruct (Hs t' Hx) as (_ & _ & Hsame).
      split; [eapply R_same; [exact Hsame|]; exact HR|]. split; [rewrite (authed_same _ _ Hsame); exact HA|exact (K_same _ _ _ Hsame HK)].
Qed.

Theorem tserve_inv fuel o closes : forall t a, R (o_clear o) (ss t) a -> a_auth a = authed (ss t) -> K (ss t) (a_esmtp a) ->
  ttrace_run (o_clear o) (tserve fuel o closes t) a <> None.
Proof.
  induction fuel as [|f IH]; intros t a HR HA HK; cbn [tserve]; [cbn; discriminate|].
  destruct (tstep f o closes t) as [ev so] eqn:Es.
  destruct (tstep_inv _ _ _ _ _ _ _ HR HA HK Es) as (a' & Htr & Hnext).
  rewrite ttrace_run_app, Htr.
  destruct so as [t'|].
  - destruct (Hnext t' eq_refl) as (HR' & HA' & HK'). apply IH; assumption.
  - destruct (closes && no_later t); cbn; discriminate.
Qed.

Theorem reset_after_switch o sc : ttrace_ok (o_clear o) (trun o sc).
Proof.
  unfold ttrace_ok, trun. cbn [ttrace_run trace_step].
  apply tserve_inv; [|reflexivity|split; discriminate]. unfold tinit. cbn [ss]. split.
  - unfold init_state, Rc, a_init. cbn. repeat split; auto.
  - unfold Irel, relkey, init_state. cbn. split; [discriminate|congruence].
Qed.

(** ---------- readable corollaries of the reset ---------- *)
Definition nothing_yet (a : astate) : Prop := a_phase a = PInit /\ a_txn a = None.

Lemma nothing_yet_step oc e a a' : nothing_yet a -> trace_step oc e a = Some a' -> nothing_yet a' \/ e = Note NHelo.
Proof.
  intros [Hp Ht] H. destruct e as [c|env msg| | |n]; cbn [trace_step] in H.
  - inversion H; subst. left. split; assumption.
  - rewrite Ht in H. discriminate.
  - inversion H; subst. left. split; assumption.
  - inversion H; subst. left. split; assumption.
  - destruct n; try (rewrite ?Hp, ?Ht in H; discriminate);
      try (inversion H; subst; left; split; assumption);
      try (destruct (negb (a_esmtp a)); [discriminate|]; inversion H; subst; left; split; assumption).
    + inversion H; subst. rewrite Hp. left. split; reflexivity.
    + right. reflexivity.
Qed.

Lemma nothing_yet_run oc mid : forall a a1, nothing_yet a -> ttrace_run oc mid a = Some a1 ->
  nothing_yet a1 \/ exists m1 m2 b, mid = m1 ++ TE b (Note NHelo) :: m2.
Proof.
  induction mid as [|x r IH]; intros a a1 Hn H; cbn [ttrace_run] in H.
  - inversion H; subst. left. exact Hn.
  - assert (Cons : forall a2, nothing_yet a2 -> ttrace_run oc r a2 = Some a1 ->
                   nothing_yet a1 \/ exists m1 m2 b, x :: r = m1 ++ TE b (Note NHelo) :: m2).
    { intros a2 Hn2 H2. destruct (IH _ _ Hn2 H2) as [Hl|(m1 & m2 & b & ->)]; [left; exact Hl|].
      right. exists (x :: m1), m2, b. reflexivity. }
    destruct x as [b e| | | |]; try (apply (Cons a); assumption).
    + destruct (trace_step oc e a) as [a2|] eqn:Est; [|discriminate].
      destruct (nothing_yet_step _ _ _ _ Hn Est) as [Hn2| ->].
      * apply (Cons a2); assumption.
      * right. exists [], r, b. reflexivity.
    + apply (Cons (a_reset a)); [split; reflexivity|exact H].
Qed.

Lemma ttrace_split oc pre rest : ttrace_run oc (pre ++ TSwitch :: rest) a_init <> None ->
  exists a0, ttrace_run oc pre a_init = Some a0 /\ ttrace_run oc rest (a_reset a0) <> None.
Proof.
  rewrite ttrace_run_app. destruct (ttrace_run oc pre a_init) as [a0|]; [|congruence]. cbn [ttrace_run]. eauto.
Qed.

Lemma ttrace_prefix oc p q a : ttrace_run oc (p ++ q) a <> None ->
  exists a', ttrace_run oc p a = Some a' /\ ttrace_run oc q a' <> None.
Proof.
  rewrite ttrace_run_app. destruct (ttrace_run oc p a) as [a'|]; [eauto|congruence].
Qed.

(** after the handshake MAIL FROM is accepted only behind a HELO/EHLO that was itself given after the handshake *)
Theorem mail_needs_new_greeting o sc pre mid b f post :
  trun o sc = pre ++ TSwitch :: mid ++ TE b (Note (NMail f)) :: post ->
  exists m1 m2 b', mid = m1 ++ TE b' (Note NHelo) :: m2.
Proof.
  intros E. pose proof (reset_after_switch o sc) as Hok. unfold ttrace_ok in Hok. rewrite E in Hok.
  apply ttrace_split in Hok as (a0 & _ & Hok). apply ttrace_prefix in Hok as (a1 & Hmid & Hrest).
  assert (Hny : nothing_yet (a_reset a0)) by (split; reflexivity).
  destruct (nothing_yet_run _ _ _ _ Hny Hmid) as [[Hp _]|Hex]; [|exact Hex].
  exfalso. apply Hrest. cbn [ttrace_run trace_step]. rewrite Hp. reflexivity.
Qed.

(** a hand-off after the handshake carries exactly the transaction built from what was accepted after the handshake *)
Theorem handoff_after_switch o sc pre mid b env msg post :
  trun o sc = pre ++ TSwitch :: mid ++ TE b (Handoff env msg) :: post ->
  exists a0 a f rs, ttrace_run (o_clear o) pre a_init = Some a0 /\ ttrace_run (o_clear o) mid (a_reset a0) = Some a
    /\ a_txn a = Some (f, rs) /\ env = env_of (o_liphost (o_clear o)) (Some (f, rs)).
Proof.
  intros E. pose proof (reset_after_switch o sc) as Hok. unfold ttrace_ok in Hok. rewrite E in Hok.
  apply ttrace_split in Hok as (a0 & Hpre & Hok). apply ttrace_prefix in Hok as (a1 & Hmid & Hrest).
  cbn [ttrace_run trace_step] in Hrest.
  destruct (a_txn a1) as [[f rs]|] eqn:Et; [|congruence].
  destruct (bytes_eqb env (env_of (o_liphost (o_clear o)) (Some (f, rs)))) eqn:Eb; [|congruence].
  apply bytes_eqb_eq in Eb. exists a0, a1, f, rs. auto.
Qed.

(** ---------- shape of the trace: clear text, then at most one switch, then TLS only ---------- *)
Lemma in_tls_tag e : forallb in_tls (tag true e) = true.
Proof. unfold tag. induction e as [|x r IH]; cbn [map forallb in_tls]; [reflexivity|exact IH]. Qed.

Lemma in_clear_tag e : forallb in_clear (tag false e) = true.
Proof. unfold tag. induction e as [|x r IH]; cbn [map forallb in_clear negb andb]; [reflexivity|exact IH]. Qed.

Lemma shape_ok_app e1 r : forallb in_clear e1 = true -> shape_ok (e1 ++ r) = shape_ok r.
Proof.
  induction e1 as [|x e IH]; cbn [app forallb]; [reflexivity|].
  intros H. apply andb_true_iff in H as [Hx He].
  destruct x as [b ev| | | |]; cbn [shape_ok]; try discriminate; rewrite ?Hx, IH; auto.
Qed.

Lemma shape_ok_clear e1 : forallb in_clear e1 = true -> shape_ok e1 = true.
Proof. intros H. rewrite <- (app_nil_r e1). rewrite shape_ok_app; [reflexivity|exact H]. Qed.

Lemma tstep_in_tls f o closes t evs so : tls t = true -> tstep f o closes t = (evs, so) ->
  forallb in_tls evs = true /\ (forall t', so = Some t' -> tls t' = true).
Proof.
  intros Ht Hstep.
  destruct (tstep_cases _ _ _ _ _ _ Hstep) as [(e0 & so0 & _ & -> & -> & _)|(l & r' & i & row & ev1 & h & t1 & Hread & Hrow & _)].
  - split.
    + rewrite forallb_app, Ht, in_tls_tag. unfold offer. destruct so0; [|reflexivity].
      destruct guards_ok as (_ & _ & _ & G4 & _). rewrite G4, Ht. cbn [negb orb]. rewrite andb_false_r. reflexivity.
    + intros t' Hx. destruct so0; [|discriminate]. inversion Hx; subst. exact Ht.
  - destruct (starttls_round _ _ _ _ _ _ _ _ _ _ Hstep Hread Hrow) as [(Hf & _)|((e & -> & _) & Hs)]; [congruence|].
    split; [rewrite Ht; apply in_tls_tag|].
    intros t' Hx. destruct (Hs t' Hx) as (E & _). congruence.
Qed.

Lemma tserve_in_tls fuel o closes : forall t, tls t = true -> forallb in_tls (tserve fuel o closes t) = true.
Proof.
  induction fuel as [|f IH]; intros t Ht; cbn [tserve]; [rewrite Ht; reflexivity|].
  destruct (tstep f o closes t) as [ev so] eqn:Es.
  destruct (tstep_in_tls _ _ _ _ _ _ Ht Es) as (Hev & Hn).
  rewrite forallb_app, Hev. destruct so as [t'|]; [apply IH, Hn; reflexivity|].
  destruct (closes && no_later t); [rewrite Ht|]; reflexivity.
Qed.

Lemma tstep_in_clear f o closes t evs so : tls t = false -> tstep f o closes t = (evs, so) ->
  (forallb in_clear evs = true /\ (forall t', so = Some t' -> tls t' = false))
  \/ (evs = [TE false (Reply TLS_READY_CODE); TSwitch; TE true (Note NBadReset)] /\ exists t', so = Some t' /\ tls t' = true).
Proof.
  intros Ht Hstep.
  destruct (tstep_cases _ _ _ _ _ _ Hstep) as [(e0 & so0 & _ & -> & -> & _)|(l & r' & i & row & ev1 & h & t1 & Hread & Hrow & _)].
  - left. split.
    + rewrite forallb_app, Ht, in_clear_tag. destruct (offer_cases o t e0 so0) as [E|E]; rewrite E; reflexivity.
    + intros t' Hx. destruct so0; [|discriminate]. inversion Hx; subst. exact Ht.
  - destruct (starttls_round _ _ _ _ _ _ _ _ _ _ Hstep Hread Hrow) as [(_ & _ & _ & _ & _ & _ & [Hsw|Hf])|((e & -> & _) & Hs)].
    + right. destruct Hsw as (segs & l' & _ & -> & ->). split; [reflexivity|]. eexists. split; reflexivity.
    + left. unfold round_failed in Hf.
      destruct (handshake _ _ _ _) as [? ?|a e' l'| | |]; [contradiction| | | |].
      * destruct Hf as (ev & so' & _ & -> & ->). split.
        -- rewrite forallb_app, in_clear_tag. destruct a; reflexivity.
        -- intros t' Hx. destruct so'; [|discriminate]. inversion Hx; reflexivity.
      * destruct Hf as (ev & so' & _ & -> & ->). split.
        -- rewrite forallb_app, in_clear_tag. reflexivity.
        -- intros t' Hx. destruct so'; [|discriminate]. inversion Hx; reflexivity.
      * destruct Hf as (-> & ->). split; [reflexivity|discriminate].
      * destruct Hf as (-> & ->). split; [reflexivity|discriminate].
    + left. split; [rewrite Ht; apply in_clear_tag|].
      intros t' Hx. destruct (Hs t' Hx) as (E & _). congruence.
Qed.

Lemma tserve_shape fuel o closes : forall t, tls t = false -> shape_ok (tserve fuel o closes t) = true.
Proof.
  induction fuel as [|f IH]; intros t Ht; cbn [tserve]; [rewrite Ht; reflexivity|].
  destruct (tstep f o closes t) as [ev so] eqn:Es.
  destruct (tstep_in_clear _ _ _ _ _ _ Ht Es) as [(Hev & Hn)|(-> & t' & -> & Ht')].
  - rewrite shape_ok_app; [|exact Hev]. destruct so as [t'|]; [apply IH, Hn; reflexivity|].
    destruct (closes && no_later t); [rewrite Ht|]; reflexivity.
  - cbn [app shape_ok in_clear negb andb forallb in_tls]. apply tserve_in_tls. exact Ht'.
Qed.

Theorem shape o sc : shape_ok (trun o sc) = true.
Proof. unfold trun. cbn [shape_ok in_clear negb andb]. apply tserve_shape. reflexivity. Qed.

(** ---------- whole run: what follows the switch is the command loop on the TLS stream alone ---------- *)
Lemma split_behind (x : tevent) ev : forall rest pre post, ~ In x ev -> ev ++ rest = pre ++ x :: post ->
  exists pre', pre = ev ++ pre' /\ rest = pre' ++ x :: post.
Proof.
  induction ev as [|e r IH]; intros rest pre post Hn E; cbn [app] in *.
  - exists pre. auto.
  - destruct pre as [|p pre']; cbn [app] in E.
    + inversion E; subst. exfalso. apply Hn. left. reflexivity.
    + inversion E; subst. destruct (IH rest pre' post) as (q & -> & ->); [intros H; apply Hn; right; exact H|assumption|].
      exists q. auto.
Qed.

Lemma in_clear_no_switch ev : forallb in_clear ev = true -> ~ In TSwitch ev.
Proof. intros H Hin. rewrite forallb_forall in H. specialize (H _ Hin). discriminate. Qed.

Lemma in_tls_no_switch ev : forallb in_tls ev = true -> ~ In TSwitch ev.
Proof. intros H Hin. rewrite forallb_forall in H. specialize (H _ Hin). discriminate. Qed.

(** the state in which the TLS session starts: initial command state, no sender, no recipients, empty line buffer,
    the TLS stream as the only input *)
Definition fresh_in_tls (t' : tstate) (segs : list bytes) : Prop :=
  tls t' = true
  /\ rd (ss t') = {| inn := []; en := {| cur := []; future := segs |} |}
  /\ comstate (ss t') = 1%N /\ mailfrom (ss t') = [] /\ rcpts (ss t') = []
  /\ rcptcount (ss t') = 0 /\ goodrcpt (ss t') = 0 /\ badcmds (ss t') = 0.

Lemma tserve_factor fuel o closes : forall t a pre post,
  R (o_clear o) (ss t) a -> a_auth a = authed (ss t) -> K (ss t) (a_esmtp a) -> tls t = false -> tserve fuel o closes t = pre ++ TSwitch :: post ->
  exists f' t' segs, post = TE true (Note NBadReset) :: tserve f' o closes t' /\ fresh_in_tls t' segs.
Proof.
  induction fuel as [|f IH]; intros t a pre post HR HA HK Ht E; cbn [tserve] in E.
  { destruct pre as [|p [|q pre]]; discriminate. }
  destruct (tstep f o closes t) as [ev so] eqn:Es.
  destruct (tstep_in_clear _ _ _ _ _ _ Ht Es) as [(Hev & Hn)|(Hev & t' & Hso & Ht')].
  - destruct (split_behind TSwitch ev _ pre post (in_clear_no_switch _ Hev) E) as (pre' & -> & Erest).
    destruct so as [t1|].
    + destruct (tstep_inv _ _ _ _ _ _ _ HR HA HK Es) as (a' & _ & Hnext).
      destruct (Hnext t1 eq_refl) as (HR1 & HA1 & HK1).
      apply (IH t1 a' pre' post); [exact HR1|exact HA1|exact HK1|apply Hn; reflexivity|exact Erest].
    + exfalso. destruct (closes && no_later t); destruct pre' as [|p [|q pre']]; discriminate.
  - assert (Hin : In TSwitch ev) by (rewrite Hev; right; left; reflexivity).
    destruct (no_cleartext_at_switch _ _ _ _ _ _ Es Hin) as (l & r' & segs & l' & Hread & _ & _ & _ & _ & _ & _ & _ & Hm & _ & Hso').
    subst ev so. inversion Hso'; subst t'. clear Hso'.
    cbn [app] in E.
    pose proof (tserve_in_tls f o closes _ Ht') as Htl. apply in_tls_no_switch in Htl.
    assert (Epost : post = TE true (Note NBadReset) :: tserve f o closes
              {| ss := set_badcmds (set_comstate (set_rd (ss t) {| inn := []; en := {| cur := []; future := segs |} |}) 1%N) 0;
                 tls := true; later := l' |}).
    { destruct pre as [|p [|q pre]]; cbn [app] in E.
      - discriminate.
      - inversion E; reflexivity.
      - exfalso. inversion E as [[E1 E2 E3]]. destruct pre as [|q2 pre]; cbn [app] in E3; [discriminate|].
        inversion E3 as [[E4 E5]]. apply Htl. rewrite E5. apply in_or_app. right. left. reflexivity. }
    eexists f, _, segs. split; [exact Epost|].
    assert (HRs : R (o_clear o) (set_rd (ss t) r') a) by exact HR.
    assert (Hm' : N.land (comstate (set_rd (ss t) r')) 16 <> 0%N) by exact Hm.
    destruct (R_ehlo_state _ _ _ HRs Hm') as (_ & Hmf & Hrc & Hnn & Hg).
    unfold fresh_in_tls. cbn. cbn in Hmf, Hrc, Hnn, Hg. auto 10.
Qed.

Theorem after_switch_only_tls_input o sc pre post : trun o sc = pre ++ TSwitch :: post ->
  exists f' t' segs, post = TE true (Note NBadReset) :: tserve f' o (sc_closes sc) t' /\ fresh_in_tls t' segs.
Proof.
  unfold trun. generalize (tfuel sc) as fu. intros fu E.
  destruct pre as [|p pre]; cbn [app] in E; [discriminate|]. injection E as _ E'.
  apply (tserve_factor fu o (sc_closes sc) (tinit sc) a_init pre post); [|reflexivity|split; discriminate|reflexivity|exact E'].
  unfold tinit. cbn [ss]. split.
  - unfold init_state, Rc, a_init. cbn. repeat split; auto.
  - unfold Irel, relkey, init_state. cbn. split; [discriminate|congruence].
Qed.

(** ---------- what the switch does NOT discard ---------- *)
(** tls_init does not touch xmitstat.authname: an authentication obtained in clear text stays valid inside TLS *)
Theorem auth_survives_switch f o closes t evs t' : tstep f o closes t = (evs, Some t') -> In TSwitch evs ->
  authname (ss t') = authname (ss t).
Proof.
  intros Hstep Hin.
  destruct (no_cleartext_at_switch _ _ _ _ _ _ Hstep Hin) as (l & r' & segs & l' & _ & _ & _ & _ & _ & _ & _ & _ & _ & _ & Hso).
  inversion Hso; subst. reflexivity.
Qed.

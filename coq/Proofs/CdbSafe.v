(** Memory safety of cdb_seekmm() and of the record parser of vget_dir() for EVERY file content
    (Model/Cdb.v): no read outside the mapping, the loop runs at most length f / 8 times. *)
From Qv Require Import Common.Bytes Gen.GenCdb Model.Cdb.
Local Open Scope N_scope.

Lemma rd_ok f size o : o < size -> rd f size o = Ok (nth (N.to_nat o) f 0).
Proof. intros H. unfold rd. apply N.ltb_lt in H. now rewrite H. Qed.

Lemma unpack_ok f size o : o + 4 <= size -> exists v, unpack f size o = Ok v.
Proof.
  intros H. unfold unpack. rewrite !rd_ok by lia. simpl. eauto.
Qed.

Lemma strncmp_ok f size : forall n o key, o + N.of_nat n <= size -> exists b, strncmp_eq f size o key n = Ok b.
Proof.
  induction n as [|n IH]; intros o key H; simpl; [eauto|].
  rewrite rd_ok by lia. simpl.
  destruct (nth (N.to_nat o) f 0 =? hd 0 key); [|eauto].
  destruct (nth (N.to_nat o) f 0 =? 0); [eauto|]. apply IH. lia.
Qed.

(** the postcondition of a lookup: a found value pointer lies inside the mapping, behind a record header and key *)
Definition seek_post (f : bytes) (size len : N) (r : seek) : Prop :=
  match r with
  | SFound off =>
      len + 8 <= off /\ off <= size /\
      exists dlen, unpack f size (off - len - 4) = Ok dlen /\ off + dlen <= size     (* the whole value is inside *)
  | SNone e => e = 0 \/ e = CDB_EINVAL
  end.

Lemma walk_ok f size key len h pos lenhash :
  pos + 8 * lenhash <= size ->
  forall fuel h2, h2 < lenhash ->
  exists r, walk f size key len h pos lenhash fuel h2 = Ok r /\ seek_post f size len r.
Proof.
  intros HT. induction fuel as [|fuel IH]; intros h2 H2; cbn [walk].
  - eexists. split; [reflexivity|]. now left.
  - assert (NX : (if h2 + 1 =? lenhash then 0 else h2 + 1) < lenhash).
    { destruct (h2 + 1 =? lenhash) eqn:E; [lia|]. apply N.eqb_neq in E. lia. }
    specialize (IH _ NX).
    destruct (unpack_ok f size (pos + 8 * h2 + 4)) as [poskd ->]; [lia|]. cbn [bind].
    destruct (poskd =? 0); [eexists; split; [reflexivity|now left]|].
    destruct (unpack_ok f size (pos + 8 * h2)) as [hh ->]; [lia|]. cbn [bind].
    destruct (hh =? h); [|exact IH].
    destruct (size <? poskd) eqn:B1; [eexists; split; [reflexivity|now right]|].
    destruct (size - poskd <? 8) eqn:B2; [eexists; split; [reflexivity|now right]|].
    apply N.ltb_ge in B1, B2. cbn [orb].
    destruct (unpack_ok f size poskd) as [klen ->]; [lia|]. cbn [bind].
    destruct (klen =? len); [|exact IH].
    destruct (unpack_ok f size (poskd + 4)) as [dlen ED]; [lia|]. rewrite ED. cbn [bind].
    destruct (size - poskd - 8 <? len) eqn:B3; [eexists; split; [reflexivity|now right]|].
    destruct (size - poskd - 8 - len <? dlen) eqn:B4; [eexists; split; [reflexivity|now right]|].
    apply N.ltb_ge in B3, B4. cbn [orb].
    destruct (strncmp_ok f size (N.to_nat len) (poskd + 8) key) as [e ->]; [rewrite N2Nat.id; lia|]. cbn [bind].
    destruct e; [|exact IH].
    eexists. split; [reflexivity|]. simpl. split; [lia|]. split; [lia|]. exists dlen.
    replace (poskd + 8 + len - len - 4) with (poskd + 4) by lia. split; [exact ED|lia].
Qed.

Lemma tabmask_le h : N.land h CDB_TABMASK <= 255.
Proof.
  unfold CDB_TABMASK. change 255 with (N.ones 8) at 1. rewrite N.land_ones.
  pose proof (N.mod_lt h (2 ^ 8)). change (2 ^ 8) with 256 in *. lia.
Qed.

Theorem cdb_seekmm_safe f key :
  exists r, cdb_seekmm f key = Ok r /\ seek_post f (N.of_nat (length f)) (N.of_nat (length key)) r.
Proof.
  unfold cdb_seekmm. set (size := N.of_nat (length f)). set (len := N.of_nat (length key)).
  destruct (size =? 0); [eexists; split; [reflexivity|now left]|].
  destruct (size <? CDB_HDR) eqn:HS; [eexists; split; [reflexivity|now right]|].
  apply N.ltb_ge in HS. unfold CDB_HDR in HS.
  pose proof (tabmask_le (cdb_hash key)) as TM.
  destruct (unpack_ok f size (8 * N.land (cdb_hash key) CDB_TABMASK + 4)) as [lenhash ->]; [lia|]. cbn [bind].
  destruct (lenhash =? 0) eqn:L0; [eexists; split; [reflexivity|now left]|]. apply N.eqb_neq in L0.
  destruct (unpack_ok f size (8 * N.land (cdb_hash key) CDB_TABMASK)) as [tpos ->]; [lia|]. cbn [bind].
  destruct (size <? tpos) eqn:B1; [eexists; split; [reflexivity|now right]|].
  destruct ((size - tpos) / 8 <? lenhash) eqn:B2; [eexists; split; [reflexivity|now right]|].
  apply N.ltb_ge in B1, B2. cbn [orb].
  apply walk_ok.
  - pose proof (N.mul_div_le (size - tpos) 8). lia.
  - apply N.mod_lt. exact L0.
Qed.

(** the number of loop iterations is bounded by the file size: at most length f / 8 *)
Definition cdb_seekmm_bounded (bound : nat) (f : bytes) (key : bytes) : Cres seek :=
  let size := N.of_nat (length f) in
  let len := N.of_nat (length key) in
  if size =? 0 then Ok (SNone 0) else
  if size <? CDB_HDR then Ok (SNone CDB_EINVAL) else
  let h := cdb_hash key in
  let pos := 8 * N.land h CDB_TABMASK in
  do lenhash <- unpack f size (pos + 4);
  if lenhash =? 0 then Ok (SNone 0) else
  let h2 := N.shiftr h CDB_HSHIFT mod lenhash in
  do tpos <- unpack f size pos;
  if (size <? tpos) || ((size - tpos) / 8 <? lenhash) then Ok (SNone CDB_EINVAL) else
  if (bound <? N.to_nat lenhash)%nat then OutOfFuel else
  walk f size key len h tpos lenhash (N.to_nat lenhash) h2.

Theorem cdb_seekmm_terminates f key : cdb_seekmm_bounded (length f / 8) f key = cdb_seekmm f key.
Proof.
  unfold cdb_seekmm_bounded, cdb_seekmm. set (size := N.of_nat (length f)).
  destruct (size =? 0); [reflexivity|]. destruct (size <? CDB_HDR); [reflexivity|].
  destruct (unpack f size (8 * N.land (cdb_hash key) CDB_TABMASK + 4)) as [lenhash| |]; cbn [bind]; try reflexivity.
  destruct (lenhash =? 0); [reflexivity|].
  destruct (unpack f size (8 * N.land (cdb_hash key) CDB_TABMASK)) as [tpos| |]; cbn [bind]; try reflexivity.
  destruct (size <? tpos) eqn:B1; [reflexivity|].
  destruct ((size - tpos) / 8 <? lenhash) eqn:B2; [reflexivity|]. cbn [orb].
  apply N.ltb_ge in B1, B2.
  assert (L : (N.to_nat lenhash <= length f / 8)%nat).
  { assert (A : lenhash <= size / 8).
    { etransitivity; [exact B2|]. apply N.div_le_mono; lia. }
    unfold size in A. apply Nat.div_le_lower_bound; [lia|].
    pose proof (N.mul_div_le (N.of_nat (length f)) 8). lia. }
  destruct (length f / 8 <? N.to_nat lenhash)%nat eqn:E; [apply Nat.ltb_lt in E; lia|reflexivity].
Qed.

(** ** the record parser *)
Lemma nul_index_spec : forall l i, nul_index l = Some i ->
  (i < length l)%nat /\ nth i l 0 = 0 /\ forall j, (j < i)%nat -> nth j l 0 <> 0.
Proof.
  induction l as [|b l IH]; intros i H; simpl in H; [discriminate|].
  destruct (b =? 0) eqn:E.
  - inversion H; subst. apply N.eqb_eq in E. simpl. repeat split; [lia|exact E|]. intros j Hj. lia.
  - destruct (nul_index l) as [k|] eqn:K; [|discriminate]. inversion H; subst.
    destruct (IH _ eq_refl) as [A [B C]]. simpl. repeat split; [lia|exact B|].
    intros [|j] Hj; simpl; [now apply N.eqb_neq|]. apply C. lia.
Qed.

Lemma nth_skipn {A} (d : A) : forall p l i, nth i (skipn p l) d = nth (p + i) l d.
Proof.
  induction p as [|p IH]; intros l i; simpl; [reflexivity|].
  destruct l as [|x l]; [now destruct i|]. apply IH.
Qed.

(** memchr0 f p = Some e: e is the first NUL at or behind p, inside the file *)
Lemma memchr0_spec f p e : memchr0 f p = Some e ->
  p <= e /\ e < N.of_nat (length f) /\ nth (N.to_nat e) f 0 = 0.
Proof.
  unfold memchr0. destruct (nul_index (skipn (N.to_nat p) f)) as [i|] eqn:K; [|discriminate].
  intros H. inversion H; subst. destruct (nul_index_spec _ _ K) as [A [B _]].
  rewrite skipn_length in A. rewrite nth_skipn in B.
  repeat split; [lia|lia|]. replace (N.to_nat (p + N.of_nat i)) with (N.to_nat p + i)%nat by lia. exact B.
Qed.

(** fields: the last field [q, e) ends at a NUL inside the file; from the second round on it starts behind a NUL *)
Lemma fields_spec f : forall i p q e, fields f i p = Some (q, e) ->
  p <= q /\ q <= e /\ e < N.of_nat (length f) /\
  ((2 <= i)%nat -> 1 <= q /\ nth (N.to_nat (q - 1)) f 0 = 0).
Proof.
  induction i as [|i IH]; intros p q e H; simpl in H; [discriminate|].
  destruct (memchr0 f p) as [e0|] eqn:M; [|discriminate].
  destruct (memchr0_spec _ _ _ M) as [A [B C]].
  destruct i as [|i].
  - inversion H; subst. repeat split; try lia.
  - destruct (IH _ _ _ H) as [A' [B' [C' D']]].
    split; [lia|]. split; [lia|]. split; [lia|]. intros _.
    destruct i as [|i].
    + (* the next round is the last one: q = e0 + 1 *)
      simpl in H. destruct (memchr0 f (e0 + 1)); [|discriminate]. inversion H; subst.
      split; [lia|]. replace (e0 + 1 - 1) with e0 by lia. exact C.
    + apply D'. lia.
Qed.

Lemma strip_ok f size p : 1 <= p -> nth (N.to_nat (p - 1)) f 0 = 0 ->
  forall len, p + N.of_nat len <= size -> exists l, strip_slashes f size p len = Ok l /\ (l <= len)%nat.
Proof.
  intros P1 PN. induction len as [|len IH]; intros H.
  - cbn [strip_slashes]. destruct (p + N.of_nat 0 =? 0) eqn:E; [apply N.eqb_eq in E; lia|].
    rewrite rd_ok by lia. cbn [bind]. replace (p + N.of_nat 0 - 1) with (p - 1) by lia. rewrite PN.
    change (0 =? CDB_STRIP) with false. eauto.
  - cbn [strip_slashes]. destruct (p + N.of_nat (S len) =? 0) eqn:E; [apply N.eqb_eq in E; lia|].
    rewrite rd_ok by lia. cbn [bind].
    destruct (nth (N.to_nat (p + N.of_nat (S len) - 1)) f 0 =? CDB_STRIP); [|eauto].
    destruct IH as [l [A B]]; [lia|]. exists l. split; [exact A|lia].
Qed.

Theorem parse_record_safe f off edone : exists v, parse_record f off edone = Ok v.
Proof.
  unfold parse_record. destruct (fields f CDB_NFIELDS off) as [[q e]|] eqn:F; [|eauto].
  destruct (fields_spec _ _ _ _ _ F) as [A [B [C D]]].
  destruct D as [D1 D2]; [unfold CDB_NFIELDS; lia|].
  destruct (strip_ok f (N.of_nat (length f)) q D1 D2 (N.to_nat (e - q))) as [l [-> _]]; [lia|].
  cbn [bind]. eauto.
Qed.

Theorem vget_dir_file_safe keybuf k1 k2 efault enomem edone file domain :
  exists v, vget_dir_file keybuf k1 k2 efault enomem edone file domain = Ok v.
Proof.
  unfold vget_dir_file. destruct (keybuf <=? length domain + 2 + 1)%nat; [eauto|].
  destruct file as [f|]; [|eauto].
  destruct (cdb_seekmm_safe f (k1 :: domain ++ [k2])) as [r [-> _]]. cbn [bind].
  destruct r as [off|e]; [apply parse_record_safe|].
  destruct (e =? 0); [eauto|]. destruct (existsb (N.eqb e) CDB_NOMEM_SET); eauto.
Qed.

(** domainvalid() against RFC 5321 Domain: equivalence up to the hyphen rule. *)
From Qv Require Import Common.Bytes Gen.GenAddr Model.Addr Spec.AddrSpec Spec.AddrGrammar
  Proofs.AddrTables Proofs.DomainProofs.

Local Arguments N.eqb : simpl never.

Lemma sub_domain_dec l : {hd 0%N l <> DASH /\ last l 0%N <> DASH} + {hd 0%N l = DASH \/ last l 0%N = DASH}.
Proof.
  destruct (N.eq_dec (hd 0%N l) DASH) as [E|E]; [right; now left|].
  destruct (N.eq_dec (last l 0%N) DASH) as [E2|E2]; [right; now right|left; auto].
Qed.

Lemma labels_nodot ls : Forall label ls -> Forall nodot ls.
Proof.
  intros H. apply Forall_forall. intros l Hl Hin. rewrite Forall_forall in H. destruct (H l Hl) as [_ Hc].
  rewrite Forall_forall in Hc. apply Hc in Hin. vm_compute in Hin. discriminate.
Qed.

Lemma rfc_fqdn_strict h : rfc_fqdn h -> fqdn_strict h.
Proof.
  intros (ls & -> & H2 & Hsub & Hlen & Hlast & Ha). exists ls. repeat split; try assumption.
  eapply Forall_impl; [|exact Hsub]. intros l [Hl _]. exact Hl.
Qed.

(** what domainvalid() accepts is an RFC 5321 domain (fully qualified, letter-final) or differs from one
    only by a hyphen at the edge of a label *)
Theorem fqdn_strict_rfc h : fqdn_strict h <-> rfc_fqdn h \/ (fqdn_strict h /\ edge_hyphen h).
Proof.
  split; [|intros [H|[H _]]; [now apply rfc_fqdn_strict|exact H]].
  intros Hs. pose proof Hs as (ls & -> & H2 & Hlab & Hlen & Hlast & Ha).
  assert (Hne : ls <> []) by (destruct ls; [simpl in H2; lia|discriminate]).
  assert (Hdec : forall l : bytes, {hd 0%N l <> DASH /\ last l 0%N <> DASH} + {~ (hd 0%N l <> DASH /\ last l 0%N <> DASH)}).
  { intros l. destruct (sub_domain_dec l) as [A|B]; [left; exact A|right; intros [X Y]; destruct B; contradiction]. }
  destruct (Forall_Exists_dec (fun l => hd 0%N l <> DASH /\ last l 0%N <> DASH) Hdec ls) as [Hall|Hex].
  - left. exists ls. repeat split; try assumption.
    rewrite Forall_forall in *. intros l Hl. split; [now apply Hlab|now apply Hall].
  - right. split; [exact Hs|]. apply Exists_exists in Hex as (l & Hl & Hbad).
    exists l. rewrite (split_join ls Hne (labels_nodot ls Hlab)). split; [exact Hl|].
    destruct (sub_domain_dec l) as [[A B]|C]; [exfalso; apply Hbad; auto|exact C].
Qed.

Lemma rfc_no_edge h : rfc_fqdn h -> ~ edge_hyphen h.
Proof.
  intros (ls & -> & H2 & Hsub & _) (l & Hl & Hbad).
  assert (Hne : ls <> []) by (destruct ls; [simpl in H2; lia|discriminate]).
  assert (Hlab : Forall label ls) by (eapply Forall_impl; [|exact Hsub]; intros x [Hx _]; exact Hx).
  rewrite (split_join ls Hne (labels_nodot ls Hlab)) in Hl.
  rewrite Forall_forall in Hsub. destruct (Hsub l Hl) as (_ & A & B). destruct Hbad; contradiction.
Qed.

Theorem domainvalid_rfc h rest : ~ In 0%N h ->
  (domainvalid (h ++ 0%N :: rest) = Ok 0 <-> rfc_fqdn h \/ (fqdn_strict h /\ edge_hyphen h))
  /\ (~ edge_hyphen h -> (domainvalid (h ++ 0%N :: rest) = Ok 0 <-> rfc_fqdn h)).
Proof.
  intros Hn. pose proof (domainvalid_iff h rest Hn) as Hiff. split.
  - rewrite <- fqdn_strict_rfc. exact Hiff.
  - intros Hne. rewrite Hiff, fqdn_strict_rfc. split; [intros [H|[_ H]]; [exact H|contradiction]|now left].
Qed.

(** the property's [fqdn] (last label not all-numeric) against what is accepted: they differ exactly
    in names whose last character is not a letter (x.a1 is an [fqdn] and is refused) *)
Theorem fqdn_vs_strict h : fqdn h -> (fqdn_strict h <-> is_alpha (last h 0%N) = true).
Proof.
  intros (ls & E & H2 & Hlab & Hlen & Hlast & Hnum). split.
  - intros (ls' & _ & _ & _ & _ & _ & Ha). exact Ha.
  - intros Ha. exists ls. auto 10.
Qed.

(** Proofs for C12 stage 3: the models of the real filters compute the documented functions. *)
From Qv Require Import Common.Bytes Gen.GenFilters Gen.GenControl Model.Filters Model.RealFilters Model.FindDomain
  Model.MatchNet Model.LoadFile Model.InetPton Model.Addr Spec.FiltersSpec Spec.ControlSpec Spec.RealFiltersSpec
  Proofs.FiltersProofs Proofs.FindDomainProofs Proofs.IpblProofs Proofs.AddrTheorems Proofs.MatchNetProofs.
Local Open Scope bool_scope.

(* ------------------------------------------------------------------------------------------------ *)
(** * case-insensitive comparison *)

Lemma bytes_okb_ok l : bytes_okb l = true -> bytes_ok l.
Proof.
  unfold bytes_okb, bytes_ok. intros H. apply Forall_forall. intros x Hx. rewrite forallb_forall in H.
  apply N.ltb_lt. apply H. exact Hx.
Qed.


Lemma ci_eqb_iff a b : ci_eqb a b = true <-> lower a = lower b.
Proof. unfold ci_eqb. apply bytes_eqb_eq. Qed.

Lemma ci_eqb_sym a b : ci_eqb a b = ci_eqb b a.
Proof.
  destruct (ci_eqb a b) eqn:E1, (ci_eqb b a) eqn:E2; try reflexivity.
  - apply ci_eqb_iff in E1. symmetry in E1. apply ci_eqb_iff in E1. congruence.
  - apply ci_eqb_iff in E2. symmetry in E2. apply ci_eqb_iff in E2. congruence.
Qed.

Lemma lower_len l : length (lower l) = length l.
Proof. unfold lower. apply map_length. Qed.

Lemma ci_eqb_length a b : ci_eqb a b = true -> length a = length b.
Proof. intros H. apply ci_eqb_iff in H. apply (f_equal (@length N)) in H. rewrite !lower_len in H. exact H. Qed.

Lemma ci_eqb_len_false a b : length a <> length b -> ci_eqb a b = false.
Proof. intros H. destruct (ci_eqb a b) eqn:E; [|reflexivity]. apply ci_eqb_length in E. contradiction. Qed.

Lemma to_lower_at x : to_lower x = AT_SIGN <-> x = AT_SIGN.
Proof.
  unfold to_lower, is_upper, AT_SIGN. split; intros H.
  - destruct (N.leb 65 x && N.leb x 90) eqn:E; [|exact H].
    apply andb_true_iff in E as [E1 E2]. apply N.leb_le in E1. apply N.leb_le in E2. lia.
  - subst x. reflexivity.
Qed.

Lemma to_lower_dotc x : to_lower x = DOT_CH <-> x = DOT_CH.
Proof.
  unfold to_lower, is_upper, DOT_CH. split; intros H.
  - destruct (N.leb 65 x && N.leb x 90) eqn:E; [|exact H].
    apply andb_true_iff in E as [E1 E2]. apply N.leb_le in E1. apply N.leb_le in E2. lia.
  - subst x. reflexivity.
Qed.

Lemma has_at_lower l : has_at (lower l) = has_at l.
Proof.
  induction l as [|x l IH]; [reflexivity|]. unfold has_at, lower in *. cbn [map existsb]. rewrite IH. f_equal.
  destruct (N.eqb AT_SIGN (to_lower x)) eqn:E1, (N.eqb AT_SIGN x) eqn:E2; try reflexivity.
  - apply N.eqb_eq in E1. symmetry in E1. apply (proj1 (to_lower_at x)) in E1. rewrite E1 in E2. discriminate.
  - apply N.eqb_eq in E2. subst x. discriminate.
Qed.

Lemma ci_eqb_has_at a b : ci_eqb a b = true -> has_at a = has_at b.
Proof. intros H. apply ci_eqb_iff in H. rewrite <- (has_at_lower a), <- (has_at_lower b), H. reflexivity. Qed.

Lemma has_at_app a b : has_at (a ++ b) = has_at a || has_at b.
Proof. unfold has_at. apply existsb_app. Qed.

Lemma ci_eqb_cons x a y b : ci_eqb (x :: a) (y :: b) = N.eqb (to_lower x) (to_lower y) && ci_eqb a b.
Proof. reflexivity. Qed.

(* ------------------------------------------------------------------------------------------------ *)
(** * A. one list entry against an address local@domain *)

Lemma from_first_split loc dom : no_at loc = true -> from_first AT_SIGN (loc ++ AT_SIGN :: dom) = Some (AT_SIGN :: dom).
Proof.
  unfold no_at, has_at. induction loc as [|x loc IH]; intros H.
  - reflexivity.
  - cbn [existsb] in H. apply negb_true_iff in H. apply orb_false_iff in H as [H1 H2].
    cbn [app from_first]. rewrite N.eqb_sym, H1. apply IH. apply negb_true_iff. exact H2.
Qed.

Lemma split_addr_shape a loc dom : split_addr a = Some (loc, dom) ->
  a = loc ++ AT_SIGN :: dom /\ no_at loc = true /\ no_at dom = true.
Proof.
  unfold split_addr. intros H.
  assert (G : forall s rest, from_first AT_SIGN s = Some rest ->
              exists pre tl, s = pre ++ AT_SIGN :: tl /\ rest = AT_SIGN :: tl /\ no_at pre = true).
  { induction s as [|x s IH]; intros rest Hs; [discriminate|]. cbn [from_first] in Hs.
    destruct (N.eqb x AT_SIGN) eqn:E.
    - apply N.eqb_eq in E. subst x. inversion Hs; subst. exists [], s. repeat split; reflexivity.
    - destruct (IH rest Hs) as (pre & tl & -> & -> & Hp). exists (x :: pre), tl. repeat split.
      unfold no_at, has_at in *. cbn [existsb]. rewrite N.eqb_sym, E. exact Hp. }
  destruct (from_first AT_SIGN a) as [rest|] eqn:Ef; [|discriminate].
  destruct (G a rest Ef) as (pre & tl & -> & -> & Hp).
  destruct (no_at tl) eqn:Ed; [|discriminate]. inversion H; subst dom loc; clear H.
  rewrite app_length. cbn [length]. replace (length pre + S (length tl) - length tl - 1) with (length pre) by lia.
  rewrite firstn_app, firstn_all, Nat.sub_diag. cbn [firstn]. rewrite app_nil_r. auto.
Qed.

Lemma ci_suffixb_refl_eq e s : ci_eqb e s = true -> ci_suffixb e s = true.
Proof.
  intros H. unfold ci_suffixb. pose proof (ci_eqb_length _ _ H) as L. rewrite L, Nat.leb_refl, Nat.sub_diag. cbn [skipn andb].
  rewrite ci_eqb_sym. exact H.
Qed.

Lemma ci_suffixb_tail c e s : ci_suffixb (c :: e) s = true -> ci_suffixb e s = true.
Proof.
  unfold ci_suffixb. intros H. apply andb_true_iff in H as [H1 H2]. apply Nat.leb_le in H1. cbn [length] in *.
  apply andb_true_iff. split; [apply Nat.leb_le; lia|].
  remember (skipn (length s - S (length e)) s) as t eqn:Et.
  destruct t as [|y t]; [apply ci_eqb_length in H2; discriminate|].
  rewrite ci_eqb_cons in H2. apply andb_true_iff in H2 as [_ H2].
  replace (length s - length e) with (S (length s - S (length e))) by lia.
  assert (skipn (S (length s - S (length e))) s = t) as ->; [|exact H2].
  replace (S (length s - S (length e))) with ((length s - S (length e)) + 1) by lia.
  rewrite <- skipn_skipn'. rewrite <- Et. reflexivity.
Qed.

Lemma skipn_nth_cons (l : bytes) : forall j, j < length l -> skipn j l = nth j l 0%N :: skipn (S j) l.
Proof.
  induction l as [|x l IH]; intros j Hj; [cbn in Hj; lia|].
  destruct j; [reflexivity|]. cbn [skipn nth]. apply IH. cbn in Hj. lia.
Qed.

(** the no-'@' branch of the entry test, in terms of the domain *)
Lemma nat_entry_hit dr loc dom c e :
  no_at loc = true -> no_at dom = true -> has_at (c :: e) = false ->
  (let addr := loc ++ AT_SIGN :: dom in
   let k := length (c :: e) in
   if Nat.ltb k (length addr) then
     ci_eqb (skipn (length addr - k) addr) (c :: e)
     && ((dr && N.eqb c DOT_CH) || N.eqb (nth (length addr - k - 1) addr 0%N) DOT_CH
         || N.eqb (nth (length addr - k - 1) addr 0%N) AT_SIGN)
   else false)
  = ((dr && N.eqb c DOT_CH) && ci_suffixb (c :: e) dom) || ci_eqb (c :: e) dom || ci_suffixb (DOT_CH :: c :: e) dom.
Proof.
  intros Hloc Hdom He. cbv zeta.
  set (en := c :: e) in *. set (k := length en).
  rewrite app_length. cbn [length]. fold k.
  destruct (Nat.leb k (length dom)) eqn:Ek.
  - (* the entry fits into the domain *)
    apply Nat.leb_le in Ek.
    assert (Hlt : Nat.ltb k (length loc + S (length dom)) = true) by (apply Nat.ltb_lt; lia). rewrite Hlt.
    assert (Hsk : skipn (length loc + S (length dom) - k) (loc ++ AT_SIGN :: dom) = skipn (length dom - k) dom).
    { replace (length loc + S (length dom) - k) with (length loc + (S (length dom) - k)) by lia.
      rewrite <- skipn_skipn'. rewrite skipn_app, skipn_all, Nat.sub_diag. cbn [app skipn].
      replace (S (length dom) - k) with (S (length dom - k)) by lia. reflexivity. }
    rewrite Hsk.
    destruct (Nat.eqb k (length dom)) eqn:Ekd.
    + (* exactly the domain *)
      apply Nat.eqb_eq in Ekd.
      replace (length loc + S (length dom) - k - 1) with (length loc) by lia.
      rewrite app_nth2 by lia. rewrite Nat.sub_diag. cbn [nth]. rewrite N.eqb_refl, orb_true_r, andb_true_r.
      rewrite Ekd, Nat.sub_diag. cbn [skipn].
      assert (Hs2 : ci_suffixb (DOT_CH :: en) dom = false).
      { unfold ci_suffixb. cbn [length]. fold k. replace (Nat.leb (S k) (length dom)) with false; [reflexivity|].
        symmetry. apply Nat.leb_gt. lia. }
      rewrite Hs2, orb_false_r.
      unfold ci_suffixb. fold k. rewrite Ekd, Nat.leb_refl, Nat.sub_diag. cbn [skipn andb].
      rewrite (ci_eqb_sym en dom). destruct (ci_eqb dom en); [rewrite orb_true_r|rewrite andb_false_r]; reflexivity.
    + (* a proper suffix of the domain *)
      apply Nat.eqb_neq in Ekd.
      replace (length loc + S (length dom) - k - 1) with (length loc + S (length dom - k - 1)) by lia.
      rewrite app_nth2 by lia. replace (length loc + S (length dom - k - 1) - length loc) with (S (length dom - k - 1)) by lia.
      cbn [nth].
      set (j := length dom - k - 1).
      assert (Hj : j < length dom) by (unfold j; lia).
      assert (Hsplit : skipn j dom = nth j dom 0%N :: skipn (length dom - k) dom).
      { replace (length dom - k) with (S j) by (unfold j; lia). apply skipn_nth_cons. exact Hj. }
      assert (Hnat : N.eqb (nth j dom 0%N) AT_SIGN = false).
      { apply not_true_is_false. intros E. apply N.eqb_eq in E.
        unfold no_at in Hdom. apply negb_true_iff in Hdom. unfold has_at in Hdom.
        assert (existsb (N.eqb AT_SIGN) dom = true); [|congruence].
        apply existsb_exists. exists (nth j dom 0%N). split; [apply nth_In; exact Hj|]. rewrite E. apply N.eqb_refl. }
      rewrite Hnat, orb_false_r.
      assert (He1 : ci_eqb en dom = false) by (apply ci_eqb_len_false; fold k; lia). rewrite He1, orb_false_r.
      unfold ci_suffixb at 2. cbn [length]. fold k.
      replace (Nat.leb (S k) (length dom)) with true by (symmetry; apply Nat.leb_le; lia). cbn [andb].
      replace (length dom - S k) with j by (unfold j; lia). rewrite Hsplit, ci_eqb_cons.
      change (to_lower DOT_CH) with DOT_CH.
      unfold ci_suffixb. fold k. replace (Nat.leb k (length dom)) with true by (symmetry; apply Nat.leb_le; lia). cbn [andb].
      assert (Hd : N.eqb (to_lower (nth j dom 0%N)) DOT_CH = N.eqb (nth j dom 0%N) DOT_CH).
      { destruct (N.eqb (nth j dom 0%N) DOT_CH) eqn:E.
        - apply N.eqb_eq in E. rewrite E. reflexivity.
        - apply not_true_is_false. intros E2. apply N.eqb_eq in E2. apply (proj1 (to_lower_dotc _)) in E2. rewrite E2 in E. discriminate. }
      rewrite Hd.
      destruct (ci_eqb (skipn (length dom - k) dom) en), (dr && N.eqb c DOT_CH), (N.eqb (nth j dom 0%N) DOT_CH); reflexivity.
  - (* the entry is longer than the domain: it cannot match, a suffix of that length contains the '@' *)
    apply Nat.leb_gt in Ek.
    assert (H1 : ci_suffixb en dom = false).
    { unfold ci_suffixb. fold k. replace (Nat.leb k (length dom)) with false; [reflexivity|]. symmetry. apply Nat.leb_gt. lia. }
    assert (H2 : ci_eqb en dom = false) by (apply ci_eqb_len_false; fold k; lia).
    assert (H3 : ci_suffixb (DOT_CH :: en) dom = false).
    { unfold ci_suffixb. cbn [length]. fold k. replace (Nat.leb (S k) (length dom)) with false; [reflexivity|].
      symmetry. apply Nat.leb_gt. lia. }
    rewrite H1, H2, H3, andb_false_r. cbn [orb].
    destruct (Nat.ltb k (length loc + S (length dom))) eqn:Hlt; [|reflexivity].
    apply Nat.ltb_lt in Hlt.
    assert (Hsk : skipn (length loc + S (length dom) - k) (loc ++ AT_SIGN :: dom)
                  = skipn (length loc + S (length dom) - k) loc ++ AT_SIGN :: dom).
    { rewrite skipn_app. replace (length loc + S (length dom) - k - length loc) with 0 by lia. reflexivity. }
    rewrite Hsk.
    assert (Hf : ci_eqb (skipn (length loc + S (length dom) - k) loc ++ AT_SIGN :: dom) en = false).
    { apply not_true_is_false. intros E. apply ci_eqb_has_at in E. rewrite has_at_app in E.
      unfold has_at at 2 in E. cbn [existsb] in E. rewrite N.eqb_refl in E. cbn [orb] in E.
      rewrite orb_true_r in E. rewrite He in E. discriminate. }
    rewrite Hf. reflexivity.
Qed.

Lemma has_at_head c e : N.eqb c AT_SIGN = false -> has_at (c :: e) = has_at e.
Proof. intros H. unfold has_at. cbn [existsb]. rewrite N.eqb_sym, H. reflexivity. Qed.

(** the entry test of lookupbmf (badmailfrom.c) is the documented meaning of the entry *)
Lemma bmf_entry_doc loc dom e :
  no_at loc = true -> no_at dom = true ->
  bmf_entry_hit true (loc ++ AT_SIGN :: dom) (Some (AT_SIGN :: dom)) e = doc_bmf_match loc dom e.
Proof.
  intros Hloc Hdom. destruct e as [|c e]; [reflexivity|].
  unfold bmf_entry_hit, doc_bmf_match.
  destruct (N.eqb c AT_SIGN) eqn:Ec.
  - apply N.eqb_eq in Ec. subst c. rewrite ci_eqb_cons. change (to_lower AT_SIGN) with AT_SIGN. rewrite N.eqb_refl. reflexivity.
  - destruct (has_at (c :: e)) eqn:Eh; cbn [negb].
    + reflexivity.
    + pose proof (nat_entry_hit true loc dom c e Hloc Hdom Eh) as Hn. cbv zeta in Hn |- *. rewrite Hn. cbn [andb].
      destruct (N.eqb c DOT_CH) eqn:Ed.
      * destruct (ci_suffixb (c :: e) dom) eqn:E1; [reflexivity|]. cbn [orb].
        destruct (ci_eqb (c :: e) dom) eqn:E2; [apply ci_suffixb_refl_eq in E2; congruence|]. cbn [orb].
        destruct (ci_suffixb (DOT_CH :: c :: e) dom) eqn:E3; [apply ci_suffixb_tail in E3; congruence|]. reflexivity.
      * reflexivity.
Qed.

(** the entry test of badcc.c *)
Lemma cc_entry_doc loc dom e :
  no_at loc = true -> no_at dom = true ->
  bmf_entry_hit false (loc ++ AT_SIGN :: dom) (Some (AT_SIGN :: dom)) e = doc_cc_match loc dom e.
Proof.
  intros Hloc Hdom. destruct e as [|c e]; [reflexivity|].
  unfold bmf_entry_hit, doc_cc_match.
  destruct (N.eqb c AT_SIGN) eqn:Ec.
  - apply N.eqb_eq in Ec. subst c. rewrite ci_eqb_cons. change (to_lower AT_SIGN) with AT_SIGN. rewrite N.eqb_refl. reflexivity.
  - destruct (has_at (c :: e)) eqn:Eh; cbn [negb].
    + reflexivity.
    + pose proof (nat_entry_hit false loc dom c e Hloc Hdom Eh) as Hn. cbv zeta in Hn |- *. rewrite Hn. reflexivity.
Qed.

Lemma lookupbmf_doc a loc dom bad : split_addr a = Some (loc, dom) ->
  lookupbmf a (from_first AT_SIGN a) bad = existsb (doc_bmf_match loc dom) bad.
Proof.
  intros H. destruct (split_addr_shape _ _ _ H) as (-> & Hl & Hd). rewrite (from_first_split loc dom Hl).
  unfold lookupbmf. induction bad as [|e bad IH]; [reflexivity|]. cbn [existsb]. rewrite IH, (bmf_entry_doc loc dom e Hl Hd). reflexivity.
Qed.

Lemma badcc_hit_doc a loc dom l : split_addr a = Some (loc, dom) ->
  badcc_rcpt_hit l a = existsb (doc_cc_match loc dom) l.
Proof.
  intros H. destruct (split_addr_shape _ _ _ H) as (-> & Hl & Hd). unfold badcc_rcpt_hit. rewrite (from_first_split loc dom Hl).
  induction l as [|e l IH]; [reflexivity|]. cbn [existsb]. rewrite IH, (cc_entry_doc loc dom e Hl Hd). reflexivity.
Qed.

(* ------------------------------------------------------------------------------------------------ *)
(** * B. the filters *)

Definition same_obs (o : fout) (d : dout) : Prop := obs_of_fout o = obs_of_dout d.

Lemma same_plain s r t : same_obs (plain s r t) (dplain s r t).
Proof. reflexivity. Qed.

(** ** badmailfrom *)
Lemma badmailfrom_doc s fs d : doc_badmailfrom s fs = Some d ->
  exists o, cb_badmailfrom s fs = Some o /\ same_obs o d.
Proof.
  unfold doc_badmailfrom, cb_badmailfrom. intros H.
  destruct (r_mailfrom s) as [|c mf] eqn:Em.
  - inversion H; subst d. eexists. split; [reflexivity|apply same_plain].
  - destruct (split_addr (c :: mf)) as [[loc dom]|] eqn:Es; [|discriminate].
    destruct (userconf_get_buffer (r_userdir s) fs KEY_BADMAILFROM CfNone true true) as [| | |t bad]; try discriminate;
      try (inversion H; subst d; eexists; split; [reflexivity|apply same_plain]).
    rewrite (lookupbmf_doc _ _ _ bad Es).
    destruct (existsb (doc_bmf_match loc dom) bad); cbn [negb] in *.
    + destruct (userconf_get_buffer (r_userdir s) fs KEY_GOODMAILFROM CfCheckaddr true false) as [| | |u good]; try discriminate;
        try (inversion H; subst d; eexists; split; [reflexivity|apply same_plain]).
      rewrite (lookupbmf_doc _ _ _ good Es).
      destruct (existsb (doc_bmf_match loc dom) good); inversion H; subst d; eexists; (split; [reflexivity|apply same_plain]).
    + inversion H; subst d. eexists. split; [reflexivity|apply same_plain].
Qed.

(** ** helo *)
Lemma land_bit (v : Z) (n : Z) : (0 <= n)%Z -> Z.eqb (Z.land (Z.shiftl 1 n) v) 0 = negb (Z.testbit v n).
Proof.
  intros Hn. rewrite Z.shiftl_1_l.
  assert (E : Z.land (2 ^ n) v = if Z.testbit v n then (2 ^ n)%Z else 0%Z).
  { apply Z.bits_inj'. intros i Hi. rewrite Z.land_spec, (Z.pow2_bits_eqb n i Hn).
    destruct (Z.eqb n i) eqn:Eni.
    - apply Z.eqb_eq in Eni. subst i. cbn [andb]. destruct (Z.testbit v n); [|symmetry; apply Z.bits_0].
      rewrite (Z.pow2_bits_eqb n n Hn), Z.eqb_refl. reflexivity.
    - cbn [andb]. destruct (Z.testbit v n); [|symmetry; apply Z.bits_0].
      rewrite (Z.pow2_bits_eqb n i Hn), Eni. reflexivity. }
  rewrite E. destruct (Z.testbit v n); cbn [negb]; [|reflexivity].
  apply Z.eqb_neq. assert (0 < 2 ^ n)%Z by (apply Z.pow_pos_nonneg; lia). lia.
Qed.

Lemma level_says_on_pos cfg key v : level_says cfg key = On v -> (0 < v)%Z.
Proof. intros H. pose proof (checkconfig_says cfg key) as R. rewrite H in R. destruct R as [_ [R _]]. exact R. Qed.

Lemma doc_value_sign global uc dc gc key v o : doc_value global uc dc gc key = Some (v, o) -> (0 <= v)%Z.
Proof.
  unfold doc_value, doc_setting. intros H.
  destruct (level_says uc key) as [|vu| |] eqn:Eu; try discriminate.
  - destruct (level_says dc key) as [|vd| |] eqn:Ed; try discriminate.
    + destruct global.
      * destruct (level_says gc key) as [|vg| |] eqn:Eg; try discriminate; inversion H; subst; try lia.
        apply level_says_on_pos in Eg. lia.
      * inversion H; subst. lia.
    + inversion H; subst. apply level_says_on_pos in Ed. lia.
    + inversion H; subst. lia.
  - inversion H; subst. apply level_says_on_pos in Eu. lia.
  - inversion H; subst. lia.
Qed.

(** the model's getsettingglobal() against the documented value *)
Lemma global_value_doc uc dc gc key v o : doc_value true uc dc gc key = Some (v, o) ->
  setting_value (getsettingglobal uc dc gc key) = v /\ ((0 < v)%Z -> setting_type (getsettingglobal uc dc gc key) = origin_code o).
Proof. intros H. pose proof (getsettingglobal_doc uc dc gc key) as M. unfold doc_value in H. rewrite H in M. exact M. Qed.

Lemma nul_free_forall l : has_nul l = false -> Forall (fun x => x <> 0%N) l.
Proof.
  unfold has_nul. induction l as [|x l IH]; intros H; [constructor|]. cbn [existsb] in H. apply orb_false_iff in H as [H1 H2].
  constructor; [|apply IH; exact H2]. intros E. subst x. discriminate.
Qed.

Lemma finddomain_o_spec buf dom : has_nul dom = false -> finddomain_o buf dom = Some (fd_spec buf dom).
Proof.
  intros H. unfold finddomain_o. rewrite finddomain_correct. rewrite (cstr_id dom (nul_free_forall _ H)). reflexivity.
Qed.

Lemma getfile_some_type ud dd fs name g t c : getfile ud dd fs name g = (t, Some c) -> Z.eqb t CONFIG_NONE = false.
Proof.
  unfold getfile. intros H.
  destruct (if ud then fs_find fs 0 name else None); [inversion H; subst; reflexivity|].
  destruct dd.
  - destruct (fs_find fs 1 name); [inversion H; subst; reflexivity|].
    destruct g; inversion H; subst; reflexivity.
  - destruct g; [inversion H; subst; reflexivity|]. destruct ud; inversion H.
Qed.

Lemma helo_doc s fs uc dc gc d : has_nul (r_helo s) = false -> doc_helo s fs uc dc gc = Some d ->
  exists o, cb_helo s fs uc dc gc = Some o /\ same_obs o d.
Proof.
  unfold doc_helo, cb_helo. intros Hn H.
  destruct (doc_value true uc dc gc KEY_HELOVALID) as [[v o]|] eqn:Ev; [|discriminate].
  destruct (global_value_doc _ _ _ _ _ _ Ev) as [Hv Ht]. cbv zeta. rewrite Hv.
  rewrite (land_bit v (Z.of_N (r_helostatus s))) by lia. rewrite negb_involutive.
  destruct (negb (N.eqb (r_helostatus s) 0) && Z.testbit v (Z.of_N (r_helostatus s))) eqn:Eb.
  - inversion H; subst d. eexists. split; [reflexivity|].
    assert (Hpos : (0 < v)%Z).
    { apply andb_true_iff in Eb as [_ Eb]. pose proof (doc_value_sign _ _ _ _ _ _ _ Ev) as Hs.
      destruct (Z.eq_dec v 0) as [->|]; [rewrite Z.bits_0 in Eb; discriminate|lia]. }
    unfold same_obs, obs_of_fout, obs_of_dout, plain, dplain. cbn. rewrite (Ht Hpos). reflexivity.
  - unfold userconf_find_domain.
    destruct (getfile (r_userdir s) true fs KEY_BADHELO true) as [t [buf|]] eqn:Eg.
    + rewrite (finddomain_o_spec buf _ Hn).
      destruct (fd_spec buf (r_helo s)); inversion H; subst d.
      * eexists. split; [|apply same_plain]. rewrite (getfile_some_type _ _ _ _ _ _ _ Eg). reflexivity.
      * consts. rewrite Z.eqb_refl. eexists. split; reflexivity.
    + inversion H; subst d. consts. rewrite Z.eqb_refl. eexists. split; reflexivity.
Qed.

(** ** ipbl *)
Definition fs_ok (fs : fsys) : Prop := Forall (fun f => bytes_ok (snd f)) fs.

Lemma fs_find_ok fs lvl name c : fs_ok fs -> fs_find fs lvl name = Some c -> bytes_ok c.
Proof.
  induction fs as [|[[l n] x] fs IH]; intros Hok H; [discriminate|]. inversion Hok as [|? ? Hx Hrest]; subst.
  cbn [fs_find] in H. destruct (N.eqb l lvl && bytes_eqb n name); [inversion H; subst; exact Hx|apply IH; assumption].
Qed.

Lemma getfile_ok ud dd fs name g t c : fs_ok fs -> getfile ud dd fs name g = (t, Some c) -> bytes_ok c.
Proof.
  unfold getfile. intros Hok H.
  destruct (if ud then fs_find fs 0 name else None) as [c0|] eqn:E0.
  - inversion H; subst. destruct ud; [apply (fs_find_ok _ _ _ _ Hok E0)|discriminate].
  - destruct dd.
    + destruct (fs_find fs 1 name) as [c1|] eqn:E1; [inversion H; subst; apply (fs_find_ok _ _ _ _ Hok E1)|].
      destruct g; inversion H as [[Ht Hc]]; subst. apply (fs_find_ok _ _ _ _ Hok Hc).
    + destruct g; [inversion H as [[Ht Hc]]; apply (fs_find_ok _ _ _ _ Hok Hc)|]. destruct ud; inversion H.
Qed.

Lemma lookupipbl_doc ipv4 ip buf : length ip = 16 -> bytes_ok ip -> bytes_ok buf ->
  lookupipbl ipv4 ip buf = Some (doc_listed ipv4 ip buf).
Proof.
  intros Hl Hip Hb. unfold lookupipbl, doc_listed. destruct buf as [|b buf]; [reflexivity|].
  destruct ipv4; [rewrite (check_ip4_correct ip (b :: buf) Hl Hip Hb)|rewrite (check_ip6_correct ip (b :: buf) Hl Hip Hb)]; reflexivity.
Qed.

Lemma ipbl_doc s fs d : length (r_ip s) = 16 -> bytes_ok (r_ip s) -> fs_ok fs -> doc_ipbl s fs = Some d ->
  exists o, cb_ipbl s fs = Some o /\ same_obs o d.
Proof.
  unfold doc_ipbl, cb_ipbl. intros Hl Hip Hfs H. cbv zeta in *.
  destruct (getfile (r_userdir s) true fs (if r_ipv4 s then NAME_IPBL else NAME_IPBL ++ SUFFIX_V6) true) as [t [bl|]] eqn:Eb.
  - rewrite (lookupipbl_doc _ _ bl Hl Hip (getfile_ok _ _ _ _ _ _ _ Hfs Eb)).
    destruct (Z.eqb (doc_listed (r_ipv4 s) (r_ip s) bl) 1) eqn:E1.
    + apply Z.eqb_eq in E1. rewrite E1. change (0 <? 1)%Z with true. cbv iota.
      destruct (getfile (r_userdir s) true fs (if r_ipv4 s then NAME_IPWL else NAME_IPWL ++ SUFFIX_V6) true) as [u [wl|]] eqn:Ew.
      * rewrite (lookupipbl_doc _ _ wl Hl Hip (getfile_ok _ _ _ _ _ _ _ Hfs Ew)).
        destruct (Z.eqb (doc_listed (r_ipv4 s) (r_ip s) wl) 0); inversion H; subst d; eexists; (split; [reflexivity|apply same_plain]).
      * inversion H; subst d. eexists. split; [reflexivity|apply same_plain].
    + inversion H; subst d.
      assert (Hv : doc_listed (r_ipv4 s) (r_ip s) bl = 0%Z \/ doc_listed (r_ipv4 s) (r_ip s) bl = (-1)%Z).
      { apply Z.eqb_neq in E1. revert E1. unfold doc_listed. destruct bl; [auto|].
        unfold ipbl_file_spec, ipbl_spec.
        destruct (r_ipv4 s);
          repeat match goal with |- context [if ?c then _ else _] => destruct c end; intros; auto; congruence. }
      destruct Hv as [-> | ->]; eexists; (split; [reflexivity|apply same_plain]).
  - inversion H; subst d. eexists. split; [reflexivity|apply same_plain].
Qed.

(** ** soberg *)
Lemma from_last_app c a b t : from_last c b = Some t -> from_last c (a ++ b) = Some t.
Proof. intros H. induction a as [|x a IH]; [exact H|]. cbn [app from_last]. rewrite IH. reflexivity. Qed.

Lemma lower_app' a b : lower (a ++ b) = lower a ++ lower b.
Proof. unfold lower. apply map_app. Qed.

Lemma ci_split helo loc x tail :
  ci_prefix_eqb helo (loc ++ x) (length loc) && ci_eqb (skipn (length loc) helo) tail = ci_eqb helo (loc ++ tail).
Proof.
  unfold ci_prefix_eqb. rewrite (firstn_app (length loc) loc x), firstn_all, Nat.sub_diag. cbn [firstn]. rewrite app_nil_r.
  destruct (ci_eqb helo (loc ++ tail)) eqn:E.
  - apply ci_eqb_iff in E. rewrite lower_app' in E.
    assert (E1 : lower (firstn (length loc) helo) = lower loc).
    { unfold lower in *. rewrite <- firstn_map, E, firstn_app, map_length, Nat.sub_diag. cbn [firstn].
      rewrite app_nil_r. rewrite <- (map_length to_lower loc) at 1. apply firstn_all. }
    assert (E2 : lower (skipn (length loc) helo) = lower tail).
    { unfold lower in *. rewrite <- skipn_map, E, skipn_app, map_length, Nat.sub_diag. cbn [skipn].
      rewrite <- (map_length to_lower loc) at 1. rewrite skipn_all. reflexivity. }
    apply ci_eqb_iff in E1. apply ci_eqb_iff in E2. rewrite E1, E2. reflexivity.
  - destruct (ci_eqb (firstn (length loc) helo) loc) eqn:E1; [|reflexivity].
    destruct (ci_eqb (skipn (length loc) helo) tail) eqn:E2; [|reflexivity].
    apply ci_eqb_iff in E1. apply ci_eqb_iff in E2.
    assert (ci_eqb helo (loc ++ tail) = true); [|congruence].
    apply ci_eqb_iff. rewrite lower_app', <- E1, <- E2, <- lower_app', firstn_skipn. reflexivity.
Qed.

Lemma soberg_doc s uc dc gc d : doc_soberg s uc dc gc = Some d ->
  exists o, cb_soberg s uc dc gc = Some o /\ same_obs o d.
Proof.
  unfold doc_soberg, cb_soberg. intros H.
  destruct (r_mailfrom s) as [|c mf] eqn:Em.
  - inversion H; subst d. eexists. split; [reflexivity|apply same_plain].
  - destruct (doc_value true uc dc gc KEY_SOBERG) as [[v o]|] eqn:Ev; [|discriminate].
    destruct (split_addr (c :: mf)) as [[loc dom]|] eqn:Es; [|discriminate].
    destruct (global_value_doc _ _ _ _ _ _ Ev) as [Hv Ht]. cbv zeta. rewrite Hv.
    destruct (v <=? 0)%Z eqn:Ele.
    + inversion H; subst d. eexists. split; reflexivity.
    + apply Z.leb_gt in Ele. rewrite (Ht Ele).
      destruct (split_addr_shape _ _ _ Es) as (Ea & Hl & Hd). rewrite Ea. rewrite (from_first_split loc dom Hl).
      destruct (from_last DOT_CH dom) as [tld|] eqn:El; [|discriminate].
      assert (Hlast : from_last DOT_CH (loc ++ AT_SIGN :: dom) = Some tld).
      { apply from_last_app. cbn [from_last]. rewrite El. reflexivity. }
      rewrite Hlast. rewrite app_length. cbn [length]. replace (length loc + S (length dom) - S (length dom)) with (length loc) by lia.
      rewrite <- (ci_split (r_helo s) loc (AT_SIGN :: dom) tld) in H.
      destruct (ci_prefix_eqb (r_helo s) (loc ++ AT_SIGN :: dom) (length loc)); cbn [negb andb] in *.
      * destruct (ci_eqb (skipn (length loc) (r_helo s)) tld); inversion H; subst d; eexists; (split; reflexivity).
      * inversion H; subst d. eexists. split; reflexivity.
Qed.

(** ** check2822 *)
Lemma check2822_doc s uc dc gc d : doc_check2822 s uc dc gc = Some d ->
  exists o, cb_check2822 s uc dc gc = Some o /\ same_obs o d.
Proof.
  unfold doc_check2822, cb_check2822. intros H.
  destruct (N.eqb (r_check2822 s) 0); [inversion H; subst d; eexists; split; reflexivity|].
  destruct (doc_value true uc dc gc KEY_CHECK2822) as [[v o]|] eqn:Ev; [|discriminate].
  destruct (global_value_doc _ _ _ _ _ _ Ev) as [Hv _]. cbv zeta. rewrite Hv.
  inversion H; subst d. destruct (Z.eqb v 0); eexists; split; reflexivity.
Qed.

(** the flag over the recipients of one mail: it starts at 2 ("no decision yet"; any non-zero value) and ends as 1
    exactly when every recipient has enabled the check, as 0 as soon as one has not *)
Fixpoint check2822_fold (flag : N) (enabled : list bool) : N :=
  match enabled with
  | [] => flag
  | e :: rest => check2822_fold (if N.eqb flag 0 then 0 else if e then 1 else 0)%N rest
  end.

Lemma check2822_fold_zero l : check2822_fold 0 l = 0%N.
Proof. induction l as [|e l IH]; [reflexivity|]. cbn. exact IH. Qed.

Lemma check2822_all flag l : flag <> 0%N -> l <> [] ->
  check2822_fold flag l = if forallb (fun e => e) l then 1%N else 0%N.
Proof.
  revert flag. induction l as [|e l IH]; intros flag Hf Hl; [contradiction|].
  cbn [check2822_fold forallb]. destruct (N.eqb flag 0) eqn:E; [apply N.eqb_eq in E; contradiction|].
  destruct e; cbn [andb].
  - destruct l as [|e2 l]; [reflexivity|]. apply IH; [discriminate|discriminate].
  - apply check2822_fold_zero.
Qed.

(** ** nomail *)
Lemma nomail_code_doc m : nomail_has_code m = doc_code_ok m.
Proof.
  unfold nomail_has_code, doc_code_ok.
  do 11 (destruct m as [|? m]; [reflexivity|]).
  cbn [length nth]. replace (Nat.ltb 10 (S (S (S (S (S (S (S (S (S (S (S (length m))))))))))))) with true by reflexivity.
  cbn [andb].
  repeat match goal with |- context [N.eqb ?a ?b] => destruct (N.eqb a b) end;
  repeat match goal with |- context [is_digit ?a] => destruct (is_digit a) end; reflexivity.
Qed.

Lemma nomail_doc s fs d : doc_nomail s fs = Some d -> exists o, cb_nomail s fs = Some o /\ same_obs o d.
Proof.
  unfold doc_nomail, cb_nomail. intros H.
  destruct (getfile (r_userdir s) true fs NAME_NOMAIL false) as [t [content|]].
  - destruct (loadoneliner content) as [[[line|]|]| |]; try discriminate.
    + cbv zeta in *. rewrite nomail_code_doc. inversion H; subst d. eexists. split; reflexivity.
    + inversion H; subst d. eexists. split; reflexivity.
    + inversion H; subst d. eexists. split; reflexivity.
  - inversion H; subst d. eexists. split; reflexivity.
Qed.

(** ** badcc *)
Lemma badcc_any_doc a others b : doc_any_listed a others = Some b -> existsb (badcc_rcpt_hit a) others = b.
Proof.
  revert b. induction others as [|r rest IH]; intros b H; cbn in *; [inversion H; reflexivity|].
  unfold doc_rcpt_listed in H. destruct (split_addr r) as [[loc dom]|] eqn:Es; [|discriminate].
  destruct (doc_any_listed a rest) as [y|]; [|discriminate]. inversion H; subst b.
  rewrite (badcc_hit_doc r loc dom a Es), (IH y eq_refl). reflexivity.
Qed.

Lemma badcc_doc s fs d : doc_badcc s fs = Some d -> exists o, cb_badcc s fs = Some o /\ same_obs o d.
Proof.
  unfold doc_badcc, cb_badcc. intros H.
  destruct (r_rcpts s) as [|r others]; [inversion H; subst d; eexists; split; reflexivity|].
  destruct (userconf_get_buffer (r_userdir s) fs KEY_BADCC CfCheckaddr true false) as [| | |t a]; try discriminate;
    try (inversion H; subst d; eexists; split; reflexivity).
  destruct (doc_any_listed a (r :: others)) as [b|] eqn:E; [|discriminate].
  rewrite (badcc_any_doc a (r :: others) b E).
  destruct b; inversion H; subst d; eexists; split; reflexivity.
Qed.

(** ** forceesmtp: check_rbl against the oracle answers of the usable list names *)
Lemma check_rbl_doc l a : forall dns i again calls,
  rbl_outcome (fst (fst (check_rbl l a dns i again calls))) =
  rbl_outcome (doc_rbl (take_answers (length (usable_names l a)) dns) again).
Proof.
  induction a as [|e a IH]; intros dns i again calls.
  - cbn. destruct again; reflexivity.
  - cbn [check_rbl usable_names filter].
    destruct (Nat.leb (256 - l) (length e)) eqn:El.
    + assert (Nat.ltb (length e) (256 - l) = false) as -> by (apply Nat.ltb_ge; apply Nat.leb_le in El; exact El).
      apply IH.
    + assert (Nat.ltb (length e) (256 - l) = true) as -> by (apply Nat.ltb_lt; apply Nat.leb_gt in El; exact El).
      cbn [length take_answers].
      destruct dns as [|ans dns'].
      * change (N.eqb 0 DNS_LOCAL) with false. change (N.eqb 0 DNS_TEMP) with false. cbn [doc_rbl].
        change (N.eqb 0 DNS_LOCAL) with false. change (N.eqb 0 DNS_TEMP) with false.
        change (N.eqb 0 DNS_PERM || N.eqb 0 0 || N.ltb 240 0) with true. cbv iota. apply IH.
      * cbn [doc_rbl].
        destruct (N.eqb ans DNS_LOCAL); [reflexivity|].
        destruct (N.eqb ans DNS_TEMP); [apply IH|].
        destruct (N.eqb ans DNS_PERM || N.eqb ans 0 || N.ltb 240 ans); [apply IH|reflexivity].
Qed.

Lemma forceesmtp_doc s fs d : doc_forceesmtp s fs = Some d -> exists o, cb_forceesmtp s fs = Some o /\ same_obs o d.
Proof.
  unfold doc_forceesmtp, cb_forceesmtp. intros H.
  destruct (r_esmtp s); [inversion H; subst d; eexists; split; reflexivity|]. cbv zeta in *.
  destruct (userconf_get_buffer (r_userdir s) fs (if r_ipv4 s then NAME_FORCEESMTP else NAME_FORCEESMTP ++ SUFFIX_V6)
              CfDomainvalid true false) as [| | |t a]; try discriminate;
    try (inversion H; subst d; eexists; split; reflexivity).
  pose proof (check_rbl_doc (rbl_prefix_len (r_ipv4 s) (r_ip s)) a (r_dns s) 0 false 0) as R.
  destruct (check_rbl (rbl_prefix_len (r_ipv4 s) (r_ip s)) a (r_dns s) 0 false 0) as [[r rest] calls]. cbn [fst] in R.
  inversion H; subst d. eexists. split; [reflexivity|].
  unfold same_obs, obs_of_fout, obs_of_dout, dplain. cbn [o_res o_type o_reply o_check2822 d_res d_type d_reply d_check2822].
  rewrite <- R. destruct r; reflexivity.
Qed.

(** ** dnsbl *)
Definition walk_of_rbl (i : nat) (a : list bytes) (r : rblres) : walkres :=
  match r with RblHit j => WHit (nth (j - i) a []) | RblNone => WNone | RblAgain => WAgain | RblLocal => WLocal end.

Lemma check_rbl_walk l a : forall dns i again calls,
  (match fst (fst (check_rbl l a dns i again calls)) with RblHit j => i <= j | _ => True end) /\
  doc_walk (usable_names l a) dns again =
    (walk_of_rbl i a (fst (fst (check_rbl l a dns i again calls))), snd (fst (check_rbl l a dns i again calls))).
Proof.
  induction a as [|e a IH]; intros dns i again calls.
  - cbn. destruct again; split; auto.
  - cbn [check_rbl]. unfold usable_names. cbn [filter]. fold (usable_names l a).
    destruct (Nat.leb (256 - l) (length e)) eqn:El.
    + assert (Nat.ltb (length e) (256 - l) = false) as -> by (apply Nat.ltb_ge; apply Nat.leb_le in El; exact El).
      destruct (IH dns (S i) again calls) as [H1 H2]. rewrite H2.
      destruct (fst (fst (check_rbl l a dns (S i) again calls))) as [j| | |] eqn:Er; split; auto; try lia.
      cbn [walk_of_rbl]. replace (j - i) with (S (j - S i)) by lia. reflexivity.
    + assert (Nat.ltb (length e) (256 - l) = true) as -> by (apply Nat.ltb_lt; apply Nat.leb_gt in El; exact El).
      cbn [doc_walk].
      destruct (match dns with [] => (0%N, []) | a0 :: d => (a0, d) end) as [ans dns'] eqn:Ed.
      destruct (N.eqb ans DNS_LOCAL); [cbn; split; auto|].
      assert (Hrec : forall ag,
        (match fst (fst (check_rbl l a dns' (S i) ag (S calls))) with RblHit j => i <= j | _ => True end) /\
        doc_walk (usable_names l a) dns' ag =
          (walk_of_rbl i (e :: a) (fst (fst (check_rbl l a dns' (S i) ag (S calls)))), snd (fst (check_rbl l a dns' (S i) ag (S calls))))).
      { intros ag. destruct (IH dns' (S i) ag (S calls)) as [H1 H2]. rewrite H2.
        destruct (fst (fst (check_rbl l a dns' (S i) ag (S calls)))) as [j| | |] eqn:Er; split; auto; try lia.
        cbn [walk_of_rbl]. replace (j - i) with (S (j - S i)) by lia. reflexivity. }
      destruct (N.eqb ans DNS_TEMP); [apply Hrec|].
      destruct (N.eqb ans DNS_PERM || N.eqb ans 0 || N.ltb 240 ans); [apply Hrec|].
      cbn [fst snd walk_of_rbl]. rewrite Nat.sub_diag. cbn [nth]. split; [lia|reflexivity].
Qed.

(** THE obligation of finding F-C12-4: the "whitelisted by" log line of cb_dnsbl names c[j] *)
Lemma dnsbl_log_index : DNSBL_LOG_WHITELIST_BY_J = true.
Proof. reflexivity. Qed.

Lemma dnsbl_doc s fs d : doc_dnsbl s fs = Some d -> exists o, cb_dnsbl s fs = Some o /\ same_obs o d.
Proof.
  unfold doc_dnsbl, cb_dnsbl, cb_dnsbl_gen. rewrite dnsbl_log_index. cbv zeta. intros H.
  set (l := rbl_prefix_len (r_ipv4 s) (r_ip s)) in *.
  destruct (userconf_get_buffer (r_userdir s) fs (if r_ipv4 s then NAME_DNSBL else NAME_DNSBL ++ SUFFIX_V6) CfDomainOrInherit true true)
    as [| | |t a]; try discriminate; try (inversion H; subst d; eexists; split; reflexivity).
  destruct (check_rbl_walk l a (r_dns s) 0 false 0) as [_ W]. rewrite W in H.
  destruct (check_rbl l a (r_dns s) 0 false 0) as [[r dns'] calls]. cbn [fst snd] in H.
  destruct r as [i| | |]; cbn [walk_of_rbl] in H; try (inversion H; subst d; eexists; split; reflexivity).
  rewrite Nat.sub_0_r in H.
  destruct (userconf_get_buffer (r_userdir s) fs (if r_ipv4 s then NAME_WHITEDNSBL else NAME_WHITEDNSBL ++ SUFFIX_V6) CfDomainvalid false false)
    as [| | |u c]; try discriminate; try (inversion H; subst d; eexists; split; reflexivity).
  destruct (check_rbl_walk l c dns' 0 false calls) as [_ W2]. rewrite W2 in H.
  destruct (check_rbl l c dns' 0 false calls) as [[r2 dns2] calls2]. cbn [fst snd] in H.
  destruct r2 as [j| | |]; cbn [walk_of_rbl orb] in H |- *; inversion H; subst d; eexists; split; reflexivity.
Qed.

(** ** namebl *)
Lemma doc_walk_app xs : forall ys dns again,
  doc_walk (xs ++ ys) dns again =
    match doc_walk xs dns again with
    | (WNone, d') => doc_walk ys d' false
    | (WAgain, d') => doc_walk ys d' true
    | r => r
    end.
Proof.
  induction xs as [|x xs IH]; intros ys dns again.
  - cbn. destruct again; reflexivity.
  - cbn [app doc_walk].
    destruct (match dns with [] => (0%N, []) | x0 :: d => (x0, d) end) as [a dns'].
    destruct (N.eqb a DNS_LOCAL); [reflexivity|].
    destruct (N.eqb a DNS_TEMP); [apply IH|].
    destruct (N.eqb a DNS_PERM || N.eqb a 0 || N.ltb 240 a); [apply IH|reflexivity].
Qed.

Definition walk_of_nbl (e : bytes) (r : nblres) : walkres :=
  match r with NblHit => WHit e | NblLocal => WLocal | NblGoOn true => WAgain | NblGoOn false => WNone end.

Lemma namebl_inner_walk e ds : forall dns temp calls,
  doc_walk (map (fun _ => e) (filter (fun d => Nat.ltb (length d + S (length e)) 256) ds)) dns temp =
    (walk_of_nbl e (fst (fst (namebl_inner (S (length e)) ds dns temp calls))),
     snd (fst (namebl_inner (S (length e)) ds dns temp calls))).
Proof.
  induction ds as [|d ds IH]; intros dns temp calls.
  - cbn. destruct temp; reflexivity.
  - cbn [filter namebl_inner]. destruct (Nat.ltb (length d + S (length e)) 256); [|apply IH].
    cbn [map doc_walk].
    destruct (match dns with [] => (0%N, []) | x :: d0 => (x, d0) end) as [a dns'].
    destruct (N.eqb a DNS_LOCAL); [reflexivity|].
    destruct (N.eqb a DNS_TEMP); [apply IH|].
    destruct (N.eqb a DNS_PERM || N.eqb a 0 || N.ltb 240 a); [apply IH|reflexivity].
Qed.

Lemma namebl_outer_walk dom a : forall dns temp calls,
  fst (doc_walk (namebl_queries a dom) dns temp) =
    walk_of_nbl (snd (fst (namebl_outer a (dom :: tails_after_dot dom) dns temp calls)))
                (fst (fst (namebl_outer a (dom :: tails_after_dot dom) dns temp calls))).
Proof.
  induction a as [|e a IH]; intros dns temp calls.
  - cbn. destruct temp; reflexivity.
  - unfold namebl_queries. cbn [flat_map]. fold (namebl_queries a dom). rewrite doc_walk_app.
    rewrite (namebl_inner_walk e (dom :: tails_after_dot dom) dns temp calls). cbn [namebl_outer].
    destruct (namebl_inner (S (length e)) (dom :: tails_after_dot dom) dns temp calls) as [[r dns'] c]. cbn [fst snd].
    destruct r as [| |t']; cbn [walk_of_nbl fst snd]; try reflexivity.
    destruct t'; apply IH.
Qed.

(** THE obligation of finding F-C12-5: cb_namebl does not index blocktype[] with what an earlier filter left in *t *)
Lemma namebl_blocktype_late : NAMEBL_BLOCKTYPE_ON_ENTRY = false.
Proof. reflexivity. Qed.

Lemma namebl_doc s fs d : doc_namebl s fs = Some d -> exists o, cb_namebl s fs = Some o /\ same_obs o d.
Proof.
  unfold doc_namebl, cb_namebl, cb_namebl_gen. rewrite namebl_blocktype_late. cbn [andb]. intros H.
  destruct (r_mailfrom s) as [|c mf] eqn:Em; [inversion H; subst d; eexists; split; reflexivity|].
  destruct (split_addr (c :: mf)) as [[loc dom]|] eqn:Es; [|discriminate].
  destruct (userconf_get_buffer (r_userdir s) fs NAME_NAMEBL CfDomainOrInherit true true) as [| | |t a];
    try discriminate; try (inversion H; subst d; eexists; split; reflexivity).
  destruct (split_addr_shape _ _ _ Es) as (Ea & Hl & Hd). rewrite Ea, (from_first_split loc dom Hl).
  change (skipn 1 (AT_SIGN :: dom)) with dom. cbv zeta.
  pose proof (namebl_outer_walk dom a (r_dns s) false 0) as W.
  destruct (doc_walk (namebl_queries a dom) (r_dns s) false) as [w wd]. cbn [fst] in W.
  match goal with |- context [namebl_outer ?a1 ?a2 ?a3 ?a4 ?a5] =>
    change (namebl_outer a1 a2 a3 a4 a5) with (namebl_outer a (dom :: tails_after_dot dom) (r_dns s) false 0) end.
  destruct (namebl_outer a (dom :: tails_after_dot dom) (r_dns s) false 0) as [[r hit] calls]. cbn [fst snd] in W.
  subst w. destruct r as [| |t']; cbn [walk_of_nbl] in H; try (inversion H; subst d; eexists; split; reflexivity).
  destruct t'; inversion H; subst d; eexists; split; reflexivity.
Qed.

(** ** fromdomain *)
Lemma bit_set_testbit u n : (0 <= n)%Z -> bit_set u (Z.shiftl 1 n) = Z.testbit u n.
Proof. intros Hn. unfold bit_set. rewrite Z.land_comm, (land_bit u n Hn). apply negb_involutive. Qed.

Definition nets_okb (alen : nat) (bits : N) (nets : list (bytes * N)) : bool :=
  forallb (fun nl => Nat.leb alen (length (fst nl)) && bytes_okb (fst nl) && N.leb (snd nl) bits) nets.

Lemma fd_nets_ok : nets_okb 4 32 FD_NETS4 = true /\ nets_okb 16 128 FD_NETS6 = true.
Proof. split; reflexivity. Qed.

Lemma any_net4_doc a nets : length a = 16 -> bytes_ok a -> nets_okb 4 32 nets = true ->
  any_net ip4_matchnet a nets = Some (existsb (fun nl => in_net4b a (fst nl) (snd nl)) nets).
Proof.
  intros Hl Ha. induction nets as [|[n len] nets IH]; intros Hok; [reflexivity|].
  cbn [nets_okb forallb] in Hok. apply andb_true_iff in Hok as [H1 Hrest].
  apply andb_true_iff in H1 as [H1 H3]. apply andb_true_iff in H1 as [H1 H2]. cbn [fst snd] in *.
  apply Nat.leb_le in H1. apply N.leb_le in H3.
  cbn [any_net existsb fst snd]. rewrite (ip4_matchnet_correct a n len Hl H1 Ha (bytes_okb_ok _ H2) H3).
  destruct (in_net4b a n len); [reflexivity|]. apply IH. exact Hrest.
Qed.

Lemma any_net6_doc a nets : length a = 16 -> bytes_ok a -> nets_okb 16 128 nets = true ->
  any_net ip6_matchnet a nets = Some (existsb (fun nl => in_net6b a (fst nl) (snd nl)) nets).
Proof.
  intros Hl Ha. induction nets as [|[n len] nets IH]; intros Hok; [reflexivity|].
  cbn [nets_okb forallb] in Hok. apply andb_true_iff in Hok as [H1 Hrest].
  apply andb_true_iff in H1 as [H1 H3]. apply andb_true_iff in H1 as [H1 H2]. cbn [fst snd] in *.
  apply Nat.leb_le in H1. apply N.leb_le in H3.
  cbn [any_net existsb fst snd]. rewrite (ip6_matchnet_correct a n len Hl H1 Ha (bytes_okb_ok _ H2) H3).
  destruct (in_net6b a n len); [reflexivity|]. apply IH. exact Hrest.
Qed.

(** the tables of fromdomain.c are the documented networks (GenFilters.FD_NETS4/6 are read from the C source) *)
Lemma fd_nets_documented : FD_NETS4 = DOC_NETS4 /\ FD_NETS6 = DOC_NETS6.
Proof. split; reflexivity. Qed.

Lemma fd_addr_doc u a : length a = 16 -> bytes_ok a -> fd_addr_hit u a = Some (doc_unroutable u a).
Proof.
  intros Hl Ha. unfold fd_addr_hit, doc_unroutable, doc_private, doc_localhost.
  destruct fd_nets_ok as [N4 N6]. destruct fd_nets_documented as [D4 D6]. rewrite <- D4, <- D6.
  assert (B1 : bit_set u FD_BIT_LOCALHOST = Z.testbit u 1) by (apply (bit_set_testbit u 1); lia).
  assert (B2 : bit_set u FD_BIT_PRIVATE = Z.testbit u 2) by (apply (bit_set_testbit u 2); lia).
  rewrite B1, B2.
  destruct (is_v4mapped a).
  - destruct (Z.testbit u 2).
    + rewrite (any_net4_doc a FD_NETS4 Hl Ha N4). cbn [andb]. reflexivity.
    + cbn [andb orb]. reflexivity.
  - destruct (Z.testbit u 2).
    + rewrite (any_net6_doc a FD_NETS6 Hl Ha N6). cbn [andb]. f_equal.
      destruct (existsb (fun nl => in_net6b a (fst nl) (snd nl)) FD_NETS6), (is_linklocal a), (is_sitelocal a); reflexivity.
    + cbn [andb orb]. reflexivity.
Qed.

Lemma fd_all_doc u mx : Forall (fun a => length a = 16) mx -> Forall bytes_ok mx ->
  fd_all_hit u mx = Some (forallb (doc_unroutable u) mx).
Proof.
  induction mx as [|a mx IH]; intros Hl Hb; [reflexivity|].
  inversion Hl; subst. inversion Hb; subst. cbn [fd_all_hit forallb]. rewrite (fd_addr_doc u a) by assumption.
  destruct (doc_unroutable u a); [apply IH; assumption|reflexivity].
Qed.

Lemma fromdomain_doc s uc dc gc d :
  Forall (fun a => length a = 16) (r_mx s) -> Forall bytes_ok (r_mx s) ->
  doc_fromdomain s uc dc gc = Some d -> exists o, cb_fromdomain s uc dc gc = Some o /\ same_obs o d.
Proof.
  unfold doc_fromdomain, cb_fromdomain. intros Hl Hb H.
  destruct (r_mailfrom s) as [|c mf]; [inversion H; subst d; eexists; split; reflexivity|].
  destruct (doc_value true uc dc gc KEY_FROMDOMAIN) as [[u o]|] eqn:Ev; [|discriminate].
  destruct (global_value_doc _ _ _ _ _ _ Ev) as [Hv Ht]. cbv zeta in *. rewrite Hv.
  destruct (u <=? 0)%Z eqn:Ele; [inversion H; subst d; eexists; split; reflexivity|].
  apply Z.leb_gt in Ele. rewrite (Ht Ele).
  assert (B0 : bit_set u FD_BIT_DNS = Z.testbit u 0) by (apply (bit_set_testbit u 0); lia).
  assert (B1 : bit_set u FD_BIT_LOCALHOST = Z.testbit u 1) by (apply (bit_set_testbit u 1); lia).
  assert (B2 : bit_set u FD_BIT_PRIVATE = Z.testbit u 2) by (apply (bit_set_testbit u 2); lia).
  rewrite B0, B1, B2.
  destruct (r_mx s) as [|a mx] eqn:Emx.
  - destruct (Z.testbit u 0); [|inversion H; subst d; eexists; split; reflexivity].
    destruct (Z.eqb (r_fromdomain s) DNS_ERROR_TEMP_Z); [inversion H; subst d; eexists; split; reflexivity|].
    destruct (Z.eqb (r_fromdomain s) DNS_ERROR_PERM_Z); [inversion H; subst d; eexists; split; reflexivity|].
    destruct (Z.eqb (r_fromdomain s) 1); [inversion H; subst d; eexists; split; reflexivity|].
    destruct (Z.eqb (r_fromdomain s) 2); inversion H; subst d; eexists; split; reflexivity.
  - destruct (Z.testbit u 1 || Z.testbit u 2); cbn [andb] in H.
    + rewrite (fd_all_doc u (a :: mx) Hl Hb).
      destruct (forallb (doc_unroutable u) (a :: mx)); inversion H; subst d; eexists; split; reflexivity.
    + inversion H; subst d. eexists. split; reflexivity.
Qed.

(* ------------------------------------------------------------------------------------------------ *)
(** * C. which file, which list: getfile() and userconf_get_buffer() with "!inherit" *)

(** "the more local file overrides the global files" *)
Lemma getfile_precedence fs name g :
  (forall c, fs_find fs 0 name = Some c -> getfile true true fs name g = (CONFIG_USER, Some c)) /\
  (forall (ud : bool) c, (if ud then fs_find fs 0 name else None) = None -> fs_find fs 1 name = Some c ->
     getfile ud true fs name g = (CONFIG_DOMAIN, Some c)) /\
  (forall (ud : bool), (if ud then fs_find fs 0 name else None) = None -> fs_find fs 1 name = None ->
     getfile ud true fs name g = if g then (CONFIG_GLOBAL, fs_find fs 2 name) else (CONFIG_DOMAIN, None)).
Proof.
  unfold getfile. split; [|split].
  - intros c H. rewrite H. reflexivity.
  - intros ud c H0 H1. rewrite H0, H1. reflexivity.
  - intros ud H0 H1. rewrite H0, H1. reflexivity.
Qed.

Lemma remove_nth_in {A} (l : list A) : forall i y, In y (remove_nth i l) -> In y l.
Proof.
  induction l as [|a l IH]; intros i y H; [destruct i; exact H|].
  destruct i; cbn in H; [right; exact H|]. destruct H as [H|H]; [left; exact H|right; apply (IH i); exact H].
Qed.

Lemma index_of_nth x l : forall i, index_of x l = Some i -> i < length l /\ nth i l [] = x.
Proof.
  induction l as [|e l IH]; intros i H; [discriminate|]. cbn [index_of] in H.
  destruct (bytes_eqb e x) eqn:E.
  - inversion H; subst i. apply bytes_eqb_eq in E. subst e. split; [cbn; lia|reflexivity].
  - destruct (index_of x l) as [j|]; [|discriminate]. inversion H; subst i. destruct (IH j eq_refl) as [H1 H2].
    split; [cbn; lia|exact H2].
Qed.

Lemma remove_nth_keeps (l : list bytes) : forall i y, In y l -> y <> nth i l [] -> In y (remove_nth i l).
Proof.
  induction l as [|a l IH]; intros i y H Hne; [contradiction|].
  destruct i; cbn in *.
  - destruct H as [H|H]; [subst; contradiction|exact H].
  - destruct H as [H|H]; [left; exact H|right; apply IH; assumption].
Qed.

Lemma replace_nth_in {A} (l : list A) : forall i x y, In y (replace_nth i x l) -> y = x \/ In y (remove_nth i l).
Proof.
  induction l as [|a l IH]; intros i x y H; [destruct i; contradiction|].
  destruct i; cbn in *.
  - destruct H as [H|H]; [left; symmetry; exact H|right; exact H].
  - destruct H as [H|H]; [right; left; exact H|]. destruct (IH i x y H) as [E|E]; [left; exact E|right; right; exact E].
Qed.

Lemma replace_nth_has {A} (l : list A) : forall i x, i < length l -> In x (replace_nth i x l).
Proof.
  induction l as [|a l IH]; intros i x H; [cbn in H; lia|].
  destruct i; cbn; [left; reflexivity|right; apply IH; cbn in H; lia].
Qed.

Lemma replace_nth_keeps (l : list bytes) : forall i x y, In y l -> y <> nth i l [] -> In y (replace_nth i x l).
Proof.
  induction l as [|a l IH]; intros i x y H Hne; [contradiction|].
  destruct i; cbn in *.
  - destruct H as [H|H]; [subst; contradiction|right; exact H].
  - destruct H as [H|H]; [left; exact H|right; apply IH; assumption].
Qed.

(** what the merged list contains: the inherited values, the own values other than "!inherit", nothing else *)
Lemma merge_inherit_members own i inh : index_of INHERIT own = Some i ->
  (forall y, In y inh -> In y (merge_inherit own i inh)) /\
  (forall y, In y own -> y <> INHERIT -> In y (merge_inherit own i inh)) /\
  (forall y, In y (merge_inherit own i inh) -> In y own \/ In y inh).
Proof.
  intros Hi. destruct (index_of_nth _ _ _ Hi) as [Hlt Hnth].
  assert (Hgen : (forall y, In y inh -> In y (remove_nth i own ++ inh)) /\
                 (forall y, In y own -> y <> INHERIT -> In y (remove_nth i own ++ inh)) /\
                 (forall y, In y (remove_nth i own ++ inh) -> In y own \/ In y inh)).
  { split; [|split].
    - intros y H. apply in_or_app. right. exact H.
    - intros y H Hne. apply in_or_app. left. apply remove_nth_keeps; [exact H|rewrite Hnth; exact Hne].
    - intros y H. apply in_app_or in H. destruct H as [H|H]; [left; apply (remove_nth_in _ i); exact H|right; exact H]. }
  unfold merge_inherit. destruct inh as [|x [|x2 inh]]; try exact Hgen.
  destruct (Nat.leb (length x) (length INHERIT)); [|exact Hgen].
  split; [|split].
  - intros y [H|H]; [subst y; apply replace_nth_has; exact Hlt|contradiction].
  - intros y H Hne. apply replace_nth_keeps; [exact H|rewrite Hnth; exact Hne].
  - intros y H. destruct (replace_nth_in _ _ _ _ H) as [E|E]; [right; left; symmetry; exact E|left; apply (remove_nth_in _ i); exact E].
Qed.

Lemma getfile_nouser_type dd fs key g r c : getfile false dd fs key g = (r, Some c) -> r = CONFIG_DOMAIN \/ r = CONFIG_GLOBAL.
Proof.
  unfold getfile. cbv iota. destruct dd.
  - destruct (fs_find fs 1 key); [intros H; inversion H; auto|]. destruct g; intros H; inversion H; auto.
  - destruct g; intros H; inversion H; auto.
Qed.

Lemma get_buffer_nouser_type d dd fs key cf g inh r vals :
  get_buffer d false dd fs key cf g inh = UList r vals -> r = CONFIG_DOMAIN \/ r = CONFIG_GLOBAL.
Proof.
  destruct d; cbn [get_buffer]; intros H;
  destruct (getfile false dd fs key g) as [ty [c|]] eqn:Eg; try discriminate;
  pose proof (getfile_nouser_type _ _ _ _ _ _ Eg) as Ht;
  destruct (parse_conf c); try discriminate; destruct (cf_filter cf l) as [[|v vs]|]; try discriminate.
  - destruct (inh && (Z.eqb ty CONFIG_USER || Z.eqb ty CONFIG_DOMAIN && g)); [destruct (index_of INHERIT (v :: vs))|];
      inversion H; subst; exact Ht.
  - destruct (inh && (Z.eqb ty CONFIG_USER || Z.eqb ty CONFIG_DOMAIN && g)).
    + destruct (index_of INHERIT (v :: vs)).
      * destruct (get_buffer d false (if Z.eqb ty CONFIG_DOMAIN then false else dd) fs key cf g inh) as [| | |r2 i2];
          try discriminate; try (inversion H; subst; exact Ht).
        destruct (Z.eqb r2 CONFIG_DOMAIN || Z.eqb r2 CONFIG_GLOBAL); inversion H; subst; exact Ht.
      * inversion H; subst; exact Ht.
    + inversion H; subst; exact Ht.
Qed.

(** a list file with "!inherit" at a level that may inherit (user; domain when the lookup is a global one), and a
    list at the next level(s): the result is attributed to the first level and holds the inherited values and the
    own values except "!inherit" *)
Theorem listfile_inherit d ud dd fs key cf g ty content raw own i r inh :
  getfile ud dd fs key g = (ty, Some content) -> parse_conf content = Some raw -> cf_filter cf raw = Some own ->
  (ty = CONFIG_USER \/ (ty = CONFIG_DOMAIN /\ g = true)) -> index_of INHERIT own = Some i ->
  get_buffer d false (if Z.eqb ty CONFIG_DOMAIN then false else dd) fs key cf g true = UList r inh ->
  exists vals, get_buffer (S d) ud dd fs key cf g true = UList ty vals /\
    (forall y, In y inh -> In y vals) /\ (forall y, In y own -> y <> INHERIT -> In y vals) /\
    (forall y, In y vals -> In y own \/ In y inh).
Proof.
  intros Hg Hp Hc Hty Hi Hnext. cbn [get_buffer]. rewrite Hg, Hp, Hc.
  destruct own as [|v vs]; [discriminate|].
  assert (Hcond : true && (Z.eqb ty CONFIG_USER || Z.eqb ty CONFIG_DOMAIN && g) = true).
  { destruct Hty as [->|[-> ->]]; reflexivity. }
  rewrite Hcond, Hi, Hnext.
  destruct (get_buffer_nouser_type _ _ _ _ _ _ _ _ _ Hnext) as [->| ->].
  - change (Z.eqb CONFIG_DOMAIN CONFIG_DOMAIN || Z.eqb CONFIG_DOMAIN CONFIG_GLOBAL) with true. cbv iota.
    eexists. split; [reflexivity|apply merge_inherit_members; exact Hi].
  - change (Z.eqb CONFIG_GLOBAL CONFIG_DOMAIN || Z.eqb CONFIG_GLOBAL CONFIG_GLOBAL) with true. cbv iota.
    eexists. split; [reflexivity|apply merge_inherit_members; exact Hi].
Qed.

(** without "!inherit" (or where the lookup does not honour it) the list of the most local file is the result, and a
    file without a valid entry ends the search *)
Theorem listfile_plain d ud dd fs key cf g inh ty content raw own :
  getfile ud dd fs key g = (ty, Some content) -> parse_conf content = Some raw -> cf_filter cf raw = Some own ->
  (inh = false \/ index_of INHERIT own = None) ->
  get_buffer d ud dd fs key cf g inh = match own with [] => UNone | _ => UList ty own end.
Proof.
  intros Hg Hp Hc Hno. destruct d; cbn [get_buffer]; rewrite Hg, Hp, Hc; destruct own as [|v vs]; try reflexivity;
  destruct Hno as [-> | Hno]; try reflexivity; rewrite Hno;
  destruct (inh && (Z.eqb ty CONFIG_USER || Z.eqb ty CONFIG_DOMAIN && g)); reflexivity.
Qed.

Theorem listfile_absent d ud dd fs key cf g inh ty :
  getfile ud dd fs key g = (ty, None) -> get_buffer d ud dd fs key cf g inh = UNone.
Proof. intros Hg. destruct d; cbn [get_buffer]; rewrite Hg; reflexivity. Qed.

(** the check functions never run into undefined behaviour on a C string *)
Lemma cf_accepts_total cf e : exists b, cf_accepts cf e = Some b.
Proof.
  assert (Hin : In 0%N (e ++ [0%N])) by (apply in_or_app; right; left; reflexivity).
  destruct (thm_safe pton4_ref pton6_ref (e ++ [0%N]) 0%Z Hin) as (Hd & _ & _ & Hc & _).
  destruct cf; cbn [cf_accepts].
  - eexists; reflexivity.
  - destruct (checkaddr pton4_ref pton6_ref (e ++ [0%N])); try discriminate. eexists; reflexivity.
  - destruct (domainvalid (e ++ [0%N])); try discriminate. eexists; reflexivity.
  - destruct (bytes_eqb e INHERIT); [eexists; reflexivity|].
    destruct (domainvalid (e ++ [0%N])); try discriminate. eexists; reflexivity.
Qed.

Lemma cf_filter_total cf l : exists r, cf_filter cf l = Some r.
Proof.
  induction l as [|e l [r IH]]; [eexists; reflexivity|]. cbn [cf_filter]. rewrite IH.
  destruct (cf_accepts_total cf e) as [[|] ->]; eexists; reflexivity.
Qed.

(* ------------------------------------------------------------------------------------------------ *)
(** * D. the checker of the rfilters engine accepts every output of the model *)

Lemma fres_eqb_refl r : fres_eqb r r = true.
Proof. unfold fres_eqb. apply Z.eqb_refl. Qed.

Lemma rf_obs_eqb_refl o : rf_obs_eqb o o = true.
Proof.
  destruct o as [r t m c]. cbn [rf_obs_eqb]. rewrite fres_eqb_refl, N.eqb_refl.
  replace (bytes_eqb m m) with true by (symmetry; apply bytes_eqb_eq; reflexivity).
  destruct t as [z|]; cbn; [rewrite Z.eqb_refl|]; reflexivity.
Qed.

Lemma decode_files_ok ud files fs : forallb bytes_okb files = true -> decode_files ud files = Some fs -> fs_ok fs.
Proof.
  revert fs. induction files as [|f files IH]; intros fs Hok H; cbn in *.
  - inversion H. constructor.
  - apply andb_true_iff in Hok as [Hf Hrest].
    destruct (decode_file ud f) as [[[l n] c]|] eqn:Ed; [|discriminate].
    destruct (decode_files ud files) as [xs|]; [|discriminate]. inversion H; subst fs.
    constructor; [|apply IH; [exact Hrest|reflexivity]].
    cbn [snd]. unfold decode_file in Ed. destruct f as [|lvl [|nl rest]]; try discriminate.
    destruct (N.leb lvl 2 && Nat.leb 1 (N.to_nat nl) && Nat.leb (N.to_nat nl) 32 && Nat.leb (N.to_nat nl) (length rest)
              && forallb name_char_ok (firstn (N.to_nat nl) rest) && (ud || negb (N.eqb lvl 0))); [|discriminate].
    inversion Ed; subst. apply bytes_okb_ok in Hf. unfold bytes_ok in *.
    inversion Hf as [|? ? _ Hf2]; subst. inversion Hf2 as [|? ? _ Hf3]; subst. apply Forall_skipn. exact Hf3.
Qed.

Lemma doc_filter_sound id s fs uc dc gc d :
  has_nul (r_helo s) = false -> length (r_ip s) = 16 -> bytes_ok (r_ip s) -> fs_ok fs ->
  Forall (fun a => length a = 16) (r_mx s) -> Forall bytes_ok (r_mx s) ->
  doc_filter id s fs uc dc gc = Some d ->
  exists o, run_filter id s fs uc dc gc = Some (Some o) /\ same_obs o d.
Proof.
  intros Hn Hl Hip Hfs Hmxl Hmxb. unfold doc_filter, run_filter.
  destruct (N.eqb id ID_BADMAILFROM); [intros H; destruct (badmailfrom_doc _ _ _ H) as (o & -> & Ho); eauto|].
  destruct (N.eqb id ID_HELO); [intros H; destruct (helo_doc _ _ _ _ _ _ Hn H) as (o & -> & Ho); eauto|].
  destruct (N.eqb id ID_IPBL); [intros H; destruct (ipbl_doc _ _ _ Hl Hip Hfs H) as (o & -> & Ho); eauto|].
  destruct (N.eqb id ID_SOBERG); [intros H; destruct (soberg_doc _ _ _ _ _ H) as (o & -> & Ho); eauto|].
  destruct (N.eqb id ID_CHECK2822); [intros H; destruct (check2822_doc _ _ _ _ _ H) as (o & -> & Ho); eauto|].
  destruct (N.eqb id ID_FORCEESMTP); [intros H; destruct (forceesmtp_doc _ _ _ H) as (o & -> & Ho); eauto|].
  destruct (N.eqb id ID_BADCC); [intros H; destruct (badcc_doc _ _ _ H) as (o & -> & Ho); eauto|].
  destruct (N.eqb id ID_NOMAIL); [intros H; destruct (nomail_doc _ _ _ H) as (o & -> & Ho); eauto|].
  destruct (N.eqb id ID_DNSBL); [intros H; destruct (dnsbl_doc _ _ _ H) as (o & -> & Ho); eauto|].
  destruct (N.eqb id ID_NAMEBL); [intros H; destruct (namebl_doc _ _ _ H) as (o & -> & Ho); eauto|].
  destruct (N.eqb id ID_FROMDOMAIN); [intros H; destruct (fromdomain_doc _ _ _ _ _ Hmxl Hmxb H) as (o & -> & Ho); eauto|].
  discriminate.
Qed.

Theorem rf_checker_sound id misc mf helo ip rcpts dns mx files d :
  rf_doc_case id misc mf helo ip rcpts dns mx files = Some d ->
  exists o, rf_case id misc mf helo ip rcpts dns mx files = RDone o /\ obs_of_fout o = d.
Proof.
  unfold rf_doc_case, rf_case. cbv zeta. intros H.
  destruct (has_nul mf || has_nul helo || has_nul rcpts || negb (Nat.eqb (length ip) 16)
            || match helo with [] => true | _ => false end || Nat.ltb 60 (length files)) eqn:G1.
  - cbn [orb] in H. discriminate.
  - cbn [orb] in H.
    destruct (negb (bytes_okb ip) || negb (forallb bytes_okb files)) eqn:G2; [discriminate|]. cbn [orb] in H |- *.
    destruct (N.ltb 4 (nth 4 misc 0%N) && negb (N.eqb (nth 4 misc 0%N) 234)) eqn:G3; [discriminate|]. cbn [orb] in H |- *.
    destruct (negb (Nat.eqb (length mx mod 16) 0)) eqn:G4; [discriminate|]. cbn [orb] in H |- *.
    destruct (negb (bytes_okb mx)) eqn:G5; [discriminate|].
    apply negb_false_iff in G4. apply Nat.eqb_eq in G4. apply negb_false_iff in G5.
    apply orb_false_iff in G2 as [Gip Gf]. apply negb_false_iff in Gip. apply negb_false_iff in Gf.
    repeat (apply orb_false_iff in G1; destruct G1 as [G1 ?]).
    destruct (decode_files (N.testbit (nth 0 misc 0%N) 0) files) as [fs|] eqn:Ed; [|discriminate].
    destruct (conf_of fs 2) as [gc|]; [|discriminate].
    destruct (if N.testbit (nth 0 misc 0%N) 0 then conf_of fs 0 else Some []) as [uc|]; [|discriminate].
    destruct (conf_of fs 1) as [dc|]; [|discriminate].
    match type of H with option_map _ (doc_filter _ ?s _ _ _ _) = _ => set (ss := s) in * end.
    destruct (doc_filter id ss fs uc dc gc) as [dd|] eqn:Edoc; [|discriminate]. cbn [option_map] in H. inversion H; subst d.
    assert (Hn : has_nul (r_helo ss) = false) by assumption.
    assert (Hl : length (r_ip ss) = 16) by (cbn; apply Nat.eqb_eq; apply negb_false_iff; assumption).
    assert (Hmxl : Forall (fun a => length a = 16) (r_mx ss)).
    { cbn. apply (chunks_spec 16 (length mx) mx); [discriminate|exact G4|lia]. }
    assert (Hmxb : Forall bytes_ok (r_mx ss)) by (cbn; apply chunks_ok; apply bytes_okb_ok; exact G5).
    destruct (doc_filter_sound id ss fs uc dc gc dd Hn Hl (bytes_okb_ok _ Gip) (decode_files_ok _ _ _ Gf Ed) Hmxl Hmxb Edoc) as (o & Ho & Hs).
    rewrite Ho. exists o. split; [reflexivity|exact Hs].
Qed.

Corollary rf_checker_accepts_model id misc mf helo ip rcpts dns mx files o :
  rf_case id misc mf helo ip rcpts dns mx files = RDone o ->
  spec_ok_rf id misc mf helo ip rcpts dns mx files (Some (obs_of_fout o)) <> VBad.
Proof.
  intros H. unfold spec_ok_rf.
  destruct (rf_doc_case id misc mf helo ip rcpts dns mx files) as [d|] eqn:E; [|discriminate].
  destruct (rf_checker_sound _ _ _ _ _ _ _ _ _ _ E) as (o' & Ho & Hd). rewrite H in Ho. inversion Ho; subst o'.
  rewrite Hd, rf_obs_eqb_refl. discriminate.
Qed.

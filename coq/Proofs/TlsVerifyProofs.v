(** Proofs about Model/TlsVerify.v (property C01, TLS client certificate). *)
From Qv Require Import Common.Bytes Gen.GenTlsVerify Model.TlsVerify Spec.TlsVerifySpec.
Local Open Scope Z_scope.

(** the generated constants are unfolded here only: a changed value breaks the obligation that needs it *)
Ltac consts := unfold TV_SID_OK, TV_NID_FIRST, TV_NID_SECOND, TV_ENOMEM, TV_EPROTO, TV_ETIMEDOUT in *.

(** ------------------------------------------------------------------ C strings *)

Lemma cstr_no_nul b : ~ In 0%N (cstr b).
Proof.
  induction b as [|x r IH]; simpl; [tauto|].
  destruct (N.eqb x 0) eqn:E; simpl; [tauto|].
  intros [H|H]; [subst x; discriminate E | exact (IH H)].
Qed.

Lemma cstr_length_le b : (length (cstr b) <= length b)%nat.
Proof. induction b as [|x r IH]; simpl; [lia|]. destruct (N.eqb x 0); simpl; lia. Qed.

Lemma cstr_full b : length (cstr b) = length b -> cstr b = b.
Proof.
  induction b as [|x r IH]; simpl; [reflexivity|].
  destruct (N.eqb x 0) eqn:E; simpl; [discriminate|].
  intros H. f_equal. apply IH. lia.
Qed.

Lemma cstr_id b : ~ In 0%N b -> cstr b = b.
Proof.
  induction b as [|x r IH]; simpl; [reflexivity|].
  intros H. destruct (N.eqb x 0) eqn:E.
  - apply N.eqb_eq in E. subst x. exfalso. apply H. left. reflexivity.
  - f_equal. apply IH. intros H1. apply H. right. exact H1.
Qed.

Lemma cstr_idem b : cstr (cstr b) = cstr b.
Proof. apply cstr_id, cstr_no_nul. Qed.

(** a name with an embedded NUL is no entry *)
Lemma entries_no_nul cl name : In name (entries cl) -> ~ In 0%N name.
Proof.
  unfold entries. intros H. apply in_map_iff in H as [c [Hc _]]. subst name. apply cstr_no_nul.
Qed.

(** ------------------------------------------------------------------ the loop over the tlsclients entries *)

Lemma match_loop_sound email cl x :
  match_loop email cl = Some x -> x = email /\ In email (entries cl).
Proof.
  induction cl as [|c r IH]; simpl; [discriminate|].
  destruct (Nat.eqb (length (cstr c)) (length email)) eqn:EL; simpl.
  - destruct (bytes_eqb (cstr email) (cstr c)) eqn:EC.
    + intros H. inversion H; subst x; clear H.
      apply bytes_eqb_eq in EC. apply Nat.eqb_eq in EL.
      assert (Hfull : cstr email = email) by (apply cstr_full; rewrite EC; exact EL).
      split; [exact Hfull|]. left. rewrite <- EC. exact Hfull.
    + intros H. destruct (IH H) as [H1 H2]. split; [exact H1|]. right. exact H2.
  - intros H. destruct (IH H) as [H1 H2]. split; [exact H1|]. right. exact H2.
Qed.

Lemma match_loop_complete email cl :
  In email (entries cl) -> match_loop email cl = Some email.
Proof.
  induction cl as [|c r IH]; simpl; [tauto|].
  intros [H|H].
  - rewrite H, Nat.eqb_refl. simpl.
    assert (Hid : cstr email = email) by (rewrite <- H; apply cstr_idem).
    rewrite Hid. replace (bytes_eqb email email) with true by (symmetry; apply bytes_eqb_eq; reflexivity).
    reflexivity.
  - destruct (Nat.eqb (length (cstr c)) (length email)) eqn:EL; simpl; [|exact (IH H)].
    destruct (bytes_eqb (cstr email) (cstr c)) eqn:EC; [|exact (IH H)].
    f_equal. apply entries_no_nul in H. apply cstr_id. exact H.
Qed.

(** the entry the code looks at is the one the specification names, as long as the order is emailAddress, commonName *)
Lemma select_name_spec s : select_name s = spec_name s.
Proof. unfold select_name, spec_name. consts. reflexivity. Qed.

(** ------------------------------------------------------------------ entitled_b decides cert_entitles *)

Lemma existsb_bytes_In name l : existsb (bytes_eqb name) l = true <-> In name l.
Proof.
  rewrite existsb_exists. split.
  - intros [x [H1 H2]]. apply bytes_eqb_eq in H2. subst x. exact H1.
  - intros H. exists name. split; [exact H|]. apply bytes_eqb_eq. reflexivity.
Qed.

Lemma entitled_b_iff e name : entitled_b e = Some name <-> cert_entitles e name.
Proof.
  unfold entitled_b, cert_entitles. split.
  - destruct (e_tls e); [|discriminate].
    destruct (e_list e) as [en| |cl]; try discriminate.
    destruct (e_peer e) as [subj|]; [|discriminate].
    destruct (e_ca e && (e_sid e =? 1) && (0 <=? e_hs e) && (e_verify e =? TV_X509_V_OK) && e_dup e)%bool eqn:E; [|discriminate].
    destruct (spec_name subj) as [nm|] eqn:ES; [|discriminate].
    destruct (negb (Nat.eqb (length nm) 0) && existsb (bytes_eqb nm) (entries cl))%bool eqn:E2; [|discriminate].
    intros H. inversion H; subst nm; clear H.
    repeat (apply andb_true_iff in E as [E ?]).
    apply andb_true_iff in E2 as [E2 E3].
    split; [reflexivity|]. exists cl, subj.
    repeat split; auto.
    + apply Z.eqb_eq. assumption.
    + apply Z.leb_le. assumption.
    + apply Z.eqb_eq. assumption.
    + intros Hn. subst name. discriminate E2.
    + apply existsb_bytes_In. exact E3.
  - intros [Ht [cl [subj [Hl [Hca [Hsid [Hhs [Hv [Hp [Hs [Hne [Hin Hd]]]]]]]]]]]].
    rewrite Ht, Hl, Hp, Hca, Hsid, Hv, Hd, Hs.
    replace (0 <=? e_hs e) with true by (symmetry; apply Z.leb_le; exact Hhs).
    rewrite Z.eqb_refl. simpl.
    replace (existsb (bytes_eqb name) (entries cl)) with true by (symmetry; apply existsb_bytes_In; exact Hin).
    destruct name; [congruence|reflexivity].
Qed.

(** ------------------------------------------------------------------ tls_check_cert *)

Lemma tls_out_nonpos e d : netw_ok e -> d < 0 -> tls_out e d < 0.
Proof.
  unfold netw_ok, tls_out. intros Hn Hd.
  destruct (Z.eqb (e_netw e) 0) eqn:E; [exact Hd|]. apply Z.eqb_neq in E. lia.
Qed.

(** every way through tls_check_cert(): either the certificate entitles (result 1, tlsclient set to the name), or the
    result is not positive and tlsclient is what it was or NULL *)
Lemma tls_check_cert_cases cl e st o st' lg :
  netw_ok e -> e_tls e = true -> e_list e = LList cl -> e_ca e = true ->
  tls_check_cert cl e st = (o, st', lg) ->
  verified st' = verified st /\ relay st' = relay st /\
  ((exists name, cert_entitles e name /\ o = Ret 1 /\ tlsclient st' = Some name)
   \/ ((tlsclient st' = tlsclient st \/ tlsclient st' = None) /\ (forall r, o = Ret r -> r <= 0))).
Proof.
  intros Hn Ht Hl Hca. unfold tls_check_cert.
  destruct (negb (Z.eqb (e_sid e) TV_SID_OK)) eqn:Esid.
  { intros H. injection H as <- <- <-. split; [reflexivity|]. split; [reflexivity|]. right. split; [left; reflexivity|].
    intros r Hr. injection Hr as <-. apply Z.lt_le_incl, tls_out_nonpos; [exact Hn | consts; lia]. }
  apply negb_false_iff, Z.eqb_eq in Esid.
  destruct (Z.eqb (e_hs e) (- TV_ETIMEDOUT)) eqn:Eto.
  { intros H. injection H as <- <- <-. split; [reflexivity|]. split; [reflexivity|]. right. split; [left; reflexivity|].
    intros r Hr. discriminate Hr. }
  destruct (Z.ltb (e_hs e) 0) eqn:Ehs.
  { intros H. injection H as <- <- <-. split; [reflexivity|]. split; [reflexivity|]. right. split; [left; reflexivity|].
    intros r Hr. injection Hr as <-. apply Z.ltb_lt in Ehs. apply Z.lt_le_incl, tls_out_nonpos; [exact Hn | exact Ehs]. }
  apply Z.ltb_ge in Ehs.
  destruct (negb (Z.eqb (e_verify e) TV_X509_V_OK)) eqn:Ev.
  { intros H. injection H as <- <- <-. split; [reflexivity|]. split; [reflexivity|]. right. split; [left; reflexivity|].
    intros r Hr. injection Hr as <-. lia. }
  apply negb_false_iff, Z.eqb_eq in Ev.
  destruct (e_peer e) as [subj|] eqn:Ep.
  2:{ intros H. injection H as <- <- <-. split; [reflexivity|]. split; [reflexivity|]. right. split; [left; reflexivity|].
      intros r Hr. injection Hr as <-. lia. }
  rewrite select_name_spec.
  destruct (spec_name subj) as [email|] eqn:Es.
  2:{ simpl. intros H. injection H as <- <- <-. split; [reflexivity|]. split; [reflexivity|]. right. split; [left; reflexivity|].
      intros r Hr. injection Hr as <-. lia. }
  destruct (Nat.eqb (length email) 0) eqn:Elen.
  { intros H. injection H as <- <- <-. split; [reflexivity|]. split; [reflexivity|]. right. split; [left; reflexivity|].
    intros r Hr. injection Hr as <-. lia. }
  destruct (match_loop email cl) as [x|] eqn:Em.
  2:{ intros H. injection H as <- <- <-. split; [reflexivity|]. split; [reflexivity|]. right. split; [left; reflexivity|].
      intros r Hr. injection Hr as <-. lia. }
  apply match_loop_sound in Em as [Hx Hin]. subst x.
  destruct (e_dup e) eqn:Ed.
  - intros H. injection H as <- <- <-; simpl. split; [reflexivity|]. split; [reflexivity|]. left.
    exists email. split; [|split; reflexivity].
    split; [exact Ht|]. exists cl, subj. consts.
    repeat split; auto.
    intros Hnil. subst email. discriminate Elen.
  - intros H. injection H as <- <- <-; simpl. split; [reflexivity|]. split; [reflexivity|]. right. split; [right; reflexivity|].
    intros r Hr. injection Hr as <-. consts. lia.
Qed.

(** ------------------------------------------------------------------ tls_verify *)

Definition fresh (e : env) (st : state) : Prop := e_tls e = true /\ verified st = false /\ authed e st = false.

Lemma authed_false e st : authed e st = false -> e_auth e = false /\ tlsclient st = None.
Proof. unfold authed. destruct (e_auth e); simpl; [discriminate|]. destruct (tlsclient st); [discriminate|]. tauto. Qed.

(** every way through tls_verify() *)
Lemma tls_verify_cases e st o st' lg :
  netw_ok e -> tls_verify e st = (o, st', lg) ->
  (o = Ret 0 /\ st' = st /\ lg = [] /\ ~ fresh e st)
  \/ (fresh e st /\ In LL lg /\ verified st' = true /\ relay st' = relay st /\
      ((exists name, cert_entitles e name /\ o = Ret 1 /\ tlsclient st' = Some name)
       \/ (tlsclient st' = None /\ (forall r, o = Ret r -> r <= 0)))).
Proof.
  intros Hn. unfold tls_verify.
  destruct (negb (e_tls e) || verified st || authed e st)%bool eqn:G.
  { intros H. injection H as <- <- <-. left. repeat split; try reflexivity.
    intros [F1 [F2 F3]]. rewrite F1, F2, F3 in G. discriminate G. }
  apply orb_false_iff in G as [G Ga]. apply orb_false_iff in G as [Gt Gv]. apply negb_false_iff in Gt.
  assert (Hfresh : fresh e st) by (repeat split; assumption).
  destruct (authed_false _ _ Ga) as [_ Hnone].
  destruct (e_list e) as [en| |cl] eqn:El.
  - intros H. injection H as <- <- <-; simpl. right. split; [exact Hfresh|]. split; [left; reflexivity|].
    split; [reflexivity|]. split; [reflexivity|]. right. split; [exact Hnone|].
    intros r Hr. injection Hr as <-. lia.
  - intros H. injection H as <- <- <-; simpl. right. split; [exact Hfresh|]. split; [left; reflexivity|].
    split; [reflexivity|]. split; [reflexivity|]. right. split; [exact Hnone|].
    intros r Hr. injection Hr as <-. lia.
  - destruct (e_ca e) eqn:Eca; simpl.
    2:{ intros H. injection H as <- <- <-; simpl. right. split; [exact Hfresh|]. split; [left; reflexivity|].
        split; [reflexivity|]. split; [reflexivity|]. right. split; [exact Hnone|].
        intros r Hr. injection Hr as <-. lia. }
    destruct (tls_check_cert cl e {| verified := true; tlsclient := tlsclient st; relay := relay st |}) as [[o2 st2] lg2] eqn:Ec.
    intros H. injection H as <- <- <-.
    destruct (tls_check_cert_cases _ _ _ _ _ _ Hn Gt El Eca Ec) as [Hv [Hr Hc]]. simpl in Hv, Hr.
    right. split; [exact Hfresh|]. split; [left; reflexivity|]. split; [exact Hv|]. split; [exact Hr|].
    destruct Hc as [Hc|[Htc Hle]]; [left; exact Hc|].
    right. split; [|exact Hle]. simpl in Htc. destruct Htc as [Htc|Htc]; [rewrite Htc; exact Hnone|exact Htc].
Qed.

(** tls_verify() > 0 ONLY IF ... *)
Theorem verify_positive_only_if e st r st' lg :
  netw_ok e -> tls_verify e st = (Ret r, st', lg) -> 0 < r ->
  r = 1 /\ e_tls e = true /\ verified st = false /\ e_auth e = false /\ tlsclient st = None /\
  verified st' = true /\ relay st' = relay st /\
  exists name, cert_entitles e name /\ tlsclient st' = Some name.
Proof.
  intros Hn H Hr.
  destruct (tls_verify_cases _ _ _ _ _ Hn H) as [[Ho _]|[[Ft [Fv Fa]] [_ [Hv [Hrel Hc]]]]].
  - injection Ho as ->. lia.
  - destruct (authed_false _ _ Fa) as [Ha Hn0].
    destruct Hc as [[name [Hent [Ho Htc]]]|[_ Hle]].
    + injection Ho as ->. repeat split; auto. exists name. split; assumption.
    + specialize (Hle r eq_refl). lia.
Qed.

(** ... and, for a connection on which the check has not run yet, IF: the function is exactly the specification *)
Lemma tls_check_cert_complete cl e st name subj :
  e_sid e = 1 -> 0 <= e_hs e -> e_verify e = TV_X509_V_OK -> e_peer e = Some subj -> spec_name subj = Some name ->
  name <> [] -> In name (entries cl) -> e_dup e = true ->
  tls_check_cert cl e st = (Ret 1, {| verified := verified st; tlsclient := Some name; relay := relay st |}, [LI; LH; LV; LP; LD]).
Proof.
  intros Hsid Hhs Hv Hp Hs Hne Hin Hd.
  unfold tls_check_cert. rewrite Hsid, Hv, Hp, Hd, select_name_spec, Hs.
  assert (E1 : negb (1 =? TV_SID_OK) = false) by (consts; reflexivity). rewrite E1.
  assert (E2 : (e_hs e =? - TV_ETIMEDOUT) = false) by (apply Z.eqb_neq; consts; lia). rewrite E2.
  assert (E3 : (e_hs e <? 0) = false) by (apply Z.ltb_ge; exact Hhs). rewrite E3.
  rewrite Z.eqb_refl. cbn [negb].
  assert (E4 : Nat.eqb (length name) 0 = false) by (destruct name; [congruence|reflexivity]). rewrite E4.
  rewrite (match_loop_complete _ _ Hin). reflexivity.
Qed.

Theorem verify_complete e st name :
  fresh e st -> cert_entitles e name ->
  tls_verify e st = (Ret 1, {| verified := true; tlsclient := Some name; relay := relay st |}, [LL; LA; LI; LH; LV; LP; LD]).
Proof.
  intros [Ft [Fv Fa]] [_ [cl [subj [Hl [Hca [Hsid [Hhs [Hv [Hp [Hs [Hne [Hin Hd]]]]]]]]]]]].
  unfold tls_verify. rewrite Ft, Fv, Fa, Hl, Hca. cbn [negb orb].
  rewrite (tls_check_cert_complete cl e _ name subj Hsid Hhs Hv Hp Hs Hne Hin Hd). reflexivity.
Qed.

(** a name with an embedded NUL never matches, whatever stands in front of the NUL and whatever tlsclients lists *)
Theorem embedded_nul_never_matches e st o st' lg subj name :
  netw_ok e -> e_peer e = Some subj -> spec_name subj = Some name -> In 0%N name ->
  tls_verify e st = (o, st', lg) -> (forall r, o = Ret r -> r <= 0) /\ tlsclient st' = tlsclient st.
Proof.
  intros Hn Hp Hs Hnul H.
  assert (Hno : forall n, ~ cert_entitles e n).
  { intros n [_ [cl [subj' [_ [_ [_ [_ [_ [Hp' [Hs' [_ [Hin _]]]]]]]]]]]].
    rewrite Hp in Hp'. injection Hp' as <-. rewrite Hs in Hs'. injection Hs' as <-.
    exact (entries_no_nul _ _ Hin Hnul). }
  destruct (tls_verify_cases _ _ _ _ _ Hn H) as [[Ho [Hst _]]|[[_ [_ Fa]] [_ [_ [_ Hc]]]]].
  - subst. split; [|reflexivity]. intros r Hr. injection Hr as <-. lia.
  - destruct (authed_false _ _ Fa) as [_ Hn0].
    destruct Hc as [[n [Hent _]]|[Htc Hle]]; [exfalso; exact (Hno n Hent)|].
    split; [exact Hle|]. rewrite Htc, Hn0. reflexivity.
Qed.

(** fails closed: when any of the steps did not succeed there is no positive result and tlsclient is not set *)
Definition step_failed (e : env) : Prop :=
  e_tls e = false \/ (exists en, e_list e = LErr en) \/ e_list e = LNull \/ e_ca e = false \/ e_sid e <> 1 \/ e_hs e < 0 \/
  e_verify e <> TV_X509_V_OK \/ e_peer e = None \/ e_dup e = false.

Lemma step_failed_not_entitled e name : step_failed e -> ~ cert_entitles e name.
Proof.
  intros Hf [Ht [cl [subj [Hl [Hca [Hsid [Hhs [Hv [Hp [_ [_ [_ Hd]]]]]]]]]]]].
  destruct Hf as [H|[[en H]|[H|[H|[H|[H|[H|[H|H]]]]]]]]; try congruence; try lia.
Qed.

Theorem fails_closed e st o st' lg :
  netw_ok e -> step_failed e -> tls_verify e st = (o, st', lg) ->
  (forall r, o = Ret r -> r <= 0) /\ tlsclient st' = tlsclient st.
Proof.
  intros Hn Hf H.
  destruct (tls_verify_cases _ _ _ _ _ Hn H) as [[Ho [Hst _]]|[[_ [_ Fa]] [_ [_ [_ Hc]]]]].
  - subst. split; [|reflexivity]. intros r Hr. injection Hr as <-. lia.
  - destruct (authed_false _ _ Fa) as [_ Hn0].
    destruct Hc as [[n [Hent _]]|[Htc Hle]]; [exfalso; exact (step_failed_not_entitled _ _ Hf Hent)|].
    split; [exact Hle|]. rewrite Htc, Hn0. reflexivity.
Qed.

(** xmitstat.tlsclient is set exactly when the result is positive *)
Theorem tlsclient_set_exactly_then e st o st' lg :
  netw_ok e -> tls_verify e st = (o, st', lg) ->
  (tlsclient st' <> tlsclient st <-> exists r, o = Ret r /\ 0 < r).
Proof.
  intros Hn H.
  destruct (tls_verify_cases _ _ _ _ _ Hn H) as [[Ho [Hst _]]|[[_ [_ Fa]] [_ [_ [_ Hc]]]]].
  - subst. split; [intros Hne; exfalso; apply Hne; reflexivity|]. intros [r [Hr Hp]]. injection Hr as <-. lia.
  - destruct (authed_false _ _ Fa) as [_ Hn0].
    destruct Hc as [[n [_ [Ho Htc]]]|[Htc Hle]].
    + split; [intros _; exists 1; split; [exact Ho|lia]|]. intros _. rewrite Htc, Hn0. discriminate.
    + split; [intros Hne; exfalso; apply Hne; rewrite Htc, Hn0; reflexivity|].
      intros [r [Hr Hp]]. specialize (Hle r Hr). lia.
Qed.

(** the expensive check: skipped once ssl_verified is set; whoever runs it sets ssl_verified first *)
Theorem checked_once e st :
  verified st = true -> tls_verify e st = (Ret 0, st, []).
Proof. intros Hv. unfold tls_verify. rewrite Hv, orb_true_r. reflexivity. Qed.

Lemma tls_verify_log e st o st' lg :
  tls_verify e st = (o, st', lg) -> (lg = [] /\ st' = st) \/ (In LL lg /\ verified st = false /\ verified st' = true).
Proof.
  unfold tls_verify.
  destruct (negb (e_tls e) || verified st || authed e st)%bool eqn:G.
  { intros H. injection H as <- <- <-. left. split; reflexivity. }
  apply orb_false_iff in G as [G _]. apply orb_false_iff in G as [_ Gv].
  intros H. right.
  destruct (e_list e) as [en| |cl].
  - injection H as <- <- <-. simpl. repeat split; auto.
  - injection H as <- <- <-. simpl. repeat split; auto.
  - destruct (e_ca e); simpl in H.
    + destruct (tls_check_cert cl e {| verified := true; tlsclient := tlsclient st; relay := relay st |}) as [[o2 st2] lg2] eqn:Ec.
      injection H as <- <- <-. split; [left; reflexivity|]. split; [exact Gv|].
      unfold tls_check_cert in Ec.
      repeat match type of Ec with
             | (if ?c then _ else _) = _ => destruct c
             | match ?c with _ => _ end = _ => destruct c
             end; injection Ec as <- <- <-; reflexivity.
    + injection H as <- <- <-. simpl. repeat split; auto.
Qed.

(** ------------------------------------------------------------------ is_authenticated *)

Lemma tls_verify_relay e st o st' lg : tls_verify e st = (o, st', lg) -> relay st' = relay st.
Proof.
  unfold tls_verify.
  destruct (negb (e_tls e) || verified st || authed e st)%bool.
  { intros H. injection H as <- <- <-. reflexivity. }
  destruct (e_list e) as [en| |cl].
  - intros H. injection H as <- <- <-. reflexivity.
  - intros H. injection H as <- <- <-. reflexivity.
  - destruct (e_ca e); simpl.
    + destruct (tls_check_cert cl e {| verified := true; tlsclient := tlsclient st; relay := relay st |}) as [[o2 st2] lg2] eqn:Ec.
      intros H. injection H as <- <- <-.
      unfold tls_check_cert in Ec.
      repeat match type of Ec with
             | (if ?c then _ else _) = _ => destruct c
             | match ?c with _ => _ end = _ => destruct c
             end; injection Ec as <- <- <-; reflexivity.
    + intros H. injection H as <- <- <-. reflexivity.
Qed.

Lemma land1_not_one z : Z.land z 1 = 0 -> z <> 1.
Proof. intros H Hz. subst z. discriminate H. Qed.

(** facts about the certificate stage: what it returns and what it does to relayclient *)
Lemma ia_tls_stage_cases e st lg0 o st' lg :
  netw_ok e -> ia_tls_stage e st lg0 = (o, st', lg) ->
  (* the stage was skipped or the certificate did not entitle: relayclient unchanged *)
  (relay st' = relay st /\ tlsclient st' = tlsclient st \/ relay st' = relay st /\ tlsclient st' = None /\ fresh e st
   \/ (* entitled *) (relay st' = 1 /\ o = Ret 1 /\ fresh e st /\ In LL lg /\ exists name, cert_entitles e name /\ tlsclient st' = Some name))
  /\ (forall r, o = Ret r -> r < 0 -> relay st' <> 1)
  /\ (forall en, o = Die en -> relay st' <> 1)
  /\ (forall r, o = Ret r -> 0 < r -> r = 1 /\ relay st' = 1)
  /\ ((exists l1, lg = lg0 ++ l1 /\ (l1 = [] /\ verified st' = verified st \/ In LL l1 /\ verified st = false /\ verified st' = true))).
Proof.
  intros Hn. unfold ia_tls_stage.
  destruct (Z.eqb (Z.land (relay st) 1) 0) eqn:Eodd.
  2:{ intros H. injection H as <- <- <-.
      split; [left; split; reflexivity|].
      split; [intros r Hr Hneg; injection Hr as <-; destruct (Z.eqb (relay st) 1); lia|].
      split; [intros en Hd; discriminate Hd|].
      split; [intros r Hr Hp; injection Hr as <-; destruct (Z.eqb (relay st) 1) eqn:E1; [apply Z.eqb_eq in E1; tauto|lia]|].
      exists []. rewrite app_nil_r. split; [reflexivity|left; split; reflexivity]. }
  apply Z.eqb_eq in Eodd. pose proof (land1_not_one _ Eodd) as Hne1.
  destruct (tls_verify e st) as [[o1 st1] lg1] eqn:Etv.
  pose proof (tls_verify_relay _ _ _ _ _ Etv) as Hrel.
  pose proof (tls_verify_log _ _ _ _ _ Etv) as Hlog.
  assert (Hlg : exists l1, lg0 ++ lg1 = lg0 ++ l1 /\ (l1 = [] /\ verified st1 = verified st \/ In LL l1 /\ verified st = false /\ verified st1 = true)).
  { exists lg1. split; [reflexivity|]. destruct Hlog as [[-> ->]|Hl]; [left; split; reflexivity|right; exact Hl]. }
  destruct (tls_verify_cases _ _ _ _ _ Hn Etv) as [[Ho [Hst [Hl0 _]]]|[Hfr [HLL [Hv [_ Hc]]]]].
  - subst o1 st1 lg1. simpl. unfold set_relay; simpl.
    intros H. injection H as <- <- <-; simpl.
    replace (relay st =? 1) with false by (symmetry; apply Z.eqb_neq; exact Hne1).
    split; [left; split; reflexivity|].
    split; [intros r Hr Hneg; exact Hne1|].
    split; [intros en Hd; discriminate Hd|].
    split; [intros r Hr Hp; injection Hr as <-; lia|].
    exact Hlg.
  - destruct Hc as [[name [Hent [Ho Htc]]]|[Htc Hle]].
    + subst o1. simpl. unfold set_relay; simpl.
      intros H. injection H as <- <- <-; simpl.
      split; [right; right; split; [reflexivity|]; split; [reflexivity|]; split; [exact Hfr|]; split; [apply in_or_app; right; exact HLL|]; exists name; split; assumption|].
      split; [intros r Hr Hneg; injection Hr as <-; lia|].
      split; [intros en Hd; discriminate Hd|].
      split; [intros r Hr Hp; injection Hr as <-; split; reflexivity|].
      exact Hlg.
    + destruct o1 as [i|en].
      * specialize (Hle i eq_refl).
        destruct (Z.ltb i 0) eqn:Ei.
        -- intros H. injection H as <- <- <-.
           split; [right; left; split; [first [exact Hrel | reflexivity]|]; split; [exact Htc|exact Hfr]|].
           split; [intros r Hr Hneg; rewrite Hrel; exact Hne1|].
           split; [intros en Hd; discriminate Hd|].
           split; [intros r Hr Hp; injection Hr as <-; apply Z.ltb_lt in Ei; lia|].
           exact Hlg.
        -- apply Z.ltb_ge in Ei. assert (i = 0) by lia. subst i. simpl. unfold set_relay; simpl.
           intros H. injection H as <- <- <-; simpl. rewrite Hrel.
           replace (relay st =? 1) with false by (symmetry; apply Z.eqb_neq; exact Hne1).
           split; [right; left; split; [first [exact Hrel | reflexivity]|]; split; [exact Htc|exact Hfr]|].
           split; [intros r Hr Hneg; exact Hne1|].
           split; [intros en Hd; discriminate Hd|].
           split; [intros r Hr Hp; injection Hr as <-; lia|].
           exact Hlg.
      * intros H. injection H as <- <- <-.
        split; [right; left; split; [first [exact Hrel | reflexivity]|]; split; [exact Htc|exact Hfr]|].
        split; [intros r Hr Hneg; discriminate Hr|].
        split; [intros en' Hd; rewrite Hrel; exact Hne1|].
        split; [intros r Hr Hp; discriminate Hr|].
        exact Hlg.
Qed.

(** an error result (or a process that dies) never leaves relayclient = 1; no assumption on any oracle *)
Lemma ia_tls_stage_failed e st lg0 o st' lg :
  ia_tls_stage e st lg0 = (o, st', lg) -> failed o = true -> relay st' <> 1.
Proof.
  unfold ia_tls_stage.
  destruct (Z.eqb (Z.land (relay st) 1) 0) eqn:Eodd.
  2:{ intros H. injection H as <- <- <-. simpl. destruct (Z.eqb (relay st) 1); discriminate. }
  apply Z.eqb_eq in Eodd. pose proof (land1_not_one _ Eodd) as Hne1.
  destruct (tls_verify e st) as [[o1 st1] lg1] eqn:Etv.
  pose proof (tls_verify_relay _ _ _ _ _ Etv) as Hrel.
  destruct o1 as [i|en].
  - destruct (Z.ltb i 0) eqn:Ei.
    + intros H. injection H as <- <- <-. intros _. rewrite Hrel. exact Hne1.
    + intros H. injection H as <- <- <-. simpl.
      destruct (Z.eqb (if Z.eqb i 0 then relay st1 else 1) 1); discriminate.
  - intros H. injection H as <- <- <-. intros _. rewrite Hrel. exact Hne1.
Qed.

Theorem error_never_entitles e st o st' lg :
  is_authenticated e st = (o, st', lg) -> failed o = true -> relay st' <> 1.
Proof.
  unfold is_authenticated.
  destruct (authed e st); [intros H; injection H as <- <- <-; discriminate|].
  destruct (Z.eqb (relay st) 0).
  - destruct (Z.ltb (e_ipbl e) 0).
    + intros H. injection H as <- <- <-. intros _. simpl. discriminate.
    + apply ia_tls_stage_failed.
  - apply ia_tls_stage_failed.
Qed.

Definition by_cert (e : env) (st st' : state) (lg : list N) : Prop :=
  exists name, cert_entitles e name /\ tlsclient st' = Some name /\ verified st = false /\ authed e st = false /\ In LL lg.

Lemma fresh_set_relay e st v : fresh e (set_relay st v) <-> fresh e st.
Proof. unfold fresh, authed, set_relay; simpl. tauto. Qed.

(** everything the checker looks at, for one call of either function *)
Ltac bycert name := exists name; split; [assumption|]; split; [assumption|]; split; [assumption|]; split; assumption.

Lemma call_facts o e st out st' lg :
  netw_ok e -> call o e st = (out, st', lg) ->
  (tlsclient st' = tlsclient st \/ (o = OpFree /\ tlsclient st' = None) \/ (by_cert e st st' lg /\ out = Ret 1))
  /\ (In LL lg -> verified st = false /\ verified st' = true)
  /\ (verified st = true -> verified st' = true)
  /\ match o with
     | OpVerify => (positive out = true -> by_cert e st st' lg) /\ relay st' = relay st
     | OpFree => out = Ret 0 /\ st' = freedata st /\ lg = []
     | OpIsAuth =>
         (relay st' = 1 -> relay st = 1 \/ (relay st = 0 /\ 0 < e_ipbl e /\ authed e st = false) \/ by_cert e st st' lg)
         /\ (failed out = true -> relay st' <> 1)
         /\ (positive out = true -> out = Ret 1 /\ (authed e st = true \/ relay st' = 1))
     end.
Proof.
  intros Hn. destruct o; simpl.
  - (* tls_verify *)
    intros H.
    pose proof (tls_verify_relay _ _ _ _ _ H) as Hrel.
    pose proof (tls_verify_log _ _ _ _ _ H) as Hlog.
    destruct (tls_verify_cases _ _ _ _ _ Hn H) as [[Ho [Hst [Hl0 _]]]|[[Ft [Fv Fa]] [HLL [Hv [_ Hc]]]]].
    + subst. split; [left; reflexivity|]. split; [intros []|]. split; [tauto|]. split; [discriminate|reflexivity].
    + destruct (authed_false _ _ Fa) as [_ Hn0].
      split.
      { destruct Hc as [[name [Hent [Ho Htc]]]|[Htc _]].
        - right. right. split; [|exact Ho]. bycert name.
        - left. rewrite Htc, Hn0. reflexivity. }
      split; [intros _; split; assumption|]. split; [intros _; exact Hv|].
      split; [|exact Hrel].
      destruct Hc as [[name [Hent [Ho Htc]]]|[_ Hle]].
      * intros _. bycert name.
      * destruct out as [r|en]; simpl; [|discriminate]. intros Hp. apply Z.ltb_lt in Hp. specialize (Hle r eq_refl). lia.
  - (* is_authenticated *)
    intros H. pose proof (error_never_entitles _ _ _ _ _ H) as Herr.
    unfold is_authenticated in H.
    destruct (authed e st) eqn:Ea.
    { injection H as <- <- <-. split; [left; reflexivity|]. split; [intros []|]. split; [tauto|].
      split; [intros Hr; left; exact Hr|]. split; [exact Herr|]. intros _. split; [reflexivity|left; reflexivity]. }
    assert (Hstage : forall st0 lg0, ~ In LL lg0 -> verified st0 = verified st -> tlsclient st0 = tlsclient st ->
              ia_tls_stage e st0 lg0 = (out, st', lg) ->
              (tlsclient st' = tlsclient st \/ (OpIsAuth = OpFree /\ tlsclient st' = None) \/ (by_cert e st st' lg /\ out = Ret 1))
              /\ (In LL lg -> verified st = false /\ verified st' = true)
              /\ (verified st = true -> verified st' = true)
              /\ (relay st' = 1 -> relay st0 = 1 \/ by_cert e st st' lg)
              /\ (positive out = true -> out = Ret 1 /\ relay st' = 1)).
    { intros st0 lg0 Hnl Hv0 Ht0 Hs.
      destruct (ia_tls_stage_cases _ _ _ _ _ _ Hn Hs) as [Hc [_ [_ [Hpos [l1 [Hlg Hl1]]]]]].
      assert (Hfr0 : fresh e st0 -> fresh e st).
      { unfold fresh, authed. rewrite Hv0, Ht0. tauto. }
      split.
      { destruct Hc as [[_ Htc]|[[_ [Htc Hf]]|[_ [Ho [Hf [HLL [name [Hent Htc]]]]]]]].
        - left. rewrite Htc. exact Ht0.
        - left. destruct (Hfr0 Hf) as [_ [_ Fa]]. destruct (authed_false _ _ Fa) as [_ Hn0]. rewrite Htc, Hn0. reflexivity.
        - right. right. split; [|exact Ho]. destruct (Hfr0 Hf) as [_ [Fv Fa]]. bycert name. }
      split.
      { intros HLL. subst lg. apply in_app_or in HLL as [HLL|HLL]; [tauto|].
        destruct Hl1 as [[-> _]|[_ [Hvf Hvt]]]; [destruct HLL|]. rewrite <- Hv0. split; assumption. }
      split.
      { intros Hvt. destruct Hl1 as [[_ Hveq]|[_ [_ Hvt']]]; [rewrite Hveq, Hv0; exact Hvt|exact Hvt']. }
      split.
      { intros Hr1. destruct Hc as [[Hrel _]|[[Hrel _]|[_ [_ [Hf [HLL [name [Hent Htc]]]]]]]].
        - left. rewrite <- Hrel. exact Hr1.
        - left. rewrite <- Hrel. exact Hr1.
        - right. destruct (Hfr0 Hf) as [_ [Fv Fa]]. bycert name. }
      destruct out as [r|en]; simpl; [|discriminate].
      intros Hp. apply Z.ltb_lt in Hp. destruct (Hpos r eq_refl Hp) as [-> Hr1]. split; [reflexivity|exact Hr1]. }
    assert (HnLB : ~ In LL [LB]) by (intros [Hx|[]]; discriminate Hx).
    destruct (Z.eqb (relay st) 0) eqn:E0.
    + apply Z.eqb_eq in E0.
      destruct (Z.ltb (e_ipbl e) 0) eqn:Ei.
      * injection H as <- <- <-. simpl.
        split; [left; reflexivity|]. split; [intros [Hx|[]]; discriminate Hx|]. split; [tauto|].
        split; [discriminate|]. split; [exact Herr|]. intros Hp. apply Z.ltb_lt in Hp. apply Z.ltb_lt in Ei. lia.
      * destruct (Hstage (set_relay st (if 0 <? e_ipbl e then 1 else 2)) [LB] HnLB eq_refl eq_refl H) as [H1 [H2 [H3 [H4 H5]]]].
        split; [exact H1|]. split; [exact H2|]. split; [exact H3|].
        split.
        { intros Hr1. destruct (H4 Hr1) as [Hs0|Hbc]; [|right; right; exact Hbc].
          simpl in Hs0. destruct (Z.ltb 0 (e_ipbl e)) eqn:Ep; [|discriminate Hs0].
          apply Z.ltb_lt in Ep. right. left. repeat split; auto. }
        split; [exact Herr|]. intros Hp. destruct (H5 Hp) as [Ho Hr1]. split; [exact Ho|right; exact Hr1].
    + assert (HnNil : ~ In LL []) by (intros []).
      destruct (Hstage st [] HnNil eq_refl eq_refl H) as [H1 [H2 [H3 [H4 H5]]]].
      split; [exact H1|]. split; [exact H2|]. split; [exact H3|].
      split; [intros Hr1; destruct (H4 Hr1) as [Hs0|Hbc]; [left; exact Hs0|right; right; exact Hbc]|].
      split; [exact Herr|]. intros Hp. destruct (H5 Hp) as [Ho Hr1]. split; [exact Ho|right; exact Hr1].
  - (* freedata *)
    intros H. injection H as <- <- <-. simpl.
    split; [right; left; split; reflexivity|]. split; [intros []|]. split; [tauto|]. repeat split.
Qed.

Theorem relayclient_only_if e st o st' lg :
  netw_ok e -> is_authenticated e st = (o, st', lg) -> relay st' = 1 ->
  relay st = 1 \/ (relay st = 0 /\ 0 < e_ipbl e /\ authed e st = false) \/ by_cert e st st' lg.
Proof. intros Hn H. destruct (call_facts OpIsAuth _ _ _ _ _ Hn H) as [_ [_ [_ [H4 _]]]]. exact H4. Qed.

Theorem is_authenticated_positive_only_if e st r st' lg :
  netw_ok e -> is_authenticated e st = (Ret r, st', lg) -> 0 < r ->
  r = 1 /\ (authed e st = true \/ relay st' = 1).
Proof.
  intros Hn H Hr. destruct (call_facts OpIsAuth _ _ _ _ _ Hn H) as [_ [_ [_ [_ [_ H6]]]]].
  assert (Hp : positive (Ret r) = true) by (apply Z.ltb_lt; exact Hr).
  destruct (H6 Hp) as [Ho Hd]. injection Ho as ->. split; [reflexivity|exact Hd].
Qed.

(** ------------------------------------------------------------------ sequences of calls on one connection *)

Lemma ran_check_In lg : ran_check lg = true <-> In LL lg.
Proof.
  unfold ran_check. rewrite existsb_exists. split.
  - intros [x [H1 H2]]. apply N.eqb_eq in H2. subst x. exact H1.
  - intros H. exists LL. split; [exact H|apply N.eqb_refl].
Qed.

Lemma ia_tls_stage_log e st lg0 o st' lg :
  ia_tls_stage e st lg0 = (o, st', lg) ->
  exists l1, lg = lg0 ++ l1 /\
    ((l1 = [] /\ verified st' = verified st /\ tlsclient st' = tlsclient st) \/ (In LL l1 /\ verified st = false /\ verified st' = true)).
Proof.
  unfold ia_tls_stage.
  destruct (Z.eqb (Z.land (relay st) 1) 0).
  2:{ intros H. injection H as <- <- <-. exists []. rewrite app_nil_r. split; [reflexivity|]. left. repeat split. }
  destruct (tls_verify e st) as [[o1 st1] lg1] eqn:Etv.
  pose proof (tls_verify_log _ _ _ _ _ Etv) as Hlog.
  assert (Hx : forall st2, verified st2 = verified st1 -> tlsclient st2 = tlsclient st1 ->
            exists l1, lg0 ++ lg1 = lg0 ++ l1 /\
              ((l1 = [] /\ verified st2 = verified st /\ tlsclient st2 = tlsclient st) \/ (In LL l1 /\ verified st = false /\ verified st2 = true))).
  { intros st2 Hv2 Ht2. exists lg1. split; [reflexivity|].
    destruct Hlog as [[-> ->]|[HLL [Hvf Hvt]]]; [left; repeat split; assumption|right; rewrite Hv2; repeat split; assumption]. }
  destruct o1 as [i|en].
  - destruct (Z.ltb i 0).
    + intros H. injection H as <- <- <-. apply Hx; reflexivity.
    + intros H. injection H as <- <- <-. apply Hx; reflexivity.
  - intros H. injection H as <- <- <-. apply Hx; reflexivity.
Qed.

(** no assumption on the oracles: the check runs only with ssl_verified clear and sets it; a call that does not run it
    leaves ssl_verified and xmitstat.tlsclient alone *)
Lemma call_log o e st out st' lg :
  call o e st = (out, st', lg) ->
  (In LL lg -> verified st = false /\ verified st' = true) /\
  (~ In LL lg -> verified st' = verified st /\ (tlsclient st' = tlsclient st \/ tlsclient st' = None)).
Proof.
  assert (HnLB : forall l1, In LL ([LB] ++ l1) -> In LL l1).
  { intros l1 [Hx|Hx]; [discriminate Hx|exact Hx]. }
  destruct o; simpl.
  - intros H. destruct (tls_verify_log _ _ _ _ _ H) as [[-> ->]|[HLL [Hvf Hvt]]].
    + split; [intros []|]. intros _. split; [reflexivity|left; reflexivity].
    + split; [intros _; split; assumption|]. intros Hn. exfalso. exact (Hn HLL).
  - unfold is_authenticated.
    destruct (authed e st).
    { intros H. injection H as <- <- <-. split; [intros []|]. intros _. split; [reflexivity|left; reflexivity]. }
    destruct (Z.eqb (relay st) 0).
    + destruct (Z.ltb (e_ipbl e) 0).
      * intros H. injection H as <- <- <-. simpl. split; [intros [Hx|[]]; discriminate Hx|]. intros _. split; [reflexivity|left; reflexivity].
      * intros H. destruct (ia_tls_stage_log _ _ _ _ _ _ H) as [l1 [-> Hl]]. simpl in Hl.
        destruct Hl as [[-> [Hv Ht]]|[HLL [Hvf Hvt]]].
        -- split; [intros Hin; apply HnLB in Hin; destruct Hin|]. intros _. split; [assumption|left; assumption].
        -- split; [intros _; split; assumption|]. intros Hn. exfalso. apply Hn. apply in_or_app. right. exact HLL.
    + intros H. destruct (ia_tls_stage_log _ _ _ _ _ _ H) as [l1 [-> Hl]]. simpl.
      destruct Hl as [[-> [Hv Ht]]|[HLL [Hvf Hvt]]].
      * split; [intros []|]. intros _. split; [assumption|left; assumption].
      * split; [intros _; split; assumption|]. intros Hn. exfalso. exact (Hn HLL).
  - intros H. injection H as <- <- <-. simpl. split; [intros []|]. intros _. split; [reflexivity|right; reflexivity].
Qed.

Lemma run_cons o e cs st :
  run ((o, e) :: cs) st =
  match fst (fst (call o e st)) with Die _ => [call o e st] | Ret _ => call o e st :: run cs (snd (fst (call o e st))) end.
Proof. reflexivity. Qed.

(** once ssl_verified is set - whatever the result of the check was, in particular after a negative one - no later call
    runs the check and none gives xmitstat.tlsclient a name it did not have: a first "no" is never retried into a "yes" *)
Theorem no_retry cs : forall st,
  verified st = true ->
  Forall (fun res => verified (snd (fst res)) = true /\
                     (forall n, tlsclient (snd (fst res)) = Some n -> tlsclient st = Some n) /\ ~ In LL (snd res)) (run cs st).
Proof.
  induction cs as [|[o e] cs IH]; intros st Hv; [constructor|].
  rewrite run_cons. destruct (call o e st) as [[out st'] lg] eqn:Ec. simpl.
  destruct (call_log _ _ _ _ _ _ Ec) as [H1 H2].
  assert (Hnl : ~ In LL lg) by (intros Hin; destruct (H1 Hin) as [Hf _]; congruence).
  destruct (H2 Hnl) as [Hv' Ht'].
  assert (Hv1 : verified st' = true) by congruence.
  assert (Hname : forall n, tlsclient st' = Some n -> tlsclient st = Some n).
  { intros n Hn. destruct Ht' as [Ht'|Ht']; [rewrite <- Ht'; exact Hn|congruence]. }
  assert (Hhead : verified st' = true /\ (forall n, tlsclient st' = Some n -> tlsclient st = Some n) /\ ~ In LL lg)
    by (split; [exact Hv1|split; [exact Hname|exact Hnl]]).
  destruct out as [r|en].
  - constructor; [exact Hhead|].
    specialize (IH st' Hv1). eapply Forall_impl; [|exact IH].
    intros res [R1 [R2 R3]]. split; [exact R1|]. split; [|exact R3]. intros n Hn. exact (Hname n (R2 n Hn)).
  - constructor; [exact Hhead|constructor].
Qed.

(** the expensive check runs at most once per connection, for every sequence of calls and every start state *)
Theorem check_at_most_once cs : forall st,
  (length (filter (fun res => ran_check (snd res)) (run cs st)) <= 1)%nat.
Proof.
  induction cs as [|[o e] cs IH]; intros st; [simpl; lia|].
  rewrite run_cons. destruct (call o e st) as [[out st'] lg] eqn:Ec. simpl.
  destruct (call_log _ _ _ _ _ _ Ec) as [H1 H2].
  destruct (ran_check lg) eqn:Er.
  - apply ran_check_In in Er. destruct (H1 Er) as [_ Hvt].
    destruct out as [r|en]; simpl; rewrite (proj2 (ran_check_In lg) Er); simpl; [|lia].
    assert (Hz : filter (fun res => ran_check (snd res)) (run cs st') = []).
    { pose proof (no_retry cs st' Hvt) as Hf.
      induction Hf as [|x l [_ [_ Hx]] _ IHf]; [reflexivity|]. simpl.
      destruct (ran_check (snd x)) eqn:Ex; [apply ran_check_In in Ex; contradiction|exact IHf]. }
    rewrite Hz. simpl. lia.
  - destruct out as [r|en]; simpl; rewrite Er; [apply IH|simpl; lia].
Qed.

(** the whole connection: xmitstat.tlsclient and relayclient = 1 always go back to a call whose oracles entitled *)
Theorem connection cs : forall st,
  Forall (fun oe => netw_ok (snd oe)) cs ->
  Forall (fun res =>
            (forall name, tlsclient (snd (fst res)) = Some name ->
               tlsclient st = Some name \/ exists oe, In oe cs /\ cert_entitles (snd oe) name)
            /\ (relay (snd (fst res)) = 1 ->
               relay st = 1 \/ exists oe, In oe cs /\ fst oe = OpIsAuth /\ (0 < e_ipbl (snd oe) \/ exists name, cert_entitles (snd oe) name)))
         (run cs st).
Proof.
  induction cs as [|[o e] cs IH]; intros st Hok; [constructor|].
  inversion Hok as [|x l Hn Hok']; subst. simpl in Hn.
  rewrite run_cons. destruct (call o e st) as [[out st'] lg] eqn:Ec. simpl.
  destruct (call_facts _ _ _ _ _ _ Hn Ec) as [F1 [_ [_ F4]]].
  assert (Hhead :
    (forall name, tlsclient st' = Some name -> tlsclient st = Some name \/ exists oe, In oe ((o, e) :: cs) /\ cert_entitles (snd oe) name)
    /\ (relay st' = 1 -> relay st = 1 \/ exists oe, In oe ((o, e) :: cs) /\ fst oe = OpIsAuth /\
                                      (0 < e_ipbl (snd oe) \/ exists name, cert_entitles (snd oe) name))).
  { split.
    - intros name Ht. destruct F1 as [Heq|[[_ Hnone]|[[n [Hent [Htc _]]] _]]].
      + left. rewrite <- Heq. exact Ht.
      + congruence.
      + right. exists (o, e). split; [left; reflexivity|]. simpl. rewrite Htc in Ht. injection Ht as <-. exact Hent.
    - intros Hr1. destruct o.
      + destruct F4 as [_ Hrel]. left. rewrite <- Hrel. exact Hr1.
      + destruct F4 as [Hr [_ _]]. destruct (Hr Hr1) as [H1|[[_ [Hip _]]|[n [Hent _]]]].
        * left. exact H1.
        * right. exists (OpIsAuth, e). split; [left; reflexivity|]. split; [reflexivity|]. left. exact Hip.
        * right. exists (OpIsAuth, e). split; [left; reflexivity|]. split; [reflexivity|]. right. exists n. exact Hent.
      + destruct F4 as [_ [Hst _]]. left. rewrite Hst in Hr1. exact Hr1. }
  assert (Hrest : out = out -> Forall (fun res =>
            (forall name, tlsclient (snd (fst res)) = Some name ->
               tlsclient st = Some name \/ exists oe, In oe ((o, e) :: cs) /\ cert_entitles (snd oe) name)
            /\ (relay (snd (fst res)) = 1 ->
               relay st = 1 \/ exists oe, In oe ((o, e) :: cs) /\ fst oe = OpIsAuth /\ (0 < e_ipbl (snd oe) \/ exists name, cert_entitles (snd oe) name)))
         (run cs st')).
  { intros _. specialize (IH st' Hok'). destruct Hhead as [Hh1 Hh2].
    eapply Forall_impl; [|exact IH]. intros res [R1 R2]. split.
    - intros name Ht. destruct (R1 name Ht) as [Hs|[oe [Hin Hent]]].
      + exact (Hh1 name Hs).
      + right. exists oe. split; [right; exact Hin|exact Hent].
    - intros Hr1. destruct (R2 Hr1) as [Hs|[oe [Hin Hx]]].
      + exact (Hh2 Hs).
      + right. exists oe. split; [right; exact Hin|exact Hx]. }
  destruct out as [r|en].
  - constructor; [exact Hhead|exact (Hrest eq_refl)].
  - constructor; [exact Hhead|constructor].
Qed.

(** ------------------------------------------------------------------ the checker accepts the model *)

Lemma impl_b (a b : bool) : (a = true -> b = true) -> (negb a || b)%bool = true.
Proof. destruct a; simpl; auto. Qed.

Lemma opt_bytes_eqb_refl a : opt_bytes_eqb a a = true.
Proof. destruct a as [x|]; simpl; [apply bytes_eqb_eq; reflexivity|reflexivity]. Qed.

Lemma by_cert_b e st st' lg :
  by_cert e st st' lg ->
  match entitled_b e with
  | Some n => (opt_bytes_eqb (tlsclient st') (Some n) && negb (verified st) && negb (authed e st) && ran_check lg)%bool
  | None => false
  end = true.
Proof.
  intros [name [Hent [Htc [Hv [Ha HLL]]]]].
  apply entitled_b_iff in Hent. rewrite Hent, Htc, Hv, Ha. simpl.
  replace (bytes_eqb name name) with true by (symmetry; apply bytes_eqb_eq; reflexivity).
  rewrite (proj2 (ran_check_In lg) HLL). reflexivity.
Qed.

Lemma check_call_sound o e st :
  netw_ok e -> check_call o e st (obs_of (call o e st)) = true.
Proof.
  intros Hn. destruct (call o e st) as [[out st'] lg] eqn:Ec.
  destruct (call_facts _ _ _ _ _ _ Hn Ec) as [F1 [F2 [F3 F4]]].
  assert (Hfree : o = OpFree -> check_call o e st (obs_of (out, st', lg)) = true).
  { intros ->. destruct F4 as [-> [-> ->]]. unfold check_call, obs_of; simpl.
    rewrite Bool.eqb_reflx, Z.eqb_refl. reflexivity. }
  destruct o; [| |exact (Hfree eq_refl)].
  all: unfold check_call, obs_of; simpl.
  all: set (bc := match entitled_b e with
             | Some n => (opt_bytes_eqb (tlsclient st') (Some n) && negb (verified st) && negb (authed e st) && ran_check lg)%bool
             | None => false end).
  all: assert (Hbc : by_cert e st st' lg -> bc = true) by (apply by_cert_b).
  all: apply andb_true_iff; split; [apply andb_true_iff; split; [apply andb_true_iff; split|]|].
  all: try (destruct F1 as [Heq|[[Hx _]|[Hb Ho]]];
            [rewrite Heq, opt_bytes_eqb_refl; reflexivity | discriminate Hx | rewrite (Hbc Hb), Ho; simpl; rewrite ?orb_true_r; reflexivity]).
  all: try (apply impl_b; intros Hr; apply ran_check_In in Hr; destruct (F2 Hr) as [Hvf Hvt]; rewrite Hvf, Hvt; reflexivity).
  all: try (apply impl_b; exact F3).
  - destruct F4 as [Hp Hrel]. apply andb_true_iff. split.
    + apply impl_b. intros Hpos. exact (Hbc (Hp Hpos)).
    + apply Z.eqb_eq. exact Hrel.
  - destruct F4 as [Hr [Hf Hp]].
    apply andb_true_iff. split; [apply andb_true_iff; split|].
    + destruct (Z.eqb (relay st') 1) eqn:E1; [|reflexivity]. simpl.
      apply Z.eqb_eq in E1. destruct (Hr E1) as [H1|[[H0 [Hip Ha]]|Hb]].
      * rewrite H1. reflexivity.
      * rewrite H0, Ha. replace (0 <? e_ipbl e) with true by (symmetry; apply Z.ltb_lt; exact Hip). simpl. rewrite ?orb_true_r. reflexivity.
      * rewrite (Hbc Hb). rewrite ?orb_true_r. reflexivity.
    + apply impl_b. intros Hfl. apply negb_true_iff. apply Z.eqb_neq. exact (Hf Hfl).
    + apply impl_b. intros Hpos. destruct (Hp Hpos) as [Ho Hd]. rewrite Ho. simpl.
      destruct Hd as [Ha|H1]; [rewrite Ha; reflexivity|]. rewrite H1. simpl. rewrite ?orb_true_r. reflexivity.
Qed.

Lemma pre_ok_Forall cs : pre_ok cs = true -> Forall (fun oe => netw_ok (snd oe)) cs.
Proof.
  unfold pre_ok. intros H. apply Forall_forall. intros oe Hin.
  rewrite forallb_forall in H. specialize (H oe Hin). apply Z.leb_le in H. exact H.
Qed.

(** soundness of the checker with respect to the model: whatever it rejects on the C output is a deviation from the model *)
Theorem checker_sound cs : forall st,
  pre_ok cs = true -> spec_ok_C01t cs st (map obs_of (run cs st)) = true.
Proof.
  induction cs as [|[o e] cs IH]; intros st Hpre; [reflexivity|].
  pose proof (pre_ok_Forall _ Hpre) as Hok. inversion Hok as [|x l Hn Hok']; subst. simpl in Hn.
  assert (Hpre' : pre_ok cs = true) by (unfold pre_ok in *; simpl in Hpre; apply andb_true_iff in Hpre; tauto).
  rewrite run_cons. pose proof (check_call_sound o e st Hn) as Hc.
  destruct (call o e st) as [[out st'] lg] eqn:Ec. simpl fst. simpl snd.
  destruct out as [r|en].
  - cbn [map spec_ok_C01t]. rewrite Hc. unfold obs_of at 1. cbn [ob_out andb].
    replace (obs_state (obs_of (Ret r, st', lg))) with st' by (destruct st'; reflexivity).
    apply IH. exact Hpre'.
  - cbn [map spec_ok_C01t]. rewrite Hc. reflexivity.
Qed.

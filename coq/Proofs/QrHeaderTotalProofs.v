(** qremote/qrdata.c, literal model, the header part of the recoding path: send_wrapped, wrap_header,
    the header scan and qp_header return (no [Crash]: no read outside the message mapping, no store
    outside a staging buffer; no [OutOfFuel]) for every window inside the mapping. *)
From Qv Require Import Common.Bytes Gen.GenQrdata Model.Mime Model.QrData Proofs.QrMemLemmas
  Proofs.QrPlainProofs Proofs.QrNeedRecodeProofs Proofs.QrWrapLineProofs Proofs.MimeTotalProofs.
Require Import Lia.

Lemma send_plain_total m b len st : b + len <= length m -> exists st', send_plain m b len st = Ok st'.
Proof. intros H. destruct (send_plain_ok m b len H st) as (st' & E & _). eauto. Qed.

Lemma need_recode_total m b len : b + len <= length m -> exists fl, need_recode m b len = Ok fl.
Proof. intros H. eexists. apply need_recode_ok. exact H. Qed.

(* ------------------------------------------------------------------ send_wrapped, wrap_header *)
Lemma send_wrapped_total m b len pos off ll l st :
  b + len <= length m -> pos + off + ll + l <= len ->
  exists pos' off' ll' st', send_wrapped m b pos off ll l st = Ok (pos', off', ll', st') /\
    pos' + off' + ll' = pos + off + ll + l.
Proof.
  intros Hw Hin. unfold send_wrapped. destruct (Nat.ltb_spec ll SW_LIMIT) as [Hs|Hlong].
  - do 4 eexists. split; [reflexivity|]. lia.
  - destruct (send_plain_total m (b + pos) off st) as (st1 & E1); [lia|]. rewrite E1. cbn [bind].
    assert (Hwl : b + (pos + off) + ll <= length m) by lia.
    destruct (wrap_line_ok m (b + (pos + off)) ll Hwl st1) as (st2 & fs & E2 & _).
    { unfold WL_LONG, SW_LIMIT in *. lia. }
    rewrite E2. cbn [bind]. rewrite Nat.eqb_refl. cbn [negb].
    do 4 eexists. split; [reflexivity|]. lia.
Qed.

Lemma wh_loop_total m b len : b + len <= length m -> forall fuel pos off ll st,
  pos + off + ll <= len -> len - (pos + off + ll) < fuel ->
  exists pos' off' ll' st', wh_loop fuel m b len pos off ll st = Ok (pos', off', ll', st') /\ pos' + off' + ll' <= len.
Proof.
  intros Hw. induction fuel as [|fuel IH]; intros pos off ll st Hin Hf.
  - destruct (Nat.ltb_spec (pos + off + ll) len); [lia|]. cbn [wh_loop].
    destruct (Nat.ltb_spec (pos + off + ll) len); [lia|]. do 4 eexists. split; [reflexivity|lia].
  - cbn [wh_loop]. destruct (Nat.ltb_spec (pos + off + ll) len) as [Hlt|Hge].
    2: { do 4 eexists. split; [reflexivity|lia]. }
    rewrite rd_at by lia. cbn [bind]. cbv zeta.
    set (l0 := if N.eqb (at_ m (b + (pos + off + ll))) CR then 1 else 0).
    assert (Hl0 : l0 <= 1) by (unfold l0; destruct (N.eqb _ CR); lia).
    assert (Hl : exists l, (if Nat.ltb (pos + off + ll + l0) len then
                   do c2 <- rd m (b + (pos + off + ll + l0)); Ok (if N.eqb c2 LF then S l0 else l0)
                 else Ok l0) = Ok l /\ pos + off + ll + l <= len).
    { destruct (Nat.ltb_spec (pos + off + ll + l0) len) as [H2|H2].
      - rewrite rd_at by lia. cbn [bind]. destruct (N.eqb _ LF); eexists; split; try reflexivity; lia.
      - eexists. split; [reflexivity|]. lia. }
    destruct Hl as (l & El & Hlin). rewrite El. cbn [bind].
    destruct (Nat.eqb_spec l 0) as [Hz|Hnz].
    + apply IH; lia.
    + destruct (send_wrapped_total m b len pos off ll l st Hw Hlin) as (p' & o' & l' & st' & E & Hsum).
      rewrite E. cbn [bind]. apply IH; lia.
Qed.

Theorem wrap_header_total m b len st : b + len <= length m -> exists st', wrap_header m b len st = Ok st'.
Proof.
  intros Hw. unfold wrap_header.
  destruct (need_recode_total m b len Hw) as (fl & Efl). rewrite Efl. cbn [bind].
  destruct (negb (fhdr fl)); [apply send_plain_total; exact Hw|].
  destruct (wh_loop_total m b len Hw (2 * len + 2) 0 0 0 st) as (pos & off & ll & st1 & E1 & Hin); [lia|lia|].
  rewrite E1. cbn [bind].
  destruct (send_wrapped_total m b len pos off ll 0 st1 Hw) as (p' & o' & l' & st2 & E2 & Hsum); [lia|].
  rewrite E2. cbn [bind]. apply send_plain_total. lia.
Qed.

(* ------------------------------------------------------------------ the header scan *)
(** what the scan knows about a field it has recorded: nothing, or a field of more than CT_LEN octets
    inside the window that ends with a line end *)
Definition fld_inv (m : bytes) (b len : nat) (f : nat * nat) : Prop :=
  snd f = 0 \/ (CT_LEN < snd f /\ fst f + snd f <= len /\ field_ok m (b + fst f) (snd f)).

Lemma matched_not_eol (c x : N) (lit : bytes) :
  forallb (fun x => negb (N.eqb (to_lower CR) (to_lower x)) && negb (N.eqb (to_lower LF) (to_lower x))) lit = true ->
  In x lit -> to_lower c = to_lower x -> is_eol c = false.
Proof.
  intros Hall Hx E. destruct (is_eol c) eqn:He; [|reflexivity]. exfalso.
  exact (eol_differs c lit He Hall x Hx E).
Qed.

(** a field whose first [k] octets are no line ends is longer than [k] *)
Lemma field_longer m msg len fl k : gfl_good m msg len fl -> fl <> 0 ->
  (forall j, j < k -> is_eol (at_ m (msg + j)) = false) -> k < fl.
Proof.
  intros [Hz|(Hr & He)] Hnz Hpre; [contradiction|].
  destruct (Nat.lt_ge_cases k fl) as [|Hge]; [assumption|]. exfalso.
  specialize (Hpre (fl - 1) ltac:(lia)). replace (msg + (fl - 1)) with (msg + fl - 1) in Hpre by lia.
  rewrite He in Hpre. discriminate.
Qed.

Lemma skipline_total m b len : b + len <= length m -> forall fuel2 off,
  off <= len -> len - off < fuel2 ->
  exists off1,
    (fix skipline (fuel2 : nat) (off : nat) : Cres nat :=
       match fuel2 with
       | O => OutOfFuel
       | S f2 =>
           if Nat.ltb off len then
             do x <- rd m (b + off);
             if is_eol x then Ok off else skipline f2 (S off)
           else Ok off
       end) fuel2 off = Ok off1 /\ off <= off1 <= len.
Proof.
  intros Hw. induction fuel2 as [|f2 IH]; intros off Ho Hf; [lia|].
  destruct (Nat.ltb_spec off len) as [Hlt|Hge].
  - rewrite rd_at by lia. cbn [bind]. destruct (is_eol (at_ m (b + off))).
    + exists off. split; [reflexivity|lia].
    + destruct (IH (S off)) as (o1 & E & H1); [lia|lia|]. exists o1. split; [exact E|lia].
  - exists off. split; [reflexivity|lia].
Qed.

Lemma cc_not_eol c : N.eqb c 99 || N.eqb c 67 = true -> is_eol c = false.
Proof.
  intros H. apply Bool.orb_prop in H as [E|E]; apply N.eqb_eq in E; subst c; reflexivity.
Qed.

Lemma qh_scan_total m b len : b + len <= length m -> forall fuel off ctype cenc,
  off <= len -> len - off < fuel -> fld_inv m b len ctype -> fld_inv m b len cenc ->
  exists header off' ctype' cenc',
    qh_scan fuel m b len off ctype cenc = Ok (header, off', ctype', cenc') /\
    header <= len /\ fld_inv m b len ctype' /\ fld_inv m b len cenc'.
Proof.
  intros Hw. induction fuel as [|fuel IH]; intros off ctype cenc Ho Hf Hct Hce; [lia|].
  cbn [qh_scan]. destruct (Nat.ltb_spec off len) as [Hlt|Hge].
  2: { do 4 eexists. split; [reflexivity|]. repeat split; auto. lia. }
  rewrite rd_at by lia. cbn [bind]. set (c := at_ m (b + off)).
  (* a recursive call from a later offset *)
  assert (Rec : forall off1 ct ce, off < off1 -> off1 <= len -> fld_inv m b len ct -> fld_inv m b len ce ->
            exists header off' ctype' cenc',
              qh_scan fuel m b len off1 ct ce = Ok (header, off', ctype', cenc') /\
              header <= len /\ fld_inv m b len ctype' /\ fld_inv m b len cenc').
  { intros off1 ct ce H1 H2 Hi1 Hi2.
    destruct (IH off1 ct ce H2 ltac:(lia) Hi1 Hi2) as (h & o & c1 & c2 & E & A & C & D).
    exists h, o, c1, c2. auto. }
  destruct (N.eqb_spec c CR) as [HCR|HnCR].
  { cbv zeta.
    assert (Hoff : exists off1, (if Nat.ltb (S off) len then do c2 <- rd m (b + S off); Ok (if N.eqb c2 LF then S (S off) else S off) else Ok (S off)) = Ok off1 /\ off < off1 <= len).
    { destruct (Nat.ltb_spec (S off) len).
      - rewrite rd_at by lia. cbn [bind]. destruct (N.eqb _ LF); eexists; split; try reflexivity; lia.
      - eexists. split; [reflexivity|lia]. }
    destruct Hoff as (off1 & E1 & H1). rewrite E1. cbn [bind].
    destruct (Nat.eqb_spec off1 len) as [He|Hne]; [apply Rec; auto; lia|].
    rewrite rd_at by lia. cbn [bind]. destruct (is_eol (at_ m (b + off1))); [|apply Rec; auto; lia].
    do 4 eexists. split; [reflexivity|]. repeat split; auto; lia. }
  destruct (N.eqb_spec c LF) as [HLF|HnLF].
  { cbv zeta. destruct (Nat.eqb_spec (S off) len) as [He|Hne]; [apply Rec; auto; lia|].
    rewrite rd_at by lia. cbn [bind]. destruct (is_eol (at_ m (b + S off))); [|apply Rec; auto; lia].
    do 4 eexists. split; [reflexivity|]. repeat split; auto; lia. }
  cbv zeta.
  (* the default: skip to the end of the line *)
  destruct (skipline_total m b len Hw (S len) (S off)) as (off1 & Esk & Hsk); [lia|lia|].
  assert (Dflt : forall ct ce, fld_inv m b len ct -> fld_inv m b len ce ->
            exists header off' ctype' cenc',
              (do o1 <- Ok off1; qh_scan fuel m b len o1 ct ce) = Ok (header, off', ctype', cenc') /\
              header <= len /\ fld_inv m b len ctype' /\ fld_inv m b len cenc').
  { intros ct ce H1 H2. cbn [bind]. apply Rec; auto; lia. }
  rewrite Esk.
  destruct (N.eqb c 99 || N.eqb c 67) eqn:Ecc; [|apply Dflt; assumption].
  pose proof (cc_not_eol c Ecc) as Hc0.
  (* Content-Type: ? *)
  assert (Field : forall lit, forallb (fun x => negb (N.eqb (to_lower CR) (to_lower x)) && negb (N.eqb (to_lower LF) (to_lower x))) lit = true ->
            CT_LEN <= S (length lit) ->
            exists isf, (if Nat.ltb (length lit) (len - off) then casecmp_at m (b + S off) lit else Ok false) = Ok isf /\
              (isf = true -> exists fl, getfieldlen m (b + off) (len - off) = Ok fl /\
                 (fl = 0 \/ (CT_LEN < fl /\ 2 <= fl /\ off + fl <= len /\ field_ok m (b + off) fl)))).
  { intros lit Hlit Hlen. destruct (Nat.ltb_spec (length lit) (len - off)) as [Hr|Hr].
    - destruct (casecmp_in m lit (b + S off)) as (isf & Eisf & Hm); [lia|].
      exists isf. split; [exact Eisf|]. intros Ht. specialize (Hm Ht).
      destruct (getfieldlen_ok m (b + off) (len - off)) as (fl & Efl & Hg); [lia|lia|].
      exists fl. split; [exact Efl|]. destruct (Nat.eq_dec fl 0) as [|Hnz]; [left; assumption|right].
      assert (Hlong : S (length lit) < fl).
      { apply (field_longer m (b + off) (len - off) fl); [exact Hg|exact Hnz|].
        intros j Hj. destruct j as [|j]; [rewrite Nat.add_0_r; exact Hc0|].
        replace (b + off + S j) with (b + S off + j) by lia.
        apply (matched_not_eol _ (nth j lit 0%N) lit Hlit); [apply nth_In; lia|apply Hm; lia]. }
      destruct Hg as [|(Hr2 & He)]; [contradiction|].
      split; [lia|]. split; [lia|]. split; [lia|]. repeat split; [lia|lia|exact He].
    - exists false. split; [reflexivity|discriminate]. }
  destruct (Field CT_TAIL eq_refl ltac:(unfold CT_LEN; cbn; lia)) as (isct & Eisct & Hisct). rewrite Eisct. cbn [bind].
  destruct isct.
  - destruct (Hisct eq_refl) as (fl & Efl & Hfl). rewrite Efl. cbn [bind].
    destruct (Nat.eqb_spec fl 0) as [Hz|Hnz]; cbn [negb].
    + apply Dflt; [left; reflexivity|assumption].
    + destruct Hfl as [|(H13 & H2 & Hin & Hfo)]; [contradiction|].
      destruct (Nat.ltb_spec fl 2) as [|_]; [lia|].
      apply Rec; [unfold CT_LEN in H13; lia|lia| |assumption].
      right. cbn [fst snd]. auto.
  - destruct (Field CTE_TAIL eq_refl ltac:(unfold CT_LEN; cbn; lia)) as (iscte & Eiscte & Hiscte). rewrite Eiscte. cbn [bind].
    destruct iscte; [|apply Dflt; assumption].
    destruct (Hiscte eq_refl) as (fl & Efl & Hfl). rewrite Efl. cbn [bind].
    destruct (Nat.eqb_spec fl 0) as [Hz|Hnz]; cbn [negb].
    + apply Dflt; [assumption|left; reflexivity].
    + destruct Hfl as [|(H13 & H2 & Hin & Hfo)]; [contradiction|].
      destruct (Nat.ltb_spec fl 2) as [|_]; [lia|].
      apply Rec; [unfold CT_LEN in H13; lia|lia|assumption|].
      right. cbn [fst snd]. auto.
Qed.

(* ------------------------------------------------------------------ qp_header *)
Definition hdr_good (m : bytes) (len : nat) (r : Run (nat * MpRes)) : Prop :=
  forall h mp st', r = Done (h, mp) st' ->
    1 <= h <= len /\ forall bs bl, mp = MpYes bs bl -> 1 <= bl <= BOUNDARY_MAX /\ bs + bl <= length m.

Theorem qp_header_total m helo b len body_recode st : b + len <= length m -> 1 <= len ->
  exists r, qp_header m helo b len body_recode st = Ok r /\ hdr_good m len r.
Proof.
  intros Hw Hl. unfold qp_header.
  rewrite rd_at by lia. cbn [bind].
  assert (H0 : exists header0,
    (if N.eqb (at_ m b) CR then
       if Nat.ltb 1 len then do c1 <- rd m (S b); Ok (if N.eqb c1 LF then 2 else 1) else Ok 1
     else if N.eqb (at_ m b) LF then Ok 1 else Ok 0) = Ok header0 /\ header0 <= len).
  { destruct (N.eqb (at_ m b) CR).
    - destruct (Nat.ltb_spec 1 len).
      + rewrite rd_at by lia. cbn [bind]. destruct (N.eqb _ LF); eexists; split; try reflexivity; lia.
      + eexists. split; [reflexivity|lia].
    - destruct (N.eqb (at_ m b) LF); eexists; split; try reflexivity; lia. }
  destruct H0 as (header0 & E0 & Hh0). rewrite E0. cbn [bind].
  assert (Hscan : exists header off ctype cenc,
    (if Nat.eqb header0 0 then qh_scan (2 * len + 2) m b len header0 (0, 0) (0, 0)
     else Ok (header0, header0, (0, 0), (0, 0))) = Ok (header, off, ctype, cenc) /\
    header <= len /\ fld_inv m b len ctype /\ fld_inv m b len cenc).
  { destruct (Nat.eqb_spec header0 0) as [->|Hn].
    - destruct (qh_scan_total m b len Hw (2 * len + 2) 0 (0, 0) (0, 0)) as (h & o & c1 & c2 & E & A & B & C);
        [lia|lia|left; reflexivity|left; reflexivity|].
      exists h, o, c1, c2. auto.
    - do 4 eexists. split; [reflexivity|]. split; [lia|]. split; left; reflexivity. }
  destruct Hscan as (header1 & off & ctype & cenc & Escan & Hh1 & Hct & Hce). rewrite Escan. cbn [bind]. cbv zeta.
  set (header := if Nat.eqb header1 0 then len else header1).
  assert (Hh : 1 <= header <= len) by (unfold header; destruct (Nat.eqb_spec header1 0); lia).
  destruct (need_recode_total m b header) as (fl & Efl); [lia|]. rewrite Efl. cbn [bind].
  destruct (f8 fl).
  { eexists. split; [reflexivity|]. intros ? ? ? F. discriminate. }
  destruct (is_multipart_ok m (b + fst ctype) (snd ctype)) as (mp & Emp & Hmp).
  { destruct Hct as [Hz|(A & B & C)]; [left; exact Hz|right; auto]. }
  rewrite Emp. cbn [bind].
  assert (Hbnd : forall bs bl, mp = MpYes bs bl -> 1 <= bl <= BOUNDARY_MAX /\ bs + bl <= length m).
  { intros bs bl E. destruct (Hmp bs bl E) as (A & B & C). split; [exact A|].
    destruct Hct as [Hz|(_ & Hin & _)]; [rewrite Hz in C; lia|lia]. }
  assert (Hcin : snd cenc <> 0 -> fst cenc + snd cenc <= len).
  { intros Hn. destruct Hce as [Hz|(_ & Hin & _)]; [contradiction|exact Hin]. }
  (* the header around the Content-Transfer-Encoding field *)
  assert (Hsplit : forall st0 (mid : St -> St), snd cenc <> 0 ->
            exists st3,
              (do st1 <- wrap_header m b (fst cenc) st0;
               do st3 <- (if Nat.ltb header (fst cenc + snd cenc) then Ok (mid st1)
                          else wrap_header m (b + (fst cenc + snd cenc)) (header - (fst cenc + snd cenc)) (mid st1));
               Ok (Done (header, mp) st3)) = Ok (Done (header, mp) st3)).
  { intros st0 mid Hn. specialize (Hcin Hn).
    destruct (wrap_header_total m b (fst cenc) st0) as (st1 & E1); [lia|]. rewrite E1. cbn [bind].
    destruct (Nat.ltb_spec header (fst cenc + snd cenc)).
    - cbn [bind]. eauto.
    - destruct (wrap_header_total m (b + (fst cenc + snd cenc)) (header - (fst cenc + snd cenc)) (mid st1)) as (st3 & E3); [lia|].
      rewrite E3. cbn [bind]. eauto. }
  assert (Hgood : forall st', hdr_good m len (Done (header, mp) st')).
  { intros st' h mp' st'' E. inversion E; subst. split; [exact Hh|exact Hbnd]. }
  destruct mp as [bs bl| | |w].
  - destruct (Nat.eqb_spec (snd cenc) 0) as [Hz|Hnz]; cbn [negb].
    + destruct (wrap_header_total m b header st) as (st1 & E1); [lia|]. rewrite E1. cbn [bind].
      eexists. split; [reflexivity|apply Hgood].
    + destruct (Hsplit st (fun s => s) Hnz) as (st3 & E3). rewrite E3. eexists. split; [reflexivity|apply Hgood].
  - destruct (negb body_recode).
    + destruct (wrap_header_total m b header st) as (st1 & E1); [lia|]. rewrite E1. cbn [bind].
      eexists. split; [reflexivity|apply Hgood].
    + destruct (Nat.eqb_spec (snd cenc) 0) as [Hz|Hnz]; cbn [negb].
      * destruct (wrap_header_total m b header (recodeheader helo st)) as (st1 & E1); [lia|]. rewrite E1. cbn [bind].
        eexists. split; [reflexivity|apply Hgood].
      * destruct (Hsplit st (recodeheader helo) Hnz) as (st3 & E3). cbv zeta. rewrite E3.
        eexists. split; [reflexivity|apply Hgood].
  - eexists. split; [reflexivity|]. intros ? ? ? F. discriminate.
  - eexists. split; [reflexivity|]. intros ? ? ? F. discriminate.
Qed.

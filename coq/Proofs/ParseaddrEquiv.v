(** parseaddr() returns 3 / 4 exactly for the mailboxes of Spec/AddrGrammar.v. *)
From Qv Require Import Common.Bytes Gen.GenAddr Model.Addr Spec.AddrSpec Spec.AddrGrammar
  Proofs.AddrTables Proofs.CStrLemmas Proofs.DomainProofs Proofs.LocalProofs Proofs.LocalEquiv Proofs.ParseaddrProofs.

Local Arguments N.eqb : simpl never.

Lemma strchr_first (a b : bytes) c base : ~ In c a -> ~ In NUL a ->
  strchr (a ++ c :: b) c base = Ok (Some (base + length a)).
Proof.
  revert base. induction a as [|x a IH]; intros base Hc Hn.
  - cbn [app strchr length]. rewrite N.eqb_refl, Nat.add_0_r. reflexivity.
  - apply not_in_cons in Hc as [Hxc Hc]. apply not_in_cons in Hn as [Hxn Hn]. cbn [app strchr].
    destruct (N.eqb_spec x c); [congruence|]. destruct (N.eqb_spec x NUL); [congruence|].
    rewrite IH by assumption. cbn [length]. do 2 f_equal. lia.
Qed.

Lemma fqdn_strict_head d : fqdn_strict d -> exists d0 d', d = d0 :: d' /\ d0 <> LBR /\ ~ In NUL d.
Proof.
  intros H. pose proof H as (ls & -> & H2 & Hlab & _).
  assert (Hn : ~ In NUL (join_dots ls)).
  { assert (G : forall ls, Forall label ls -> ~ In NUL (join_dots ls)).
    { clear. induction ls as [|l ls IH]; intros HF; [intros []|]. inversion HF as [|? ? [_ Hl] Hls]; subst.
      assert (Hnl : ~ In NUL l) by (intros X; rewrite Forall_forall in Hl; apply Hl in X; discriminate).
      destruct ls as [|l2 ls]; [exact Hnl|]. rewrite join_dots_cons2. apply not_in_app. split; [exact Hnl|].
      apply not_in_cons. split; [discriminate|]. now apply IH. }
    now apply G. }
  destruct ls as [|l0 ls]; [simpl in H2; lia|]. inversion Hlab as [|? ? [[Hl0 _] Hc0] _]; subst.
  destruct l0 as [|c0 l0]; [simpl in Hl0; lia|].
  assert (Hc : c0 <> LBR) by (intros ->; inversion Hc0; discriminate).
  destruct ls as [|l1 ls]; [simpl in H2; lia|]. rewrite join_dots_cons2 in *. cbn [app] in *. eauto.
Qed.

Section Oracle.
Variable pton4 pton6 : bytes -> bool.

Theorem parseaddr_complete s rest rc : ~ In NUL s ->
  mailbox_x pton4 pton6 lweak rc s -> parseaddr pton4 pton6 (s ++ NUL :: rest) = Ok rc.
Proof.
  intros Hs (lp & dom & -> & Hne & Hat & Hw & Hdom).
  apply not_in_app in Hs as [Hnl Hnd]. apply not_in_cons in Hnd as [_ Hnd].
  remember ((lp ++ cAT :: dom) ++ NUL :: rest) as p eqn:Ep.
  assert (Hp : p = lp ++ AT :: (dom ++ NUL :: rest)) by (subst p; rewrite <- app_assoc; reflexivity).
  clear Ep. unfold parseaddr.
  assert (R : strchr p AT 0 = Ok (Some (length lp))) by (rewrite Hp; apply strchr_first; assumption).
  rewrite R. cbn [bind].
  assert (L : parselocalpart p = Ok (Z.of_nat (length lp))).
  { rewrite Hp. unfold parselocalpart. rewrite lp_loop_complete; auto. }
  rewrite L. cbn [bind]. destruct (Z.ltb_spec (Z.of_nat (length lp)) 0) as [X|_]; [lia|].
  destruct lp as [|a0 a']; [congruence|].
  assert (Ha0 : a0 <> AT) by (intros E; apply Hat; now left).
  assert (R0 : rd p 0 = Ok a0) by (rewrite Hp; reflexivity). rewrite R0. cbn [bind].
  destruct (N.eqb_spec a0 AT); [congruence|].
  remember (a0 :: a') as a eqn:Ea. clear Ea R0 Ha0 L R.
  assert (R1 : rd p (length a + 1) = rd (dom ++ NUL :: rest) 0) by (rewrite Hp, rd_app_exact; reflexivity).
  assert (S1 : skipn (length a + 1) p = dom ++ NUL :: rest) by (rewrite Hp, skipn_app_plus; reflexivity).
  rewrite R1.
  destruct Hdom as [[-> Hd]|[-> (lit & -> & Hlit & Hl)]].
  - destruct (fqdn_strict_head dom Hd) as (d0 & d' & -> & Hd0 & _). cbn [app]. rewrite rd_head. cbn [bind].
    destruct (N.eqb_spec d0 LBR); [congruence|]. rewrite S1.
    rewrite (proj2 (domainvalid_iff (d0 :: d') rest Hnd) Hd). reflexivity.
  - cbn [app]. rewrite rd_head. cbn [bind]. change (N.eqb cLBR LBR) with true. cbn iota.
    apply not_in_cons in Hnd as [_ Hnd]. apply not_in_app in Hnd as [Hnlit _].
    change PA_TAG6 with TAG6. change PA_TAG6_N with (length TAG6).
    unfold PA_LIT_SKIP, PA_OFF6, PA_OFF4, PA_BUF6, PA_BUF4.
    assert (S2 : skipn (length a + 2) p = lit ++ RBR :: ([] ++ NUL :: rest)).
    { rewrite Hp, skipn_app_plus. cbn [skipn app]. rewrite <- app_assoc. reflexivity. }
    rewrite S2. rewrite strchr_first by assumption. cbn [bind app].
    assert (R3 : rd p (length a + 2 + length lit + 1) = Ok NUL).
    { rewrite Hp. replace (length a + 2 + length lit + 1) with (length a + (2 + (length lit + 1))) by lia.
      rewrite rd_app_exact. cbn [app]. unfold rd. cbn [Nat.add nth_error].
      rewrite <- app_assoc. rewrite nth_error_app_exact. reflexivity. }
    rewrite R3. cbn [bind]. rewrite N.eqb_refl. cbn [negb].
    replace (lit ++ RBR :: NUL :: rest) with ((lit ++ [RBR]) ++ NUL :: rest) by (rewrite <- app_assoc; reflexivity).
    rewrite strncmp_prefix; [|apply not_in_app; split; [exact Hnlit|intros [X|[]]; discriminate] | vm_compute; intuition discriminate].
    cbn [bind].
    assert (Hpl : p = a ++ [AT; LBR] ++ lit ++ cRBR :: (NUL :: rest)).
    { rewrite Hp. cbn [app]. rewrite <- app_assoc. reflexivity. }
    destruct Hl as [(Hnp & H4 & Hlen)|(l6 & -> & H6 & Hlen)].
    + destruct (bytes_eqb (firstn (length TAG6) (lit ++ [RBR])) TAG6) eqn:Etag.
      { exfalso. apply bytes_eqb_eq in Etag.
        apply firstn_snoc_prefix in Etag as [Etag _]; [|vm_compute; intuition discriminate|reflexivity].
        apply Hnp. exists (skipn (length TAG6) lit). rewrite <- Etag at 1. symmetry. apply firstn_skipn. }
      rewrite Hpl. rewrite literal_run by reflexivity.
      destruct (Nat.ltb_spec (length lit) 16) as [_|X]; [|lia]. rewrite H4. reflexivity.
    + assert (Etag : bytes_eqb (firstn (length TAG6) ((TAG6 ++ l6) ++ [RBR])) TAG6 = true).
      { rewrite <- app_assoc, firstn_app_exact. apply bytes_eqb_refl. }
      rewrite Etag.
      assert (Hp6 : p = a ++ ([AT; LBR] ++ TAG6) ++ l6 ++ cRBR :: (NUL :: rest)).
      { rewrite Hpl. rewrite <- !app_assoc. reflexivity. }
      replace (length a + 2 + length (TAG6 ++ l6)) with (length a + 7 + length l6) by (rewrite app_length; simpl; lia).
      rewrite Hp6. rewrite literal_run by reflexivity.
      destruct (Nat.ltb_spec (length l6) 46) as [_|X]; [|lia]. rewrite H6. reflexivity.
Qed.

(** parseaddr(s) = 3 (resp. 4) iff s is Local-part "@" Domain (resp. "@" "[" literal "]") with the local
    part in the language of parselocalpart and no at sign in it *)
Theorem parseaddr_iff s rest rc : ~ In NUL s -> rc = 3 \/ rc = 4 ->
  (parseaddr pton4 pton6 (s ++ NUL :: rest) = Ok rc <-> mailbox_x pton4 pton6 lweak rc s).
Proof.
  intros Hs Hrc. split; [|now apply parseaddr_complete].
  intros H. destruct (parseaddr_spec_x pton4 pton6 s rest Hs) as (rc' & H' & Hp).
  rewrite H in H'. inversion H'; subst rc'. destruct Hrc as [-> | ->]; exact Hp.
Qed.

(** ... and with the class of F-C14-2 excluded this is RFC 5321 Mailbox (Local-part = Dot-string / Quoted-string) *)
Theorem parseaddr_rfc_iff s rest rc : ~ In NUL s -> rc = 3 \/ rc = 4 ->
  (mailbox_x pton4 pton6 local_rfc rc s <->
   parseaddr pton4 pton6 (s ++ NUL :: rest) = Ok rc /\ local_class (before cAT s) = false).
Proof.
  intros Hs Hrc. rewrite (parseaddr_iff s rest rc Hs Hrc).
  assert (Hb : forall lp dom, ~ In cAT lp -> before cAT (lp ++ cAT :: dom) = lp).
  { clear. induction lp as [|x lp IH]; intros dom Hn; cbn [app before].
    - now rewrite N.eqb_refl.
    - apply not_in_cons in Hn as [Hx Hn]. destruct (N.eqb_spec x cAT); [congruence|]. now rewrite IH. }
  split.
  - intros (lp & dom & -> & Hne & Hat & Hl & Hd). destruct (local_rfc_lweak lp Hl) as [Hw _]. split.
    + exists lp, dom. auto 10.
    + rewrite Hb by assumption. now apply local_class_exact.
  - intros [(lp & dom & -> & Hne & Hat & Hw & Hd) Hc]. rewrite Hb in Hc by assumption.
    exists lp, dom. split; [reflexivity|]. split; [exact Hne|]. split; [exact Hat|]. split; [|exact Hd]. now apply local_class_exact.
Qed.

End Oracle.

(** net_readbin (lib/netio.c): whatever sizes read() returns and however many octets
    are already buffered, it delivers exactly the next [num] octets. *)
From Qv Require Import Common.Bytes Gen.GenBdatRx Model.BdatRx.
Require Import Lia.

Ltac rx_consts := unfold RX_KIB, RX_READ_BACK, RX_LINEBUF_MAX, RX_LINEBUF, RB_EXTRA, RI_BACK in *.

(** everything the peer has sent or will send that was not consumed yet *)
Definition avail (st : netst) : bytes := n_ln st ++ n_stream st.

Lemma readinput_cases len st : 2 <= len ->
  let '(r, st') := readinput len st in
  n_ln st' = n_ln st
  /\ match r with
     | RData d => d <> [] /\ length d <= len - 1 /\ n_stream st = d ++ n_stream st'
     | RErr => n_stream st' = n_stream st /\ n_rfail st <> None
     | RDied => n_stream st' = n_stream st /\ n_stream st = []
     end
  /\ (n_rfail st = None -> n_rfail st' = None).
Proof.
  intros Hlen. unfold readinput. rx_consts.
  destruct (n_rfail st) as [[|k]|] eqn:Erf.
  - cbn. repeat split; congruence.
  - set (k0 := match n_cuts st with c :: _ => if Nat.eqb c 0 then 1 else c | [] => len - 1 end).
    assert (Hk0 : 1 <= k0).
    { subst k0. destruct (n_cuts st) as [|c t]; [lia|]. destruct (Nat.eqb_spec c 0); lia. }
    destruct (Nat.eqb_spec (Nat.min (Nat.min k0 (len - 1)) (length (n_stream st))) 0) as [E|E]; cbn.
    + repeat split; try congruence. destruct (n_stream st); [reflexivity|cbn in E; lia].
    + repeat split; try congruence.
      * intros H. apply (f_equal (@length N)) in H. rewrite firstn_length in H. cbn in H. lia.
      * rewrite firstn_length. lia.
      * now rewrite firstn_skipn.
  - set (k0 := match n_cuts st with c :: _ => if Nat.eqb c 0 then 1 else c | [] => len - 1 end).
    assert (Hk0 : 1 <= k0).
    { subst k0. destruct (n_cuts st) as [|c t]; [lia|]. destruct (Nat.eqb_spec c 0); lia. }
    destruct (Nat.eqb_spec (Nat.min (Nat.min k0 (len - 1)) (length (n_stream st))) 0) as [E|E]; cbn.
    + repeat split; try congruence. destruct (n_stream st); [reflexivity|cbn in E; lia].
    + repeat split; try congruence.
      * intros H. apply (f_equal (@length N)) in H. rewrite firstn_length in H. cbn in H. lia.
      * rewrite firstn_length. lia.
      * now rewrite firstn_skipn.
Qed.

Lemma readbin_loop_ok bufsize : forall fuel num offs acc st,
  num < fuel -> offs + num + 1 <= bufsize ->
  exists r st', readbin_loop fuel bufsize num offs acc st = Ok (r, st')
    /\ n_ln st' = n_ln st
    /\ (forall d, r = RData d -> exists x, d = acc ++ x /\ length x = num /\ n_stream st = x ++ n_stream st')
    /\ (n_rfail st = None -> n_rfail st' = None /\ r <> RErr /\ (num <= length (n_stream st) -> r <> RDied)).
Proof.
  induction fuel as [|f IH]; intros num offs acc st Hf Hb; [lia|].
  cbn [readbin_loop]. destruct (Nat.eqb_spec num 0) as [->|Hn].
  { exists (RData acc), st. split; [reflexivity|]. split; [reflexivity|]. split.
    - intros d E. injection E as <-. exists []. now rewrite app_nil_r.
    - intros Hr. repeat split; try congruence. }
  destruct (Nat.ltb_spec bufsize (offs + (num + RB_EXTRA - RI_BACK) + 1)) as [Hc|_]; [rx_consts; lia|].
  pose proof (readinput_cases (num + RB_EXTRA) st ltac:(rx_consts; lia)) as Hri.
  destruct (readinput (num + RB_EXTRA) st) as [r st1]. destruct Hri as (Hln & Hr & Hrf).
  destruct r as [d| |].
  - destruct Hr as (Hd & Hdl & Hs). rx_consts.
    assert (1 <= length d) by (destruct d; [congruence|cbn; lia]).
    destruct (IH (num - length d) (offs + length d) (acc ++ d) st1 ltac:(lia) ltac:(lia))
      as (r & st' & E & Hln' & Hdata & Hclean).
    exists r, st'. split; [exact E|]. split; [congruence|]. split.
    + intros d' Ed. destruct (Hdata d' Ed) as (x & -> & Hx & Hs').
      exists (d ++ x). rewrite <- app_assoc. split; [reflexivity|]. split; [rewrite app_length; lia|].
      rewrite Hs, Hs', <- app_assoc. reflexivity.
    + intros Hnone. destruct (Hclean (Hrf Hnone)) as (H1 & H2 & H3). repeat split; try assumption.
      intros Hle. apply H3. rewrite Hs, app_length in Hle. lia.
  - exists RErr, st1. split; [reflexivity|]. split; [exact Hln|]. split; [discriminate|].
    intros Hnone. destruct Hr as (_ & Hr). contradiction.
  - exists RDied, st1. split; [reflexivity|]. split; [exact Hln|]. split; [discriminate|].
    intros Hnone. destruct Hr as (_ & Hr). repeat split; try (apply Hrf; exact Hnone); try discriminate.
    intros Hle _. rewrite Hr in Hle. cbn in Hle. lia.
Qed.

(** net_readbin never leaves the caller's buffer, and a result is always exactly [num] octets:
    the next ones, buffered first *)
Lemma net_readbin_ok bufsize num st : num + 1 <= bufsize ->
  exists r st', net_readbin bufsize num st = Ok (r, st')
    /\ (forall d, r = RData d -> length d = num /\ avail st = d ++ avail st')
    /\ (n_rfail st = None -> n_rfail st' = None /\ r <> RErr /\ (num <= length (avail st) -> r <> RDied)).
Proof.
  intros Hb. unfold net_readbin, avail.
  destruct (Nat.eqb_spec (length (n_ln st)) 0) as [E0|E0]; cbn [negb].
  - destruct (readbin_loop_ok bufsize (S num) num 0 [] st ltac:(lia) ltac:(lia)) as (r & st' & E & Hln & Hd & Hc).
    exists r, st'. split; [exact E|]. destruct (n_ln st) eqn:El; [|cbn in E0; lia]. rewrite Hln. cbn [app].
    split.
    + intros d Ed. destruct (Hd d Ed) as (x & -> & Hx & Hs). cbn [app]. split; [exact Hx|exact Hs].
    + intros Hn. destruct (Hc Hn) as (H1 & H2 & H3). repeat split; assumption.
  - destruct (Nat.ltb_spec num (length (n_ln st))) as [Hlt|Hge].
    + destruct (Nat.ltb_spec bufsize num) as [Hc|_]; [lia|].
      eexists _, _. split; [reflexivity|]. cbn [n_ln n_stream n_rfail]. split.
      * intros d Ed. injection Ed as <-. split; [rewrite firstn_length; lia|].
        rewrite app_assoc, firstn_skipn. reflexivity.
      * intros Hn. repeat split; try assumption; discriminate.
    + destruct (Nat.ltb_spec bufsize (length (n_ln st))) as [Hc|_]; [lia|].
      destruct (readbin_loop_ok bufsize (S num) (num - length (n_ln st)) (length (n_ln st)) (n_ln st)
                  (mk_net [] (n_stream st) (n_cuts st) (n_rfail st)) ltac:(lia) ltac:(lia))
        as (r & st' & E & Hln & Hd & Hc).
      exists r, st'. split; [exact E|]. cbn [n_ln n_stream n_rfail] in *. rewrite Hln. cbn [app]. split.
      * intros d Ed. destruct (Hd d Ed) as (x & -> & Hx & Hs). split; [rewrite app_length; lia|].
        rewrite Hs, app_assoc. reflexivity.
      * intros Hn. destruct (Hc Hn) as (H1 & H2 & H3). repeat split; try assumption.
        intros Hle. apply H3. rewrite app_length in Hle. lia.
Qed.

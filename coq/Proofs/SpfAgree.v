(** C11, stage 3 (proved part): check_host() of the model agrees with RFC 7208 as stated in
    Spec/SpfRfc.v, for every resolver and session, wherever the strict reference gives a result. *)
From Coq Require Import Lia ZifyBool ZifyN.
From Qv Require Import Common.Bytes Gen.GenSpf Model.SpfBase Model.SpfEnv Model.SpfMacro Model.Spf Spec.SpfRfc
  Proofs.SpfStr Proofs.SpfAgreeParse Proofs.SpfAgreeMech Proofs.SpfAgreeLoop Proofs.SpfAgreeMod.
Local Open Scope N_scope.

(* ------------------------------------------------------------------ record selection *)
Definition cpv (r : bytes) : bool := case_prefix SPF_VERSION r.

Lemma scan_gen : forall recs valid, forallb version_ok (filter cpv recs) = true ->
  scan_records recs valid =
  match valid, filter cpv recs with
  | v, [] => Some v
  | None, [r] => Some (Some (skipn 6 r))
  | None, _ :: _ :: _ => None
  | Some _, _ :: _ => None
  end.
Proof.
  induction recs as [|r rs IH]; intros valid H; [destruct valid; reflexivity|].
  cbn [filter] in H |- *. cbn [scan_records].
  destruct (cpv r) eqn:E; unfold cpv in E.
  - cbn [forallb] in H. apply andb_true_iff in H as [Hv H]. unfold version_ok in Hv.
    apply andb_true_iff in Hv as [Hp Ht]. rewrite Hp.
    destruct valid as [v|]; [reflexivity|].
    change (length SPF_VERSION) with 6%nat.
    destruct (skipn 6 r) as [|c t] eqn:Es.
    + rewrite (IH (Some []) H). destruct (filter cpv rs); reflexivity.
    + rewrite Ht. rewrite (IH (Some (c :: t)) H). destruct (filter cpv rs); reflexivity.
  - assert (Hp : is_prefix SPF_VERSION r = false).
    { destruct (is_prefix SPF_VERSION r) eqn:Q; [|reflexivity]. apply is_prefix_case in Q. congruence. }
    rewrite Hp. apply IH, H.
Qed.

Lemma select_scan recs :
  match select_record recs with
  | inl RSkip => True
  | inl (RCode z) => scan_records recs None = None /\ z = SPF_PERMERROR
  | inl RLimit => False
  | inr None => scan_records recs None = Some None
  | inr (Some body) => scan_records recs None = Some (Some body) /\ (body = [] \/ hd0 body = 32)
  end.
Proof.
  unfold select_record. fold cpv.
  destruct (forallb version_ok (filter cpv recs)) eqn:H; cbn [negb]; [|exact I].
  rewrite (scan_gen recs None H).
  destruct (filter cpv recs) as [|r [|r' l]]; [reflexivity| |split; reflexivity].
  split; [reflexivity|]. cbn [forallb] in H. apply andb_true_iff in H as [Hv _]. unfold version_ok in Hv.
  apply andb_true_iff in Hv as [_ Ht]. destruct (skipn 6 r) as [|c t]; [left; reflexivity|right; apply N.eqb_eq, Ht].
Qed.

(* ------------------------------------------------------------------ names *)
Lemma strip_plain d : ends_with_dot d = false -> strip_trailing_dots d = d.
Proof.
  unfold ends_with_dot, strip_trailing_dots. intros H.
  destruct (rev d) as [|c t] eqn:E; [cbn; rewrite <- (rev_involutive d), E; reflexivity|].
  cbn [strip_dots_rev]. rewrite H. rewrite <- E. apply rev_involutive.
Qed.

Lemma txtlookup_plain D d : domain_spec d = true -> txtlookup D d = (d_txt D d, [QT d]).
Proof.
  intros H. destruct (domain_spec_parts d H) as (_ & L & E & _ & _).
  unfold txtlookup. rewrite (strip_plain d E).
  destruct d as [|c t]; [discriminate|].
  unfold txt_trim. fold txt_trim. cbn [negb andb].
  assert (Q : (0 <=? Z.of_nat (length (c :: t)))%Z && (Z.of_nat (length (c :: t)) <=? SPF_TXT_MAXLEN)%Z = true)
    by (unfold SPF_TXT_MAXLEN; lia).
  rewrite Q. rewrite Nat2Z.id, firstn_all. reflexivity.
Qed.

(* ------------------------------------------------------------------ one record *)
Lemma do_exp_q D mk domain e g g2 : do_exp D mk domain e g = Ok g2 -> g_q g2 = g_q g.
Proof.
  unfold do_exp. destruct (mk e domain false) as [[m q]|w|]; cbn [bind]; try discriminate.
  destruct m as [target| |]; try (intros H; injection H as <-; reflexivity).
  destruct (strip_trailing_dots target); [intros H; injection H as <-; reflexivity|].
  destruct (txtlookup D _) as [ans qt]. destruct ans as [er|recs]; [intros H; injection H as <-; reflexivity|].
  destruct recs as [|x recs]; [intros H; injection H as <-; reflexivity|].
  destruct (mk x domain true) as [[m2 q2]|w|]; cbn [bind]; try discriminate.
  destruct m2; intros H; injection H as <-; reflexivity.
Qed.

Section Agree.
Variable D : dns.
Variable X : sess.
Let mk := spf_makro D X.
Variable recM : bytes -> gst -> Cres (Z * gst).
Variable recS : bytes -> nat -> rres * nat.
Variable rec_ok : forall n g, domain_spec n = true -> (1 <= g_q g)%nat -> (g_q g <= 10)%nat ->
  forall r g', recM n g = Ok (r, g') -> rel (recS n (g_q g)) r (g_q g').

Lemma redirect_sim domain d rest g : domain_spec d = true -> sp_tail rest = true -> (g_q g <= 10)%nat ->
  forall r g', redirect_eval mk recM domain (d ++ rest) g = Ok (r, g') ->
  rel (if Nat.leb 10 (g_q g) then (RLimit, S (g_q g))
       else match recS d (S (g_q g)) with
            | (RCode z, c') => if (z =? SPF_NONE)%Z then (RSkip, c') else (RCode z, c')
            | x => x
            end) r (g_q g').
Proof.
  intros Hd Hr Hq r g'. unfold redirect_eval. unfold mk at 1.
  rewrite spf_domainspec_plain; auto using sp_tail_ds_tail. cbn [bind]. unfold cidr_res.
  rewrite (parse_cidr_tail rest Hr). cbn [Z.eqb negb orb].
  unfold g_limit. destruct limit_consts as (L & _). rewrite L. cbn [g_q g_addq].
  change (Nat.ltb 10 (S (g_q g))) with (Nat.leb 10 (g_q g)).
  destruct (Nat.leb 10 (g_q g)) eqn:E.
  - intros H. injection H as <- <-. apply Nat.leb_le in E. cbn. repeat split; lia.
  - apply Nat.leb_gt in E. set (g1 := g_term _).
    assert (Q1 : g_q g1 = S (g_q g)) by reflexivity.
    pose proof (rec_ok d g1 Hd ltac:(lia) ltac:(lia)) as R. rewrite Q1 in R.
    destruct (recM d g1) as [[res g4]|w|]; cbn [bind]; try discriminate.
    intros H. injection H as <- <-. specialize (R res g4 eq_refl). unfold rel in R |- *.
    destruct (recS d (S (g_q g))) as [sr c']. cbn [fst snd] in R.
    destruct sr as [z| |]; [| |exact I].
    + destruct R as (-> & Hz & Q & Lc). destruct (z =? SPF_NONE)%Z eqn:Z0; cbn [fst snd]; [exact I|]. auto.
    + destruct R as (-> & Q & Lc). cbn [fst snd]. change (SPF_FAIL =? SPF_NONE)%Z with false. cbn iota. auto.
Qed.

Lemma hd_tokens body : hd0 body = 32 -> tokens body false = tokens body true.
Proof. destruct body as [|c t]; [reflexivity|]. cbn. intros ->. reflexivity. Qed.

Lemma record_sim domain body g : (body = [] \/ hd0 body = 32) -> (g_q g <= 10)%nat ->
  forall r g', Spf.eval_record D X mk recM domain body g = Ok (r, g') ->
  rel (SpfRfc.eval_record D X true recS domain body (g_q g)) r (g_q g').
Proof.
  intros Hb Hq r g'. unfold SpfRfc.eval_record.
  destruct (parse_record body) as [ts|] eqn:Ep; [|intros _; exact I].
  unfold Spf.eval_record.
  destruct Hb as [->|Hb].
  { (* "v=spf1" alone *)
    cbn in Ep. injection Ep as <-. cbn. intros H. injection H as <- <-. cbn. repeat split; auto. }
  assert (Hc : forallb rec_char body = true /\ parse_terms (tokens body true) = Some ts).
  { unfold parse_record in Ep. destruct body as [|c t]; [discriminate|]. cbn in Hb. subst c.
    change (32 =? 32) with true in Ep. cbn [andb] in Ep.
    destruct (forallb rec_char (32 :: t)) eqn:Q; [|discriminate]. split; [reflexivity|].
    rewrite <- hd_tokens; auto. }
  destruct Hc as [Hc Hp].
  (* the modifiers *)
  rewrite (fm_hits MOD_REDIRECT eq_refl ltac:(discriminate) body 49 true Hc eq_refl).
  rewrite (fm_hits MOD_EXP eq_refl ltac:(discriminate) body 49 true Hc eq_refl).
  pose proof (hits_count MOD_REDIRECT is_redirect eq_refl (fun tok x H => proj1 (mod_term tok x H)) body true ts Hc Hp) as Cr.
  pose proof (hits_count MOD_EXP is_exp eq_refl (fun tok x H => proj1 (proj2 (mod_term tok x H))) body true ts Hc Hp) as Ce.
  pose proof (hits_first body true ts Hc Hp) as Hf.
  pose proof (hits_second MOD_REDIRECT eq_refl ltac:(discriminate) body true Hc) as Sr.
  pose proof (hits_second MOD_EXP eq_refl ltac:(discriminate) body true Hc) as Se.
  fold (count_redirect ts) in Cr. fold (count_exp ts) in Ce.
  set (HR := mod_hits MOD_REDIRECT body true) in *. set (HE := mod_hits MOD_EXP body true) in *. clearbody HR HE.
  assert (A : match hd_error HR with
              | Some nx => at_end nx || match find_modifier MOD_REDIRECT nx 61 with Some _ => true | None => false end
              | None => false
              end = Nat.ltb 1 (count_redirect ts)).
  { rewrite <- Cr. destruct HR as [|nx H']; [reflexivity|]. cbn [hd_error]. rewrite Sr.
    destruct Hf as (d & rest & _ & -> & _ & Dd). destruct (domain_spec_hd d Dd) as (c & t' & -> & Hch). unfold ds_char in Hch.
    assert (W : at_end ((c :: t') ++ rest) = false) by (cbn; unfold wspace; lia). rewrite W.
    destruct H' as [|y H'']; reflexivity. }
  assert (B : match hd_error HE with
              | Some nx => match find_modifier MOD_EXP nx 61 with Some _ => true | None => false end
              | None => false
              end = Nat.ltb 1 (count_exp ts)).
  { rewrite <- Ce. destruct HE as [|nx H']; [reflexivity|]. cbn [hd_error]. rewrite Se. destruct H' as [|y H'']; reflexivity. }
  rewrite A, B. clear A B Sr Se Cr Ce.
  assert (Hperm : forall r g', Ok (SPF_PERMERROR, g) = Ok (r, g') -> rel (RCode SPF_PERMERROR, g_q g) r (g_q g')).
  { intros r0 g0 H. injection H as <- <-. cbn. auto. }
  destruct (Nat.ltb 1 (count_redirect ts)); cbn [orb]; [apply Hperm|].
  destruct (Nat.ltb 1 (count_exp ts)); [apply Hperm|].
  generalize (match hd_error HE with Some nx => if at_end nx then None else Some nx | None => None end). intros expl.
  destruct (term_loop D X mk recM domain body true 0%Z None g) as [l|w|] eqn:El; cbn [bind]; try discriminate.
  pose proof (loop_sim D X recM recS rec_ok domain body true ts 0%Z None g Hc Hp Hq l El) as Lr.
  revert Lr. unfold lrel. destruct (eval_terms D X true recS domain ts (g_q g)) as [o c']. cbn [fst snd].
  assert (Hexp : forall z g1 m, (0 <= z)%Z -> forall r g',
     (do g2 <- (if (z =? SPF_FAIL)%Z then match expl with Some e => do_exp D mk domain e g1 | None => Ok g1 end else Ok g1);
      Ok (z, g_setmech g2 m)) = Ok (r, g') -> r = z /\ g_q g' = g_q g1).
  { intros z g1 m _ r0 g0. destruct (z =? SPF_FAIL)%Z; [destruct expl as [e|]|]; cbn [bind].
    - destruct (do_exp D mk domain e g1) as [g2|w|] eqn:Ed; cbn [bind]; try discriminate.
      intros H. injection H as <- <-. split; [reflexivity|]. apply (do_exp_q _ _ _ _ _ _ Ed).
    - intros H. injection H as <- <-. split; reflexivity.
    - intros H. injection H as <- <-. split; reflexivity. }
  destruct o as [[z| |]|].
  - intros (res & p & m & g1 & -> & Hn & H0 & Hz & Zk & Q & Lc).
    destruct (res <? 0)%Z eqn:N0; [lia|]. destruct (res =? SPF_NONE)%Z eqn:N1; [apply Z.eqb_eq in N1; congruence|]. cbn [negb].
    rewrite Hz. intros H. apply Hexp in H; [|unfold zok in Zk; cbn [existsb] in Zk; codes; lia]. destruct H as [-> Q2].
    cbn. rewrite Q2. auto.
  - intros (p & m & g1 & -> & Q & Lc). change (SPF_FAIL <? 0)%Z with false. change (SPF_FAIL =? SPF_NONE)%Z with false.
    cbn [negb]. change (SPF_FAIL =? SPF_PASS)%Z with false. cbn iota.
    intros H. apply Hexp in H; [|codes; lia]. destruct H as [-> Q2]. cbn. rewrite Q2. auto.
  - intros _ _. exact I.
  - intros (p & m & g1 & -> & Q & Lc). change (SPF_NONE <? 0)%Z with false. change (SPF_NONE =? SPF_NONE)%Z with true.
    cbn [negb]. unfold eval_redirect.
    destruct HR as [|rd H']; cbn [hd_error].
    + rewrite Hf. intros H. injection H as <- <-. cbn. repeat split; auto.
    + destruct Hf as (d & rest & -> & -> & Hr & Dd). intros H.
      pose proof (redirect_sim domain d rest g1 Dd Hr ltac:(lia) r g' H) as R. rewrite Q in R.
      destruct (Nat.leb 10 c'); [exact R|].
      destruct (recS d (S c')) as [[z| |] c'']; exact R.
Qed.


Lemma records_sim domain g : (g_q g <= 10)%nat ->
  forall r g', records_eval D X mk recM domain (d_txt D domain) g = Ok (r, g') ->
  rel (rfc_body D X true recS domain (g_q g)) r (g_q g').
Proof.
  intros Hq r g'. unfold rfc_body, records_eval.
  destruct (d_txt D domain) as [e|recs].
  - destruct e; cbn [txt_result]; intros H; injection H as <- <-; cbn; auto.
  - pose proof (select_scan recs) as S.
    destruct recs as [|r0 rs].
    + cbn. intros H. injection H as <- <-. cbn. auto.
    + destruct (select_record (r0 :: rs)) as [[z| |]|[body|]].
      * destruct S as [S ->]. rewrite S. intros H. injection H as <- <-. cbn. auto.
      * contradiction.
      * intros _. exact I.
      * destruct S as [S Hb]. rewrite S. apply record_sim; auto.
      * rewrite S. intros H. injection H as <- <-. cbn. auto.
Qed.

Lemma body_sim domain g : (g_q g <= 10)%nat ->
  (g_q g = 0%nat /\ domain_invalid domain = false \/ (1 <= g_q g)%nat /\ domain_spec domain = true) ->
  forall r g', spflookup_body D X mk recM domain g = Ok (r, g') ->
  rel (rfc_body D X true recS domain (g_q g)) r (g_q g').
Proof.
  intros Hq Hpre r g'. unfold spflookup_body.
  destruct Hpre as [[Q0 Hv]|[Q1 Hd]].
  - rewrite Q0. cbn [Nat.eqb]. rewrite Hv. intros H.
    pose proof (records_sim domain (g_addq g [QT domain]) ltac:(cbn; lia) r g' H) as R. cbn [g_q g_addq] in R. rewrite Q0 in R. exact R.
  - assert (E : Nat.eqb (g_q g) 0 = false) by (apply Nat.eqb_neq; lia). rewrite E.
    rewrite (txtlookup_plain D domain Hd). intros H.
    exact (records_sim domain (g_addq g [QT domain]) ltac:(cbn; lia) r g' H).
Qed.

End Agree.

(* ------------------------------------------------------------------ the recursion *)
Lemma spflookup_sim D X : forall fm fs domain g, (g_q g <= 10)%nat ->
  (g_q g = 0%nat /\ domain_invalid domain = false \/ (1 <= g_q g)%nat /\ domain_spec domain = true) ->
  forall r g', spflookup D X (spf_makro D X) fm domain g = Ok (r, g') ->
  rel (rfc_check_gen D X true fs domain (g_q g)) r (g_q g').
Proof.
  induction fm as [|fm IH]; intros fs domain g Hq Hpre r g' H; [discriminate|].
  destruct fs as [|fs]; [exact I|].
  cbn [spflookup] in H. cbn [rfc_check_gen].
  eapply (body_sim D X (spflookup D X (spf_makro D X) fm) (rfc_check_gen D X true fs)); eauto.
Qed.

(** check_host() of the model against the strict reference: wherever the reference gives a result,
    the model gives the same (or fail where the reference says "limit exceeded") *)
Theorem check_host_agrees D X domain e0 m0 r g :
  check_host_c D X domain e0 m0 = Ok (r, g) ->
  rfc_agrees (rfc_check_host_strict D X domain) r = true.
Proof.
  unfold check_host_c, check_host, rfc_check_host_strict, rfc_check_host_gen. intros H.
  destruct (domain_invalid domain) eqn:Hv; [reflexivity|].
  pose proof (spflookup_sim D X _ 13 domain (g_init e0 m0) ltac:(cbn; lia) ltac:(left; split; [reflexivity|exact Hv]) r g H) as R.
  cbn [g_q g_init] in R. unfold rel in R.
  destruct (rfc_check_gen D X true 13 domain 0) as [sr c']. cbn [fst snd] in R |- *.
  destruct sr as [z| |]; cbn [rfc_agrees].
  - destruct R as (-> & _). apply Z.eqb_refl.
  - destruct R as (-> & _). reflexivity.
  - reflexivity.
Qed.

(** the same, spelled out *)
Theorem check_host_agrees_strict D X domain e0 m0 r g :
  check_host_c D X domain e0 m0 = Ok (r, g) ->
  match rfc_check_host_strict D X domain with
  | RCode z => r = z
  | RLimit => r = SPF_FAIL /\ g_q g = 11%nat
  | RSkip => True
  end.
Proof.
  unfold check_host_c, check_host, rfc_check_host_strict, rfc_check_host_gen. intros H.
  destruct (domain_invalid domain) eqn:Hv; [exact I|].
  pose proof (spflookup_sim D X _ 13 domain (g_init e0 m0) ltac:(cbn; lia) ltac:(left; split; [reflexivity|exact Hv]) r g H) as R.
  cbn [g_q g_init] in R. unfold rel in R.
  destruct (rfc_check_gen D X true 13 domain 0) as [sr c']. cbn [fst snd] in R |- *.
  destruct sr as [z| |]; [destruct R as (-> & _); reflexivity|destruct R as (-> & -> & ->); split; reflexivity|exact I].
Qed.

(* ------------------------------------------------------------------ the statement with the class spelled out *)
From Qv Require Import Proofs.SpfRfcStrict.

(** the class of the agreement theorem, as a decidable predicate: evaluating the zone for this
    client and domain by RFC 7208 meets neither a record outside the strict macro-free grammar, nor
    a resolver error RFC 7208 has no result for, nor one of the known deviations of qsmtpd/spf.c *)
Definition in_class (D : dns) (X : sess) (domain : bytes) : bool :=
  match rfc_check_host_strict D X domain with RSkip => false | _ => true end.

Theorem rfc_agreement_partial D X domain e0 m0 r g :
  check_host_c D X domain e0 m0 = Ok (r, g) -> in_class D X domain = true ->
  match rfc_check_host D X domain with
  | RCode z => r = z
  | RLimit => r = SPF_FAIL
  | RSkip => False
  end.
Proof.
  intros H C. unfold in_class in C.
  pose proof (check_host_agrees_strict D X domain e0 m0 r g H) as A.
  destruct (strict_is_rfc D X domain) as [E|E]; [rewrite E in C; discriminate|]. rewrite <- E.
  destruct (rfc_check_host_strict D X domain) as [z| |]; [exact A|exact (proj1 A)|discriminate].
Qed.

(** What the multipart walk of send_qp needs to know about the boundary: it is made of the characters
    is_multipart() allows (so a delimiter line is a legal line), and find_boundary() only reports a
    delimiter at the start of a line (so the part in front of it ends with a line end). *)
From Qv Require Import Common.Bytes Gen.GenQrdata Model.Mime Model.QrData Proofs.QrMemLemmas
  Spec.SmtpDataSpec Proofs.MimeTotalProofs.
Require Import Lia.

Ltac crunch E :=
  repeat (match type of E with
          | context [bind ?x _] => destruct x eqn:?; cbn [bind] in E; try discriminate
          | context [if ?x then _ else _] => destruct x eqn:?; try discriminate
          | context [match ?x with _ => _ end] => destruct x eqn:?; try discriminate
          end).

(* ------------------------------------------------------------------ find_boundary *)
Lemma fb_loop_eol m buf len bnd : forall fuel pos p,
  fb_loop fuel m buf len bnd pos = Ok p -> p <> 0 ->
  length bnd + 3 <= p /\ exists x, rd m (buf + (p - length bnd - 3)) = Ok x /\ is_eol x = true.
Proof.
  induction fuel as [|fu IH]; intros pos p E Hp; [discriminate|]. cbn [fb_loop] in E. cbv zeta in E.
  destruct (Nat.leb (pos + 3 + length bnd) len); [|inversion E; congruence].
  destruct (rd m (buf + pos)) as [x| |] eqn:Ex; cbn [bind] in E; try discriminate.
  match type of E with context [bind ?h _] => destruct h as [hit| |] eqn:Eh; cbn [bind] in E; try discriminate end.
  destruct hit.
  - assert (Hx : is_eol x = true) by (destruct (is_eol x); [reflexivity|inversion Eh]).
    match type of E with context [bind ?h _] => destruct h as [res| |] eqn:Er; cbn [bind] in E; try discriminate end.
    destruct res as [p1|].
    + assert (p1 = pos + 3 + length bnd) by (crunch Er; inversion Er; reflexivity).
      inversion E; subst. split; [lia|]. exists x. split; [|exact Hx]. rewrite <- Ex. f_equal. lia.
    + apply (IH _ _ E Hp).
  - cbn [bind] in E. apply (IH _ _ E Hp).
Qed.

(** a delimiter found: in front of it is a line end that belongs to the part before *)
Lemma find_boundary_eol m buf len bnd p : find_boundary m buf len bnd = Ok p -> p <> 0 ->
  length bnd + 3 <= p /\ is_eol (at_ m (buf + (p - length bnd - 3))) = true.
Proof.
  unfold find_boundary. intros E Hp. destruct (Nat.ltb len (length bnd + 3)); [inversion E; congruence|].
  destruct (fb_loop_eol m buf len bnd _ _ _ E Hp) as (H1 & x & Hr & Hx). split; [exact H1|].
  apply rd_inv in Hr as [_ ->]. exact Hx.
Qed.

(* ------------------------------------------------------------------ the boundary characters *)
Lemma bchars_true m bs q : forall j, bchars m bs q j = Ok true ->
  forall k, k < j -> bchar_ok q (at_ m (bs + k)) = true.
Proof.
  induction j as [|j IH]; intros E k Hk; [lia|]. cbn [bchars] in E.
  destruct (rd m (bs + j)) as [x| |] eqn:Ex; cbn [bind] in E; try discriminate.
  destruct (bchar_ok q x) eqn:Hq; [|discriminate].
  destruct (Nat.eq_dec k j) as [->|Hne]; [|apply IH; [exact E|lia]].
  apply rd_inv in Ex as [_ ->]. exact Hq.
Qed.

Lemma mp_params_bchars m ls ll : forall fuel ch i bs bl,
  mp_params fuel m ls ll ch i = Ok (MpYes bs bl) -> exists q, bchars m bs q bl = Ok true.
Proof.
  induction fuel as [|fu IH]; intros ch i bs bl E; [discriminate|]. cbn [mp_params] in E. cbv zeta in E.
  crunch E; try (inversion E; subst; eexists; eassumption); try (eapply IH; eassumption).
Qed.

Lemma is_multipart_bchars m ls ll bs bl : is_multipart m ls ll = Ok (MpYes bs bl) ->
  exists q, forall k, k < bl -> bchar_ok q (at_ m (bs + k)) = true.
Proof.
  unfold is_multipart. intros E. cbv zeta in E.
  assert (H : exists q, bchars m bs q bl = Ok true).
  { crunch E; try (inversion E; fail); eapply mp_params_bchars; eassumption. }
  destruct H as (q & H). exists q. apply bchars_true. exact H.
Qed.

(** an allowed boundary character is printable US-ASCII *)
Lemma bchar_ok_range q x : bchar_ok q x = true -> (32 <= x <= 122)%N.
Proof.
  unfold bchar_ok. intros H. cbn [existsb] in H.
  repeat (apply Bool.orb_true_iff in H; destruct H as [H|H]);
    repeat (apply andb_prop in H; destruct H as [? H]);
    repeat match goal with
           | A : N.leb _ _ = true |- _ => apply N.leb_le in A
           | A : N.eqb _ _ = true |- _ => apply N.eqb_eq in A
           end; unfold SP in *; try lia; try discriminate.
Qed.

(** a delimiter line, whatever follows the boundary on it (nothing or two dashes), is a legal line *)
Lemma boundary_line_legal ext8 (bnd : bytes) (tail : bytes) :
  Forall (fun x => (32 <= x <= 122)%N) bnd -> length bnd <= BOUNDARY_MAX -> (tail = [] \/ tail = [DASH; DASH]) ->
  legal_line ext8 ([DASH; DASH] ++ bnd ++ tail).
Proof.
  intros Hb Hl Ht.
  assert (Hall : Forall (fun x => (32 <= x <= 122)%N) ([DASH; DASH] ++ bnd ++ tail)).
  { apply Forall_app. split; [repeat constructor; unfold DASH; lia|]. apply Forall_app. split; [exact Hb|].
    destruct Ht as [->| ->]; repeat constructor; unfold DASH; lia. }
  split; [|split; [|split]].
  - eapply Forall_impl; [|exact Hall]. intros x Hx. unfold CR, LF. split; intros ->; lia.
  - cbn [app]. intros E. inversion E.
  - unfold counted_len, unstuff_line. cbn [app]. change (N.eqb DASH DOT) with false. cbv iota. cbn [length]. rewrite app_length.
    unfold BOUNDARY_MAX in Hl. unfold MAXLINE.
    destruct Ht as [->| ->]; cbn [length]; lia.
  - intros _. eapply Forall_impl; [|exact Hall]. intros x Hx. cbv beta in Hx. lia.
Qed.

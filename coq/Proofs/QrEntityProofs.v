(** One entity (a non-multipart message or MIME part) through qp_header and send_qp: the output is a
    sequence of legal lines. *)
From Qv Require Import Common.Bytes Gen.GenQrdata Model.Mime Model.QrData Model.QrDataL2 Proofs.QrMemLemmas
  Spec.SmtpDataSpec Spec.DeliverSpec Proofs.QrPlainProofs Proofs.QrNeedRecodeProofs Proofs.QrPlainSpecProofs
  Proofs.QrQpProofs Proofs.QrQpDecodeProofs Proofs.QrWrapLineProofs Proofs.QrWireProofs
  Proofs.QrFoldProofs Proofs.QrPhaseProofs Proofs.MimeTotalProofs Proofs.QrHeaderTotalProofs Proofs.QrScanProofs
  Proofs.QrWrapHeaderProofs Proofs.QrPiecesProofs.
Require Import Lia.

(** wrap_header on a header window, as a composition step *)
Lemma hdr_piece ext8 m bh n D0 st : bh + n <= length m ->
  existsb is8 (sub m bh n) = false -> noempty (sub m bh n) -> good ext8 D0 st [] ->
  exists st' t, wrap_header m bh n st = Ok st' /\ good ext8 D0 st' t /\ (open_line false (sub m bh n) = false -> t = []).
Proof.
  intros Hw H7 Hne Hg.
  destruct (wrap_header_spec m bh n Hw ext8 H7 (outof st) st Hne eq_refl) as (st' & X & t & c & E & HR).
  destruct HR as (Ho & Hwt & Hlt & Hc & Hct & Hopen & _ & _ & Hz & Hnz).
  exists st', t. split; [exact E|]. split.
  - apply (good_step ext8 D0 st st' X t); auto. intros Hl.
    destruct (Nat.eq_dec n 0) as [H0|Hn0].
    + apply Hct. apply Hopen.
      assert (Hnil : sub m bh n = []) by (apply length_zero_iff_nil; rewrite sub_length by lia; exact H0).
      rewrite Hnil. reflexivity.
    + apply Hnz; [lia|exact Hl].
  - intros Eo. apply Hct. apply Hopen. exact Eo.
Qed.

(** the same for a window all of whose lines are short: it goes through send_plain *)
Lemma hdr_piece_short ext8 m bh n D0 st : bh + n <= length m ->
  existsb is8 (sub m bh n) = false -> has_long_line (sub m bh n) = false -> good ext8 D0 st [] ->
  exists st' t, wrap_header m bh n st = Ok st' /\ good ext8 D0 st' t /\ (open_line false (sub m bh n) = false -> t = []).
Proof.
  intros Hw H7 Hlong Hg. unfold wrap_header. rewrite (need_recode_ok m bh n Hw). cbn [bind].
  set (hw := sub m bh n) in *.
  destruct (nr_fun_facts hw flags0 0 false) as [_ Hl]. cbv zeta in Hl.
  unfold flong in Hl. cbn [fline fhdr flags0 orb] in Hl. rewrite longrun_has_long, Hlong in Hl.
  apply Bool.orb_false_elim in Hl as [_ Hh]. rewrite Hh. cbn [negb].
  apply plain_piece; [exact Hw| |exact Hg].
  fold hw. unfold must_recode. rewrite Hlong. change (has_8bit hw) with (existsb is8 hw). rewrite H7. now rewrite Bool.andb_false_r.
Qed.

(** where the header ends if it ends inside the data: right behind a line end *)
Lemma hpos_ends_eol : forall l a, 0 < hpos a l -> hpos a l < length l -> ends_eol (firstn (hpos a l) l) = true.
Proof.
  intros l. assert (Hn : length l <= length l) by lia. revert Hn. generalize (length l) at 2. intros n. revert l.
  induction n as [|n IH]; intros l Hn a Hp Hlt; [destruct l; cbn in *; lia|].
  destruct l as [|c r]; [cbn in Hp; lia|]. cbn [length] in Hn, Hlt. rewrite hpos_cons in *.
  destruct (is_eol c) eqn:He.
  - destruct (Nat.eqb_spec a 0); [lia|]. destruct r as [|c2 r2]; [cbn [length] in Hlt; lia|]. cbn [length] in Hn, Hlt.
    destruct (N.eqb c CR && N.eqb c2 LF) eqn:E.
    + change (firstn (2 + hpos 0 r2) (c :: c2 :: r2)) with (c :: c2 :: firstn (hpos 0 r2) r2).
      destruct (hpos 0 r2) as [|h] eqn:Eh.
      * cbn [firstn ends_eol]. apply andb_prop in E as [_ E2]. apply N.eqb_eq in E2. subst c2. reflexivity.
      * destruct r2 as [|c3 r3]; [cbn in Eh; discriminate|].
        change (ends_eol (c :: c2 :: firstn (S h) (c3 :: r3))) with (ends_eol (firstn (S h) (c3 :: r3))).
        rewrite <- Eh. apply IH; [cbn [length] in *; lia|lia|cbn [length] in *; lia].
    + change (firstn (1 + hpos 0 (c2 :: r2)) (c :: c2 :: r2)) with (c :: firstn (hpos 0 (c2 :: r2)) (c2 :: r2)).
      destruct (hpos 0 (c2 :: r2)) as [|h] eqn:Eh.
      * cbn [firstn ends_eol]. exact He.
      * change (firstn (S h) (c2 :: r2)) with (c2 :: firstn h r2).
        change (ends_eol (c :: c2 :: firstn h r2)) with (ends_eol (c2 :: firstn h r2)).
        change (c2 :: firstn h r2) with (firstn (S h) (c2 :: r2)). rewrite <- Eh.
        apply IH; [cbn [length]; lia|lia|cbn [length]; lia].
  - change (firstn (S (hpos (S a) r)) (c :: r)) with (c :: firstn (hpos (S a) r) r).
    destruct (hpos (S a) r) as [|h] eqn:Eh.
    + (* the next octet would be an empty line's end with a non-empty current line: impossible *)
      exfalso. destruct r as [|c2 r2]; [cbn [length] in Hlt; lia|]. rewrite hpos_cons in Eh.
      destruct (is_eol c2); [|discriminate]. cbn [Nat.eqb] in Eh. destruct r2 as [|c3 r3]; [discriminate|].
      destruct (N.eqb c2 CR && N.eqb c3 LF); discriminate.
    + destruct r as [|c2 r2]; [cbn in Eh; discriminate|].
      change (firstn (S h) (c2 :: r2)) with (c2 :: firstn h r2).
      change (ends_eol (c :: c2 :: firstn h r2)) with (ends_eol (c2 :: firstn h r2)).
      change (c2 :: firstn h r2) with (firstn (S h) (c2 :: r2)). rewrite <- Eh.
      apply IH; [cbn [length] in *; lia|lia|cbn [length] in *; lia].
Qed.

Section Entity.
Variable m helo : bytes.
Variable ext8 : bool.
Variables b len : nat.
Variable Hw : b + len <= length m.
Variable Hl : 1 <= len.
Variable Hhelo : helo_ok helo.
Variable D0 : bytes.
Let w := sub m b len.

Let w_len : length w = len.
Proof. apply sub_length. exact Hw. Qed.
Let w_at j : j < len -> at_ m (b + j) = nth j w 0%N.
Proof. intros H. unfold w, at_. now rewrite nth_sub. Qed.

(** what qp_header hands on when it does not give up *)
Definition hdr_done (st : St) (r : Run (nat * MpRes)) : Prop :=
  match r with
  | Die _ st' => st' = st
  | Done (h, mp) st' =>
      1 <= h <= len /\
      (forall bs bl, mp = MpYes bs bl -> 1 <= bl <= BOUNDARY_MAX /\ bs + bl <= length m) /\
      existsb is8 (sub m b h) = false /\
      longrun 0 (skipn h w) = longrun 0 (skipn (hpos 0 w) w) /\
      exists t, good ext8 D0 st' t /\ (h < len -> t = [])
  end.

(** the part of qp_header behind is_multipart(), given how the pieces of the header window behave *)
Lemma hdr_match (h : nat) (mp : MpRes) (cenc : nat * nat) (body_recode : bool) (st : St) :
  good ext8 D0 st [] ->
  (forall st0, good ext8 D0 st0 [] ->
     exists st' t, wrap_header m b h st0 = Ok st' /\ good ext8 D0 st' t /\ (h < len -> t = [])) ->
  (snd cenc <> 0 -> forall st0, good ext8 D0 st0 [] ->
     exists st', wrap_header m b (fst cenc) st0 = Ok st' /\ good ext8 D0 st' []) ->
  (snd cenc <> 0 -> fst cenc + snd cenc <= h -> forall st0, good ext8 D0 st0 [] ->
     exists st' t, wrap_header m (b + (fst cenc + snd cenc)) (h - (fst cenc + snd cenc)) st0 = Ok st' /\
                   good ext8 D0 st' t /\ (h < len -> t = [])) ->
  exists r,
    (match mp with
     | MpDie w0 => Ok (Die w0 st)
     | MpSyntax => Ok (Die 2%N st)
     | MpYes _ _ =>
         if negb (Nat.eqb (snd cenc) 0) then
           do st1 <- wrap_header m b (fst cenc) st;
           do st2 <- (if Nat.ltb h (fst cenc + snd cenc) then Ok st1 else wrap_header m (b + (fst cenc + snd cenc)) (h - (fst cenc + snd cenc)) st1);
           Ok (Done (h, mp) st2)
         else
           do st1 <- wrap_header m b h st; Ok (Done (h, mp) st1)
     | MpNo =>
         if negb body_recode then
           do st1 <- wrap_header m b h st; Ok (Done (h, mp) st1)
         else if negb (Nat.eqb (snd cenc) 0) then
           do st1 <- wrap_header m b (fst cenc) st;
           let st2 := recodeheader helo st1 in
           do st3 <- (if Nat.ltb h (fst cenc + snd cenc) then Ok st2 else wrap_header m (b + (fst cenc + snd cenc)) (h - (fst cenc + snd cenc)) st2);
           Ok (Done (h, mp) st3)
         else
           do st1 <- wrap_header m b h (recodeheader helo st); Ok (Done (h, mp) st1)
     end) = Ok r /\
    match r with
    | Die _ st' => st' = st
    | Done (h', mp') st' => h' = h /\ mp' = mp /\ exists t, good ext8 D0 st' t /\ (h < len -> t = [])
    end.
Proof.
  intros Hg PW P1 P2.
  assert (Hrh : forall st0, good ext8 D0 st0 [] -> good ext8 D0 (recodeheader helo st0) []).
  { intros st0 H0. unfold recodeheader. apply good_lit; [exact H0|]. apply recoded_legal. exact Hhelo. }
  (* the two pieces around the Content-Transfer-Encoding field, with [mid] done in between *)
  assert (Split : forall (mid : St -> St), (forall s, good ext8 D0 s [] -> good ext8 D0 (mid s) []) -> snd cenc <> 0 ->
            exists st3 t,
              (do st1 <- wrap_header m b (fst cenc) st;
               do st3 <- (if Nat.ltb h (fst cenc + snd cenc) then Ok (mid st1)
                          else wrap_header m (b + (fst cenc + snd cenc)) (h - (fst cenc + snd cenc)) (mid st1));
               Ok (Done (h, mp) st3)) = Ok (Done (h, mp) st3) /\ good ext8 D0 st3 t /\ (h < len -> t = [])).
  { intros mid Hmid Hn. destruct (P1 Hn st Hg) as (st1 & E1 & G1). rewrite E1. cbn [bind].
    destruct (Nat.ltb_spec h (fst cenc + snd cenc)) as [Hlt|Hge].
    - cbn [bind]. exists (mid st1), []. split; [reflexivity|]. split; [apply Hmid; exact G1|auto].
    - destruct (P2 Hn Hge (mid st1) (Hmid _ G1)) as (st3 & t & E3 & G3 & Ht). rewrite E3. cbn [bind].
      exists st3, t. auto. }
  assert (Whole : forall st0, good ext8 D0 st0 [] ->
            exists st1 t, (do st1 <- wrap_header m b h st0; Ok (Done (h, mp) st1)) = Ok (Done (h, mp) st1) /\
                          good ext8 D0 st1 t /\ (h < len -> t = [])).
  { intros st0 H0. destruct (PW st0 H0) as (st1 & t & E1 & G1 & Ht). rewrite E1. cbn [bind]. exists st1, t. auto. }
  destruct mp as [bs bl| | |w0].
  - destruct (Nat.eqb_spec (snd cenc) 0) as [Hz|Hnz]; cbn [negb].
    + destruct (Whole st Hg) as (st1 & t & E & G & Ht). rewrite E. eexists. split; [reflexivity|]. cbn. eauto.
    + destruct (Split (fun s => s) (fun s H => H) Hnz) as (st3 & t & E & G & Ht). rewrite E.
      eexists. split; [reflexivity|]. cbn. eauto.
  - destruct (negb body_recode).
    + destruct (Whole st Hg) as (st1 & t & E & G & Ht). rewrite E. eexists. split; [reflexivity|]. cbn. eauto.
    + destruct (Nat.eqb_spec (snd cenc) 0) as [Hz|Hnz]; cbn [negb].
      * destruct (Whole (recodeheader helo st) (Hrh st Hg)) as (st1 & t & E & G & Ht). rewrite E.
        eexists. split; [reflexivity|]. cbn. eauto.
      * destruct (Split (recodeheader helo) Hrh Hnz) as (st3 & t & E & G & Ht). cbv zeta. rewrite E.
        eexists. split; [reflexivity|]. cbn. eauto.
  - eexists. split; [reflexivity|reflexivity].
  - eexists. split; [reflexivity|reflexivity].
Qed.

End Entity.

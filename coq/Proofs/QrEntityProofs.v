(** One entity (a non-multipart message or MIME part) through qp_header and send_qp: the output is a
    sequence of legal lines. *)
From Qv Require Import Common.Bytes Gen.GenQrdata Model.Mime Model.QrData Model.QrDataL2 Proofs.QrMemLemmas
  Spec.SmtpDataSpec Spec.DeliverSpec Proofs.QrPlainProofs Proofs.QrNeedRecodeProofs Proofs.QrPlainSpecProofs
  Proofs.QrQpProofs Proofs.QrQpDecodeProofs Proofs.QrWrapLineProofs Proofs.QrWireProofs
  Proofs.QrFoldProofs Proofs.QrPhaseProofs Proofs.MimeTotalProofs Proofs.QrHeaderTotalProofs Proofs.QrScanProofs
  Proofs.QrWrapHeaderProofs Proofs.QrPiecesProofs Proofs.QrSendQpTotalProofs Proofs.QrQpTailProofs Proofs.QrQpLegalProofs.
Require Import Lia.

(** wrap_header on a header window, as a composition step *)
Lemma hdr_piece ext8 m bh n D0 st : bh + n <= length m ->
  existsb is8 (sub m bh n) = false -> noempty (sub m bh n) -> good ext8 D0 st [] ->
  exists st' t, wrap_header m bh n st = Ok st' /\ good ext8 D0 st' t /\ (open_line false (sub m bh n) = false -> t = []).
Proof.
  intros Hw H7 Hne Hg.
  destruct (wrap_header_spec m bh n Hw ext8 H7 (outof st) st Hne eq_refl) as (st' & X & t & c & E & HR).
  destruct HR as (Ho & Hwt & Hlt & Hc & Hct & Hopen & _ & _ & Hz & Hnz).
  exists st', t. split; [exact E|]. split.
  - apply (good_step ext8 D0 st st' X t); auto. intros Hl.
    destruct (Nat.eq_dec n 0) as [H0|Hn0].
    + apply Hct. apply Hopen.
      assert (Hnil : sub m bh n = []) by (apply length_zero_iff_nil; rewrite sub_length by lia; exact H0).
      rewrite Hnil. reflexivity.
    + apply Hnz; [lia|exact Hl].
  - intros Eo. apply Hct. apply Hopen. exact Eo.
Qed.

(** the same for a window all of whose lines are short: it goes through send_plain *)
Lemma hdr_piece_short ext8 m bh n D0 st : bh + n <= length m ->
  existsb is8 (sub m bh n) = false -> has_long_line (sub m bh n) = false -> good ext8 D0 st [] ->
  exists st' t, wrap_header m bh n st = Ok st' /\ good ext8 D0 st' t /\ (open_line false (sub m bh n) = false -> t = []).
Proof.
  intros Hw H7 Hlong Hg. unfold wrap_header. rewrite (need_recode_ok m bh n Hw). cbn [bind].
  set (hw := sub m bh n) in *.
  destruct (nr_fun_facts hw flags0 0 false) as [_ Hl]. cbv zeta in Hl.
  unfold flong in Hl. cbn [fline fhdr flags0 orb] in Hl. rewrite longrun_has_long, Hlong in Hl.
  apply Bool.orb_false_elim in Hl as [_ Hh]. rewrite Hh. cbn [negb].
  apply plain_piece; [exact Hw| |exact Hg].
  fold hw. unfold must_recode. rewrite Hlong. change (has_8bit hw) with (existsb is8 hw). rewrite H7. now rewrite Bool.andb_false_r.
Qed.

(** what a piece has written, for the content: [X] unfolds to the plain rendering of its window, [c] being
    the CRLF that is still missing when the window does not end with a line end *)
Definition cont (win : bytes) (st0 st' : St) (t : bytes) : Prop :=
  exists X c, outof st' = outof st0 ++ X /\ (c = [] \/ c = CRLF) /\ (c = [] <-> t = []) /\
              unfolds_to (X ++ c) (stuff (split_lines win)) = true.

Lemma hdr_piece_c ext8 m bh n D0 st : bh + n <= length m ->
  existsb is8 (sub m bh n) = false -> noempty (sub m bh n) -> good ext8 D0 st [] ->
  exists st' t, wrap_header m bh n st = Ok st' /\ good ext8 D0 st' t /\ (open_line false (sub m bh n) = false -> t = []) /\
                cont (sub m bh n) st st' t.
Proof.
  intros Hw H7 Hne Hg.
  destruct (wrap_header_spec m bh n Hw ext8 H7 (outof st) st Hne eq_refl) as (st' & X & t & c & E & HR).
  destruct HR as (Ho & Hwt & Hlt & Hc & Hct & Hopen & _ & Hunf & Hz & Hnz).
  exists st', t. split; [exact E|]. split; [|split].
  - apply (good_step ext8 D0 st st' X t); auto. intros Hl.
    destruct (Nat.eq_dec n 0) as [H0|Hn0].
    + apply Hct. apply Hopen.
      assert (Hnil : sub m bh n = []) by (apply length_zero_iff_nil; rewrite sub_length by lia; exact H0).
      rewrite Hnil. reflexivity.
    + apply Hnz; [lia|exact Hl].
  - intros Eo. apply Hct. apply Hopen. exact Eo.
  - exists X, c. auto.
Qed.

Lemma hdr_piece_short_c ext8 m bh n D0 st : bh + n <= length m ->
  existsb is8 (sub m bh n) = false -> has_long_line (sub m bh n) = false -> open_line false (sub m bh n) = false ->
  good ext8 D0 st [] ->
  exists st', wrap_header m bh n st = Ok st' /\ good ext8 D0 st' [] /\ cont (sub m bh n) st st' [].
Proof.
  intros Hw H7 Hlong Hop Hg.
  destruct (hdr_piece_short ext8 m bh n D0 st Hw H7 Hlong Hg) as (st' & t & E & G & Ht).
  specialize (Ht Hop). subst t. exists st'. split; [exact E|]. split; [exact G|].
  (* the same call, seen through send_plain *)
  unfold wrap_header in E. rewrite (need_recode_ok m bh n Hw) in E. cbn [bind] in E.
  set (hw := sub m bh n) in *.
  destruct (nr_fun_facts hw flags0 0 false) as [_ Hl]. cbv zeta in Hl.
  unfold flong in Hl. cbn [fline fhdr flags0 orb] in Hl. rewrite longrun_has_long, Hlong in Hl.
  apply Bool.orb_false_elim in Hl as [_ Hh]. rewrite Hh in E. cbn [negb] in E.
  destruct (send_plain_ok m bh n Hw st) as (st2 & E2 & Ho & _). rewrite E in E2. inversion E2; subst st2.
  exists (plain_enc false hw), []. split; [exact Ho|]. split; [left; reflexivity|]. split; [tauto|].
  pose proof (plain_enc_spec hw false) as Hs. fold hw in Hop. rewrite Hop in Hs. unfold rendering in Hs.
  rewrite Hs. apply unfolds_refl.
Qed.

(** where the header ends if it ends inside the data: right behind a line end *)
Lemma hpos_ends_eol : forall l a, 0 < hpos a l -> hpos a l < length l -> ends_eol (firstn (hpos a l) l) = true.
Proof.
  intros l. assert (Hn : length l <= length l) by lia. revert Hn. generalize (length l) at 2. intros n. revert l.
  induction n as [|n IH]; intros l Hn a Hp Hlt; [destruct l; cbn in *; lia|].
  destruct l as [|c r]; [cbn in Hp; lia|]. cbn [length] in Hn, Hlt. rewrite hpos_cons in *.
  destruct (is_eol c) eqn:He.
  - destruct (Nat.eqb_spec a 0); [lia|]. destruct r as [|c2 r2]; [cbn [length] in Hlt; lia|]. cbn [length] in Hn, Hlt.
    destruct (N.eqb c CR && N.eqb c2 LF) eqn:E.
    + change (firstn (2 + hpos 0 r2) (c :: c2 :: r2)) with (c :: c2 :: firstn (hpos 0 r2) r2).
      destruct (hpos 0 r2) as [|h] eqn:Eh.
      * cbn [firstn ends_eol]. apply andb_prop in E as [_ E2]. apply N.eqb_eq in E2. subst c2. reflexivity.
      * destruct r2 as [|c3 r3]; [cbn in Eh; discriminate|].
        change (ends_eol (c :: c2 :: firstn (S h) (c3 :: r3))) with (ends_eol (firstn (S h) (c3 :: r3))).
        rewrite <- Eh. apply IH; [cbn [length] in *; lia|lia|cbn [length] in *; lia].
    + change (firstn (1 + hpos 0 (c2 :: r2)) (c :: c2 :: r2)) with (c :: firstn (hpos 0 (c2 :: r2)) (c2 :: r2)).
      destruct (hpos 0 (c2 :: r2)) as [|h] eqn:Eh.
      * cbn [firstn ends_eol]. exact He.
      * change (firstn (S h) (c2 :: r2)) with (c2 :: firstn h r2).
        change (ends_eol (c :: c2 :: firstn h r2)) with (ends_eol (c2 :: firstn h r2)).
        change (c2 :: firstn h r2) with (firstn (S h) (c2 :: r2)). rewrite <- Eh.
        apply IH; [cbn [length]; lia|lia|cbn [length]; lia].
  - change (firstn (S (hpos (S a) r)) (c :: r)) with (c :: firstn (hpos (S a) r) r).
    destruct (hpos (S a) r) as [|h] eqn:Eh.
    + (* the next octet would be an empty line's end with a non-empty current line: impossible *)
      exfalso. destruct r as [|c2 r2]; [cbn [length] in Hlt; lia|]. rewrite hpos_cons in Eh.
      destruct (is_eol c2); [|discriminate]. cbn [Nat.eqb] in Eh. destruct r2 as [|c3 r3]; [discriminate|].
      destruct (N.eqb c2 CR && N.eqb c3 LF); discriminate.
    + destruct r as [|c2 r2]; [cbn in Eh; discriminate|].
      change (firstn (S h) (c2 :: r2)) with (c2 :: firstn h r2).
      change (ends_eol (c :: c2 :: firstn h r2)) with (ends_eol (c2 :: firstn h r2)).
      change (c2 :: firstn h r2) with (firstn (S h) (c2 :: r2)). rewrite <- Eh.
      apply IH; [cbn [length] in *; lia|lia|cbn [length] in *; lia].
Qed.


Lemma existsb_firstn {A} (f : A -> bool) : forall l k, existsb f l = false -> existsb f (firstn k l) = false.
Proof.
  induction l as [|x l IH]; intros k H; [now rewrite firstn_nil|]. destruct k; [reflexivity|].
  cbn [firstn existsb] in *. apply Bool.orb_false_elim in H as [H1 H2]. rewrite H1. cbn [orb]. apply IH. exact H2.
Qed.

Lemma existsb_skipn {A} (f : A -> bool) : forall l k, existsb f l = false -> existsb f (skipn k l) = false.
Proof.
  induction l as [|x l IH]; intros k H; [now rewrite skipn_nil|]. destruct k; [exact H|].
  cbn [skipn existsb] in *. apply Bool.orb_false_elim in H as [_ H2]. apply IH. exact H2.
Qed.

Lemma ends_eol_last : forall l, l <> [] -> ends_eol l = is_eol (nth (length l - 1) l 0%N).
Proof.
  induction l as [|c r IH]; intros H; [contradiction|]. destruct r as [|c2 r2]; [reflexivity|].
  change (ends_eol (c :: c2 :: r2)) with (ends_eol (c2 :: r2)). rewrite IH by discriminate.
  cbn [length]. replace (S (S (length r2)) - 1) with (S (S (length r2) - 1)) by lia. reflexivity.
Qed.

(** a window that is empty or ends with a line end leaves no open line *)
Lemma open_line_firstn (l : bytes) k : k <= length l -> (k = 0 \/ is_eol (nth (k - 1) l 0%N) = true) ->
  open_line false (firstn k l) = false.
Proof.
  intros Hk [->|He]; [reflexivity|]. destruct (Nat.eq_dec k 0) as [->|Hn]; [reflexivity|].
  assert (Hlen : length (firstn k l) = k) by (rewrite firstn_length; lia).
  destruct (firstn k l) as [|x r] eqn:Ef; [cbn in Hlen; lia|]. unfold open_line. rewrite <- Ef.
  rewrite ends_eol_last by (rewrite Ef; discriminate). rewrite firstn_length, Nat.min_l by lia. rewrite nth_firstn' by lia. now rewrite He.
Qed.

(** recode_qp as a step; a window that ends with a line end leaves no open line *)
Lemma qp_piece_eol ext8 m b len D0 st : b + len <= length m -> byte_list m -> good ext8 D0 st [] ->
  exists st' t, recode_qp m b len st = Ok st' /\ good ext8 D0 st' t /\ (ends_eol (sub m b len) = true -> t = []).
Proof.
  intros Hw Hb Hg.
  destruct (recode_qp_ok m b len Hw st) as (vs & st' & E & Ho & Hz & Hnz).
  set (w := sub m b len) in *.
  assert (Hbw : byte_list w) by (apply Forall_sub; exact Hb).
  destruct (qp_enc_roundtrip w vs Hbw) as (Hne & (d & Hd & _)). cbv zeta in Hne, Hd.
  set (O := qp_enc vs 0 None w) in *.
  pose proof (decode_legal _ _ Hd) as Hleg.
  set (c := if at_bol 0 O then [] else CRLF) in *.
  assert (Hc : c = [] \/ c = CRLF) by (unfold c; destruct (at_bol 0 O); auto).
  destruct (wire_of_legal_open false O c Hc Hleg) as (t & Hwt & Hlt & Hct).
  exists st', t. split; [exact E|]. split.
  - apply (good_step ext8 D0 st st' O t); auto.
    + apply wire_mono. exact Hwt.
    + apply legal_line_mono. exact Hlt.
    + intros Hl. destruct (Nat.eq_dec len 0) as [H0|Hn0].
      * apply Hct. unfold c. assert (Hw0 : w = []) by (apply length_zero_iff_nil; unfold w; rewrite sub_length by lia; exact H0).
        unfold O. rewrite Hw0. reflexivity.
      * specialize (Hnz ltac:(lia)). rewrite Hl in Hnz. symmetry in Hnz. rewrite Ho in Hnz.
        assert (Hwne : w <> []) by (intros Ee; apply (f_equal (@length N)) in Ee; unfold w in Ee; rewrite sub_length in Ee by lia; cbn in Ee; lia).
        specialize (Hne Hwne). rewrite last_is_lf_app in Hnz by exact Hne.
        apply (wire_last_lf false O t Hwt Hnz).
  - intros He. apply (wire_last_lf false O t Hwt). apply (qp_enc_endlf (length w) w (le_n _) vs 0 None He).
Qed.


Section Entity.
Variable m helo : bytes.
Variable ext8 : bool.
Variables b len : nat.
Variable Hw : b + len <= length m.
Variable Hl : 1 <= len.
Variable Hhelo : helo_ok helo.
Variable D0 : bytes.
Let w := sub m b len.

Let w_len : length w = len.
Proof. apply sub_length. exact Hw. Qed.
Let w_at j : j < len -> at_ m (b + j) = nth j w 0%N.
Proof. intros H. unfold w, at_. now rewrite nth_sub. Qed.

(** the two lines recodeheader() writes *)
Definition MK : bytes := RECODED_STR ++ helo ++ CRLF.

(** the header as it was written when the entity is no multipart: the part in front of the recorded
    Content-Transfer-Encoding field [cenc], the lines of recodeheader() if the body is recoded, the part behind
    the field; without recoding of the body (or without such a field) the whole header is the second part *)
Definition hdr_cont (st st' : St) (h : nat) (cenc : nat * nat) (mk cutok : bool) (t : bytes) : Prop :=
  let cut := cutok && negb (Nat.eqb (snd cenc) 0) in
  let s := if cut then fst cenc else 0 in
  let e := if cut then fst cenc + snd cenc else 0 in
  exists X1 X2 c, outof st' = outof st ++ X1 ++ (if mk then MK else []) ++ X2 /\
    (c = [] \/ c = CRLF) /\ (c = [] <-> t = []) /\
    unfolds_to X1 (stuff (split_lines (sub m b s))) = true /\
    unfolds_to (X2 ++ c) (stuff (split_lines (sub m (b + e) (h - e)))) = true.

(** a multipart container loses its Content-Transfer-Encoding field and gets no marker; another entity loses
    the field and gets the marker iff its body is recoded *)
Definition mk_of (mp : MpRes) (br : bool) : bool := match mp with MpNo => br | _ => false end.
Definition cut_of (mp : MpRes) (br : bool) : bool := match mp with MpNo => br | _ => true end.

(** the recorded Content-Transfer-Encoding field: inside the window, a whole field as getfieldlen() sees it
    (first line and continuation lines, ending with a line end), at the start of a line, with that name *)
Definition cenc_ok (h : nat) (cenc : nat * nat) : Prop :=
  fld_inv2 m b len cenc /\ cte_named m b len cenc /\ (snd cenc <> 0 -> fst cenc <= h).

(** where the header ends: at the first empty line, or, if the window begins with an empty line, behind it *)
Definition hdr_pos (h : nat) : Prop :=
  h = hpos 0 w \/ (exists c0 r, w = c0 :: r /\ is_eol c0 = true /\ skipn h w = after_eol c0 r).

(** what qp_header hands on when it does not give up; [h0], [ct], [cenc]: what its header analysis found *)
Definition hdr_done (br : bool) (h0 : nat) (ct cenc : nat * nat) (st : St) (r : Run (nat * MpRes)) : Prop :=
  match r with
  | Die _ st' => st' = st
  | Done (h, mp) st' =>
      h = h0 /\ 1 <= h <= len /\
      is_multipart m (b + fst ct) (snd ct) = Ok mp /\
      (forall bs bl, mp = MpYes bs bl -> 1 <= bl <= BOUNDARY_MAX /\ bs + bl <= length m) /\
      (hdr_pos h /\ (mp = MpNo \/ exists bs bl, mp = MpYes bs bl)) /\
      existsb is8 (sub m b h) = false /\
      longrun 0 (skipn h w) = longrun 0 (skipn (hpos 0 w) w) /\
      exists t, good ext8 D0 st' t /\ (h < len \/ ends_eol w = true -> t = []) /\
                cenc_ok h cenc /\ hdr_cont st st' h cenc (mk_of mp br) (cut_of mp br) t
  end.

(** the part of qp_header behind is_multipart(), given how the pieces of the header window behave *)
Lemma hdr_match (C : Prop) (h : nat) (mp : MpRes) (cenc : nat * nat) (body_recode : bool) (st : St) :
  good ext8 D0 st [] ->
  (forall st0, good ext8 D0 st0 [] ->
     exists st' t, wrap_header m b h st0 = Ok st' /\ good ext8 D0 st' t /\ (C -> t = []) /\ cont (sub m b h) st0 st' t) ->
  (snd cenc <> 0 -> forall st0, good ext8 D0 st0 [] ->
     exists st', wrap_header m b (fst cenc) st0 = Ok st' /\ good ext8 D0 st' [] /\ cont (sub m b (fst cenc)) st0 st' []) ->
  (snd cenc <> 0 -> fst cenc + snd cenc <= h -> forall st0, good ext8 D0 st0 [] ->
     exists st' t, wrap_header m (b + (fst cenc + snd cenc)) (h - (fst cenc + snd cenc)) st0 = Ok st' /\
                   good ext8 D0 st' t /\ (C -> t = []) /\
                   cont (sub m (b + (fst cenc + snd cenc)) (h - (fst cenc + snd cenc))) st0 st' t) ->
  exists r,
    (match mp with
     | MpDie w0 => Ok (Die w0 st)
     | MpSyntax => Ok (Die 2%N st)
     | MpYes _ _ =>
         if negb (Nat.eqb (snd cenc) 0) then
           do st1 <- wrap_header m b (fst cenc) st;
           do st2 <- (if Nat.ltb h (fst cenc + snd cenc) then Ok st1 else wrap_header m (b + (fst cenc + snd cenc)) (h - (fst cenc + snd cenc)) st1);
           Ok (Done (h, mp) st2)
         else
           do st1 <- wrap_header m b h st; Ok (Done (h, mp) st1)
     | MpNo =>
         if negb body_recode then
           do st1 <- wrap_header m b h st; Ok (Done (h, mp) st1)
         else if negb (Nat.eqb (snd cenc) 0) then
           do st1 <- wrap_header m b (fst cenc) st;
           let st2 := recodeheader helo st1 in
           do st3 <- (if Nat.ltb h (fst cenc + snd cenc) then Ok st2 else wrap_header m (b + (fst cenc + snd cenc)) (h - (fst cenc + snd cenc)) st2);
           Ok (Done (h, mp) st3)
         else
           do st1 <- wrap_header m b h (recodeheader helo st); Ok (Done (h, mp) st1)
     end) = Ok r /\
    match r with
    | Die _ st' => st' = st
    | Done (h', mp') st' => h' = h /\ mp' = mp /\ (mp = MpNo \/ exists bs bl, mp = MpYes bs bl) /\
                            exists t, good ext8 D0 st' t /\ (C -> t = []) /\
                            hdr_cont st st' h cenc (mk_of mp body_recode) (cut_of mp body_recode) t
    end.
Proof.
  intros Hg PW P1 P2.
  assert (Hrh : forall st0, good ext8 D0 st0 [] -> good ext8 D0 (recodeheader helo st0) []).
  { intros st0 H0. unfold recodeheader. apply good_lit; [exact H0|]. apply recoded_legal. exact Hhelo. }
  assert (Hnil : stuff (split_lines []) = []) by reflexivity.
  (* the two pieces around the Content-Transfer-Encoding field, with [mid] written in between *)
  assert (Split : forall (mid : St -> St) (M : bytes), (forall s, good ext8 D0 s [] -> good ext8 D0 (mid s) []) ->
            (forall s, outof (mid s) = outof s ++ M) -> snd cenc <> 0 ->
            exists st3 t,
              (do st1 <- wrap_header m b (fst cenc) st;
               do st3 <- (if Nat.ltb h (fst cenc + snd cenc) then Ok (mid st1)
                          else wrap_header m (b + (fst cenc + snd cenc)) (h - (fst cenc + snd cenc)) (mid st1));
               Ok (Done (h, mp) st3)) = Ok (Done (h, mp) st3) /\ good ext8 D0 st3 t /\ (C -> t = []) /\
              exists X1 X2 c, outof st3 = outof st ++ X1 ++ M ++ X2 /\ (c = [] \/ c = CRLF) /\ (c = [] <-> t = []) /\
                unfolds_to X1 (stuff (split_lines (sub m b (fst cenc)))) = true /\
                unfolds_to (X2 ++ c) (stuff (split_lines (sub m (b + (fst cenc + snd cenc)) (h - (fst cenc + snd cenc))))) = true).
  { intros mid M Hmid Hout Hn. destruct (P1 Hn st Hg) as (st1 & E1 & G1 & (X1 & c1 & O1 & _ & I1 & U1)). rewrite E1. cbn [bind].
    assert (Ec1 : c1 = []) by (apply I1; reflexivity). subst c1. rewrite app_nil_r in U1.
    destruct (Nat.ltb_spec h (fst cenc + snd cenc)) as [Hlt|Hge].
    - cbn [bind]. exists (mid st1), []. split; [reflexivity|]. split; [apply Hmid; exact G1|]. split; [auto|].
      exists X1, [], []. split; [rewrite Hout, O1, app_nil_r, <- app_assoc; reflexivity|]. split; [auto|]. split; [tauto|].
      split; [exact U1|]. replace (h - (fst cenc + snd cenc)) with 0 by lia. rewrite sub_0. reflexivity.
    - destruct (P2 Hn Hge (mid st1) (Hmid _ G1)) as (st3 & t & E3 & G3 & Ht & (X2 & c & O3 & Hc & I3 & U3)). rewrite E3. cbn [bind].
      exists st3, t. split; [reflexivity|]. split; [exact G3|]. split; [exact Ht|].
      exists X1, X2, c. split; [rewrite O3, Hout, O1, <- !app_assoc; reflexivity|]. auto. }
  assert (Whole : forall st0 (M : bytes), good ext8 D0 st0 [] -> outof st0 = outof st ++ M ->
            exists st1 t, (do st1 <- wrap_header m b h st0; Ok (Done (h, mp) st1)) = Ok (Done (h, mp) st1) /\
                          good ext8 D0 st1 t /\ (C -> t = []) /\
              exists X2 c, outof st1 = outof st ++ [] ++ M ++ X2 /\ (c = [] \/ c = CRLF) /\ (c = [] <-> t = []) /\
                unfolds_to [] (stuff (split_lines (sub m b 0))) = true /\
                unfolds_to (X2 ++ c) (stuff (split_lines (sub m (b + 0) (h - 0)))) = true).
  { intros st0 M H0 HM. destruct (PW st0 H0) as (st1 & t & E1 & G1 & Ht & (X & c & O & Hc & I & U)). rewrite E1. cbn [bind].
    exists st1, t. split; [reflexivity|]. split; [exact G1|]. split; [exact Ht|].
    exists X, c. split; [rewrite O, HM, <- app_assoc; reflexivity|]. split; [exact Hc|]. split; [exact I|].
    split; [rewrite sub_0; reflexivity|]. rewrite Nat.add_0_r, Nat.sub_0_r. exact U. }
  destruct mp as [bs bl| | |w0].
  - destruct (Nat.eqb_spec (snd cenc) 0) as [Hz|Hnz]; cbn [negb].
    + destruct (Whole st [] Hg ltac:(now rewrite app_nil_r)) as (st1 & t & E & G & Ht & (X2 & c & O & Hc & I & U1 & U2)). rewrite E.
      eexists. split; [reflexivity|]. cbn beta iota. split; [reflexivity|]. split; [reflexivity|]. split; [right; eauto|]. exists t. split; [exact G|]. split; [exact Ht|].
      unfold hdr_cont. cbn [mk_of cut_of]. apply Nat.eqb_eq in Hz. rewrite Hz. cbn [andb negb]. exists [], X2, c. auto.
    + destruct (Split (fun s => s) [] (fun s H => H) ltac:(intros; now rewrite app_nil_r) Hnz) as (st3 & t & E & G & Ht & (X1 & X2 & c & O & Hc & I & U1 & U2)). rewrite E.
      eexists. split; [reflexivity|]. cbn beta iota. split; [reflexivity|]. split; [reflexivity|]. split; [right; eauto|]. exists t. split; [exact G|]. split; [exact Ht|].
      unfold hdr_cont. cbn [mk_of cut_of]. apply Nat.eqb_neq in Hnz. rewrite Hnz. cbn [andb negb]. exists X1, X2, c. auto.
  - destruct body_recode; cbn [negb].
    + destruct (Nat.eqb_spec (snd cenc) 0) as [Hz|Hnz]; cbn [negb].
      * destruct (Whole (recodeheader helo st) MK (Hrh st Hg) ltac:(apply outof_wr)) as (st1 & t & E & G & Ht & (X2 & c & O & Hc & I & U1 & U2)).
        rewrite E. eexists. split; [reflexivity|]. cbn beta iota. split; [reflexivity|]. split; [reflexivity|]. split; [left; reflexivity|].
        exists t. split; [exact G|]. split; [exact Ht|]. unfold hdr_cont. cbn [mk_of cut_of]. apply Nat.eqb_eq in Hz. rewrite Hz. cbn [andb negb].
        exists [], X2, c. auto.
      * destruct (Split (recodeheader helo) MK Hrh ltac:(intros; apply outof_wr) Hnz) as (st3 & t & E & G & Ht & (X1 & X2 & c & O & Hc & I & U1 & U2)).
        cbv zeta. rewrite E. eexists. split; [reflexivity|]. cbn beta iota. split; [reflexivity|]. split; [reflexivity|]. split; [left; reflexivity|].
        exists t. split; [exact G|]. split; [exact Ht|]. unfold hdr_cont. cbn [mk_of cut_of]. apply Nat.eqb_neq in Hnz. rewrite Hnz. cbn [andb negb].
        exists X1, X2, c. auto.
    + destruct (Whole st [] Hg ltac:(now rewrite app_nil_r)) as (st1 & t & E & G & Ht & (X2 & c & O & Hc & I & U1 & U2)). rewrite E.
      eexists. split; [reflexivity|]. cbn beta iota. split; [reflexivity|]. split; [reflexivity|]. split; [left; reflexivity|].
      exists t. split; [exact G|]. split; [exact Ht|]. unfold hdr_cont. cbn [mk_of cut_of andb].
      exists [], X2, c. auto.
  - eexists. split; [reflexivity|reflexivity].
  - eexists. split; [reflexivity|reflexivity].
Qed.

(** qp_header from need_recode() on *)
Definition hdr_rest (h : nat) (ct cenc : nat * nat) (body_recode : bool) (st : St) : Cres (Run (nat * MpRes)) :=
  do fl <- need_recode m b h;
     if f8 fl then Ok (Die 1%N st) else
     do mp <- is_multipart m (b + fst ct) (snd ct);
     match mp with
     | MpDie w0 => Ok (Die w0 st)
     | MpSyntax => Ok (Die 2%N st)
     | MpYes _ _ =>
         if negb (Nat.eqb (snd cenc) 0) then
           do st1 <- wrap_header m b (fst cenc) st;
           do st2 <- (if Nat.ltb h (fst cenc + snd cenc) then Ok st1 else wrap_header m (b + (fst cenc + snd cenc)) (h - (fst cenc + snd cenc)) st1);
           Ok (Done (h, mp) st2)
         else
           do st1 <- wrap_header m b h st; Ok (Done (h, mp) st1)
     | MpNo =>
         if negb body_recode then
           do st1 <- wrap_header m b h st; Ok (Done (h, mp) st1)
         else if negb (Nat.eqb (snd cenc) 0) then
           do st1 <- wrap_header m b (fst cenc) st;
           let st2 := recodeheader helo st1 in
           do st3 <- (if Nat.ltb h (fst cenc + snd cenc) then Ok st2 else wrap_header m (b + (fst cenc + snd cenc)) (h - (fst cenc + snd cenc)) st2);
           Ok (Done (h, mp) st3)
         else
           do st1 <- wrap_header m b h (recodeheader helo st); Ok (Done (h, mp) st1)
     end.

Lemma hdr_tail (h : nat) (ct cenc : nat * nat) (body_recode : bool) (st : St) :
  good ext8 D0 st [] -> 1 <= h <= len ->
  (snd ct = 0 \/ CT_LEN < snd ct /\ fst ct + snd ct <= len /\ field_ok m (b + fst ct) (snd ct)) ->
  longrun 0 (skipn h w) = longrun 0 (skipn (hpos 0 w) w) ->
  cenc_ok h cenc -> hdr_pos h ->
  (existsb is8 (sub m b h) = false ->
   (forall st0, good ext8 D0 st0 [] ->
      exists st' t, wrap_header m b h st0 = Ok st' /\ good ext8 D0 st' t /\ (h < len \/ ends_eol w = true -> t = []) /\
                    cont (sub m b h) st0 st' t) /\
   (snd cenc <> 0 -> forall st0, good ext8 D0 st0 [] ->
      exists st', wrap_header m b (fst cenc) st0 = Ok st' /\ good ext8 D0 st' [] /\ cont (sub m b (fst cenc)) st0 st' []) /\
   (snd cenc <> 0 -> fst cenc + snd cenc <= h -> forall st0, good ext8 D0 st0 [] ->
      exists st' t, wrap_header m (b + (fst cenc + snd cenc)) (h - (fst cenc + snd cenc)) st0 = Ok st' /\
                    good ext8 D0 st' t /\ (h < len \/ ends_eol w = true -> t = []) /\
                    cont (sub m (b + (fst cenc + snd cenc)) (h - (fst cenc + snd cenc))) st0 st' t)) ->
  exists r, hdr_rest h ct cenc body_recode st = Ok r /\ hdr_done body_recode h ct cenc st r.
Proof.
  intros Hg Hh Hct Hlr Hcok Hpos Pieces. unfold hdr_rest.
  rewrite (need_recode_ok m b h) by lia. cbn [bind].
  destruct (nr_fun_facts (sub m b h) flags0 0 false) as [H8 _]. cbv zeta in H8. cbn [f8 flags0 orb] in H8.
  destruct (f8 (nr_fun (sub m b h) flags0 0 false)).
  { eexists. split; [reflexivity|reflexivity]. }
  symmetry in H8. destruct (Pieces H8) as (PW & P1 & P2).
  destruct (is_multipart_ok m (b + fst ct) (snd ct)) as (mp & Emp & Hmp).
  { destruct Hct as [Hz|(A & _ & C)]; [left; exact Hz|right; split; assumption]. }
  rewrite Emp. cbn [bind].
  destruct (hdr_match (h < len \/ ends_eol w = true) h mp cenc body_recode st Hg PW P1 P2) as (r & Er & Hr).
  exists r. split; [exact Er|]. destruct r as [[h' mp'] st'|why st']; [|exact Hr].
  destruct Hr as (-> & -> & Hkind & t & Gt & Ht & Hcont). unfold hdr_done. split; [reflexivity|]. split; [exact Hh|]. split; [exact Emp|]. split.
  - intros bs bl ->. destruct (Hmp bs bl eq_refl) as (Hbl & Hbs & Hbe). split; [exact Hbl|].
    destruct Hct as [Hz|(_ & B & _)]; [rewrite Hz in Hbe; lia|lia].
  - split; [split; [exact Hpos|exact Hkind]|]. split; [exact H8|]. split; [exact Hlr|]. exists t. split; [exact Gt|]. split; [exact Ht|].
    split; [exact Hcok|exact Hcont].
Qed.

(** the header analysis of qp_header with what follows it as a parameter *)
Definition qh_front {A} (K : nat -> nat * nat -> nat * nat -> Cres A) : Cres A :=
  do c0 <- rd m b;
  do header0 <-
    (if N.eqb c0 CR then
       if Nat.ltb 1 len then do c1 <- rd m (S b); Ok (if N.eqb c1 LF then 2 else 1) else Ok 1
     else if N.eqb c0 LF then Ok 1 else Ok 0);
  do r <- (if Nat.eqb header0 0 then qh_scan (2 * len + 2) m b len header0 (0, 0) (0, 0)
           else Ok (header0, header0, (0, 0), (0, 0)));
  let '(header, off, ctype, cenc) := r in
  K (if Nat.eqb header 0 then len else header) ctype cenc.

(** what the analysis finds: end of the header, Content-Type field, Content-Transfer-Encoding field *)
Definition qh_view : Cres (nat * (nat * nat) * (nat * nat)) := qh_front (fun h ct ce => Ok (h, ct, ce)).

Lemma qp_header_eq body_recode st :
  qp_header m helo b len body_recode st = qh_front (fun h ct ce => hdr_rest h ct ce body_recode st).
Proof. reflexivity. Qed.

Lemma qh_front_bind {A} (K : nat -> nat * nat -> nat * nat -> Cres A) :
  qh_front K = do v <- qh_view; let '(h, ct, ce) := v in K h ct ce.
Proof.
  unfold qh_view, qh_front. destruct (rd m b) as [c0| |]; cbn [bind]; try reflexivity.
  match goal with |- context [bind ?x _] => destruct x as [h0| |]; cbn [bind]; try reflexivity end.
  match goal with |- context [bind ?x _] => destruct x as [[[[hd o] ct] ce]| |]; cbn [bind]; reflexivity end.
Qed.

Lemma sub_prefix k : k <= len -> sub m b k = firstn k w.
Proof.
  intros H. transitivity (sub m (b + 0) k); [f_equal; lia|]. rewrite <- (sub_sub m b len 0 k) by lia. reflexivity.
Qed.

Lemma sub_suffix e h : e <= h -> h <= len -> sub m (b + e) (h - e) = skipn e (firstn h w).
Proof.
  intros H1 H2. rewrite <- (sub_sub m b len e (h - e)) by lia. fold w. unfold sub. now rewrite skipn_firstn_comm.
Qed.

Lemma open_line_ends (l : bytes) : ends_eol l = true -> open_line false l = false.
Proof. intros H. destruct l; [discriminate|]. unfold open_line. now rewrite H. Qed.

(** the message starts with a line end: the header is just that *)
Lemma hdr_eol_case (c0 : N) (r : bytes) (h : nat) body_recode st :
  good ext8 D0 st [] -> w = c0 :: r -> is_eol c0 = true -> 1 <= h <= 2 -> h <= len ->
  skipn h w = after_eol c0 r -> ends_eol (firstn h w) = true ->
  exists res, hdr_rest h (0, 0) (0, 0) body_recode st = Ok res /\ hdr_done body_recode h (0, 0) (0, 0) st res.
Proof.
  intros Hg Ew He Hh Hhl Hsk Hends.
  assert (Hcok : cenc_ok h (0, 0)).
  { split; [split; [left; reflexivity|intros Hn; cbn in Hn; contradiction]|]. split; intros Hn; cbn in Hn; contradiction. }
  apply hdr_tail; [exact Hg|lia|left; reflexivity| |exact Hcok|right; exists c0, r; auto|].
  - rewrite Hsk. rewrite Ew. rewrite (hpos_eol_z c0 r He). cbn [skipn]. rewrite longrun_cons, He.
    replace (Nat.ltb MAXLINE 0) with false by (symmetry; apply Nat.ltb_ge; lia). reflexivity.
  - intros H8. split; [|split; intros Hn; cbn in Hn; contradiction].
    intros st0 G0. destruct (hdr_piece_short_c ext8 m b h D0 st0) as (st' & E & G & Hc); [lia|exact H8| | |exact G0|].
    + rewrite <- longrun_has_long. apply longrun_short. rewrite sub_length by lia.
      apply Nat.le_trans with 2; [lia|]. apply Nat.leb_le. reflexivity.
    + rewrite sub_prefix by lia. apply open_line_ends. exact Hends.
    + exists st', []. split; [exact E|]. split; [exact G|]. split; [reflexivity|exact Hc].
Qed.

(** the header found by the scan *)
Lemma hdr_scan_case (hd o' : nat) (ct' ce' : nat * nat) body_recode st :
  good ext8 D0 st [] -> is_eol (nth 0 w 0%N) = false ->
  scan_post m b len hd -> fld_inv2 m b len ct' -> fld_inv2 m b len ce' ->
  (hd <> 0 -> fle hd ce') -> cte_named m b len ce' ->
  exists res, hdr_rest (if Nat.eqb hd 0 then len else hd) ct' ce' body_recode st = Ok res /\
              hdr_done body_recode (if Nat.eqb hd 0 then len else hd) ct' ce' st res.
Proof.
  intros Hg Hc0 Hpost Fct Fce Hmono Hnamed.
  set (h := if Nat.eqb hd 0 then len else hd).
  destruct Hpost as (Hhd & Hnz & Hz). fold w in Hnz, Hz.
  assert (HhP : h = hpos 0 w).
  { unfold h. destruct (Nat.eqb_spec hd 0) as [E|E]; [symmetry; apply Hz; exact E|apply Hnz; exact E]. }
  assert (HP1 : 1 <= hpos 0 w).
  { destruct w as [|c0 r] eqn:Ew; [cbn in w_len; lia|]. cbn [nth] in Hc0. rewrite (hpos_noneol c0 r 0 Hc0). lia. }
  assert (HPl : hpos 0 w <= len) by (rewrite <- w_len; apply hpos_le).
  assert (Hin : h < len -> 0 < hpos 0 w < length w) by (rewrite w_len; lia).
  assert (Hsh0 : snd ce' <> 0 -> fst ce' <= h).
  { intros Hn. destruct Fce as (Finv & _). destruct Finv as [Hz0|(_ & Hel & _)]; [contradiction|].
    unfold h. destruct (Nat.eqb_spec hd 0) as [E|E]; [lia|]. apply (Hmono E). exact Hn. }
  apply hdr_tail; [exact Hg|lia|exact (proj1 Fct)|now rewrite HhP|split; [exact Fce|split; [exact Hnamed|exact Hsh0]]|left; exact HhP|].
  intros H8. rewrite sub_prefix in H8 by lia.
  set (hw := firstn h w) in *.
  assert (Hhwl : length hw = h) by (unfold hw; rewrite firstn_length, w_len; lia).
  assert (Hne : noempty hw) by (unfold hw; rewrite HhP; apply noempty_header).
  assert (Hends : h < len \/ ends_eol w = true -> ends_eol hw = true).
  { intros [Hlt|Hee].
    - unfold hw. rewrite HhP. apply hpos_ends_eol; apply Hin; exact Hlt.
    - destruct (Nat.eq_dec h len) as [Ehl|Nhl].
      + unfold hw. rewrite firstn_all2 by (rewrite w_len; lia). exact Hee.
      + unfold hw. rewrite HhP. apply hpos_ends_eol; apply Hin; lia. }
  split; [|split].
  - intros st0 G0. destruct (hdr_piece_c ext8 m b h D0 st0) as (st' & t & E & G & Ht & Hc); [lia| | |exact G0|].
    + rewrite sub_prefix by lia. exact H8.
    + rewrite sub_prefix by lia. exact Hne.
    + exists st', t. split; [exact E|]. split; [exact G|]. split; [|exact Hc]. intros Hlt. apply Ht. rewrite sub_prefix by lia.
      apply open_line_ends. apply Hends. exact Hlt.
  - intros Hn st0 G0. destruct Fce as (Finv & F2). destruct (F2 Hn) as (Hls & _).
    destruct Finv as [Hz0|(_ & Hel & _)]; [contradiction|].
    assert (Hsh : fst ce' <= h).
    { unfold h. destruct (Nat.eqb_spec hd 0) as [E|E]; [lia|]. apply (Hmono E). exact Hn. }
    assert (Epre : sub m b (fst ce') = firstn (fst ce') hw).
    { rewrite sub_prefix by lia. unfold hw. rewrite firstn_firstn. f_equal. lia. }
    destruct (hdr_piece_c ext8 m b (fst ce') D0 st0) as (st' & t & E & G & Ht & Hc); [lia| | |exact G0|].
    + rewrite Epre. apply existsb_firstn. exact H8.
    + rewrite Epre. apply noempty_prefix. exact Hne.
    + assert (Et : t = []).
      { apply Ht. rewrite sub_prefix by lia. apply open_line_firstn; [rewrite w_len; lia|exact Hls]. }
      subst t. exists st'. split; [exact E|]. split; [exact G|exact Hc].
  - intros Hn Hle st0 G0. destruct Fce as (Finv & F2). destruct (F2 Hn) as (_ & Hnsp).
    destruct Finv as [Hz0|(Hct & Hel & _ & _ & Hfe)]; [contradiction|].
    set (e := fst ce' + snd ce') in *.
    assert (Esuf : sub m (b + e) (h - e) = skipn e hw) by (apply sub_suffix; lia).
    destruct (hdr_piece_c ext8 m (b + e) (h - e) D0 st0) as (st' & t & E & G & Ht & Hc); [lia| | |exact G0|].
    + rewrite Esuf. apply existsb_skipn. exact H8.
    + rewrite Esuf. unfold noempty. rewrite (hpos_full_suffix hw 0 Hne e).
      * now rewrite skipn_length.
      * rewrite Hhwl. unfold CT_LEN in Hct. lia.
      * unfold hw. rewrite nth_firstn' by lia. rewrite <- w_at by lia.
        replace (b + (e - 1)) with (b + fst ce' + snd ce' - 1) by (unfold e; lia). exact Hfe.
      * rewrite Hhwl. intros Hcr Hlt. unfold hw in *. rewrite nth_firstn' in Hcr by lia. rewrite nth_firstn' by lia.
        apply Hnsp; [exact Hcr|lia].
    + exists st', t. split; [exact E|]. split; [exact G|]. split; [|exact Hc]. intros Hlt. apply Ht. rewrite Esuf.
      destruct (Nat.eq_dec e h) as [Eeh|Neh].
      * rewrite skipn_all2 by lia. reflexivity.
      * apply open_line_ends. specialize (Hends Hlt). rewrite <- (firstn_skipn e hw) in Hends.
        rewrite ends_eol_app in Hends; [exact Hends|].
        intros Hnil. apply (f_equal (@length N)) in Hnil. rewrite skipn_length in Hnil. cbn in Hnil. lia.
Qed.

(** qp_header: gives up without output, or has written the header as complete legal lines *)
(** the analysis, whatever follows: the message begins with an empty line, or the scan found the header *)
Lemma qh_front_cases {A} (K : nat -> nat * nat -> nat * nat -> Cres A) (Q : A -> Prop) :
  (forall c0 r h, w = c0 :: r -> is_eol c0 = true -> 1 <= h <= 2 -> h <= len ->
     skipn h w = after_eol c0 r -> ends_eol (firstn h w) = true ->
     exists res, K h (0, 0) (0, 0) = Ok res /\ Q res) ->
  (forall hd o' ct' ce', qh_scan (2 * len + 2) m b len 0 (0, 0) (0, 0) = Ok (hd, o', ct', ce') ->
     is_eol (nth 0 w 0%N) = false ->
     scan_post m b len hd -> fld_inv2 m b len ct' -> fld_inv2 m b len ce' ->
     (hd <> 0 -> fle hd ce') -> cte_named m b len ce' ->
     exists res, K (if Nat.eqb hd 0 then len else hd) ct' ce' = Ok res /\ Q res) ->
  exists res, qh_front K = Ok res /\ Q res.
Proof.
  intros Heol Hscan. unfold qh_front.
  assert (Hr0 : rd m b = Ok (nth 0 w 0%N)).
  { rewrite rd_ok by lia. f_equal. unfold w. rewrite nth_sub by lia. f_equal. lia. }
  rewrite Hr0. cbn [bind].
  assert (Ex : exists c0 r, w = c0 :: r).
  { pose proof w_len as Hlen. destruct w as [|c0 r]; [cbn in Hlen; lia|]. eauto. }
  destruct Ex as (c0 & r & Ew). pose proof w_len as Hlen. rewrite Ew in Hlen. cbn [length] in Hlen.
  rewrite Ew. cbn [nth].
  destruct (is_eol c0) eqn:He.
  - (* an empty header *)
    assert (Hends1 : ends_eol (firstn 1 w) = true) by (rewrite Ew; cbn [firstn ends_eol]; exact He).
    destruct (N.eqb_spec c0 CR) as [HCR|HnCR].
    + destruct (Nat.ltb_spec 1 len) as [H1|H1].
      * assert (Hr1 : rd m (S b) = Ok (nth 1 w 0%N)).
        { rewrite rd_ok by lia. f_equal. unfold w. rewrite nth_sub by lia. f_equal. lia. }
        rewrite Hr1. cbn [bind]. rewrite Ew.
        destruct r as [|c1 r1]; [cbn in Hlen; lia|]. cbn [nth].
        destruct (N.eqb_spec c1 LF) as [HLF|HnLF]; cbn [bind Nat.eqb].
        -- apply (Heol c0 (c1 :: r1)); [exact Ew|exact He|lia|lia| |].
           ++ rewrite Ew. unfold after_eol. subst c0 c1. reflexivity.
           ++ rewrite Ew. subst c1. reflexivity.
        -- apply (Heol c0 (c1 :: r1)); [exact Ew|exact He|lia|lia| |exact Hends1].
           rewrite Ew. unfold after_eol. apply N.eqb_neq in HnLF. rewrite HnLF, Bool.andb_false_r. reflexivity.
      * cbn [bind Nat.eqb]. apply (Heol c0 r); [exact Ew|exact He|lia|lia| |exact Hends1].
        rewrite Ew. destruct r as [|c1 r1]; [reflexivity|cbn in Hlen; lia].
    + assert (HLF : N.eqb c0 LF = true).
      { unfold is_eol in He. apply N.eqb_neq in HnCR. rewrite HnCR in He. exact He. }
      rewrite HLF. cbn [bind Nat.eqb].
      apply (Heol c0 r); [exact Ew|exact He|lia|lia| |exact Hends1].
      rewrite Ew. unfold after_eol. apply N.eqb_neq in HnCR. rewrite HnCR. destruct r; reflexivity.
  - assert (HnCR : N.eqb c0 CR = false) by (unfold is_eol in He; now apply Bool.orb_false_elim in He).
    assert (HnLF : N.eqb c0 LF = false) by (unfold is_eol in He; now apply Bool.orb_false_elim in He).
    rewrite HnCR, HnLF. cbn [bind Nat.eqb].
    destruct (qh_scan_spec m b len Hw (2 * len + 2) 0 (0, 0) (0, 0) true) as (hd & o' & ct' & ce' & E & Hpost & Fct & Fce).
    + lia.
    + split; [lia|]. split; [fold w; cbn [skipn]; lia|]. split.
      * intros _. split; [left; reflexivity|]. intros _. fold w. rewrite Ew. exact He.
      * discriminate.
    + split; [left; reflexivity|]. intros Hn. cbn in Hn. contradiction.
    + split; [left; reflexivity|]. intros Hn. cbn in Hn. contradiction.
    + rewrite E. cbn [bind]. cbv beta iota.
      apply (Hscan hd o' ct' ce' E); try assumption.
      * rewrite Ew. exact He.
      * intros Hnz. apply (qh_scan_mono m b len _ 0 (0, 0) (0, 0) hd o' ct' ce' E Hnz); intros Hn; cbn in Hn; contradiction.
      * apply (qh_scan_cte m b len _ 0 (0, 0) (0, 0) hd o' ct' ce' E). intros Hn. cbn in Hn. contradiction.
Qed.

Lemma qp_header_spec body_recode st : good ext8 D0 st [] ->
  exists h ct cenc res, qh_view = Ok (h, ct, cenc) /\
    qp_header m helo b len body_recode st = Ok res /\ hdr_done body_recode h ct cenc st res.
Proof.
  intros Hg.
  destruct (qh_front_cases
              (fun h ct ce => do res <- hdr_rest h ct ce body_recode st; Ok (h, ct, ce, res))
              (fun q => let '(h, ct, ce, res) := q in hdr_done body_recode h ct ce st res)) as (q & E & HQ).
  - intros c0 r h Ew He Hh Hhl Hsk Hends.
    destruct (hdr_eol_case c0 r h body_recode st Hg Ew He Hh Hhl Hsk Hends) as (res & Er & Hd).
    rewrite Er. cbn [bind]. eexists. split; [reflexivity|exact Hd].
  - intros hd o' ct' ce' _ Hc0 Hpost Fct Fce Hmono Hnamed.
    destruct (hdr_scan_case hd 0 ct' ce' body_recode st Hg Hc0 Hpost Fct Fce Hmono Hnamed) as (res & Er & Hd).
    rewrite Er. cbn [bind]. eexists. split; [reflexivity|exact Hd].
  - destruct q as [[[h ct] ce] res]. exists h, ct, ce, res.
    rewrite qh_front_bind in E. rewrite qp_header_eq, qh_front_bind.
    destruct qh_view as [[[h' ct'] ce']| |]; cbn [bind] in E |- *; try discriminate.
    destruct (hdr_rest h' ct' ce' body_recode st) as [res'| |] eqn:Er; cbn [bind] in E; try discriminate.
    inversion E; subst. split; [reflexivity|]. split; [reflexivity|exact HQ].
Qed.

Lemma ends_eol_skipn (l : bytes) k : k < length l -> ends_eol (skipn k l) = ends_eol l.
Proof.
  intros H. rewrite <- (firstn_skipn k l) at 2. symmetry. apply ends_eol_app.
  intros E. apply (f_equal (@length N)) in E. rewrite skipn_length in E. cbn in E. lia.
Qed.

(** the body of an entity that is no multipart, behind its header *)
Lemma entity_body (h : nat) (st1 : St) (t : bytes) : byte_list m -> 1 <= h <= len ->
  longrun 0 (skipn h w) = longrun 0 (skipn (hpos 0 w) w) ->
  good ext8 D0 st1 t -> (h < len \/ ends_eol w = true -> t = []) ->
  let rf := nr_fun w flags0 0 false in
  exists st2 t2,
    (if f8 rf || fline rf then liftS (recode_qp m (b + h) (len - h) st1)
     else liftS (send_plain m (b + h) (len - h) st1)) = Ok (Done tt st2) /\
    good ext8 D0 st2 t2 /\ (ends_eol w = true -> t2 = []).
Proof.
  intros Hb Hh Hlr Gt Ht rf.
  destruct (Nat.eq_dec h len) as [Ehl|Nhl].
  - (* no body *)
    replace (len - h) with 0 by lia. unfold recode_qp, send_plain, liftS. cbn [Nat.eqb bind].
    destruct (f8 rf || fline rf); (exists st1, t; split; [reflexivity|]; split; [exact Gt|auto]).
  - assert (Et : t = []) by (apply Ht; lia). subst t.
    assert (Esuf : sub m (b + h) (len - h) = skipn h w).
    { rewrite sub_suffix by lia. f_equal. apply firstn_all2. rewrite w_len. lia. }
    assert (Hee : ends_eol w = true -> ends_eol (skipn h w) = true).
    { intros He. rewrite ends_eol_skipn by (rewrite w_len; lia). exact He. }
    destruct (f8 rf || fline rf) eqn:Ebr; unfold liftS.
    + destruct (qp_piece_eol ext8 m (b + h) (len - h) D0 st1) as (st2 & t2 & E2 & G2 & H2); [lia|exact Hb|exact Gt|].
      rewrite E2. cbn [bind]. exists st2, t2. split; [reflexivity|]. split; [exact G2|].
      intros He. apply H2. rewrite Esuf. apply Hee. exact He.
    + apply Bool.orb_false_elim in Ebr as [E8 El].
      destruct (nr_fun_facts w flags0 0 false) as [F8 _]. cbv zeta in F8. fold rf in F8. rewrite E8 in F8.
      cbn [f8 flags0 orb] in F8. symmetry in F8.
      destruct (nr_phase w F8 flags0 0 false eq_refl) as [_ Fl]. fold rf in Fl. rewrite El in Fl.
      cbn [fline flags0 orb] in Fl. symmetry in Fl.
      destruct (plain_piece ext8 m (b + h) (len - h) D0 st1) as (st2 & t2 & E2 & G2 & H2); [lia| |exact Gt|].
      * rewrite Esuf. unfold must_recode. rewrite <- longrun_has_long, Hlr, Fl.
        change (has_8bit (skipn h w)) with (existsb is8 (skipn h w)). rewrite (existsb_skipn is8 w h F8).
        now rewrite Bool.andb_false_r.
      * rewrite E2. cbn [bind]. exists st2, t2. split; [reflexivity|]. split; [exact G2|].
        intros He. apply H2. rewrite Esuf. apply open_line_ends. apply Hee. exact He.
Qed.

(** an entity that is no multipart: header and body go out as legal lines, or nothing is sent *)
Lemma entity_nomulti fu st : byte_list m -> good ext8 D0 st [] ->
  (forall ls ll bs bl, is_multipart m ls ll <> Ok (MpYes bs bl)) ->
  exists res, send_qp (S fu) m helo ext8 b len st = Ok res /\
    match res with Die _ st' => st' = st | Done _ st' => exists t, good ext8 D0 st' t end.
Proof.
  intros Hb Hg Hnm. rewrite send_qp_S. rewrite (need_recode_ok m b len Hw). cbn [bind].
  destruct (Nat.eqb_spec len 0) as [H0|_]; [lia|]. cbv zeta. fold w.
  set (rf := nr_fun w flags0 0 false).
  destruct (qp_header_spec (f8 rf || fline rf) st Hg) as (h0 & ct & cenc & res & _ & E & Hd). rewrite E.
  destruct res as [[h mp] st1|why st1]; cbn [bindR].
  2: { eexists. split; [reflexivity|]. exact Hd. }
  destruct Hd as (_ & Hh & Emp & _ & _ & H8 & Hlr & t & Gt & Ht & Hcont).
  destruct (Nat.ltb_spec len h) as [Hbad|_]; [lia|].
  assert (Body : exists res,
            (if f8 rf || fline rf then liftS (recode_qp m (b + h) (len - h) st1)
             else liftS (send_plain m (b + h) (len - h) st1)) = Ok res /\
            match res with Die _ st' => st' = st | Done _ st' => exists t, good ext8 D0 st' t end).
  { destruct (entity_body h st1 t Hb Hh Hlr Gt Ht) as (st2 & t2 & E2 & G2 & _). fold rf in E2.
    rewrite E2. eexists. split; [reflexivity|]. exists t2. exact G2. }
  destruct mp as [bs bl| | |why]; [exfalso; apply (Hnm _ _ bs bl Emp)|exact Body|exact Body|exact Body].
Qed.

End Entity.

(** The pieces send_qp writes, each as a step from one composition state to the next:
    [good ext8 D0 st t] = what has been written since [D0] is complete legal lines followed by the open
    rest [t] of a line that may legally be closed, and lastlf is only set at the beginning of a line. *)
From Qv Require Import Common.Bytes Gen.GenQrdata Model.Mime Model.QrData Model.QrDataL2 Proofs.QrMemLemmas
  Spec.SmtpDataSpec Spec.DeliverSpec Proofs.QrPlainProofs Proofs.QrNeedRecodeProofs Proofs.QrPlainSpecProofs
  Proofs.QrQpProofs Proofs.QrQpDecodeProofs Proofs.QrQpLegalProofs Proofs.QrWrapLineProofs Proofs.QrWireProofs
  Proofs.QrFoldProofs Proofs.QrPhaseProofs Proofs.MimeTotalProofs Proofs.QrWrapHeaderProofs.
Require Import Lia.

Definition good (ext8 : bool) (D0 : bytes) (st : St) (t : bytes) : Prop :=
  exists X, outof st = D0 ++ X /\ wire ext8 X t /\ legal_line ext8 t /\ (lastlf st = true -> t = []).

Lemma outof_wr st x : outof (wr st x) = outof st ++ x.
Proof. unfold outof, wr. cbn [out rev]. rewrite concat_app. cbn [concat]. now rewrite app_nil_r. Qed.

Lemma legal_nil ext8 : legal_line ext8 [].
Proof. repeat split; try constructor; try discriminate. cbn. lia. Qed.

Lemma good_init ext8 st : good ext8 (outof st) st [].
Proof. exists []. rewrite app_nil_r. split; [reflexivity|]. split; [apply wire_nil|]. split; [apply legal_nil|auto]. Qed.

(** appending a piece [X'] that starts at the beginning of a line *)
Lemma good_step ext8 D0 st st' X' t' :
  good ext8 D0 st [] -> outof st' = outof st ++ X' -> wire ext8 X' t' -> legal_line ext8 t' ->
  (lastlf st' = true -> t' = []) -> good ext8 D0 st' t'.
Proof.
  intros (X & E & Hw & _ & _) Ho Hw' Hl Hlf. exists (X ++ X'). split; [rewrite Ho, E; now rewrite app_assoc|].
  split; [apply (wire_app ext8 X [] X' t'); assumption|]. auto.
Qed.

(** a literal written with netwrite(): complete legal lines; lastlf is not touched *)
Lemma good_lit ext8 D0 st x : good ext8 D0 st [] -> legal_data ext8 x -> good ext8 D0 (wr st x) [].
Proof.
  intros H Hx. apply (good_step ext8 D0 st (wr st x) x []); auto.
  - unfold outof, wr. cbn [out rev]. rewrite concat_app. cbn [concat]. now rewrite app_nil_r.
  - apply wire_legal. exact Hx.
  - apply legal_nil.
Qed.

Lemma good_set_lastlf ext8 D0 st : good ext8 D0 st [] -> good ext8 D0 (set_lastlf st true) [].
Proof. intros (X & A & B & C & _). exists X. split; [exact A|]. split; [exact B|]. split; [exact C|auto]. Qed.

(* ------------------------------------------------------------------ send_plain *)
Lemma plain_piece ext8 m b len D0 st : b + len <= length m ->
  must_recode ext8 (sub m b len) = false -> good ext8 D0 st [] ->
  exists st' t, send_plain m b len st = Ok st' /\ good ext8 D0 st' t /\ (open_line false (sub m b len) = false -> t = []).
Proof.
  intros Hw Hmust Hg. set (w := sub m b len) in *.
  destruct (send_plain_ok m b len Hw st) as (st' & E & Ho & Hz & Hnz). fold w in Ho.
  pose proof (plain_data_legal w ext8 Hmust) as Hleg.
  pose proof (plain_enc_spec w false) as Hspec. unfold rendering in Hspec. rewrite <- Hspec in Hleg.
  set (c := if open_line false w then CRLF else []) in *.
  assert (Hc : c = [] \/ c = CRLF) by (unfold c; destruct (open_line false w); auto).
  destruct (wire_of_legal_open ext8 (plain_enc false w) c Hc Hleg) as (t & Hwt & Hlt & Hct).
  exists st', t. split; [exact E|]. split.
  - apply (good_step ext8 D0 st st' (plain_enc false w) t); auto.
    intros Hl. destruct (Nat.eq_dec len 0) as [H0|Hn0].
    + assert (Hw0 : w = []) by (apply length_zero_iff_nil; unfold w; rewrite sub_length by lia; exact H0).
      rewrite Hw0 in Hwt. cbn [plain_enc] in Hwt. destruct Hwt as (ls & E1 & _ & _).
      symmetry in E1. apply app_eq_nil in E1 as [_ E1]. exact E1.
    + specialize (Hnz ltac:(lia)). rewrite Hl in Hnz. symmetry in Hnz. rewrite Ho in Hnz.
      apply (wire_last_lf ext8 (plain_enc false w) t Hwt).
      rewrite last_is_lf_app in Hnz; [exact Hnz|].
      assert (Hnn : w <> []) by (intros Ee; apply (f_equal (@length N)) in Ee; unfold w in Ee; rewrite sub_length in Ee by lia; cbn in Ee; lia).
      destruct w; [contradiction|apply plain_enc_nonempty].
  - intros Eo. apply Hct. unfold c. now rewrite Eo.
Qed.

(* ------------------------------------------------------------------ recode_qp *)
Lemma qp_piece ext8 m b len D0 st : b + len <= length m -> byte_list m -> good ext8 D0 st [] ->
  exists st' t, recode_qp m b len st = Ok st' /\ good ext8 D0 st' t.
Proof.
  intros Hw Hb Hg.
  destruct (recode_qp_ok m b len Hw st) as (vs & st' & E & Ho & Hz & Hnz).
  set (w := sub m b len) in *.
  assert (Hbw : byte_list w) by (apply Forall_sub; exact Hb).
  destruct (qp_enc_roundtrip w vs Hbw) as (Hne & (d & Hd & _)). cbv zeta in Hne, Hd.
  set (O := qp_enc vs 0 None w) in *.
  pose proof (decode_legal _ _ Hd) as Hleg.
  set (c := if at_bol 0 O then [] else CRLF) in *.
  assert (Hc : c = [] \/ c = CRLF) by (unfold c; destruct (at_bol 0 O); auto).
  destruct (wire_of_legal_open false O c Hc Hleg) as (t & Hwt & Hlt & Hct).
  exists st', t. split; [exact E|].
  apply (good_step ext8 D0 st st' O t); auto.
  - apply wire_mono. exact Hwt.
  - apply legal_line_mono. exact Hlt.
  - intros Hl. destruct (Nat.eq_dec len 0) as [H0|Hn0].
    + apply Hct. unfold c. assert (Hw0 : w = []) by (apply length_zero_iff_nil; unfold w; rewrite sub_length by lia; exact H0).
      unfold O. rewrite Hw0. reflexivity.
    + specialize (Hnz ltac:(lia)). rewrite Hl in Hnz. symmetry in Hnz. rewrite Ho in Hnz.
      assert (Hwne : w <> []) by (intros Ee; apply (f_equal (@length N)) in Ee; unfold w in Ee; rewrite sub_length in Ee by lia; cbn in Ee; lia).
      specialize (Hne Hwne). rewrite last_is_lf_app in Hnz by exact Hne.
      apply (wire_last_lf false O t Hwt Hnz).
Qed.

(* ------------------------------------------------------------------ the inserted header lines *)
Definition helo_ok (helo : bytes) : Prop := line_clean helo /\ seven_bit helo /\ length helo <= 255.

Definition recoded_check : bool :=
  match crlf_lines (RECODED_STR ++ CRLF) with
  | Some [l1; l2] => legal_line_b false l1 && line_clean_b l2 && seven_bit_b l2 && Nat.leb (length l2 + 255) MAXLINE && Nat.leb 2 (length l2)
  | _ => false
  end.

Lemma recoded_check_true : recoded_check = true.
Proof. vm_compute. reflexivity. Qed.

Lemma recoded_legal ext8 helo : helo_ok helo -> legal_data ext8 (RECODED_STR ++ helo ++ CRLF).
Proof.
  intros (Hc & H7 & Hl). pose proof recoded_check_true as Hchk. unfold recoded_check in Hchk.
  destruct (crlf_lines (RECODED_STR ++ CRLF)) as [[|l1 [|l2 [|? ?]]]|] eqn:Ecl; try discriminate.
  unfold crlf_lines in Ecl. apply crlf_lines_aux_sound in Ecl. cbn [rev app] in Ecl.
  unfold join_crlf in Ecl. cbn [map concat] in Ecl. rewrite app_nil_r in Ecl.
  rewrite app_assoc in Ecl. apply app_inv_tail in Ecl.
  apply andb_prop in Hchk as [Hchk H5]. apply andb_prop in Hchk as [Hchk H4]. apply andb_prop in Hchk as [Hchk H3].
  apply andb_prop in Hchk as [H1 H2]. apply Nat.leb_le in H4, H5.
  apply legal_data_mono. exists [l1; l2 ++ helo]. split.
  - rewrite Ecl. unfold join_crlf. cbn [map concat]. rewrite app_nil_r, <- !app_assoc. reflexivity.
  - constructor; [apply legal_line_b_sound; exact H1|]. constructor; [|constructor].
    assert (Hc2 : line_clean l2).
    { unfold line_clean_b in H2. rewrite forallb_forall in H2. apply Forall_forall. intros x Hx.
      specialize (H2 x Hx). apply andb_prop in H2 as [A B]. apply Bool.negb_true_iff in A, B. apply N.eqb_neq in A, B. auto. }
    assert (H72 : seven_bit l2).
    { unfold seven_bit_b in H3. rewrite forallb_forall in H3. apply Forall_forall. intros x Hx. apply N.ltb_lt. apply H3. exact Hx. }
    repeat split.
    + apply Forall_app. auto.
    + intros E. apply (f_equal (@length N)) in E. rewrite app_length in E. cbn in E. lia.
    + unfold counted_len, unstuff_line. destruct (l2 ++ helo) as [|x r] eqn:E; [cbn; lia|].
      assert (Hlen : length (x :: r) = length l2 + length helo) by (rewrite <- E; apply app_length).
      destruct (N.eqb x DOT); cbn [length] in *; lia.
    + intros _. apply Forall_app. auto.
Qed.

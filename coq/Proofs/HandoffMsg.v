(** C02, the message of every hand-off of a whole SESSION: what DataProofs.v shows for one run of smtp_data is lifted
    over the command loop.  Two invariants are swept through every handler:
      - the line buffer never holds more than LINEINBUF - 1 octets ([rd_ok]; the precondition of the reader proofs),
      - no handler other than smtp_data hands anything to qmail-queue ([no_ho]),
    and smtp_data runs with the parameters of the session: submission mode is the port, the From: field it may add carries
    xmitstat.mailfrom - the sender that the envelope of the same hand-off carries in its F record. *)
From Qv Require Import Common.Bytes Gen.GenNetio Gen.GenSession Model.NetRead Model.Session Spec.LineSpec Spec.SessionSpec
  Proofs.NetReadProofs Proofs.DataProofs Proofs.RelayDecide.
From Coq Require Import Lia.

Definition rd_ok (s : sstate) : Prop := rstate_ok (rd s).
Definition is_ho (e : event) : bool := match e with Handoff _ _ => true | _ => false end.
Definition no_ho (evs : list event) : Prop := existsb is_ho evs = false.

Lemma no_ho_app a b : no_ho a -> no_ho b -> no_ho (a ++ b).
Proof. unfold no_ho. intros Ha Hb. now rewrite existsb_app, Ha, Hb. Qed.
Lemma no_ho_in evs env msg : no_ho evs -> ~ In (Handoff env msg) evs.
Proof.
  unfold no_ho. intros H Hin.
  assert (X : existsb is_ho evs = true) by (apply existsb_exists; exists (Handoff env msg); split; [exact Hin|reflexivity]).
  congruence.
Qed.

Lemma net_read_ok r it r' : rstate_ok r -> net_read r = (it, r') -> rstate_ok r'.
Proof. unfold rstate_ok. intros Hok H. exact (proj2 (net_read_spec _ _ _ Hok H)). Qed.

Lemma dp_ok s : rd_ok s -> rd_ok (snd (data_pending s)).
Proof.
  unfold rd_ok, rstate_ok, data_pending. intros H. destruct (inn (rd s)) eqn:Ei; [|cbn [snd]; now rewrite Ei].
  destruct (cur (en (rd s))); cbn [snd set_rd rd inn]; [now rewrite Ei|]. cbn [length]. unfold LINEINBUF. lia.
Qed.
Lemma tarpit_ok s : rd_ok s -> rd_ok (tarpit s).
Proof. apply dp_ok. Qed.

Lemma wait_for_quit_noho fuel : forall s, no_ho (wait_for_quit fuel s).
Proof.
  induction fuel as [|f IH]; intros s; cbn [wait_for_quit]; [reflexivity|].
  destruct (net_read (rd s)) as [it r'].
  destruct it; try reflexivity;
    try (match goal with |- context [if ?b then [Reply 221; Closed] else _] => destruct b; [reflexivity|] end);
    (match goal with |- context [if ?b then [Note NBadClose; Reply 550; Closed] else _] => destruct b; [reflexivity|] end);
    unfold no_ho; cbn [existsb is_ho orb]; apply IH.
Qed.

Lemma sync_pipelining_ho f s sp s2 : rd_ok s -> sync_pipelining f s = (sp, s2) ->
  rd_ok s2 /\ mailfrom s2 = mailfrom s /\ rcpts s2 = rcpts s /\ (forall evs, sp = Some evs -> no_ho evs).
Proof.
  unfold sync_pipelining. intros Hok. destruct (data_pending s) as [p sd] eqn:Ed.
  assert (Hb : rd_ok sd /\ mailfrom sd = mailfrom s /\ rcpts sd = rcpts s).
  { pose proof (dp_ok s Hok) as X. rewrite Ed in X. cbn [snd] in X. split; [exact X|].
    unfold data_pending in Ed. destruct (inn (rd s)); [|inversion Ed; subst; auto].
    destruct (cur (en (rd s))); inversion Ed; subst; auto. }
  destruct Hb as (Hb & Hm & Hr).
  destruct (negb p). { intros H; inversion H; subst. repeat split; auto. discriminate. }
  destruct (esmtp sd).
  { intros H; inversion H; subst. repeat split; auto. intros evs E; inversion E; subst.
    unfold no_ho. cbn [existsb is_ho orb]. apply wait_for_quit_noho. }
  destruct (net_read (rd sd)) as [it r'] eqn:En.
  pose proof (net_read_ok _ _ _ Hb En) as Hok'.
  destruct it; intros H; inversion H; subst; (repeat split; auto); intros evs E; inversion E; subst;
    try reflexivity; unfold no_ho; cbn [existsb is_ho orb]; apply (wait_for_quit_noho f (set_rd sd r')).
Qed.

Lemma drain_ok fuel : forall r l alive r2, rstate_ok r -> drain fuel r l = (alive, r2) -> rstate_ok r2.
Proof.
  induction fuel as [|f IH]; intros r l alive r2 Hok H; cbn [drain] in H.
  - destruct (is_dot l); inversion H; subst; exact Hok.
  - destruct (is_dot l); [inversion H; subst; exact Hok|].
    destruct (net_read r) as [it r'] eqn:En. pose proof (net_read_ok _ _ _ Hok En) as Hok'.
    destruct it; try (inversion H; subst; exact Hok'); eapply IH; eauto.
Qed.
Lemma drain_break_ok fuel : forall r l alive e r2, rstate_ok r -> drain_break fuel r l = (alive, e, r2) -> rstate_ok r2.
Proof.
  induction fuel as [|f IH]; intros r l alive e r2 Hok H; cbn [drain_break] in H.
  - destruct (is_dot l); inversion H; subst; exact Hok.
  - destruct (is_dot l); [inversion H; subst; exact Hok|].
    destruct (net_read r) as [it r'] eqn:En. pose proof (net_read_ok _ _ _ Hok En) as Hok'.
    destruct it; try (inversion H; subst; exact Hok'); eapply IH; eauto.
Qed.

Section HM.
Variable o : oracles.

(** the parameters smtp_data runs with in this session, for the sender [f] of the open transaction *)
Definition par_s (f : bytes) : subm_par :=
  {| sp_on := o_submission o; sp_date := o_subm_date o; sp_from := f; sp_stamp := o_subm_stamp o; sp_host := o_msgidhost o |}.

(** what holds for every hand-off: some sender [f] and recipient list [rc] of the server state give the envelope, and the
    message is a trace header followed by the data lines with the additions for that same sender *)
Definition ho_ok (env msg : bytes) : Prop :=
  exists f rc trace seen, env = envelope (o_liphost o) f rc /\ msg = trace ++ queued (par_s f) seen /\ Forall data_line seen.
Definition hos_ok (evs : list event) : Prop := forall env msg, In (Handoff env msg) evs -> ho_ok env msg.

Lemma noho_hos evs : no_ho evs -> hos_ok evs.
Proof. intros H env msg Hin. exfalso. exact (no_ho_in _ _ _ H Hin). Qed.

(** the copy loops leave the line buffer within its bound *)
Lemma dread_ok r p x r' : rstate_ok r -> dread r p = (x, r') -> rstate_ok r'.
Proof.
  unfold dread. intros Hok H. destruct (net_read r) as [it r1] eqn:En. pose proof (net_read_ok _ _ _ Hok En) as Hok'.
  destruct it; inversion H; subst; exact Hok'.
Qed.
Lemma body_loop_ok fuel : forall dc r l msg sz seen d r', rstate_ok r -> body_loop fuel o dc r l msg sz seen = (d, r') -> rstate_ok r'.
Proof.
  induction fuel as [|f IH]; intros dc r l msg sz seen d r' Hok H; cbn [body_loop] in H; [inversion H; subst; exact Hok|].
  destruct (is_dot l || N.ltb (maxbytes o) sz); [inversion H; subst; exact Hok|].
  destruct (d_chk dc && negb (d_dt dc) && has8 l); [inversion H; subst; exact Hok|].
  destruct (d_wfail dc); [inversion H; subst; exact Hok|].
  destruct (dread r l) as [[d0|l'] r1] eqn:Ed; pose proof (dread_ok _ _ _ _ Hok Ed) as Hok1.
  - inversion H; subst; exact Hok1.
  - eapply IH; eauto.
Qed.
Lemma hdr_loop_ok fuel : forall dc r l msg sz hops hf seen d r', rstate_ok r ->
  hdr_loop fuel o dc r l msg sz hops hf seen = (d, r') -> rstate_ok r'.
Proof.
  induction fuel as [|f IH]; intros dc r l msg sz hops hf seen d r' Hok H; cbn [hdr_loop] in H; [inversion H; subst; exact Hok|].
  destruct (is_dot l || N.ltb (maxbytes o) sz || Nat.eqb (length l) 0 || Nat.ltb MAXHOPS hops).
  - match type of H with context [if ?c then (D_wfail l, r) else _] => destruct c end; [inversion H; subst; exact Hok|].
    match type of H with context [if ?c then (D_reject 550 l, r) else _] => destruct c end; [inversion H; subst; exact Hok|].
    destruct l as [|b t]; [|inversion H; subst; exact Hok].
    destruct (d_wfail dc); [inversion H; subst; exact Hok|].
    destruct (dread r []) as [[d0|l'] r1] eqn:Ed; pose proof (dread_ok _ _ _ _ Hok Ed) as Hok1.
    + inversion H; subst; exact Hok1.
    + eapply body_loop_ok; eauto.
  - destruct (if N.eqb (nth 0 l 0%N) DOT then Some (hf, false) else hdr_check dc hf l) as [[hf' flagr]|]; [|inversion H; subst; exact Hok].
    match type of H with context [if ?c then (D_loop l seen, r) else _] => destruct c end; [inversion H; subst; exact Hok|].
    match type of H with context [if ?c then (D_reject 554 l, r) else _] => destruct c end; [inversion H; subst; exact Hok|].
    destruct (d_wfail dc); [inversion H; subst; exact Hok|].
    destruct (dread r l) as [[d0|l'] r1] eqn:Ed; pose proof (dread_ok _ _ _ _ Hok Ed) as Hok1.
    + inversion H; subst; exact Hok1.
    + eapply IH; eauto.
Qed.
Lemma data_loop_ok fuel dc r trace d r' : rstate_ok r -> data_loop fuel o dc r trace = (d, r') -> rstate_ok r'.
Proof.
  unfold data_loop. intros Hok H.
  destruct (dread r []) as [[d0|l] r1] eqn:Ed; pose proof (dread_ok _ _ _ _ Hok Ed) as Hok1.
  - inversion H; subst; exact Hok1.
  - eapply hdr_loop_ok; eauto.
Qed.

(** ---------- the handlers ---------- *)
Lemma pre_ok_noho pre : pre_ok pre -> no_ho pre.
Proof.
  unfold pre_ok, no_ho. induction pre as [|e r IH]; [reflexivity|]. cbn [forallb existsb]. intros H.
  apply andb_true_iff in H as [He Hr]. rewrite (IH Hr), orb_false_r.
  destruct e as [c|x y| | |n]; try reflexivity; discriminate.
Qed.

Lemma relay_decide_rd s cls res s1 pre : relay_decide o s cls = (res, s1, pre) -> rd s1 = rd s /\ no_ho pre.
Proof.
  intros H. destruct (relay_decide_core _ _ _ _ _ _ H) as (Hc & Hp). split; [apply Hc|exact (pre_ok_noho _ Hp)].
Qed.
Lemma subm_gate_rd s res s1 pre : subm_gate o s = (res, s1, pre) -> rd s1 = rd s /\ no_ho pre.
Proof.
  unfold subm_gate. destruct (o_submission o); [apply relay_decide_rd|]. intros H; inversion H; subst. split; reflexivity.
Qed.

Ltac nhp Hp := first [ exact Hp | apply no_ho_app; [exact Hp|reflexivity] | reflexivity ].

Lemma h_rcpt_ho s arg evs h s' : rd_ok s -> h_rcpt o s arg = (evs, h, s') -> no_ho evs /\ rd_ok s'.
Proof.
  unfold h_rcpt. intros Hok H.
  destruct (o_addr o true arg) as [| | |addr more cls];
    try (destruct (Nat.leb MAXRCPT (rcptcount s))); try (inversion H; subst; (split; [reflexivity|]); first [exact Hok|apply tarpit_ok; exact Hok]).
  destruct (relay_decide o s cls) as [[res s1] pre] eqn:Er.
  destruct (relay_decide_rd _ _ _ _ _ Er) as (Hrd & Hpre).
  assert (Hok1 : rd_ok s1) by (unfold rd_ok; rewrite Hrd; exact Hok).
  destruct res as [al|h0]; [|inversion H; subst; split; [exact Hpre|exact Hok1]].
  repeat (match type of H with
          | context [match ?x with _ => _ end] => destruct x eqn:?
          | context [if ?x then _ else _] => destruct x eqn:?
          end; try discriminate);
    inversion H; subst; (split; [nhp Hpre|]);
    first [exact Hok1 | apply tarpit_ok; exact Hok1].
Qed.

Lemma h_from_ho s arg len evs h s' : rd_ok s -> h_from o s arg len = (evs, h, s') -> no_ho evs /\ rd_ok s'.
Proof.
  unfold h_from. intros Hok H.
  destruct (o_addr o false arg) as [| | |addr more cls]; [inversion H; subst; split; [reflexivity|exact Hok]| | |];
    (match type of H with context [subm_gate o ?sc] =>
       destruct (subm_gate o sc) as [[res s1] pre] eqn:Eg; destruct (subm_gate_rd _ _ _ _ Eg) as (Hrd & Hpre) end);
    cbn [rd] in Hrd;
    (assert (Hok1 : rd_ok s1) by (unfold rd_ok; rewrite Hrd; exact Hok));
    (destruct res as [al|h0]; [|inversion H; subst; split; [exact Hpre|exact Hok1]]);
    repeat (match type of H with
            | context [match ?x with _ => _ end] => destruct x eqn:?
            | context [if ?x then _ else _] => destruct x eqn:?
            end; try discriminate);
    inversion H; subst; (split; [nhp Hpre|]);
    first [exact Hok1 | apply tarpit_ok; exact Hok1].
Qed.

(** DATA: the only source of hand-offs *)
Lemma h_data_ho f s evs h s' : rd_ok s -> h_data f o s = (evs, h, s') ->
  hos_ok evs /\ (h <> HEXIT -> rd_ok s').
Proof.
  unfold h_data. intros Hok H.
  destruct (Nat.eqb (goodrcpt s) 0).
  { inversion H; subst. split; [apply noho_hos; reflexivity|intros _; apply tarpit_ok; exact Hok]. }
  destruct (sync_pipelining f s) as [sp s2] eqn:Esp.
  destruct (sync_pipelining_ho _ _ _ _ Hok Esp) as (Hok2 & Hmf & Hrc & Hq).
  destruct sp as [e|].
  { inversion H; subst. split; [apply noho_hos; apply Hq; reflexivity|congruence]. }
  destruct (qq_nostart (o_qq o (qcount s2))).
  { inversion H; subst. split; [apply noho_hos; reflexivity|intros _; exact Hok2]. }
  destruct (qq_die_hdr (o_qq o (qcount s2))).
  { match type of H with context [drain_break f ?rr ?ll] => destruct (drain_break f rr ll) as [[alive rerr] r2] eqn:Edr end.
    cbn [rd] in Edr. pose proof (drain_break_ok _ _ _ _ _ _ Hok2 Edr) as Hok2'.
    destruct alive; cbn [negb] in H; inversion H; subst; (split; [apply noho_hos; reflexivity|]);
      first [intros _; exact Hok2'|congruence]. }
  match type of H with context [data_loop f o ?dcv ?rr ?tr] =>
    set (dc := dcv) in H; set (trc := tr) in H; destruct (data_loop f o dc rr trc) as [de r'] eqn:Edl end.
  cbn [rd] in Edl.
  pose proof (data_loop_ok _ _ _ _ _ _ Hok2 Edl) as Hok'.
  destruct de as [msg sz seen|l seen|l seen|big l|lw|code lr| |].
  - (* end of data: the hand-off, if qmail-queue accepts *)
    pose proof (data_loop_spec _ _ _ _ _ _ _ Hok2 Edl) as S. cbn in S. destruct S as (Hm & _ & Hall & _).
    assert (Hho : ho_ok (envelope (o_liphost o) (mailfrom s2) (rcpts s2)) msg).
    { exists (mailfrom s2), (rcpts s2), trc, seen. split; [reflexivity|]. split; [exact Hm|exact Hall]. }
    destruct (o_qq o (qcount s2)) eqn:Eqq;
      try (destruct (Nat.leb QQ_PERM_LO code && Nat.leb code QQ_PERM_HI));
      inversion H; subst evs h s'; (split; [|intros _; exact Hok']);
      try (apply noho_hos; reflexivity).
    intros env m Hin. cbn [In] in Hin.
    destruct Hin as [E|[E|[E|[E|[E|[]]]]]]; try discriminate. inversion E; subst. exact Hho.
  - destruct (drain f r' l) as [alive r2] eqn:Edr. pose proof (drain_ok _ _ _ _ _ Hok' Edr) as Hok2'.
    destruct alive; inversion H; subst; (split; [apply noho_hos; reflexivity|]); [intros _; exact Hok2'|congruence].
  - destruct (drain f r' l) as [alive r2] eqn:Edr. pose proof (drain_ok _ _ _ _ _ Hok' Edr) as Hok2'.
    destruct alive; inversion H; subst; (split; [apply noho_hos; reflexivity|]); [intros _; exact Hok2'|congruence].
  - destruct (drain f r' l) as [alive r2] eqn:Edr. pose proof (drain_ok _ _ _ _ _ Hok' Edr) as Hok2'.
    destruct alive; cbn [negb] in H; [destruct big|]; inversion H; subst; (split; [apply noho_hos; reflexivity|]);
      first [intros _; exact Hok2'|congruence].
  - destruct (drain_break f r' lw) as [[alive rerr] r2] eqn:Edr. pose proof (drain_break_ok _ _ _ _ _ _ Hok' Edr) as Hok2'.
    destruct alive; cbn [negb] in H; inversion H; subst; (split; [apply noho_hos; reflexivity|]);
      first [intros _; exact Hok2'|congruence].
  - destruct (drain f r' lr) as [alive r2] eqn:Edr. pose proof (drain_ok _ _ _ _ _ Hok' Edr) as Hok2'.
    destruct alive; inversion H; subst; (split; [apply noho_hos; reflexivity|]); [intros _; exact Hok2'|congruence].
  - inversion H; subst. split; [apply noho_hos; reflexivity|congruence].
  - inversion H; subst. split; [apply noho_hos; reflexivity|congruence].
Qed.

Lemma on_error_ho s h ev so : rd_ok s -> on_error s h = (ev, so) ->
  no_ho ev /\ match so with Some s' => rd_ok s' | None => True end.
Proof.
  unfold on_error. intros Hok H. destruct (Nat.ltb MAXBADCMDS (badcmds s)).
  - inversion H; subst. split; [reflexivity|exact Logic.I].
  - destruct h; inversion H; subst; (split; [reflexivity|]); first [exact Hok|apply tarpit_ok; exact Hok].
Qed.

Lemma dispatch_ho f s l evs h s1 : rd_ok s -> dispatch f o s l = (evs, h, s1) -> hos_ok evs /\ (h <> HEXIT -> rd_ok s1).
Proof.
  unfold dispatch. intros Hok H.
  assert (K0 : forall e : list event, no_ho e -> hos_ok e /\ (h <> HEXIT -> rd_ok s)) by (intros e E; split; [now apply noho_hos|intros _; exact Hok]).
  destruct (negb (line_valid l)). { inversion H; subst. apply K0; reflexivity. }
  destruct (find_cmd commands 0 l) as [[i [[[[name mask] hid] st] flags]]|].
  2:{ inversion H; subst. apply K0; reflexivity. }
  destruct (N.eqb (N.land (comstate s) mask) 0). { inversion H; subst. apply K0; reflexivity. }
  destruct (N.eqb (N.land flags 2) 0 && Nat.ltb CMD_LINE_MAX (length l)). { inversion H; subst. apply K0; reflexivity. }
  destruct (N.eqb (N.land flags 1) 0 && negb (Nat.eqb (length (skipn (length name) l)) 0)). { inversion H; subst. apply K0; reflexivity. }
  destruct (negb (N.eqb (N.land flags 4) 0) && negb (N.eqb (nth 0 (skipn (length name) l) 0%N) SP)). { inversion H; subst. apply K0; reflexivity. }
  clear K0.
  assert (K : forall (e : list event) (s' : sstate), no_ho e -> rd_ok s' -> hos_ok e /\ (h <> HEXIT -> rd_ok s'))
    by (intros e s' E Ho; split; [now apply noho_hos|intros _; exact Ho]).
  assert (KX : forall (e : list event) (s' : sstate), no_ho e -> h = HEXIT -> hos_ok e /\ (h <> HEXIT -> rd_ok s'))
    by (intros e s' E Hx; split; [now apply noho_hos|congruence]).
  unfold after_handler, run_handler in H.
  destruct hid as [|[|[|[|[|[|[|[|[|[|[|[|[|hid]]]]]]]]]]]]].
  - destruct (sync_pipelining f s) as [sp s2] eqn:Esp. destruct (sync_pipelining_ho _ _ _ _ Hok Esp) as (Hb & _ & _ & Hq).
    destruct sp as [e|]; inversion H; subst; [apply KX; [apply Hq; reflexivity|reflexivity]|apply K; [reflexivity|exact Hb]].
  - inversion H; subst. apply KX; reflexivity.
  - destruct (N.leb 8 (comstate s)); inversion H; subst; apply K; first [reflexivity|exact Hok].
  - destruct (o_helo o (skipn 5 l)); inversion H; subst; apply K; first [reflexivity|exact Hok].
  - destruct (o_helo o (skipn 5 l)); inversion H; subst; apply K; first [reflexivity|exact Hok].
  - destruct (h_from o s (skipn (length name) l) (length l)) as [[e h'] s'] eqn:Eh.
    destruct (h_from_ho _ _ _ _ _ _ Hok Eh) as (Hn & Hb).
    destruct h'; inversion H; subst; apply K; auto.
  - destruct (h_rcpt o s (skipn (length name) l)) as [[e h'] s'] eqn:Eh.
    destruct (h_rcpt_ho _ _ _ _ _ Hok Eh) as (Hn & Hb).
    destruct h'; inversion H; subst; apply K; auto.
  - destruct (h_data f o s) as [[e h'] s'] eqn:Eh.
    destruct (h_data_ho _ _ _ _ _ Hok Eh) as (Hn & Hb).
    destruct h'; inversion H; subst; (split; [exact Hn|]); first [congruence | intros _; apply Hb; discriminate].
  - destruct (negb (esmtp s)); inversion H; subst; (apply K; [reflexivity|exact Hok]).
  - destruct (authed s || negb (o_authperm o)); [inversion H; subst; apply K; [reflexivity|exact Hok]|].
    destruct (o_auth o (skipn 5 l)); inversion H; subst; first [apply K; [reflexivity|exact Hok] | apply KX; reflexivity].
  - inversion H; subst. apply K; [reflexivity|exact Hok].
  - inversion H; subst. apply K; [reflexivity|exact Hok].
  - destruct (N.eqb (comstate s) 1 && bytes_eqb (sub l 4 10) [32; 47; 32; 72; 84; 84; 80; 47; 49; 46]%N);
      inversion H; subst; first [apply KX; reflexivity | apply K; [reflexivity|exact Hok]].
  - inversion H; subst. apply K; [reflexivity|exact Hok].
Qed.

Lemma hos_app a b : hos_ok a -> hos_ok b -> hos_ok (a ++ b).
Proof. intros Ha Hb env msg Hin. apply in_app_or in Hin as [Hi|Hi]; [exact (Ha _ _ Hi)|exact (Hb _ _ Hi)]. Qed.

Lemma step_ho f s evs so : rd_ok s -> step f o s = (evs, so) ->
  hos_ok evs /\ match so with Some s' => rd_ok s' | None => True end.
Proof.
  unfold step. intros Hok H. destruct (net_read (rd s)) as [it r'] eqn:En.
  pose proof (net_read_ok _ _ _ Hok En) as Hok0. change (rd_ok (set_rd s r')) in Hok0.
  destruct it as [l| | | |].
  - destruct (dispatch f o (set_rd s r') l) as [[e h] s1] eqn:Ed.
    destruct (dispatch_ho _ _ _ _ _ _ Hok0 Ed) as (Hh & Hb).
    destruct h;
      try (destruct (on_error s1 _) as [ev so'] eqn:Eoe; inversion H; subst;
           destruct (on_error_ho _ _ _ _ (Hb ltac:(discriminate)) Eoe) as (Hn & Hs);
           split; [apply hos_app; [exact Hh|now apply noho_hos]|exact Hs]).
    + inversion H; subst. split; [apply hos_app; [exact Hh|apply noho_hos; reflexivity]|apply Hb; discriminate].
    + inversion H; subst. split; [exact Hh|exact Logic.I].
  - destruct (on_error_ho _ _ _ _ Hok0 H) as (Hn & Hs). split; [now apply noho_hos|exact Hs].
  - destruct (on_error_ho _ _ _ _ Hok0 H) as (Hn & Hs). split; [now apply noho_hos|exact Hs].
  - inversion H; subst. split; [apply noho_hos; reflexivity|exact Logic.I].
  - inversion H; subst. split; [apply noho_hos; reflexivity|exact Logic.I].
Qed.

Lemma serve_ho fuel : forall s, rd_ok s -> hos_ok (serve fuel o s).
Proof.
  induction fuel as [|f IH]; intros s Hok; cbn [serve]; [apply noho_hos; reflexivity|].
  destruct (step f o s) as [ev so] eqn:Es. destruct (step_ho _ _ _ _ Hok Es) as (Hh & Hs).
  apply hos_app; [exact Hh|]. destruct so as [s'|]; [exact (IH _ Hs)|apply noho_hos; reflexivity].
Qed.

(** every hand-off of every session *)
Theorem session_handoff_message chunks env msg : In (Handoff env msg) (run_session o chunks) ->
  exists f rc trace seen,
    env = envelope (o_liphost o) f rc
    /\ msg = trace ++ queued (par_s f) seen
    /\ Forall data_line seen.
Proof.
  unfold run_session. intros Hin. cbn [In] in Hin. destruct Hin as [E|Hin]; [discriminate|].
  apply (serve_ho (session_fuel chunks) (init_state chunks)); [|exact Hin].
  unfold rd_ok, rstate_ok, init_state. cbn. apply Nat.le_0_l.
Qed.

End HM.

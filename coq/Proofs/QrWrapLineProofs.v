(** wrap_line (folding of one over-long header line), literal model to specification: for every line of
    at least WL_LONG octets inside the mapping the call terminates, reads nothing outside the line, stays
    inside sendbuf[WL_BUF], and writes the line cut into fragments: the first one dot-stuffed, every
    further one behind "CRLF SP", each followed by CRLF. *)
From Qv Require Import Common.Bytes Gen.GenQrdata Model.Mime Model.QrData Proofs.QrMemLemmas Proofs.QrPlainProofs
  Spec.SmtpDataSpec Spec.DeliverSpec.
Require Import Lia.

Ltac wconsts := unfold WL_BUF, WL_LONG, WL_PART, WL_SHORT, WL_LATE, WL_LATEMAX, WL_FLUSH_MARGIN, WL_END_MARGIN in *.

Definition cont_frag (f : bytes) : bytes := SP :: f ++ CRLF.
Definition render_frags (fs : list bytes) : bytes :=
  match fs with
  | [] => []
  | f :: r => stuff_line f ++ CRLF ++ concat (map cont_frag r)
  end.

Lemma render_snoc fs f : fs <> [] -> render_frags (fs ++ [f]) = render_frags fs ++ cont_frag f.
Proof.
  destruct fs as [|f0 r]; [contradiction|]. intros _. cbn [app render_frags].
  rewrite map_app, concat_app. cbn [map concat]. rewrite app_nil_r, <- !app_assoc. reflexivity.
Qed.

Lemma scan_down_ok m base : forall n, base + n < length m -> exists p, scan_down m base n = Ok p /\ p <= n.
Proof.
  induction n as [|n IH]; intros H; cbn [scan_down]; [eauto|].
  rewrite rd_ok by lia. cbn [bind]. destruct (N.eqb (nth (base + S n) m 0%N) SP); [eauto|].
  destruct IH as (p & E & Hp); [lia|]. exists p. split; [exact E|lia].
Qed.

Lemma scan_up_ok m base : forall fuel l, l <= WL_LATEMAX -> WL_LATEMAX - l < fuel -> base + WL_LATEMAX <= length m ->
  exists r, scan_up fuel m base l = Ok r /\ l <= r <= WL_LATEMAX.
Proof.
  induction fuel as [|fuel IH]; intros l H1 H2 H3; [lia|]. cbn [scan_up].
  destruct (Nat.ltb_spec l WL_LATEMAX) as [Hlt|Hge]; [|exists l; split; [reflexivity|lia]].
  rewrite rd_ok by lia. cbn [bind]. destruct (N.eqb (nth (base + l) m 0%N) SP); [exists l; split; [reflexivity|lia]|].
  destruct (IH (S l)) as (r & E & Hr); try lia. exists r. split; [exact E|lia].
Qed.

Section Window.
Variable m : bytes.
Variables b len : nat.
Variable Hwin : b + len <= length m.
Let w := sub m b len.
Let w_len : length w = len := w_length m b len Hwin.
Let rdnw : forall off k, off + k <= len -> rdn m (b + off) k = Ok (sub w off k) := rdn_win m b len Hwin.
Let sbok := sb_add_ok m b len Hwin.

Lemma wl_loop_eq fuel off pos bo sb st :
  wl_loop fuel m b off pos bo sb st =
  if Nat.leb WL_LONG off then
    match fuel with
    | O => OutOfFuel
    | S fu =>
        do p0 <- scan_down m (b + pos) WL_PART;
        do partoff <- (if Nat.ltb p0 WL_SHORT then
                         do lateoff <- scan_up (S WL_LATEMAX) m (b + pos) WL_LATE;
                         Ok (if Nat.ltb lateoff WL_LATEMAX then lateoff else p0)
                       else Ok p0);
        let '(bo, sb, st) := if Nat.leb (WL_BUF - WL_FLUSH_MARGIN) (partoff + bo) then (0, [], wr st sb) else (bo, sb, st) in
        do s1 <- (if Nat.eqb pos 0 then
                    do c0 <- rd m b;
                    if N.eqb c0 DOT then do sb1 <- sb_add WL_BUF bo sb [DOT]; Ok (S bo, sb1) else Ok (bo, sb)
                  else do sb1 <- sb_add WL_BUF bo sb [SP]; Ok (S bo, sb1));
        let '(bo, sb) := s1 in
        let partoff := S partoff in
        do d <- rdn m (b + pos) partoff;
        do sb1 <- sb_add WL_BUF bo sb (d ++ CRLF);
        if Nat.ltb off partoff then Crash 30%N else
        wl_loop fu m b (off - partoff) (pos + partoff) (bo + partoff + 2) sb1 st
    end
  else Ok (pos, off, bo, sb, st).
Proof. destruct fuel; reflexivity. Qed.

Definition frag_ok (f : bytes) : Prop := 1 <= length f <= WL_LATEMAX.

Lemma stuff_first (f : bytes) (c0 : N) : f <> [] -> nth 0 f 0%N = c0 ->
  (if N.eqb c0 DOT then [DOT] else []) ++ f = stuff_line f.
Proof.
  intros Hne Hc. destruct f as [|x f']; [contradiction|]. cbn in Hc. subst x. cbn [stuff_line].
  destruct (N.eqb c0 DOT); reflexivity.
Qed.

Lemma wl_loop_ok : forall fuel off pos bo sb st fs P0,
  pos + off = len -> off < fuel ->
  concat fs = sub w 0 pos -> (pos = 0 <-> fs = []) -> Forall frag_ok fs ->
  length sb = bo -> bo <= WL_BUF - WL_FLUSH_MARGIN + 3 ->
  concat (rev (out st)) ++ sb = P0 ++ render_frags fs ->
  exists pos' off' bo' sb' st' fs',
    wl_loop fuel m b off pos bo sb st = Ok (pos', off', bo', sb', st') /\
    pos' + off' = len /\ off' < WL_LONG /\ (WL_LONG <= off -> fs' <> []) /\ (fs <> [] -> fs' <> []) /\
    concat fs' = sub w 0 pos' /\ Forall frag_ok fs' /\
    length sb' = bo' /\ bo' <= WL_BUF - WL_FLUSH_MARGIN + 3 /\
    concat (rev (out st')) ++ sb' = P0 ++ render_frags fs' /\ lastlf st' = lastlf st.
Proof.
  induction fuel as [|fuel IH]; intros off pos bo sb st fs P0 Hpo Hfuel Hfs Hp0 Hfr Hsb Hbo HE; [lia|].
  rewrite wl_loop_eq. destruct (Nat.leb_spec WL_LONG off) as [Hlong|Hshort].
  2: { exists pos, off, bo, sb, st, fs. repeat split; auto; try lia. }
  destruct (scan_down_ok m (b + pos) WL_PART) as (p0 & E0 & Hp0le); [wconsts; lia|].
  rewrite E0. cbn [bind].
  assert (Hpart : exists partoff, (if Nat.ltb p0 WL_SHORT then
                         do lateoff <- scan_up (S WL_LATEMAX) m (b + pos) WL_LATE;
                         Ok (if Nat.ltb lateoff WL_LATEMAX then lateoff else p0)
                       else Ok p0) = Ok partoff /\ partoff < WL_LATEMAX).
  { destruct (Nat.ltb p0 WL_SHORT).
    - destruct (scan_up_ok m (b + pos) (S WL_LATEMAX) WL_LATE) as (l & El & Hl); [wconsts; lia|wconsts; lia|wconsts; lia|].
      rewrite El. cbn [bind]. destruct (Nat.ltb_spec l WL_LATEMAX); eexists; split; try reflexivity; wconsts; lia.
    - eexists. split; [reflexivity|]. wconsts. lia. }
  destruct Hpart as (partoff & Epart & Hpartlt). rewrite Epart. cbn [bind].
  assert (Hfragin : pos + S partoff <= len) by (wconsts; lia).
  set (f := sub w pos (S partoff)).
  assert (Hflen : length f = S partoff) by (apply sub_length; rewrite w_len; lia).
  assert (Hfok : frag_ok f) by (unfold frag_ok; rewrite Hflen; lia).
  (* everything behind the flush decision *)
  assert (Tail : forall bo1 sb1 st1,
            length sb1 = bo1 -> partoff + bo1 < WL_BUF - WL_FLUSH_MARGIN ->
            concat (rev (out st1)) ++ sb1 = P0 ++ render_frags fs -> lastlf st1 = lastlf st ->
            exists pos' off' bo' sb' st' fs',
              (do s1 <- (if Nat.eqb pos 0 then
                           do c0 <- rd m b;
                           if N.eqb c0 DOT then do sb' <- sb_add WL_BUF bo1 sb1 [DOT]; Ok (S bo1, sb') else Ok (bo1, sb1)
                         else do sb' <- sb_add WL_BUF bo1 sb1 [SP]; Ok (S bo1, sb'));
               let '(bo, sb) := s1 in
               let partoff := S partoff in
               do d <- rdn m (b + pos) partoff;
               do sb1 <- sb_add WL_BUF bo sb (d ++ CRLF);
               if Nat.ltb off partoff then Crash 30%N else
               wl_loop fuel m b (off - partoff) (pos + partoff) (bo + partoff + 2) sb1 st1)
              = Ok (pos', off', bo', sb', st') /\
              pos' + off' = len /\ off' < WL_LONG /\ (WL_LONG <= off -> fs' <> []) /\ (fs <> [] -> fs' <> []) /\
              concat fs' = sub w 0 pos' /\ Forall frag_ok fs' /\
              length sb' = bo' /\ bo' <= WL_BUF - WL_FLUSH_MARGIN + 3 /\
              concat (rev (out st')) ++ sb' = P0 ++ render_frags fs' /\ lastlf st' = lastlf st).
  { intros bo1 sb1 st1 Hsb1 Hbo1 HE1 Hlf1.
    (* the prefix: transparency dot or blank *)
    assert (Hpre : exists bo2 sb2,
              (if Nat.eqb pos 0 then
                 do c0 <- rd m b;
                 if N.eqb c0 DOT then do sb' <- sb_add WL_BUF bo1 sb1 [DOT]; Ok (S bo1, sb') else Ok (bo1, sb1)
               else do sb' <- sb_add WL_BUF bo1 sb1 [SP]; Ok (S bo1, sb')) = Ok (bo2, sb2) /\
              length sb2 = bo2 /\ bo2 <= S bo1 /\
              concat (rev (out st1)) ++ sb2 ++ f ++ CRLF = P0 ++ render_frags (fs ++ [f])).
    { destruct (Nat.eqb_spec pos 0) as [Hz|Hnz].
      - assert (Hfs0 : fs = []) by (apply Hp0; exact Hz). rewrite Hfs0 in *.
        rewrite rd_ok by lia. cbn [bind].
        assert (Hc0 : nth 0 f 0%N = nth b m 0%N).
        { unfold f. rewrite nth_sub by lia. unfold w. rewrite nth_sub by lia. f_equal. lia. }
        cbn [app render_frags map concat]. rewrite app_nil_r.
        rewrite <- (stuff_first f (nth b m 0%N)) by (auto; intros E; rewrite E in Hflen; discriminate).
        cbn [render_frags] in HE1. rewrite app_nil_r in HE1.
        destruct (N.eqb (nth b m 0%N) DOT).
        + rewrite sbok by (cbn [length]; wconsts; lia). cbn [bind].
          exists (S bo1), (sb1 ++ [DOT]). repeat split; [rewrite app_length; cbn [length]; lia|lia|].
          rewrite <- HE1. rewrite <- !app_assoc. reflexivity.
        + exists bo1, sb1. repeat split; [exact Hsb1|lia|].
          rewrite <- HE1. rewrite <- !app_assoc. reflexivity.
      - assert (Hfsne : fs <> []) by (intros E; apply Hnz; apply Hp0; exact E).
        rewrite sbok by (cbn [length]; wconsts; lia). cbn [bind].
        exists (S bo1), (sb1 ++ [SP]). repeat split; [rewrite app_length; cbn [length]; lia|lia|].
        rewrite render_snoc by exact Hfsne. unfold cont_frag.
        rewrite (app_assoc P0 (render_frags fs)). rewrite <- HE1. rewrite <- !app_assoc. reflexivity. }
    destruct Hpre as (bo2 & sb2 & Epre & Hsb2 & Hbo2 & HE2). rewrite Epre. cbn [bind]. cbv zeta.
    rewrite rdnw by lia. cbn [bind]. fold f.
    rewrite sbok by (rewrite app_length, Hflen; unfold CRLF; cbn [length]; wconsts; lia). cbn [bind].
    destruct (Nat.ltb_spec off (S partoff)) as [Hbad|_]; [wconsts; lia|].
    destruct (IH (off - S partoff) (pos + S partoff) (bo2 + S partoff + 2) (sb2 ++ f ++ CRLF) st1 (fs ++ [f]) P0)
      as (pos' & off' & bo' & sb' & st' & fs' & R1 & R2 & R3 & R4 & R5 & R6 & R7 & R8 & R9 & R10 & R11).
    - lia.
    - lia.
    - rewrite concat_app. cbn [concat]. rewrite app_nil_r, Hfs. unfold f.
      unfold sub. cbn [skipn]. rewrite firstn_add'. reflexivity.
    - split; [lia|]. intros E. destruct fs; discriminate.
    - apply Forall_app. split; [exact Hfr|]. constructor; [exact Hfok|constructor].
    - rewrite !app_length, Hflen. unfold CRLF. cbn [length]. lia.
    - wconsts. lia.
    - rewrite <- HE2. reflexivity.
    - exists pos', off', bo', sb', st', fs'. repeat split; auto.
      + intros _. apply R5. intros E. destruct fs; discriminate.
      + intros _. apply R5. intros E. destruct fs; discriminate.
      + rewrite R11. exact Hlf1. }
  destruct (Nat.leb_spec (WL_BUF - WL_FLUSH_MARGIN) (partoff + bo)) as [Hf|Hnf].
  - apply (Tail 0 [] (wr st sb)); auto.
    + wconsts. lia.
    + cbn [wr out rev]. rewrite concat_app. cbn [concat]. rewrite !app_nil_r. exact HE.
  - apply (Tail bo sb st); auto.
Qed.
(** wrap_line(buf = the line, len) for a line of at least WL_LONG octets *)
Theorem wrap_line_ok : forall st, WL_LONG <= len ->
  exists st' fs,
    wrap_line m b len st = Ok (len, st') /\
    concat fs = w /\ 2 <= length fs /\ Forall (fun f => length f <= WL_LATEMAX) fs /\
    (exists f0 r, fs = f0 :: r /\ f0 <> []) /\
    concat (rev (out st')) = concat (rev (out st)) ++ render_frags fs /\ lastlf st' = true.
Proof.
  intros st Hlong.
  destruct (wl_loop_ok (S len) len 0 0 [] st [] (concat (rev (out st))))
    as (pos & off & bo & sb & st1 & fs & R1 & R2 & R3 & R4 & _ & R6 & R7 & R8 & R9 & R10 & _);
    [lia|lia|reflexivity|split; reflexivity|constructor|reflexivity|lia|cbn [render_frags]; now rewrite !app_nil_r|].
  specialize (R4 Hlong).
  unfold wrap_line. rewrite R1. cbn [bind].
  rewrite sbok by (cbn [length]; wconsts; lia). cbn [bind]. cbv zeta.
  set (fl := sub w pos off).
  assert (Hfl : length fl = off) by (apply sub_length; rewrite w_len; lia).
  assert (Hall : concat (fs ++ [fl]) = w).
  { rewrite concat_app. cbn [concat]. rewrite app_nil_r, R6. unfold fl, sub. cbn [skipn].
    rewrite <- firstn_add'. apply firstn_all2. rewrite w_len. lia. }
  assert (Hfrag : Forall (fun f => length f <= WL_LATEMAX) (fs ++ [fl])).
  { apply Forall_app. split.
    - eapply Forall_impl; [|exact R7]. intros f Hf. unfold frag_ok in Hf. lia.
    - constructor; [rewrite Hfl; wconsts; lia|constructor]. }
  assert (Hhd : exists f0 r, fs ++ [fl] = f0 :: r /\ f0 <> []).
  { destruct fs as [|f0 r]; [contradiction|]. exists f0, (r ++ [fl]). split; [reflexivity|].
    pose proof (Forall_inv R7) as Hf0. unfold frag_ok in Hf0. intros E. rewrite E in Hf0. cbn in Hf0. lia. }
  assert (Hlen2 : 2 <= length (fs ++ [fl])).
  { rewrite app_length. cbn [length]. destruct fs; [contradiction|cbn [length]; lia]. }
  destruct (Nat.leb_spec (WL_BUF - WL_END_MARGIN) (off + S bo)) as [Hf|Hnf].
  - (* flush before the last fragment *)
    rewrite rdnw by lia. cbn [bind]. fold fl.
    rewrite sbok by (rewrite app_length, Hfl; unfold CRLF; cbn [length]; wconsts; lia). cbn [bind].
    eexists. exists (fs ++ [fl]). split; [reflexivity|]. repeat split; auto.
    cbn [set_lastlf wr out rev]. rewrite !concat_app. cbn [concat]. rewrite !app_nil_r.
    rewrite render_snoc by exact R4. unfold cont_frag.
    rewrite <- !app_assoc. rewrite (app_assoc (concat (rev (out st1)))). rewrite R10.
    rewrite <- !app_assoc. reflexivity.
  - rewrite rdnw by lia. cbn [bind]. fold fl.
    rewrite sbok by (rewrite app_length, Hfl; unfold CRLF; cbn [length]; wconsts; lia). cbn [bind].
    eexists. exists (fs ++ [fl]). split; [reflexivity|]. repeat split; auto.
    cbn [set_lastlf wr out rev]. rewrite !concat_app. cbn [concat]. rewrite !app_nil_r.
    rewrite render_snoc by exact R4. unfold cont_frag.
    rewrite <- !app_assoc. rewrite (app_assoc (concat (rev (out st1)))). rewrite R10.
    rewrite <- !app_assoc. reflexivity.
Qed.

End Window.

(* ------------------------------------------------------------------ what the fragments are worth *)
Lemma Forall_concat {A} (P : A -> Prop) (ls : list (list A)) : Forall P (concat ls) -> Forall (Forall P) ls.
Proof.
  induction ls as [|l ls IH]; cbn [concat]; intros H; [constructor|].
  apply Forall_app in H as [H1 H2]. constructor; auto.
Qed.

Lemma cont_as_lines r : concat (map cont_frag r) = join_crlf (map (cons SP) r).
Proof.
  unfold join_crlf. induction r as [|f r IH]; [reflexivity|]. cbn [map concat]. rewrite IH. reflexivity.
Qed.

Lemma render_as_lines f0 r : render_frags (f0 :: r) = join_crlf (stuff_line f0 :: map (cons SP) r).
Proof.
  cbn [render_frags]. rewrite cont_as_lines. unfold join_crlf. cbn [map concat]. now rewrite <- app_assoc.
Qed.

Lemma legal_stuffed' (ext8 : bool) (l : bytes) :
  line_clean l -> length l <= MAXLINE -> (ext8 = false -> seven_bit l) -> legal_line ext8 (stuff_line l).
Proof.
  intros Hc Hl H7. unfold legal_line, stuff_line, counted_len.
  destruct l as [|c r]; [repeat split; [constructor|discriminate|cbn; lia|intros; constructor]|].
  destruct (N.eqb_spec c DOT) as [->|Hnd].
  - repeat split.
    + constructor; [split; discriminate|exact Hc].
    + discriminate.
    + cbn. exact Hl.
    + intros E. constructor; [reflexivity|exact (H7 E)].
  - repeat split; auto.
    + intros E. inversion E. contradiction.
    + cbn [unstuff_line]. destruct (N.eqb_spec c DOT); [contradiction|exact Hl].
Qed.

(** the folded line is legal SMTP data: every fragment line is at most WL_LATEMAX + 1 <= 998 octets *)
Theorem frags_legal (ext8 : bool) (fs : list bytes) :
  line_clean (concat fs) -> (ext8 = false -> seven_bit (concat fs)) ->
  Forall (fun f => length f <= WL_LATEMAX) fs -> fs <> [] ->
  legal_data ext8 (render_frags fs).
Proof.
  intros Hc H7 Hlen Hne. destruct fs as [|f0 r]; [contradiction|].
  rewrite render_as_lines. exists (stuff_line f0 :: map (cons SP) r). split; [reflexivity|].
  apply Forall_concat in Hc.
  assert (H7' : ext8 = false -> Forall seven_bit (f0 :: r)) by (intros E; apply Forall_concat; exact (H7 E)).
  inversion Hc as [|? ? Hc0 Hcr]; subst. inversion Hlen as [|? ? Hl0 Hlr]; subst.
  constructor.
  - apply legal_stuffed'; [exact Hc0|wconsts; unfold MAXLINE; lia|].
    intros E. specialize (H7' E). now inversion H7'.
  - apply Forall_map. rewrite Forall_forall in Hcr, Hlr |- *. intros f Hf.
    unfold legal_line. repeat split.
    + constructor; [split; discriminate|apply Hcr; exact Hf].
    + discriminate.
    + unfold counted_len, unstuff_line. change (N.eqb SP DOT) with false. cbn [length]. specialize (Hlr f Hf). wconsts. unfold MAXLINE. lia.
    + intros E. specialize (H7' E). inversion H7' as [|? ? _ H7r]; subst. rewrite Forall_forall in H7r.
      constructor; [reflexivity|apply H7r; exact Hf].
Qed.

Lemma unfolds_refl x : unfolds_to x x = true.
Proof. induction x as [|c x IH]; [reflexivity|]. cbn [unfolds_to]. rewrite N.eqb_refl, IH. reflexivity. Qed.

Lemma unfolds_app a x o : unfolds_to x o = true -> unfolds_to (a ++ x) (a ++ o) = true.
Proof.
  intros H. induction a as [|c a IH]; [exact H|]. cbn [app unfolds_to]. rewrite N.eqb_refl, IH. reflexivity.
Qed.

Lemma unfolds_skip x o : unfolds_to x o = true -> unfolds_to (CR :: LF :: SP :: x) o = true.
Proof.
  intros H. cbn [unfolds_to]. rewrite H. cbn [N.eqb Pos.eqb andb]. apply Bool.orb_true_r.
Qed.

Lemma stuff_line_app f x : f <> [] -> stuff_line (f ++ x) = stuff_line f ++ x.
Proof. destruct f as [|c f']; [contradiction|]. intros _. cbn [app stuff_line]. destruct (N.eqb c DOT); reflexivity. Qed.

(** taking the inserted "CRLF SP" out again gives the dot-stuffed line back: the folding is undone by
    [unfolds_to], the relation the C07 checker uses *)
Theorem frags_unfold (f0 : bytes) (r : list bytes) :
  f0 <> [] -> unfolds_to (render_frags (f0 :: r)) (stuff_line (concat (f0 :: r)) ++ CRLF) = true.
Proof.
  intros Hne. cbn [render_frags concat]. rewrite stuff_line_app by exact Hne. rewrite <- app_assoc.
  apply unfolds_app.
  induction r as [|f r IH]; cbn [map concat].
  - rewrite !app_nil_r. apply unfolds_refl.
  - unfold cont_frag at 1. unfold CRLF at 1. cbn [app]. apply unfolds_skip.
    rewrite <- !app_assoc. apply unfolds_app. exact IH.
Qed.

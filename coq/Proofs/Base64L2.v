(** Consuming ("L2") view of b64decode and its equivalence with the literal model.

    L2 reads the remaining text [con] (= in + i + j) symbol by symbol:
    [skip1] skips one CRLF in front of a symbol, [classify_sym] is the alphabet
    lookup, [quad2] one group of four, [loop2] the outer loop.  The only thing
    L2 has to remember from the index arithmetic of the C is [k3]: whether a
    CRLF was skipped in front of the fourth symbol, because then in[i + 2] in
    the first break test is that LF and not the third symbol.

    Main result: [b64decode_L2 : b64decode inp = Ok (decode2 inp)] — in
    particular no [Crash] (no access outside in[0..l) and out->s[0..l+3)) and
    no [OutOfFuel]. *)
From Qv Require Import Common.Bytes Gen.GenBase64 Model.Base64.

Ltac b64consts := unfold B64_DEC_SLACK, B64_GROUP, B64_BRK1, B64_BRK2 in *.

Inductive sym : Type := SAl (v : N) | SPad | SEnd.
Definition sval (s : sym) : N := match s with SAl v => v | _ => 0%N end.
Definition stops (s : sym) : bool := match s with SAl _ => false | _ => true end.

Definition skip1 (con : bytes) : option (bytes * bool) :=
  match con with
  | [] => Some ([], false)
  | c :: r =>
      if N.eqb c CR then
        match r with
        | [] => None
        | c2 :: r2 => if N.eqb c2 LF then Some (r2, true) else None
        end
      else Some (con, false)
  end.

Definition classify_sym (c : N) : option sym :=
  if N.eqb c B64_PAD then Some SPad
  else match strchr_alpha c with
       | None => None
       | Some k => if N.eqb c 0 then None else Some (SAl (N.of_nat k))
       end.

Definition take (con : bytes) : option (sym * bytes * bool) :=
  match skip1 con with
  | None => None
  | Some (r, k) =>
      match r with
      | [] => Some (SEnd, [], k)
      | c :: r' => match classify_sym c with
                   | Some s => Some (s, r', k)
                   | None => None
                   end
      end
  end.

Inductive qres : Type :=
| QRej
| QStop (acc : bytes)
| QCont (con : bytes) (acc : bytes).

Definition quad2 (con acc : bytes) : qres :=
  match take con with None => QRej | Some (s0, c1, _) =>
  match take c1 with None => QRej | Some (s1, c2, _) =>
  match take c2 with None => QRej | Some (s2, c3, _) =>
  match take c3 with None => QRej | Some (s3, c4, k3) =>
    let acc := dec_b0 (sval s0) (sval s1) :: acc in
    if negb k3 && stops s2 then QStop acc else
    let acc := dec_b1 (sval s1) (sval s2) :: acc in
    if stops s3 then QStop acc else
    QCont c4 (dec_b2 (sval s2) (sval s3) :: acc)
  end end end end.

Fixpoint loop2 (fuel : nat) (con acc : bytes) : option bytes :=
  match con with
  | [] => Some acc
  | _ :: _ =>
      match fuel with
      | O => None
      | S f =>
          match quad2 con acc with
          | QRej => None
          | QStop a => Some a
          | QCont c a => loop2 f c a
          end
      end
  end.

Definition decode2 (inp : bytes) : option bytes :=
  match inp with
  | [] => Some []
  | _ => match loop2 (S (length inp)) inp [] with
         | Some acc => Some (rev (drop0 acc))
         | None => None
         end
  end.

(** ------------------------------------------------------------ list facts *)

Lemma skipn_cons_inv {A} (l : list A) k b r :
  skipn k l = b :: r -> nth_error l k = Some b /\ skipn (S k) l = r /\ k < length l.
Proof.
  revert l; induction k as [|k IH]; intros l H.
  - destruct l; simpl in H; [discriminate|]. inversion H; subst. simpl. repeat split; lia.
  - destruct l as [|x l]; [simpl in H; discriminate|]. simpl in H. apply IH in H as (H1 & H2 & H3).
    simpl. repeat split; auto. lia.
Qed.

Lemma skipn_nil_inv {A} (l : list A) k : skipn k l = [] -> length l <= k.
Proof.
  intros H. assert (L : length (skipn k l) = 0) by now rewrite H. rewrite skipn_length in L. lia.
Qed.

Lemma skipn_all_nil {A} (l : list A) k : length l <= k -> skipn k l = [].
Proof. intros H. apply skipn_all2. exact H. Qed.

(** what the suffix at [k] tells about index [k] *)
Lemma suffix_view (inp : bytes) k :
  (skipn k inp = [] /\ length inp <= k) \/
  (exists b r, skipn k inp = b :: r /\ rd inp k = Ok b /\ skipn (S k) inp = r /\ k < length inp).
Proof.
  destruct (skipn k inp) as [|b r] eqn:E.
  - left. split; auto. now apply skipn_nil_inv.
  - right. apply skipn_cons_inv in E as (H1 & H2 & H3). exists b, r. unfold rd. rewrite H1. auto.
Qed.

(** ------------------------------------------------------------ one symbol *)

Definition sym_read (inp : bytes) (l i j : nat) : Cres (option (nat * N)) :=
  if Nat.ltb (i + j) l then
    do c <- rd inp (i + j);
    if negb (N.eqb c B64_PAD) then
      match strchr_alpha c with
      | None => Ok None
      | Some k => if N.eqb c 0 then Ok None else Ok (Some (i, N.of_nat k))
      end
    else Ok (Some (i, 0%N))
  else Ok (Some (i, 0%N)).

Lemma sym_step_unfold inp l i j :
  sym_step inp l i j = do r <- skip_crlf inp l i j;
                       match r with None => Ok None | Some i => sym_read inp l i j end.
Proof. reflexivity. Qed.

(** result of a step, as the C sees it, from what L2 sees *)
Definition step_view (i : nat) (t : option (sym * bytes * bool)) : option (nat * N) :=
  match t with
  | None => None
  | Some (s, _, k) => Some ((if k then S (S i) else i), sval s)
  end.

Lemma skip_crlf_skip1 inp i j :
  let l := length inp in
  skip_crlf inp l i j =
    Ok (match skip1 (skipn (i + j) inp) with
        | None => None
        | Some (_, k) => Some (if k then S (S i) else i)
        end)
  /\ (forall r k, skip1 (skipn (i + j) inp) = Some (r, k) ->
        r = skipn ((if k then S (S i) else i) + j) inp).
Proof.
  intros l. unfold skip_crlf, skip1.
  destruct (suffix_view inp (i + j)) as [[E L]|(b & r & E & R & E' & L)]; rewrite E.
  - fold l in L. replace (Nat.ltb (i + j) l) with false by (symmetry; apply Nat.ltb_ge; lia).
    split; auto. intros r k H. inversion H; subst. auto.
  - fold l in L. replace (Nat.ltb (i + j) l) with true by (symmetry; apply Nat.ltb_lt; lia).
    rewrite R. cbn [bind].
    destruct (N.eqb b CR) eqn:EC.
    + destruct (suffix_view inp (S (i + j))) as [[E2 L2]|(b2 & r2 & E2 & R2 & E2' & L2)].
      * rewrite E2 in E'. subst r.
        replace (Nat.eqb (i + j + 1) l) with true by (symmetry; apply Nat.eqb_eq; fold l in L2; lia).
        split; auto. intros; discriminate.
      * rewrite E2 in E'. subst r.
        replace (Nat.eqb (i + j + 1) l) with false by (symmetry; apply Nat.eqb_neq; fold l in L2; lia).
        replace (S i + j) with (S (i + j)) by lia. rewrite R2. cbn [bind].
        destruct (N.eqb b2 LF); cbn [negb].
        -- split; auto. intros r k H. inversion H; subst.
           replace (S (S i) + j) with (S (S (i + j))) by lia. auto.
        -- split; auto. intros; discriminate.
    + split; auto. intros r0 k H. inversion H; subst. auto.
Qed.

Lemma sym_read_classify inp i j :
  let l := length inp in
  sym_read inp l i j =
    Ok (match skipn (i + j) inp with
        | [] => Some (i, 0%N)
        | c :: _ => match classify_sym c with Some s => Some (i, sval s) | None => None end
        end).
Proof.
  intros l. unfold sym_read, classify_sym.
  destruct (suffix_view inp (i + j)) as [[E L]|(b & r & E & R & E' & L)]; rewrite E.
  - fold l in L. replace (Nat.ltb (i + j) l) with false by (symmetry; apply Nat.ltb_ge; lia). auto.
  - fold l in L. replace (Nat.ltb (i + j) l) with true by (symmetry; apply Nat.ltb_lt; lia).
    rewrite R. cbn [bind].
    destruct (N.eqb b B64_PAD); cbn [negb]; [reflexivity|].
    destruct (strchr_alpha b); [|reflexivity].
    destruct (N.eqb b 0); reflexivity.
Qed.

Lemma sym_step_take inp i j :
  let l := length inp in
  sym_step inp l i j = Ok (step_view i (take (skipn (i + j) inp)))
  /\ (forall s r k, take (skipn (i + j) inp) = Some (s, r, k) ->
        let i' := if k then S (S i) else i in
        r = skipn (i' + S j) inp
        /\ match s with
           | SEnd => length inp <= i' + j
           | SPad => rd inp (i' + j) = Ok B64_PAD /\ i' + j < length inp
           | SAl _ => exists c, rd inp (i' + j) = Ok c /\ N.eqb c B64_PAD = false /\ i' + j < length inp
           end).
Proof.
  intros l. rewrite sym_step_unfold.
  destruct (skip_crlf_skip1 inp i j) as [H1 H2]. fold l in H1. rewrite H1. clear H1.
  unfold take. destruct (skip1 (skipn (i + j) inp)) as [[r k]|] eqn:ES; cbn [bind step_view].
  2: { split; auto. intros; discriminate. }
  specialize (H2 r k eq_refl). set (i' := if k then S (S i) else i) in *.
  pose proof (sym_read_classify inp i' j) as HR. fold l in HR. rewrite HR, <- H2. clear HR.
  destruct r as [|c r'].
  - split; [reflexivity|]. intros s r0 k0 H. inversion H; subst. fold i'.
    symmetry in H2. apply skipn_nil_inv in H2. split; [|exact H2].
    symmetry. apply skipn_all_nil. lia.
  - symmetry in H2. apply skipn_cons_inv in H2 as (N1 & N2 & N3).
    destruct (classify_sym c) as [s|] eqn:EC.
    + split; [reflexivity|]. intros s0 r0 k0 H. inversion H; subst. fold i'.
      split; [replace (i' + S j) with (S (i' + j)) by lia; auto|].
      unfold classify_sym in EC. unfold rd. rewrite N1.
      destruct (N.eqb c B64_PAD) eqn:EP.
      * inversion EC; subst. apply N.eqb_eq in EP. subst c. auto.
      * destruct (strchr_alpha c); [|discriminate]. destruct (N.eqb c 0); [discriminate|].
        inversion EC; subst. exists c. auto.
    + split; [reflexivity|]. intros; discriminate.
Qed.

(** ------------------------------------------------------------ one group *)

Lemma pad_not_lf : N.eqb LF B64_PAD = false.
Proof. reflexivity. Qed.

Lemma put_ok size acc b : length acc < size -> put size acc b = Ok (b :: acc).
Proof. intros H. unfold put. apply Nat.ltb_lt in H. now rewrite H. Qed.

Definition group_rel (inp : bytes) (i : nat) (q : qres) (d : dstep) : Prop :=
  match q, d with
  | QRej, DRej => True
  | QStop a, DStop a' => a = a'
  | QCont c a, DCont i' a' => a = a' /\ c = skipn i' inp /\ i + 4 <= i' /\ i' <= length inp
  | _, _ => False
  end.

Lemma group_quad2 inp size i acc :
  let l := length inp in
  length acc + 3 <= size ->
  exists d, group inp l size i acc = Ok d /\ group_rel inp i (quad2 (skipn i inp) acc) d.
Proof.
  intros l Hsz. unfold group, quad2.
  (* symbol 0 *)
  destruct (sym_step_take inp i 0) as [S0 T0]. fold l in S0. rewrite S0.
  replace (i + 0) with i in * by lia.
  destruct (take (skipn i inp)) as [[[s0 c1] k0]|] eqn:E0; cbn [bind step_view]; [|exists DRej; split; simpl; auto].
  specialize (T0 _ _ _ eq_refl). cbv zeta in T0. set (i0 := if k0 then S (S i) else i) in *.
  destruct T0 as [C1 V0].
  (* symbol 1 *)
  destruct (sym_step_take inp i0 1) as [S1 T1]. fold l in S1. rewrite S1. rewrite <- C1.
  rewrite <- C1 in T1.
  destruct (take c1) as [[[s1 c2] k1]|] eqn:E1; cbn [bind step_view]; [|exists DRej; split; simpl; auto].
  specialize (T1 _ _ _ eq_refl). cbv zeta in T1. set (i1 := if k1 then S (S i0) else i0) in *.
  destruct T1 as [C2 V1].
  (* symbol 2 *)
  destruct (sym_step_take inp i1 2) as [S2 T2]. fold l in S2. rewrite S2. rewrite <- C2.
  rewrite <- C2 in T2.
  destruct (take c2) as [[[s2 c3] k2]|] eqn:E2; cbn [bind step_view]; [|exists DRej; split; simpl; auto].
  specialize (T2 _ _ _ eq_refl). cbv zeta in T2. set (i2 := if k2 then S (S i1) else i1) in *.
  destruct T2 as [C3 V2].
  (* symbol 3 *)
  destruct (sym_step_take inp i2 3) as [S3 T3]. fold l in S3. rewrite S3. rewrite <- C3.
  rewrite <- C3 in T3.
  destruct (take c3) as [[[s3 c4] k3]|] eqn:E3; cbn [bind step_view]; [|exists DRej; split; simpl; auto].
  specialize (T3 _ _ _ eq_refl). cbv zeta in T3. set (i3 := if k3 then S (S i2) else i2) in *.
  destruct T3 as [C4 V3].
  rewrite put_ok by lia. cbn [bind].
  (* first break test *)
  assert (B1 : brk inp l i3 B64_BRK1 = Ok (negb k3 && stops s2)).
  { unfold brk. b64consts. destruct k3; cbn [negb andb].
    - (* a CRLF was skipped in front of symbol 3: in[i3 + 2] is its LF *)
      subst i3.
      assert (HLF : rd inp (S i2 + 3) = Ok LF /\ S i2 + 3 < length inp).
      { (* from skip1 on c3 *)
        unfold take in E3. destruct (skip1 c3) as [[r kk]|] eqn:EK; [|discriminate].
        assert (kk = true).
        { destruct r; [inversion E3; auto|]. destruct (classify_sym n); inversion E3; auto. }
        subst kk. unfold skip1 in EK. destruct c3 as [|x c3']; [inversion EK|].
        destruct (N.eqb x CR); [|inversion EK].
        destruct c3' as [|y c3'']; [discriminate|].
        destruct (N.eqb y LF) eqn:EY; [|discriminate]. apply N.eqb_eq in EY. subst y.
        symmetry in C3. apply skipn_cons_inv in C3 as (_ & C3 & _).
        apply skipn_cons_inv in C3 as (C3 & _ & L3).
        replace (S i2 + 3) with (S (i2 + 3)) by lia. unfold rd. rewrite C3. auto. }
      destruct HLF as [HLF LLF].
      replace (S (S i2) + 2) with (S i2 + 3) by lia.
      replace (Nat.leb l (S i2 + 3)) with false by (symmetry; apply Nat.leb_gt; unfold l; lia).
      rewrite HLF. cbn [bind]. now rewrite pad_not_lf.
    - subst i3. destruct s2; cbn [stops].
      + destruct V2 as (c & Rc & Pc & Lc).
        replace (Nat.leb l (i2 + 2)) with false by (symmetry; apply Nat.leb_gt; unfold l; lia).
        rewrite Rc. cbn [bind]. now rewrite Pc.
      + destruct V2 as (Rc & Lc).
        replace (Nat.leb l (i2 + 2)) with false by (symmetry; apply Nat.leb_gt; unfold l; lia).
        rewrite Rc. cbn [bind]. now rewrite N.eqb_refl.
      + replace (Nat.leb l (i2 + 2)) with true by (symmetry; apply Nat.leb_le; unfold l; lia). reflexivity. }
  rewrite B1. cbn [bind].
  destruct (negb k3 && stops s2); [eexists; split; [reflexivity|simpl; auto]|].
  rewrite put_ok by (simpl; lia). cbn [bind].
  assert (B2 : brk inp l i3 B64_BRK2 = Ok (stops s3)).
  { unfold brk. b64consts. destruct s3; cbn [stops].
    - destruct V3 as (c & Rc & Pc & Lc).
      replace (Nat.leb l (i3 + 3)) with false by (symmetry; apply Nat.leb_gt; unfold l; lia).
      rewrite Rc. cbn [bind]. now rewrite Pc.
    - destruct V3 as (Rc & Lc).
      replace (Nat.leb l (i3 + 3)) with false by (symmetry; apply Nat.leb_gt; unfold l; lia).
      rewrite Rc. cbn [bind]. now rewrite N.eqb_refl.
    - replace (Nat.leb l (i3 + 3)) with true by (symmetry; apply Nat.leb_le; unfold l; lia). reflexivity. }
  rewrite B2. cbn [bind].
  destruct s3; cbn [stops]; try (eexists; split; [reflexivity|simpl; auto]).
  rewrite put_ok by (simpl; lia). cbn [bind].
  eexists; split; [reflexivity|]. simpl. b64consts.
  destruct V3 as (c & Rc & Pc & Lc).
  repeat split; auto.
  - subst i3 i2 i1 i0. destruct k0, k1, k2, k3; lia.
  - lia.
Qed.

(** ------------------------------------------------------------ the loop *)

Lemma quad2_acc_len con acc :
  match quad2 con acc with
  | QRej => True
  | QStop a => length a <= length acc + 2
  | QCont c a => length a = length acc + 3
  end.
Proof.
  unfold quad2.
  destruct (take con) as [[[s0 c1] k0]|]; auto.
  destruct (take c1) as [[[s1 c2] k1]|]; auto.
  destruct (take c2) as [[[s2 c3] k2]|]; auto.
  destruct (take c3) as [[[s3 c4] k3]|]; auto.
  destruct (negb k3 && stops s2); [simpl; lia|].
  destruct (stops s3); simpl; lia.
Qed.

Lemma dloop_loop2 inp size fuel : forall i acc,
  let l := length inp in
  size = l + B64_DEC_SLACK ->
  l - i <= fuel -> i <= l -> 4 * length acc <= 3 * i ->
  dloop fuel inp l size i acc = Ok (loop2 fuel (skipn i inp) acc)
  /\ (forall a, loop2 fuel (skipn i inp) acc = Some a -> length a < size).
Proof.
  induction fuel as [|f IH]; intros i acc l Hs Hf Hi Ha.
  - assert (i = l) by lia. subst i. simpl. rewrite Nat.ltb_irrefl.
    rewrite skipn_all_nil by (unfold l; lia). simpl. split; auto.
    intros a H. inversion H; subst. b64consts. lia.
  - cbn [dloop].
    destruct (Nat.ltb i l) eqn:EL.
    + apply Nat.ltb_lt in EL.
      destruct (skipn i inp) as [|b r] eqn:ES.
      { apply skipn_nil_inv in ES. unfold l in EL. lia. }
      cbn [loop2]. rewrite <- ES.
      destruct (group_quad2 inp size i acc) as (d & G & R).
      { b64consts. fold l. lia. }
      fold l in G. rewrite G. cbn [bind].
      pose proof (quad2_acc_len (skipn i inp) acc) as QL.
      destruct (quad2 (skipn i inp) acc) as [|a|c a]; destruct d as [|a'|i' a']; simpl in R; try contradiction.
      * split; auto. intros; discriminate.
      * subst a'. split; auto. intros a0 H. inversion H; subst. b64consts. lia.
      * destruct R as (-> & -> & R1 & R2).
        apply IH; auto; fold l; lia.
    + apply Nat.ltb_ge in EL. rewrite skipn_all_nil by (unfold l in *; lia). simpl.
      split; auto. intros a H. inversion H; subst. b64consts. lia.
Qed.

Theorem b64decode_L2 inp : b64decode inp = Ok (decode2 inp).
Proof.
  unfold b64decode, decode2.
  destruct inp as [|b inp']; [reflexivity|].
  set (inp := b :: inp'). set (l := length inp).
  replace (Nat.eqb l 0) with false by (symmetry; apply Nat.eqb_neq; unfold l, inp; simpl; lia).
  destruct (dloop_loop2 inp (l + B64_DEC_SLACK) (S l) 0 []) as [D B]; auto; try (simpl; lia).
  fold l in D. rewrite D. cbn [bind]. cbn [skipn] in *.
  fold inp. fold l.
  destruct (loop2 (S l) inp []) as [acc|] eqn:EL; [|reflexivity].
  specialize (B acc eq_refl). apply Nat.ltb_lt in B. now rewrite B.
Qed.

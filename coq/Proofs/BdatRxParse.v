(** The argument parser of smtp_bdat (digit test, strtoull, blank, strcasecmp) accepts exactly
    "BDAT" SP 1*DIGIT [SP "LAST"] with a number below 2^64 and uses exactly that number. *)
From Qv Require Import Common.Bytes Gen.GenBdatRx Model.BdatRx Spec.BdatRxSpec Proofs.BdatRxNet.
Require Import Lia.

Ltac bp_consts := unfold BDAT_DIGIT_LO, BDAT_DIGIT_HI, BDAT_SEP, BDAT_MASK, BDAT_LAST_WORD, BDAT_ARG_OFF, BDAT_BASE,
  BDAT_FLAGS, BDAT_NAME_LEN, RX_CMD_LINE_MAX, ULLONG_MAX in *.

Lemma cstr_nonul l : existsb (fun b => N.eqb b 0) l = false -> cstr l = l.
Proof.
  induction l as [|b t IH]; [reflexivity|]. cbn. intros H. apply orb_false_iff in H as [H1 H2].
  rewrite H1, IH by exact H2. reflexivity.
Qed.

Lemma digits_val_mono : forall d acc, (acc <= digits_val d acc)%N.
Proof. induction d as [|b d IH]; intros acc; cbn [digits_val]; [lia|]. specialize (IH (acc * 10 + (b - 48))%N). lia. Qed.

Lemma strtoull_span : forall s acc ovf,
  strtoull_digits s acc ovf =
  (digits_val (fst (span_digits s)) acc,
   ovf || match fst (span_digits s) with [] => false | _ => N.ltb ULLONG_MAX (digits_val (fst (span_digits s)) acc) end,
   snd (span_digits s)).
Proof.
  induction s as [|b r IH]; intros acc ovf.
  - cbn. now rewrite orb_false_r.
  - cbn [strtoull_digits span_digits]. bp_consts. fold (is_dig b). destruct (is_dig b) eqn:Eb.
    + rewrite IH. destruct (span_digits r) as [d r'] eqn:Es. cbn [fst snd digits_val].
      change (N.of_nat 10) with 10%N. f_equal. f_equal.
      destruct d as [|x d'].
      * cbn [digits_val]. rewrite orb_false_r. reflexivity.
      * pose proof (digits_val_mono (x :: d') (acc * 10 + (b - 48))%N) as Hm.
        rewrite <- orb_assoc. f_equal.
        destruct (N.ltb_spec 18446744073709551615 (acc * 10 + (b - 48))) as [H1|H1]; [|reflexivity].
        cbn [orb]. symmetry. apply N.ltb_lt. lia.
    + cbn. now rewrite orb_false_r.
Qed.

Lemma to_lower_eq x c : (97 <= c <= 122)%N -> N.eqb (to_lower x) c = N.eqb x (c - 32) || N.eqb x c.
Proof.
  intros Hc. unfold to_lower, is_upper.
  destruct (N.leb_spec 65 x), (N.leb_spec x 90); cbn [andb];
    repeat match goal with |- context [N.eqb ?a ?b] => destruct (N.eqb_spec a b) end; cbn [orb]; try reflexivity; lia.
Qed.

Lemma strcaseeq_last w : strcaseeq w BDAT_LAST_WORD = is_last_word w.
Proof.
  bp_consts. destruct w as [|a [|b [|c [|d [|e w]]]]]; try reflexivity.
  all: cbn [strcaseeq is_last_word]; change (to_lower 76) with 108%N; change (to_lower 65) with 97%N;
    change (to_lower 83) with 115%N; change (to_lower 84) with 116%N;
    rewrite ?to_lower_eq by lia; cbn; rewrite ?andb_false_r, ?andb_true_r, ?andb_assoc; reflexivity.
Qed.

(** for a line without NUL that names BDAT followed by a blank (what the dispatcher hands over):
    the C parser and the specification's reading agree *)
Theorem parse_bdat_spec line :
  existsb (fun b => N.eqb b 0) line = false -> is_bdat_sp (firstn 5 line) = true ->
  parse_bdat line = bdat_arg line.
Proof.
  intros Hn Hb. unfold parse_bdat, bdat_arg. rewrite Hn, Hb, cstr_nonul by exact Hn. cbn [negb].
  change BDAT_ARG_OFF with 5. set (arg := skipn 5 line).
  rewrite strtoull_span. destruct (span_digits arg) as [d r] eqn:Es. cbn [fst snd orb].
  destruct arg as [|c5 arg'].
  - cbn in Es. injection Es as <- <-. reflexivity.
  - cbn [hd]. cbn [span_digits] in Es. bp_consts. unfold is_dig in Es.
    destruct (N.leb_spec 48 c5), (N.leb_spec c5 57); cbn [andb] in Es.
    2-4: (injection Es as <- <-;
          replace (N.ltb c5 48 || N.ltb 57 c5) with true by (symmetry; apply orb_true_iff; rewrite !N.ltb_lt; lia); reflexivity).
    replace (N.ltb c5 48 || N.ltb 57 c5) with false by (symmetry; apply orb_false_iff; rewrite !N.ltb_ge; lia).
    destruct (span_digits arg') as [d' r'] eqn:Es'. injection Es as <- <-.
    destruct (N.ltb 18446744073709551615 (digits_val (c5 :: d') 0)); [reflexivity|].
    destruct r' as [|m rest]; [reflexivity|].
    rewrite strcaseeq_last. destruct (N.eqb m 32); reflexivity.
Qed.

(** a refused argument: EINVAL, state untouched, nothing done; an accepted one: the transaction
    code runs with exactly the number and the LAST flag of the line *)
Theorem smtp_bdat_line_spec cfg line s :
  existsb (fun b => N.eqb b 0) line = false -> is_bdat_sp (firstn 5 line) = true -> r_goodrcpt s = true ->
  smtp_bdat_line cfg line s =
  match bdat_arg line with
  | None => Ok (Some EINVAL, s, [])
  | Some (n, last) => smtp_bdat cfg n last s
  end.
Proof.
  intros Hn Hb Hg. unfold smtp_bdat_line. rewrite Hg, parse_bdat_spec by assumption. reflexivity.
Qed.

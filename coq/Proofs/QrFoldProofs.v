(** Header lines as a list of items (line, line end); what send_plain makes of a block of complete
    lines; composition of the unfolding relation.  Used for wrap_header. *)
From Qv Require Import Common.Bytes Gen.GenQrdata Model.Mime Model.QrData Model.QrDataL2 Proofs.QrMemLemmas
  Spec.SmtpDataSpec Spec.DeliverSpec Proofs.QrPlainProofs Proofs.QrNeedRecodeProofs Proofs.QrPlainSpecProofs
  Proofs.QrWrapLineProofs Proofs.QrWireProofs.
Require Import Lia.

Lemma unfolds_app2 : forall x1 o1 x2 o2,
  unfolds_to x1 o1 = true -> unfolds_to x2 o2 = true -> unfolds_to (x1 ++ x2) (o1 ++ o2) = true.
Proof.
  intros x1. remember (length x1) as n eqn:En. revert x1 En.
  induction n as [n IH] using lt_wf_ind. intros x1 En o1 x2 o2 H1 H2.
  destruct x1 as [|c xt].
  - cbn [unfolds_to] in H1. destruct o1; [exact H2|discriminate].
  - cbn [unfolds_to] in H1. cbn [app unfolds_to]. apply Bool.orb_prop in H1 as [HA|HB].
    + destruct o1 as [|oc ot]; [discriminate|]. apply andb_prop in HA as [E Hr]. cbn [app]. rewrite E.
      rewrite (IH (length xt) ltac:(cbn [length] in En; lia) xt eq_refl ot x2 o2 Hr H2). reflexivity.
    + destruct xt as [|c2 [|c3 x']]; try discriminate. apply andb_prop in HB as [E Hr]. cbn [app]. rewrite E.
      rewrite (IH (length x') ltac:(cbn [length] in En; lia) x' eq_refl o1 x2 o2 Hr H2). cbn [andb]. apply Bool.orb_true_r.
Qed.

(* ------------------------------------------------------------------ items *)
Definition item := (bytes * bytes)%type.
Definition item_bytes (it : item) : bytes := fst it ++ snd it.
Definition valid_eol (e : bytes) : Prop := e = [CR] \/ e = [LF] \/ e = [CR; LF].
Definition hd_not_lf (x : bytes) : Prop := match x with c :: _ => c <> LF | [] => True end.
Definition item_ok (it : item) : Prop := line_clean (fst it) /\ valid_eol (snd it).

Fixpoint items_ok (its : list item) (rest : bytes) : Prop :=
  match its with
  | [] => True
  | it :: r => item_ok it /\ (snd it = [CR] -> hd_not_lf (concat (map item_bytes r) ++ rest)) /\ items_ok r rest
  end.

Lemma items_ok_snoc its it rest :
  items_ok its (item_bytes it ++ rest) -> item_ok it -> (snd it = [CR] -> hd_not_lf rest) -> items_ok (its ++ [it]) rest.
Proof.
  induction its as [|i0 r IH]; intros H Hi Hn; cbn [app items_ok map concat] in *.
  - auto.
  - destruct H as (A & B & C). split; [exact A|]. split; [|apply IH; assumption].
    intros E. specialize (B E). rewrite map_app, concat_app. cbn [map concat]. rewrite app_nil_r, <- app_assoc. exact B.
Qed.

Lemma plain_enc_clean : forall l llen x, line_clean l ->
  plain_enc llen (l ++ x) = (if llen then l else stuff_line l) ++ plain_enc (llen || match l with [] => false | _ => true end) x.
Proof.
  induction l as [|c r IH]; intros llen x Hc.
  - cbn [app stuff_line]. destruct llen; cbn; reflexivity.
  - inversion Hc as [|? ? (H1 & H2) Hr]; subst. cbn [app]. rewrite plain_enc_cons.
    assert (He : is_eol c = false) by (unfold is_eol; apply N.eqb_neq in H1, H2; now rewrite H1, H2).
    rewrite He. rewrite Bool.orb_true_r. destruct llen; cbn [negb andb].
    + rewrite Bool.andb_false_r. rewrite (IH true x Hr). cbn [orb]. reflexivity.
    + rewrite Bool.andb_true_r. cbn [stuff_line]. destruct (N.eqb_spec c DOT) as [->|]; rewrite (IH true x Hr); cbn [orb app]; reflexivity.
Qed.

Lemma plain_enc_eol e llen x : valid_eol e -> (e = [CR] -> hd_not_lf x) ->
  plain_enc llen (e ++ x) = CRLF ++ plain_enc false x.
Proof.
  intros [->|[->| ->]] Hn; cbn [app].
  - rewrite plain_enc_cons. change (is_eol CR) with true. cbv iota. unfold after_eol.
    destruct x as [|c2 x']; [reflexivity|]. specialize (Hn eq_refl). cbn in Hn.
    replace (N.eqb c2 LF) with false by (symmetry; apply N.eqb_neq; exact Hn). reflexivity.
  - rewrite plain_enc_cons. change (is_eol LF) with true. cbv iota. unfold after_eol.
    destruct x; reflexivity.
  - rewrite plain_enc_cons. change (is_eol CR) with true. cbv iota. reflexivity.
Qed.

Definition line_out (it : item) : bytes := stuff_line (fst it) ++ CRLF.

Lemma plain_enc_items : forall its rest, items_ok its rest ->
  plain_enc false (concat (map item_bytes its) ++ rest) = concat (map line_out its) ++ plain_enc false rest.
Proof.
  induction its as [|it r IH]; intros rest H; [reflexivity|].
  destruct H as ((Hc & He) & Hn & Hr). cbn [map concat]. unfold item_bytes at 1. rewrite <- !app_assoc.
  rewrite plain_enc_clean by exact Hc. rewrite plain_enc_eol by assumption.
  rewrite (IH rest Hr). unfold line_out. rewrite <- ?app_assoc. reflexivity.
Qed.

(** a block of short 7-bit lines is sent as legal lines *)
Lemma line_out_legal ext8 it : item_ok it -> length (fst it) <= MAXLINE -> (ext8 = false -> seven_bit (fst it)) ->
  legal_data ext8 (line_out it).
Proof.
  intros (Hc & _) Hl H7. unfold line_out. apply wire_legal. apply wire_close. apply legal_stuffed'; assumption.
Qed.

Lemma legal_data_app ext8 a b : legal_data ext8 a -> legal_data ext8 b -> legal_data ext8 (a ++ b).
Proof.
  intros Ha Hb. apply wire_legal. apply wire_legal in Ha, Hb.
  apply (wire_app ext8 a [] b []); [exact Ha|exact Hb].
Qed.

Lemma legal_data_concat ext8 (xs : list bytes) : Forall (legal_data ext8) xs -> legal_data ext8 (concat xs).
Proof.
  induction xs as [|x r IH]; intros H; cbn [concat].
  - apply wire_legal. apply wire_nil.
  - inversion H; subst. apply legal_data_app; auto.
Qed.

Lemma hd_not_lf_weaken a rest : hd_not_lf (a ++ rest) -> hd_not_lf (a ++ []).
Proof. destruct a; cbn; auto. Qed.

Lemma items_ok_nil : forall its rest, items_ok its rest -> items_ok its [].
Proof.
  induction its as [|it r IH]; intros rest H; [exact I|]. destruct H as (A & B & C).
  split; [exact A|]. split; [|exact (IH rest C)]. intros E. apply (hd_not_lf_weaken _ rest). exact (B E).
Qed.

Lemma items_ok_drop : forall a b' rest, items_ok (a ++ b') rest -> items_ok b' rest.
Proof. induction a as [|x a IH]; intros b' rest H; [exact H|]. destruct H as (_ & _ & C). exact (IH b' rest C). Qed.

(** [o] is a legal rendering of the item: legal lines that unfold to the dot-stuffed line *)
Definition rendered (ext8 : bool) (it : item) (o : bytes) : Prop :=
  legal_data ext8 o /\ unfolds_to o (line_out it) = true.

Lemma rendered_concat ext8 : forall its outs, Forall2 (rendered ext8) its outs ->
  legal_data ext8 (concat outs) /\ unfolds_to (concat outs) (concat (map line_out its)) = true.
Proof.
  induction 1 as [|it o its outs (H1 & H2) _ (IH1 & IH2)]; cbn [concat map].
  - split; [apply wire_legal; apply wire_nil|reflexivity].
  - split; [apply legal_data_app; assumption|apply unfolds_app2; assumption].
Qed.

Lemma rendered_plain ext8 it : item_ok it -> length (fst it) <= MAXLINE -> (ext8 = false -> seven_bit (fst it)) ->
  rendered ext8 it (line_out it).
Proof. intros A B C. split; [apply line_out_legal; assumption|apply unfolds_refl]. Qed.

Lemma Forall2_app_r {A B} (R : A -> B -> Prop) a1 b1 a2 b2 : Forall2 R a1 b1 -> Forall2 R a2 b2 -> Forall2 R (a1 ++ a2) (b1 ++ b2).
Proof. intros H1 H2. induction H1; cbn [app]; [exact H2|constructor; assumption]. Qed.

Lemma Forall2_map_r {A B} (R : A -> B -> Prop) (f : A -> B) l : Forall (fun x => R x (f x)) l -> Forall2 R l (map f l).
Proof. induction 1; cbn [map]; constructor; assumption. Qed.

(** wire data whose last octet is LF ends at the beginning of a line *)
Lemma wire_last_lf ext8 d t : wire ext8 d t -> last_is_lf d = true -> t = [].
Proof.
  intros (ls & E & _ & Hc) Hl. destruct t as [|x t']; [reflexivity|]. exfalso.
  rewrite E in Hl. rewrite last_is_lf_app in Hl by discriminate.
  assert (Hin : forall c, In c (x :: t') -> c <> LF) by (intros c Hc'; unfold line_clean in Hc; rewrite Forall_forall in Hc; destruct (Hc c Hc'); assumption).
  unfold last_is_lf in Hl. destruct (rev (x :: t')) as [|y r] eqn:Er.
  - discriminate.
  - apply N.eqb_eq in Hl. subst y. apply (Hin LF); [|reflexivity]. apply in_rev. rewrite Er. left. reflexivity.
Qed.

(** Proofs about Model/Session.v: for every oracle (configuration, user data
    base, DNS, relay list, qmail-queue behaviour) and every client byte stream in
    every segmentation, the event trace of the server passes the checkers of
    Spec/SessionSpec.v.  Method: a simulation relation [R] between the server
    state and the abstract (phase, transaction) state, preserved by every round
    of the command loop; the facts about the commands[] table that the proof
    needs are checked by computation on the table regenerated from the C. *)
From Qv Require Import Common.Bytes Gen.GenNetio Gen.GenSession Model.NetRead Model.Session Spec.SessionSpec Proofs.RelayDecide Proofs.AuthSync Proofs.EsmtpSync.
From Coq Require Import Lia ZArith.

(** ---------- the commands[] table, as far as the properties depend on it ---------- *)
Definition entry_ok (ie : nat * (list N * N * nat * Z * N)) : bool :=
  let '(i, (_, mask, hid, st, _)) := ie in
  match hid with
  | 0 | 10 | 12 => Z.ltb st 0                                   (* NOOP, VRFY, POST: state unchanged *)
  | 9 => N.eqb mask 16 && Z.ltb st 0                             (* AUTH only in 0x10 (after EHLO): state unchanged *)
  | 2 => Z.eqb st 1                                              (* RSET before a greeting: initial state *)
  | 3 => Z.eqb st 0 && Nat.eqb i 3                               (* HELO -> 0x08 *)
  | 4 => Z.eqb st 0 && Nat.eqb i 4                               (* EHLO -> 0x10 *)
  | 5 => N.eqb mask 24 && Z.eqb st 0 && Nat.eqb i 5              (* MAIL only in 0x08/0x10 -> 0x20 *)
  | 6 => N.eqb mask 96 && Z.eqb st 0 && Nat.eqb i 6              (* RCPT only in 0x20/0x40 -> 0x40 *)
  | 7 => N.eqb mask 64                                           (* DATA only in 0x40 *)
  | _ => true
  end.

Lemma table_ok : forallb entry_ok (combine (seq 0 (length commands)) commands) = true.
Proof. vm_compute. reflexivity. Qed.

Lemma limits_ok : 0 < MAXRCPT.
Proof. unfold MAXRCPT. lia. Qed.

Lemma find_cmd_in tbl : forall k l i c, find_cmd tbl k l = Some (i, c) ->
  In (i, c) (combine (seq k (length tbl)) tbl).
Proof.
  induction tbl as [|e t IH]; intros k l i c H; simpl in H; [discriminate|].
  destruct e as [[[[name mask] hid] st] flags].
  destruct (strncaseeq name l).
  - inversion H; subst. simpl. left. reflexivity.
  - simpl. right. apply (IH (S k) l). exact H.
Qed.

Lemma find_cmd_ok l i c : find_cmd commands 0 l = Some (i, c) -> entry_ok (i, c) = true.
Proof.
  intros H. apply find_cmd_in in H. pose proof table_ok as T.
  rewrite forallb_forall in T. apply T. exact H.
Qed.

(** ---------- the simulation relation ---------- *)
Definition good (rc : list (bytes * bool)) : list bytes := map fst (filter (fun x => snd x) rc).

Definition Rc (c : N) (mf : bytes) (rc : list (bytes * bool)) (n g : nat) (a : astate) : Prop :=
  n = a_stored a /\ length rc = a_stored a /\ g = length (good rc)
  /\ match a_phase a with
     | PInit => c = 1%N
     | PHelo => c = 8%N \/ c = 16%N
     | PMail => c = 32%N /\ a_stored a = 0
     | PRcpt => c = 64%N /\ 0 < a_stored a
     end
  /\ match a_txn a with
     | None => (a_phase a = PInit \/ a_phase a = PHelo) /\ mf = [] /\ rc = []
     | Some (f, rs) => (a_phase a = PMail \/ a_phase a = PRcpt) /\ mf = f /\ good rc = rs
                       /\ (f = [] -> a_stored a <= 1 \/ rs = [])
     end.


(** events without notes or hand-offs do not move either checker *)
Definition quiet_ev (e : event) : bool :=
  match e with Reply _ | Closed | EStuck | Note NBad | Note NBadReset | Note NBadClose => true | _ => false end.
Definition quiet (evs : list event) : Prop := forallb quiet_ev evs = true.

Section Proofs.
Variable o : oracles.

(** the relay decision is cached in relayclient: 1 only after a positive lookup of the relay list or after tls_verify()
    accepted a client certificate on this connection ([c]: the abstract machine has seen the note of that); and
    xmitstat.tlsclient is a name only after such an acceptance *)
Definition relkey (s : sstate) : N * option bytes := (relayclient s, tlsclient s).
Definition Irel (c : bool) (k : N * option bytes) : Prop :=
  (fst k = 1%N -> (0 <? o_relay o)%Z = true \/ c = true) /\ (snd k <> None -> c = true).

Definition R (s : sstate) (a : astate) : Prop :=
  Rc (comstate s) (mailfrom s) (rcpts s) (rcptcount s) (goodrcpt s) a /\ Irel (a_cert a) (relkey s).

(** the abstract state with the certificate flag set to [b]; the events is_authenticated() emits do nothing else *)
Definition set_cert (a : astate) (b : bool) : astate :=
  {| a_phase := a_phase a; a_txn := a_txn a; a_stored := a_stored a; a_auth := a_auth a; a_esmtp := a_esmtp a; a_cert := b |}.

Lemma trace_run_app e1 e2 a :
  trace_run o (e1 ++ e2) a = match trace_run o e1 a with Some a' => trace_run o e2 a' | None => None end.
Proof.
  revert a; induction e1 as [|e r IH]; intros a; simpl; [reflexivity|].
  destruct (trace_step o e a); [apply IH|reflexivity].
Qed.

Lemma queue_run_app e1 e2 q :
  queue_run o (e1 ++ e2) q = match queue_run o e1 q with Some q' => queue_run o e2 q' | None => None end.
Proof.
  revert q; induction e1 as [|e r IH]; intros q; simpl; [reflexivity|].
  destruct (queue_step o e q); [apply IH|reflexivity].
Qed.

Lemma quiet_trace evs a : quiet evs -> trace_run o evs a = Some a.
Proof.
  unfold quiet. induction evs as [|e r IH]; simpl; [reflexivity|].
  intros H. apply andb_true_iff in H as [He Hr].
  destruct e as [c|e m| | |n]; try discriminate; try (simpl; apply IH; exact Hr);
    destruct n; try discriminate; simpl; apply IH; exact Hr.
Qed.

(** a quiet list may contain replies, which the queue checker looks at in some states *)
Definition replies_ge400 (evs : list event) : Prop :=
  forall c, In (Reply c) evs -> (400 <= c)%N.

Lemma quiet_queue_idle evs : quiet evs -> queue_run o evs QIdle = Some QIdle.
Proof.
  unfold quiet. induction evs as [|e r IH]; simpl; [reflexivity|].
  intros H. apply andb_true_iff in H as [He Hr].
  destruct e as [c|e m| | |n]; try discriminate; try (simpl; apply IH; exact Hr);
    destruct n; try discriminate; simpl; apply IH; exact Hr.
Qed.

Lemma quiet_app a b : quiet a -> quiet b -> quiet (a ++ b).
Proof. unfold quiet. intros Ha Hb. rewrite forallb_app, Ha, Hb. reflexivity. Qed.

Definition core_eq (s2 s : sstate) : Prop :=
  comstate s2 = comstate s /\ mailfrom s2 = mailfrom s /\ rcpts s2 = rcpts s
  /\ rcptcount s2 = rcptcount s /\ goodrcpt s2 = goodrcpt s.

(** ---------- pieces that only touch the reader / the bad-command counter ---------- *)
Lemma data_pending_core s : let s' := snd (data_pending s) in
  comstate s' = comstate s /\ mailfrom s' = mailfrom s /\ rcpts s' = rcpts s
  /\ rcptcount s' = rcptcount s /\ goodrcpt s' = goodrcpt s /\ esmtp s' = esmtp s /\ qcount s' = qcount s
  /\ relkey s' = relkey s.
Proof.
  unfold data_pending, relkey. destruct (inn (rd s)); [|simpl; tauto].
  destruct (cur (en (rd s))); simpl; tauto.
Qed.

Lemma R_tarpit s a : R s a -> R (tarpit s) a.
Proof.
  unfold R, tarpit. destruct (data_pending_core s) as (H1 & H2 & H3 & H4 & H5 & _ & _ & H8).
  now rewrite H1, H2, H3, H4, H5, H8.
Qed.

Lemma wait_for_quit_quiet fuel : forall s, quiet (wait_for_quit fuel s).
Proof.
  induction fuel as [|f IH]; intros s; simpl; [reflexivity|].
  destruct (net_read (rd s)) as [it r'].
  destruct it; try reflexivity;
    repeat (match goal with |- quiet (if ?b then _ else _) => destruct b; [reflexivity|] end);
    unfold quiet; cbn [forallb quiet_ev andb]; apply IH.
Qed.

Lemma on_error_spec s h ev so : on_error s h = (ev, so) ->
  quiet ev /\ (forall c, In (Reply c) ev -> (400 <= c)%N)
  /\ (forall s', so = Some s' -> forall a, R s a -> R s' a).
Proof.
  unfold on_error. destruct (Nat.ltb MAXBADCMDS (badcmds s)).
  - intros H; inversion H; subst. split; [reflexivity|]. split.
    + intros c Hin; simpl in Hin; repeat (destruct Hin as [Hin|Hin]; [inversion Hin; subst; lia|]); contradiction.
    + intros s' Hs. discriminate.
  - destruct h; intros H; inversion H; subst; (split; [reflexivity|]); (split;
      [ intros c Hin; simpl in Hin; repeat (destruct Hin as [Hin|Hin]; [try discriminate; inversion Hin; subst; lia|]); contradiction
      | intros s' Hs a Ha; inversion Hs; subst; try apply R_tarpit; exact Ha ]).
Qed.

(** ---------- RCPT ---------- *)
Lemma good_app rc x : good (rc ++ [x]) = good rc ++ (if snd x then [fst x] else []).
Proof.
  unfold good. rewrite filter_app, map_app. simpl. destruct (snd x); reflexivity.
Qed.

(** what is_authenticated() emits: the abstract machine only notes an accepted certificate; the queue checker stays idle *)
Lemma pre_ok_run pre : forall a, pre_ok pre ->
  trace_run o pre a = Some (set_cert a (a_cert a || has_cert pre)) /\ queue_run o pre QIdle = Some QIdle.
Proof.
  unfold pre_ok. induction pre as [|e r IH]; intros a Hp.
  - cbn [trace_run queue_run has_cert existsb]. rewrite orb_false_r. destruct a; split; reflexivity.
  - cbn [forallb] in Hp. apply andb_true_iff in Hp as [He Hr].
    destruct e as [c|x y| | |n]; try discriminate.
    + cbn [trace_run trace_step queue_run queue_step has_cert existsb is_cert_ev orb]. exact (IH a Hr).
    + cbn [trace_run trace_step queue_run queue_step has_cert existsb is_cert_ev orb]. exact (IH a Hr).
    + destruct n; try discriminate.
      cbn [trace_run trace_step queue_run queue_step has_cert existsb is_cert_ev orb].
      destruct (IH {| a_phase := a_phase a; a_txn := a_txn a; a_stored := a_stored a; a_auth := a_auth a; a_esmtp := a_esmtp a; a_cert := true |} Hr) as (H1 & H2).
      rewrite H1, H2. cbn [a_cert orb]. rewrite orb_true_r. split; reflexivity.
Qed.

Lemma tls_verify_spec s r s2 : tls_verify o s = (r, s2) ->
  relkey s2 = relkey s /\ comstate s2 = comstate s /\ mailfrom s2 = mailfrom s /\ rcpts s2 = rcpts s
  /\ rcptcount s2 = rcptcount s /\ goodrcpt s2 = goodrcpt s.
Proof.
  unfold tls_verify. destruct (negb (o_tls o) || ssl_verified s || authed_client s); intros H; inversion H; subst; repeat split.
Qed.

(** is_authenticated(): the invariant of the cache survives; a positive answer for an address outside rcpthosts has a reason *)
Lemma relay_decide_spec s cls res s1 pre c : relay_decide o s cls = (res, s1, pre) ->
  Irel c (relkey s) ->
  comstate s1 = comstate s /\ mailfrom s1 = mailfrom s /\ rcpts s1 = rcpts s
  /\ rcptcount s1 = rcptcount s /\ goodrcpt s1 = goodrcpt s
  /\ pre_ok pre
  /\ Irel (c || has_cert pre) (relkey s1)
  /\ (res = RD_ok true -> cls = RNotLocal -> (0 <? o_relay o)%Z = true \/ authed s = true \/ c || has_cert pre = true).
Proof.
  intros H HI. destruct (relay_decide_core _ _ _ _ _ _ H) as ((_ & C2 & _ & _ & C5 & C6 & C7 & C8 & _) & Hp).
  split; [exact C2|]. split; [exact C5|]. split; [exact C6|]. split; [exact C7|]. split; [exact C8|]. split; [exact Hp|].
  unfold relay_decide in H. destruct cls.
  { inversion H; subst res s1 pre. cbn [has_cert existsb]. rewrite orb_false_r. split; [exact HI|]. discriminate. }
  destruct HI as (HI1 & HI2).
  destruct (authed_client s) eqn:Eau.
  { inversion H; subst res s1 pre. cbn [has_cert existsb]. rewrite orb_false_r. split; [split; assumption|].
    intros _ _. unfold authed_client in Eau. apply orb_true_iff in Eau as [E|E]; [auto|].
    right; right. apply HI2. cbn [relkey snd]. destruct (tlsclient s); [discriminate|discriminate]. }
  (* the relay list stage *)
  assert (Htc : tlsclient s = None).
  { unfold authed_client in Eau. apply orb_false_iff in Eau as [_ E]. destruct (tlsclient s); [discriminate|reflexivity]. }
  set (p := if N.eqb (relayclient s) 0 then _ else _) in H.
  assert (Hp1 : tlsclient (snd p) = None /\ (fst p = false -> relayclient (snd p) = 1%N -> (0 <? o_relay o)%Z = true \/ c = true)
                /\ (fst p = true -> relayclient (snd p) <> 1%N)).
  { unfold p. destruct (N.eqb (relayclient s) 0) eqn:E0; cbn [fst snd set_relayclient tlsclient relayclient].
    - split; [exact Htc|]. split.
      + intros _. destruct (Z.ltb 0 (o_relay o)); [auto|discriminate].
      + intros En. destruct (Z.ltb 0 (o_relay o)) eqn:Epos; [|discriminate].
        apply Z.ltb_lt in En. apply Z.ltb_lt in Epos. exfalso. apply (Z.lt_irrefl 0). apply (Z.lt_trans _ (o_relay o)); assumption.
    - split; [exact Htc|]. split; [intros _ E1; apply HI1; exact E1|discriminate]. }
  destruct p as [lerr sa]. cbn [fst snd] in Hp1. destruct Hp1 as (Htca & Hrel & Herr).
  destruct lerr.
  { inversion H; subst res s1 pre. cbn [has_cert existsb is_cert_ev orb]. rewrite orb_false_r. split; [|discriminate].
    split; cbn [relkey fst snd]; [intros E; exfalso; exact (Herr eq_refl E)|rewrite Htca; congruence]. }
  destruct (N.eqb (N.land (relayclient sa) 1) 0) eqn:Eland.
  2:{ inversion H; subst res s1 pre. cbn [has_cert existsb]. rewrite orb_false_r.
      split; [split; cbn [relkey fst snd]; [exact (Hrel eq_refl)|rewrite Htca; congruence]|].
      intros Hal _. injection Hal as Hal'. apply N.eqb_eq in Hal'. destruct (Hrel eq_refl Hal'); auto. }
  destruct (tls_verify o sa) as [r s2] eqn:Ev. destruct (tls_verify_spec _ _ _ Ev) as (Hk & _).
  assert (Hrc2 : relayclient s2 = relayclient sa) by (unfold relkey in Hk; congruence).
  assert (Htc2 : tlsclient s2 = None) by (unfold relkey in Hk; congruence).
  assert (Hnot1 : relayclient s2 <> 1%N).
  { rewrite Hrc2. intros E. rewrite E in Eland. discriminate. }
  destruct r as [[|name|w h]|]; inversion H; subst res s1 pre.
  - cbn [has_cert existsb]. rewrite orb_false_r. split; [split; cbn [relkey fst snd]; [intros E; contradiction|rewrite Htc2; congruence]|].
    intros Hal _. injection Hal as Hal'. apply N.eqb_eq in Hal'. contradiction.
  - cbn [has_cert existsb is_cert_ev orb]. rewrite orb_true_r. split; [split; auto|auto].
  - assert (Hnc : has_cert ((if w then [Reply 454] else []) ++ match h with HEXIT => [Closed] | _ => [] end) = false)
      by (destruct w, h; reflexivity).
    rewrite Hnc, orb_false_r. split; [split; cbn [relkey fst snd]; [intros E; contradiction|rewrite Htc2; congruence]|discriminate].
  - cbn [has_cert existsb]. rewrite orb_false_r. split; [split; cbn [relkey fst snd]; [intros E; contradiction|rewrite Htc2; congruence]|].
    intros Hal _. injection Hal as Hal'. apply N.eqb_eq in Hal'. contradiction.
Qed.

Lemma Rc_some_phase c mf rc n g a : Rc c mf rc n g a -> (c = 32%N \/ c = 64%N) ->
  exists f rs, a_txn a = Some (f, rs).
Proof.
  intros (_ & _ & _ & Hph & Htx) Hc.
  destruct (a_txn a) as [[f rs]|]; [eauto|].
  destruct Htx as ([E|E] & _); rewrite E in Hph; destruct Hc; subst; try discriminate; destruct Hph; discriminate.
Qed.

Lemma stored_pos_phase c mf rc n g a : Rc c mf rc n g a -> 0 < a_stored a -> a_phase a = PRcpt /\ c = 64%N.
Proof.
  intros (_ & Hl & _ & Hph & Htx) Hpos.
  destruct (a_phase a) eqn:Ep; try (destruct Hph; lia).
  - destruct (a_txn a) as [[f rs]|]; [destruct Htx as ([E|E] & _); discriminate|].
    destruct Htx as (_ & _ & Hrc). subst rc. simpl in Hl. lia.
  - destruct (a_txn a) as [[f rs]|]; [destruct Htx as ([E|E] & _); discriminate|].
    destruct Htx as (_ & _ & Hrc). subst rc. simpl in Hl. lia.
  - destruct Hph. auto.
Qed.

Lemma h_rcpt_spec s a arg evs h s' : R s a -> a_auth a = authed s -> (comstate s = 32%N \/ comstate s = 64%N) ->
  h_rcpt o s arg = (evs, h, s') ->
  exists a', trace_run o evs a = Some a' /\ queue_run o evs QIdle = Some QIdle
    /\ Irel (a_cert a') (relkey s')
    /\ match h with
       | H0 => Rc 64 (mailfrom s') (rcpts s') (rcptcount s') (goodrcpt s') a'
       | _ => Rc (comstate s') (mailfrom s') (rcpts s') (rcptcount s') (goodrcpt s') a'
       end.
Proof.
  intros [HR HI] HA Hc H. unfold h_rcpt in H.
  (* outcomes that leave the transaction alone *)
  assert (K452 : MAXRCPT <= rcptcount s ->
            Rc 64 (mailfrom s) (rcpts s) (rcptcount s) (goodrcpt s) a).
  { intros Emax. pose proof limits_ok as HL.
    destruct (stored_pos_phase _ _ _ _ _ _ HR) as (Hp & Hc64); [destruct HR as (Hn & _); lia|].
    rewrite <- Hc64. exact HR. }
  assert (KT : Irel (a_cert a) (relkey (tarpit s))
               /\ Rc (comstate (tarpit s)) (mailfrom (tarpit s)) (rcpts (tarpit s)) (rcptcount (tarpit s)) (goodrcpt (tarpit s)) a).
  { destruct (data_pending_core s) as (F1 & F2 & F3 & F4 & F5 & _ & _ & F8). unfold tarpit.
    now rewrite F1, F2, F3, F4, F5, F8. }
  destruct (o_addr o true arg) as [| | |addr more cls] eqn:Ea.
  - inversion H; subst. exists a. split; [reflexivity|]. split; [reflexivity|]. split; [exact HI|exact HR].
  - destruct (Nat.leb MAXRCPT (rcptcount s)) eqn:Emax.
    + inversion H; subst. exists a. split; [reflexivity|]. split; [reflexivity|]. split; [exact HI|].
      apply K452. now apply Nat.leb_le.
    + inversion H; subst. exists a. split; [reflexivity|]. split; [reflexivity|]. exact KT.
  - destruct (Nat.leb MAXRCPT (rcptcount s)) eqn:Emax.
    + inversion H; subst. exists a. split; [reflexivity|]. split; [reflexivity|]. split; [exact HI|].
      apply K452. now apply Nat.leb_le.
    + inversion H; subst. exists a. split; [reflexivity|]. split; [reflexivity|]. exact KT.
  - destruct (Nat.leb MAXRCPT (rcptcount s)) eqn:Emax.
    { inversion H; subst. exists a. split; [reflexivity|]. split; [reflexivity|]. split; [exact HI|].
      apply K452. now apply Nat.leb_le. }
    apply Nat.leb_gt in Emax.
    destruct (relay_decide o s cls) as [[res s1] pre] eqn:Erel.
    destruct (relay_decide_spec _ _ _ _ _ _ Erel HI) as (E1 & E2 & E3 & E4 & E5 & Hpok & HI1 & Hrelay).
    destruct (pre_ok_run pre a Hpok) as (Hrun & Hqrun).
    set (cc := a_cert a || has_cert pre) in *.
    set (a1 := set_cert a cc) in *.
    assert (HR1 : Rc (comstate s1) (mailfrom s1) (rcpts s1) (rcptcount s1) (goodrcpt s1) a1)
      by (rewrite E1, E2, E3, E4, E5; exact HR).
    (* the events are what is_authenticated() wrote, then the rest: the abstract state behind the former is a1 *)
    assert (Kpre : forall rest a', trace_run o rest a1 = Some a' -> queue_run o rest QIdle = Some QIdle ->
              trace_run o (pre ++ rest) a = Some a' /\ queue_run o (pre ++ rest) QIdle = Some QIdle).
    { intros rest a' T Q. rewrite trace_run_app, queue_run_app, Hrun, Hqrun. auto. }
    assert (Kq : forall rest a', quiet rest -> a' = a1 ->
              trace_run o (pre ++ rest) a = Some a' /\ queue_run o (pre ++ rest) QIdle = Some QIdle).
    { intros rest a' Hq ->. apply Kpre; [now apply quiet_trace|now apply quiet_queue_idle]. }
    assert (HT : Irel cc (relkey (tarpit s1))
                 /\ Rc (comstate (tarpit s1)) (mailfrom (tarpit s1)) (rcpts (tarpit s1)) (rcptcount (tarpit s1)) (goodrcpt (tarpit s1)) a1).
    { destruct (data_pending_core s1) as (F1 & F2 & F3 & F4 & F5 & _ & _ & F8). unfold tarpit.
      now rewrite F1, F2, F3, F4, F5, F8. }
    destruct res as [allowed|hf].
    2:{ inversion H; subst evs h s'. exists a1. rewrite <- (app_nil_r pre).
        destruct (Kq [] a1 eq_refl eq_refl) as (T & Q). split; [exact T|]. split; [exact Q|]. split; [exact HI1|].
        pose proof (relay_decide_fail _ _ _ _ _ _ Erel) as Hnz. destruct hf; try exact HR1. congruence. }
    destruct (negb allowed) eqn:Eal.
    { inversion H; subst evs h s'. exists a1. destruct (Kq [Reply 551] a1 eq_refl eq_refl) as (T & Q).
      split; [exact T|]. split; [exact Q|]. exact HT. }
    apply negb_false_iff in Eal. subst allowed.
    set (mx := match cls with RNotLocal => o_mx o addr | RLocal => 0 end) in H.
    destruct (Nat.eqb mx 1).
    { inversion H; subst evs h s'. exists a1. destruct (Kq [Reply 451] a1 eq_refl eq_refl) as (T & Q).
      split; [exact T|]. split; [exact Q|]. split; [exact HI1|exact HR1]. }
    destruct (Nat.eqb mx 2).
    { inversion H; subst evs h s'. exists a1. destruct (Kq [Reply 556] a1 eq_refl eq_refl) as (T & Q).
      split; [exact T|]. split; [exact Q|]. split; [exact HI1|exact HR1]. }
    destruct more as [m|].
    { inversion H; subst evs h s'. exists a1. rewrite <- (app_nil_r pre). destruct (Kq [] a1 eq_refl eq_refl) as (T & Q).
      split; [exact T|]. split; [exact Q|]. split; [exact HI1|exact HR1]. }
    destruct (Rc_some_phase _ _ _ _ _ _ HR Hc) as (f & rs & Htxn).
    assert (Htxn1 : a_txn a1 = Some (f, rs)) by exact Htxn.
    destruct HR1 as (Hn & Hl & Hg & Hph & Htx). rewrite Htxn1 in Htx.
    destruct Htx as (Hphase & Hmf & Hgood & Hb).
    destruct (Nat.ltb 0 (rcptcount s1) && match mailfrom s1 with [] => true | _ :: _ => false end) eqn:Eb2.
    + (* second recipient of a bounce *)
      apply andb_true_iff in Eb2 as (Epos & Emf). apply Nat.ltb_lt in Epos.
      assert (Hf : f = []) by (rewrite <- Hmf; destruct (mailfrom s1); [reflexivity|discriminate]).
      inversion H; subst evs h s'. clear H.
      set (a2 := {| a_phase := PRcpt; a_txn := Some (f, []); a_stored := S (a_stored a); a_auth := a_auth a; a_esmtp := a_esmtp a; a_cert := cc |}).
      assert (T : trace_run o [Note NWithdraw; Reply 550] a1 = Some a2) by (cbn [trace_run trace_step]; rewrite Htxn1; reflexivity).
      destruct (Kpre _ _ T eq_refl) as (T' & Q'). exists a2. split; [exact T'|]. split; [exact Q'|].
      set (sb := {| rd := rd s1; comstate := _; rcpts := _ |}).
      destruct (data_pending_core sb) as (F1 & F2 & F3 & F4 & F5 & _ & _ & F8). unfold tarpit.
      rewrite F1, F2, F3, F4, F5, F8. unfold sb. cbn [comstate mailfrom rcpts rcptcount goodrcpt relayclient].
      split; [exact HI1|].
      destruct (stored_pos_phase (comstate s1) (mailfrom s1) (rcpts s1) (rcptcount s1) (goodrcpt s1) a1) as (Hp & Hc64);
        [unfold Rc; rewrite Htxn1; auto 10|lia|].
      (* all recipients stored so far are not ok afterwards *)
      assert (Hallfalse : good (match rcpts s1 with (a0, _) :: t => (a0, false) :: t | [] => [] end ++ [(addr, false)]) = []).
      { rewrite good_app. simpl. rewrite app_nil_r.
        destruct (Hb Hf) as [Hle|Hrs].
        - change (a_stored a1) with (a_stored a) in *.
          destruct (rcpts s1) as [|[a0 b0] [|y t]]; simpl in *; try reflexivity; lia.
        - rewrite Hrs in Hgood. destruct (rcpts s1) as [|[a0 b0] t]; [reflexivity|].
          unfold good in *. simpl in *. destruct b0; [discriminate|exact Hgood]. }
      change (a_stored a1) with (a_stored a) in *. change (a_phase a1) with (a_phase a) in *.
      unfold Rc, a2. cbn [a_stored a_phase a_txn]. rewrite Hallfalse.
      repeat split; try lia; auto.
      * rewrite app_length. simpl.
        destruct (rcpts s1) as [|[a0 b0] t]; simpl in *; lia.
    + (* accepted *)
      inversion H; subst evs h s'. clear H.
      change (a_stored a1) with (a_stored a) in *. change (a_phase a1) with (a_phase a) in *.
      assert (Hnb : (match f, a_stored a with [], S _ => true | _, _ => false end) = false).
      { apply andb_false_iff in Eb2. destruct f; [|reflexivity].
        destruct (a_stored a) eqn:Es; [reflexivity|].
        destruct Eb2 as [E|E]; [apply Nat.ltb_ge in E; lia|rewrite Hmf in E; discriminate]. }
      assert (Hmax : Nat.leb MAXRCPT (a_stored a) = false) by (apply Nat.leb_gt; lia).
      assert (Hrel : (match cls with RNotLocal => negb (0 <? o_relay o)%Z && negb (a_auth a) && negb cc | RLocal => false end) = false).
      { destruct cls; [reflexivity|]. destruct (Hrelay eq_refl eq_refl) as [Hr|[Hr|Hr]].
        - rewrite Hr. reflexivity.
        - rewrite HA, Hr. rewrite andb_false_r. reflexivity.
        - fold cc in Hr. rewrite Hr. apply andb_false_r. }
      set (a2 := {| a_phase := PRcpt; a_txn := Some (f, rs ++ [addr]); a_stored := S (a_stored a); a_auth := a_auth a; a_esmtp := a_esmtp a; a_cert := cc |}).
      assert (T : trace_run o [Note (NRcpt addr cls); Reply 250] a1 = Some a2).
      { cbn [trace_run trace_step a1 set_cert a_txn a_stored a_auth a_cert]. rewrite Htxn. rewrite Hnb, Hmax, Hrel. reflexivity. }
      destruct (Kpre _ _ T eq_refl) as (T' & Q'). exists a2. split; [exact T'|]. split; [exact Q'|].
      cbn [comstate mailfrom rcpts rcptcount goodrcpt relayclient].
      split; [exact HI1|].
      unfold Rc, a2. cbn [a_stored a_phase a_txn]. rewrite good_app. cbn [snd fst].
      repeat split; try lia; auto.
      * rewrite app_length. simpl. lia.
      * rewrite app_length. simpl. lia.
      * now rewrite Hgood.
      * intros Hf. left. rewrite Hf in Hnb.
        destruct (a_stored a) eqn:Es; [lia|discriminate].
Qed.

(** ---------- freedata: the boundary ---------- *)
(** freedata() forgets the certificate name, not the cached decision *)
Lemma Irel_freedata c s : Irel c (relkey s) -> Irel c (relkey (freedata s)).
Proof. intros [H1 H2]. split; cbn [relkey freedata fst snd relayclient tlsclient]; [exact H1|congruence]. Qed.

Lemma boundary_spec s a : R s a ->
  exists a', trace_step o (Note NBoundary) a = Some a'
    /\ a_txn a' = None /\ a_stored a' = 0
    /\ a_phase a' = (match a_phase a with PInit => PInit | _ => PHelo end)
    /\ R (freedata s) a'
    /\ (comstate s = 32%N \/ comstate s = 64%N -> comstate (freedata s) = helo_state (esmtp s))
    /\ (comstate s = 8%N \/ comstate s = 16%N \/ comstate s = 1%N -> comstate (freedata s) = comstate s).
Proof.
  intros [HR HI]. eexists. split; [reflexivity|]. cbn [a_txn a_stored a_phase].
  split; [reflexivity|]. split; [reflexivity|]. split; [reflexivity|].
  destruct HR as (Hn & Hl & Hg & Hph & Htx).
  assert (Hcs : comstate s = 1%N \/ comstate s = 8%N \/ comstate s = 16%N \/ comstate s = 32%N \/ comstate s = 64%N).
  { destruct (a_phase a); intuition. }
  split; [|split].
  - split; [|exact (Irel_freedata _ _ HI)]. unfold freedata, Rc. cbn [comstate mailfrom rcpts rcptcount goodrcpt a_stored a_phase a_txn].
    repeat split; auto.
    + destruct (a_phase a) eqn:Ep.
      * rewrite Hph. reflexivity.
      * destruct Hph as [E|E]; rewrite E; vm_compute; auto.
      * destruct Hph as (E & _). rewrite E. unfold helo_state. destruct (esmtp s); vm_compute; auto.
      * destruct Hph as (E & _). rewrite E. unfold helo_state. destruct (esmtp s); vm_compute; auto.
    + destruct (a_phase a); auto.
  - intros [E|E]; unfold freedata; cbn [comstate]; rewrite E; reflexivity.
  - intros [E|[E|E]]; unfold freedata; cbn [comstate]; rewrite E; reflexivity.
Qed.

(** ---------- MAIL ---------- *)
Lemma subm_gate_spec s res s1 pre c : subm_gate o s = (res, s1, pre) -> Irel c (relkey s) ->
  comstate s1 = comstate s /\ mailfrom s1 = mailfrom s /\ rcpts s1 = rcpts s
  /\ rcptcount s1 = rcptcount s /\ goodrcpt s1 = goodrcpt s
  /\ pre_ok pre
  /\ Irel (c || has_cert pre) (relkey s1)
  /\ (res = RD_ok true -> o_submission o = true -> (0 <? o_relay o)%Z = true \/ authed s = true \/ c || has_cert pre = true).
Proof.
  unfold subm_gate. intros H HI. destruct (o_submission o).
  - destruct (relay_decide_spec _ _ _ _ _ _ H HI) as (E1 & E2 & E3 & E4 & E5 & Hp & HI1 & Hent).
    split; [exact E1|]. split; [exact E2|]. split; [exact E3|]. split; [exact E4|]. split; [exact E5|]. split; [exact Hp|].
    split; [exact HI1|]. intros Hres _. exact (Hent Hres eq_refl).
  - inversion H; subst. cbn [has_cert existsb]. rewrite orb_false_r.
    split; [reflexivity|]. split; [reflexivity|]. split; [reflexivity|]. split; [reflexivity|]. split; [reflexivity|].
    split; [reflexivity|]. split; [exact HI|]. discriminate.
Qed.

(** MAIL FROM; on the submission port it passes only the gate of is_authenticated() *)
Lemma h_from_spec s a arg len evs h s' : R s a -> a_auth a = authed s -> (comstate s = 8%N \/ comstate s = 16%N) ->
  h_from o s arg len = (evs, h, s') ->
  exists a', trace_run o evs a = Some a' /\ queue_run o evs QIdle = Some QIdle
    /\ Irel (a_cert a') (relkey s')
    /\ match h with
       | H0 => Rc 32 (mailfrom s') (rcpts s') (rcptcount s') (goodrcpt s') a'
       | _ => Rc (comstate s') (mailfrom s') (rcpts s') (rcptcount s') (goodrcpt s') a'
       end.
Proof.
  intros [HR HI] HA Hc H. unfold h_from in H.
  destruct HR as (Hn & Hl & Hg & Hph & Htx).
  assert (Hp : a_phase a = PHelo).
  { destruct (a_phase a); try reflexivity; destruct Hc as [E|E]; rewrite E in Hph; try discriminate;
      destruct Hph; discriminate. }
  rewrite Hp in *.
  destruct (a_txn a) as [[f rs]|] eqn:Etx; [destruct Htx as ([E|E] & _); discriminate|].
  destruct Htx as (_ & Hmf & Hrc).
  set (sc := {| rd := rd s; comstate := comstate s; mailfrom := []; thisbytes := 0%N; rcpts := rcpts s |}) in H.
  assert (HRc : Rc (comstate sc) (mailfrom sc) (rcpts sc) (rcptcount sc) (goodrcpt sc) a).
  { unfold sc. cbn [comstate mailfrom rcpts rcptcount goodrcpt]. unfold Rc. rewrite Hp, Etx. auto 10. }
  assert (HIc : Irel (a_cert a) (relkey sc)) by exact HI.
  assert (HAc : authed sc = authed s) by reflexivity.
  destruct (o_addr o false arg) as [| | |addr more cls] eqn:Eaddr.
  { inversion H; subst. exists a. split; [reflexivity|]. split; [reflexivity|]. split; [exact HIc|exact HRc]. }
  all: destruct (subm_gate o sc) as [[res s1] pre] eqn:Eg;
       destruct (subm_gate_spec _ _ _ _ _ Eg HIc) as (E1 & E2 & E3 & E4 & E5 & Hpok & HI1 & Hent);
       destruct (pre_ok_run pre a Hpok) as (Hrun & Hqrun);
       set (cc := a_cert a || has_cert pre) in *; set (a1 := set_cert a cc) in *.
  all: assert (HR1 : Rc (comstate s1) (mailfrom s1) (rcpts s1) (rcptcount s1) (goodrcpt s1) a1) by (rewrite E1, E2, E3, E4, E5; exact HRc).
  (* everything that leaves the (cleared) transaction state alone: what the gate wrote, then at most one reply *)
  all: assert (K : forall e c, e = [] \/ e = [Reply c] ->
            exists a', trace_run o (pre ++ e) a = Some a' /\ queue_run o (pre ++ e) QIdle = Some QIdle /\ Irel (a_cert a') (relkey s1)
              /\ Rc (comstate s1) (mailfrom s1) (rcpts s1) (rcptcount s1) (goodrcpt s1) a')
         by (intros e c He; exists a1; rewrite trace_run_app, queue_run_app, Hrun, Hqrun; destruct He as [->| ->]; auto).
  all: assert (KT : forall e c, e = [] \/ e = [Reply c] ->
            exists a', trace_run o (pre ++ e) a = Some a' /\ queue_run o (pre ++ e) QIdle = Some QIdle /\ Irel (a_cert a') (relkey (tarpit s1))
              /\ Rc (comstate (tarpit s1)) (mailfrom (tarpit s1)) (rcpts (tarpit s1)) (rcptcount (tarpit s1)) (goodrcpt (tarpit s1)) a')
         by (intros e c He; destruct (data_pending_core s1) as (F1 & F2 & F3 & F4 & F5 & _ & _ & F8); unfold tarpit;
             rewrite F1, F2, F3, F4, F5, F8; apply (K e c He)).
  all: (destruct res as [al|hf];
        [|inversion H; subst evs h s'; pose proof (subm_gate_fail _ _ _ _ _ Eg) as Hnz; rewrite <- (app_nil_r pre);
          destruct (K [] 0%N (or_introl eq_refl)) as (a' & T & Q & I' & R'); exists a'; split; [exact T|]; split; [exact Q|]; split; [exact I'|];
          destruct hf; try exact R'; congruence]).
  all: (destruct (negb al) eqn:Eal; [inversion H; subst evs h s'; apply (K [Reply 550] 550%N); auto|]).
  - inversion H; subst evs h s'. apply (KT [Reply 501] 501%N); auto.
  - inversion H; subst evs h s'. apply (KT [Reply 550] 550%N); auto.
  - apply negb_false_iff in Eal. subst al.
    assert (Knil : exists a', trace_run o pre a = Some a' /\ queue_run o pre QIdle = Some QIdle /\ Irel (a_cert a') (relkey s1)
              /\ Rc (comstate s1) (mailfrom s1) (rcpts s1) (rcptcount s1) (goodrcpt s1) a')
      by (exists a1; auto).
    destruct (if esmtp s1 then None else more).
    { inversion H; subst evs h s'. exact Knil. }
    destruct (match more with Some m => o_ext o m | None => Ext_ok 0 0 None end) as [tb bonus body8| |].
    2:{ inversion H; subst evs h s'. exact Knil. }
    2:{ inversion H; subst evs h s'. exact Knil. }
    destruct (Nat.ltb (CMD_LINE_MAX + bonus) len). { inversion H; subst evs h s'. exact Knil. }
    destruct (negb (N.eqb (o_databytes o) 0) && N.ltb (o_databytes o) tb).
    { inversion H; subst evs h s'. apply (K [Reply 452] 452%N); auto. }
    inversion H; subst evs h s'. clear H.
    (* the gate of the submission port is what the specification demands *)
    assert (Hgate : o_submission o && negb (0 <? o_relay o)%Z && negb (a_auth a) && negb cc = false).
    { destruct (o_submission o) eqn:Es; [|reflexivity]. cbn [andb].
      destruct (Hent eq_refl eq_refl) as [Hr|[Hr|Hr]].
      - rewrite Hr. reflexivity.
      - rewrite HA, <- HAc, Hr. rewrite andb_false_r. reflexivity.
      - fold cc in Hr. rewrite Hr. apply andb_false_r. }
    set (a2 := {| a_phase := PMail; a_txn := Some (addr, []); a_stored := 0; a_auth := a_auth a; a_esmtp := a_esmtp a; a_cert := cc |}).
    assert (T : trace_run o [Note (NMail addr); Reply 250] a1 = Some a2).
    { cbn [trace_run trace_step a1 set_cert a_phase a_auth a_cert]. rewrite Hp, Hgate. reflexivity. }
    exists a2. split; [rewrite trace_run_app, Hrun; exact T|].
    split; [rewrite queue_run_app, Hqrun; reflexivity|]. cbn [comstate mailfrom rcpts rcptcount goodrcpt relayclient].
    split; [exact HI1|]. rewrite E3, E4. unfold sc. cbn [rcpts rcptcount].
    unfold Rc, a2. cbn [a_stored a_phase a_txn]. rewrite Hrc in *. simpl in Hl.
    repeat split; auto; try lia.
Qed.

(** ---------- DATA ---------- *)
Lemma sync_pipelining_spec f s sp s2 : sync_pipelining f s = (sp, s2) ->
  (forall evs, sp = Some evs -> quiet evs)
  /\ comstate s2 = comstate s /\ mailfrom s2 = mailfrom s /\ rcpts s2 = rcpts s
  /\ rcptcount s2 = rcptcount s /\ goodrcpt s2 = goodrcpt s /\ esmtp s2 = esmtp s /\ qcount s2 = qcount s
  /\ relkey s2 = relkey s.
Proof.
  unfold sync_pipelining.
  destruct (data_pending s) as [p sd] eqn:Ed.
  pose proof (data_pending_core s) as Hc. rewrite Ed in Hc. cbn [snd] in Hc.
  destruct Hc as (F1 & F2 & F3 & F4 & F5 & F6 & F7 & F8).
  destruct (negb p).
  { intros H; inversion H; subst. split; [discriminate|]. auto 10. }
  destruct (esmtp sd) eqn:Ees.
  { intros H; inversion H; subst. split; [|repeat split; congruence].
    intros evs E; inversion E; subst. unfold quiet. cbn [forallb quiet_ev andb]. apply wait_for_quit_quiet. }
  destruct (net_read (rd sd)) as [it r'].
  destruct it; intros H; inversion H; subst; (split; [|change (relkey (set_rd sd r')) with (relkey sd); cbn [set_rd comstate mailfrom rcpts rcptcount goodrcpt esmtp qcount]; repeat split; congruence]);
    intros evs E; inversion E; subst; try reflexivity;
    unfold quiet; cbn [forallb quiet_ev andb]; apply wait_for_quit_quiet.
Qed.

Lemma envelope_env_of lh f rc : envelope lh f rc = env_of lh (Some (f, good rc)).
Proof.
  unfold envelope, env_of, good. rewrite map_map. reflexivity.
Qed.

Lemma bytes_eqb_refl x : bytes_eqb x x = true.
Proof. apply bytes_eqb_eq. reflexivity. Qed.

(** the only reply codes the copy loops themselves decide on *)
Lemma body_loop_reject fuel : forall dc r l msg sz seen code lr r',
  body_loop fuel o dc r l msg sz seen = (D_reject code lr, r') -> code = 550%N \/ code = 554%N.
Proof.
  induction fuel as [|f IH]; intros dc r l msg sz seen code lr r' H; cbn [body_loop] in H; [discriminate|].
  destruct (is_dot l || N.ltb (maxbytes o) sz). { unfold dfinal in H. destruct (N.ltb (maxbytes o) sz); discriminate. }
  destruct (d_chk dc && negb (d_dt dc) && has8 l). { inversion H; auto. }
  destruct (d_wfail dc); [discriminate|].
  destruct (dread r l) as [[d0|l'] r1] eqn:Ed.
  - inversion H; subst. unfold dread in Ed. destruct (net_read r) as [it rr]. destruct it; inversion Ed.
  - eapply IH; exact H.
Qed.

Lemma hdr_loop_reject fuel : forall dc r l msg sz hops hf seen code lr r',
  hdr_loop fuel o dc r l msg sz hops hf seen = (D_reject code lr, r') -> code = 550%N \/ code = 554%N.
Proof.
  induction fuel as [|f IH]; intros dc r l msg sz hops hf seen code lr r' H; cbn [hdr_loop] in H; [discriminate|].
  destruct (is_dot l || N.ltb (maxbytes o) sz || Nat.eqb (length l) 0 || Nat.ltb MAXHOPS hops).
  - match type of H with context [if ?c then (D_wfail l, r) else _] => destruct c end; [discriminate|].
    destruct (negb (d_subm dc) && d_chk dc && (N.eqb (N.land hf 1) 0 || N.eqb (N.land hf 2) 0)). { inversion H; auto. }
    destruct l as [|b t].
    + destruct (d_wfail dc); [discriminate|]. destruct (dread r []) as [[d0|l'] r1] eqn:Ed.
      * inversion H; subst. unfold dread in Ed. destruct (net_read r) as [it rr]. destruct it; inversion Ed.
      * eapply body_loop_reject; exact H.
    + unfold dfinal in H. destruct (N.ltb (maxbytes o) sz); discriminate.
  - destruct (if N.eqb (nth 0 l 0%N) DOT then Some (hf, false) else hdr_check dc hf l) as [[hf' flagr]|]. 2:{ inversion H; auto. }
    match type of H with context [if ?c then (D_loop l seen, r) else _] => destruct c end; [discriminate|].
    match type of H with context [if ?c then (D_reject 554 l, r) else _] => destruct c end. { inversion H; auto. }
    destruct (d_wfail dc); [discriminate|].
    destruct (dread r l) as [[d0|l'] r1] eqn:Ed.
    + inversion H; subst. unfold dread in Ed. destruct (net_read r) as [it rr]. destruct it; inversion Ed.
    + eapply IH; exact H.
Qed.

(** result of DATA: the trace is accepted; the queue checker ends idle, or "failed, closing
    reply still to come" exactly for the two outcomes whose reply is written by smtploop *)
Lemma h_data_spec f s a evs h s' : R s a -> comstate s = 64%N ->
  h_data f o s = (evs, h, s') ->
  exists a', trace_run o evs a = Some a'
    /\ Irel (a_cert a') (relkey s')
    /\ match h with
       | HEXIT => queue_run o evs QIdle <> None
       | HEMSGSIZE | HE2BIG => queue_run o evs QIdle = Some QFailed
                               /\ Rc (comstate s') (mailfrom s') (rcpts s') (rcptcount s') (goodrcpt s') a'
       | H0 => queue_run o evs QIdle = Some QIdle
               /\ Rc (helo_state (esmtp s')) (mailfrom s') (rcpts s') (rcptcount s') (goodrcpt s') a'
       | _ => queue_run o evs QIdle = Some QIdle
              /\ Rc (comstate s') (mailfrom s') (rcpts s') (rcptcount s') (goodrcpt s') a'
       end.
Proof.
  intros [HR HI] Hc H. unfold h_data in H.
  destruct (Nat.eqb (goodrcpt s) 0) eqn:Eg.
  { inversion H; subst. exists a. split; [reflexivity|].
    destruct (data_pending_core s) as (F1 & F2 & F3 & F4 & F5 & _ & _ & F8). unfold tarpit.
    rewrite F1, F2, F3, F4, F5, F8. auto. }
  apply Nat.eqb_neq in Eg.
  destruct (sync_pipelining f s) as [sp s2] eqn:Esp.
  destruct (sync_pipelining_spec _ _ _ _ Esp) as (Hq & G1 & G2 & G3 & G4 & G5 & G6 & G7 & G8).
  destruct sp as [e|].
  { inversion H; subst. exists a. split; [apply quiet_trace; apply Hq; reflexivity|].
    split; [now rewrite G8|]. rewrite quiet_queue_idle by (apply Hq; reflexivity). discriminate. }
  (* the transaction has at least one accepted recipient *)
  destruct (Rc_some_phase _ _ _ _ _ _ HR (or_intror Hc)) as (fr & rs & Htxn).
  pose proof HR as (Hn & Hl & Hgd & Hph & Htx). rewrite Htxn in Htx.
  destruct Htx as (Hphase & Hmf & Hgood & Hb).
  assert (Hrs : exists r0 rs', rs = r0 :: rs').
  { destruct rs as [|r0 rs']; [|eauto]. rewrite Hgood in Hgd. simpl in Hgd. lia. }
  destruct Hrs as (r0 & rs' & Ers).
  assert (Hphr : a_phase a = PRcpt).
  { destruct (a_phase a); try reflexivity; rewrite Hc in Hph; try discriminate; destruct Hph; discriminate. }
  set (k := qcount s2) in *.
  set (sq := {| rd := rd s2; comstate := comstate s2; qcount := S k; rcpts := rcpts s2; mailfrom := mailfrom s2 |}) in H.
  (* the abstract state after the boundary *)
  set (ab := {| a_phase := PHelo; a_txn := None; a_stored := 0; a_auth := a_auth a; a_esmtp := a_esmtp a; a_cert := a_cert a |}).
  assert (HI2 : Irel (a_cert a) (relkey s2)) by (rewrite G8; exact HI).
  (* queue_init() failed: 451, nothing else happened *)
  destruct (qq_nostart (o_qq o k)) eqn:Ens.
  { inversion H; subst evs h s'. exists a. split; [reflexivity|]. split; [exact HI2|]. split; [reflexivity|].
    unfold sq. cbn [comstate mailfrom rcpts rcptcount goodrcpt]. rewrite G1, G2, G3, G4, G5. exact HR. }
  assert (HqN : queue_step o (Note (NData k)) QIdle = Some (QData k)) by (cbn [queue_step]; rewrite Ens; reflexivity).
  assert (Hbd0 : trace_step o (Note NBoundary) a = Some ab).
  { cbn [trace_step]. destruct (a_phase a); try reflexivity; rewrite Hc in Hph; try discriminate; destruct Hph; discriminate. }
  assert (Hfree0 : forall r2, let sf := freedata (set_rd sq r2) in
            Irel (a_cert a) (relkey sf) /\ comstate sf = helo_state (esmtp sf)
            /\ Rc (comstate sf) (mailfrom sf) (rcpts sf) (rcptcount sf) (goodrcpt sf) ab).
  { intros r2 sf. unfold sf, freedata, set_rd, sq.
    split; [exact (Irel_freedata _ (set_rd sq r2) HI2)|].
    cbn [comstate mailfrom rcpts rcptcount goodrcpt relayclient esmtp].
    rewrite G1, Hc. split; [reflexivity|].
    unfold Rc, ab. cbn [a_stored a_phase a_txn]. unfold helo_state.
    repeat split; auto. destruct (esmtp s2); auto. }
  (* the child died between queue_init() and the Received: header *)
  destruct (qq_die_hdr (o_qq o k)) eqn:Edh.
  { destruct (drain_break f (rd sq) s_data_line) as [[alive rerr] r2]. destruct (Hfree0 r2) as (HIf & Hcf & HRf).
    destruct alive; cbn [negb] in H; inversion H; subst evs h s'; clear H.
    + exists ab. split; [cbn [trace_run trace_step]; rewrite Htxn, Ers, Hphr; reflexivity|].
      split; [exact HIf|]. split; [cbn [queue_run]; rewrite HqN; reflexivity|exact HRf].
    + exists a. split; [cbn [trace_run trace_step]; rewrite Htxn, Ers; reflexivity|]. split; [exact HI2|].
      cbn [queue_run]. rewrite HqN. simpl. discriminate. }
  destruct (data_loop f o _ (rd sq) _) as [de r'] eqn:Edl.
  assert (Htr1 : trace_run o [Note (NData k); Reply 354] a = Some a).
  { cbn [trace_run trace_step]. rewrite Htxn, Ers. reflexivity. }
  assert (Hbd : trace_step o (Note NBoundary) a = Some ab).
  { cbn [trace_step]. rewrite Hphr. reflexivity. }
  (* the state after freedata, whatever the reader did *)
  assert (Hfree : forall r2, let sf := freedata (set_rd (set_rd sq r') r2) in
            Irel (a_cert a) (relkey sf) /\ comstate sf = helo_state (esmtp sf)
            /\ Rc (comstate sf) (mailfrom sf) (rcpts sf) (rcptcount sf) (goodrcpt sf) ab).
  { intros r2 sf. unfold sf, freedata, set_rd, sq.
    split; [exact (Irel_freedata _ (set_rd (set_rd sq r') r2) HI2)|].
    cbn [comstate mailfrom rcpts rcptcount goodrcpt relayclient esmtp].
    rewrite G1, Hc. split; [reflexivity|].
    unfold Rc, ab. cbn [a_stored a_phase a_txn]. unfold helo_state.
    repeat split; auto. destruct (esmtp s2); auto. }
  assert (Hfree1 : let sf := freedata (set_rd sq r') in
            Irel (a_cert a) (relkey sf) /\ comstate sf = helo_state (esmtp sf)
            /\ Rc (comstate sf) (mailfrom sf) (rcpts sf) (rcptcount sf) (goodrcpt sf) ab).
  { exact (Hfree r'). }
  destruct de as [msg sz seen|l seen|l seen|big l|lw|code lr| |].
  - (* end of data *)
    destruct Hfree1 as (HIf & Hcf & HRf).
    assert (Hho : trace_step o (Handoff (envelope (o_liphost o) (mailfrom (set_rd sq r')) (rcpts (set_rd sq r'))) msg) a = Some a).
    { assert (Em : mailfrom (set_rd sq r') = fr) by (unfold set_rd, sq; cbn [mailfrom]; congruence).
      assert (Er : good (rcpts (set_rd sq r')) = rs) by (unfold set_rd, sq; cbn [rcpts]; congruence).
      cbn [trace_step]. rewrite Htxn, envelope_env_of, Em, Er, bytes_eqb_refl. reflexivity. }
    destruct (o_qq o k) eqn:Eqq.
    + inversion H; subst evs h s'. clear H. exists ab.
      split. { change (trace_run o ([Note (NData k); Reply 354] ++ [Handoff (envelope (o_liphost o) (mailfrom (set_rd sq r')) (rcpts (set_rd sq r'))) msg; Note NBoundary; Reply 250]) a = Some ab).
               rewrite trace_run_app, Htr1. cbn [trace_run]. rewrite Hho, Hbd. reflexivity. }
      split; [exact HIf|].
      split. { cbn [queue_run]. rewrite HqN. cbn [queue_run queue_step N.eqb Pos.eqb]. rewrite Eqq. reflexivity. }
      rewrite <- Hcf. exact HRf.
    + destruct (Nat.leb QQ_PERM_LO code && Nat.leb code QQ_PERM_HI);
        inversion H; subst evs h s'; clear H; exists ab;
        (split; [cbn [trace_run trace_step]; rewrite Htxn, Ers, Hphr; reflexivity|]);
        (split; [exact HIf|]); (split; [cbn [queue_run]; rewrite HqN; reflexivity|exact HRf]).
    + inversion H; subst evs h s'; clear H; exists ab;
        (split; [cbn [trace_run trace_step]; rewrite Htxn, Ers, Hphr; reflexivity|]);
        (split; [exact HIf|]); (split; [cbn [queue_run]; rewrite HqN; reflexivity|exact HRf]).
    + inversion H; subst evs h s'; clear H; exists ab;
        (split; [cbn [trace_run trace_step]; rewrite Htxn, Ers, Hphr; reflexivity|]);
        (split; [exact HIf|]); (split; [cbn [queue_run]; rewrite HqN; reflexivity|exact HRf]).
    + inversion H; subst evs h s'; clear H; exists ab;
        (split; [cbn [trace_run trace_step]; rewrite Htxn, Ers, Hphr; reflexivity|]);
        (split; [exact HIf|]); (split; [cbn [queue_run]; rewrite HqN; reflexivity|exact HRf]).
    + simpl in Ens. discriminate.
    + simpl in Edh. discriminate.
  - destruct (drain f r' l) as [alive r2]. destruct (Hfree r2) as (HIf & Hcf & HRf).
    destruct alive; inversion H; subst evs h s'; clear H.
    + exists ab. split; [cbn [trace_run trace_step]; rewrite Htxn, Ers, Hphr; reflexivity|].
      split; [exact HIf|]. split; [cbn [queue_run]; rewrite HqN; reflexivity|exact HRf].
    + exists a. split; [exact Htr1|]. split; [exact HI2|].
      cbn [queue_run]. rewrite HqN. simpl. discriminate.
  - destruct (drain f r' l) as [alive r2]. destruct (Hfree r2) as (HIf & Hcf & HRf).
    destruct alive; inversion H; subst evs h s'; clear H.
    + exists ab. split; [cbn [trace_run trace_step]; rewrite Htxn, Ers, Hphr; reflexivity|].
      split; [exact HIf|]. split; [cbn [queue_run]; rewrite HqN; reflexivity|exact HRf].
    + exists a. split; [exact Htr1|]. split; [exact HI2|].
      cbn [queue_run]. rewrite HqN. simpl. discriminate.
  - destruct (drain f r' l) as [alive r2]. destruct (Hfree r2) as (HIf & Hcf & HRf).
    destruct alive; cbn [negb] in H.
    + destruct big; inversion H; subst evs h s'; clear H; exists ab;
        (split; [cbn [trace_run trace_step]; rewrite Htxn, Ers, Hphr; reflexivity|]);
        (split; [exact HIf|]); (split; [cbn [queue_run]; rewrite HqN; reflexivity|exact HRf]).
    + inversion H; subst evs h s'; clear H.
      exists a. split; [exact Htr1|]. split; [exact HI2|].
      cbn [queue_run]. rewrite HqN. simpl. discriminate.
  - (* a write to qmail-queue failed *)
    destruct (drain_break f r' lw) as [[alive rerr] r2]. destruct (Hfree r2) as (HIf & Hcf & HRf).
    destruct alive; cbn [negb] in H; inversion H; subst evs h s'; clear H.
    + exists ab. split; [cbn [trace_run trace_step]; rewrite Htxn, Ers, Hphr; reflexivity|].
      split; [exact HIf|]. split; [cbn [queue_run]; rewrite HqN; reflexivity|exact HRf].
    + exists a. split; [exact Htr1|]. split; [exact HI2|].
      cbn [queue_run]. rewrite HqN. simpl. discriminate.
  - (* refused by a header check or as a Delivered-To: loop *)
    destruct (drain f r' lr) as [alive r2]. destruct (Hfree r2) as (HIf & Hcf & HRf).
    destruct alive; inversion H; subst evs h s'; clear H.
    + exists ab. split; [cbn [trace_run trace_step]; rewrite Htxn, Ers, Hphr; reflexivity|].
      split; [exact HIf|].
      assert (Hc400 : (400 <=? code)%N = true).
      { (* the only codes the loops produce *)
        clear -Edl. unfold data_loop in Edl. destruct (dread (rd sq) []) as [[d0|l0] r1] eqn:Ed.
        - inversion Edl; subst. unfold dread in Ed. destruct (net_read (rd sq)) as [it rr]. destruct it; inversion Ed.
        - apply hdr_loop_reject in Edl. destruct Edl as [->| ->]; reflexivity. }
      split; [cbn [queue_run]; rewrite HqN; simpl; rewrite Hc400; reflexivity|exact HRf].
    + exists a. split; [exact Htr1|]. split; [exact HI2|].
      cbn [queue_run]. rewrite HqN. simpl. discriminate.
  - inversion H; subst evs h s'; clear H.
    exists a. split; [exact Htr1|]. split; [exact HI2|].
    cbn [queue_run]. rewrite HqN. cbn [queue_run queue_step N.eqb]. discriminate.
  - inversion H; subst evs h s'; clear H.
    exists a. split; [cbn [trace_run trace_step]; rewrite Htxn, Ers; reflexivity|].
    split; [exact HI2|].
    cbn [queue_run]. rewrite HqN. cbn [queue_run queue_step N.eqb]. discriminate.
Qed.

(** ---------- the dispatcher ---------- *)
Lemma R_comstate s a : R s a ->
  comstate s = 1%N \/ comstate s = 8%N \/ comstate s = 16%N \/ comstate s = 32%N \/ comstate s = 64%N.
Proof.
  intros [(_ & _ & _ & Hph & _) _]. destruct (a_phase a); intuition.
Qed.

Definition RcS (c : N) (s : sstate) (a : astate) : Prop :=
  Rc c (mailfrom s) (rcpts s) (rcptcount s) (goodrcpt s) a.

(** the post-condition of one dispatched command *)
Definition post (evs : list event) (h : hres) (s1 : sstate) (a' : astate) : Prop :=
  Irel (a_cert a') (relkey s1)
  /\ match h with
     | HEXIT => queue_run o evs QIdle <> None
     | HEMSGSIZE | HE2BIG =>
         (queue_run o evs QIdle = Some QFailed \/ queue_run o evs QIdle = Some QIdle) /\ RcS (comstate s1) s1 a'
     | _ => queue_run o evs QIdle = Some QIdle /\ RcS (comstate s1) s1 a'
     end.

Lemma post_quiet_keep evs h s a : R s a -> quiet evs -> h <> HEXIT ->
  exists a', trace_run o evs a = Some a' /\ post evs h s a'.
Proof.
  intros [HR HI] Hq Hh. exists a. split; [now apply quiet_trace|]. split; [exact HI|].
  rewrite (quiet_queue_idle _ Hq). destruct h; try (split; [auto|exact HR]). congruence.
Qed.

Lemma dispatch_spec f s a l evs h s1 : R s a -> a_auth a = authed s -> K s (a_esmtp a) -> dispatch f o s l = (evs, h, s1) ->
  exists a', trace_run o evs a = Some a' /\ post evs h s1 a'.
Proof.
  intros HRI HA HK H. pose proof HRI as [HR HI]. unfold dispatch in H.
  destruct (negb (line_valid l)).
  { inversion H; subst. apply post_quiet_keep; [exact HRI|reflexivity|discriminate]. }
  destruct (find_cmd commands 0 l) as [[i [[[[name mask] hid] st] flags]]|] eqn:Ef.
  2:{ inversion H; subst. apply post_quiet_keep; [exact HRI|reflexivity|discriminate]. }
  pose proof (find_cmd_ok _ _ _ Ef) as Hent. unfold entry_ok in Hent.
  destruct (N.eqb (N.land (comstate s) mask) 0) eqn:Emask.
  { inversion H; subst. apply post_quiet_keep; [exact HRI|reflexivity|discriminate]. }
  destruct (N.eqb (N.land flags 2) 0 && Nat.ltb CMD_LINE_MAX (length l)).
  { inversion H; subst. exists a. split; [reflexivity|]. split; [exact HI|]. split; [right; reflexivity|exact HR]. }
  destruct (N.eqb (N.land flags 1) 0 && negb (Nat.eqb (length (skipn (length name) l)) 0)).
  { inversion H; subst. apply post_quiet_keep; [exact HRI|reflexivity|discriminate]. }
  destruct (negb (N.eqb (N.land flags 4) 0) && negb (N.eqb (nth 0 (skipn (length name) l) 0%N) SP)).
  { inversion H; subst. apply post_quiet_keep; [exact HRI|reflexivity|discriminate]. }
  apply N.eqb_neq in Emask.
  pose proof (R_comstate _ _ HRI) as Hcs.
  unfold after_handler, run_handler in H.
  (* handlers in table order of their ids *)
  destruct hid as [|[|[|[|[|[|[|[|[|[|[|[|[|hid]]]]]]]]]]]]].
  - (* 0 NOOP *)
    apply Z.ltb_lt in Hent.
    destruct (sync_pipelining f s) as [sp s2] eqn:Esp.
    destruct (sync_pipelining_spec _ _ _ _ Esp) as (Hq & G1 & G2 & G3 & G4 & G5 & _ & _ & G8).
    destruct sp as [e|].
    + inversion H; subst. exists a. split; [apply quiet_trace; apply Hq; reflexivity|].
      split; [now rewrite G8|]. rewrite quiet_queue_idle by (apply Hq; reflexivity). discriminate.
    + destruct (Z.ltb 0 st) eqn:E1; [apply Z.ltb_lt in E1; lia|].
      destruct (Z.eqb st 0) eqn:E2; [apply Z.eqb_eq in E2; lia|].
      inversion H; subst. exists a. split; [reflexivity|]. split; [change (Irel (a_cert a) (relkey s2)); now rewrite G8|].
      split; [reflexivity|]. unfold RcS. cbn [set_badcmds set_comstate comstate mailfrom rcpts rcptcount goodrcpt].
      rewrite G1, G2, G3, G4, G5. exact HR.
  - (* 1 QUIT *)
    inversion H; subst. exists a. split; [reflexivity|]. split; [exact HI|]. simpl. discriminate.
  - (* 2 RSET *)
    apply Z.eqb_eq in Hent. subst st.
    destruct (N.leb 8 (comstate s)) eqn:E8.
    + destruct (boundary_spec _ _ HRI) as (ab & Hstep & Htx & Hst & Hphb & [HRb HIb] & Hfree1 & Hfree2).
      assert (Hpos : (0 <? Z.of_N (helo_state (esmtp s)))%Z = true) by (unfold helo_state; destruct (esmtp s); reflexivity).
      rewrite Hpos in H. inversion H; subst. exists ab.
      split; [cbn [trace_run]; rewrite Hstep; reflexivity|]. split; [exact HIb|].
      split; [reflexivity|]. unfold RcS. cbn [set_badcmds set_comstate comstate mailfrom rcpts rcptcount goodrcpt].
      rewrite N2Z.id.
      assert (Hne : a_phase a <> PInit).
      { intros E. destruct HR as (_ & _ & _ & Hph & _). rewrite E in Hph. rewrite Hph in E8. discriminate. }
      destruct HRb as (Hn & Hl & Hg & Hph & Htxb). unfold Rc. repeat split; auto.
      rewrite Hphb in *. destruct (a_phase a); try congruence; unfold helo_state; destruct (esmtp s); auto.
    + inversion H; subst. exists a. split; [reflexivity|]. split; [exact HI|]. split; [reflexivity|].
      unfold RcS. cbn [set_badcmds set_comstate comstate mailfrom rcpts rcptcount goodrcpt].
      assert (E1 : comstate s = 1%N).
      { destruct Hcs as [E|[E|[E|[E|E]]]]; rewrite E in E8; try discriminate; exact E. }
      change (Z.to_N 1) with 1%N. rewrite <- E1. exact HR.
  - (* 3 HELO *)
    apply andb_true_iff in Hent as [Hst Hi]. apply Z.eqb_eq in Hst. apply Nat.eqb_eq in Hi. subst st i.
    destruct (boundary_spec _ _ HRI) as (ab & Hstep & Htx & Hst & Hphb & [HRb HIb] & Hfree1 & Hfree2).
    destruct (o_helo o (skipn 5 l)).
    + inversion H; subst. eexists. split; [cbn [trace_run]; rewrite Hstep; reflexivity|].
      split; [exact HIb|]. split; [reflexivity|].
      unfold RcS. cbn [set_badcmds set_comstate comstate mailfrom rcpts rcptcount goodrcpt].
      unfold Rc. cbn [a_stored a_phase a_txn length good map filter]. repeat split; auto.
    + inversion H; subst. exists ab. split; [cbn [trace_run]; rewrite Hstep; reflexivity|].
      split; [exact HIb|]. split; [reflexivity|].
      unfold RcS. cbn [comstate mailfrom rcpts rcptcount goodrcpt]. exact HRb.
  - (* 4 EHLO *)
    apply andb_true_iff in Hent as [Hst Hi]. apply Z.eqb_eq in Hst. apply Nat.eqb_eq in Hi. subst st i.
    destruct (boundary_spec _ _ HRI) as (ab & Hstep & Htx & Hst & Hphb & [HRb HIb] & Hfree1 & Hfree2).
    destruct (o_helo o (skipn 5 l)).
    + inversion H; subst. eexists. split; [cbn [trace_run]; rewrite Hstep; reflexivity|].
      split; [exact HIb|]. split; [reflexivity|].
      unfold RcS. cbn [set_badcmds set_comstate comstate mailfrom rcpts rcptcount goodrcpt].
      unfold Rc. cbn [a_stored a_phase a_txn length good map filter]. repeat split; auto.
    + inversion H; subst. exists ab. split; [cbn [trace_run]; rewrite Hstep; reflexivity|].
      split; [exact HIb|]. split; [reflexivity|exact HRb].
  - (* 5 MAIL *)
    apply andb_true_iff in Hent as [Hent Hi]. apply andb_true_iff in Hent as [Hm Hst].
    apply N.eqb_eq in Hm. apply Z.eqb_eq in Hst. apply Nat.eqb_eq in Hi. subst mask st i.
    assert (Hc : comstate s = 8%N \/ comstate s = 16%N).
    { destruct Hcs as [E|[E|[E|[E|E]]]]; rewrite E in Emask; auto; exfalso; apply Emask; reflexivity. }
    destruct (h_from o s (skipn (length name) l) (length l)) as [[e h'] s'] eqn:Eh.
    destruct (h_from_spec _ _ _ _ _ _ _ HRI HA Hc Eh) as (a' & Htr & Hqu & HI' & Hres).
    destruct h'; inversion H; subst;
      exists a'; (split; [exact Htr|]); (split; [exact HI'|]);
      try (split; [exact Hqu|exact Hres]); try (split; [right; exact Hqu|exact Hres]); try (rewrite Hqu; discriminate).
  - (* 6 RCPT *)
    apply andb_true_iff in Hent as [Hent Hi]. apply andb_true_iff in Hent as [Hm Hst].
    apply N.eqb_eq in Hm. apply Z.eqb_eq in Hst. apply Nat.eqb_eq in Hi. subst mask st i.
    assert (Hc : comstate s = 32%N \/ comstate s = 64%N).
    { destruct Hcs as [E|[E|[E|[E|E]]]]; rewrite E in Emask; auto; exfalso; apply Emask; reflexivity. }
    destruct (h_rcpt o s (skipn (length name) l)) as [[e h'] s'] eqn:Eh.
    destruct (h_rcpt_spec _ _ _ _ _ _ HRI HA Hc Eh) as (a' & Htr & Hqu & HI' & Hres).
    destruct h'; inversion H; subst;
      exists a'; (split; [exact Htr|]); (split; [exact HI'|]);
      try (split; [exact Hqu|exact Hres]); try (split; [right; exact Hqu|exact Hres]); try (rewrite Hqu; discriminate).
  - (* 7 DATA *)
    apply N.eqb_eq in Hent. subst mask.
    assert (Hc : comstate s = 64%N).
    { destruct Hcs as [E|[E|[E|[E|E]]]]; rewrite E in Emask; auto; exfalso; apply Emask; reflexivity. }
    destruct (h_data f o s) as [[e h'] s'] eqn:Eh.
    destruct (h_data_spec _ _ _ _ _ _ HRI Hc Eh) as (a' & Htr & HI' & Hres).
    destruct h'; try (inversion H; subst; exists a'; (split; [exact Htr|]); (split; [exact HI'|]); exact Hres).
    + (* success: the state column was set by queue_result *)
      assert (Hpos : (0 <? Z.of_N (helo_state (esmtp s')))%Z = true) by (unfold helo_state; destruct (esmtp s'); reflexivity).
      rewrite Hpos in H. inversion H; subst. exists a'. split; [exact Htr|]. split; [exact HI'|].
      destruct Hres as (Hqu & Hres). split; [exact Hqu|].
      unfold RcS. cbn [set_badcmds set_comstate comstate mailfrom rcpts rcptcount goodrcpt]. rewrite N2Z.id. exact Hres.
    + inversion H; subst. exists a'. split; [exact Htr|]. split; [exact HI'|].
      destruct Hres as (Hqu & Hres). split; [left; exact Hqu|exact Hres].
    + inversion H; subst. exists a'. split; [exact Htr|]. split; [exact HI'|].
      destruct Hres as (Hqu & Hres). split; [left; exact Hqu|exact Hres].
  - (* 8 STARTTLS *)
    destruct (negb (esmtp s)); inversion H; subst; apply post_quiet_keep; first [exact HRI|reflexivity|discriminate].
  - (* 9 AUTH *)
    apply andb_true_iff in Hent as [Hm16 Hent]. apply N.eqb_eq in Hm16. subst mask.
    assert (Hc16 : comstate s = 16%N).
    { destruct Hcs as [E|[E|[E|[E|E]]]]; rewrite E in Emask; auto; exfalso; apply Emask; reflexivity. }
    assert (Hesm : a_esmtp a = true) by (apply (proj2 HK); exact Hc16).
    apply Z.ltb_lt in Hent.
    destruct (authed s || negb (o_authperm o)).
    { inversion H; subst. apply post_quiet_keep; [exact HRI|reflexivity|discriminate]. }
    destruct (o_auth o (skipn 5 l)) as [nm|c|].
    + destruct (Z.ltb 0 st) eqn:E1; [apply Z.ltb_lt in E1; lia|].
      destruct (Z.eqb st 0) eqn:E2; [apply Z.eqb_eq in E2; lia|].
      inversion H; subst. eexists. split; [cbn [trace_run trace_step]; rewrite Hesm; reflexivity|].
      split; [exact HI|]. split; [reflexivity|]. exact HR.
    + inversion H; subst. apply post_quiet_keep; [exact HRI|reflexivity|discriminate].
    + inversion H; subst. exists a. split; [reflexivity|]. split; [exact HI|]. simpl. discriminate.
  - (* 10 VRFY *)
    apply Z.ltb_lt in Hent.
    destruct (Z.ltb 0 st) eqn:E1; [apply Z.ltb_lt in E1; lia|].
    destruct (Z.eqb st 0) eqn:E2; [apply Z.eqb_eq in E2; lia|].
    inversion H; subst. exists a. split; [reflexivity|]. split; [exact HI|]. split; [reflexivity|exact HR].
  - (* 11 BDAT: not in this build *)
    inversion H; subst. apply post_quiet_keep; [exact HRI|reflexivity|discriminate].
  - (* 12 POST *)
    destruct (N.eqb (comstate s) 1 && bytes_eqb (sub l 4 10) [32; 47; 32; 72; 84; 84; 80; 47; 49; 46]%N).
    + inversion H; subst. exists a. split; [reflexivity|]. split; [exact HI|]. simpl. discriminate.
    + inversion H; subst. apply post_quiet_keep; [exact HRI|reflexivity|discriminate].
  - inversion H; subst. apply post_quiet_keep; [exact HRI|reflexivity|discriminate].
Qed.

(** ---------- one round, then all rounds ---------- *)
Lemma on_error_first s h ev so : on_error s h = (ev, so) -> h = HE2BIG \/ h = HEMSGSIZE ->
  queue_run o ev QFailed = Some QIdle.
Proof.
  unfold on_error. intros H Hh. destruct (Nat.ltb MAXBADCMDS (badcmds s)).
  - inversion H; subst. reflexivity.
  - destruct Hh as [-> | ->]; inversion H; subst; reflexivity.
Qed.

Lemma R_set_rd s r a : R s a -> R (set_rd s r) a.
Proof. intros H. exact H. Qed.

Lemma step_spec f s a evs so : R s a -> a_auth a = authed s -> K s (a_esmtp a) -> step f o s = (evs, so) ->
  exists a', trace_run o evs a = Some a' /\ queue_run o evs QIdle <> None
    /\ (forall s', so = Some s' -> R s' a' /\ queue_run o evs QIdle = Some QIdle).
Proof.
  intros HR HA HK H. unfold step in H.
  destruct (net_read (rd s)) as [it r'].
  pose proof (R_set_rd s r' a HR) as HR0.
  destruct it as [l| | | |].
  - destruct (dispatch f o (set_rd s r') l) as [[e h] s1] eqn:Ed.
    destruct (dispatch_spec _ _ _ _ _ _ _ HR0 HA HK Ed) as (a' & Htr & HI & Hpost).
    assert (Hgen : forall ev so', on_error s1 h = (ev, so') ->
              (queue_run o e QIdle = Some QIdle \/ (queue_run o e QIdle = Some QFailed /\ (h = HE2BIG \/ h = HEMSGSIZE))) ->
              RcS (comstate s1) s1 a' ->
              exists a'', trace_run o (e ++ ev) a = Some a'' /\ queue_run o (e ++ ev) QIdle <> None
                /\ (forall s', so' = Some s' -> R s' a'' /\ queue_run o (e ++ ev) QIdle = Some QIdle)).
    { intros ev so' Hoe Hq HRc. destruct (on_error_spec _ _ _ _ Hoe) as (Hquiet & _ & Hkeep).
      exists a'. rewrite trace_run_app, Htr, (quiet_trace _ a' Hquiet). split; [reflexivity|].
      assert (Hqf : queue_run o (e ++ ev) QIdle = Some QIdle).
      { rewrite queue_run_app. destruct Hq as [Hq|[Hq Hh]]; rewrite Hq.
        - now apply quiet_queue_idle.
        - exact (on_error_first _ _ _ _ Hoe Hh). }
      split; [rewrite Hqf; discriminate|].
      intros s' Hs. split; [|exact Hqf]. apply (Hkeep s' Hs). split; [exact HRc|exact HI]. }
    destruct h; try (destruct (on_error s1 _) as [ev so'] eqn:Eoe; inversion H; subst;
                     destruct Hpost as (Hq & HRc); apply (Hgen _ _ eq_refl); [left; exact Hq|exact HRc]).
    + (* H0 *)
      inversion H; subst. destruct Hpost as (Hq & HRc). exists a'.
      assert (Hq' : queue_run o (e ++ [Note NBadReset]) QIdle = Some QIdle) by (rewrite queue_run_app, Hq; reflexivity).
      split; [rewrite trace_run_app, Htr; reflexivity|].
      split; [rewrite Hq'; discriminate|]. intros s' Hs. inversion Hs; subst. split; [split; [exact HRc|exact HI]|exact Hq'].
    + destruct (on_error s1 HE2BIG) as [ev so'] eqn:Eoe. inversion H; subst.
      destruct Hpost as ([Hq|Hq] & HRc); apply (Hgen _ _ eq_refl); auto.
    + destruct (on_error s1 HEMSGSIZE) as [ev so'] eqn:Eoe. inversion H; subst.
      destruct Hpost as ([Hq|Hq] & HRc); apply (Hgen _ _ eq_refl); auto.
    + (* HEXIT *)
      inversion H; subst. exists a'. split; [exact Htr|]. split; [exact Hpost|]. discriminate.
  - destruct (on_error_spec _ _ _ _ H) as (Hquiet & _ & Hkeep).
    exists a. rewrite (quiet_trace _ a Hquiet), (quiet_queue_idle _ Hquiet).
    split; [reflexivity|]. split; [discriminate|]. intros s' Hs. split; [apply (Hkeep s' Hs); exact HR0|reflexivity].
  - destruct (on_error_spec _ _ _ _ H) as (Hquiet & _ & Hkeep).
    exists a. rewrite (quiet_trace _ a Hquiet), (quiet_queue_idle _ Hquiet).
    split; [reflexivity|]. split; [discriminate|]. intros s' Hs. split; [apply (Hkeep s' Hs); exact HR0|reflexivity].
  - inversion H; subst. exists a. split; [reflexivity|]. split; [discriminate|]. discriminate.
  - inversion H; subst. exists a. split; [reflexivity|]. split; [simpl; discriminate|]. discriminate.
Qed.

Lemma serve_spec fuel : forall s a, R s a -> a_auth a = authed s -> K s (a_esmtp a) ->
  trace_run o (serve fuel o s) a <> None /\ queue_run o (serve fuel o s) QIdle <> None.
Proof.
  induction fuel as [|f IH]; intros s a HR HA HK; cbn [serve]; [split; discriminate|].
  destruct (step f o s) as [ev so] eqn:Es.
  destruct (step_spec _ _ _ _ _ HR HA HK Es) as (a' & Htr & Hq & Hnext).
  rewrite trace_run_app, queue_run_app, Htr.
  destruct so as [s'|].
  - destruct (Hnext s' eq_refl) as (HR' & Hq'). rewrite Hq'. apply IH; [exact HR'| |].
    + (* "authenticated" stays in step: both sides change exactly at an AUTH note *)
      rewrite (trace_run_auth o _ _ _ Htr), (step_auth o _ _ _ _ Es), HA. reflexivity.
    + (* "the last accepted greeting was EHLO" follows the greeting notes *)
      rewrite (trace_run_esm o _ _ _ Htr). exact (step_esm o _ _ _ _ _ Es HK).
  - split; [discriminate|]. destruct (queue_run o ev QIdle); [discriminate|congruence].
Qed.

Theorem session_trace_ok chunks : trace_ok o (run_session o chunks) /\ queue_ok o (run_session o chunks).
Proof.
  unfold trace_ok, queue_ok, run_session. cbn [trace_run trace_step queue_run queue_step].
  apply serve_spec; [split|reflexivity|split; discriminate].
  - unfold init_state, Rc, a_init. cbn. repeat split; auto.
  - unfold Irel, relkey, init_state. cbn. split; [discriminate|congruence].
Qed.

(** ---------- readable corollaries ---------- *)
Lemma trace_run_prefix p q a : trace_run o (p ++ q) a <> None -> exists a', trace_run o p a = Some a'.
Proof.
  rewrite trace_run_app. destruct (trace_run o p a) as [a'|]; [eauto|congruence].
Qed.

(** every hand-off carries exactly the open transaction: the sender of the last accepted MAIL FROM and the
    recipients accepted (and not withdrawn) since, in order *)
Theorem handoff_is_open_transaction chunks pre env msg post :
  run_session o chunks = pre ++ Handoff env msg :: post ->
  exists a f rs, trace_run o pre a_init = Some a /\ a_txn a = Some (f, rs) /\ env = env_of (o_liphost o) (Some (f, rs)).
Proof.
  intros E. destruct (session_trace_ok chunks) as [Ht _]. unfold trace_ok in Ht. rewrite E in Ht.
  destruct (trace_run_prefix pre (Handoff env msg :: post) a_init Ht) as (a & Ha).
  rewrite trace_run_app, Ha in Ht. cbn [trace_run trace_step] in Ht.
  destruct (a_txn a) as [[f rs]|] eqn:Et; [|congruence].
  destruct (bytes_eqb env (env_of (o_liphost o) (Some (f, rs)))) eqn:Eb; [|congruence].
  apply bytes_eqb_eq in Eb. exists a, f, rs. auto.
Qed.

(** no open relay: a recipient outside rcpthosts is accepted only if the relay list matched the client, or an AUTH
    succeeded earlier on the same connection (a note [NAuth name], name not empty, stands before it in the trace), or
    tls_verify() accepted a client certificate earlier on the same connection (a note [NCert name] stands before it) *)
Theorem remote_rcpt_needs_relay chunks pre addr post :
  run_session o chunks = pre ++ Note (NRcpt addr RNotLocal) :: post ->
  (0 < o_relay o)%Z \/ has_auth pre = true \/ has_cert pre = true.
Proof.
  intros E. destruct (session_trace_ok chunks) as [Ht _]. unfold trace_ok in Ht. rewrite E in Ht.
  destruct (trace_run_prefix pre _ a_init Ht) as (a & Ha).
  rewrite trace_run_app, Ha in Ht. cbn [trace_run trace_step] in Ht.
  pose proof (trace_run_auth o _ _ _ Ha) as Hau. cbn [a_auth a_init orb] in Hau.
  pose proof (trace_run_cert o _ _ _ Ha) as Hce. cbn [a_cert a_init orb] in Hce.
  destruct (a_txn a) as [[f rs]|]; [|congruence].
  destruct (match f, a_stored a with [], S _ => true | _, _ => false end); [congruence|].
  destruct (Nat.leb MAXRCPT (a_stored a)); [congruence|].
  destruct (Z.ltb 0 (o_relay o)) eqn:Er; [apply Z.ltb_lt in Er; left; exact Er|].
  destruct (a_auth a) eqn:Eau; [right; left; now rewrite <- Hau|].
  destruct (a_cert a) eqn:Ece; [right; right; now rewrite <- Hce|]. simpl in Ht. congruence.
Qed.

(** the submission port takes mail only from entitled clients: MAIL FROM is accepted there only if the relay list matched
    the client, an AUTH succeeded earlier on the same connection, or a client certificate was accepted earlier on it *)
Theorem submission_mail_needs_entitlement chunks pre f post :
  o_submission o = true -> run_session o chunks = pre ++ Note (NMail f) :: post ->
  (0 < o_relay o)%Z \/ has_auth pre = true \/ has_cert pre = true.
Proof.
  intros Hs E. destruct (session_trace_ok chunks) as [Ht _]. unfold trace_ok in Ht. rewrite E in Ht.
  destruct (trace_run_prefix pre _ a_init Ht) as (a & Ha).
  rewrite trace_run_app, Ha in Ht. cbn [trace_run trace_step] in Ht.
  pose proof (trace_run_auth o _ _ _ Ha) as Hau. cbn [a_auth a_init orb] in Hau.
  pose proof (trace_run_cert o _ _ _ Ha) as Hce. cbn [a_cert a_init orb] in Hce.
  destruct (a_phase a); try congruence. rewrite Hs in Ht. cbn [andb] in Ht.
  destruct (Z.ltb 0 (o_relay o)) eqn:Er; [apply Z.ltb_lt in Er; left; exact Er|].
  destruct (a_auth a) eqn:Eau; [right; left; now rewrite <- Hau|].
  destruct (a_cert a) eqn:Ece; [right; right; now rewrite <- Hce|]. simpl in Ht. congruence.
Qed.

(** AUTH is accepted only in ESMTP mode: the last greeting accepted before it was an EHLO (C09) *)
Theorem auth_needs_ehlo chunks pre n post :
  run_session o chunks = pre ++ Note (NAuth n) :: post -> esm_run pre false = true.
Proof.
  intros E. destruct (session_trace_ok chunks) as [Ht _]. unfold trace_ok in Ht. rewrite E in Ht.
  destruct (trace_run_prefix pre _ a_init Ht) as (a & Ha).
  rewrite trace_run_app, Ha in Ht. cbn [trace_run trace_step] in Ht.
  pose proof (trace_run_esm o _ _ _ Ha) as He. cbn [a_esmtp a_init] in He.
  destruct (a_esmtp a) eqn:Ee; [now rewrite <- He|]. cbn [negb] in Ht. congruence.
Qed.

(** a hand-off happens only for a qmail-queue invocation that accepted the message *)
Theorem handoff_needs_queue_success chunks pre env msg post :
  run_session o chunks = pre ++ Handoff env msg :: post ->
  exists k, queue_run o pre QIdle = Some (QData k) /\ o_qq o k = QQ_ok.
Proof.
  intros E. destruct (session_trace_ok chunks) as [_ Hq]. unfold queue_ok in Hq. rewrite E in Hq.
  rewrite queue_run_app in Hq. destruct (queue_run o pre QIdle) as [q|] eqn:Ep; [|congruence].
  cbn [queue_run queue_step] in Hq. destruct q; try congruence.
  destruct (o_qq o k) eqn:Ek; try congruence. exists k. auto.
Qed.

(** DATA is accepted (354) only for an invocation of qmail-queue that could be started: with pipe()/fork() failing, or the
    child gone when queue_init() looks, there is no 354 *)
Theorem data_needs_queue_start chunks pre k post :
  run_session o chunks = pre ++ Note (NData k) :: post -> o_qq o k <> QQ_nostart.
Proof.
  intros E. destruct (session_trace_ok chunks) as [_ Hq]. unfold queue_ok in Hq. rewrite E in Hq.
  rewrite queue_run_app in Hq. destruct (queue_run o pre QIdle) as [q|] eqn:Ep; [|congruence].
  cbn [queue_run queue_step] in Hq. intros Hn. rewrite Hn in Hq. cbn [qq_nostart] in Hq.
  destruct q; congruence.
Qed.

(** ... and what happens instead: smtp_data, arrived at queue_init() with an invocation that cannot be started, answers 451 and
    leaves everything as it was (sender, recipients, command state: the client may send DATA again, which is a new invocation) *)
Theorem queue_not_started f s s2 evs h s' :
  (goodrcpt s =? 0) = false -> sync_pipelining f s = (None, s2) -> o_qq o (qcount s2) = QQ_nostart ->
  h_data f o s = (evs, h, s') ->
  evs = [Reply 451] /\ h = HEDONE /\ mailfrom s' = mailfrom s2 /\ rcpts s' = rcpts s2 /\ rcptcount s' = rcptcount s2
  /\ goodrcpt s' = goodrcpt s2 /\ comstate s' = comstate s2 /\ rd s' = rd s2 /\ qcount s' = S (qcount s2).
Proof.
  intros Hg Hsp Hq H. unfold h_data in H. rewrite Hg, Hsp, Hq in H. cbn [qq_nostart] in H.
  inversion H; subst. repeat split.
Qed.

(** never more than MAXRCPT recipients are stored: a recipient is accepted only below the limit *)
Theorem rcpt_below_limit chunks pre addr cls post :
  run_session o chunks = pre ++ Note (NRcpt addr cls) :: post ->
  exists a, trace_run o pre a_init = Some a /\ a_stored a < MAXRCPT.
Proof.
  intros E. destruct (session_trace_ok chunks) as [Ht _]. unfold trace_ok in Ht. rewrite E in Ht.
  destruct (trace_run_prefix pre _ a_init Ht) as (a & Ha).
  rewrite trace_run_app, Ha in Ht. cbn [trace_run trace_step] in Ht.
  exists a. split; [exact Ha|].
  destruct (a_txn a) as [[f rs]|]; [|congruence].
  destruct (match f, a_stored a with [], S _ => true | _, _ => false end); [congruence|].
  destruct (Nat.leb MAXRCPT (a_stored a)) eqn:El; [congruence|]. now apply Nat.leb_gt.
Qed.

(** MAIL FROM with a SIZE parameter above control/databytes is refused before any data is sent *)
Theorem mail_size_checked s arg len evs s' : h_from o s arg len = (evs, H0, s') ->
  o_databytes o = 0%N \/ (thisbytes s' <= o_databytes o)%N.
Proof.
  unfold h_from. intros H.
  destruct (o_addr o false arg) as [| | |addr more cls]; try discriminate;
    (match type of H with context [subm_gate o ?sc] => destruct (subm_gate o sc) as [[res s1] pre] eqn:Eg end);
    (destruct res as [al|hf]; [|exfalso; apply (subm_gate_fail _ _ _ _ _ Eg); congruence]);
    (destruct (negb al); [discriminate|]); try discriminate.
  match type of H with context [if ?b then None else more] => destruct (if b then None else more) end; try discriminate.
  destruct (match more with Some m => o_ext o m | None => Ext_ok 0 0 None end) as [tb bonus body8| |]; try discriminate.
  destruct (Nat.ltb (CMD_LINE_MAX + bonus) len); try discriminate.
  destruct (negb (N.eqb (o_databytes o) 0) && N.ltb (o_databytes o) tb) eqn:E; try discriminate.
  inversion H; subst. cbn.
  apply andb_false_iff in E as [E|E].
  - left. apply negb_false_iff in E. now apply N.eqb_eq.
  - right. now apply N.ltb_ge.
Qed.

End Proofs.

(** Proofs for C12: the model of getsetting()/smtp_rcpt() computes the documented functions. *)
From Qv Require Import Common.Bytes Gen.GenFilters Model.Filters Spec.FiltersSpec.
Local Open Scope bool_scope.

(** generated constants are unfolded only here, so a changed constant breaks the obligation that needs it *)
Ltac consts := unfold FR_ERROR, FR_PASSED, FR_DENIED_WITH_MESSAGE, FR_DENIED_UNSPECIFIC, FR_DENIED_NOUSER,
  FR_DENIED_TEMPORARY, FR_WHITELISTED, CONFIG_NONE, CONFIG_USER, CONFIG_DOMAIN, CONFIG_GLOBAL, USERCONF_GLOBAL,
  GETSETTING_FLAGS, GETSETTINGGLOBAL_FLAGS, STRTOL_BASE, VALUE_SEP in *.

(* ------------------------------------------------------------------------------------------------ *)
(** * A. one level: checkconfig finds what the level says *)

Lemma is_digit_not_space c : is_digit c = true -> is_space c = false.
Proof.
  unfold is_digit, is_space. intros H. apply andb_true_iff in H as [H1 H2].
  apply N.leb_le in H1. apply N.leb_le in H2.
  repeat (apply orb_false_iff; split); apply N.eqb_neq; lia.
Qed.

Lemma digits_all d : forall acc, forallb is_digit d = true -> digits d acc = (dec_value d acc, []).
Proof.
  induction d as [|c d IH]; intros acc H; simpl in *; [reflexivity|].
  apply andb_true_iff in H as [Hc Hd]. rewrite Hc. consts. apply IH, Hd.
Qed.

Lemma is_digit_range c : is_digit c = true -> (48 <= c <= 57)%N.
Proof. unfold is_digit. intros H. apply andb_true_iff in H as [H1 H2]. apply N.leb_le in H1. apply N.leb_le in H2. lia. Qed.

(** an integer in the documented syntax is read by strtol() completely and exactly *)
Lemma strtol_doc v z : doc_integer v = Some z -> strtol v = (z, [], false).
Proof.
  unfold doc_integer. intros H.
  destruct v as [|c r]; [discriminate|].
  destruct (N.eqb c 45) eqn:Eminus.
  - (* '-' digits *)
    apply N.eqb_eq in Eminus. subst c.
    destruct r as [|d r']; [discriminate|].
    destruct (forallb is_digit (d :: r')) eqn:Hd; [|discriminate].
    destruct ((- dec_value (d :: r') 0 <=? 9223372036854775807)%Z && (-9223372036854775808 <=? - dec_value (d :: r') 0)%Z) eqn:Hr; [|discriminate].
    inversion H; subst z; clear H.
    apply andb_true_iff in Hr as [Hr1 Hr2]. apply Z.leb_le in Hr1. apply Z.leb_le in Hr2.
    unfold strtol. cbn [skip_space]. change (is_space 45) with false. cbv iota.
    change (N.eqb 45 45) with true. cbv iota.
    pose proof Hd as Hd'. cbn [forallb] in Hd'. apply andb_true_iff in Hd' as [Hd1 _]. rewrite Hd1.
    rewrite (digits_all _ 0%Z Hd).
    unfold LONG_MAX, LONG_MIN.
    destruct (9223372036854775807 <? - dec_value (d :: r') 0)%Z eqn:E1; [apply Z.ltb_lt in E1; lia|].
    destruct (- dec_value (d :: r') 0 <? -9223372036854775808)%Z eqn:E2; [apply Z.ltb_lt in E2; lia|].
    reflexivity.
  - (* digits *)
    destruct (forallb is_digit (c :: r)) eqn:Hd; [|discriminate].
    destruct ((dec_value (c :: r) 0 <=? 9223372036854775807)%Z && (-9223372036854775808 <=? dec_value (c :: r) 0)%Z) eqn:Hr; [|discriminate].
    inversion H; subst z; clear H.
    apply andb_true_iff in Hr as [Hr1 Hr2]. apply Z.leb_le in Hr1. apply Z.leb_le in Hr2.
    pose proof Hd as Hd'. cbn [forallb] in Hd'. apply andb_true_iff in Hd' as [Hd1 _].
    pose proof (is_digit_range _ Hd1) as Hrange.
    unfold strtol. cbn [skip_space]. rewrite (is_digit_not_space _ Hd1).
    rewrite Eminus.
    destruct (N.eqb c 43) eqn:Eplus; [apply N.eqb_eq in Eplus; lia|].
    rewrite Hd1. rewrite (digits_all _ 0%Z Hd).
    unfold LONG_MAX, LONG_MIN.
    destruct (9223372036854775807 <? dec_value (c :: r) 0)%Z eqn:E1; [apply Z.ltb_lt in E1; lia|].
    destruct (dec_value (c :: r) 0 <? -9223372036854775808)%Z eqn:E2; [apply Z.ltb_lt in E2; lia|].
    reflexivity.
Qed.

(** how a documented meaning shows in checkconfig()'s return value and errno *)
Definition says_rel (s : says) (x : Z * cerrno) : Prop :=
  match s with
  | On v => fst x = v /\ (0 < v)%Z /\ snd x = E0
  | Off => (fst x < 0)%Z /\ snd x = E0
  | Unset => fst x = 0%Z /\ snd x = E0
  | Bad => True
  end.

Lemma says_of_value_rel z : says_rel (says_of_value z) (z, E0).
Proof.
  unfold says_of_value.
  destruct (0 <? z)%Z eqn:E1; [apply Z.ltb_lt in E1; simpl; auto|].
  destruct (z <? 0)%Z eqn:E2; [apply Z.ltb_lt in E2; simpl; auto|].
  apply Z.ltb_ge in E1. apply Z.ltb_ge in E2. simpl. split; [lia|reflexivity].
Qed.

Lemma firstn_skipn_split {A} n (l : list A) : l = firstn n l ++ skipn n l.
Proof. symmetry. apply firstn_skipn. Qed.

Lemma firstn_S_app {A} n (l : list A) c r : skipn n l = c :: r -> firstn (S n) l = firstn n l ++ [c].
Proof.
  revert l. induction n as [|n IH]; intros l H; simpl in *.
  - subst l. reflexivity.
  - destruct l as [|x l]; [discriminate|]. simpl. f_equal. apply IH, H.
Qed.

Lemma skipn_S {A} n (l : list A) c r : skipn n l = c :: r -> skipn (S n) l = r.
Proof.
  revert l. induction n as [|n IH]; intros l H; simpl in *.
  - subst l. reflexivity.
  - destruct l as [|x l]; [discriminate|]. apply IH, H.
Qed.

Lemma app_inv_len {A} (a b c d : list A) : length a = length c -> a ++ b = c ++ d -> a = c /\ b = d.
Proof.
  revert c. induction a as [|x a IH]; intros [|y c] Hl H; simpl in *; try discriminate; auto.
  inversion H; subst. destruct (IH c) as [Ha Hb]; [lia|assumption|]. subst. auto.
Qed.

(** one entry: either checkconfig() passes over it and the documentation calls it unrelated, or both agree *)
Lemma checkconfig_step key e rest :
  match entry_says key e with
  | None => checkconfig (e :: rest) key = checkconfig rest key
  | Some s => says_rel s (checkconfig (e :: rest) key)
  end.
Proof.
  unfold entry_says. cbn [checkconfig]. unfold has_prefix.
  destruct (bytes_eqb e key) eqn:Eeq.
  - (* the bare key *)
    apply bytes_eqb_eq in Eeq. subst e.
    rewrite firstn_all. replace (bytes_eqb key key) with true by (symmetry; apply bytes_eqb_eq; reflexivity).
    rewrite skipn_all. simpl. repeat split; lia.
  - destruct (bytes_eqb (firstn (length key) e) key) eqn:Epre.
    + apply bytes_eqb_eq in Epre.
      destruct (skipn (length key) e) as [|c v] eqn:Esk.
      * (* e = key: contradiction *)
        exfalso. rewrite (firstn_skipn_split (length key) e), Epre, Esk, app_nil_r in Eeq.
        assert (bytes_eqb key key = true) by (apply bytes_eqb_eq; reflexivity). congruence.
      * idtac.
        replace (length key + 1) with (S (length key)) by lia.
        rewrite (firstn_S_app _ _ _ _ Esk), Epre. rewrite (skipn_S _ _ _ _ Esk).
        consts.
        destruct (N.eqb c 61) eqn:Ec.
        -- apply N.eqb_eq in Ec. subst c.
           replace (bytes_eqb (key ++ [61%N]) (key ++ [61%N])) with true by (symmetry; apply bytes_eqb_eq; reflexivity).
           destruct (doc_integer v) as [z|] eqn:Ez; [|exact I].
           rewrite (strtol_doc _ _ Ez). apply says_of_value_rel.
        -- destruct (bytes_eqb (key ++ [c]) (key ++ [61%N])) eqn:E2; [|reflexivity].
           apply bytes_eqb_eq in E2. apply app_inv_head in E2. inversion E2; subst c. discriminate.
    + (* no prefix: the documentation must not see "key=" either *)
      destruct (bytes_eqb (firstn (length key + 1) e) (key ++ [61%N])) eqn:E2; [|reflexivity].
      exfalso. apply bytes_eqb_eq in E2.
      assert (Hf : firstn (length key) e = key).
      { replace (length key) with (Nat.min (length key) (length key + 1)) at 1 by lia.
        rewrite <- firstn_firstn. rewrite E2. rewrite firstn_app, firstn_all, Nat.sub_diag. simpl. apply app_nil_r. }
      rewrite Hf in Epre. assert (bytes_eqb key key = true) by (apply bytes_eqb_eq; reflexivity). congruence.
Qed.

Lemma checkconfig_says cfg key : says_rel (level_says cfg key) (checkconfig cfg key).
Proof.
  induction cfg as [|e rest IH].
  - simpl. auto.
  - pose proof (checkconfig_step key e rest) as H. cbn [level_says].
    destruct (entry_says key e) as [s|]; [exact H|]. rewrite H. exact IH.
Qed.

(* ------------------------------------------------------------------------------------------------ *)
(** * A'. three levels: getsetting() / getsettingglobal() *)

(** the model's (value, type, errno) fits a documented (value, origin); no claim where nothing is documented *)
Definition model_fits (x : Z * Z * cerrno) (d : option (Z * origin)) : Prop :=
  match d with
  | None => True
  | Some (v, o) => setting_value x = v /\ ((0 < v)%Z -> setting_type x = origin_code o)
  end.

Lemma getsetting_internal_doc uc dc gc key flags global :
  N.eqb (N.land flags USERCONF_GLOBAL) 0 = negb global ->
  model_fits (getsetting_internal uc dc gc key flags)
             (doc_setting global (level_says uc key) (level_says dc key) (level_says gc key)).
Proof.
  intros Hflags. unfold getsetting_internal.
  pose proof (checkconfig_says uc key) as Hu.
  pose proof (checkconfig_says dc key) as Hd.
  pose proof (checkconfig_says gc key) as Hg.
  destruct (checkconfig uc key) as [ru eu]. destruct (checkconfig dc key) as [rd ed]. destruct (checkconfig gc key) as [rg eg].
  rewrite Hflags.
  destruct (level_says uc key) as [|vu| |]; cbn [says_rel fst snd] in Hu; cbn [doc_setting].
  - (* user: unset *)
    destruct Hu as [Hu1 Hu2]. subst ru eu.
    change (0 <? 0)%Z with false. cbv iota.
    destruct (level_says dc key) as [|vd| |]; cbn [says_rel fst snd] in Hd.
    + destruct Hd as [Hd1 Hd2]. subst rd ed. change (0 <? 0)%Z with false. cbv iota.
      destruct global; cbn [negb].
      * destruct (level_says gc key) as [|vg| |]; cbn [says_rel fst snd] in Hg; cbn [model_fits].
        -- destruct Hg as [Hg1 Hg2]. subst rg eg. simpl. split; [reflexivity|lia].
        -- destruct Hg as [Hg1 [Hg2 Hg3]]. subst rg eg.
           destruct (vg <? 0)%Z eqn:E; [apply Z.ltb_lt in E; lia|]. simpl. consts. split; [reflexivity|reflexivity].
        -- destruct Hg as [Hg1 Hg2]. subst eg.
           destruct (rg <? 0)%Z eqn:E; [|apply Z.ltb_ge in E; lia]. simpl. split; [reflexivity|lia].
        -- exact I.
      * cbn [model_fits]. simpl. split; [reflexivity|lia].
    + destruct Hd as [Hd1 [Hd2 Hd3]]. subst rd ed.
      destruct (0 <? vd)%Z eqn:E; [|apply Z.ltb_ge in E; lia]. cbn [model_fits]. simpl. consts. split; reflexivity.
    + destruct Hd as [Hd1 Hd2]. subst ed.
      destruct (0 <? rd)%Z eqn:E; [apply Z.ltb_lt in E; lia|].
      destruct (rd <? 0)%Z eqn:E2; [|apply Z.ltb_ge in E2; lia]. cbn [model_fits]. simpl. split; [reflexivity|lia].
    + exact I.
  - destruct Hu as [Hu1 [Hu2 Hu3]]. subst ru eu.
    destruct (0 <? vu)%Z eqn:E; [|apply Z.ltb_ge in E; lia]. cbn [model_fits]. simpl. consts. split; reflexivity.
  - destruct Hu as [Hu1 Hu2]. subst eu.
    destruct (0 <? ru)%Z eqn:E; [apply Z.ltb_lt in E; lia|].
    destruct (ru <? 0)%Z eqn:E2; [|apply Z.ltb_ge in E2; lia]. cbn [model_fits]. simpl. split; [reflexivity|lia].
  - exact I.
Qed.

Lemma getsetting_doc uc dc gc key :
  model_fits (getsetting uc dc gc key) (doc_setting false (level_says uc key) (level_says dc key) (level_says gc key)).
Proof. apply getsetting_internal_doc. consts. reflexivity. Qed.

Lemma getsettingglobal_doc uc dc gc key :
  model_fits (getsettingglobal uc dc gc key) (doc_setting true (level_says uc key) (level_says dc key) (level_says gc key)).
Proof. apply getsetting_internal_doc. consts. reflexivity. Qed.

Lemma doc_setting_noglobal u d g g' : doc_setting false u d g = doc_setting false u d g'.
Proof. destruct u, d; reflexivity. Qed.

(** the property's wording, clause by clause *)
Lemma inherit_clauses uc dc gc key :
  (* the user's setting wins, whatever domain and global say *)
  (forall v, level_says uc key = On v ->
     setting_value (getsetting uc dc gc key) = v /\ setting_type (getsetting uc dc gc key) = 1%Z /\
     setting_value (getsettingglobal uc dc gc key) = v /\ setting_type (getsettingglobal uc dc gc key) = 1%Z) /\
  (* -1 at the user level switches off without inheriting *)
  (level_says uc key = Off ->
     setting_value (getsetting uc dc gc key) = 0%Z /\ setting_value (getsettingglobal uc dc gc key) = 0%Z) /\
  (* nothing at the user level: the domain's setting is taken, whatever global says *)
  (forall v, level_says uc key = Unset -> level_says dc key = On v ->
     setting_value (getsetting uc dc gc key) = v /\ setting_type (getsetting uc dc gc key) = 2%Z /\
     setting_value (getsettingglobal uc dc gc key) = v /\ setting_type (getsettingglobal uc dc gc key) = 2%Z) /\
  (* -1 at the domain level switches off without inheriting from global *)
  (level_says uc key = Unset -> level_says dc key = Off ->
     setting_value (getsetting uc dc gc key) = 0%Z /\ setting_value (getsettingglobal uc dc gc key) = 0%Z) /\
  (* nothing at user and domain level: global is taken where the lookup is a global one, else the setting is off *)
  (level_says uc key = Unset -> level_says dc key = Unset ->
     setting_value (getsetting uc dc gc key) = 0%Z /\
     (forall v, level_says gc key = On v ->
        setting_value (getsettingglobal uc dc gc key) = v /\ setting_type (getsettingglobal uc dc gc key) = 4%Z) /\
     (level_says gc key = Off \/ level_says gc key = Unset -> setting_value (getsettingglobal uc dc gc key) = 0%Z)).
Proof.
  pose proof (getsetting_doc uc dc gc key) as H1. pose proof (getsettingglobal_doc uc dc gc key) as H2.
  pose proof (checkconfig_says uc key) as Su. pose proof (checkconfig_says dc key) as Sd. pose proof (checkconfig_says gc key) as Sg.
  split; [|split; [|split; [|split]]].
  - intros v Hu. rewrite Hu in *. cbn in H1, H2, Su. destruct Su as [_ [Hpos _]]. destruct H1 as [A B]. destruct H2 as [C D].
    repeat split; auto.
  - intros Hu. rewrite Hu in *. cbn in H1, H2. destruct H1 as [A B]. destruct H2 as [C D]. split; assumption.
  - intros v Hu Hd. rewrite Hu, Hd in *. cbn in H1, H2, Sd. destruct Sd as [_ [Hpos _]]. destruct H1 as [A B]. destruct H2 as [C D].
    repeat split; auto.
  - intros Hu Hd. rewrite Hu, Hd in *. cbn in H1, H2. destruct H1 as [A B]. destruct H2 as [C D]. split; assumption.
  - intros Hu Hd. rewrite Hu, Hd in *. cbn in H1. destruct H1 as [A B]. split; [assumption|]. split.
    + intros v Hg. rewrite Hg in *. cbn in H2, Sg. destruct Sg as [_ [Hpos _]]. destruct H2 as [C D]. split; auto.
    + intros [Hg|Hg]; rewrite Hg in *; cbn in H2; destruct H2 as [C D]; assumption.
Qed.

(* ------------------------------------------------------------------------------------------------ *)
(** * B. the filter loop of smtp_rcpt computes the documented combination *)

(** which states keep the [while] loop going: facts about LOOP_CONTINUES_ON and the enum values of this source tree *)
Lemma goes_passed : loop_goes_on FPassed = true.        Proof. reflexivity. Qed.
Lemma goes_temp : loop_goes_on FDeniedTemp = true.      Proof. reflexivity. Qed.
Lemma stops_white : loop_goes_on FWhite = false.        Proof. reflexivity. Qed.
Lemma stops_msg : loop_goes_on FDeniedMsg = false.      Proof. reflexivity. Qed.
Lemma stops_unspec : loop_goes_on FDeniedUnspec = false. Proof. reflexivity. Qed.
Lemma stops_nouser : loop_goes_on FDeniedNoUser = false. Proof. reflexivity. Qed.

Lemma filter_loop_stop frs fr e n : loop_goes_on fr = false -> filter_loop frs fr e n = (fr, e, n).
Proof. intros H. destruct frs; simpl; [reflexivity|]. rewrite H. reflexivity. Qed.

(** the statement after the loop: if ((fr == FILTER_PASSED) && e) fr = FILTER_DENIED_TEMPORARY *)
Definition post (fr : fres) (e : bool) : fres := if fres_eqb fr FPassed && e then FDeniedTemp else fr.

Definition temp_outcome (fh ne : bool) : doc_outcome := if fh then unspecific_outcome ne else DTemp4.

Definition outcome_of (fh ne : bool) (fr : fres) : doc_outcome :=
  match fr with
  | FPassed | FWhite => DAccept
  | FDeniedMsg => DRejectByFilter
  | FDeniedUnspec => unspecific_outcome ne
  | FDeniedNoUser => DNoUser
  | FDeniedTemp => temp_outcome fh ne
  | FError => DAccept     (* never the state after the loop, see [filter_loop_doc] *)
  end.

Lemma filter_loop_doc fh ne frs : forall fr e n,
  (fr = FPassed \/ (fr = FDeniedTemp /\ e = true)) ->
  (outcome_of fh ne (post (fst (fst (filter_loop frs fr e n))) (snd (fst (filter_loop frs fr e n)))),
   snd (filter_loop frs fr e n)) = doc_combine fh ne frs e n
  /\ post (fst (fst (filter_loop frs fr e n))) (snd (fst (filter_loop frs fr e n))) <> FError.
Proof.
  induction frs as [|r rest IH]; intros fr e n Hst.
  - cbn [filter_loop doc_combine fst snd].
    destruct Hst as [Hfr|[Hfr He]]; subst.
    + destruct e; (split; [reflexivity|discriminate]).
    + split; [reflexivity|discriminate].
  - assert (Hgo : loop_goes_on fr = true) by (destruct Hst as [Hfr|[Hfr He]]; subst; reflexivity).
    cbn [filter_loop doc_combine]. rewrite Hgo.
    destruct r.
    + (* FError *) apply IH. right; auto.
    + (* FPassed *) apply IH. left; reflexivity.
    + rewrite (filter_loop_stop rest FDeniedMsg e (S n) stops_msg). cbn [fst snd]. split; [reflexivity|discriminate].
    + rewrite (filter_loop_stop rest FDeniedUnspec e (S n) stops_unspec). cbn [fst snd]. split; [reflexivity|discriminate].
    + rewrite (filter_loop_stop rest FDeniedNoUser e (S n) stops_nouser). cbn [fst snd]. split; [reflexivity|discriminate].
    + (* FDeniedTemp *) apply IH. right; auto.
    + rewrite (filter_loop_stop rest FWhite e (S n) stops_white). cbn [fst snd]. split; [reflexivity|discriminate].
Qed.

(** ** [doc_combine] is the relation [documented] *)

Lemma soft_dec r : {soft r} + {~ soft r}.
Proof. unfold soft. destruct r; try (left; tauto); right; intros [H|[H|H]]; discriminate. Qed.

Lemma all_passed pre : Forall soft pre -> ~ Exists tempish pre -> Forall (eq FPassed) pre.
Proof.
  induction pre as [|x pre IH]; intros Hs Ht; [constructor|].
  inversion Hs as [|? ? Hx Hrest]; subst. constructor.
  - destruct Hx as [Hx|[Hx|Hx]]; subst; try reflexivity; exfalso; apply Ht; constructor; unfold tempish; auto.
  - apply IH; [assumption|]. intros H. apply Ht. apply Exists_cons_tl. assumption.
Qed.

Lemma doc_combine_sound fh ne frs : forall pre seen,
  Forall soft pre -> (seen = true <-> Exists tempish pre) ->
  documented fh ne (pre ++ frs) (fst (doc_combine fh ne frs seen (length pre))) (snd (doc_combine fh ne frs seen (length pre))).
Proof.
  induction frs as [|r rest IH]; intros pre seen Hsoft Hseen.
  - rewrite app_nil_r. cbn [doc_combine fst snd].
    destruct seen.
    + apply D_temp; [assumption|]. apply Hseen. reflexivity.
    + apply D_pass. apply all_passed; [assumption|]. intros H. apply Hseen in H. discriminate.
  - assert (Hstep : forall seen', (seen' = true <-> Exists tempish (pre ++ [r])) -> soft r ->
        documented fh ne (pre ++ r :: rest) (fst (doc_combine fh ne rest seen' (S (length pre))))
                                             (snd (doc_combine fh ne rest seen' (S (length pre))))).
    { intros seen' Hs' Hr. specialize (IH (pre ++ [r]) seen').
      rewrite <- app_assoc in IH. simpl in IH. rewrite app_length in IH. simpl in IH.
      replace (length pre + 1) with (S (length pre)) in IH by lia.
      apply IH; [|assumption]. apply Forall_app. split; [assumption|]. constructor; [assumption|constructor]. }
    cbn [doc_combine]. destruct r; cbn [fst snd].
    + (* FError *) apply Hstep; [|unfold soft; auto]. split; [intros _|reflexivity].
      apply Exists_app. right. constructor. unfold tempish; auto.
    + (* FPassed *) apply Hstep; [|unfold soft; auto]. rewrite Hseen. split; intros H.
      * apply Exists_app. left. assumption.
      * apply Exists_app in H. destruct H as [H|H]; [assumption|].
        inversion H as [? ? Hx|? ? Hx]; subst; [destruct Hx; discriminate|inversion Hx].
    + eapply D_msg; [reflexivity|assumption].
    + eapply D_unspec; [reflexivity|assumption].
    + eapply D_nouser; [reflexivity|assumption].
    + (* FDeniedTemp *) apply Hstep; [|unfold soft; auto]. split; [intros _|reflexivity].
      apply Exists_app. right. constructor. unfold tempish; auto.
    + eapply D_white; [reflexivity|assumption].
Qed.

Lemma doc_combine_soft_prefix fh ne pre : forall d post seen n,
  Forall soft pre -> ~ soft d ->
  doc_combine fh ne (pre ++ d :: post) seen n = doc_combine fh ne [d] false (n + length pre).
Proof.
  induction pre as [|x pre IH]; intros d post seen n Hs Hd.
  - simpl. rewrite Nat.add_0_r. destruct d; try reflexivity; exfalso; apply Hd; unfold soft; auto.
  - inversion Hs as [|? ? Hx Hrest]; subst. simpl length. replace (n + S (length pre)) with (S n + length pre) by lia.
    destruct Hx as [Hx|[Hx|Hx]]; subst; cbn [app doc_combine]; apply IH; assumption.
Qed.

Lemma doc_combine_all_soft fh ne frs : forall seen n,
  Forall soft frs ->
  doc_combine fh ne frs seen n =
    ((if seen || existsb (fun r => match r with FDeniedTemp | FError => true | _ => false end) frs
      then temp_outcome fh ne else DAccept), n + length frs).
Proof.
  induction frs as [|x frs IH]; intros seen n Hs.
  - simpl. rewrite orb_false_r, Nat.add_0_r. reflexivity.
  - inversion Hs as [|? ? Hx Hrest]; subst. simpl length. replace (n + S (length frs)) with (S n + length frs) by lia.
    destruct Hx as [Hx|[Hx|Hx]]; subst; cbn [doc_combine existsb]; rewrite IH by assumption.
    + rewrite orb_false_l. reflexivity.
    + rewrite orb_true_r. simpl. reflexivity.
    + rewrite orb_true_r. simpl. reflexivity.
Qed.

(** the relation determines outcome and number of consulted filters: it is the function *)
Lemma documented_complete fh ne frs o n :
  documented fh ne frs o n -> doc_combine fh ne frs false 0 = (o, n).
Proof.
  intros H. destruct H as [pre post Hf Hs|pre post Hf Hs|pre post Hf Hs|pre post Hf Hs|Hs Ht|Hp].
  - subst frs. rewrite doc_combine_soft_prefix; [reflexivity|assumption|]. intros [H|[H|H]]; discriminate.
  - subst frs. rewrite doc_combine_soft_prefix; [reflexivity|assumption|]. intros [H|[H|H]]; discriminate.
  - subst frs. rewrite doc_combine_soft_prefix; [reflexivity|assumption|]. intros [H|[H|H]]; discriminate.
  - subst frs. rewrite doc_combine_soft_prefix; [reflexivity|assumption|]. intros [H|[H|H]]; discriminate.
  - rewrite doc_combine_all_soft by assumption. simpl.
    replace (existsb _ frs) with true; [reflexivity|]. symmetry. apply existsb_exists.
    apply Exists_exists in Ht. destruct Ht as [x [Hin Hx]]. exists x. split; [assumption|]. destruct Hx; subst; reflexivity.
  - rewrite doc_combine_all_soft.
    + simpl. replace (existsb _ frs) with false; [reflexivity|]. symmetry.
      apply not_true_is_false. intros He. apply existsb_exists in He. destruct He as [x [Hin Hx]].
      rewrite Forall_forall in Hp. specialize (Hp x Hin). subst x. discriminate.
    + eapply Forall_impl; [|exact Hp]. intros a Ha. subst a. unfold soft; auto.
Qed.

Lemma documented_iff fh ne frs o n :
  documented fh ne frs o n <-> doc_combine fh ne frs false 0 = (o, n).
Proof.
  split; [apply documented_complete|]. intros H.
  pose proof (doc_combine_sound fh ne frs [] false (Forall_nil _)) as S. simpl in S.
  rewrite H in S. simpl in S. apply S. split; [discriminate|]. intros E. inversion E.
Qed.

(* ------------------------------------------------------------------------------------------------ *)
(** * C. smtp_rcpt: loop + rejection switch *)

Definition model_reply (o : doc_outcome) : rcpt_reply :=
  match o with
  | DAccept => RLine REPLY_OK
  | DRejectByFilter => RNone
  | DPolicy5 => RLine REPLY_POLICY
  | DNoUser => RLine REPLY_NOUSER
  | DTemp4 => RLine REPLY_TEMP
  end.

Definition is_byfilter (o : doc_outcome) : bool := match o with DRejectByFilter => true | _ => false end.

(** THE obligation of finding F-C12-1: smtp_rcpt must not release ds before it reads the two settings from it.
    (FREE_BEFORE_SETTINGS is computed by the translator from the text of smtp_rcpt.) *)
Lemma settings_read_before_free : FREE_BEFORE_SETTINGS = false.
Proof. reflexivity. Qed.

Lemma released_on_every_path : FREE_ON_ACCEPT = true /\ FREE_ON_REJECT = true.
Proof. split; reflexivity. Qed.

Lemma setting_flag uc dc gc key b :
  setting_on (doc_setting false (level_says uc key) (level_says dc key) Unset) = Some b ->
  Z.eqb (setting_value (getsetting uc dc gc key)) 0 = negb b.
Proof.
  intros H. pose proof (getsetting_doc uc dc gc key) as G.
  rewrite (doc_setting_noglobal _ _ (level_says gc key) Unset) in G.
  destruct (doc_setting false (level_says uc key) (level_says dc key) Unset) as [[v o]|]; [|discriminate].
  simpl in H. inversion H; subst b. destruct G as [G _]. rewrite G. rewrite negb_involutive. reflexivity.
Qed.

Lemma rcpt_policy_doc uc dc gc frs fh ne :
  setting_on (doc_setting false (level_says uc KEY_FAIL_HARD) (level_says dc KEY_FAIL_HARD) Unset) = Some fh ->
  setting_on (doc_setting false (level_says uc KEY_NONEXIST) (level_says dc KEY_NONEXIST) Unset) = Some ne ->
  rr_reply (rcpt_policy uc dc gc frs) = model_reply (fst (doc_combine fh ne frs false 0)) /\
  rr_ok (rcpt_policy uc dc gc frs) = is_accept (fst (doc_combine fh ne frs false 0)) /\
  rr_called (rcpt_policy uc dc gc frs) = snd (doc_combine fh ne frs false 0) /\
  rr_leak (rcpt_policy uc dc gc frs) = false.
Proof.
  intros Hfh Hne. unfold rcpt_policy, rcpt_policy_gen.
  destruct (filter_loop_doc fh ne frs FPassed false 0 (or_introl eq_refl)) as [H1 H2].
  destruct (filter_loop frs FPassed false 0) as [[fr0 e] called]. cbn [fst snd] in H1, H2.
  change (if fres_eqb fr0 FPassed && e then FDeniedTemp else fr0) with (post fr0 e).
  rewrite <- H1. cbn [fst snd].
  unfold settings_view. rewrite settings_read_before_free.
  rewrite (setting_flag uc dc gc KEY_FAIL_HARD fh Hfh), (setting_flag uc dc gc KEY_NONEXIST ne Hne).
  rewrite negb_involutive.
  destruct released_on_every_path as [Ra Rr]. rewrite Ra, Rr.
  destruct (post fr0 e); [contradiction H2; reflexivity| | | | | |];
    destruct fh, ne; repeat split; reflexivity.
Qed.

(* ------------------------------------------------------------------------------------------------ *)
(** * D. the checker that is run on the C outputs accepts every output of the model *)

Lemma doc_combine_shift fh ne frs : forall seen n,
  doc_combine fh ne frs seen n = (fst (doc_combine fh ne frs seen 0), n + snd (doc_combine fh ne frs seen 0)).
Proof.
  induction frs as [|r rest IH]; intros seen n.
  - simpl. rewrite Nat.add_0_r. reflexivity.
  - cbn [doc_combine]. destruct r; cbn [fst snd]; try (f_equal; lia);
      rewrite (IH _ (S n)), (IH _ 1); cbn [fst snd]; f_equal; lia.
Qed.

Lemma unspecific_not_byfilter ne : is_byfilter (unspecific_outcome ne) = false.
Proof. destruct ne; reflexivity. Qed.

Lemma temp_not_byfilter fh ne : is_byfilter (temp_outcome fh ne) = false.
Proof. destruct fh, ne; reflexivity. Qed.

(** ** the interface discipline of the filters: a reply of its own exactly with "denied with message", and then a 5xx *)

Definition good_msg (t : bytes) : Prop := reply_fits DRejectByFilter [head9 t] false = true.

Definition disciplined (x : fres * option bytes) : Prop :=
  match snd x with
  | None => fst x <> FDeniedMsg
  | Some t => fst x = FDeniedMsg /\ good_msg t
  end.

Lemma passed_disciplined : disciplined passed.
Proof. unfold disciplined, passed. simpl. discriminate. Qed.

Ltac disc_cases :=
  repeat match goal with
         | |- context [if ?c then _ else _] => destruct c
         end;
  try exact passed_disciplined;
  unfold disciplined, good_msg; simpl fst; simpl snd;
  try discriminate;
  try (split; reflexivity).

Lemma cb_boolean_disciplined s uc dc gc : disciplined (cb_boolean s uc dc gc).
Proof. unfold cb_boolean. disc_cases. Qed.

Lemma cb_usersize_disciplined s uc dc gc : disciplined (cb_usersize s uc dc gc).
Proof. unfold cb_usersize. cbv zeta. disc_cases. Qed.

Lemma cb_smtpbugs_disciplined sb s uc dc gc : disciplined (cb_smtpbugs sb s uc dc gc).
Proof. unfold cb_smtpbugs. cbv zeta. disc_cases. Qed.

Lemma spf_switch_temp p x : spf_switch p x = STemp -> x = SPF_TEMPERROR.
Proof.
  unfold spf_switch, spf_case6, spf_case5, spf_case4, spf_case3, spf_case2, spf_case1.
  intros H.
  destruct (N.eqb x SPF_TEMPERROR) eqn:E; [apply N.eqb_eq in E; exact E|].
  repeat match type of H with
         | (if ?c then _ else _) = _ => destruct c
         end; discriminate.
Qed.

(** cb_spf keeps the discipline outside the class of finding F-C12-3 *)
Lemma cb_spf_disciplined s uc dc gc :
  (N.eqb (s_spf s) SPF_TEMPERROR
   && (0 <? setting_value (getsettingglobal uc dc gc KEY_SPFPOLICY))%Z
   && (setting_value (getsetting uc dc gc KEY_SPF_FAIL_HARD) <=? 0)%Z) = false ->
  disciplined (cb_spf s uc dc gc).
Proof.
  intros Hcl. unfold cb_spf. cbv zeta.
  destruct (N.eqb (s_spf s) SPF_PASS || N.eqb (s_spf s) SPF_IGNORE); [exact passed_disciplined|].
  destruct (setting_value (getsettingglobal uc dc gc KEY_SPFPOLICY) <=? 0)%Z eqn:Ep; [exact passed_disciplined|].
  destruct (spf_switch (setting_value (getsettingglobal uc dc gc KEY_SPFPOLICY)) (s_spf s)) eqn:Esw.
  - unfold disciplined, good_msg. simpl. split; reflexivity.
  - exact passed_disciplined.
  - unfold disciplined, good_msg. simpl. split; reflexivity.
  - apply spf_switch_temp in Esw.
    destruct (setting_value (getsetting uc dc gc KEY_SPF_FAIL_HARD) <=? 0)%Z eqn:Ef.
    + exfalso. rewrite Esw, N.eqb_refl in Hcl. apply Z.leb_gt in Ep. apply Z.ltb_lt in Ep. rewrite Ep in Hcl. discriminate.
    + unfold disciplined. simpl. discriminate.
Qed.

Lemma run_slot_disciplined sb id sl s uc dc gc x :
  (sl = RealFilter -> id = ID_SPF ->
     (N.eqb (s_spf s) SPF_TEMPERROR
      && (0 <? setting_value (getsettingglobal uc dc gc KEY_SPFPOLICY))%Z
      && (setting_value (getsetting uc dc gc KEY_SPF_FAIL_HARD) <=? 0)%Z) = false) ->
  run_slot sb id sl s uc dc gc = Some x -> disciplined x.
Proof.
  intros Hcl H. destruct sl as [r|]; simpl in H.
  - inversion H; subst x. unfold disciplined. simpl.
    destruct r; simpl; try discriminate. split; reflexivity.
  - destruct (Nat.eqb id ID_BOOLEAN); [inversion H; apply cb_boolean_disciplined|].
    destruct (Nat.eqb id ID_SMTPBUGS); [inversion H; apply cb_smtpbugs_disciplined|].
    destruct (Nat.eqb id ID_SPF) eqn:E; [inversion H; apply cb_spf_disciplined; apply Hcl; [reflexivity|apply Nat.eqb_eq; exact E]|].
    destruct (Nat.eqb id ID_USERSIZE); [inversion H; apply cb_usersize_disciplined|discriminate].
Qed.

Lemma sequence_forall {A} (P : A -> Prop) (l : list (option A)) rs :
  sequence l = Some rs -> (forall x, In (Some x) l -> P x) -> Forall P rs.
Proof.
  revert rs. induction l as [|[a|] l IH]; intros rs H HP; simpl in H.
  - inversion H. constructor.
  - destruct (sequence l) as [rs'|] eqn:E; [|discriminate]. inversion H; subst rs.
    constructor; [apply HP; left; reflexivity|]. apply IH; [reflexivity|]. intros x Hx. apply HP. right. exact Hx.
  - discriminate.
Qed.

Lemma all_results_disciplined sb slots s uc dc gc results :
  spf_temp_class slots s uc dc gc = false ->
  all_results sb slots s uc dc gc = Some results -> Forall disciplined results.
Proof.
  intros Hcl H. unfold all_results in H.
  apply (sequence_forall disciplined _ _ H).
  intros x Hin. apply in_map_iff in Hin. destruct Hin as [id [Hrun _]].
  apply (run_slot_disciplined sb id (nth id slots (Standin FPassed)) s uc dc gc); [|exact Hrun].
  intros Hreal Hid. subst id. unfold spf_temp_class in Hcl. rewrite Hreal in Hcl. exact Hcl.
Qed.

Lemma nth_disciplined results id : Forall disciplined results -> disciplined (nth id results passed).
Proof.
  intros H. destruct (Nat.lt_ge_cases id (length results)) as [Hlt|Hge].
  - rewrite Forall_forall in H. apply H. apply nth_In. exact Hlt.
  - rewrite nth_overflow by exact Hge. exact passed_disciplined.
Qed.

(** the replies the consulted filters have sent themselves: none, or the one of the deciding filter *)
Lemma msgs_doc fh ne inorder : Forall disciplined inorder -> forall seen,
  (is_byfilter (fst (doc_combine fh ne (map fst inorder) seen 0)) = false /\
   collect_msgs (firstn (snd (doc_combine fh ne (map fst inorder) seen 0)) inorder) = []) \/
  (fst (doc_combine fh ne (map fst inorder) seen 0) = DRejectByFilter /\
   exists t, collect_msgs (firstn (snd (doc_combine fh ne (map fst inorder) seen 0)) inorder) = [t] /\ good_msg t).
Proof.
  induction inorder as [|[r m] rest IH]; intros Hall seen.
  - left. cbn [map doc_combine fst snd firstn collect_msgs]. split; [|reflexivity].
    destruct seen; [apply (temp_not_byfilter fh ne)|reflexivity].
  - inversion Hall as [|? ? Hx Hrest]; subst. specialize (IH Hrest).
    unfold disciplined in Hx. cbn [fst snd] in Hx. cbn [map fst doc_combine].
    destruct r; cbn [fst snd].
    + (* FError *) destruct m as [t|]; [destruct Hx; discriminate|].
      rewrite (doc_combine_shift fh ne (map fst rest) true 1). cbn [fst snd firstn Nat.add collect_msgs]. apply IH.
    + (* FPassed *) destruct m as [t|]; [destruct Hx; discriminate|].
      rewrite (doc_combine_shift fh ne (map fst rest) seen 1). cbn [fst snd firstn Nat.add collect_msgs]. apply IH.
    + (* FDeniedMsg *) destruct m as [t|]; [|exfalso; apply Hx; reflexivity]. destruct Hx as [_ Hg].
      right. split; [reflexivity|]. exists t. split; [reflexivity|exact Hg].
    + destruct m as [t|]; [destruct Hx; discriminate|]. left. split; [apply unspecific_not_byfilter|reflexivity].
    + destruct m as [t|]; [destruct Hx; discriminate|]. left. split; reflexivity.
    + (* FDeniedTemp *) destruct m as [t|]; [destruct Hx; discriminate|].
      rewrite (doc_combine_shift fh ne (map fst rest) true 1). cbn [fst snd firstn Nat.add collect_msgs]. apply IH.
    + destruct m as [t|]; [destruct Hx; discriminate|]. left. split; reflexivity.
Qed.

Lemma nat_list_eqb_refl l : nat_list_eqb l l = true.
Proof. induction l as [|x l IH]; simpl; [reflexivity|]. rewrite Nat.eqb_refl. exact IH. Qed.

Lemma probe_fits_of_model x d : model_fits x d -> probe_fits d (setting_value x) (setting_type x) = true.
Proof.
  destruct d as [[v o]|]; simpl; [|reflexivity]. intros [A B]. rewrite A, Z.eqb_refl. simpl.
  destruct (0 <? v)%Z eqn:E; [|reflexivity]. apply Z.ltb_lt in E. rewrite (B E). apply Z.eqb_refl.
Qed.

(** the man page marks a setting (global) exactly when the code reads it with getsettingglobal()
    (obligation of finding F-C12-2; KEY_TABLE is computed by the translator from qsmtpd/filters/*.c and filterconf.5) *)
Lemma key_table_consistent :
  forallb (fun x => Bool.eqb (snd (fst x)) (snd x)) KEY_TABLE = true.
Proof. reflexivity. Qed.

Lemma key_lookup_sound k : forall t cg dg,
  forallb (fun x : bytes * bool * bool => Bool.eqb (snd (fst x)) (snd x)) t = true ->
  key_lookup k t = Some (cg, dg) -> cg = dg.
Proof.
  induction t as [|[[k' c] d] t IH]; intros cg dg Hall H; simpl in *; [discriminate|].
  apply andb_true_iff in Hall as [H1 H2].
  destruct (bytes_eqb k k').
  - inversion H; subst. apply Bool.eqb_prop. exact H1.
  - apply IH; assumption.
Qed.

Lemma global_keys_match k cg dg : key_lookup k KEY_TABLE = Some (cg, dg) -> cg = dg.
Proof. apply key_lookup_sound. exact key_table_consistent. Qed.

Lemma filter_view_fits_of_model uc dc gc key :
  filter_view_fits (level_says uc key) (level_says dc key) (level_says gc key) key
    (setting_value (getsetting uc dc gc key)) (setting_type (getsetting uc dc gc key))
    (setting_value (getsettingglobal uc dc gc key)) (setting_type (getsettingglobal uc dc gc key)) = true.
Proof.
  unfold filter_view_fits. destruct (key_lookup key KEY_TABLE) as [[cg dg]|] eqn:E; [|reflexivity].
  apply global_keys_match in E. subst dg. destruct cg.
  - apply probe_fits_of_model, getsettingglobal_doc.
  - apply probe_fits_of_model, getsetting_doc.
Qed.

(** the reply templates of this source tree carry the documented codes *)
Lemma templates_fit o : is_byfilter o = false ->
  reply_fits o (match model_reply o with RNone => [] | RLine t => [head9 t] end) (is_accept o) = true.
Proof. destruct o; intros H; try discriminate; reflexivity. Qed.

(** THE obligation of the sticky space-bug flag: smtp_rcpt only ever sets xmitstat.spacebug, so what the filters
    see is the documented flag.  (SPACEBUG_STICKY is computed by the translator from the text of smtp_rcpt.) *)
Lemma spacebug_is_sticky : SPACEBUG_STICKY = true.
Proof. reflexivity. Qed.

Lemma rcpt_spacebug_doc s : rcpt_spacebug s = doc_spacebug s.
Proof.
  unfold rcpt_spacebug, doc_spacebug. rewrite spacebug_is_sticky. cbv zeta.
  destruct (negb (N.eqb (s_spaces s) 0)), (s_prebug s); reflexivity.
Qed.

Lemma Some_inj {A} (a b : A) : Some a = Some b -> a = b.
Proof. intros H. inversion H. reflexivity. Qed.

Theorem checker_accepts_model outcomes um uf dm df gm gf key sess obs :
  in_spf_temp_class outcomes um uf dm df gm gf sess = false ->
  observe (rcpt_case outcomes um uf dm df gm gf key sess) = Some obs ->
  spec_ok_C12 outcomes um uf dm df gm gf key sess obs <> VBad.
Proof.
  unfold rcpt_case, spec_ok_C12, in_spf_temp_class. intros Hcl Hobs.
  destruct (decode_outcomes outcomes) as [slots|]; [|discriminate].
  destruct (decode_session sess) as [s|]; [|discriminate].
  destruct (negb (Nat.eqb (length slots) NFILTERS)); [discriminate|].
  destruct (load_level gm gf) as [gc|]; [|discriminate].
  destruct (load_configs um uf dm df) as [[uc dc]|]; [|discriminate].
  rewrite rcpt_spacebug_doc in Hobs.
  destruct (all_results (doc_spacebug s) slots s uc dc gc) as [results|] eqn:Eres; [|discriminate].
  destruct (setting_on (doc_setting false (level_says uc KEY_FAIL_HARD) (level_says dc KEY_FAIL_HARD) Unset)) as [fh|] eqn:Hfh; [|discriminate].
  destruct (setting_on (doc_setting false (level_says uc KEY_NONEXIST) (level_says dc KEY_NONEXIST) Unset)) as [ne|] eqn:Hne; [|discriminate].
  pose proof (all_results_disciplined _ slots s uc dc gc results Hcl Eres) as Hdisc.
  set (inorder := map (fun id => nth id results passed) RCPT_CBS) in *.
  assert (Hin : Forall disciplined inorder).
  { unfold inorder. apply Forall_forall. intros x Hx. apply in_map_iff in Hx. destruct Hx as [id [Hx _]]. subst x.
    apply nth_disciplined. exact Hdisc. }
  cbv zeta in Hobs. cbn [observe] in Hobs. apply Some_inj in Hobs. subst obs.
  destruct (rcpt_policy_doc uc dc gc (map fst inorder) fh ne Hfh Hne) as [Hr [Hk [Hc _]]].
  rewrite Hr, Hk, Hc.
  pose proof (msgs_doc fh ne inorder Hin false) as Hm.
  destruct (doc_combine fh ne (map fst inorder) false 0) as [o n] eqn:Edc. cbn [fst snd] in *.
  assert (Hfit : reply_fits o (map head9 (collect_msgs (firstn n inorder)) ++
                               match model_reply o with RNone => [] | RLine t => [head9 t] end) (is_accept o) = true).
  { destruct Hm as [[Hnb Hnil]|[Ho [t [Ht Hg]]]].
    - rewrite Hnil. simpl. apply templates_fit. exact Hnb.
    - subst o. rewrite Ht. simpl. exact Hg. }
  rewrite Hfit. rewrite nat_list_eqb_refl.
  rewrite (probe_fits_of_model _ _ (getsetting_doc uc dc gc key)).
  rewrite (probe_fits_of_model _ _ (getsettingglobal_doc uc dc gc key)).
  rewrite filter_view_fits_of_model.
  discriminate.
Qed.

(* ------------------------------------------------------------------------------------------------ *)
(** * E. the statements of Props/Properties_C12.v *)

Lemma model_reply_fits o : sends_fitting o (model_reply o) (is_accept o).
Proof. destruct o; simpl; try (split; [discriminate|reflexivity]); reflexivity. Qed.

Theorem combine_main uc dc gc frs fh ne :
  setting_on (doc_setting false (level_says uc KEY_FAIL_HARD) (level_says dc KEY_FAIL_HARD) Unset) = Some fh ->
  setting_on (doc_setting false (level_says uc KEY_NONEXIST) (level_says dc KEY_NONEXIST) Unset) = Some ne ->
  exists o n,
    documented fh ne frs o n /\
    rr_called (rcpt_policy uc dc gc frs) = n /\
    rr_ok (rcpt_policy uc dc gc frs) = is_accept o /\
    sends_fitting o (rr_reply (rcpt_policy uc dc gc frs)) (rr_ok (rcpt_policy uc dc gc frs)) /\
    rr_leak (rcpt_policy uc dc gc frs) = false.
Proof.
  intros Hfh Hne. destruct (rcpt_policy_doc uc dc gc frs fh ne Hfh Hne) as [Hr [Hk [Hc Hl]]].
  destruct (doc_combine fh ne frs false 0) as [o n] eqn:E. cbn [fst snd] in *.
  exists o, n. rewrite Hr, Hk, Hc, Hl. repeat split.
  - apply documented_iff. exact E.
  - apply model_reply_fits.
Qed.

(** the code as shipped (userconf_free(&ds) before the reads): the user's fail_hard_on_temp is ignored *)
Theorem unfixed_refuted :
  let uc := [KEY_FAIL_HARD] in
  let frs := [FDeniedTemp] in
  documented true false frs DPolicy5 1 /\
  setting_on (doc_setting false (level_says uc KEY_FAIL_HARD) (level_says [] KEY_FAIL_HARD) Unset) = Some true /\
  setting_on (doc_setting false (level_says uc KEY_NONEXIST) (level_says [] KEY_NONEXIST) Unset) = Some false /\
  rr_reply (rcpt_policy_gen true uc [] [] frs) = RLine REPLY_TEMP /\
  ~ sends_fitting DPolicy5 (rr_reply (rcpt_policy_gen true uc [] [] frs)) false.
Proof.
  cbv zeta. split; [|split; [reflexivity|split; [reflexivity|split; [reflexivity|]]]].
  - apply documented_iff. reflexivity.
  - intros [_ H]. vm_compute in H. discriminate.
Qed.

(** ** concrete syntax: the bare key, key=-1 *)

Lemma bytes_eqb_refl a : bytes_eqb a a = true.
Proof. apply bytes_eqb_eq. reflexivity. Qed.

Lemma bytes_eqb_longer key x t : bytes_eqb (key ++ x :: t) key = false.
Proof.
  apply not_true_is_false. intros H. apply bytes_eqb_eq in H.
  apply (f_equal (@length N)) in H. rewrite app_length in H. simpl in H. lia.
Qed.

Lemma level_says_bare key rest : level_says (key :: rest) key = On 1.
Proof. cbn [level_says]. unfold entry_says. rewrite bytes_eqb_refl. reflexivity. Qed.

Lemma entry_says_value key v :
  entry_says key (key ++ 61%N :: v) = Some (match doc_integer v with Some z => says_of_value z | None => Bad end).
Proof.
  unfold entry_says. rewrite bytes_eqb_longer.
  replace (key ++ 61%N :: v) with ((key ++ [61%N]) ++ v) by (rewrite <- app_assoc; reflexivity).
  replace (length key + 1) with (length (key ++ [61%N])) by (rewrite app_length; reflexivity).
  rewrite firstn_app, firstn_all, Nat.sub_diag, skipn_app, skipn_all, Nat.sub_diag. simpl.
  rewrite app_nil_r, bytes_eqb_refl. reflexivity.
Qed.

(** "key=-1" as the first line about the key: switched off, not inherited *)
Lemma level_says_minus_one key rest : level_says ((key ++ [61; 45; 49]%N) :: rest) key = Off.
Proof. cbn [level_says]. rewrite entry_says_value. reflexivity. Qed.

Lemma level_says_skip key e rest : entry_says key e = None -> level_says (e :: rest) key = level_says rest key.
Proof. intros H. cbn [level_says]. rewrite H. reflexivity. Qed.

(* ------------------------------------------------------------------------------------------------ *)
(** * F. finding F-C12-3: the real cb_spf answers a temporary SPF error itself and reports "denied with message" *)

Lemma spf_switch_temperror p : spf_switch p SPF_TEMPERROR = STemp.
Proof.
  unfold spf_switch, spf_case6, spf_case5, spf_case4, spf_case3, spf_case2, spf_case1.
  repeat match goal with |- context [Z.eqb p ?k] => destruct (Z.eqb p k) end; reflexivity.
Qed.

Lemma cb_spf_temp s uc dc gc :
  s_spf s = SPF_TEMPERROR ->
  (0 < setting_value (getsettingglobal uc dc gc KEY_SPFPOLICY))%Z ->
  (setting_value (getsetting uc dc gc KEY_SPF_FAIL_HARD) <= 0)%Z ->
  cb_spf s uc dc gc = (FDeniedMsg, Some REPLY_SPF_TEMP) /\ nth 0 REPLY_SPF_TEMP 0%N = 52%N.
Proof.
  intros Hs Hp Hf. split; [|reflexivity]. unfold cb_spf. cbv zeta. rewrite Hs.
  change (N.eqb SPF_TEMPERROR SPF_PASS || N.eqb SPF_TEMPERROR SPF_IGNORE) with false. cbv iota.
  destruct (setting_value (getsettingglobal uc dc gc KEY_SPFPOLICY) <=? 0)%Z eqn:E; [apply Z.leb_le in E; lia|].
  rewrite spf_switch_temperror.
  destruct (setting_value (getsetting uc dc gc KEY_SPF_FAIL_HARD) <=? 0)%Z eqn:E2; [|apply Z.leb_gt in E2; lia].
  reflexivity.
Qed.

(** the checker's statement without the class hypothesis *)
Definition checker_full : Prop := forall outcomes um uf dm df gm gf key sess obs,
  observe (rcpt_case outcomes um uf dm df gm gf key sess) = Some obs ->
  spec_ok_C12 outcomes um uf dm df gm gf key sess obs <> VBad.

(** witness: every filter passes except the real cb_spf (SPF status: temporary error) and the dnsbl stand-in, which
    denies permanently; control/filterconf holds "spfpolicy=1"; nothing at user and domain level *)
Definition w_outcomes : bytes := [1; 1; 1; 1; 3; 1; 1; 1; 1; 1; 1; 1; 1; 128; 1; 1]%N.
Definition w_global : bytes := KEY_SPFPOLICY ++ [61; 49; 10]%N.
Definition w_session : bytes := [7; 0; 0; 0; 0]%N.

Theorem checker_refuted : ~ checker_full.
Proof.
  intros H.
  destruct (observe (rcpt_case w_outcomes 1 [] 1 [] 2 w_global [102]%N w_session)) as [obs|] eqn:E;
    [|vm_compute in E; discriminate].
  apply (H _ _ _ _ _ _ _ _ _ obs E).
  vm_compute in E. apply Some_inj in E. subst obs. vm_compute. reflexivity.
Qed.

Lemma witness_in_class : in_spf_temp_class w_outcomes 1 [] 1 [] 2 w_global w_session = true.
Proof. vm_compute. reflexivity. Qed.

(* ------------------------------------------------------------------------------------------------ *)
(** * G. the control-file loader on plain files *)

Definition plain_byte (c : N) : bool :=
  negb (N.eqb c 0) && negb (N.eqb c LF) && negb (N.eqb c SP) && negb (N.eqb c HT) && negb (N.eqb c HASH).

Definition plain_line (l : bytes) : Prop := l <> [] /\ forallb plain_byte l = true.

Fixpoint join_lines (ls : list bytes) : bytes :=
  match ls with
  | [] => []
  | l :: r => l ++ LF :: join_lines r
  end.

Fixpoint join0 (ls : list bytes) : bytes :=
  match ls with
  | [] => []
  | l :: r => l ++ 0%N :: join0 r
  end.

Lemma plain_byte_facts c : plain_byte c = true ->
  N.eqb c 0 = false /\ N.eqb c LF = false /\ N.eqb c SP = false /\ N.eqb c HT = false /\ N.eqb c HASH = false.
Proof.
  unfold plain_byte. intros H.
  repeat (apply andb_true_iff in H; destruct H as [H ?]).
  repeat split; apply negb_true_iff; assumption.
Qed.

Lemma mutate_plain l : forall pb rest, forallb plain_byte l = true ->
  mutate (l ++ LF :: rest) (MNormal pb) = option_map (fun x => l ++ 0%N :: x) (mutate rest (MNormal false)).
Proof.
  induction l as [|c l IH]; intros pb rest H.
  - cbn [app mutate]. change (N.eqb LF HASH) with false. change (N.eqb LF SP || N.eqb LF HT) with false.
    change (N.eqb LF LF) with true. cbn [andb]. cbv iota.
    destruct (mutate rest (MNormal false)); reflexivity.
  - cbn [forallb] in H. apply andb_true_iff in H as [Hc Hl].
    destruct (plain_byte_facts c Hc) as [H0 [H1 [H2 [H3 H4]]]].
    cbn [app mutate]. rewrite H4, H2, H3, H1. cbn [andb orb]. cbv iota.
    rewrite (IH _ rest Hl). destruct (mutate rest (MNormal false)); reflexivity.
Qed.

Lemma mutate_join ls : Forall plain_line ls -> mutate (join_lines ls) (MNormal false) = Some (join0 ls).
Proof.
  induction ls as [|l r IH]; intros H; [reflexivity|].
  inversion H as [|? ? [_ Hl] Hr]; subst. cbn [join_lines join0].
  rewrite (mutate_plain l false (join_lines r) Hl), (IH Hr). reflexivity.
Qed.

Lemma split0_piece l : forall cur rest, forallb plain_byte l = true -> cur ++ l <> [] ->
  split0 (l ++ 0%N :: rest) cur = (cur ++ l) :: split0 rest [].
Proof.
  induction l as [|c l IH]; intros cur rest H Hne.
  - rewrite app_nil_r in *. cbn [app split0]. change (N.eqb 0 0) with true. cbv iota.
    destruct cur; [contradiction Hne; reflexivity|reflexivity].
  - cbn [forallb] in H. apply andb_true_iff in H as [Hc Hl].
    destruct (plain_byte_facts c Hc) as [H0 _].
    cbn [app split0]. rewrite H0.
    rewrite (IH (cur ++ [c]) rest Hl).
    + rewrite <- app_assoc. reflexivity.
    + destruct cur; discriminate.
Qed.

Lemma split0_join ls : Forall plain_line ls -> split0 (join0 ls) [] = ls.
Proof.
  induction ls as [|l r IH]; intros H; [reflexivity|].
  inversion H as [|? ? [Hne Hl] Hr]; subst. cbn [join0].
  rewrite (split0_piece l [] (join0 r) Hl); [|exact Hne]. rewrite (IH Hr). reflexivity.
Qed.

(** a file of plain lines is loaded as exactly these lines, in order *)
Lemma parse_plain ls : Forall plain_line ls -> parse_conf (join_lines ls) = Some ls.
Proof. intros H. unfold parse_conf. rewrite (mutate_join ls H), (split0_join ls H). reflexivity. Qed.

(* ------------------------------------------------------------------------------------------------ *)
(** * H. the space-bug flag is sticky *)

(** a recipient whose effective smtp_space_bug is 255 refuses a client that has shown the bug in this command or
    before it (MAIL FROM, an earlier RCPT TO), whatever the current line looks like *)
Lemma smtpbugs_reject_all s uc dc gc :
  doc_spacebug s = true ->
  to_int (setting_value (getsettingglobal uc dc gc KEY_SMTP_SPACE_BUG)) = SPB_REJECT_ALL ->
  cb_smtpbugs (rcpt_spacebug s) s uc dc gc = (FDeniedMsg, Some REPLY_SMTPBUGS).
Proof.
  intros Hb Hv. rewrite rcpt_spacebug_doc, Hb. unfold cb_smtpbugs. cbv zeta. rewrite Hv. reflexivity.
Qed.

Lemma smtpbugs_clean s uc dc gc : doc_spacebug s = false -> cb_smtpbugs (rcpt_spacebug s) s uc dc gc = passed.
Proof. intros Hb. rewrite rcpt_spacebug_doc, Hb. reflexivity. Qed.

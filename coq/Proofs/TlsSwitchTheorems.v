(** C18: the property theorems, assembled from the simulation (TlsSwitchProofs.v) and the
    soundness of the checker (TlsSwitchSound.v). *)
From Qv Require Import Common.Bytes Gen.GenStarttls Model.NetRead Model.TlsClient Spec.TlsSwitchSpec
  Proofs.TlsClientProofs Proofs.TlsSwitchSound.
Local Open Scope bool_scope.

(** with the TLSA records connect_mx() works with, every case satisfies the property *)
Theorem eff_holds k : C18_trace_ok (fun _ => tlsa_eff (k_conns k)) k (trace k).
Proof. apply checker_sound. apply model_spec_eff. Qed.

(** with the records of each host itself: outside the class tlsa_wrong_host *)
Theorem holds_partial k : class_wrong_host k = false -> C18_holds k.
Proof. intros Hc. apply checker_sound. now apply model_spec_ok. Qed.

(* ---- (1) only what came through TLS is used after the switch *)
Theorem in_tls_only k pre post :
  (forall p h, trace k = pre ++ EvHs p h :: post ->
     ~ hs_done (since_conn pre) /\ ~ hs_failed (since_conn pre)) /\
  (forall t it lft, trace k = pre ++ EvR t it lft :: post ->
     (t = true <-> hs_done (since_conn pre)) /\
     (forall l, it = RLine l -> t = true ->
        exists i, last_conn pre = Some i /\ cut_at (tls_stream (conn_of k i)) l lft)).
Proof.
  split.
  - intros p h H. exact (eff_holds k pre _ post H).
  - intros t it lft H. pose proof (eff_holds k pre _ post H) as (H1 & H2). cbn in H1, H2.
    split; [exact H1|]. intros l -> Ht. now apply H2.
Qed.

Theorem extensions_from_tls k pre ext post :
  trace k = pre ++ EvMail true ext :: post ->
  hs_done (since_conn pre) /\
  forall bit, N.testbit ext bit = true ->
    exists l lft, In (EvR true (RLine l) lft) (since_conn pre) /\ N.testbit (line_ext l) bit = true.
Proof.
  intros H. pose proof (eff_holds k pre _ post H) as (i & _ & _ & Ht & _ & _ & Hb).
  split; [now apply Ht|now apply Hb].
Qed.

(* ---- (2) a host that has to authenticate itself gets the message only after X509_V_OK *)
Theorem pinned_partial k pre t ext post :
  class_wrong_host k = false ->
  trace k = pre ++ EvMail t ext :: post ->
  exists i, last_conn pre = Some i /\
    (need_verify own_tlsa (conn_of k i) = true ->
       t = true /\ hs_done (since_conn pre) /\ In (EvVfy 0) (since_conn pre)).
Proof.
  intros Hc H. pose proof (holds_partial k Hc pre _ post H) as (i & Hl & _ & Ht & Hclr & Hv & _).
  exists i. split; [exact Hl|]. intros Hn.
  assert (Ett : t = true).
  { destruct t; [reflexivity|]. destruct (Hclr eq_refl) as (_ & Hn'). rewrite Hn in Hn'. discriminate. }
  split; [exact Ett|]. split; [now apply Ht|now apply Hv].
Qed.

(** the part of (2) that does not depend on DNS: a certificate in control/tlshosts *)
Theorem pinned_file k pre t ext post :
  trace k = pre ++ EvMail t ext :: post ->
  exists i, last_conn pre = Some i /\
    (pinned (conn_of k i) = true ->
       t = true /\ hs_done (since_conn pre) /\ In (EvVfy 0) (since_conn pre)).
Proof.
  intros H. pose proof (eff_holds k pre _ post H) as (i & Hl & _ & Ht & Hclr & Hv & _).
  exists i. split; [exact Hl|]. intros Hp.
  assert (Hn : need_verify (fun _ => tlsa_eff (k_conns k)) (conn_of k i) = true) by (unfold need_verify; now rewrite Hp).
  assert (Ett : t = true).
  { destruct t; [reflexivity|]. destruct (Hclr eq_refl) as (_ & Hn'). rewrite Hn in Hn'. discriminate. }
  split; [exact Ett|]. split; [now apply Ht|now apply Hv].
Qed.

(* ---- (3) a route with its own client certificate never sends in clear *)
Theorem expect_tls k pre ext post :
  k_route k = true -> trace k <> pre ++ EvMail false ext :: post.
Proof.
  intros Hr H. pose proof (eff_holds k pre _ post H) as (i & _ & _ & _ & Hclr & _).
  destruct (Hclr eq_refl) as (Hr' & _). rewrite Hr in Hr'. discriminate.
Qed.

Theorem route_cert_used k pre r post :
  trace k = pre ++ EvCert r :: post -> r = k_route k.
Proof. intros H. exact (eff_holds k pre _ post H). Qed.

(* ---- (4) no half-switched connection *)
Theorem no_half_switch k pre post :
  (forall t b, trace k = pre ++ EvW t b :: post ->
     (t = true <-> hs_done (since_conn pre)) /\ (hs_failed (since_conn pre) -> b = ST_CMD_QUIT)) /\
  (forall t ext, trace k = pre ++ EvMail t ext :: post ->
     ~ hs_failed (since_conn pre) /\ (t = true <-> hs_done (since_conn pre))).
Proof.
  split.
  - intros t b H. exact (eff_holds k pre _ post H).
  - intros t ext H. pose proof (eff_holds k pre _ post H) as (i & _ & Hnf & Ht & _). split; assumption.
Qed.

(* ---- the known finding: the TLSA records of the first MX are applied to every MX *)
Definition segs (l : list (list N)) : list bytes := l.
(** "220 a", "250-a" / "250 STARTTLS", "220 g"; inside TLS "250 a", "221 b" *)
Definition w_banner : bytes := [50; 50; 48; 32; 97; 13; 10]%N.
Definition w_ehlo_tls : bytes := [50; 53; 48; 45; 97; 13; 10; 50; 53; 48; 32; 83; 84; 65; 82; 84; 84; 76; 83; 13; 10]%N.
Definition w_go : bytes := [50; 50; 48; 32; 103; 13; 10]%N.
Definition w_in_tls : bytes := [50; 53; 48; 32; 97; 13; 10; 50; 50; 49; 32; 98; 13; 10]%N.
(** MX 0 closes the connection at once; MX 1 has a DANE-EE record and a certificate that does not verify (65) *)
Definition witness_wrong_host : tcase :=
  mkCase false
    [ mkConn true false true [] 0 0 [] [] [];
      mkConn true false true [(3%N, 1%Z)] 0 65 [w_banner; w_ehlo_tls; w_go] [] [w_in_tls] ].

Theorem wrong_host_refuted : ~ (forall k, C18_holds k).
Proof.
  intros H. specialize (H witness_wrong_host).
  set (tr := trace witness_wrong_host) in *.
  (* the event at which the message is started *)
  assert (Hsplit : exists n ext, nth_error tr n = Some (EvMail true ext) /\
             need_verify own_tlsa (conn_of witness_wrong_host 1) = true /\
             last_conn (firstn n tr) = Some 1 /\
             existsb (fun e => match e with EvVfy _ => true | _ => false end) (since_conn (firstn n tr)) = false).
  { exists 15, 0%N. vm_compute. repeat split. }
  destruct Hsplit as (n & ext & Hn & Hnv & Hl & Hno).
  assert (Hdec : tr = firstn n tr ++ EvMail true ext :: skipn (S n) tr).
  { clear -Hn. revert n Hn. induction tr as [|x tr IH]; intros [|n] Hn; simpl in *; try discriminate.
    - inversion Hn; subst. reflexivity.
    - f_equal. now apply IH. }
  pose proof (H _ _ _ Hdec) as (i & Hi & _ & _ & _ & Hv & _).
  rewrite Hl in Hi. inversion Hi; subst i.
  specialize (Hv Hnv).
  assert (Hex : existsb (fun e => match e with EvVfy _ => true | _ => false end) (since_conn (firstn n tr)) = true).
  { apply existsb_exists. exists (EvVfy 0). split; [exact Hv|reflexivity]. }
  rewrite Hno in Hex. discriminate.
Qed.

Lemma witness_in_class : class_wrong_host witness_wrong_host = true.
Proof. vm_compute. reflexivity. Qed.

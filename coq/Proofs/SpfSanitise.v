(** C11, stage 2: the two sanitisers of qsmtpd/spf.c as byte maps, and the
    Received-SPF header built from sanitised text. *)
From Coq Require Import Lia ZifyBool ZifyN.
From Qv Require Import Common.Bytes Gen.GenSpf Model.SpfBase Model.SpfEnv Model.SpfMacro Model.Spf Spec.SpfSpec.
Local Open Scope N_scope.

Ltac bt_consts := unfold BT_KEEP_CTL, BT_LOW, BT_HIGH, BT_DROP, BT_REPL, EXP_LOW, EXP_REPL in *.

(** record_bad_token(): every byte that is kept or substituted is printable
    ASCII other than '(' ')' '\' — provided it is not white space, which it never is
    because the token ends at white space. *)
Lemma bt_char_clean c : wspace c = false -> comment_byte (bt_char c) = true.
Proof.
  unfold wspace, bt_char, comment_byte, mem. bt_consts. cbn [existsb].
  intros H.
  destruct (_ || _ || _) eqn:E in |- *; cbn [existsb]; lia.
Qed.

Lemma take_while_forall (f : N -> bool) s : forallb f (take_while f s) = true.
Proof.
  induction s as [|c s IH]; simpl; [reflexivity|].
  destruct (f c) eqn:E; simpl; [rewrite E; exact IH|reflexivity].
Qed.

Lemma record_bad_token_clean tk : forallb comment_byte (record_bad_token tk) = true.
Proof.
  unfold record_bad_token.
  pose proof (take_while_forall (fun c => negb (wspace c)) tk) as H.
  induction (take_while (fun c => negb (wspace c)) tk) as [|c l IH]; simpl; [reflexivity|].
  simpl in H. apply andb_true_iff in H as [H1 H2].
  rewrite bt_char_clean by (destruct (wspace c); [discriminate|reflexivity]).
  simpl. apply IH, H2.
Qed.

Lemma comment_byte_reply c : comment_byte c = true -> reply_byte c = true.
Proof. unfold comment_byte, reply_byte. lia. Qed.

Lemma forallb_impl {A} (f g : A -> bool) l :
  (forall x, f x = true -> g x = true) -> forallb f l = true -> forallb g l = true.
Proof.
  intros H. induction l as [|x l IH]; simpl; [auto|].
  intros E. apply andb_true_iff in E as [E1 E2]. rewrite (H _ E1), (IH E2). reflexivity.
Qed.

Lemma record_bad_token_reply tk : reply_text (record_bad_token tk) = true.
Proof. eapply forallb_impl; [apply comment_byte_reply|apply record_bad_token_clean]. Qed.

(** the exp= text: what survives the loop is 7 bit without control characters
    below 32 (a byte 127 is kept, bytes >= 128 drop the whole explanation),
    and has the length of the expansion *)
Lemma exp_sanitise_clean s r : exp_sanitise s = Some r -> reply_text r = true /\ length r = length s.
Proof.
  revert r. induction s as [|c s IH]; simpl; intros r H.
  - inversion H; subst. split; reflexivity.
  - bt_consts.
    destruct (c <? 32) eqn:E1.
    + destruct (exp_sanitise s) as [r'|]; simpl in H; [|discriminate].
      inversion H; subst. destruct (IH _ eq_refl) as [I1 I2]. simpl. rewrite I1, I2. split; reflexivity.
    + destruct (128 <=? c) eqn:E2; [discriminate|].
      destruct (exp_sanitise s) as [r'|]; simpl in H; [|discriminate].
      inversion H; subst. destruct (IH _ eq_refl) as [I1 I2]. simpl. rewrite I1, I2.
      split; [|reflexivity]. unfold reply_byte. rewrite andb_true_r. lia.
Qed.

Lemma exp_sanitise_ok s : exp_ok (exp_sanitise s) = true.
Proof.
  unfold exp_ok. destruct (exp_sanitise s) eqn:E; [|reflexivity].
  apply exp_sanitise_clean in E. apply E.
Qed.

(** exactly which bytes survive: those of 32..127 unchanged, lower ones as '%' *)
Lemma exp_sanitise_bytes s r : exp_sanitise s = Some r ->
  Forall2 (fun a b => a < 128 /\ b = (if a <? 32 then 37 else a)) s r.
Proof.
  revert r. induction s as [|c s IH]; simpl; intros r H.
  - inversion H; constructor.
  - bt_consts.
    destruct (c <? 32) eqn:E1.
    + destruct (exp_sanitise s) as [r'|]; simpl in H; [|discriminate].
      inversion H; subst. constructor; [split; [lia|rewrite E1; reflexivity]|apply IH; reflexivity].
    + destruct (128 <=? c) eqn:E2; [discriminate|].
      destruct (exp_sanitise s) as [r'|]; simpl in H; [|discriminate].
      inversion H; subst. constructor; [split; [lia|rewrite E1; reflexivity]|apply IH; reflexivity].
Qed.

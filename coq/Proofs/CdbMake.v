(** cdb_make writes a well-formed constant database. *)
From Qv Require Import Common.Bytes Gen.GenCdb Model.Cdb Spec.CdbSpec Proofs.CdbSafe Proofs.CdbBytes Proofs.CdbLookup Proofs.CdbTable.

(** * pieces of a concatenation *)
Definition off {A} (g : A -> bytes) (l : list A) (i : nat) : nat := length (concat (map g (firstn i l))).

Lemma firstn_app_exact {A} (a b : list A) : firstn (length a) (a ++ b) = a.
Proof. induction a as [|x a IH]; simpl; [now destruct b|]. now rewrite IH. Qed.
Lemma skipn_app_exact {A} (a b : list A) k : skipn (length a + k) (a ++ b) = skipn k b.
Proof. induction a as [|x a IH]; simpl; [reflexivity|exact IH]. Qed.

Lemma sub_concat_nth {A} (g : A -> bytes) (d : A) : forall l i, i < length l ->
  sub (concat (map g l)) (off g l i) (length (g (nth i l d))) = g (nth i l d).
Proof.
  induction l as [|x l IH]; intros i H; simpl in H; [lia|]. destruct i as [|i].
  - unfold off, sub. cbn [firstn map concat length skipn nth]. apply firstn_app_exact.
  - unfold off, sub in *. cbn [firstn map concat nth]. rewrite app_length, skipn_app_exact. apply IH. lia.
Qed.

Lemma off_le {A} (g : A -> bytes) (d : A) : forall l i, i < length l ->
  off g l i + length (g (nth i l d)) <= length (concat (map g l)).
Proof.
  induction l as [|x l IH]; intros i H; simpl in H; [lia|]. destruct i as [|i]; unfold off in *; cbn [firstn map concat nth length].
  - rewrite app_length. lia.
  - rewrite !app_length. specialize (IH i ltac:(lia)). lia.
Qed.

Lemma sub_app_l {A} (m c : list A) o n : o + n <= length m -> sub (m ++ c) o n = sub m o n.
Proof.
  intros H. unfold sub. rewrite skipn_app. rewrite firstn_app. rewrite skipn_length.
  replace (n - (length m - o)) with 0 by lia. replace (o - length m) with 0 by lia.
  simpl. now rewrite app_nil_r.
Qed.

Lemma has_mid (a m c bs : bytes) o :
  sub m o (length bs) = bs -> o + length bs <= length m -> has (a ++ m ++ c) (N.of_nat (length a + o)) bs.
Proof.
  intros E L. split; [rewrite !app_length; lia|]. rewrite Nat2N.id. unfold sub. rewrite skipn_app_exact.
  fold (sub (m ++ c) o (length bs)). rewrite sub_app_l by exact L. exact E.
Qed.

(** * records *)
Lemma rec_positions_length : forall recs p, length (rec_positions p recs) = length recs.
Proof. induction recs as [|kv r IH]; intros p; simpl; [reflexivity|]. now rewrite IH. Qed.

Lemma rec_positions_nth : forall recs p i, i < length recs ->
  nth i (rec_positions p recs) 0%N = (p + N.of_nat (off ser_rec recs i))%N.
Proof.
  induction recs as [|kv r IH]; intros p i H; simpl in H; [lia|]. destruct i as [|i].
  - unfold off. simpl. lia.
  - cbn [rec_positions nth]. rewrite IH by lia. unfold off. cbn [firstn map concat]. rewrite app_length. lia.
Qed.

(** * header and tables *)
Section Layout.
  Variables hs ps : list N.
  Definition gt (tb : list islot) : bytes := concat (map (ser_islot hs ps) tb).

  Lemma gt_length tb : length (gt tb) = 8 * length tb.
  Proof. unfold gt. apply length_concat8. intros [x|]; reflexivity. Qed.

  Lemma header_length : forall tbls p, length (header p tbls) = 8 * length tbls.
  Proof. induction tbls as [|t r IH]; intros p; [reflexivity|]. cbn [header]. rewrite !app_length, IH. simpl. lia. Qed.

  Lemma header_nth : forall tbls p t, t < length tbls ->
    sub (header p tbls) (8 * t) 8 =
    le32 (p + N.of_nat (off gt tbls t)) ++ le32 (N.of_nat (length (nth t tbls []))).
  Proof.
    induction tbls as [|x r IH]; intros p t H; simpl in H; [lia|]. destruct t as [|t].
    - cbn [header nth]. unfold off. cbn [firstn map concat length]. rewrite N.add_0_r.
      change (8 * 0) with 0. unfold sub. cbn [skipn].
      rewrite app_assoc. apply (firstn_app_exact (le32 p ++ le32 (N.of_nat (length x)))).
    - cbn [header nth]. unfold sub. replace (8 * S t) with (length (le32 p ++ le32 (N.of_nat (length x))) + 8 * t) by (simpl; lia).
      rewrite app_assoc, skipn_app_exact. fold (sub (header (p + 8 * N.of_nat (length x)) r) (8 * t) 8).
      rewrite IH by lia. unfold off. cbn [firstn map concat]. rewrite app_length, gt_length.
      do 2 f_equal. lia.
  Qed.
End Layout.

Lemma le32_bytes v : Forall (fun b => (b < 256)%N) (le32 v).
Proof. unfold le32. repeat constructor; apply N.mod_lt; discriminate. Qed.

Lemma Forall_concat {A} (P : A -> Prop) (ll : list (list A)) : Forall (Forall P) ll -> Forall P (concat ll).
Proof. induction 1; simpl; [constructor|]. apply Forall_app. now split. Qed.

Lemma header_bytes : forall tbls p, Forall (fun b => (b < 256)%N) (header p tbls).
Proof.
  induction tbls as [|t r IH]; intros p; [constructor|]. cbn [header].
  apply Forall_app. split; [apply le32_bytes|]. apply Forall_app. split; [apply le32_bytes|apply IH].
Qed.

Lemma nth_map_seq {A} (g : nat -> A) (d : A) n t : t < n -> nth t (map g (seq 0 n)) d = g t.
Proof.
  intros H. rewrite (nth_indep _ d (g 0)) by (rewrite map_length, seq_length; exact H).
  rewrite map_nth, seq_nth by exact H. reflexivity.
Qed.

Lemma cdb_layout_wf recs hs ps raw body tb p0 :
  hs = map (fun kv => std_hash (fst kv)) recs -> ps = rec_positions 2048 recs -> length raw = 256 ->
  (forall t, t < 256 -> table_ok recs (N.of_nat t) (nth t raw [])) ->
  body = concat (map ser_rec recs) -> tb = concat (map (gt hs ps) raw) -> p0 = (2048 + N.of_nat (length body))%N ->
  (N.of_nat (length (header p0 raw ++ body ++ tb)) < M32)%N ->
  Forall (fun kv => Forall (fun b => (b < 256)%N) (fst kv) /\ Forall (fun b => (b < 256)%N) (snd kv)) recs ->
  cdb_wf (header p0 raw ++ body ++ tb) recs.
Proof.
  intros Ehs Eps RL TOK Ebody Etb Ep0 Hsmall Hb.
  assert (HL : N.of_nat (length (header p0 raw)) = 2048%N) by (rewrite header_length, RL; reflexivity).
  split; [exact Hsmall|]. split.
  { apply Forall_app. split; [apply header_bytes|]. apply Forall_app. split.
    - rewrite Ebody. apply Forall_concat. apply Forall_map. eapply Forall_impl; [|exact Hb]. intros kv [A B]. unfold ser_rec.
      repeat (apply Forall_app; split); try apply le32_bytes; assumption.
    - rewrite Etb. apply Forall_concat. apply Forall_map. apply Forall_forall. intros t _. apply Forall_concat. apply Forall_map.
      apply Forall_forall. intros [x|] _; cbn [ser_islot]; repeat (apply Forall_app; split); apply le32_bytes. }
  set (mk := fun u => ((p0 + N.of_nat (off (gt hs ps) raw u))%N, nth u raw [])).
  exists ps, (map mk (seq 0 256)). rewrite <- Ehs.
  split; [rewrite Eps; apply rec_positions_length|]. split; [rewrite map_length, seq_length; reflexivity|]. split.
  - (* records *)
    intros i Hi. rewrite Eps. rewrite rec_positions_nth by exact Hi. split; [lia|].
    replace (2048 + N.of_nat (off ser_rec recs i))%N with (N.of_nat (length (header p0 raw) + off ser_rec recs i)) by lia.
    rewrite Ebody. apply has_mid; [apply sub_concat_nth; exact Hi|apply off_le; exact Hi].
  - (* tables *)
    intros t Ht.
    assert (NT : nth t (map mk (seq 0 256)) (0%N, []) = mk t) by (apply nth_map_seq; exact Ht).
    rewrite NT. unfold mk. cbn [fst snd]. split; [|split].
    + (* header entry *)
      pose proof (header_nth hs ps raw p0 t ltac:(lia)) as HN.
      split; [rewrite !app_length, !le32_length; lia|].
      rewrite app_length, !le32_length. change (4 + 4) with 8.
      replace (N.to_nat (8 * N.of_nat t)) with (8 * t) by lia.
      rewrite sub_app_l by lia. exact HN.
    + (* table bytes *)
      replace (p0 + N.of_nat (off (gt hs ps) raw t))%N with (N.of_nat (length (header p0 raw ++ body) + off (gt hs ps) raw t))
        by (rewrite app_length; lia).
      rewrite app_assoc. rewrite <- (app_nil_r tb). rewrite Etb. fold (gt hs ps (nth t raw [])).
      apply has_mid.
      * apply (sub_concat_nth (gt hs ps) []). lia.
      * apply (off_le (gt hs ps) []). lia.
    + (* table contents *)
      apply TOK. exact Ht.
Qed.

Theorem cdb_make_wf recs :
  (N.of_nat (length (cdb_make recs)) < M32)%N ->
  Forall (fun kv => Forall (fun b => (b < 256)%N) (fst kv) /\ Forall (fun b => (b < 256)%N) (snd kv)) recs ->
  cdb_wf (cdb_make recs) recs.
Proof.
  intros Hsmall Hb. unfold cdb_make in *.
  eapply cdb_layout_wf; try reflexivity; try assumption.
  intros t Ht. rewrite nth_map_seq by exact Ht. apply make_table_ok.
Qed.

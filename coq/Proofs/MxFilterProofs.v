(** filter_my_ips removes exactly the local addresses; composed as in main() no local
    address is ever attempted on port 25. *)
From Coq Require Import List NArith Bool Arith Lia Sorting.Permutation Sorting.Sorted.
From Qv Require Import Common.Bytes Gen.GenMx Model.Mx Spec.MxSpec Proofs.MxSortProofs Proofs.MxConnProofs.
Import ListNotations.
Local Open Scope bool_scope.

(* ------------------------------------------------------------------ one entry, one interface *)

Definition keepf (m : addr -> bool) (a : addr) : bool := negb (m a).

Lemma find_idx_none m l : find_idx m l = None -> filter (keepf m) l = l.
Proof.
  induction l as [|a r IH]; intros H; [reflexivity|].
  cbn [find_idx] in H. cbn [filter].
  destruct (m a) eqn:Ma; [discriminate|].
  assert (Hk : keepf m a = true) by (unfold keepf; rewrite Ma; reflexivity). rewrite Hk.
  destruct (find_idx m r); [discriminate|]. rewrite IH; reflexivity.
Qed.

Lemma find_idx_some m l : forall s, find_idx m l = Some s ->
  s < length l /\ filter (keepf m) (remove_nth s l) = filter (keepf m) l.
Proof.
  induction l as [|a r IH]; intros s H; cbn [find_idx] in H; [discriminate|].
  destruct (m a) eqn:Ma.
  - injection H as <-. cbn [remove_nth length filter].
    assert (Hk : keepf m a = false) by (unfold keepf; rewrite Ma; reflexivity). rewrite Hk.
    split; [lia|reflexivity].
  - destruct (find_idx m r) as [s'|]; [|discriminate]. cbn in H. injection H as <-.
    destruct (IH s' eq_refl) as [Hl Hf]. cbn [remove_nth length filter].
    assert (Hk : keepf m a = true) by (unfold keepf; rewrite Ma; reflexivity). rewrite Hk.
    split; [lia|]. rewrite Hf. reflexivity.
Qed.

Lemma remove_nth_length {A} (l : list A) : forall s, s < length l -> length (remove_nth s l) = length l - 1.
Proof.
  induction l as [|a r IH]; intros s H; cbn [length] in *; [lia|].
  destruct s as [|s']; cbn [remove_nth length]; [lia|]. rewrite IH by lia. lia.
Qed.

Lemma set_addrs_same e : set_addrs e (addrs e) = e.
Proof. destruct e; reflexivity. Qed.

Lemma set_addrs_set_addrs e l1 l2 : set_addrs (set_addrs e l1) l2 = set_addrs e l2.
Proof. reflexivity. Qed.

Definition entry_result (m : addr -> bool) (e : mx) : option mx :=
  match filter (keepf m) (addrs e) with
  | [] => None
  | l => Some (set_addrs e l)
  end.

Lemma entry_loop_result fuel : forall m e,
  nonempty e -> length (addrs e) < fuel -> entry_loop fuel m e = Ok (entry_result m e).
Proof.
  induction fuel as [|f IH]; intros m e Hne Hlen; [lia|].
  cbn [entry_loop]. unfold entry_result.
  destruct (find_idx m (addrs e)) as [s|] eqn:Ef.
  - destruct (find_idx_some m (addrs e) s Ef) as [Hs Hfilt].
    destruct (Nat.eqb (length (addrs e)) 1) eqn:E1.
    + apply Nat.eqb_eq in E1. rewrite <- Hfilt.
      destruct (addrs e) as [|a [|b r]]; try discriminate.
      destruct s; [|cbn in Hs; lia]. reflexivity.
    + apply Nat.eqb_neq in E1.
      rewrite IH.
      * unfold entry_result. cbn [set_addrs addrs]. rewrite Hfilt.
        destruct (filter (keepf m) (addrs e)); reflexivity.
      * unfold nonempty. cbn [set_addrs addrs]. intros Hc.
        pose proof (remove_nth_length (addrs e) s Hs) as Hl. rewrite Hc in Hl. cbn [length] in Hl. lia.
      * cbn [set_addrs addrs]. rewrite remove_nth_length by exact Hs. lia.
  - rewrite (find_idx_none m (addrs e) Ef).
    unfold nonempty in Hne. destruct (addrs e) as [|a r] eqn:Ea; [congruence|].
    rewrite <- Ea, set_addrs_same. reflexivity.
Qed.

(** one pass over the list for one interface address *)
Definition pass (m : addr -> bool) (l : list mx) : list mx :=
  filter nonempty_b (map (fun e => set_addrs e (filter (keepf m) (addrs e))) l).

Lemma nonempty_b_iff e : nonempty_b e = true <-> nonempty e.
Proof. unfold nonempty_b, nonempty. destruct (addrs e); split; intros; congruence. Qed.

Lemma filter_one_pass m l : Forall nonempty l -> filter_one m l = Ok (pass m l).
Proof.
  induction 1 as [|e r He Hr IH]; [reflexivity|].
  cbn [filter_one]. rewrite (entry_loop_result _ m e He) by lia. cbn [bind]. rewrite IH. cbn [bind].
  unfold pass. cbn [map filter]. unfold entry_result, nonempty_b at 1. cbn [set_addrs addrs].
  destruct (filter (keepf m) (addrs e)); reflexivity.
Qed.

Lemma pass_nonempty m l : Forall nonempty (pass m l).
Proof.
  unfold pass. apply Forall_forall. intros e He. apply filter_In in He. apply nonempty_b_iff, He.
Qed.

(* ------------------------------------------------------------------ all interfaces *)

Lemma match4_me_by x a : match4 x a = me_by (If4 x) a.
Proof. reflexivity. Qed.
Lemma match6_me_by x a : match6 x a = me_by (If6 x) a.
Proof. reflexivity. Qed.

Definition keep_all (ifs : list iface) (a : addr) : bool := negb (is_me ifs a).

Lemma filter_filter {A} (f g : A -> bool) l : filter g (filter f l) = filter (fun a => f a && g a) l.
Proof.
  induction l as [|a r IH]; [reflexivity|]. cbn [filter]. destruct (f a); cbn [filter andb]; rewrite IH; reflexivity.
Qed.

Lemma filter_all_true {A} (f : A -> bool) l : (forall a, f a = true) -> filter f l = l.
Proof. intros H. induction l as [|a r IH]; [reflexivity|]. cbn [filter]. rewrite H, IH. reflexivity. Qed.

Lemma pass_cons m e r :
  pass m (e :: r) = match filter (keepf m) (addrs e) with
                    | [] => pass m r
                    | b :: t => set_addrs e (b :: t) :: pass m r
                    end.
Proof.
  unfold pass. cbn [map filter]. unfold nonempty_b at 1. cbn [set_addrs addrs].
  destruct (filter (keepf m) (addrs e)); reflexivity.
Qed.

Lemma filter_ref_cons_entry ifs e r :
  filter_ref ifs (e :: r) = match filter (fun a => negb (is_me ifs a)) (addrs e) with
                            | [] => filter_ref ifs r
                            | b :: t => set_addrs e (b :: t) :: filter_ref ifs r
                            end.
Proof.
  unfold filter_ref. cbn [map filter]. unfold nonempty_b at 1. cbn [set_addrs addrs].
  destruct (filter (fun a => negb (is_me ifs a)) (addrs e)); reflexivity.
Qed.

Lemma filter_ref_nil l : Forall nonempty l -> filter_ref [] l = l.
Proof.
  induction 1 as [|e r He Hr IH]; [reflexivity|].
  rewrite filter_ref_cons_entry, (filter_all_true (fun a => negb (is_me [] a))) by reflexivity. rewrite IH.
  unfold nonempty in He. destruct (addrs e) as [|b t] eqn:Ea; [congruence|].
  rewrite <- Ea, set_addrs_same. reflexivity.
Qed.

Lemma filter_ref_cons i ifs l :
  filter_ref (i :: ifs) l = filter_ref ifs (pass (me_by i) l).
Proof.
  induction l as [|e r IH]; [reflexivity|].
  rewrite filter_ref_cons_entry, pass_cons.
  assert (Hff : filter (fun a => negb (is_me (i :: ifs) a)) (addrs e)
                = filter (fun a => negb (is_me ifs a)) (filter (keepf (me_by i)) (addrs e))).
  { rewrite filter_filter. apply filter_ext. intros a. unfold keepf. cbn [is_me existsb]. rewrite negb_orb. reflexivity. }
  rewrite Hff.
  destruct (filter (keepf (me_by i)) (addrs e)) as [|b t] eqn:Ek.
  - cbn [filter]. exact IH.
  - rewrite filter_ref_cons_entry. cbn [set_addrs addrs]. rewrite IH.
    destruct (filter (fun a => negb (is_me ifs a)) (b :: t)); reflexivity.
Qed.

Lemma pass_false l : Forall nonempty l -> pass (fun _ => false) l = l.
Proof.
  induction 1 as [|e r He Hr IH]; [reflexivity|].
  rewrite pass_cons, (filter_all_true (keepf (fun _ => false))) by reflexivity. rewrite IH.
  unfold nonempty in He. destruct (addrs e) as [|b t] eqn:Ea; [congruence|].
  rewrite <- Ea, set_addrs_same. reflexivity.
Qed.

Lemma filter_ifs_ref ifs : forall l, Forall nonempty l -> filter_ifs ifs l = Ok (filter_ref ifs l).
Proof.
  induction ifs as [|i t IH]; intros l Hl.
  - cbn [filter_ifs]. rewrite filter_ref_nil by exact Hl. reflexivity.
  - rewrite filter_ref_cons. destruct i as [| |x|x]; cbn [filter_ifs].
    + change (me_by IfNull) with (fun _ : addr => false). rewrite pass_false by exact Hl. apply IH. exact Hl.
    + change (me_by IfOther) with (fun _ : addr => false). rewrite pass_false by exact Hl. apply IH. exact Hl.
    + rewrite (filter_one_pass (match4 x) l Hl). cbn [bind]. apply IH. apply pass_nonempty.
    + rewrite (filter_one_pass (match6 x) l Hl). cbn [bind]. apply IH. apply pass_nonempty.
Qed.

Lemma filter_ref_no_me ifs l : no_me ifs (filter_ref ifs l).
Proof.
  unfold no_me, filter_ref. apply Forall_forall. intros e He.
  apply filter_In in He. destruct He as [He _]. apply in_map_iff in He. destruct He as (e0 & <- & _).
  cbn [set_addrs addrs]. apply Forall_forall. intros a Ha. apply filter_In in Ha. destruct Ha as [_ Ha].
  destruct (is_me ifs a); [discriminate|reflexivity].
Qed.

Lemma filter_ref_nonempty ifs l : Forall nonempty (filter_ref ifs l).
Proof.
  unfold filter_ref. apply Forall_forall. intros e He. apply filter_In in He. apply nonempty_b_iff, He.
Qed.

Lemma filter_ref_prio ifs l (P : N -> Prop) :
  Forall (fun e => P (prio e)) l -> Forall (fun e => P (prio e)) (filter_ref ifs l).
Proof.
  intros H. unfold filter_ref. apply Forall_forall. intros e He.
  apply filter_In in He. destruct He as [He _]. apply in_map_iff in He. destruct He as (e0 & <- & Hin).
  rewrite Forall_forall in H. exact (H e0 Hin).
Qed.

Theorem filter_my_ips_correct ifs l :
  Forall nonempty l ->
  filter_my_ips false ifs l = Ok (filter_ref ifs l) /\ no_me ifs (filter_ref ifs l).
Proof.
  intros Hl. split; [apply filter_ifs_ref; exact Hl|apply filter_ref_no_me].
Qed.

(* ------------------------------------------------------------------ main(): filter, sort, connect *)

Lemma same_entry_addrs_in a b x : same_entry a b -> In x (addrs b) -> In x (addrs a).
Proof. intros (_ & _ & Hp) Hx. eapply Permutation_in; [apply Permutation_sym; exact Hp|exact Hx]. Qed.

Lemma rearranged_no_me ifs l out : rearranged l out -> no_me ifs l -> no_me ifs out.
Proof.
  intros (p & Hp & HF) Hl. unfold no_me in *.
  assert (Hpp : Forall (fun e => Forall (fun a => is_me ifs a = false) (addrs e)) p)
    by (eapply Permutation_Forall; eassumption).
  clear Hp Hl. induction HF as [|a b ra rb Hab HF IH]; [constructor|].
  inversion Hpp as [|x y Ha Hra]; subst. constructor; [|apply IH; exact Hra].
  apply Forall_forall. intros x Hx. rewrite Forall_forall in Ha. apply Ha. eapply same_entry_addrs_in; eassumption.
Qed.

Lemma rearranged_fresh l out : rearranged l out -> Forall fresh l -> Forall fresh out.
Proof.
  intros (p & Hp & HF) Hl.
  assert (Hpp : Forall fresh p) by (eapply Permutation_Forall; eassumption).
  clear Hp Hl. induction HF as [|a b ra rb Hab HF IH]; [constructor|].
  inversion Hpp as [|x y Ha Hra]; subst. constructor; [|apply IH; exact Hra].
  destruct Hab as (Hpr & _ & Hperm). destruct Ha as [Ha1 Ha2]. split; [rewrite <- Hpr; exact Ha1|].
  intros Hc. apply Ha2. rewrite Hc in Hperm. apply Permutation_nil. apply Permutation_sym. exact Hperm.
Qed.

Lemma no_me_flat ifs l : no_me ifs l -> Forall (fun a => is_me ifs a = false) (flat_addrs l).
Proof.
  unfold no_me, flat_addrs. induction 1 as [|e r He Hr IH]; [constructor|].
  cbn [map concat]. apply Forall_app. split; assumption.
Qed.

Lemma Forall_firstn' {A} (P : A -> Prop) k (l : list A) : Forall P l -> Forall P (firstn k l).
Proof. apply Forall_firstn. Qed.

Theorem qremote_targets_correct ifs l cs0 oracle n :
  l <> [] -> Forall fresh l ->
  (filter_ref ifs l = [] /\ qremote_targets FILTER_PORT false ifs l cs0 oracle n = Ok AllMe)
  \/
  exists l2 s outs,
    qremote_targets FILTER_PORT false ifs l cs0 oracle n = Ok (Tried (filter_ref ifs l) l2 s outs)
    /\ sort_spec (filter_ref ifs l) l2
    /\ outs = ref_calls n (flat_targets l2) oracle
    /\ once_in_order l2 outs
    /\ noent_only_when_exhausted l2 outs
    /\ Forall (fun a => is_me ifs a = false) (all_attempts outs).
Proof.
  intros Hne Hf.
  assert (Hn : Forall nonempty l) by (eapply Forall_impl; [|exact Hf]; intros e [_ H]; exact H).
  unfold qremote_targets. rewrite N.eqb_refl.
  destruct (filter_my_ips_correct ifs l Hn) as [Hfilt Hnome]. rewrite Hfilt. cbn [bind].
  destruct (filter_ref ifs l) as [|h t] eqn:El1; [left; split; reflexivity|right].
  rewrite <- El1 in *.
  assert (Hne1 : filter_ref ifs l <> []) by (rewrite El1; discriminate).
  destruct (sortmx_correct (filter_ref ifs l) Hne1 (filter_ref_nonempty ifs l)) as (l2 & Hsort & Hspec).
  assert (Hf1 : Forall fresh (filter_ref ifs l)).
  { pose proof (filter_ref_nonempty ifs l) as H1.
    pose proof (filter_ref_prio ifs l (fun p => (p <= TRYCONN_FRESH_MAX)%N)) as H2.
    assert (H3 : Forall (fun e => (prio e <= TRYCONN_FRESH_MAX)%N) l) by (eapply Forall_impl; [|exact Hf]; intros e [H _]; exact H).
    specialize (H2 H3). rewrite Forall_forall in *. intros e He. split; [apply H2|apply H1]; exact He. }
  destruct Hspec as (Hre & Hso & Hv6).
  assert (Hf2 : Forall fresh l2) by (eapply rearranged_fresh; eassumption).
  destruct (tryconn_once l2 cs0 oracle n Hf2) as (s & outs & Hcalls & Houts & Honce & Hnoent & _).
  exists l2, s, outs.
  rewrite El1 in Hsort |- *. rewrite Hsort. cbn [bind]. rewrite Hcalls. cbn [bind].
  rewrite <- El1.
  split; [reflexivity|]. split; [repeat split; assumption|]. split; [exact Houts|]. split; [exact Honce|]. split; [exact Hnoent|].
  destruct Honce as (k & Hk). rewrite Hk. apply Forall_firstn'.
  apply no_me_flat. eapply rearranged_no_me; eassumption.
Qed.

(** parselocalpart(): what an accepted local part looks like. *)
From Qv Require Import Common.Bytes Gen.GenAddr Model.Addr Spec.AddrSpec Proofs.AddrTables.

Ltac ulia := unfold bytes, byte in *; lia.

(** inside a quoted string: the rest of its content, the closing quote, then more local part *)
Definition qtail (l : bytes) : Prop :=
  exists q r, l = q ++ cQUOTE :: r /\ qcontent q /\ lweak r.

Definition no_nul_at (l : bytes) : Prop := ~ In NUL l /\ ~ In AT l.

Lemma no_nul_at_cons c l : c <> NUL -> c <> AT -> no_nul_at l -> no_nul_at (c :: l).
Proof. intros H1 H2 [H3 H4]. split; intros [X|X]; congruence || auto. Qed.

Lemma lp_loop_sound m : forall p, length p <= m -> forall t quoted n,
  lp_loop p t quoted = Ok n -> (0 <= n)%Z ->
  exists k, n = Z.of_nat (t + k) /\ k < length p
    /\ (if quoted then qtail (firstn k p) else lweak (firstn k p))
    /\ no_nul_at (firstn k p)
    /\ (nth k p 1%N = NUL \/ nth k p 1%N = AT).
Proof.
  induction m as [|m IH]; intros p Hlen t quoted n Hrun Hn.
  - destruct p; [discriminate|simpl in Hlen; ulia].
  - destruct p as [|c p']; [discriminate|]. cbn [lp_loop] in Hrun.
    assert (Hlen' : length p' <= m) by (simpl in Hlen; ulia).
    destruct (N.eqb c NUL || N.eqb c AT) eqn:Eend.
    { destruct quoted; inversion Hrun; subst; [ulia|].
      exists 0. rewrite Nat.add_0_r. split; [reflexivity|]. split; [simpl; ulia|].
      split; [constructor|]. split; [split; intros []|].
      apply orb_true_iff in Eend as [E|E]; apply N.eqb_eq in E; simpl; auto. }
    apply orb_false_iff in Eend as [En Ea]. apply N.eqb_neq in En, Ea.
    destruct (N.eqb_spec c QUOTE) as [->|Hq].
    { (* a quote toggles *)
      destruct (IH p' Hlen' _ _ _ Hrun Hn) as (k & -> & Hk & Hshape & Hclean & Hend).
      exists (S k). split; [f_equal; ulia|]. split; [simpl; ulia|]. cbn [firstn nth].
      split; [|split; [apply no_nul_at_cons; assumption|exact Hend]].
      destruct quoted; cbn [negb] in Hshape.
      - exists [], (firstn k p'). split; [reflexivity|]. split; [constructor|exact Hshape].
      - destruct Hshape as (q & r & -> & Hqc & Hr). apply lw_quoted; assumption. }
    destruct quoted; cbn [negb] in Hrun.
    + (* inside quotes *)
      destruct (tbl LP_Q_OK c) eqn:Eq.
      * destruct (IH p' Hlen' _ _ _ Hrun Hn) as (k & -> & Hk & Hshape & Hclean & Hend).
        exists (S k). split; [f_equal; ulia|]. split; [simpl; ulia|]. cbn [firstn nth].
        split; [|split; [apply no_nul_at_cons; assumption|exact Hend]].
        destruct Hshape as (q & r & -> & Hqc & Hr).
        exists (c :: q), r. split; [reflexivity|]. split; [|exact Hr].
        apply qc_text; [apply LP_Q_OK_spec; exact Eq|exact Hqc].
      * destruct (N.eqb_spec c BSL) as [->|Hb]; [|inversion Hrun; subst; ulia].
        destruct p' as [|e p'']; [discriminate|].
        destruct (tbl LP_ESC_OK e) eqn:Ee; [|inversion Hrun; subst; ulia].
        assert (Hlen'' : length p'' <= m) by (simpl in Hlen'; ulia).
        destruct (IH p'' Hlen'' _ _ _ Hrun Hn) as (k & -> & Hk & Hshape & Hclean & Hend).
        apply LP_ESC_OK_spec in Ee. apply orb_true_iff in Ee.
        assert (He : e = cQUOTE \/ e = cBSL) by (destruct Ee as [E|E]; apply N.eqb_eq in E; auto).
        exists (S (S k)). split; [f_equal; ulia|]. split; [simpl; ulia|]. cbn [firstn nth].
        split; [|split; [|exact Hend]].
        -- destruct Hshape as (q & r & -> & Hqc & Hr).
           exists (BSL :: e :: q), r. split; [reflexivity|]. split; [|exact Hr].
           apply qc_pair; assumption.
        -- apply no_nul_at_cons; [assumption|assumption|].
           apply no_nul_at_cons; [| |exact Hclean]; destruct He as [->| ->]; discriminate.
    + (* outside quotes *)
      destruct (tbl LP_UNQ_OK c) eqn:Eu; [|inversion Hrun; subst; ulia].
      destruct (IH p' Hlen' _ _ _ Hrun Hn) as (k & -> & Hk & Hshape & Hclean & Hend).
      exists (S k). split; [f_equal; ulia|]. split; [simpl; ulia|]. cbn [firstn nth].
      split; [|split; [apply no_nul_at_cons; assumption|exact Hend]].
      apply lw_char; [|exact Hshape].
      apply LP_UNQ_OK_spec in Eu. apply orb_true_iff in Eu as [E|E]; [now left|right; now apply N.eqb_eq in E].
Qed.

(** parselocalpart(addr) = n >= 0: the first n bytes are a sequence of atext/dot runs and
    correctly terminated quoted strings, contain neither NUL nor an at sign, and byte n is the
    terminator or the at sign *)
Theorem parselocalpart_sound p n :
  parselocalpart p = Ok n -> (0 <= n)%Z ->
  let k := Z.to_nat n in
  k < length p /\ lweak (firstn k p) /\ no_nul_at (firstn k p)
  /\ (nth k p 1%N = NUL \/ nth k p 1%N = AT).
Proof.
  intros Hrun Hn. unfold parselocalpart in Hrun.
  destruct (lp_loop_sound (length p) p (le_n _) 0 false n Hrun Hn) as (k & -> & Hk & Hshape & Hclean & Hend).
  cbn zeta. rewrite Nat.add_0_l, Nat2Z.id. auto.
Qed.

Theorem parselocalpart_range p n : parselocalpart p = Ok n -> (-1 <= n)%Z.
Proof.
  intros H. destruct (Z.lt_ge_cases n 0) as [Hneg|Hpos]; [|ulia].
  unfold parselocalpart in H.
  assert (G : forall m p, length p <= m -> forall t q n, lp_loop p t q = Ok n -> (n = -1 \/ 0 <= n)%Z).
  { clear. induction m as [|m IH]; intros p Hlen t q n Hrun.
    - destruct p; [discriminate|simpl in Hlen; ulia].
    - destruct p as [|c p']; [discriminate|]. cbn [lp_loop] in Hrun.
      assert (Hlen' : length p' <= m) by (simpl in Hlen; ulia).
      destruct (N.eqb c NUL || N.eqb c AT).
      { destruct q; inversion Hrun; subst; ulia. }
      destruct (N.eqb c QUOTE); [eapply IH; eassumption|].
      destruct (negb q).
      + destruct (tbl LP_UNQ_OK c); [eapply IH; eassumption|inversion Hrun; ulia].
      + destruct (tbl LP_Q_OK c); [eapply IH; eassumption|].
        destruct (N.eqb c BSL); [|inversion Hrun; ulia].
        destruct p' as [|e p'']; [discriminate|].
        destruct (tbl LP_ESC_OK e); [|inversion Hrun; ulia].
        eapply (IH p''); [simpl in Hlen'; ulia|eassumption]. }
  destruct (G _ p (le_n _) _ _ _ H); ulia.
Qed.

(* ------------------------------------------------------------------ consequences of [lweak] *)

Lemma clean7_special : clean7 DOT /\ clean7 cQUOTE /\ clean7 cBSL.
Proof. unfold clean7, DOT, cQUOTE, cBSL, CR, LF. repeat split; try lia; discriminate. Qed.

Lemma qcontent_clean q : qcontent q -> Forall clean7 q.
Proof.
  induction 1 as [|c r Hc _ IH|e r He _ IH].
  - constructor.
  - constructor; [now apply qtext_clean|exact IH].
  - destruct clean7_special as (_ & Hq & Hb).
    constructor; [exact Hb|]. constructor; [destruct He as [->| ->]; assumption|exact IH].
Qed.

(** an accepted local part is 7-bit and free of NUL, CR and LF *)
Lemma lweak_clean l : lweak l -> Forall clean7 l.
Proof.
  induction 1 as [|c r Hc _ IH|q r Hq _ IH].
  - constructor.
  - constructor; [|exact IH]. destruct Hc as [Hc| ->]; [now apply atext_clean|apply clean7_special].
  - destruct clean7_special as (_ & Hqq & _).
    constructor; [exact Hqq|]. apply Forall_app. split; [now apply qcontent_clean|].
    constructor; [exact Hqq|exact IH].
Qed.

(* ------------------------------------------------------------------ dot-string / quoted string vs. the class of F-C14-2 *)

Lemma atext_quote : atext cQUOTE = false. Proof. reflexivity. Qed.
Lemma atext_dot : atext DOT = false. Proof. reflexivity. Qed.

Lemma dot_string_cons c s : atext c = true -> dot_string s -> dot_string (c :: s).
Proof.
  intros Hc H. inversion H as [a [Ha1 Ha2]|a r [Ha1 Ha2] Hr]; subst.
  - apply ds_one. split; [discriminate|constructor; assumption].
  - change (c :: a ++ DOT :: r) with ((c :: a) ++ DOT :: r). apply ds_more; [|exact Hr].
    split; [discriminate|constructor; assumption].
Qed.

Lemma last_cons2 {A} (a b : A) l d : last (a :: b :: l) d = last (b :: l) d.
Proof. reflexivity. Qed.

Lemma has_dotdot_cons2 a b r : has_dotdot (a :: b :: r) = (N.eqb a DOT && N.eqb b DOT) || has_dotdot (b :: r).
Proof. reflexivity. Qed.

Lemma dot_string_of m : forall s, length s <= m ->
  Forall (fun c => atext c = true \/ c = DOT) s -> s <> [] ->
  bad_dots s = false -> dot_string s.
Proof.
  induction m as [|m IH]; intros s Hlen HF Hne Hbad.
  - destruct s; [congruence|simpl in Hlen; ulia].
  - destruct s as [|c s']; [congruence|].
    unfold bad_dots in Hbad. apply orb_false_iff in Hbad as [Hbad Hdd]. apply orb_false_iff in Hbad as [Hhd Hlast].
    cbn [hd] in Hhd. apply N.eqb_neq in Hhd, Hlast.
    inversion HF as [|? ? Hc HF']; subst.
    assert (Hat : atext c = true) by (destruct Hc; [assumption|congruence]).
    destruct s' as [|c2 s''].
    + apply ds_one. split; [discriminate|constructor; [assumption|constructor]].
    + rewrite has_dotdot_cons2 in Hdd. apply orb_false_iff in Hdd as [_ Hdd].
      rewrite last_cons2 in Hlast.
      destruct (N.eqb_spec c2 DOT) as [->|Hc2].
      * (* c . s'' *)
        change (c :: DOT :: s'') with ([c] ++ DOT :: s'').
        apply ds_more; [split; [discriminate|constructor; [assumption|constructor]]|].
        inversion HF' as [|? ? _ HF'']; subst.
        destruct s'' as [|c3 s3]; [simpl in Hlast; congruence|].
        apply IH; [simpl in Hlen |- *; ulia|exact HF''|discriminate|].
        rewrite has_dotdot_cons2 in Hdd. apply orb_false_iff in Hdd as [Hd1 Hd2].
        rewrite N.eqb_refl in Hd1. cbn [andb] in Hd1.
        unfold bad_dots. cbn [hd]. rewrite Hd1. rewrite last_cons2 in Hlast.
        apply N.eqb_neq in Hlast. rewrite Hlast. exact Hd2.
      * apply dot_string_cons; [assumption|].
        apply IH; [simpl in Hlen |- *; ulia|exact HF'|discriminate|].
        unfold bad_dots. cbn [hd]. apply N.eqb_neq in Hc2, Hlast. rewrite Hc2, Hlast. exact Hdd.
Qed.

Lemma lweak_noquote l : lweak l -> existsb (N.eqb cQUOTE) l = false ->
  Forall (fun c => atext c = true \/ c = DOT) l.
Proof.
  induction 1 as [|c r Hc _ IH|q r Hq _ IH]; intros Hnq.
  - constructor.
  - cbn [existsb] in Hnq. apply orb_false_iff in Hnq as [_ Hnq]. constructor; auto.
  - cbn [existsb] in Hnq. rewrite N.eqb_refl in Hnq. discriminate.
Qed.

Lemma closes_qcontent q r' : qcontent q -> closes_at_end (q ++ cQUOTE :: r') = Nat.eqb (length r') 0.
Proof.
  induction 1 as [|c r Hc _ IH|e r He _ IH].
  - simpl. reflexivity.
  - destruct (qtext_not_special c Hc) as [H1 H2]. apply N.eqb_neq in H1, H2.
    cbn [app closes_at_end]. rewrite H1, H2. exact IH.
  - cbn [app closes_at_end]. change (N.eqb cBSL cQUOTE) with false. rewrite N.eqb_refl. exact IH.
Qed.

(** Outside the class of F-C14-2 an accepted, non-empty local part is a Dot-string or a Quoted-string *)
Theorem local_partial l : lweak l -> l <> [] -> local_class l = false -> local_rfc l.
Proof.
  intros Hw Hne Hcl. unfold local_class in Hcl.
  destruct (existsb (N.eqb cQUOTE) l) eqn:Eq.
  - right. apply negb_false_iff in Hcl. unfold one_quoted in Hcl.
    destruct l as [|c r]; [discriminate|]. apply andb_true_iff in Hcl as [Hc Hclose]. apply N.eqb_eq in Hc. subst c.
    inversion Hw as [|c r0 Hc _|q r' Hq Hr']; subst.
    + destruct Hc as [Hc|Hc]; [rewrite atext_quote in Hc|]; discriminate.
    + rewrite closes_qcontent in Hclose by assumption.
      destruct r'; [|discriminate]. exists q. split; [reflexivity|assumption].
  - left. apply (dot_string_of (length l)); [ulia| |assumption|assumption].
    apply lweak_noquote; assumption.
Qed.

Lemma has_dotdot_nodot a : ~ In DOT a -> has_dotdot a = false.
Proof.
  induction a as [|x a IH]; intros H; [reflexivity|].
  destruct a as [|y a]; [reflexivity|]. cbn [has_dotdot].
  assert (Hx : x <> DOT) by (intros ->; apply H; now left).
  apply N.eqb_neq in Hx. rewrite Hx. cbn [andb orb]. apply IH. intros X. apply H. now right.
Qed.

Lemma has_dotdot_app a r : ~ In DOT a -> a <> [] -> hd 0%N r <> DOT -> has_dotdot r = false ->
  has_dotdot (a ++ DOT :: r) = false.
Proof.
  induction a as [|x a IH]; intros Hnd Hne Hhd Hr; [congruence|].
  assert (Hx : x <> DOT) by (intros ->; apply Hnd; now left).
  apply N.eqb_neq in Hx.
  destruct a as [|y a].
  - cbn [app has_dotdot]. rewrite Hx. cbn [andb orb].
    destruct r as [|z r]; [reflexivity|]. cbn [hd] in Hhd. apply N.eqb_neq in Hhd.
    rewrite N.eqb_refl, Hhd. cbn [andb orb]. exact Hr.
  - change ((x :: y :: a) ++ DOT :: r) with (x :: (y :: a) ++ DOT :: r).
    change ((y :: a) ++ DOT :: r) with (y :: a ++ DOT :: r).
    cbn [has_dotdot]. rewrite Hx. cbn [andb orb].
    change (y :: a ++ DOT :: r) with ((y :: a) ++ DOT :: r).
    apply IH; [intros X; apply Hnd; now right|discriminate|assumption|assumption].
Qed.

Lemma atom_facts a : atom a -> ~ In DOT a /\ ~ In cQUOTE a /\ hd 0%N a <> DOT /\ last a 0%N <> DOT.
Proof.
  intros [Hne HF]. rewrite Forall_forall in HF.
  assert (H1 : ~ In DOT a) by (intros X; apply HF in X; rewrite atext_dot in X; discriminate).
  assert (H2 : ~ In cQUOTE a) by (intros X; apply HF in X; rewrite atext_quote in X; discriminate).
  split; [exact H1|]. split; [exact H2|].
  destruct a as [|x a]; [congruence|]. split.
  - intros E. apply H1. left. exact E.
  - intros E. apply H1. rewrite <- E. rewrite (app_removelast_last 0%N (l := x :: a)) at 2 by discriminate.
    apply in_or_app. right. now left.
Qed.

Lemma last_app_cons {A} (a : list A) x r d : last (a ++ x :: r) d = last (x :: r) d.
Proof.
  induction a as [|y a IH]; [reflexivity|]. cbn [app].
  destruct (a ++ x :: r) eqn:E; [destruct a; discriminate|]. rewrite <- E at 1. rewrite <- IH. rewrite E. reflexivity.
Qed.

Lemma dot_string_good l : dot_string l ->
  l <> [] /\ existsb (N.eqb cQUOTE) l = false /\ bad_dots l = false.
Proof.
  induction 1 as [a Ha|a r Ha Hr IH].
  - destruct (atom_facts a Ha) as (H1 & H2 & H3 & H4). destruct Ha as [Hne _].
    split; [exact Hne|]. split.
    + destruct (existsb (N.eqb cQUOTE) a) eqn:E; [|reflexivity].
      apply existsb_exists in E as (x & Hx & Ex). apply N.eqb_eq in Ex. subst x. contradiction.
    + unfold bad_dots. apply N.eqb_neq in H3, H4. rewrite H3, H4. cbn [orb]. now apply has_dotdot_nodot.
  - destruct (atom_facts a Ha) as (H1 & H2 & H3 & H4). destruct Ha as [Hne _].
    destruct IH as (Hrne & Hrq & Hrb).
    unfold bad_dots in Hrb. apply orb_false_iff in Hrb as [Hrb Hrdd]. apply orb_false_iff in Hrb as [Hrhd Hrlast].
    split; [destruct a; discriminate|]. split.
    + rewrite existsb_app. cbn [existsb]. rewrite Hrq.
      change (N.eqb cQUOTE DOT) with false. cbn [orb]. rewrite orb_false_r.
      destruct (existsb (N.eqb cQUOTE) a) eqn:E; [|reflexivity].
      apply existsb_exists in E as (x & Hx & Ex). apply N.eqb_eq in Ex. subst x. contradiction.
    + unfold bad_dots.
      assert (E1 : hd 0%N (a ++ DOT :: r) = hd 0%N a) by (destruct a; [congruence|reflexivity]).
      rewrite E1. apply N.eqb_neq in H3. rewrite H3. cbn [orb].
      rewrite last_app_cons. destruct r as [|z r]; [congruence|]. rewrite last_cons2, Hrlast. cbn [orb].
      apply has_dotdot_app; try assumption. cbn [hd] in *. now apply N.eqb_neq.
Qed.

(** the class is exact: among the local parts parselocalpart() accepts, it holds precisely those that are
    neither a Dot-string nor a Quoted-string *)
Theorem local_class_exact l : lweak l -> l <> [] -> (local_class l = false <-> local_rfc l).
Proof.
  intros Hw Hne. split; [now apply local_partial|].
  intros [Hd|(q & -> & Hq)].
  - destruct (dot_string_good l Hd) as (_ & Hnq & Hb). unfold local_class. rewrite Hnq. exact Hb.
  - unfold local_class. cbn [existsb]. rewrite N.eqb_refl. cbn [orb].
    unfold one_quoted. rewrite N.eqb_refl. cbn [andb].
    rewrite closes_qcontent by assumption. reflexivity.
Qed.

(** checkers used on the C outputs are sound for the predicates *)
Lemma lweak_b_sound m : forall l, length l <= m -> forall q, lweak_b q l = true ->
  if q then qtail l else lweak l.
Proof.
  induction m as [|m IH]; intros l Hlen q H.
  - destruct l; [|simpl in Hlen; ulia]. destruct q; [discriminate|constructor].
  - destruct l as [|c r]; [destruct q; [discriminate|constructor]|].
    assert (Hlen' : length r <= m) by (simpl in Hlen; ulia).
    cbn [lweak_b] in H. destruct q; cbn [negb] in H.
    + destruct (N.eqb_spec c cQUOTE) as [->|Hq].
      * apply (IH r Hlen' false) in H. exists [], r. split; [reflexivity|]. split; [constructor|exact H].
      * destruct (N.eqb_spec c cBSL) as [->|Hb].
        -- destruct r as [|e r']; [discriminate|]. apply andb_true_iff in H as [He H].
           apply (IH r' ltac:(simpl in Hlen'; ulia) true) in H. destruct H as (q & r2 & -> & Hqc & Hr2).
           exists (cBSL :: e :: q), r2. split; [reflexivity|]. split; [|exact Hr2].
           apply qc_pair; [|exact Hqc]. apply orb_true_iff in He as [E|E]; apply N.eqb_eq in E; auto.
        -- apply andb_true_iff in H as [Hc H]. apply (IH r Hlen' true) in H. destruct H as (q & r2 & -> & Hqc & Hr2).
           exists (c :: q), r2. split; [reflexivity|]. split; [|exact Hr2]. apply qc_text; assumption.
    + destruct (N.eqb_spec c cQUOTE) as [->|Hq].
      * apply (IH r Hlen' true) in H. destruct H as (q & r2 & -> & Hqc & Hr2). apply lw_quoted; assumption.
      * apply andb_true_iff in H as [Hc H]. apply (IH r Hlen' false) in H. apply lw_char; [|exact H].
        apply orb_true_iff in Hc as [E|E]; [now left|right; now apply N.eqb_eq in E].
Qed.

Lemma lweak_b_ok l : lweak_b false l = true -> lweak l.
Proof. intros H. exact (lweak_b_sound (length l) l (le_n _) false H). Qed.

(* ------------------------------------------------------------------ the boolean recognisers decide the predicates *)

From Qv Require Import Proofs.DomainProofs.

Lemma atom_b_iff a : atom_b a = true <-> atom a.
Proof.
  unfold atom_b, atom. rewrite andb_true_iff, negb_true_iff, Nat.eqb_neq, forallb_forall, Forall_forall.
  split; intros [H1 H2]; (split; [|exact H2]).
  - intros ->. apply H1. reflexivity.
  - intros E. apply H1. destruct a; [reflexivity|discriminate].
Qed.

Lemma dot_string_join ls : ls <> [] -> Forall atom ls -> dot_string (join_dots ls).
Proof.
  induction ls as [|l ls IH]; intros Hne HF; [congruence|].
  inversion HF as [|? ? Hl Hls]; subst. destruct ls as [|l2 ls].
  - apply ds_one. exact Hl.
  - rewrite join_dots_cons2. apply ds_more; [exact Hl|]. apply IH; [discriminate|exact Hls].
Qed.

Lemma dot_string_b_iff l : dot_string_b l = true <-> dot_string l.
Proof.
  unfold dot_string_b. split.
  - intros H. rewrite <- (join_split l). apply dot_string_join; [apply split_dots_nonnil|].
    apply Forall_forall. intros a Ha. apply atom_b_iff. rewrite forallb_forall in H. auto.
  - induction 1 as [a Ha|a r Ha Hr IH].
    + destruct (atom_facts a Ha) as (Hnd & _). rewrite (split_nodot a Hnd). cbn [forallb].
      rewrite (proj2 (atom_b_iff a) Ha). reflexivity.
    + destruct (atom_facts a Ha) as (Hnd & _). rewrite (split_app_dot a r Hnd). cbn [forallb].
      rewrite (proj2 (atom_b_iff a) Ha), IH. reflexivity.
Qed.

Lemma qbody_b_sound m : forall r, length r <= m -> qbody_b r = true -> exists q, r = q ++ [cQUOTE] /\ qcontent q.
Proof.
  induction m as [|m IH]; intros r Hlen H.
  - destruct r; [discriminate|simpl in Hlen; ulia].
  - destruct r as [|c r']; [discriminate|]. cbn [qbody_b] in H.
    assert (Hlen' : length r' <= m) by (simpl in Hlen; ulia).
    destruct (N.eqb_spec c cQUOTE) as [->|Hq].
    + apply Nat.eqb_eq in H. destruct r'; [|discriminate]. exists []. split; [reflexivity|constructor].
    + destruct (N.eqb_spec c cBSL) as [->|Hb].
      * destruct r' as [|e r'']; [discriminate|]. apply andb_true_iff in H as [He H].
        destruct (IH r'' ltac:(simpl in Hlen'; ulia) H) as (q & -> & Hqc).
        exists (cBSL :: e :: q). split; [reflexivity|]. apply qc_pair; [|exact Hqc].
        apply orb_true_iff in He as [E|E]; apply N.eqb_eq in E; auto.
      * apply andb_true_iff in H as [Hc H]. destruct (IH r' Hlen' H) as (q & -> & Hqc).
        exists (c :: q). split; [reflexivity|]. apply qc_text; assumption.
Qed.

Lemma qbody_b_complete q : qcontent q -> qbody_b (q ++ [cQUOTE]) = true.
Proof.
  induction 1 as [|c r Hc _ IH|e r He _ IH].
  - reflexivity.
  - destruct (qtext_not_special c Hc) as [H1 H2]. apply N.eqb_neq in H1, H2.
    cbn [app qbody_b]. rewrite H1, H2, Hc. exact IH.
  - cbn [app qbody_b]. change (N.eqb cBSL cQUOTE) with false. rewrite N.eqb_refl.
    destruct He as [->| ->]; cbn [N.eqb orb andb]; try rewrite N.eqb_refl; exact IH.
Qed.

Lemma quoted_string_b_iff l : quoted_string_b l = true <-> quoted_string l.
Proof.
  unfold quoted_string_b, quoted_string. split.
  - destruct l as [|c r]; [discriminate|]. intros H. apply andb_true_iff in H as [Hc H]. apply N.eqb_eq in Hc. subst c.
    destruct (qbody_b_sound (length r) r (le_n _) H) as (q & -> & Hq). exists q. auto.
  - intros (q & -> & Hq). rewrite N.eqb_refl. cbn [andb]. now apply qbody_b_complete.
Qed.

(** the checker used on C outputs decides "Dot-string or Quoted-string" *)
Theorem local_rfc_b_iff l : local_rfc_b l = true <-> local_rfc l.
Proof.
  unfold local_rfc_b, local_rfc. rewrite orb_true_iff, dot_string_b_iff, quoted_string_b_iff. tauto.
Qed.

(** parseaddr(): return codes 3 and 4 only for local@fqdn / local@[literal]; never past the terminator. *)
From Qv Require Import Common.Bytes Gen.GenAddr Model.Addr Spec.AddrSpec Spec.AddrGrammar
  Proofs.AddrTables Proofs.CStrLemmas Proofs.DomainProofs Proofs.LocalProofs.

Local Arguments N.eqb : simpl never.
Ltac pa_consts := unfold PA_RC_DOMONLY, PA_LIT_SKIP, PA_TAG6_N, PA_OFF6, PA_OFF4, PA_RC_LIT, PA_BUF6, PA_BUF4,
  PA_RC_FULL, AV_MIN, PA_TAG6 in *.

(* ------------------------------------------------------------------ parselocalpart never runs past the terminator *)

Lemma lp_loop_total m : forall p, length p <= m -> In NUL p -> forall t q, exists n, lp_loop p t q = Ok n.
Proof.
  induction m as [|m IH]; intros p Hlen Hin t q.
  - destruct p; [destruct Hin|simpl in Hlen; ulia].
  - destruct p as [|c p']; [destruct Hin|]. cbn [lp_loop].
    assert (Hlen' : length p' <= m) by (simpl in Hlen; ulia).
    destruct (N.eqb_spec c NUL) as [->|Hc]; cbn [orb].
    { destruct q; eauto. }
    assert (Hin' : In NUL p') by (destruct Hin; [congruence|assumption]).
    destruct (N.eqb c AT); [destruct q; eauto|].
    destruct (N.eqb c QUOTE); [apply IH; assumption|].
    destruct (negb q).
    + destruct (tbl LP_UNQ_OK c); [apply IH; assumption|eauto].
    + destruct (tbl LP_Q_OK c); [apply IH; assumption|].
      destruct (N.eqb c BSL); [|eauto].
      destruct p' as [|e p'']; [destruct Hin'|].
      destruct (tbl LP_ESC_OK e) eqn:Ee; [|eauto].
      apply IH; [simpl in Hlen'; ulia|].
      destruct Hin' as [E|E]; [|assumption].
      subst e. apply LP_ESC_OK_spec in Ee. discriminate.
Qed.

Lemma parselocalpart_total p : In NUL p -> exists n, parselocalpart p = Ok n.
Proof. intros H. apply (lp_loop_total (length p)); [ulia|assumption]. Qed.

(** where the scan of parselocalpart stops: at the first at sign *)
Lemma first_stop (a b : bytes) k : ~ In AT a -> ~ In NUL a ->
  no_nul_at (firstn k (a ++ AT :: b)) ->
  (nth k (a ++ AT :: b) 1%N = NUL \/ nth k (a ++ AT :: b) 1%N = AT) ->
  k = length a.
Proof.
  intros Ha1 Ha2 [Hn1 Hn2] Hend.
  destruct (Nat.lt_trichotomy k (length a)) as [Hlt|[Heq|Hgt]]; [|exact Heq|].
  - exfalso. rewrite app_nth1 in Hend by assumption.
    assert (Hin : In (nth k a 1%N) a) by (apply nth_In; assumption).
    destruct Hend as [E|E]; rewrite E in Hin; contradiction.
  - exfalso. apply Hn2.
    replace k with (length a + (k - length a)) by ulia.
    rewrite firstn_app_2. apply in_or_app. right.
    destruct (k - length a) eqn:E; [ulia|]. now left.
Qed.

Lemma firstn_snoc_prefix {A} (l t : list A) x n :
  firstn n (l ++ [x]) = t -> ~ In x t -> length t = n -> firstn n l = t /\ n <= length l.
Proof.
  intros H Hx Hn.
  destruct (Nat.le_gt_cases n (length l)) as [Hle|Hgt].
  - split; [|exact Hle]. rewrite firstn_app in H. replace (n - length l) with 0 in H by lia.
    cbn [firstn] in H. now rewrite app_nil_r in H.
  - exfalso. apply Hx. rewrite <- H. rewrite firstn_all2 by (rewrite app_length; simpl; lia).
    apply in_or_app. right. now left.
Qed.

Section Oracle.
Variable pton4 pton6 : bytes -> bool.

(** one literal branch on  a @ pre body ] tail  with |a @ pre| = |a| + off *)
Lemma literal_run (a pre body tail : bytes) off bufsz pton :
  length pre = off ->
  literal (a ++ pre ++ body ++ cRBR :: tail) (length a) (length a + off + length body) off bufsz pton
  = Ok (if Nat.ltb (length body) bufsz then (if pton body then PA_RC_LIT else 0) else 0).
Proof.
  intros Hpre. unfold literal.
  replace (Z.of_nat (length a + off + length body) - Z.of_nat (length a) - Z.of_nat off)%Z
    with (Z.of_nat (length body)) by ulia.
  destruct (Z.ltb_spec (Z.of_nat (length body)) 0) as [H|_]; [ulia|].
  destruct (Nat.ltb_spec (length body) bufsz) as [Hlt|Hge];
    destruct (Z.leb_spec (Z.of_nat bufsz) (Z.of_nat (length body))) as [Hz|Hz]; try ulia; [|reflexivity].
  rewrite Nat2Z.id.
  destruct (Nat.ltb_spec (length (a ++ pre ++ body ++ cRBR :: tail)) (length a + off + length body)) as [Hbad|_].
  { rewrite !app_length in Hbad. simpl in Hbad. ulia. }
  unfold sub. rewrite app_assoc. replace (length a + off) with (length (a ++ pre)) by (rewrite app_length; ulia).
  rewrite skipn_app_exact, firstn_app_exact. reflexivity.
Qed.

Definition pa_post (s : bytes) (rc : nat) : Prop := parseaddr_post pton4 pton6 s rc.

(** the same with the exact grammar of Spec/AddrGrammar.v *)
Definition pa_post_x (s : bytes) (rc : nat) : Prop :=
  match rc with
  | 0 => True
  | 1 => fqdn_strict s /\ ~ In cAT s
  | 2 => exists d, s = cAT :: d /\ fqdn_strict d
  | 3 => mailbox_x pton4 pton6 lweak 3 s
  | 4 => mailbox_x pton4 pton6 lweak 4 s
  | _ => False
  end.

Lemma mailbox_x_weaken L rc s : mailbox_x pton4 pton6 L rc s -> mailbox pton4 pton6 L rc s.
Proof.
  intros (lp & dom & E & H1 & H2 & H3 & Hd). exists lp, dom. repeat (split; [assumption|]).
  destruct Hd as [[-> Hd]|[-> (lit & E2 & Hn & Hl)]].
  - left. split; [reflexivity|now apply fqdn_strict_fqdn].
  - right. split; [reflexivity|]. exists lit. split; [exact E2|]. split; [exact Hn|].
    destruct Hl as [(_ & A & B)|Hl]; [left; auto|right; exact Hl].
Qed.

Lemma pa_post_x_weaken s rc : pa_post_x s rc -> pa_post s rc.
Proof.
  destruct rc as [|[|[|[|[|]]]]]; cbn; auto; apply mailbox_x_weaken.
Qed.

Theorem parseaddr_spec_x s rest : ~ In NUL s ->
  exists rc, parseaddr pton4 pton6 (s ++ NUL :: rest) = Ok rc /\ pa_post_x s rc.
Proof.
  intros Hs. unfold parseaddr.
  destruct (strchr_spec s rest AT 0 Hs ltac:(discriminate)) as [(a & b & -> & Ha & Hr)|(Hn & Hr)];
    rewrite Hr; cbn [bind].
  2:{ (* no at sign: a bare domain *)
    rewrite domainvalid_exact by assumption. cbn [bind].
    destruct (fqdn_strict_b s) eqn:E; eexists; (split; [reflexivity|]); cbn; [|exact I].
    split; [now apply fqdn_strict_b_iff|exact Hn]. }
  apply not_in_app in Hs as [Hsa Hsb]. apply not_in_cons in Hsb as [_ Hsb].
  remember ((a ++ AT :: b) ++ NUL :: rest) as p eqn:Ep.
  assert (Hp : p = a ++ AT :: (b ++ NUL :: rest)) by (subst p; rewrite <- app_assoc; reflexivity).
  clear Ep.
  destruct (parselocalpart_total p) as [n Hlp].
  { rewrite Hp. apply in_or_app. right. right. apply in_or_app. right. now left. }
  rewrite Hlp. cbn [bind].
  destruct (Z.ltb_spec n 0) as [Hneg|Hpos]; [exists 0; split; [reflexivity|exact I]|].
  destruct (parselocalpart_sound p n Hlp Hpos) as (Hk & Hw & Hclean & Hend). cbn zeta in *.
  assert (Hka : Z.to_nat n = length a).
  { rewrite Hp in Hclean, Hend. eapply first_stop; eassumption. }
  rewrite Hka in Hw. rewrite Hp, firstn_app_exact in Hw. clear Hclean Hend Hk Hka Hlp.
  rewrite Nat.add_0_l.
  destruct a as [|a0 a'].
  - (* "@domain" *)
    rewrite Hp. cbn [app]. rewrite rd_head. cbn [bind]. rewrite N.eqb_refl.
    cbn [skipn]. rewrite domainvalid_exact by assumption. cbn [bind]. pa_consts.
    destruct (fqdn_strict_b b) eqn:E; eexists; (split; [reflexivity|]); cbn; [|exact I].
    exists b. split; [reflexivity|now apply fqdn_strict_b_iff].
  - assert (Ha0 : a0 <> AT) by (intros E; apply Ha; now left).
    assert (R0 : rd p 0 = Ok a0) by (rewrite Hp; reflexivity).
    rewrite R0. cbn [bind].
    destruct (N.eqb_spec a0 AT) as [E|_]; [congruence|].
    remember (a0 :: a') as a eqn:Ea.
    assert (Hane : a <> []) by (subst a; discriminate).
    clear R0 Ea Ha0 a0 a'.
    assert (R1 : rd p (length a + 1) = rd (b ++ NUL :: rest) 0) by (rewrite Hp, rd_app_exact; reflexivity).
    assert (S1 : skipn (length a + 1) p = b ++ NUL :: rest) by (rewrite Hp, skipn_app_plus; reflexivity).
    rewrite R1, S1.
    assert (Hdom : exists rc,
      (do dv <- domainvalid (b ++ NUL :: rest); Ok (if Nat.eqb dv 0 then PA_RC_FULL else 0)) = Ok rc /\ pa_post_x (a ++ AT :: b) rc).
    { rewrite domainvalid_exact by assumption. cbn [bind]. pa_consts.
      destruct (fqdn_strict_b b) eqn:E; eexists; (split; [reflexivity|]); cbn; [|exact I].
      exists a, b. split; [reflexivity|]. split; [exact Hane|]. split; [exact Ha|]. split; [exact Hw|].
      left. split; [reflexivity|]. now apply fqdn_strict_b_iff. }
    destruct b as [|b0 b'].
    + (* "local@" *)
      cbn [app]. rewrite rd_head. cbn [bind].
      destruct (N.eqb_spec NUL LBR) as [E|_]; [discriminate|]. exact Hdom.
    + cbn [app]. rewrite rd_head. cbn [bind].
      destruct (N.eqb_spec b0 LBR) as [->|Hb0]; [|exact Hdom].
      (* an address literal *)
      clear Hdom R1 S1. apply not_in_cons in Hsb as [_ Hsb'].
      change PA_TAG6 with TAG6. change PA_TAG6_N with (length TAG6).
      unfold PA_LIT_SKIP, PA_OFF6, PA_OFF4, PA_BUF6, PA_BUF4.
      assert (S2 : skipn (length a + 2) p = b' ++ NUL :: rest) by (rewrite Hp, skipn_app_plus; reflexivity).
      rewrite S2.
      destruct (strchr_spec b' rest RBR (length a + 2) Hsb' ltac:(discriminate))
        as [(lit & tail & -> & Hlit & Hr2)|(Hn2 & Hr2)]; rewrite Hr2; cbn [bind];
        [|exists 0; split; [reflexivity|exact I]].
      apply not_in_app in Hsb' as [Hsl Hst]. apply not_in_cons in Hst as [_ Hst].
      (* the byte behind the closing bracket *)
      assert (R3 : rd p (length a + 2 + length lit + 1) = rd (tail ++ NUL :: rest) 0).
      { rewrite Hp. replace (length a + 2 + length lit + 1) with (length a + (2 + (length lit + 1))) by ulia.
        rewrite rd_app_exact. cbn [app]. unfold rd. cbn [Nat.add nth_error].
        rewrite <- app_assoc. rewrite nth_error_app_exact. reflexivity. }
      rewrite R3.
      destruct tail as [|t0 tail'].
      2:{ cbn [app]. rewrite rd_head. cbn [bind]. apply not_in_cons in Hst as [Ht0 _].
          destruct (N.eqb_spec t0 NUL); [congruence|]. cbn [negb]. exists 0. split; [reflexivity|exact I]. }
      cbn [app]. rewrite rd_head. cbn [bind]. rewrite N.eqb_refl. cbn [negb].
      replace ((lit ++ RBR :: []) ++ NUL :: rest) with ((lit ++ [RBR]) ++ NUL :: rest) by reflexivity.
      rewrite strncmp_prefix; [|apply not_in_app; split; [exact Hsl|intros [X|[]]; discriminate] | vm_compute; intuition discriminate].
      cbn [bind].
      assert (Hpl : p = a ++ [AT; LBR] ++ lit ++ cRBR :: (NUL :: rest)).
      { rewrite Hp. cbn [app]. rewrite <- app_assoc. reflexivity. }
      destruct (bytes_eqb (firstn (length TAG6) (lit ++ [RBR])) TAG6) eqn:Etag.
      * (* IPv6: *)
        apply bytes_eqb_eq in Etag.
        apply firstn_snoc_prefix in Etag as [Etag Hlen]; [|vm_compute; intuition discriminate|reflexivity].
        assert (Hl6 : lit = TAG6 ++ skipn (length TAG6) lit).
        { rewrite <- Etag at 1. symmetry. apply firstn_skipn. }
        remember (skipn (length TAG6) lit) as l6 eqn:El6. clear El6.
        assert (Hp6 : p = a ++ ([AT; LBR] ++ TAG6) ++ l6 ++ cRBR :: (NUL :: rest)).
        { rewrite Hpl, Hl6. rewrite <- !app_assoc. reflexivity. }
        replace (length a + 2 + length lit) with (length a + 7 + length l6)
          by (rewrite Hl6; rewrite !app_length; simpl; ulia).
        rewrite Hp6. rewrite literal_run by reflexivity.
        destruct (Nat.ltb_spec (length l6) 46) as [Hlt|_]; [|exists 0; split; [reflexivity|exact I]].
        destruct (pton6 l6) eqn:E6; [|exists 0; split; [reflexivity|exact I]].
        exists 4. split; [reflexivity|]. cbn.
        exists a, (LBR :: lit ++ [RBR]). split; [rewrite Hl6; rewrite <- !app_assoc; reflexivity|].
        split; [exact Hane|]. split; [exact Ha|]. split; [exact Hw|].
        right. split; [reflexivity|]. exists lit. split; [reflexivity|]. split; [exact Hlit|].
        right. exists l6. auto.
      * (* IPv4 *)
        rewrite Hpl. rewrite literal_run by reflexivity.
        destruct (Nat.ltb_spec (length lit) 16) as [Hlt|_]; [|exists 0; split; [reflexivity|exact I]].
        destruct (pton4 lit) eqn:E4; [|exists 0; split; [reflexivity|exact I]].
        exists 4. split; [reflexivity|]. cbn.
        exists a, (LBR :: lit ++ [RBR]). split; [reflexivity|]. split; [exact Hane|]. split; [exact Ha|]. split; [exact Hw|].
        right. split; [reflexivity|]. exists lit. split; [reflexivity|]. split; [exact Hlit|].
        left. split; [|auto].
        intros [r0 Hr0]. subst lit. rewrite <- app_assoc, firstn_app_exact, bytes_eqb_refl in Etag. discriminate.
Qed.

Theorem parseaddr_spec s rest : ~ In NUL s ->
  exists rc, parseaddr pton4 pton6 (s ++ NUL :: rest) = Ok rc /\ pa_post s rc.
Proof.
  intros Hs. destruct (parseaddr_spec_x s rest Hs) as (rc & H & Hp). exists rc. split; [exact H|now apply pa_post_x_weaken].
Qed.

Lemma parseaddr_rc s rest rc : ~ In NUL s -> parseaddr pton4 pton6 (s ++ NUL :: rest) = Ok rc -> rc <= 4 /\ pa_post s rc.
Proof.
  intros Hs H. destruct (parseaddr_spec s rest Hs) as (rc' & H' & Hpost). rewrite H in H'. inversion H'; subst rc'.
  split; [|exact Hpost]. destruct rc as [|[|[|[|[|]]]]]; try lia. destruct Hpost.
Qed.

End Oracle.

(** Proofs about Model/NetRead.v, part 1: whatever the stream and the read
    schedule, every line handed out by net_read is cut out of the stream at a
    CR LF pair, contains neither CR nor LF, and is at most LINEINBUF-3 octets;
    every error item consumes a non-empty piece of the stream; nothing is
    reordered or invented (the unconsumed data is always a suffix of the stream). *)
From Qv Require Import Common.Bytes Gen.GenNetio Model.NetRead Spec.LineSpec.

Lemma index_of_some c l i : index_of c l = Some i ->
  i < length l /\ nth i l 0%N = c /\ ~ In c (firstn i l).
Proof.
  revert i; induction l as [|b l IH]; intros i H; simpl in H; [discriminate|].
  destruct (N.eqb b c) eqn:E.
  - inversion H; subst. apply N.eqb_eq in E. simpl. repeat split; [lia|exact E|tauto].
  - destruct (index_of c l) as [j|] eqn:Ej; [|discriminate]. inversion H; subst. clear H.
    destruct (IH j eq_refl) as (H1 & H2 & H3). apply N.eqb_neq in E.
    simpl. repeat split; [lia|exact H2|]. intros [Hb|Hin]; [congruence|tauto].
Qed.

Lemma nth_split_at {A} (l : list A) i d : i < length l -> l = firstn i l ++ nth i l d :: skipn (S i) l.
Proof.
  revert i; induction l as [|x l IH]; intros i H; simpl in H; [lia|].
  destruct i as [|i]; simpl; [reflexivity|]. f_equal. apply IH. lia.
Qed.

Lemma nth_split_at2 {A} (l : list A) i d : S i < length l ->
  l = firstn i l ++ [nth i l d; nth (S i) l d] ++ skipn (i + 2) l.
Proof.
  revert i; induction l as [|x l IH]; intros i H; simpl in H; [lia|].
  destruct i as [|i].
  - destruct l as [|y l]; [simpl in H; lia|]. reflexivity.
  - cbn [firstn app nth]. f_equal. rewrite (IH i) at 1 by lia. reflexivity.
Qed.

Lemma not_in_firstn_le {A} (c : A) (l : list A) i j : i <= j -> ~ In c (firstn j l) -> ~ In c (firstn i l).
Proof.
  intros Hij H Hin. apply H. replace j with (i + (j - i)) by lia. rewrite firstn_add'.
  apply in_or_app. now left.
Qed.

Lemma find_eol_valid b p : find_eol b = (Some p, true) ->
  exists c, p = c + 2 /\ p <= length b /\ b = firstn c b ++ [CR; LF] ++ skipn p b /\ no_crlf (firstn c b).
Proof.
  unfold find_eol. intros H.
  destruct (index_of CR b) as [c|] eqn:Ec; destruct (index_of LF b) as [l|] eqn:El;
    try (inversion H; fail).
  destruct (Nat.eqb l (S c)) eqn:E.
  2:{ destruct (Nat.ltb c l); [destruct (negb _)|destruct (_ && _)]; inversion H. }
  apply Nat.eqb_eq in E. subst l. inversion H; subst p. clear H.
  destruct (index_of_some _ _ _ Ec) as (Hc1 & Hc2 & Hc3).
  destruct (index_of_some _ _ _ El) as (Hl1 & Hl2 & Hl3).
  exists c. repeat split; [lia|lia| |].
  - rewrite (nth_split_at2 b c 0%N Hl1) at 1. rewrite Hc2, Hl2. replace (c + 2) with (S (S c)) by lia. reflexivity.
  - apply Forall_forall. intros x Hx. split; intros Heq; subst x.
    + exact (Hc3 Hx).
    + apply (not_in_firstn_le LF b c (S c)); [lia|exact Hl3|exact Hx].
Qed.

Lemma find_eol_some b p v : find_eol b = (Some p, v) -> 1 <= p <= length b.
Proof.
  unfold find_eol. intros H.
  destruct (index_of CR b) as [c|] eqn:Ec; destruct (index_of LF b) as [l|] eqn:El.
  - destruct (index_of_some _ _ _ Ec) as (Hc1 & _). destruct (index_of_some _ _ _ El) as (Hl1 & _).
    destruct (Nat.eqb l (S c)); [inversion H; lia|].
    destruct (Nat.ltb c l).
    + destruct (negb _); inversion H; lia.
    + destruct (_ && _); inversion H; lia.
  - destruct (index_of_some _ _ _ Ec) as (Hc1 & _). inversion H; lia.
  - destruct (index_of_some _ _ _ El) as (Hl1 & _). inversion H; lia.
  - inversion H.
Qed.

Lemma next_segment_spec f c f' : next_segment f = Some (c, f') ->
  concat f = c ++ concat f' /\ c <> [].
Proof.
  induction f as [|x f IH]; simpl; [discriminate|].
  destruct x as [|b x]; [intros H; simpl; apply IH; exact H|].
  intros H. inversion H; subst. split; [reflexivity|discriminate].
Qed.

Lemma readinput_spec e len d e' : readinput e len = Some (d, e') ->
  rest e = d ++ rest e' /\ length d <= len - 1 /\ (2 <= len -> d <> []).
Proof.
  unfold readinput, rest.
  set (seg := match cur e with [] => next_segment (future e) | _ => Some (cur e, future e) end).
  assert (Hseg : forall c f, seg = Some (c, f) -> cur e ++ concat (future e) = c ++ concat f /\ c <> []).
  { intros c f. unfold seg. destruct (cur e) as [|b r] eqn:Ec.
    - intros H. apply next_segment_spec in H. exact H.
    - intros H. inversion H; subst. split; [reflexivity|discriminate]. }
  destruct seg as [[c f]|]; [|discriminate].
  destruct (Hseg c f eq_refl) as (Heq & Hne).
  intros H. inversion H; subst; clear H. cbn [cur future].
  set (k := Nat.min (length c) (len - 1)). repeat split.
  - rewrite Heq. rewrite app_assoc. now rewrite firstn_skipn.
  - apply Nat.le_trans with k; [apply firstn_le_length|unfold k; apply Nat.le_min_r].
  - intros Hlen. assert (1 <= k) by (unfold k; destruct c; [congruence|simpl length; lia]).
    destruct c as [|b c]; [congruence|]. destruct k; [lia|]. simpl. discriminate.
Qed.

Lemma LB : LINEINBUF = 1002. Proof. reflexivity. Qed.

Lemma loop_long_spec fuel : forall e hc i e',
  loop_long fuel e hc = (Some i, e') ->
  exists j, rest e = j ++ i ++ rest e' /\ length i <= LINEINBUF - 1.
Proof.
  induction fuel as [|fuel IH]; intros e hc i e' H; cbn [loop_long] in H; [discriminate|].
  destruct (readinput e LINEINBUF) as [[b e1]|] eqn:Er; [|discriminate].
  destruct (readinput_spec _ _ _ _ Er) as (Hrest & Hlen & _).
  destruct (hc && N.eqb (nth 0 b 0%N) LF) eqn:E1.
  - inversion H; subst. exists (firstn 1 b). split.
    + rewrite Hrest. rewrite app_assoc. now rewrite firstn_skipn.
    + clear -Hlen. destruct b as [|y b']; simpl in *; lia.
  - destruct (find_eol b) as [p valid] eqn:Ef. destruct p as [p|].
    + destruct (negb valid && Nat.eqb p (length b) && N.eqb (nth (p - 1) b 0%N) CR) eqn:E2.
      * apply IH in H. destruct H as (j & Hj & Hl). exists (b ++ j). split; [|exact Hl].
        rewrite Hrest, Hj. now rewrite <- app_assoc.
      * inversion H; subst. exists (firstn p b). split.
        -- rewrite Hrest. rewrite app_assoc. now rewrite firstn_skipn.
        -- rewrite skipn_length. lia.
    + apply IH in H. destruct H as (j & Hj & Hl). exists (b ++ j). split; [|exact Hl].
      rewrite Hrest, Hj. now rewrite <- app_assoc.
Qed.

Definition total (s : rstate) : bytes := inn s ++ rest (en s).

(** what one item says about the stream *)
Definition item_ok (before : bytes) (it : item) (s' : rstate) : Prop :=
  match it with
  | Line l => before = l ++ [CR; LF] ++ total s' /\ no_crlf l /\ length l + 3 <= LINEINBUF
  | Einval | E2big => exists j, j <> [] /\ before = j ++ total s'
  | Dead | Stuck => True
  end.

Lemma app_nonempty_l {A} (a b : list A) : a <> [] -> a ++ b <> [].
Proof. destruct a; [congruence|discriminate]. Qed.

Lemma read_loop_spec fuel : forall buf e it s',
  length buf <= LINEINBUF - 1 ->
  read_loop fuel buf e = (it, s') ->
  item_ok (buf ++ rest e) it s' /\ length (inn s') <= LINEINBUF - 1.
Proof.
  pose proof LB as HLB.
  induction fuel as [|fuel IH]; intros buf e it s' Hbuf H; cbn [read_loop] in H.
  { inversion H; subst. simpl. split; [exact I|lia]. }
  destruct (readinput e (LINEINBUF - length buf)) as [[d e1]|] eqn:Er.
  2:{ inversion H; subst. simpl. split; [exact I|lia]. }
  destruct (readinput_spec _ _ _ _ Er) as (Hrest & Hdlen & _).
  assert (Hb' : length (buf ++ d) <= LINEINBUF - 1) by (rewrite app_length; lia).
  assert (Htot : buf ++ rest e = (buf ++ d) ++ rest e1) by (rewrite Hrest; now rewrite app_assoc).
  set (buf' := buf ++ d) in *.
  destruct (find_eol buf') as [p valid] eqn:Ef.
  set (retry := match p with Some p' => _ | None => false end) in H.
  destruct (if retry then None else p) as [p'|] eqn:Ep.
  - assert (Hp : p = Some p') by (destruct retry; [discriminate|exact Ep]).
    subst p. destruct (find_eol_some _ _ _ Ef) as (Hp1 & Hp2).
    destruct valid.
    + inversion H; subst; clear H. cbn [item_ok]; unfold total; cbn [inn en].
      destruct (find_eol_valid _ _ Ef) as (c & Hc & Hple & Hdec & Hclean).
      replace (p' - 2) with c by lia. split; [|rewrite skipn_length; lia].
      repeat split.
      * rewrite Htot. rewrite Hdec at 1. now rewrite <- !app_assoc.
      * exact Hclean.
      * rewrite firstn_length. lia.
    + destruct (Nat.eqb p' (LINEINBUF - 1) && N.eqb (nth (p' - 1) buf' 0%N) CR) eqn:E2.
      * destruct (loop_long (S (length (rest e1))) e1 true) as [[i|] e2] eqn:El;
          inversion H; subst; clear H; cbn [item_ok]; unfold total; cbn [inn en].
        -- destruct (loop_long_spec _ _ _ _ _ El) as (j & Hj & Hil).
           split; [|exact Hil]. exists (buf' ++ j). split.
           ++ apply app_nonempty_l. intro Hn. rewrite Hn in Hp2. simpl in Hp2. lia.
           ++ rewrite Htot, Hj. now rewrite <- app_assoc.
        -- split; [exact I|simpl; lia].
      * inversion H; subst; clear H. cbn [item_ok]; unfold total; cbn [inn en].
        split; [|rewrite skipn_length; lia].
        exists (firstn p' buf'). split.
        -- intro Hn. apply (f_equal (@length _)) in Hn. rewrite firstn_length in Hn. simpl in Hn. lia.
        -- rewrite Htot. rewrite app_assoc. now rewrite firstn_skipn.
  - destruct (Nat.ltb (length buf') (LINEINBUF - 1)) eqn:Elt.
    + apply IH in H; [|exact Hb']. rewrite <- Htot in H. exact H.
    + apply Nat.ltb_ge in Elt.
      destruct (loop_long (S (length (rest e1))) e1 false) as [[i|] e2] eqn:El;
        inversion H; subst; clear H; cbn [item_ok]; unfold total; cbn [inn en].
      * destruct (loop_long_spec _ _ _ _ _ El) as (j & Hj & Hil).
        split; [|exact Hil]. exists (buf' ++ j). split.
        -- apply app_nonempty_l. intro Hn. rewrite Hn in Elt. simpl in Elt. lia.
        -- rewrite Htot, Hj. now rewrite <- app_assoc.
      * split; [exact I|simpl; lia].
Qed.

Lemma net_read_spec s it s' :
  length (inn s) <= LINEINBUF - 1 ->
  net_read s = (it, s') ->
  item_ok (total s) it s' /\ length (inn s') <= LINEINBUF - 1.
Proof.
  pose proof LB as HLB.
  intros Hinn H. unfold net_read in H. unfold total at 1.
  destruct (inn s) as [|x r] eqn:Ei.
  { apply read_loop_spec in H; [exact H|simpl; lia]. }
  rewrite <- Ei in *. clear x r Ei.
  destruct (find_eol (inn s)) as [p valid] eqn:Ef. destruct p as [p|].
  2:{ apply read_loop_spec in H; [exact H|exact Hinn]. }
  destruct (find_eol_some _ _ _ Ef) as (Hp1 & Hp2).
  destruct valid.
  - inversion H; subst; clear H. cbn [item_ok]; unfold total; cbn [inn en].
    destruct (find_eol_valid _ _ Ef) as (c & Hc & Hple & Hdec & Hclean).
    replace (p - 2) with c by lia. split; [|rewrite skipn_length; lia].
    repeat split.
    + rewrite Hdec at 1. now rewrite <- !app_assoc.
    + exact Hclean.
    + rewrite firstn_length. lia.
  - destruct (N.eqb (nth (p - 1) (inn s) 0%N) CR && Nat.eqb p (length (inn s))) eqn:E.
    + apply read_loop_spec in H; [exact H|exact Hinn].
    + inversion H; subst; clear H. cbn [item_ok]; unfold total; cbn [inn en].
      split; [|rewrite skipn_length; lia].
      exists (firstn p (inn s)). split.
      * intro Hn. apply (f_equal (@length _)) in Hn. rewrite firstn_length in Hn. simpl in Hn. lia.
      * rewrite app_assoc. now rewrite firstn_skipn.
Qed.

(** the reader: every line it reports was cut out of the stream at a CRLF *)
Lemma reader_lines stream fuel : forall s,
  (exists pre, stream = pre ++ total s) ->
  length (inn s) <= LINEINBUF - 1 ->
  forall l lft, In (Line l, lft) (reader fuel s) ->
    line_at stream l lft /\ no_crlf l /\ length l + 3 <= LINEINBUF.
Proof.
  induction fuel as [|fuel IH]; intros s (pre & Hpre) Hinn l lft Hin; cbn [reader] in Hin.
  { destruct Hin as [Hin|[]]. discriminate. }
  destruct (net_read s) as [it s'] eqn:En.
  destruct (net_read_spec _ _ _ Hinn En) as (Hit & Hinn').
  assert (Hstep : forall it0, it0 = it -> (match it0 with Dead | Stuck => False | _ => True end) ->
           In (Line l, lft) ((it, length (inn s') + length (rest (en s'))) :: reader fuel s') ->
           line_at stream l lft /\ no_crlf l /\ length l + 3 <= LINEINBUF).
  { intros it0 -> Hnd [Heq|Hin'].
    - injection Heq as Eit Elft. rewrite Eit in Hit. cbn [item_ok] in Hit. destruct Hit as (Ht & Hc & Hl).
      rewrite <- Elft.
      repeat split; [|exact Hc|exact Hl].
      exists pre, (total s'). split; [rewrite Hpre, Ht; reflexivity|].
      unfold total. now rewrite app_length.
    - apply (IH s'); [|exact Hinn'|exact Hin'].
      destruct it; cbn [item_ok] in Hit; try contradiction.
      + destruct Hit as (Ht & _). exists (pre ++ l0 ++ [CR; LF]). rewrite Hpre, Ht. now rewrite <- !app_assoc.
      + destruct Hit as (j & _ & Ht). exists (pre ++ j). rewrite Hpre, Ht. now rewrite <- app_assoc.
      + destruct Hit as (j & _ & Ht). exists (pre ++ j). rewrite Hpre, Ht. now rewrite <- app_assoc. }
  destruct it.
  - apply (Hstep (Line l0)); auto.
  - apply (Hstep Einval); auto.
  - apply (Hstep E2big); auto.
  - destruct Hin as [Hin|[]]. discriminate.
  - destruct Hin as [Hin|[]]. discriminate.
Qed.

Lemma concat_segments cuts : forall stream, concat (segments stream cuts) = stream.
Proof.
  induction cuts as [|k cuts IH]; intros stream; simpl; [now rewrite app_nil_r|].
  destruct stream as [|b s]; [reflexivity|].
  cbn [concat]. rewrite IH. apply firstn_skipn.
Qed.

Theorem reader_line_shape stream cuts l lft :
  In (Line l, lft) (run_reader stream cuts) ->
  line_at stream l lft /\ no_crlf l /\ length l + 3 <= LINEINBUF.
Proof.
  unfold run_reader. apply reader_lines.
  - exists []. unfold total, rest. cbn [inn en cur future]. now rewrite concat_segments.
  - simpl. lia.
Qed.

(** the value-producing inet_pton models yield a value exactly when Model/InetPton.v says "valid" *)
From Coq Require Import List NArith Bool Arith Lia.
From Qv Require Import Common.Bytes Model.InetPton Model.InetPtonVal.
Import ListNotations.
Local Open Scope bool_scope.

Definition is_some {A} (o : option A) : bool := match o with Some _ => true | None => false end.

Lemma pton4v_valid src : forall cur saw oc done,
  is_some (pton4v_loop src cur saw oc done) = pton4_loop src cur saw oc.
Proof.
  induction src as [|ch r IH]; intros cur saw oc done; cbn [pton4v_loop pton4_loop].
  - destruct (Nat.leb 4 oc); reflexivity.
  - destruct (is_digit ch).
    + destruct (saw && N.eqb cur 0); [reflexivity|]. destruct (N.ltb 255 _); [reflexivity|].
      destruct saw; [apply IH|]. destruct (Nat.ltb 4 (S oc)); [reflexivity|apply IH].
    + destruct (N.eqb ch DOT && saw); [|reflexivity]. destruct (Nat.eqb oc 4); [reflexivity|apply IH].
Qed.

Theorem pton4_val_valid s : is_some (pton4_val s) = pton4_ref s.
Proof. apply pton4v_valid. Qed.

Lemma pton4v_length src : forall cur saw oc done q,
  pton4v_loop src cur saw oc done = Some q ->
  (if saw then length done + 1 = oc /\ oc <= 4 else length done = oc /\ oc <= 3) ->
  length q = 4.
Proof.
  induction src as [|ch r IH]; intros cur saw oc done q H Hinv; cbn [pton4v_loop] in H.
  - destruct (Nat.leb 4 oc) eqn:E; [|discriminate]. injection H as <-. apply Nat.leb_le in E.
    rewrite app_length. cbn [length]. destruct saw; lia.
  - destruct (is_digit ch).
    + destruct (saw && N.eqb cur 0); [discriminate|]. destruct (N.ltb 255 _); [discriminate|].
      destruct saw.
      * eapply IH; [exact H|exact Hinv].
      * destruct (Nat.ltb 4 (S oc)) eqn:E4; [discriminate|]. apply Nat.ltb_ge in E4.
        eapply IH; [exact H|]. cbn. lia.
    + destruct (N.eqb ch DOT && saw) eqn:Ed; [|discriminate].
      apply andb_true_iff in Ed. destruct Ed as [_ Hs]. subst saw.
      destruct (Nat.eqb oc 4) eqn:E4; [discriminate|]. apply Nat.eqb_neq in E4.
      eapply IH; [exact H|]. cbn. rewrite app_length. cbn [length]. lia.
Qed.

Lemma pton4_val_length s q : pton4_val s = Some q -> length q = 4.
Proof. intros H. eapply pton4v_length; [exact H|]. cbn. lia. Qed.

Lemma pton6v_finish_valid out cp xd val :
  is_some (pton6v_finish out cp xd val) = pton6_finish (length out) (is_some cp) xd.
Proof.
  unfold pton6v_finish, pton6_finish.
  destruct (Nat.ltb 0 xd && Nat.ltb 16 (length out + 2)); [reflexivity|].
  assert (Hl : length (if Nat.ltb 0 xd then out ++ [N.shiftr val 8; N.land val 255] else out)
               = (if Nat.ltb 0 xd then length out + 2 else length out)).
  { destruct (Nat.ltb 0 xd); [rewrite app_length; reflexivity|reflexivity]. }
  destruct cp as [c|]; cbn [is_some]; rewrite Hl; destruct (Nat.eqb _ 16); reflexivity.
Qed.

Lemma pton6v_valid src : forall curtok out cp xd val,
  is_some (pton6v_loop src curtok out cp xd val) = pton6_loop src curtok (length out) (is_some cp) xd val.
Proof.
  induction src as [|ch r IH]; intros curtok out cp xd val; cbn [pton6v_loop pton6_loop].
  - apply pton6v_finish_valid.
  - destruct (hexval ch) as [d|].
    + destruct (Nat.eqb xd 4); [reflexivity|]. destruct (N.ltb 65535 _); [reflexivity|apply IH].
    + destruct (N.eqb ch 58).
      * destruct (Nat.eqb xd 0).
        -- destruct cp as [c|]; cbn [is_some]; [reflexivity|]. rewrite IH. reflexivity.
        -- destruct r as [|c2 r2]; [reflexivity|]. destruct (Nat.ltb 16 (length out + 2)); [reflexivity|].
           rewrite IH, app_length. reflexivity.
      * destruct (N.eqb ch DOT && Nat.leb (length out + 4) 16) eqn:E; cbn [andb].
        -- rewrite <- pton4_val_valid. destruct (pton4_val curtok) as [q|] eqn:Eq; cbn [is_some]; [|reflexivity].
           rewrite pton6v_finish_valid. cbn [is_some].
           rewrite app_length, (pton4_val_length curtok q Eq). reflexivity.
        -- reflexivity.
Qed.

Theorem pton6_val_valid s : is_some (pton6_val s) = pton6_ref s.
Proof.
  unfold pton6_val, pton6_ref. destruct (forallb ip6char s); [|reflexivity]. cbn [andb].
  unfold pton6v_core, pton6_core. destruct s as [|c s']; [reflexivity|].
  destruct (N.eqb c 58).
  - destruct s' as [|c2 r]; [reflexivity|]. destruct (N.eqb c2 58); [apply (pton6v_valid (c2 :: r) (c2 :: r) [] None 0 0%N)|reflexivity].
  - apply (pton6v_valid (c :: s') (c :: s') [] None 0 0%N).
Qed.

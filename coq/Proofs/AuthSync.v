(** C01, the AUTH entitlement: xmitstat.authname changes only when smtp_auth succeeds, and exactly
    then the trace carries a [NAuth] note.  With [a_auth] of the abstract machine (Spec/SessionSpec.v)
    following the notes, "authenticated" in the server state and in the specification stay in step
    over every round of the command loop. *)
From Qv Require Import Common.Bytes Gen.GenNetio Gen.GenSession Model.NetRead Model.Session Spec.SessionSpec Proofs.RelayDecide.
From Coq Require Import Lia.

Definition is_auth_ev (e : event) : bool := match e with Note (NAuth (_ :: _)) => true | _ => false end.
Definition has_auth (evs : list event) : bool := existsb is_auth_ev evs.

Lemma has_auth_app a b : has_auth (a ++ b) = has_auth a || has_auth b.
Proof. apply existsb_app. Qed.

(** any AUTH note at all (the name of a successful AUTH is never empty in the C; the model does not rely on that) *)
Definition is_auth_note (e : event) : bool := match e with Note (NAuth _) => true | _ => false end.
Definition has_note (evs : list event) : bool := existsb is_auth_note evs.
Lemma has_note_app a b : has_note (a ++ b) = has_note a || has_note b.
Proof. apply existsb_app. Qed.
Lemma has_note_auth evs : has_note evs = false -> has_auth evs = false.
Proof.
  induction evs as [|e r IH]; [reflexivity|]. cbn [has_note has_auth existsb]. intros H.
  apply orb_false_iff in H as [He Hr]. fold (has_auth r). rewrite (IH Hr), orb_false_r.
  destruct e as [c|x y| | |n]; try reflexivity. destruct n; try reflexivity. discriminate.
Qed.
Lemma has_note_in evs n : has_note evs = false -> ~ In (Note (NAuth n)) evs.
Proof.
  intros H Hin. assert (X : has_note evs = true) by (apply existsb_exists; exists (Note (NAuth n)); split; [exact Hin|reflexivity]).
  congruence.
Qed.

(** the note of an accepted client certificate (tls_verify() returned 1) *)
Definition is_cert_ev (e : event) : bool := match e with Note (NCert _) => true | _ => false end.
Definition has_cert (evs : list event) : bool := existsb is_cert_ev evs.
Lemma has_cert_app a b : has_cert (a ++ b) = has_cert a || has_cert b.
Proof. apply existsb_app. Qed.

Section Auth.
Variable o : oracles.

(** F1: the abstract machine's flag is the initial flag or an AUTH note seen since *)
Lemma trace_step_auth e a a' : trace_step o e a = Some a' -> a_auth a' = a_auth a || is_auth_ev e.
Proof.
  unfold trace_step. intros H.
  destruct e as [c|env msg| | |n]; try (inversion H; subst; rewrite orb_false_r; reflexivity).
  - destruct (a_txn a); [destruct (bytes_eqb _ _)|]; inversion H; subst. now rewrite orb_false_r.
  - destruct n;
      repeat (match type of H with
              | context [match ?x with _ => _ end] => destruct x eqn:?
              | context [if ?x then _ else _] => destruct x eqn:?
              end; try discriminate);
      inversion H; subst; cbn [a_auth is_auth_ev negb]; rewrite ?orb_false_r; reflexivity.
Qed.

Lemma trace_run_auth evs : forall a a', trace_run o evs a = Some a' -> a_auth a' = a_auth a || has_auth evs.
Proof.
  induction evs as [|e r IH]; intros a a' H; cbn [trace_run] in H.
  - inversion H; subst. cbn. now rewrite orb_false_r.
  - destruct (trace_step o e a) as [a1|] eqn:E; [|discriminate].
    rewrite (IH _ _ H), (trace_step_auth _ _ _ E). cbn [has_auth existsb]. now rewrite orb_assoc.
Qed.

(** the same for the certificate flag *)
Lemma trace_step_cert e a a' : trace_step o e a = Some a' -> a_cert a' = a_cert a || is_cert_ev e.
Proof.
  unfold trace_step. intros H.
  destruct e as [c|env msg| | |n]; try (inversion H; subst; rewrite orb_false_r; reflexivity).
  - destruct (a_txn a); [destruct (bytes_eqb _ _)|]; inversion H; subst. now rewrite orb_false_r.
  - destruct n;
      repeat (match type of H with
              | context [match ?x with _ => _ end] => destruct x eqn:?
              | context [if ?x then _ else _] => destruct x eqn:?
              end; try discriminate);
      inversion H; subst; cbn [a_cert is_cert_ev]; rewrite ?orb_false_r, ?orb_true_r; reflexivity.
Qed.

Lemma trace_run_cert evs : forall a a', trace_run o evs a = Some a' -> a_cert a' = a_cert a || has_cert evs.
Proof.
  induction evs as [|e r IH]; intros a a' H; cbn [trace_run] in H.
  - inversion H; subst. cbn. now rewrite orb_false_r.
  - destruct (trace_step o e a) as [a1|] eqn:E; [|discriminate].
    rewrite (IH _ _ H), (trace_step_cert _ _ _ E). cbn [has_cert existsb]. now rewrite orb_assoc.
Qed.

(** F2: the server side *)
Lemma an_data_pending s : authname (snd (data_pending s)) = authname s.
Proof. unfold data_pending. destruct (inn (rd s)); [|reflexivity]. destruct (cur (en (rd s))); reflexivity. Qed.
Lemma an_tarpit s : authname (tarpit s) = authname s.
Proof. apply an_data_pending. Qed.

Lemma wait_for_quit_auth fuel : forall s, has_note (wait_for_quit fuel s) = false.
Proof.
  induction fuel as [|f IH]; intros s; cbn [wait_for_quit]; [reflexivity|].
  destruct (net_read (rd s)) as [it r'].
  destruct it; try reflexivity;
    try (match goal with |- context [if ?b then [Reply 221; Closed] else _] => destruct b; [reflexivity|] end);
    (match goal with |- context [if ?b then [Note NBadClose; Reply 550; Closed] else _] => destruct b; [reflexivity|] end);
    cbn [has_note existsb is_auth_note orb]; apply IH.
Qed.

Lemma sync_pipelining_auth f s sp s2 : sync_pipelining f s = (sp, s2) ->
  authname s2 = authname s /\ (forall evs, sp = Some evs -> has_note evs = false).
Proof.
  unfold sync_pipelining. destruct (data_pending s) as [p sd] eqn:Ed.
  pose proof (an_data_pending s) as Hb. rewrite Ed in Hb. cbn [snd] in Hb.
  destruct (negb p). { intros H; inversion H; subst. split; [exact Hb|discriminate]. }
  destruct (esmtp sd).
  { intros H; inversion H; subst. split; [exact Hb|]. intros evs E; inversion E; subst.
    cbn [has_note existsb is_auth_note orb]. apply wait_for_quit_auth. }
  destruct (net_read (rd sd)) as [it r'].
  destruct it; intros H; inversion H; subst; (split; [exact Hb|]); intros evs E; inversion E; subst;
    try reflexivity; cbn [has_note existsb is_auth_note orb]; apply (wait_for_quit_auth f (set_rd sd r')).
Qed.

Lemma pre_ok_note pre : pre_ok pre -> has_note pre = false.
Proof.
  unfold pre_ok, has_note. induction pre as [|e r IH]; [reflexivity|]. cbn [forallb existsb]. intros H.
  apply andb_true_iff in H as [He Hr]. rewrite (IH Hr), orb_false_r.
  destruct e as [c|x y| | |n]; try reflexivity; try discriminate. destruct n; try discriminate; reflexivity.
Qed.

Lemma relay_decide_auth s cls res s1 pre : relay_decide o s cls = (res, s1, pre) ->
  authname s1 = authname s /\ has_note pre = false.
Proof.
  intros H. destruct (relay_decide_core _ _ _ _ _ _ H) as (Hc & Hp). split; [apply Hc|exact (pre_ok_note _ Hp)].
Qed.

Lemma h_rcpt_auth s arg evs h s' : h_rcpt o s arg = (evs, h, s') -> has_note evs = false /\ authname s' = authname s.
Proof.
  unfold h_rcpt. intros H.
  destruct (o_addr o true arg) as [| | |addr more cls];
    try (destruct (Nat.leb MAXRCPT (rcptcount s))); try (inversion H; subst; (split; [reflexivity|]); rewrite ?an_tarpit; reflexivity).
  destruct (relay_decide o s cls) as [[res s1] pre] eqn:Er.
  destruct (relay_decide_auth _ _ _ _ _ Er) as (Hb & Hn).
  destruct res as [al|h0]; [|inversion H; subst; split; [exact Hn|exact Hb]].
  repeat (match type of H with
          | context [match ?x with _ => _ end] => destruct x eqn:?
          | context [if ?x then _ else _] => destruct x eqn:?
          end; try discriminate);
    inversion H; subst; (split; [rewrite ?has_note_app, ?Hn; reflexivity|]); rewrite ?an_tarpit; cbn [authname]; exact Hb.
Qed.

Lemma subm_gate_auth s res s1 pre : subm_gate o s = (res, s1, pre) ->
  authname s1 = authname s /\ has_note pre = false.
Proof.
  unfold subm_gate. destruct (o_submission o); [apply relay_decide_auth|]. intros H; inversion H; subst. auto.
Qed.

Lemma h_from_auth s arg len evs h s' : h_from o s arg len = (evs, h, s') -> has_note evs = false /\ authname s' = authname s.
Proof.
  unfold h_from. intros H.
  destruct (o_addr o false arg) as [| | |addr more cls]; [inversion H; subst; split; reflexivity| | |];
    (match type of H with context [subm_gate o ?sc] =>
       destruct (subm_gate o sc) as [[res s1] pre] eqn:Eg; destruct (subm_gate_auth _ _ _ _ Eg) as (Hb & Hn) end);
    cbn [authname] in Hb;
    (destruct res as [al|h0]; [|inversion H; subst; split; [exact Hn|exact Hb]]);
    repeat (match type of H with
            | context [match ?x with _ => _ end] => destruct x eqn:?
            | context [if ?x then _ else _] => destruct x eqn:?
            end; try discriminate);
    inversion H; subst; (split; [rewrite ?has_note_app, ?Hn; reflexivity|]); rewrite ?an_tarpit; cbn [authname]; exact Hb.
Qed.

Lemma h_data_auth f s evs h s' : h_data f o s = (evs, h, s') -> has_note evs = false /\ authname s' = authname s.
Proof.
  unfold h_data. intros H.
  destruct (Nat.eqb (goodrcpt s) 0).
  { inversion H; subst. split; [reflexivity|apply an_tarpit]. }
  destruct (sync_pipelining f s) as [sp s2] eqn:Esp.
  destruct (sync_pipelining_auth _ _ _ _ Esp) as (Hb & Hq).
  destruct sp as [e|].
  { inversion H; subst. split; [apply Hq; reflexivity|exact Hb]. }
  match type of H with context [data_loop ?a ?b ?c ?d ?e] => destruct (data_loop a b c d e) as [de r'] end.
  destruct de;
    repeat (match type of H with
            | context [match ?x with _ => _ end] => destruct x eqn:?
            | context [if ?x then _ else _] => destruct x eqn:?
            | context [let '(_, _) := ?x in _] => destruct x eqn:?
            end; try discriminate);
    inversion H; subst; (split; [reflexivity|cbn [freedata set_rd authname]; exact Hb]).
Qed.

Lemma on_error_auth s h ev so : on_error s h = (ev, so) ->
  has_note ev = false /\ match so with Some s' => authname s' = authname s | None => True end.
Proof.
  unfold on_error. intros H. destruct (Nat.ltb MAXBADCMDS (badcmds s)).
  - inversion H; subst. split; [reflexivity|exact Logic.I].
  - destruct h; inversion H; subst; (split; [reflexivity|]); rewrite ?an_tarpit; reflexivity.
Qed.

(** one command: authenticated afterwards iff before or an AUTH note was emitted *)
Lemma dispatch_auth f s l evs h s1 : dispatch f o s l = (evs, h, s1) ->
  authed s1 = authed s || has_auth evs.
Proof.
  unfold dispatch. intros H.
  assert (K0 : forall e : list event, has_note e = false -> authed s = authed s || has_auth e)
    by (intros e E; rewrite (has_note_auth _ E), orb_false_r; reflexivity).
  assert (K : forall (e : list event) s', has_note e = false -> authname s' = authname s -> authed s' = authed s || has_auth e)
    by (intros e s' E En; unfold authed; rewrite (has_note_auth _ E), En, orb_false_r; reflexivity).
  destruct (negb (line_valid l)). { inversion H; subst. apply K0; reflexivity. }
  destruct (find_cmd commands 0 l) as [[i [[[[name mask] hid] st] flags]]|].
  2:{ inversion H; subst. apply K0; reflexivity. }
  destruct (N.eqb (N.land (comstate s) mask) 0). { inversion H; subst. apply K0; reflexivity. }
  destruct (N.eqb (N.land flags 2) 0 && Nat.ltb CMD_LINE_MAX (length l)). { inversion H; subst. apply K0; reflexivity. }
  destruct (N.eqb (N.land flags 1) 0 && negb (Nat.eqb (length (skipn (length name) l)) 0)). { inversion H; subst. apply K0; reflexivity. }
  destruct (negb (N.eqb (N.land flags 4) 0) && negb (N.eqb (nth 0 (skipn (length name) l) 0%N) SP)). { inversion H; subst. apply K0; reflexivity. }
  unfold after_handler, run_handler in H.
  destruct hid as [|[|[|[|[|[|[|[|[|[|[|[|[|hid]]]]]]]]]]]]].
  - destruct (sync_pipelining f s) as [sp s2] eqn:Esp. destruct (sync_pipelining_auth _ _ _ _ Esp) as (Hb & Hq).
    destruct sp as [e|]; inversion H; subst; apply K; auto.
  - inversion H; subst. apply K0; reflexivity.
  - destruct (N.leb 8 (comstate s)); inversion H; subst; apply K; reflexivity.
  - destruct (o_helo o (skipn 5 l)); inversion H; subst; apply K; reflexivity.
  - destruct (o_helo o (skipn 5 l)); inversion H; subst; apply K; reflexivity.
  - destruct (h_from o s (skipn (length name) l) (length l)) as [[e h'] s'] eqn:Eh.
    destruct (h_from_auth _ _ _ _ _ _ Eh) as (Hn & Hb).
    destruct h'; inversion H; subst; apply K; auto.
  - destruct (h_rcpt o s (skipn (length name) l)) as [[e h'] s'] eqn:Eh.
    destruct (h_rcpt_auth _ _ _ _ _ Eh) as (Hn & Hb).
    destruct h'; inversion H; subst; apply K; auto.
  - destruct (h_data f o s) as [[e h'] s'] eqn:Eh.
    destruct (h_data_auth _ _ _ _ _ Eh) as (Hn & Hb).
    destruct h'; inversion H; subst; apply K; auto.
  - destruct (negb (esmtp s)); inversion H; subst; apply K0; reflexivity.
  - (* smtp_auth *)
    destruct (authed s || negb (o_authperm o)) eqn:Eg.
    { inversion H; subst. apply K0; reflexivity. }
    apply orb_false_iff in Eg as [Ea _]. rewrite Ea. cbn [orb].
    destruct (o_auth o (skipn 5 l)) as [nm|c|]; inversion H; subst.
    + destruct nm; reflexivity.
    + unfold authed in *. exact Ea.
    + unfold authed in *. exact Ea.
  - inversion H; subst. apply K0; reflexivity.
  - inversion H; subst. apply K0; reflexivity.
  - destruct (N.eqb (comstate s) 1 && bytes_eqb (sub l 4 10) [32; 47; 32; 72; 84; 84; 80; 47; 49; 46]%N);
      inversion H; subst; apply K0; reflexivity.
  - inversion H; subst. apply K0; reflexivity.
Qed.

Lemma step_auth f s evs s' : step f o s = (evs, Some s') -> authed s' = authed s || has_auth evs.
Proof.
  unfold step. intros H. destruct (net_read (rd s)) as [it r'].
  destruct it as [l| | | |].
  - destruct (dispatch f o (set_rd s r') l) as [[e h] s1] eqn:Ed.
    pose proof (dispatch_auth _ _ _ _ _ _ Ed) as Hd. change (authed (set_rd s r')) with (authed s) in Hd.
    destruct h;
      try (destruct (on_error s1 _) as [ev so'] eqn:Eoe; inversion H; subst;
           destruct (on_error_auth _ _ _ _ Eoe) as (Hn & Hb);
           rewrite has_auth_app, (has_note_auth _ Hn), orb_false_r; unfold authed in *; rewrite Hb; exact Hd).
    + inversion H; subst. rewrite has_auth_app. cbn. rewrite orb_false_r. exact Hd.
    + inversion H.
  - destruct (on_error_auth _ _ _ _ H) as (Hn & Hb). rewrite (has_note_auth _ Hn), orb_false_r. unfold authed. now rewrite Hb.
  - destruct (on_error_auth _ _ _ _ H) as (Hn & Hb). rewrite (has_note_auth _ Hn), orb_false_r. unfold authed. now rewrite Hb.
  - inversion H.
  - inversion H.
Qed.

(** an AUTH note comes from nowhere but a successful mechanism handler, run while AUTH is permitted *)
Definition auth_src (n : bytes) : Prop := o_authperm o = true /\ exists arg, o_auth o arg = Auth_ok n.

Lemma dispatch_auth_src f s l evs h s1 n : dispatch f o s l = (evs, h, s1) -> In (Note (NAuth n)) evs -> auth_src n.
Proof.
  unfold dispatch. intros H Hin.
  assert (K : has_note evs = false -> auth_src n)
    by (intros E; exfalso; exact (has_note_in _ n E Hin)).
  destruct (negb (line_valid l)). { inversion H; subst. apply K; reflexivity. }
  destruct (find_cmd commands 0 l) as [[i [[[[name mask] hid] st] flags]]|].
  2:{ inversion H; subst. apply K; reflexivity. }
  destruct (N.eqb (N.land (comstate s) mask) 0). { inversion H; subst. apply K; reflexivity. }
  destruct (N.eqb (N.land flags 2) 0 && Nat.ltb CMD_LINE_MAX (length l)). { inversion H; subst. apply K; reflexivity. }
  destruct (N.eqb (N.land flags 1) 0 && negb (Nat.eqb (length (skipn (length name) l)) 0)). { inversion H; subst. apply K; reflexivity. }
  destruct (negb (N.eqb (N.land flags 4) 0) && negb (N.eqb (nth 0 (skipn (length name) l) 0%N) SP)). { inversion H; subst. apply K; reflexivity. }
  unfold after_handler, run_handler in H.
  destruct hid as [|[|[|[|[|[|[|[|[|[|[|[|[|hid]]]]]]]]]]]]].
  - destruct (sync_pipelining f s) as [sp s2] eqn:Esp. destruct (sync_pipelining_auth _ _ _ _ Esp) as (Hb & Hq).
    destruct sp as [e|]; inversion H; subst; [apply K; apply Hq; reflexivity|apply K; reflexivity].
  - inversion H; subst. apply K; reflexivity.
  - destruct (N.leb 8 (comstate s)); inversion H; subst; apply K; reflexivity.
  - destruct (o_helo o (skipn 5 l)); inversion H; subst; apply K; reflexivity.
  - destruct (o_helo o (skipn 5 l)); inversion H; subst; apply K; reflexivity.
  - destruct (h_from o s (skipn (length name) l) (length l)) as [[e h'] s'] eqn:Eh.
    destruct (h_from_auth _ _ _ _ _ _ Eh) as (Hn & Hb).
    destruct h'; inversion H; subst; apply K; auto.
  - destruct (h_rcpt o s (skipn (length name) l)) as [[e h'] s'] eqn:Eh.
    destruct (h_rcpt_auth _ _ _ _ _ Eh) as (Hn & Hb).
    destruct h'; inversion H; subst; apply K; auto.
  - destruct (h_data f o s) as [[e h'] s'] eqn:Eh.
    destruct (h_data_auth _ _ _ _ _ Eh) as (Hn & Hb).
    destruct h'; inversion H; subst; apply K; auto.
  - destruct (negb (esmtp s)); inversion H; subst; apply K; reflexivity.
  - destruct (authed s || negb (o_authperm o)) eqn:Eg.
    { inversion H; subst. apply K; reflexivity. }
    apply orb_false_iff in Eg as [_ Ep]. apply negb_false_iff in Ep.
    destruct (o_auth o (skipn 5 l)) as [nm|c|] eqn:Eo; inversion H; subst; try (apply K; reflexivity).
    cbn [In] in Hin. destruct Hin as [E|[E|[]]]; [|discriminate]. inversion E; subst. split; [exact Ep|eauto].
  - inversion H; subst. apply K; reflexivity.
  - inversion H; subst. apply K; reflexivity.
  - destruct (N.eqb (comstate s) 1 && bytes_eqb (sub l 4 10) [32; 47; 32; 72; 84; 84; 80; 47; 49; 46]%N);
      inversion H; subst; apply K; reflexivity.
  - inversion H; subst. apply K; reflexivity.
Qed.

Lemma step_auth_src f s evs so n : step f o s = (evs, so) -> In (Note (NAuth n)) evs -> auth_src n.
Proof.
  unfold step. intros H Hin. destruct (net_read (rd s)) as [it r'].
  assert (Koe : forall s0 h0 ev so0, on_error s0 h0 = (ev, so0) -> ~ In (Note (NAuth n)) ev)
    by (intros s0 h0 ev so0 E; apply has_note_in; exact (proj1 (on_error_auth _ _ _ _ E))).
  destruct it as [l| | | |].
  - destruct (dispatch f o (set_rd s r') l) as [[e h] s1] eqn:Ed.
    assert (Kd : In (Note (NAuth n)) e -> auth_src n) by (apply (dispatch_auth_src _ _ _ _ _ _ _ Ed)).
    destruct h;
      try (destruct (on_error s1 _) as [ev so'] eqn:Eoe; inversion H; subst;
           apply in_app_or in Hin as [Hi|Hi]; [exact (Kd Hi)|exfalso; exact (Koe _ _ _ _ Eoe Hi)]).
    + inversion H; subst. apply in_app_or in Hin as [Hi|Hi]; [exact (Kd Hi)|].
      cbn [In] in Hi. destruct Hi as [E|[]]. discriminate.
    + inversion H; subst. exact (Kd Hin).
  - exfalso. exact (Koe _ _ _ _ H Hin).
  - exfalso. exact (Koe _ _ _ _ H Hin).
  - inversion H; subst. destruct Hin.
  - inversion H; subst. cbn [In] in Hin. destruct Hin as [E|[]]. discriminate.
Qed.

Lemma serve_auth_src fuel : forall s n, In (Note (NAuth n)) (serve fuel o s) -> auth_src n.
Proof.
  induction fuel as [|f IH]; intros s n Hin; cbn [serve] in Hin.
  - cbn [In] in Hin. destruct Hin as [E|[]]. discriminate.
  - destruct (step f o s) as [ev so] eqn:Es. apply in_app_or in Hin as [Hi|Hi].
    + exact (step_auth_src _ _ _ _ _ Es Hi).
    + destruct so as [s'|]; [exact (IH _ _ Hi)|destruct Hi].
Qed.

Theorem auth_note_from_backend chunks n : In (Note (NAuth n)) (run_session o chunks) -> auth_src n.
Proof.
  unfold run_session. intros Hin. cbn [In] in Hin. destruct Hin as [E|Hin]; [discriminate|].
  exact (serve_auth_src _ _ _ Hin).
Qed.

End Auth.

(** sortmx: the in-place insertion sort returns a stable, ascending rearrangement. *)
From Coq Require Import List NArith Bool Arith Lia Sorting.Permutation Sorting.Sorted.
From Qv Require Import Common.Bytes Gen.GenMx Model.Mx Spec.MxSpec.
Import ListNotations.
Local Open Scope bool_scope.

(* ------------------------------------------------------------------ the sort key *)

(** 2 * preference + (1 if the first address is v4-mapped): the order mx_sorts_before implements *)
Definition key (e : mx) : N :=
  (2 * prio e + match addrs e with a :: _ => if is_v4mapped a then 1 else 0 | [] => 0 end)%N.

Lemma sorts_before_key n c :
  nonempty n -> nonempty c -> mx_sorts_before n c = Ok (N.ltb (key n) (key c)).
Proof.
  unfold nonempty, mx_sorts_before, first_v4, key. intros Hn Hc.
  destruct (addrs n) as [|a ra]; [congruence|]. destruct (addrs c) as [|b rb]; [congruence|].
  destruct (N.eqb (prio n) (prio c)) eqn:E; cbn [negb bind].
  - apply N.eqb_eq in E. rewrite E.
    destruct (is_v4mapped a), (is_v4mapped b); cbn [bind]; f_equal; symmetry;
      first [apply N.ltb_lt; lia | apply N.ltb_ge; lia].
  - apply N.eqb_neq in E. f_equal.
    destruct (N.ltb (prio n) (prio c)) eqn:L; symmetry.
    + apply N.ltb_lt in L. apply N.ltb_lt. destruct (is_v4mapped a), (is_v4mapped b); lia.
    + apply N.ltb_ge in L. apply N.ltb_ge. destruct (is_v4mapped a), (is_v4mapped b); lia.
Qed.

(** textbook insertion behind all elements that are not greater *)
Fixpoint ins (n : mx) (l : list mx) : list mx :=
  match l with
  | [] => [n]
  | c :: r => if N.ltb (key n) (key c) then n :: c :: r else c :: ins n r
  end.

Lemma walk_ins n l : nonempty n -> Forall nonempty l -> walk n l = Ok (ins n l).
Proof.
  intros Hn Hl. induction Hl as [|c r Hc Hr IH]; [reflexivity|].
  cbn [walk ins]. rewrite (sorts_before_key n c Hn Hc). cbn [bind].
  destruct (N.ltb (key n) (key c)); [reflexivity|]. rewrite IH. reflexivity.
Qed.

Lemma insert_one_ins res n :
  res <> [] -> nonempty n -> Forall nonempty res -> insert_one res n = Ok (ins n res).
Proof.
  intros Hne Hn Hres. destruct res as [|r0 rest]; [congruence|].
  inversion Hres as [|x y H0 Hrest]; subst.
  cbn [insert_one ins]. rewrite (sorts_before_key n r0 Hn H0). cbn [bind].
  destruct (N.ltb (key n) (key r0)); [reflexivity|]. rewrite (walk_ins n rest Hn Hrest). reflexivity.
Qed.

Lemma ins_nonnil n l : ins n l <> [].
Proof. destruct l; cbn [ins]; [congruence|]. destruct (N.ltb _ _); congruence. Qed.

Lemma ins_perm n l : Permutation (n :: l) (ins n l).
Proof.
  induction l as [|c r IH]; [reflexivity|]. cbn [ins]. destruct (N.ltb _ _); [reflexivity|].
  rewrite perm_swap. constructor. exact IH.
Qed.

Lemma ins_Forall (P : mx -> Prop) n l : P n -> Forall P l -> Forall P (ins n l).
Proof.
  intros Hn Hl. eapply Permutation_Forall; [apply ins_perm|]. constructor; assumption.
Qed.

Definition ins_all (res l : list mx) : list mx := fold_left (fun acc n => ins n acc) l res.

Lemma insert_all_ins l : forall res,
  res <> [] -> Forall nonempty res -> Forall nonempty l -> insert_all res l = Ok (ins_all res l).
Proof.
  induction l as [|n t IH]; intros res Hne Hres Hl; [reflexivity|].
  inversion Hl as [|x y Hn Ht]; subst.
  cbn [insert_all]. rewrite (insert_one_ins res n Hne Hn Hres). cbn [bind].
  unfold ins_all. cbn [fold_left]. apply IH; [apply ins_nonnil|apply ins_Forall; assumption|assumption].
Qed.

Lemma ins_all_perm l : forall res, Permutation (res ++ l) (ins_all res l).
Proof.
  induction l as [|n t IH]; intros res; cbn [ins_all fold_left].
  - rewrite app_nil_r. reflexivity.
  - unfold ins_all in IH. rewrite <- IH. rewrite <- ins_perm.
    change (n :: t) with ([n] ++ t). rewrite app_assoc. apply Permutation_app_tail.
    rewrite Permutation_app_comm. reflexivity.
Qed.

(* ------------------------------------------------------------------ sortedness *)

Definition key_le (a b : mx) : Prop := (key a <= key b)%N.

Lemma ins_sorted n l : StronglySorted key_le l -> StronglySorted key_le (ins n l).
Proof.
  induction l as [|c r IH]; intros Hs; cbn [ins].
  - constructor; constructor.
  - inversion Hs as [|x y Hr Hc]; subst.
    destruct (N.ltb (key n) (key c)) eqn:L.
    + apply N.ltb_lt in L. constructor; [assumption|].
      constructor; [unfold key_le; lia|].
      eapply Forall_impl; [|exact Hc]. unfold key_le. intros; lia.
    + apply N.ltb_ge in L. constructor; [apply IH; assumption|].
      apply ins_Forall; [exact L|assumption].
Qed.

Lemma ins_all_sorted l : forall res, StronglySorted key_le res -> StronglySorted key_le (ins_all res l).
Proof.
  induction l as [|n t IH]; intros res Hs; cbn [ins_all fold_left]; [assumption|].
  apply IH. apply ins_sorted. assumption.
Qed.

(* ------------------------------------------------------------------ stability *)

Definition has_key (k : N) (e : mx) : bool := N.eqb (key e) k.

Lemma filter_key_above k l :
  Forall (fun c => (k < key c)%N) l -> filter (has_key k) l = [].
Proof.
  induction 1 as [|c r Hc Hr IH]; [reflexivity|]. cbn [filter]. unfold has_key at 1.
  destruct (N.eqb (key c) k) eqn:E; [apply N.eqb_eq in E; lia|assumption].
Qed.

Lemma ins_stable k n l :
  StronglySorted key_le l ->
  filter (has_key k) (ins n l) = filter (has_key k) l ++ (if has_key k n then [n] else []).
Proof.
  induction l as [|c r IH]; intros Hs; cbn [ins].
  - cbn [filter]. destruct (has_key k n); reflexivity.
  - inversion Hs as [|x y Hr Hc]; subst.
    destruct (N.ltb (key n) (key c)) eqn:L.
    + apply N.ltb_lt in L.
      assert (Hab : filter (has_key k) (n :: c :: r)
                    = (if has_key k n then [n] else []) ++ filter (has_key k) (c :: r)).
      { cbn [filter]. destruct (has_key k n); reflexivity. }
      rewrite Hab. destruct (has_key k n) eqn:Hk.
      * unfold has_key in Hk. apply N.eqb_eq in Hk.
        rewrite (filter_key_above k (c :: r)); [reflexivity|].
        constructor; [lia|]. eapply Forall_impl; [|exact Hc]. unfold key_le. intros; lia.
      * rewrite app_nil_r. reflexivity.
    + cbn [filter]. rewrite (IH Hr). destruct (has_key k c); reflexivity.
Qed.

Lemma ins_all_stable k l : forall res,
  StronglySorted key_le res ->
  filter (has_key k) (ins_all res l) = filter (has_key k) (res ++ l).
Proof.
  induction l as [|n t IH]; intros res Hs; cbn [ins_all fold_left].
  - rewrite app_nil_r. reflexivity.
  - unfold ins_all in IH. rewrite (IH (ins n res) (ins_sorted n res Hs)).
    rewrite !filter_app. rewrite (ins_stable k n res Hs). cbn [filter].
    rewrite <- app_assoc. f_equal. destruct (has_key k n); reflexivity.
Qed.

(* ------------------------------------------------------------------ addresses inside an entry *)

Lemma partition_perm {A} (f : A -> bool) (l : list A) :
  Permutation l (filter (fun a => negb (f a)) l ++ filter f l).
Proof.
  induction l as [|a r IH]; [reflexivity|]. cbn [filter].
  destruct (f a); cbn [negb app].
  - apply Permutation_cons_app. exact IH.
  - constructor. exact IH.
Qed.

Lemma qsort_ip6_perm l : Permutation l (qsort_ip6 l).
Proof. apply partition_perm. Qed.

Lemma qsort_ip6_v6_first l : v6_first (qsort_ip6 l).
Proof.
  exists (filter (fun a => negb (is_v4mapped a)) l), (filter is_v4mapped l).
  split; [reflexivity|]. split; apply Forall_forall; intros a Ha; apply filter_In in Ha; destruct Ha as [_ Ha];
    unfold is_v6; [exact Ha| rewrite Ha; reflexivity].
Qed.

Lemma sort_entry_same e : same_entry e (sort_entry e).
Proof.
  unfold sort_entry, same_entry. destruct (Nat.eqb (length (addrs e)) 1).
  - repeat split; reflexivity.
  - cbn. repeat split; try reflexivity. apply qsort_ip6_perm.
Qed.

Lemma sort_entry_v6_first e : v6_first (addrs (sort_entry e)).
Proof.
  unfold sort_entry. destruct (Nat.eqb (length (addrs e)) 1) eqn:E.
  - apply Nat.eqb_eq in E. destruct (addrs e) as [|a [|b r]]; try discriminate.
    destruct (is_v6 a) eqn:V.
    + exists [a], []. repeat split; repeat constructor. exact V.
    + exists [], [a]. repeat split; repeat constructor. exact V.
  - cbn. apply qsort_ip6_v6_first.
Qed.

Lemma sort_entry_nonempty e : nonempty e -> nonempty (sort_entry e).
Proof.
  unfold nonempty. intros H Hc. apply H.
  destruct (sort_entry_same e) as (_ & _ & Hp). rewrite Hc in Hp.
  apply Permutation_sym, Permutation_nil in Hp. exact Hp.
Qed.

Lemma sort_entry_prio e : prio (sort_entry e) = prio e.
Proof. unfold sort_entry. destruct (Nat.eqb _ _); reflexivity. Qed.

Lemma sort_entry_ident e : ident (sort_entry e) = ident e.
Proof. unfold sort_entry. destruct (Nat.eqb _ _); reflexivity. Qed.

(** with the IPv6 addresses in front, "contains IPv6" can be read off the first address *)
Lemma has_v6_first e a r : v6_first (addrs e) -> addrs e = a :: r -> has_v6 e = is_v6 a.
Proof.
  intros (l6 & l4 & Heq & H6 & H4) Ha. unfold has_v6. rewrite Ha in Heq. rewrite Ha.
  destruct l6 as [|x l6'].
  - cbn [app] in Heq. subst l4.
    assert (Hall : forall b, In b (a :: r) -> is_v6 b = false) by (apply Forall_forall; exact H4).
    rewrite (Hall a (or_introl eq_refl)).
    apply not_true_is_false. intros Hex. apply existsb_exists in Hex. destruct Hex as (b & Hb & Hv).
    rewrite (Hall b Hb) in Hv. discriminate.
  - cbn [app] in Heq. injection Heq as Hax Hr. subst x.
    assert (Hva : is_v6 a = true) by (inversion H6; assumption).
    cbn [existsb]. rewrite Hva. reflexivity.
Qed.

Lemma key_le_mx_le a b :
  nonempty a -> nonempty b -> v6_first (addrs a) -> v6_first (addrs b) -> key_le a b -> mx_le a b.
Proof.
  unfold nonempty, key_le, key, mx_le. intros Ha Hb Va Vb.
  pose proof (has_v6_first a) as Fa. pose proof (has_v6_first b) as Fb.
  destruct (addrs a) as [|x ra]; [congruence|]. destruct (addrs b) as [|y rb]; [congruence|].
  rewrite (Fa x ra Va eq_refl), (Fb y rb Vb eq_refl). unfold is_v6.
  destruct (is_v4mapped x), (is_v4mapped y); cbn [negb]; intros H;
    destruct (N.lt_trichotomy (prio a) (prio b)) as [L|[L|L]]; try (left; lia); try (right; split; [lia|intros; congruence]); lia.
Qed.

Lemma sorted_key_mx l :
  Forall nonempty l -> Forall (fun e => v6_first (addrs e)) l ->
  StronglySorted key_le l -> StronglySorted mx_le l.
Proof.
  intros Hn Hv Hs. induction Hs as [|a r Hr IH Ha]; [constructor|].
  inversion Hn as [|x y Hna Hnr]; subst. inversion Hv as [|x y Hva Hvr]; subst.
  constructor; [apply IH; assumption|].
  rewrite Forall_forall in *. intros b Hb. apply key_le_mx_le; auto.
Qed.

(* ------------------------------------------------------------------ sortmx *)

Definition sorted_list (l : list mx) : list mx :=
  match map sort_entry l with
  | [] => []
  | h :: t => ins_all [h] t
  end.

Lemma sortmx_sorted_list l :
  l <> [] -> Forall nonempty l -> sortmx l = Ok (sorted_list l).
Proof.
  intros Hne Hl. unfold sortmx, sorted_list.
  assert (Hl' : Forall nonempty (map sort_entry l)).
  { rewrite Forall_map. eapply Forall_impl; [|exact Hl]. apply sort_entry_nonempty. }
  destruct l as [|e r]; [congruence|]. cbn [map] in *.
  inversion Hl' as [|x y Hh Ht]; subst.
  apply insert_all_ins; [congruence|constructor; [assumption|constructor]|assumption].
Qed.

Lemma sorted_list_perm l : Permutation (map sort_entry l) (sorted_list l).
Proof.
  unfold sorted_list. destruct (map sort_entry l) as [|h t]; [reflexivity|].
  apply (ins_all_perm t [h]).
Qed.

Lemma sorted_list_sorted l : StronglySorted key_le (sorted_list l).
Proof.
  unfold sorted_list. destruct (map sort_entry l) as [|h t]; [constructor|].
  apply ins_all_sorted. constructor; constructor.
Qed.

Lemma sorted_list_stable k l :
  filter (has_key k) (sorted_list l) = filter (has_key k) (map sort_entry l).
Proof.
  unfold sorted_list. destruct (map sort_entry l) as [|h t]; [reflexivity|].
  rewrite ins_all_stable; [reflexivity|]. constructor; constructor.
Qed.

Lemma rearranged_map_sort_entry l out :
  Permutation (map sort_entry l) out -> rearranged l out.
Proof.
  intros Hp. apply Permutation_sym in Hp. apply Permutation_map_inv in Hp.
  destruct Hp as (p & -> & Hp). exists p. split; [exact Hp|].
  clear Hp. induction p as [|e r IH]; constructor; [apply sort_entry_same|exact IH].
Qed.

Theorem sortmx_correct l :
  l <> [] -> Forall nonempty l ->
  exists out, sortmx l = Ok out /\ sort_spec l out.
Proof.
  intros Hne Hl. exists (sorted_list l). split; [apply sortmx_sorted_list; assumption|].
  assert (Hn : Forall nonempty (sorted_list l)).
  { eapply Permutation_Forall; [apply sorted_list_perm|]. rewrite Forall_map.
    eapply Forall_impl; [|exact Hl]. apply sort_entry_nonempty. }
  assert (Hv : Forall (fun e => v6_first (addrs e)) (sorted_list l)).
  { eapply Permutation_Forall; [apply sorted_list_perm|]. rewrite Forall_map.
    apply Forall_forall. intros e _. apply sort_entry_v6_first. }
  split; [|split].
  - apply rearranged_map_sort_entry, sorted_list_perm.
  - apply sorted_key_mx; [assumption|assumption|apply sorted_list_sorted].
  - exact Hv.
Qed.

(** stability: among the entries of one preference and one family class the DNS order is kept *)
Definition same_class (p : N) (v6 : bool) (e : mx) : bool := N.eqb (prio e) p && Bool.eqb (has_v6 e) v6.

Lemma same_class_key e p v6 :
  nonempty e -> v6_first (addrs e) ->
  same_class p v6 e = has_key (2 * p + (if v6 then 0 else 1))%N e.
Proof.
  unfold nonempty, same_class, has_key, key. intros Hn Hv.
  pose proof (has_v6_first e) as Fe.
  destruct (addrs e) as [|a r]; [congruence|].
  rewrite (Fe a r Hv eq_refl). unfold is_v6.
  destruct (N.eqb (prio e) p) eqn:E.
  - apply N.eqb_eq in E. subst p.
    destruct (is_v4mapped a), v6; cbn [negb Bool.eqb andb]; symmetry;
      first [apply N.eqb_eq; lia | apply N.eqb_neq; lia].
  - apply N.eqb_neq in E. cbn [andb]. symmetry. apply N.eqb_neq.
    destruct (is_v4mapped a), v6; lia.
Qed.

Lemma filter_ext_Forall {A} (f g : A -> bool) (P : A -> Prop) l :
  Forall P l -> (forall a, P a -> f a = g a) -> filter f l = filter g l.
Proof.
  induction 1 as [|a r Ha Hr IH]; intros Hfg; [reflexivity|].
  cbn [filter]. rewrite (Hfg a Ha), (IH Hfg). reflexivity.
Qed.

Theorem sortmx_stable l p v6 :
  l <> [] -> Forall nonempty l ->
  exists out, sortmx l = Ok out /\
    filter (same_class p v6) out = filter (same_class p v6) (map sort_entry l).
Proof.
  intros Hne Hl. exists (sorted_list l). split; [apply sortmx_sorted_list; assumption|].
  assert (Hin : Forall (fun e => nonempty e /\ v6_first (addrs e)) (map sort_entry l)).
  { rewrite Forall_map. eapply Forall_impl; [|exact Hl]. intros e He.
    split; [apply sort_entry_nonempty; exact He|apply sort_entry_v6_first]. }
  assert (Hout : Forall (fun e => nonempty e /\ v6_first (addrs e)) (sorted_list l)).
  { eapply Permutation_Forall; [apply sorted_list_perm|exact Hin]. }
  rewrite (filter_ext_Forall _ (has_key (2 * p + (if v6 then 0 else 1))%N) _ _ Hout)
    by (intros e [H1 H2]; apply same_class_key; assumption).
  rewrite (filter_ext_Forall _ (has_key (2 * p + (if v6 then 0 else 1))%N) _ _ Hin)
    by (intros e [H1 H2]; apply same_class_key; assumption).
  apply sorted_list_stable.
Qed.

(* ------------------------------------------------------------------ the boolean checker means the Prop *)

Lemma list_eqb_eq a b : list_eqb a b = true <-> a = b.
Proof.
  revert b. induction a as [|x a IH]; destruct b as [|y b]; cbn [list_eqb]; split; intros H; try reflexivity; try discriminate.
  - apply andb_true_iff in H. destruct H as [H1 H2]. apply N.eqb_eq in H1. apply IH in H2. subst. reflexivity.
  - injection H as -> ->. apply andb_true_iff. split; [apply N.eqb_refl|apply IH; reflexivity].
Qed.

Lemma remove_first_spec {A} (p : A -> bool) l l' :
  remove_first p l = Some l' -> exists l1 y l2, l = l1 ++ y :: l2 /\ l' = l1 ++ l2 /\ p y = true.
Proof.
  revert l'. induction l as [|x r IH]; intros l' H; cbn [remove_first] in H; [discriminate|].
  destruct (p x) eqn:Px.
  - injection H as <-. exists [], x, r. repeat split. exact Px.
  - destruct (remove_first p r) as [r'|] eqn:E; [|discriminate]. cbn in H. injection H as <-.
    destruct (IH r' eq_refl) as (l1 & y & l2 & -> & -> & Hy). exists (x :: l1), y, l2. repeat split. exact Hy.
Qed.

Lemma perm_by_sound {A} (eqb : A -> A -> bool) (Rel : A -> A -> Prop) :
  (forall a b, eqb a b = true -> Rel a b) ->
  forall l1 l2, perm_by eqb l1 l2 = true -> exists p, Permutation l1 p /\ Forall2 Rel p l2.
Proof.
  intros Hsound. induction l1 as [|x r IH]; intros l2 H; cbn [perm_by] in H.
  - destruct l2; [|discriminate]. exists []. split; constructor.
  - destruct (remove_first (eqb x) l2) as [l2'|] eqn:E; [|discriminate].
    destruct (remove_first_spec _ _ _ E) as (o1 & y & o2 & -> & -> & Hy).
    destruct (IH _ H) as (p & Hp & HF).
    apply Forall2_app_inv_r in HF. destruct HF as (p1 & p2 & HF1 & HF2 & ->).
    exists (p1 ++ x :: p2). split.
    + apply Permutation_cons_app. exact Hp.
    + apply Forall2_app; [exact HF1|]. constructor; [apply Hsound; exact Hy|exact HF2].
Qed.

Lemma perm_by_list_eqb l1 l2 : perm_by list_eqb l1 l2 = true -> Permutation l1 l2.
Proof.
  intros H. destruct (perm_by_sound list_eqb eq (fun a b Hab => proj1 (list_eqb_eq a b) Hab) _ _ H) as (p & Hp & HF).
  assert (p = l2) as <-; [|exact Hp].
  clear -HF. induction HF; [reflexivity|]. subst. reflexivity.
Qed.

Lemma same_entry_b_sound a b : same_entry_b a b = true -> same_entry a b.
Proof.
  unfold same_entry_b, same_entry. intros H.
  apply andb_true_iff in H. destruct H as [H H3]. apply andb_true_iff in H. destruct H as [H1 H2].
  apply N.eqb_eq in H1. apply N.eqb_eq in H2. repeat split; try assumption. apply perm_by_list_eqb. exact H3.
Qed.

Lemma mx_leb_sound a b : mx_leb a b = true -> mx_le a b.
Proof.
  unfold mx_leb, mx_le. intros H. apply orb_true_iff in H. destruct H as [H|H].
  - left. apply N.ltb_lt. exact H.
  - right. apply andb_true_iff in H. destruct H as [H1 H2]. apply N.eqb_eq in H1. split; [exact H1|].
    intros Hb. rewrite Hb in H2. destruct (has_v6 a); [reflexivity|discriminate].
Qed.

Lemma ssorted_b_sound l : ssorted_b l = true -> StronglySorted mx_le l.
Proof.
  induction l as [|a r IH]; intros H; [constructor|].
  cbn [ssorted_b] in H. apply andb_true_iff in H. destruct H as [H1 H2].
  constructor; [apply IH; exact H2|].
  rewrite forallb_forall in H1. apply Forall_forall. intros b Hb. apply mx_leb_sound, H1, Hb.
Qed.

Lemma v6_first_b_sound l : v6_first_b l = true -> v6_first l.
Proof.
  induction l as [|a r IH]; intros H.
  - exists [], []. repeat split; constructor.
  - cbn [v6_first_b] in H. destruct (is_v6 a) eqn:V.
    + destruct (IH H) as (l6 & l4 & -> & H6 & H4). exists (a :: l6), l4. repeat split; [constructor; assumption|assumption].
    + exists [], (a :: r). repeat split; [constructor|]. constructor; [exact V|].
      rewrite forallb_forall in H. apply Forall_forall. intros b Hb. specialize (H b Hb).
      destruct (is_v6 b); [discriminate|reflexivity].
Qed.

Theorem spec_ok_sort_sound inp out : spec_ok_C20_sort inp out = true -> sort_spec inp out.
Proof.
  unfold spec_ok_C20_sort, sort_spec. intros H.
  apply andb_true_iff in H. destruct H as [H H3]. apply andb_true_iff in H. destruct H as [H1 H2].
  split; [|split].
  - apply (perm_by_sound same_entry_b same_entry same_entry_b_sound). exact H1.
  - apply ssorted_b_sound. exact H2.
  - rewrite forallb_forall in H3. apply Forall_forall. intros e He. apply v6_first_b_sound, H3, He.
Qed.

(** xtextlen() (the AUTH= parameter of MAIL FROM), end to end: the octets behind "AUTH=" are accepted with
    length n exactly when the first n octets are xtext, followed by the end of the line or a blank, that
    decodes -- without NUL, to at most 320 octets -- to nothing, "<>" or a mailbox. *)
From Qv Require Import Common.Bytes Gen.GenAddr Model.Addr Spec.AddrSpec Spec.AddrGrammar
  Proofs.AddrTables Proofs.CStrLemmas Proofs.DomainProofs Proofs.LocalProofs Proofs.LocalEquiv
  Proofs.ParseaddrProofs Proofs.ParseaddrEquiv Proofs.XtextProofs.

Local Arguments N.eqb : simpl never.

Lemma XT_RANGE_OK_exact c : tbl XT_RANGE_OK c = N.leb 33 c && N.leb c 126.
Proof. revert c. apply tbl_exact; [vm_compute; lia|vm_compute; reflexivity|lo_true]. Qed.
Lemma XT_PLAIN_OK_exact c : tbl XT_PLAIN_OK c = xchar c.
Proof. revert c. apply tbl_exact; [vm_compute; lia|vm_compute; reflexivity|unfold xchar; lo_true]. Qed.

Lemma uhex_table_all : forall c, (match uhex c with Some _ => true | None => false end) = true ->
  (tbl XT_HEX_OK c && match uhex c with Some v => N.eqb (tblN XT_HEXVAL c) v && N.ltb v 16 | None => false end) = true.
Proof.
  apply byte_pred_impl; [|vm_compute; reflexivity].
  intros c. unfold uhex, is_digit.
  destruct (N.leb_spec 48 c); destruct (N.leb_spec c 57); cbn [andb]; try lia;
  destruct (N.leb_spec 65 c); destruct (N.leb_spec c 70); cbn [andb]; try lia; discriminate.
Qed.

Lemma uhex_table c v : uhex c = Some v -> tbl XT_HEX_OK c = true /\ tblN XT_HEXVAL c = v /\ (v < 16)%N.
Proof.
  intros H. pose proof (uhex_table_all c) as X. rewrite H in X. specialize (X eq_refl).
  apply andb_true_iff in X as [X1 X2]. apply andb_true_iff in X2 as [X2 X3].
  apply N.eqb_eq in X2. apply N.ltb_lt in X3. auto.
Qed.

Section Oracle.
Variable pton4 pton6 : bytes -> bool.

Lemma xt_loop_complete rest m : forall x, length x <= m -> forall d, xdecode x = Some d -> ~ In NUL d ->
  forall acc result tail, tail = [] \/ hd 0%N tail = SP -> ~ In NUL tail -> length acc + length d <= 320 ->
  xt_loop ((x ++ tail) ++ NUL :: rest) acc result = Ok (Some (acc ++ d, (result + Z.of_nat (length x))%Z)).
Proof.
  induction m as [|m IH]; intros x Hlen d Hd Hn acc result tail Htail Hnt Hacc.
  - destruct x; [|simpl in Hlen; lia]. cbn in Hd. inversion Hd; subst d.
    cbn [app length]. rewrite app_nil_r, Z.add_0_r.
    destruct tail as [|t0 tail]; cbn [app xt_loop].
    + rewrite N.eqb_refl. reflexivity.
    + destruct Htail as [X|X]; [discriminate|]. cbn [hd] in X. subst t0.
      change (N.eqb SP NUL || N.eqb SP SP) with true. reflexivity.
  - destruct x as [|c x1].
    { apply (IH [] ltac:(simpl; lia) d Hd Hn acc result tail Htail Hnt Hacc). }
    cbn [xdecode] in Hd. cbn [app xt_loop].
    assert (Hlen1 : length x1 <= m) by (simpl in Hlen; lia).
    destruct (N.eqb_spec c cPLUS) as [->|Hplus].
    + destruct x1 as [|h1 [|h2 x3]]; try discriminate.
      destruct (uhex h1) as [a|] eqn:U1; [|discriminate]. destruct (uhex h2) as [b|] eqn:U2; [|discriminate].
      destruct (xdecode x3) as [d'|] eqn:D3; [|discriminate]. inversion Hd; subst d. clear Hd.
      apply not_in_cons in Hn as [Hv Hn'].
      destruct (uhex_table h1 a U1) as (T1 & V1 & B1). destruct (uhex_table h2 b U2) as (T2 & V2 & B2).
      change (N.eqb cPLUS NUL || N.eqb cPLUS SP) with false. cbn iota.
      rewrite XT_RANGE_OK_exact. change (N.leb 33 cPLUS && N.leb cPLUS 126) with true. cbn [negb]. cbn iota.
      xt_consts. cbn [length] in Hacc.
      destruct (Nat.ltb_spec (321 - 2) (length acc)) as [X|_]; [lia|].
      change (N.eqb cPLUS PLUS) with true. cbn iota. cbn [app].
      rewrite T1, T2. cbn [negb]. destruct (Nat.leb_spec 321 (length acc)) as [X|_]; [lia|].
      rewrite V1, V2. replace ((a * 16 + b) mod 256)%N with (a * 16 + b)%N by (rewrite N.mod_small; lia).
      cbn [andb]. destruct (N.eqb_spec (a * 16 + b) NUL) as [E|_]; [unfold NUL in *; congruence|].
      rewrite (IH x3 ltac:(simpl in Hlen1; lia) d' D3 Hn' _ _ tail Htail Hnt) by (rewrite app_length; simpl; lia).
      rewrite <- app_assoc. cbn [app length]. do 3 f_equal. lia.
    + destruct (N.leb 33 c && N.leb c 126 && negb (N.eqb c 61)) eqn:Ex; [|discriminate].
      destruct (xdecode x1) as [d'|] eqn:D1; [|discriminate]. inversion Hd; subst d. clear Hd.
      apply not_in_cons in Hn as [_ Hn'].
      destruct (xchar_props c Ex) as (Hc0 & Hcs & _).
      destruct (N.eqb_spec c NUL); [contradiction|]. destruct (N.eqb_spec c SP); [contradiction|]. cbn [orb].
      rewrite XT_RANGE_OK_exact.
      assert (Er : N.leb 33 c && N.leb c 126 = true) by (apply andb_true_iff in Ex as [Ex _]; exact Ex).
      rewrite Er. cbn [negb]. xt_consts. cbn [length] in Hacc.
      destruct (Nat.ltb_spec (321 - 2) (length acc)) as [X|_]; [lia|].
      destruct (N.eqb_spec c PLUS); [contradiction|].
      rewrite XT_PLAIN_OK_exact. unfold xchar. rewrite Ex.
      destruct (Nat.leb_spec 321 (length acc)) as [X|_]; [lia|].
      rewrite (IH x1 Hlen1 d' D1 Hn' _ _ tail Htail Hnt) by (rewrite app_length; simpl; lia).
      rewrite <- app_assoc. cbn [app length]. do 3 f_equal. lia.
Qed.

Definition xt_value_x (d : bytes) : Prop := xtext_value_x pton4 pton6 d.
Definition xtext_accept (s : bytes) (n : Z) : Prop := Spec.AddrGrammar.xtext_accept pton4 pton6 s n.

Theorem xtextlen_iff s rest n : ~ In NUL s -> (0 <= n)%Z ->
  (xtextlen pton4 pton6 (s ++ NUL :: rest) = Ok n <-> xtext_accept s n).
Proof.
  intros Hs Hn. split.
  - (* soundness, with the exact grammar and the length bound *)
    intros H. unfold xtextlen in H.
    destruct (xt_loop_spec rest (length s) s (le_n _) Hs [] 0%Z ltac:(simpl; lia)) as (r & Hr & Hpost).
    rewrite Hr in H. cbn [bind] in H. destruct r as [[acc result]|]; [|inversion H; lia].
    destruct Hpost as (x & tail & d & -> & Htail & Hd & Hdn & -> & -> & Hl). cbn [app] in *. rewrite Z.add_0_l in H.
    unfold xtext_accept, Spec.AddrGrammar.xtext_accept. exists x, tail, d.
    destruct (Nat.eqb_spec (length d) 0) as [E0|Hne].
    { inversion H; subst n. destruct d; [|discriminate]. unfold xt_value_x, xtext_value_x. auto 10. }
    xt_consts. destruct (Nat.leb_spec 321 (length d)) as [Hbad|_]; [lia|].
    change (d ++ [NUL]) with (d ++ NUL :: []) in H.
    rewrite strcmp_run in H; [|assumption|vm_compute; intuition discriminate]. cbn [bind] in H.
    destruct (bytes_eqb d [60; 62]%N) eqn:Enp.
    { apply bytes_eqb_eq in Enp. inversion H; subst n. unfold xt_value_x, xtext_value_x. auto 10. }
    unfold addrspec_valid in H. unfold AV_MIN in H.
    destruct (parseaddr_spec_x pton4 pton6 d [] Hdn) as (rc & Hrc & Hp). rewrite Hrc in H. cbn [bind] in H.
    destruct (Nat.leb_spec 3 rc) as [H3|_]; [|inversion H; lia].
    inversion H; subst n.
    repeat (split; [assumption || reflexivity|]).
    unfold xt_value_x, xtext_value_x. destruct rc as [|[|[|[|[|]]]]]; try lia; cbn in Hp; auto; destruct Hp.
  - intros (x & tail & d & -> & -> & Htail & Hd & Hdn & Hl & Hv).
    apply not_in_app in Hs as [_ Hnt]. unfold xtextlen.
    rewrite (xt_loop_complete rest (length x) x (le_n _) d Hd Hdn [] 0%Z tail Htail Hnt) by (simpl; lia).
    cbn [bind app]. rewrite Z.add_0_l.
    destruct (Nat.eqb_spec (length d) 0) as [E0|Hne]; [reflexivity|].
    xt_consts. destruct (Nat.leb_spec 321 (length d)) as [Hbad|_]; [lia|].
    change (d ++ [NUL]) with (d ++ NUL :: []).
    rewrite strcmp_run; [|assumption|vm_compute; intuition discriminate]. cbn [bind].
    destruct (bytes_eqb d [60; 62]%N) eqn:Enp; [reflexivity|].
    unfold addrspec_valid, AV_MIN.
    destruct Hv as [->|[->|[Hm|Hm]]]; [simpl in Hne; lia|discriminate| |];
      rewrite (parseaddr_complete pton4 pton6 d [] _ Hdn Hm); reflexivity.
Qed.

End Oracle.

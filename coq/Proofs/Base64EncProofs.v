(** b64encode without line wrapping produces the canonical text of its input;
    with Base64Proofs.decode2_valid this gives the round trip. *)
From Qv Require Import Common.Bytes Gen.GenBase64 Model.Base64 Spec.Base64Spec Proofs.Base64L2 Proofs.Base64Proofs.
From Coq Require Import ZifyN ZifyNat ZifyBool.
Ltac Zify.zify_post_hook ::= Z.div_mod_to_equations.

Definition echar (v : N) : N := nth (N.to_nat v) B64_ALPHA 0%N.

(** canonical Base64 text of an octet string (RFC 4648 section 4) *)
Fixpoint enc2 (x : bytes) : bytes :=
  match x with
  | [] => []
  | a :: x1 =>
      match x1 with
      | [] => [echar (a / 4); echar ((a mod 4) * 16); B64_PAD; B64_PAD]
      | b :: x2 =>
          match x2 with
          | [] => [echar (a / 4); echar ((a mod 4) * 16 + b / 16); echar ((b mod 16) * 4); B64_PAD]
          | c :: r => echar (a / 4) :: echar ((a mod 4) * 16 + b / 16)
                      :: echar ((b mod 16) * 4 + c / 64) :: echar (c mod 64) :: enc2 r
          end
      end
  end%N.

Lemma list3_ind {A} (P : list A -> Prop) :
  P [] -> (forall a, P [a]) -> (forall a b, P [a; b]) ->
  (forall a b c r, P r -> P (a :: b :: c :: r)) -> forall l, P l.
Proof.
  intros H0 H1 H2 H3.
  assert (G : forall n l, length l <= n -> P l).
  { induction n as [|n IH]; intros l HL.
    - destruct l; [exact H0|simpl in HL; lia].
    - destruct l as [|a [|b [|c r]]]; auto. apply H3. apply IH. simpl in HL. lia. }
  intros l. apply (G (length l)). lia.
Qed.

(** ------------------------------------------------------------ reflection over octets and sextets *)

Lemma forall1_range (P : N -> bool) n :
  forallb P (nrange n) = true -> forall a, (a < N.of_nat n)%N -> P a = true.
Proof. intros H a Ha. rewrite forallb_forall in H. exact (H a (in_nrange _ _ Ha)). Qed.

Lemma enc_s0 a : (a < 256 -> N.shiftr a B64_E_0R = a / 4)%N.
Proof.
  intros H. apply N.eqb_eq. apply (forall1_range (fun a => N.eqb (N.shiftr a B64_E_0R) (a / 4)) 256);
    [vm_compute; reflexivity|exact H].
Qed.
Lemma enc_s1 a b : (a < 256 -> b < 256 ->
  N.lor (N.shiftl (N.land a B64_E_1M) B64_E_1L) (N.shiftr b B64_E_1R) = (a mod 4) * 16 + b / 16)%N.
Proof.
  intros H0 H1. apply N.eqb_eq.
  apply (forall2_range (fun a b => N.eqb (N.lor (N.shiftl (N.land a B64_E_1M) B64_E_1L) (N.shiftr b B64_E_1R))
                                         ((a mod 4) * 16 + b / 16)) 256 256);
    [vm_compute; reflexivity|exact H0|exact H1].
Qed.
Lemma enc_s2 b c : (b < 256 -> c < 256 ->
  N.lor (N.shiftl (N.land b B64_E_2M) B64_E_2L) (N.shiftr c B64_E_2R) = (b mod 16) * 4 + c / 64)%N.
Proof.
  intros H0 H1. apply N.eqb_eq.
  apply (forall2_range (fun b c => N.eqb (N.lor (N.shiftl (N.land b B64_E_2M) B64_E_2L) (N.shiftr c B64_E_2R))
                                         ((b mod 16) * 4 + c / 64)) 256 256);
    [vm_compute; reflexivity|exact H0|exact H1].
Qed.
Lemma enc_s3 c : (c < 256 -> N.land c B64_E_3M = c mod 64)%N.
Proof.
  intros H. apply N.eqb_eq. apply (forall1_range (fun c => N.eqb (N.land c B64_E_3M) (c mod 64)) 256);
    [vm_compute; reflexivity|exact H].
Qed.

Lemma alpha_at_echar v : (v < 64)%N -> alpha_at v = Ok (echar v).
Proof.
  intros H. unfold alpha_at, echar.
  destruct (nth_error B64_ALPHA (N.to_nat v)) as [c|] eqn:E.
  - now rewrite (nth_error_nth _ _ _ E).
  - apply nth_error_None in E. rewrite alpha_len in E. lia.
Qed.

Lemma val_echar v : (v < 64)%N -> val (echar v) = Some v.
Proof.
  intros H.
  assert (G : (match val (echar v) with Some k => N.eqb k v | None => false end) = true).
  { apply (forall1_range (fun v => match val (echar v) with Some k => N.eqb k v | None => false end) 64);
      [vm_compute; reflexivity|exact H]. }
  destruct (val (echar v)) as [k|]; [|discriminate]. apply N.eqb_eq in G. now subst.
Qed.

Lemma echar_plain v : (v < 64)%N -> is_brk (echar v) = false /\ N.eqb (echar v) B64_PAD = false.
Proof. intros H. eapply val_not_brk. now apply val_echar. Qed.

(** ------------------------------------------------------------ the canonical text decodes to its input *)

Definition octets (x : bytes) : Prop := Forall (fun b => (b < 256)%N) x.

Lemma length_enc2 x : length (enc2 x) = 4 * ((length x + 2) / 3).
Proof.
  induction x as [| a | a b | a b c r IH] using list3_ind; try reflexivity.
  cbn [enc2 length]. rewrite IH.
  replace (S (S (S (length r))) + 2) with ((length r + 2) + 1 * 3) by lia.
  rewrite Nat.div_add by lia. lia.
Qed.

Lemma unwrap_plain t b : Forall (fun c => is_brk c = false) t -> unwrap t b = Some t.
Proof.
  revert b; induction t as [|c t IH]; intros b H; [reflexivity|].
  inversion H; subst. rewrite unwrap_nobrk by assumption. now rewrite IH.
Qed.

Lemma enc2_plain x : octets x -> Forall (fun c => is_brk c = false) (enc2 x).
Proof.
  destruct pad_specials as (_ & _ & PB).
  induction x as [| a | a b | a b c r IH] using list3_ind; intros H.
  - constructor.
  - inversion H; subst. cbn [enc2].
    repeat constructor; auto; apply echar_plain; lia.
  - inversion H as [|? ? Ha H']; subst. inversion H'; subst. cbn [enc2].
    repeat constructor; auto; apply echar_plain; lia.
  - inversion H as [|? ? Ha H1]; subst. inversion H1 as [|? ? Hb H2]; subst. inversion H2 as [|? ? Hc H3]; subst.
    cbn [enc2]. repeat (constructor; [apply echar_plain; lia|]). auto.
Qed.

Lemma std_decode_enc2 x : octets x -> std_decode (enc2 x) = Some x.
Proof.
  induction x as [| a | a b | a b c r IH] using list3_ind; intros H.
  - reflexivity.
  - inversion H; subst. cbn [enc2 std_decode].
    rewrite !val_echar by lia. rewrite !N.eqb_refl. cbn [andb].
    replace (N.eqb (((a mod 4) * 16) mod 16) 0)%N with true by (symmetry; apply N.eqb_eq; lia).
    f_equal. f_equal. lia.
  - inversion H as [|? ? Ha H']; subst. inversion H'; subst. cbn [enc2 std_decode].
    rewrite !val_echar by lia.
    destruct (echar_plain ((b mod 16) * 4)%N ltac:(lia)) as [_ ->]. rewrite N.eqb_refl.
    replace (N.eqb (((b mod 16) * 4) mod 4) 0)%N with true by (symmetry; apply N.eqb_eq; lia).
    f_equal. f_equal; [lia|]. f_equal. lia.
  - inversion H as [|? ? Ha H1]; subst. inversion H1 as [|? ? Hb H2]; subst. inversion H2 as [|? ? Hc H3]; subst.
    cbn [enc2 std_decode]. rewrite !val_echar by lia.
    destruct (echar_plain ((b mod 16) * 4 + c / 64)%N ltac:(lia)) as [_ ->].
    destruct (echar_plain (c mod 64)%N ltac:(lia)) as [_ ->].
    rewrite (IH H3). f_equal. f_equal; [lia|]. f_equal; [lia|]. f_equal. lia.
Qed.

Theorem strict_decode_enc2 x : octets x -> strict_decode (enc2 x) = Some x.
Proof.
  intros H. unfold strict_decode. rewrite unwrap_plain by now apply enc2_plain. now apply std_decode_enc2.
Qed.

(** ------------------------------------------------------------ the C encoder without wrapping computes enc2 *)

Lemma wrap_none size w oline acc : (oline < w)%N -> wrap size w oline acc = Ok (oline, acc).
Proof. intros H. unfold wrap. replace (N.leb w oline) with false by (symmetry; apply N.leb_gt; lia). reflexivity. Qed.

Lemma eloop_enc2 inp size w : forall fuel i oline acc,
  let len := length inp in
  octets inp -> len - i <= fuel -> i <= len ->
  length acc + length (enc2 (skipn i inp)) < size ->
  (oline + N.of_nat (length (enc2 (skipn i inp))) < w)%N ->
  eloop fuel inp len size w i oline acc = Ok (rev (enc2 (skipn i inp)) ++ acc).
Proof.
  induction fuel as [|f IH]; intros i oline acc len HO HF HI HS HW.
  - assert (i = len) by lia. subst i. simpl. rewrite Nat.ltb_irrefl.
    rewrite skipn_all_nil by (unfold len; lia). reflexivity.
  - cbn [eloop].
    destruct (suffix_view inp i) as [[E L]|(a & x1 & E & Ra & E1 & La)].
    { rewrite E. replace (Nat.ltb i len) with false by (symmetry; apply Nat.ltb_ge; unfold len; lia). reflexivity. }
    replace (Nat.ltb i len) with true by (symmetry; apply Nat.ltb_lt; unfold len; lia).
    rewrite Ra. cbn [bind].
    assert (OA : (a < 256)%N).
    { apply skipn_cons_inv in E as (E & _). unfold octets in HO. rewrite Forall_forall in HO. apply HO.
      eapply nth_error_In; eauto. }
    rewrite E in HS, HW. rewrite E.
    replace (i + 1) with (S i) by lia. replace (i + 2) with (S (S i)) by lia.
    destruct (suffix_view inp (S i)) as [[E1' L1]|(b & x2 & E1' & Rb & E2 & Lb)]; rewrite E1' in E1; subst x1.
    { (* one octet left *)
      replace (Nat.ltb (S i) len) with false by (symmetry; apply Nat.ltb_ge; unfold len; lia).
      replace (Nat.ltb (S (S i)) len) with false by (symmetry; apply Nat.ltb_ge; unfold len; lia).
      replace (Nat.leb len (S i)) with true by (symmetry; apply Nat.leb_le; unfold len; lia).
      replace (Nat.leb len (S (S i))) with true by (symmetry; apply Nat.leb_le; unfold len; lia).
      cbn [bind enc2 length] in *.
      rewrite enc_s0, enc_s1 by (auto; lia).
      rewrite !alpha_at_echar by lia. cbn [bind].
      repeat (rewrite put_ok by (simpl; lia); cbn [bind]).
      rewrite wrap_none by lia. cbn [bind].
      destruct f; cbn [eloop];
        replace (Nat.ltb (i + 3) len) with false by (symmetry; apply Nat.ltb_ge; unfold len; lia);
        replace (0 / 16)%N with 0%N by reflexivity; rewrite N.add_0_r; reflexivity. }
    assert (OB : (b < 256)%N).
    { apply skipn_cons_inv in E1' as (E1' & _). unfold octets in HO. rewrite Forall_forall in HO. apply HO.
      eapply nth_error_In; eauto. }
    replace (Nat.ltb (S i) len) with true by (symmetry; apply Nat.ltb_lt; unfold len; lia).
    replace (Nat.leb len (S i)) with false by (symmetry; apply Nat.leb_gt; unfold len; lia).
    rewrite Rb. cbn [bind].
    destruct (suffix_view inp (S (S i))) as [[E2' L2]|(c & x3 & E2' & Rc & E3 & Lc)]; rewrite E2' in E2; subst x2.
    { (* two octets left *)
      replace (Nat.ltb (S (S i)) len) with false by (symmetry; apply Nat.ltb_ge; unfold len; lia).
      replace (Nat.leb len (S (S i))) with true by (symmetry; apply Nat.leb_le; unfold len; lia).
      cbn [bind enc2 length] in *.
      rewrite enc_s0, enc_s1, enc_s2 by (auto; lia).
      rewrite !alpha_at_echar by lia. cbn [bind].
      repeat (rewrite put_ok by (simpl; lia); cbn [bind]).
      rewrite wrap_none by lia. cbn [bind].
      destruct f; cbn [eloop];
        replace (Nat.ltb (i + 3) len) with false by (symmetry; apply Nat.ltb_ge; unfold len; lia);
        replace (0 / 64)%N with 0%N by reflexivity; rewrite N.add_0_r; reflexivity. }
    assert (OC : (c < 256)%N).
    { apply skipn_cons_inv in E2' as (E2' & _). unfold octets in HO. rewrite Forall_forall in HO. apply HO.
      eapply nth_error_In; eauto. }
    replace (Nat.ltb (S (S i)) len) with true by (symmetry; apply Nat.ltb_lt; unfold len; lia).
    replace (Nat.leb len (S (S i))) with false by (symmetry; apply Nat.leb_gt; unfold len; lia).
    rewrite Rc. cbn [bind enc2 length] in *.
    rewrite enc_s0, enc_s1, enc_s2, enc_s3 by (auto; lia).
    rewrite !alpha_at_echar by lia. cbn [bind].
    repeat (rewrite put_ok by (simpl; lia); cbn [bind]).
    rewrite wrap_none by lia. cbn [bind].
    replace (i + 3) with (S (S (S i))) by lia.
    rewrite IH; auto; try (fold len; lia); rewrite E3.
    + cbn [rev]. rewrite <- !app_assoc. reflexivity.
    + simpl. lia.
    + lia.
Qed.

Theorem b64encode_enc2 x w :
  octets x -> (N.of_nat (length (enc2 x)) < w)%N -> b64encode x w = Ok (enc2 x).
Proof.
  intros HO HW. unfold b64encode.
  destruct x as [|a x']; [reflexivity|]. set (x := a :: x') in *.
  replace (Nat.eqb (length x) 0) with false by reflexivity.
  replace (N.eqb w 0) with false by (symmetry; apply N.eqb_neq; lia).
  set (i4 := (N.of_nat (length x) / B64_E_IN * B64_E_OUT)%N).
  set (q := (i4 / w)%N).
  pose proof (length_enc2 x) as LE.
  assert (SZ : length (enc2 x) < N.to_nat (i4 + q * B64_E_PERWRAP + B64_E_SLACK)).
  { unfold i4, B64_E_IN, B64_E_OUT, B64_E_PERWRAP, B64_E_SLACK. rewrite LE. clear. generalize (length x), q. intros n q'. lia. }
  rewrite (eloop_enc2 x _ w (S (length x)) 0 0%N []); auto; try lia; cbn [skipn].
  - cbn [bind]. rewrite app_nil_r, rev_length.
    apply Nat.ltb_lt in SZ. rewrite SZ. now rewrite rev_involutive.
Qed.

(** ------------------------------------------------------------ statements used by Props/Properties_C09.v *)

Theorem b64decode_safe inp : exists r, b64decode inp = Ok r.
Proof. exists (decode2 inp). apply b64decode_L2. Qed.

Theorem b64_valid_accepted inp d : strict_decode inp = Some d -> b64decode inp = Ok (Some (strip0 d)).
Proof. intros H. rewrite b64decode_L2. f_equal. now apply decode2_valid. Qed.

Theorem b64_roundtrip x w :
  octets x -> (N.of_nat (4 * ((length x + 2) / 3)) < w)%N ->
  exists e, b64encode x w = Ok e /\ b64decode e = Ok (Some (strip0 x)).
Proof.
  intros HO HW. exists (enc2 x). split.
  - apply b64encode_enc2; auto. now rewrite length_enc2.
  - apply b64_valid_accepted. now apply strict_decode_enc2.
Qed.

Lemma strip0_id x : last x 1%N <> 0%N -> strip0 x = x.
Proof.
  induction x as [|b x IH]; [reflexivity|]. intros H. cbn [strip0].
  destruct x as [|b' x'].
  - simpl in *. apply N.eqb_neq in H. now rewrite H.
  - rewrite IH by exact H. reflexivity.
Qed.

Theorem b64_roundtrip_exact x w :
  octets x -> last x 1%N <> 0%N -> (N.of_nat (4 * ((length x + 2) / 3)) < w)%N ->
  exists e, b64encode x w = Ok e /\ b64decode e = Ok (Some x).
Proof.
  intros HO HL HW. destruct (b64_roundtrip x w HO HW) as (e & E & D). exists e. split; auto.
  now rewrite strip0_id in D.
Qed.

Theorem b64_alphabet inp o :
  b64decode inp = Ok (Some o) ->
  exists used junk, inp = used ++ junk /\ Forall b64_char used /\ (junk = [] \/ In B64_PAD used).
Proof. rewrite b64decode_L2. intros H. inversion H. eapply decode2_alphabet; eauto. Qed.

Theorem b64_strict_partial inp :
  pad_regular inp = true -> b64decode inp = Ok (option_map strip0 (strict_decode inp)).
Proof. intros H. rewrite b64decode_L2. f_equal. now apply decode2_regular_eq. Qed.

(** "QQ==!!!!" : text after the padded group is ignored *)
Definition b64_lax_witness : bytes := [81; 81; 61; 61; 33; 33; 33; 33]%N.

Theorem b64_strict_refuted :
  ~ (forall inp, b64decode inp = Ok (option_map strip0 (strict_decode inp))).
Proof. intros H. specialize (H b64_lax_witness). vm_compute in H. discriminate. Qed.

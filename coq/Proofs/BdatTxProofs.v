(** Proofs about the model of send_bdat (Model/BdatTx.v): no out-of-range access,
    exact framing, content = message with bare LF normalised. *)
From Qv Require Import Common.Bytes Gen.GenBdat Model.BdatTx Spec.BdatSpec Proofs.BdatDigits.
Require Import Lia.

(** * list helpers *)
Lemma firstn_app_exact {A} (a b : list A) : firstn (length a) (a ++ b) = a.
Proof. induction a as [|x a IH]; cbn; [now destruct b|now rewrite IH]. Qed.

Lemma skipn_app_exact {A} (a b : list A) : skipn (length a) (a ++ b) = b.
Proof. induction a as [|x a IH]; cbn; auto. Qed.

Lemma split2 {A} (l : list A) n : n <= length l -> exists b c, l = b ++ c /\ length b = n.
Proof.
  intros H. exists (firstn n l), (skipn n l). split; [now rewrite firstn_skipn|].
  rewrite firstn_length. lia.
Qed.

Lemma split3 {A} (l : list A) p n : p + n <= length l ->
  exists a b c, l = a ++ b ++ c /\ length a = p /\ length b = n.
Proof.
  intros H. destruct (split2 l p ltac:(lia)) as (a & r & -> & Ha).
  rewrite app_length in H. destruct (split2 r n ltac:(lia)) as (b & c & -> & Hb).
  now exists a, b, c.
Qed.

Lemma blit_app lim (a b c src : bytes) pos :
  pos = length a -> length b = length src -> pos + length src <= lim ->
  blit lim (a ++ b ++ c) pos src = Ok (a ++ src ++ c).
Proof.
  intros -> Hb Hl. unfold blit.
  destruct (Nat.ltb_spec lim (length a + length src)) as [H|_]; [lia|].
  destruct (Nat.ltb_spec (length (a ++ b ++ c)) (length a + length src)) as [H|_].
  { rewrite !app_length in H. lia. }
  rewrite firstn_app_exact. rewrite <- skipn_skipn', skipn_app_exact, <- Hb, skipn_app_exact. reflexivity.
Qed.

Lemma sub_snoc (msg : bytes) a n : a + n < length msg ->
  sub msg a (S n) = sub msg a n ++ [nth (a + n) msg 0%N].
Proof.
  intros H. unfold sub. revert msg H. induction a as [|a IH]; intros msg H.
  - cbn [skipn Nat.add]. revert msg H. induction n as [|n IHn]; intros msg H.
    + destruct msg; [cbn in H; lia|reflexivity].
    + destruct msg as [|x msg]; [cbn in H; lia|]. cbn [length] in H.
      change (firstn (S (S n)) (x :: msg)) with (x :: firstn (S n) msg).
      rewrite IHn by lia. reflexivity.
  - destruct msg as [|x msg]; [cbn in H; lia|]. cbn [length] in H. cbn [skipn Nat.add nth].
    apply IH. lia.
Qed.

Lemma sub_0 {A} (l : list A) a : sub l a 0 = [].
Proof. reflexivity. Qed.

Lemma sub_1 (msg : bytes) a : a < length msg -> sub msg a 1 = [nth a msg 0%N].
Proof. intros H. rewrite sub_snoc by lia. rewrite sub_0, Nat.add_0_r. reflexivity. Qed.

Lemma sub_split {A} (l : list A) a n m : sub l a (n + m) = sub l a n ++ sub l (a + n) m.
Proof. unfold sub. rewrite firstn_add'. rewrite skipn_skipn'. reflexivity. Qed.

Lemma sub_skipn_all {A} (l : list A) a : sub l a (length l - a) = skipn a l.
Proof. unfold sub. apply firstn_all2. rewrite skipn_length. lia. Qed.

(** * normalisation lemmas *)
(** [endcr p m]: the last octet of [m] is CR ([p] if [m] is empty) *)
Fixpoint endcr (p : bool) (m : bytes) : bool :=
  match m with [] => p | x :: t => endcr (N.eqb x CR) t end.

Lemma endcr_snoc : forall m p x, endcr p (m ++ [x]) = N.eqb x CR.
Proof. induction m as [|y m IH]; intros p x; cbn; auto. Qed.

Lemma endcr_nonempty : forall m p q, m <> [] -> endcr p m = endcr q m.
Proof. intros [|x m] p q H; [congruence|reflexivity]. Qed.

Lemma endcr_true_inv m : endcr false m = true -> exists s, m = s ++ [CR].
Proof.
  induction m as [|x s _] using rev_ind.
  - discriminate.
  - rewrite endcr_snoc. intros H. apply N.eqb_eq in H. subst. now exists s.
Qed.

Lemma lf2crlf_snoc : forall m p x,
  lf2crlf p (m ++ [x]) = lf2crlf p m ++ (if N.eqb x LF && negb (endcr p m) then [CR; LF] else [x]).
Proof.
  induction m as [|y m IH]; intros p x.
  - cbn. destruct (N.eqb x LF && negb p); reflexivity.
  - cbn [app lf2crlf endcr]. destruct (N.eqb y LF && negb p) eqn:E.
    + rewrite IH. apply andb_true_iff in E as [E _]. apply N.eqb_eq in E. subst y.
      change (N.eqb LF CR) with false. reflexivity.
    + rewrite IH. reflexivity.
Qed.

Lemma tx_norm_lf2crlf : forall m,
  tx_norm m (lf2crlf false m) /\ tx_norm (CR :: m) (CR :: lf2crlf true m).
Proof.
  induction m as [|b t [IHa IHb]].
  - split; [constructor|]. apply tn_cr_keep; [exact I|constructor].
  - destruct (N.eqb_spec b LF) as [->|Hlf].
    + split.
      * cbn. now apply tn_lf.
      * cbn. now apply tn_crlf.
    + destruct (N.eqb_spec b CR) as [->|Hcr].
      * split.
        -- cbn. exact IHb.
        -- cbn. apply tn_cr_keep; [cbn; discriminate|exact IHb].
      * split.
        -- cbn [lf2crlf]. replace (N.eqb b LF) with false by (symmetry; now apply N.eqb_neq).
           replace (N.eqb b CR) with false by (symmetry; now apply N.eqb_neq).
           cbn. now apply tn_other.
        -- cbn [lf2crlf]. replace (N.eqb b LF) with false by (symmetry; now apply N.eqb_neq).
           replace (N.eqb b CR) with false by (symmetry; now apply N.eqb_neq).
           cbn. apply tn_cr_keep; [exact Hlf|now apply tn_other].
Qed.

Lemma hd_not_lf_app a b : hd_not_lf a -> (a = [] -> hd_not_lf b) -> hd_not_lf (a ++ b).
Proof. destruct a; cbn; auto. Qed.

(** chunk boundaries: normalising two pieces separately is normalising the whole,
    unless the cut separates a CR from its LF *)
Lemma tx_norm_app : forall a a', tx_norm a a' -> forall b b', tx_norm b b' ->
  (endcr false a = true -> hd_not_lf b) -> tx_norm (a ++ b) (a' ++ b').
Proof.
  induction 1 as [|m o Hm IH|m o Hh Hm IH|m o Hh Hm IH|m o Hm IH|x m o Hx1 Hx2 Hm IH]; intros b b' Hb Hcut.
  - exact Hb.
  - cbn [app]. apply tn_crlf. apply IH; [exact Hb|]. exact Hcut.
  - cbn [app]. apply tn_cr_keep.
    + apply hd_not_lf_app; [exact Hh|]. intros ->. apply Hcut. reflexivity.
    + apply IH; [exact Hb|]. intros E. apply Hcut. destruct m; [discriminate|exact E].
  - cbn [app]. apply tn_cr_compl.
    + apply hd_not_lf_app; [exact Hh|]. intros ->. apply Hcut. reflexivity.
    + apply IH; [exact Hb|]. intros E. apply Hcut. destruct m; [discriminate|exact E].
  - cbn [app]. apply tn_lf. apply IH; [exact Hb|]. exact Hcut.
  - cbn [app]. apply tn_other; [exact Hx1|exact Hx2|]. apply IH; [exact Hb|].
    intros E. apply Hcut. cbn [endcr]. destruct m; [discriminate|exact E].
Qed.

(** a segment ending in CR, with the CR completed *)
Lemma tx_norm_completed m : endcr false m = true -> tx_norm m (lf2crlf false m ++ [LF]).
Proof.
  intros H. destruct (endcr_true_inv m H) as [s ->].
  rewrite lf2crlf_snoc. change (N.eqb CR LF) with false. cbn [andb]. rewrite <- app_assoc.
  apply tx_norm_app.
  - apply tx_norm_lf2crlf.
  - cbn. apply tn_cr_compl; [exact I|constructor].
  - intros _. cbn. discriminate.
Qed.

Lemma tx_norm_exact : forall m o, tx_norm m o -> no_bare_cr m -> o = lf2crlf false m.
Proof.
  induction 1 as [|m o Hm IH|m o Hh Hm IH|m o Hh Hm IH|m o Hm IH|x m o Hx1 Hx2 Hm IH]; intros Hn.
  - reflexivity.
  - cbn in Hn. destruct Hn as (_ & _ & Hn). cbn. now rewrite IH.
  - cbn in Hn. destruct Hn as (Hn & _). specialize (Hn eq_refl). destruct m; [contradiction|]. cbn in Hh. congruence.
  - cbn in Hn. destruct Hn as (Hn & _). specialize (Hn eq_refl). destruct m; [contradiction|]. cbn in Hh. congruence.
  - cbn in Hn. destruct Hn as (_ & Hn). cbn. now rewrite IH.
  - cbn [no_bare_cr] in Hn. destruct Hn as (_ & Hn). cbn [lf2crlf].
    replace (N.eqb x LF) with false by (symmetry; now apply N.eqb_neq).
    replace (N.eqb x CR) with false by (symmetry; now apply N.eqb_neq).
    cbn. now rewrite IH.
Qed.

(** * the header *)
Lemma nd1_le plen cs : plen <= cs -> 0 < cs -> nd1 plen <= ndigits cs.
Proof.
  intros H Hc. unfold nd1. destruct (Nat.eqb_spec plen 0) as [->|E].
  - apply ndigits_ge1. exact Hc.
  - now apply ndigits_mono.
Qed.

Lemma header_ok cs lenlen hdr plen lst :
  16 <= cs -> lenlen = ndigits cs + BD_RESERVE -> length hdr = lenlen -> plen <= cs ->
  exists hdr' hl d,
    header cs lenlen hdr plen lst = Ok (hdr', hl)
    /\ length hdr' = lenlen /\ hl <= lenlen
    /\ decimal_of plen d
    /\ skipn hl hdr' = S_BDAT ++ d ++ (if lst then S_LAST else []) ++ CRLF
    /\ lenlen - hl = length (S_BDAT ++ d ++ (if lst then S_LAST else []) ++ CRLF).
Proof.
  intros Hcs Hll Hlen Hp.
  pose proof (ndigits_room cs Hcs) as Hroom.
  pose proof (nd1_le plen cs Hp ltac:(lia)) as Hnd.
  destruct (ultostr_spec plen) as (d & Hu & Hdec & Hdl).
  unfold header. fold (nd1 plen). rewrite Hu.
  assert (Ecmd : lit_bytes BD_CMD BD_CMD_LEN = Ok S_BDAT) by reflexivity.
  assert (Elast : lit_bytes BD_LAST BD_LAST_LEN = Ok (S_LAST ++ CRLF)) by reflexivity.
  rewrite Ecmd. cbn [bind].
  set (i := BD_HDR_FIXED + nd1 plen + (if lst then BD_LAST_ADD else 0)).
  assert (Hi : i <= lenlen) by (try (destruct lst); bd_consts; lia).
  destruct (Nat.ltb_spec lenlen i) as [Hc|_]; [lia|].
  set (hl := lenlen - i).
  assert (Hcslen : lenlen <= cs) by (bd_consts; lia).
  assert (Hival : i = 7 + length d + (if lst then 5 else 0)) by (try (destruct lst); bd_consts; lia).
  assert (Hhl : hl + i = lenlen) by (subst hl; lia).
  assert (Hd1 : 1 <= length d) by (rewrite Hdl; unfold nd1; destruct (Nat.eqb_spec plen 0); [lia|apply ndigits_ge1; lia]).
  clearbody i hl.
  (* "BDAT " *)
  destruct (split3 hdr hl 5 ltac:(try (destruct lst); bd_consts; lia)) as (a & b & c & -> & Ha & Hb).
  rewrite (blit_app cs a b c S_BDAT hl) by (try (cbn [length S_BDAT]); lia).
  cbn [bind].
  assert (Hc : length c = i - 5).
  { rewrite !app_length in Hlen. lia. }
  (* digits and NUL *)
  destruct (split2 c (length d + 1) ltac:(try (destruct lst); bd_consts; lia)) as (b2 & c2 & -> & Hb2).
  replace (a ++ S_BDAT ++ b2 ++ c2) with ((a ++ S_BDAT) ++ b2 ++ c2) by (now rewrite <- !app_assoc).
  rewrite (blit_app cs (a ++ S_BDAT) b2 c2 (d ++ [0%N]) (hl + BD_NUM_OFF))
    by (rewrite ?app_length; cbn [length S_BDAT]; bd_consts; lia).
  cbn [bind].
  assert (Hc2 : length c2 = i - 5 - (length d + 1)).
  { rewrite app_length in Hc. lia. }
  destruct lst.
  - (* " LAST" CRLF *)
    destruct (Nat.ltb_spec lenlen BD_LAST_BACK) as [Hx|_]; [bd_consts; lia|].
    rewrite Elast. cbn [bind].
    replace ((a ++ S_BDAT) ++ (d ++ [0%N]) ++ c2) with ((a ++ S_BDAT ++ d) ++ ([0%N] ++ c2) ++ [])
      by (rewrite app_nil_r, <- !app_assoc; reflexivity).
    rewrite (blit_app cs (a ++ S_BDAT ++ d) ([0%N] ++ c2) [] (S_LAST ++ CRLF) (lenlen - BD_LAST_BACK))
      by (rewrite ?app_length; cbn [length S_BDAT S_LAST CRLF app]; try (destruct lst); bd_consts; lia).
    cbn [bind]. exists ((a ++ S_BDAT ++ d) ++ (S_LAST ++ CRLF) ++ []), hl, d.
    split; [reflexivity|]. rewrite app_nil_r.
    split; [rewrite !app_length; cbn [length S_BDAT S_LAST CRLF app]; try (destruct lst); bd_consts; lia|].
    split; [lia|]. split; [exact Hdec|].
    split.
    + rewrite <- Ha. rewrite <- !app_assoc. rewrite skipn_app_exact. reflexivity.
    + rewrite !app_length; cbn [length S_BDAT S_LAST CRLF app]; try (destruct lst); bd_consts; lia.
  - (* CRLF *)
    destruct (Nat.ltb_spec lenlen BD_CR_BACK) as [Hx|_]; [bd_consts; lia|].
    destruct (Nat.ltb_spec lenlen BD_LF_BACK) as [Hx|_]; [bd_consts; lia|].
    cbn [orb].
    destruct c2 as [|x [|y c2]]; [cbn in Hc2; bd_consts; lia| |cbn in Hc2; bd_consts; lia].
    replace ((a ++ S_BDAT) ++ (d ++ [0%N]) ++ [x]) with ((a ++ S_BDAT ++ d) ++ [0%N] ++ [x])
      by (rewrite <- !app_assoc; reflexivity).
    rewrite (blit_app cs (a ++ S_BDAT ++ d) [0%N] [x] [CR] (lenlen - BD_CR_BACK))
      by (rewrite ?app_length; cbn [length S_BDAT]; try (destruct lst); bd_consts; lia).
    cbn [bind].
    replace ((a ++ S_BDAT ++ d) ++ [CR] ++ [x]) with ((a ++ S_BDAT ++ d ++ [CR]) ++ [x] ++ [])
      by (rewrite <- !app_assoc; reflexivity).
    rewrite (blit_app cs (a ++ S_BDAT ++ d ++ [CR]) [x] [] [LF] (lenlen - BD_LF_BACK))
      by (rewrite ?app_length; cbn [length S_BDAT]; try (destruct lst); bd_consts; lia).
    cbn [bind]. exists ((a ++ S_BDAT ++ d ++ [CR]) ++ [LF] ++ []), hl, d.
    split; [reflexivity|].
    split; [rewrite !app_length; cbn [length S_BDAT]; try (destruct lst); bd_consts; lia|].
    split; [lia|]. split; [exact Hdec|].
    split.
    + rewrite <- Ha. rewrite <- !app_assoc. rewrite skipn_app_exact. reflexivity.
    + rewrite !app_length; cbn [length S_BDAT CRLF app]; try (destruct lst); bd_consts; lia.
Qed.

(** * the inner loop *)
Definition seg (msg : bytes) (off0 off : nat) : bytes := sub msg off0 (off - off0).

Lemma seg_step msg off0 off : off0 <= off -> off < length msg ->
  seg msg off0 (S off) = seg msg off0 off ++ [nth off msg 0%N].
Proof.
  intros H1 H2. unfold seg. replace (S off - off0) with (S (off - off0)) by lia.
  rewrite sub_snoc by lia. replace (off0 + (off - off0)) with off by lia. reflexivity.
Qed.

Lemma seg_nil msg off : seg msg off off = [].
Proof. unfold seg. rewrite Nat.sub_diag. reflexivity. Qed.

Definition inv (cs lenlen : nat) (msg : bytes) (off0 : nat) (s : ist) : Prop :=
  off0 <= i_cpoff s /\ i_cpoff s + i_linel s = i_off s /\ i_off s <= length msg
  /\ i_len s = lenlen + length (i_pay s)
  /\ i_pay s ++ sub msg (i_cpoff s) (i_linel s) = lf2crlf false (seg msg off0 (i_off s))
  /\ (i_linel s = 0 -> endcr false (seg msg off0 (i_off s)) = false)
  /\ i_len s + i_linel s <= cs
  /\ (endcr false (seg msg off0 (i_off s)) = true -> i_len s + i_linel s < cs).

Lemma room_true cs len linel : 16 <= cs -> room cs len linel = true -> len + linel + 2 <= cs.
Proof.
  intros Hcs H. unfold room in H. bd_consts. apply orb_true_iff in H as [H|H].
  - apply Nat.ltb_lt in H. lia.
  - apply Nat.ltb_lt in H. lia.
Qed.

Lemma room_init cs lenlen : 16 <= cs -> lenlen = ndigits cs + BD_RESERVE -> room cs lenlen 0 = true.
Proof.
  intros Hcs ->. pose proof (ndigits_room cs Hcs). unfold room. bd_consts.
  apply orb_true_iff. right. apply Nat.ltb_lt. lia.
Qed.

Lemma rd_ok msg k : k < length msg -> rd msg k = Ok (nth k msg 0%N).
Proof. intros H. unfold rd. destruct (Nat.ltb_spec k (length msg)); [reflexivity|lia]. Qed.

Lemma put_ok cs len pay c : len < cs -> put cs len pay c = Ok (S len, pay ++ [c]).
Proof. intros H. unfold put. destruct (Nat.ltb_spec len cs); [reflexivity|lia]. Qed.

Lemma copy_line_ok cs msg len cpoff linel pay : len + linel <= cs -> cpoff + linel <= length msg ->
  copy_line cs msg len cpoff linel pay = Ok (pay ++ sub msg cpoff linel).
Proof.
  intros H1 H2. unfold copy_line.
  destruct (Nat.ltb_spec cs (len + linel)); [lia|].
  destruct (Nat.ltb_spec (length msg) (cpoff + linel)); [lia|]. reflexivity.
Qed.

Lemma inner_ok cs lenlen msg off0 : 16 <= cs ->
  forall fuel s, inv cs lenlen msg off0 s -> length msg - i_off s < fuel ->
  exists s', inner fuel cs msg s = Ok s' /\ inv cs lenlen msg off0 s'
    /\ i_off s <= i_off s'
    /\ (i_off s' < length msg -> room cs (i_len s') (i_linel s') = false)
    /\ (i_off s < length msg -> room cs (i_len s) (i_linel s) = true -> i_off s < i_off s').
Proof.
  intros Hcs. induction fuel as [|f IH]; intros s Hinv Hfuel; [lia|].
  destruct s as [off len cpoff linel pay].
  destruct Hinv as (H1 & H2 & H3 & H4 & H5 & H6 & H7 & H8). cbn [i_off i_len i_cpoff i_linel i_pay] in *.
  cbn [inner].
  destruct (Nat.ltb off (length msg) && room cs len linel) eqn:Etest.
  2:{ exists (mk_ist off len cpoff linel pay). split; [reflexivity|].
      split; [repeat split; assumption|]. cbn [i_off i_len i_linel].
      split; [lia|]. split.
      - intros Hlt. apply andb_false_iff in Etest as [E|E]; [|exact E].
        apply Nat.ltb_ge in E. lia.
      - intros Hlt Hr. rewrite Hr in Etest. apply Nat.ltb_lt in Hlt. rewrite Hlt in Etest. discriminate. }
  apply andb_true_iff in Etest as [Hoff Hroom]. apply Nat.ltb_lt in Hoff.
  apply (room_true cs len linel Hcs) in Hroom.
  rewrite rd_ok by exact Hoff. cbn [bind].
  assert (Hseg : seg msg off0 (S off) = seg msg off0 off ++ [nth off msg 0%N]) by (apply seg_step; lia).
  (* common ending: run the rest of the loop from the next state *)
  assert (Hnext : forall s1, inv cs lenlen msg off0 s1 -> i_off s1 = S off ->
            exists s', inner f cs msg s1 = Ok s' /\ inv cs lenlen msg off0 s'
              /\ off <= i_off s'
              /\ (i_off s' < length msg -> room cs (i_len s') (i_linel s') = false)
              /\ (off < length msg -> room cs len linel = true -> off < i_off s')).
  { intros s1 Hi1 Ho1. destruct (IH s1 Hi1 ltac:(lia)) as (s' & E & Hi' & Hle & Hex & _).
    exists s'. split; [exact E|]. split; [exact Hi'|]. split; [lia|]. split; [exact Hex|]. intros _ _. lia. }
  assert (Hend : endcr false (seg msg off0 (S off)) = N.eqb (nth off msg 0%N) CR) by (rewrite Hseg; apply endcr_snoc).
  destruct (N.eqb_spec (nth off msg 0%N) LF) as [Elf|Enlf].
  - rewrite Elf in Hend. change (N.eqb LF CR) with false in Hend.
    destruct (Nat.eqb_spec linel 0) as [El0|El0].
    + (* LF at the start of a line: insert CR *)
      subst linel. rewrite put_ok by lia. cbn [bind].
      assert (cpoff = off) by lia. subst cpoff.
      rewrite sub_0, app_nil_r in H5.
      assert (E5 : (pay ++ [CR]) ++ sub msg off 1 = lf2crlf false (seg msg off0 (S off))).
      { rewrite Hseg, lf2crlf_snoc, Elf, (H6 eq_refl). change (N.eqb LF LF && negb false) with true. cbv iota.
        rewrite sub_1 by exact Hoff. rewrite Elf, <- H5, <- app_assoc. reflexivity. }
      apply Hnext; [|reflexivity]. unfold inv. cbn [i_off i_len i_cpoff i_linel i_pay]. rewrite Hend.
      rewrite app_length. cbn [length].
      repeat split; try lia; try exact E5; try discriminate.
    + destruct (Nat.eqb_spec off 0) as [Eo|Eo]; [lia|].
      rewrite rd_ok by lia. cbn [bind].
      assert (Hprev : endcr false (seg msg off0 off) = N.eqb (nth (off - 1) msg 0%N) CR).
      { replace off with (S (off - 1)) at 1 by lia. rewrite seg_step by lia. apply endcr_snoc. }
      destruct (N.eqb_spec (nth (off - 1) msg 0%N) CR) as [Ecr|Encr]; cbn [negb].
      * (* CR LF: part of the line *)
        assert (E5 : pay ++ sub msg cpoff (S linel) = lf2crlf false (seg msg off0 (S off))).
        { rewrite Hseg, lf2crlf_snoc, Hprev, Elf. change (N.eqb LF LF && negb true) with false. cbv iota.
          rewrite sub_snoc by lia. replace (cpoff + linel) with off by lia. rewrite Elf, app_assoc, H5. reflexivity. }
        apply Hnext; [|reflexivity]. unfold inv. cbn [i_off i_len i_cpoff i_linel i_pay]. rewrite Hend.
        repeat split; try lia; try exact E5; try discriminate.
      * (* bare LF: copy the line, add CR LF *)
        rewrite copy_line_ok by lia. cbn [bind].
        rewrite put_ok by lia. cbn [bind]. rewrite put_ok by lia. cbn [bind].
        assert (E5 : ((pay ++ sub msg cpoff linel) ++ [CR]) ++ [LF] = lf2crlf false (seg msg off0 (S off))).
        { rewrite Hseg, lf2crlf_snoc, Hprev, Elf. change (N.eqb LF LF && negb false) with true.
          cbv iota. rewrite H5, <- !app_assoc. reflexivity. }
        assert (El : length (sub msg cpoff linel) = linel) by (apply sub_length; lia).
        apply Hnext; [|reflexivity]. unfold inv. cbn [i_off i_len i_cpoff i_linel i_pay]. rewrite Hend.
        rewrite sub_0, app_nil_r, !app_length, El. cbn [length].
        repeat split; try lia; try exact E5; try discriminate.
  - (* any other octet: part of the line *)
    assert (E5 : pay ++ sub msg cpoff (S linel) = lf2crlf false (seg msg off0 (S off))).
    { rewrite Hseg, lf2crlf_snoc.
      replace (N.eqb (nth off msg 0%N) LF) with false by (symmetry; now apply N.eqb_neq). cbn [andb].
      rewrite sub_snoc by lia. replace (cpoff + linel) with off by lia. rewrite app_assoc, H5. reflexivity. }
    apply Hnext; [|reflexivity]. unfold inv. cbn [i_off i_len i_cpoff i_linel i_pay].
    repeat split; try lia; try exact E5.
Qed.

(** * end of a chunk: pending line, completion of a chunk-final CR *)
Lemma skipn_nth_cons (msg : bytes) k : k < length msg -> skipn k msg = nth k msg 0%N :: skipn (S k) msg.
Proof.
  revert msg. induction k as [|k IH]; intros [|x msg] H; cbn in H; try lia; [reflexivity|].
  cbn [skipn nth]. apply IH. lia.
Qed.

Lemma finish_ok cs lenlen msg off0 s warned : 16 <= cs ->
  inv cs lenlen msg off0 s -> off0 < i_off s ->
  exists off1 len1 p wn1,
    finish_chunk 0 cs msg s warned = Ok (off1, len1, p, wn1)
    /\ i_off s <= off1 /\ off1 <= length msg
    /\ len1 = lenlen + length p /\ len1 <= cs
    /\ tx_norm (seg msg off0 off1) p
    /\ (endcr false (seg msg off0 off1) = true -> hd_not_lf (skipn off1 msg)).
Proof.
  intros Hcs Hinv Hprog. destruct s as [off len cpoff linel pay].
  destruct Hinv as (H1 & H2 & H3 & H4 & H5 & H6 & H7 & H8). cbn [i_off i_len i_cpoff i_linel i_pay] in *.
  cbn [finish_chunk].
  destruct (Nat.eqb_spec linel 0) as [El0|El0].
  - subst linel. rewrite sub_0, app_nil_r in H5.
    exists off, len, pay, warned. split; [reflexivity|]. repeat split; try lia.
    + rewrite H5. apply tx_norm_lf2crlf.
    + rewrite (H6 eq_refl). discriminate.
  - rewrite copy_line_ok by lia. cbn [bind].
    destruct (Nat.eqb_spec off 0) as [Eo|Eo]; [lia|].
    rewrite rd_ok by lia. cbn [bind].
    assert (Hprev : endcr false (seg msg off0 off) = N.eqb (nth (off - 1) msg 0%N) CR).
    { replace off with (S (off - 1)) at 1 by lia. rewrite seg_step by lia. apply endcr_snoc. }
    assert (El : length (sub msg cpoff linel) = linel) by (apply sub_length; lia).
    assert (Elp : length (lf2crlf false (seg msg off0 off)) = length pay + linel) by (rewrite <- H5, app_length; lia).
    rewrite H5.
    destruct (N.eqb_spec (nth (off - 1) msg 0%N) CR) as [Ecr|Encr].
    + (* the chunk would end in CR: append LF *)
      rewrite put_ok by (apply H8; exact Hprev). cbn [bind]. rewrite Nat.add_0_r.
      destruct (Nat.ltb_spec off (length msg)) as [Hlt|Hge].
      * rewrite rd_ok by exact Hlt. cbn [bind].
        destruct (N.eqb_spec (nth off msg 0%N) LF) as [Elf|Enlf].
        -- (* the LF is in the message: take it *)
           exists (S off), (S (len + linel)), (lf2crlf false (seg msg off0 off) ++ [LF]), warned.
           split; [reflexivity|].
           assert (E : lf2crlf false (seg msg off0 (S off)) = lf2crlf false (seg msg off0 off) ++ [LF]).
           { rewrite seg_step by lia. rewrite lf2crlf_snoc, Hprev, Elf. reflexivity. }
           repeat split; try lia.
           ++ rewrite app_length. cbn [length]. lia.
           ++ apply H8 in Hprev. lia.
           ++ rewrite <- E. apply tx_norm_lf2crlf.
           ++ rewrite seg_step by lia. rewrite endcr_snoc, Elf. discriminate.
        -- exists off, (S (len + linel)), (lf2crlf false (seg msg off0 off) ++ [LF]), true.
           split; [reflexivity|]. repeat split; try lia.
           ++ rewrite app_length. cbn [length]. lia.
           ++ apply H8 in Hprev. lia.
           ++ apply tx_norm_completed. exact Hprev.
           ++ intros _. rewrite skipn_nth_cons by exact Hlt. exact Enlf.
      * exists off, (S (len + linel)), (lf2crlf false (seg msg off0 off) ++ [LF]), true.
        split; [reflexivity|]. repeat split; try lia.
        -- rewrite app_length. cbn [length]. lia.
        -- apply H8 in Hprev. lia.
        -- apply tx_norm_completed. exact Hprev.
        -- intros _. rewrite skipn_all2 by lia. exact I.
    + exists off, (len + linel), (lf2crlf false (seg msg off0 off)), warned.
      split; [reflexivity|]. repeat split; try lia.
      * apply tx_norm_lf2crlf.
      * rewrite Hprev. discriminate.
Qed.

(** * one chunk *)
Lemma one_chunk_ok cs lenlen msg off hdr warned :
  16 <= cs -> lenlen = ndigits cs + BD_RESERVE -> length hdr = lenlen -> off < length msg ->
  exists w off1 hdr1 wn1 p,
    one_chunk 0 cs lenlen msg off hdr warned = Ok (w, off1, hdr1, wn1)
    /\ off < off1 /\ off1 <= length msg /\ length hdr1 = lenlen
    /\ frame p (Nat.eqb off1 (length msg)) w
    /\ length w <= cs
    /\ tx_norm (seg msg off off1) p
    /\ (endcr false (seg msg off off1) = true -> hd_not_lf (skipn off1 msg)).
Proof.
  intros Hcs Hll Hlen Hoff. unfold one_chunk.
  pose proof (ndigits_room cs Hcs) as Hroom.
  assert (Hinv0 : inv cs lenlen msg off (mk_ist off lenlen off 0 [])).
  { unfold inv. cbn [i_off i_len i_cpoff i_linel i_pay]. rewrite seg_nil. cbn [length].
    repeat split; try lia; try reflexivity; try discriminate. bd_consts. lia. }
  destruct (inner_ok cs lenlen msg off Hcs (S (length msg)) _ Hinv0 ltac:(cbn; lia))
    as (s & E & Hinv & Hle & _ & Hprog).
  rewrite E. cbn [bind]. cbn [i_off i_len i_linel] in Hprog, Hle.
  specialize (Hprog Hoff (room_init cs lenlen Hcs Hll)).
  destruct (finish_ok cs lenlen msg off s warned Hcs Hinv Hprog)
    as (off1 & len1 & p & wn1 & Ef & Hge & Hle1 & Hlen1 & Hcs1 & Hnorm & Hcut).
  rewrite Ef. cbn [bind].
  destruct (Nat.ltb_spec len1 lenlen) as [Hc|_]; [lia|].
  replace (len1 - lenlen) with (length p) by lia.
  destruct (header_ok cs lenlen hdr (length p) (Nat.eqb off1 (length msg)) Hcs Hll Hlen ltac:(lia))
    as (hdr1 & hl & d & Eh & Hl1 & Hhl & Hdec & Hskip & Hhlen).
  rewrite Eh. cbn [bind].
  exists (skipn hl hdr1 ++ p), off1, hdr1, wn1, p. split; [reflexivity|].
  repeat split; try lia; try assumption.
  - exists d. split; [exact Hdec|]. rewrite Hskip, <- !app_assoc. reflexivity.
  - rewrite app_length, skipn_length. lia.
Qed.

(** * the outer loop *)
Definition is_done (e : tx_end) : bool := match e with TxDone => true | TxAbort => false end.

Lemma frames_nonempty done ps ws : frames done ps ws -> ws <> [] -> ps <> [].
Proof. destruct ps, ws; cbn; intros H Hn; congruence || contradiction. Qed.

Lemma hd_not_lf_firstn k m : hd_not_lf m -> hd_not_lf (firstn k m).
Proof. destruct k, m; cbn; auto. Qed.

Lemma seg_skipn msg off off1 : off <= off1 -> seg msg off off1 ++ skipn off1 msg = skipn off msg.
Proof. intros H. unfold seg. rewrite <- (sub_app_skipn msg off (off1 - off)). repeat f_equal. lia. Qed.

Definition tx_content (msg : bytes) (off : nat) (done : bool) (o : bytes) : Prop :=
  if done then tx_norm (skipn off msg) o else exists k, tx_norm (sub msg off k) o.

Lemma outer_ok cs lenlen msg : 16 <= cs -> lenlen = ndigits cs + BD_RESERVE ->
  forall fuel off hdr warned nok, length msg - off < fuel -> off <= length msg -> length hdr = lenlen ->
  exists ws e wn ps,
    outer fuel 0 cs lenlen msg off hdr warned nok = Ok (ws, e, wn)
    /\ frames (is_done e) ps ws
    /\ Forall (fun w => length w <= cs) ws
    /\ (off < length msg -> ws <> [])
    /\ tx_content msg off (is_done e) (concat ps)
    /\ (nok = None -> e = TxDone).
Proof.
  intros Hcs Hll. induction fuel as [|f IH]; intros off hdr warned nok Hfuel Hoff Hlen; [lia|].
  cbn [outer]. destruct (Nat.ltb_spec off (length msg)) as [Hlt|Hge].
  2:{ exists [], TxDone, warned, []. split; [reflexivity|]. cbn.
      repeat split; try constructor; try lia. rewrite skipn_all2 by lia. constructor. }
  destruct (one_chunk_ok cs lenlen msg off hdr warned Hcs Hll Hlen Hlt)
    as (w & off1 & hdr1 & wn1 & p & E & Hprog & Hle1 & Hlen1 & Hframe & Hw & Hnorm & Hcut).
  rewrite E. cbn [bind].
  destruct (Nat.eqb_spec off1 (length msg)) as [Eend|Enend].
  - (* final chunk *)
    destruct f as [|f]; [lia|]. cbn [outer].
    destruct (Nat.ltb_spec off1 (length msg)) as [Hc|_]; [lia|]. cbn [bind].
    exists [w], TxDone, wn1, [p]. split; [reflexivity|]. cbn [is_done frames concat andb].
    repeat split; try assumption.
    + constructor; [exact Hw|constructor].
    + discriminate.
    + unfold tx_content. rewrite app_nil_r, <- (seg_skipn msg off off1) by lia.
      rewrite (skipn_all2 msg) by lia. rewrite app_nil_r. exact Hnorm.
  - assert (Hlt1 : off1 < length msg) by lia.
    assert (Hrec : forall nok', (nok = None -> nok' = None) ->
      exists ws e wn ps,
        (do r2 <- outer f 0 cs lenlen msg off1 hdr1 wn1 nok';
         let '(ws0, e0, wn0) := r2 in Ok (w :: ws0, e0, wn0)) = Ok (ws, e, wn)
        /\ frames (is_done e) ps ws
        /\ Forall (fun w => length w <= cs) ws
        /\ (off < length msg -> ws <> [])
        /\ tx_content msg off (is_done e) (concat ps)
        /\ (nok = None -> e = TxDone)).
    { intros nok' Hnok.
      destruct (IH off1 hdr1 wn1 nok' ltac:(lia) ltac:(lia) Hlen1)
        as (ws' & e' & wn' & ps' & E' & Hf' & Hs' & Hne' & Hc' & Hd').
      rewrite E'. cbn [bind]. exists (w :: ws'), e', wn', (p :: ps'). split; [reflexivity|].
      pose proof (frames_nonempty _ _ _ Hf' (Hne' Hlt1)) as Hps'.
      split.
      { cbn [frames]. split; [|exact Hf']. destruct ps' as [|p' ps']; [congruence|].
        rewrite andb_false_r. exact Hframe. }
      split; [constructor; assumption|]. split; [discriminate|]. split; [|intros Hn; apply Hd'; auto].
      unfold tx_content in *. cbn [concat]. destruct (is_done e').
      - rewrite <- (seg_skipn msg off off1) by lia. apply tx_norm_app; assumption.
      - destruct Hc' as [k Hk]. exists ((off1 - off) + k). rewrite sub_split.
        replace (off + (off1 - off)) with off1 by lia. apply tx_norm_app; [exact Hnorm|exact Hk|].
        intros Hcr. unfold sub. apply hd_not_lf_firstn. auto. }
    destruct nok as [[|n]|].
    + (* the server refused this chunk *)
      exists [w], TxAbort, wn1, [p]. split; [reflexivity|]. cbn [is_done frames concat andb].
      repeat split; try assumption.
      * constructor; [exact Hw|constructor].
      * discriminate.
      * unfold tx_content. exists (off1 - off). rewrite app_nil_r. exact Hnorm.
      * discriminate.
    + apply Hrec. discriminate.
    + apply Hrec. auto.
Qed.

(** * send_bdat *)
Lemma repeat_length' {A} (x : A) n : length (repeat x n) = n.
Proof. apply repeat_length. Qed.

Theorem send_bdat_ok cs msg nok : 16 <= cs ->
  exists ws e wn,
    send_bdat cs msg nok = Ok (ws, e, wn)
    /\ tx_ok cs msg (is_done e) ws
    /\ (nok = None -> e = TxDone).
Proof.
  intros Hcs. unfold send_bdat, send_bdat_m.
  change BD_SKIP_MARGIN with 0.
  destruct (outer_ok cs (ndigits cs + BD_RESERVE) msg Hcs eq_refl (S (length msg)) 0
              (repeat MALLOC_FILL (ndigits cs + BD_RESERVE)) false nok ltac:(lia) ltac:(lia) (repeat_length _ _))
    as (ws & e & wn & ps & E & Hf & Hs & Hne & Hc & Hd).
  exists ws, e, wn. split; [exact E|]. split; [|exact Hd].
  exists ps. split; [exact Hf|]. split; [exact Hs|]. split.
  - intros Hm. apply Hne. destruct msg; [congruence|cbn; lia].
  - unfold tx_content in Hc. destruct (is_done e).
    + exact Hc.
    + destruct Hc as [k Hk]. exists k. exact Hk.
Qed.

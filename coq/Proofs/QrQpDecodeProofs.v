(** What recode_qp writes ([qp_enc], for every [vs]) is decoded by the receiver of
    Spec/SmtpDataSpec.v ([qp_decode]: strict RFC 2045 decoder on the wire octets, lines of at
    most 76 octets, no blank at a line end, transparency dots removed) to the message with its
    line ends normalised. *)
From Qv Require Import Common.Bytes Gen.GenQrdata Model.Mime Model.QrData Model.QrDataL2 Proofs.QrMemLemmas
  Spec.SmtpDataSpec Proofs.QrPlainProofs Proofs.QrNeedRecodeProofs Proofs.QrPlainSpecProofs Proofs.QrQpProofs.
Require Import Lia.

Ltac dconsts := unfold QP_SOFT, QP_MAXLINE in *.

(** What the receiver gets for the input [l]: line ends normalised; a blank or tab that is the very
    last octet is sent as "=20" CRLF, so it comes with a line end. *)
Fixpoint qp_meaning (l : bytes) : bytes :=
  match l with
  | [] => []
  | c :: r =>
      if N.eqb c CR then
        CR :: LF :: match r with
                    | c2 :: r2 => if N.eqb c2 LF then qp_meaning r2 else qp_meaning r
                    | [] => []
                    end
      else if N.eqb c LF then CR :: LF :: qp_meaning r
      else match r with
           | [] => if is_blank c then c :: CRLF else [c]
           | _ => c :: qp_meaning r
           end
  end.

(** the input ends with a line end or with a blank *)
Fixpoint closed_end (l : bytes) : bool :=
  match l with
  | [] => false
  | c :: r => match r with [] => is_eol c || is_blank c | _ => closed_end r end
  end.

Lemma qp_meaning_other c r : is_eol c = false -> (is_blank c = false \/ r <> []) -> qp_meaning (c :: r) = c :: qp_meaning r.
Proof.
  intros He Hb. unfold is_eol in He. apply Bool.orb_false_elim in He as [H1 H2].
  cbn [qp_meaning]. rewrite H1, H2. destruct r as [|c2 r2]; [|reflexivity].
  destruct Hb as [Hb|Hb]; [now rewrite Hb|contradiction].
Qed.

Lemma closed_end_cons c r : r <> [] -> closed_end (c :: r) = closed_end r.
Proof. destruct r; [contradiction|reflexivity]. Qed.

(* ------------------------------------------------------------------ the decoder, one token at a time *)
Lemma qp_decode_cons col bol c r :
  qp_decode col bol (c :: r) =
      if bol && N.eqb c DOT then
        match r with
        | [] => None
        | c2 :: _ => if N.eqb c2 CR then None else qp_decode col false r
        end
      else if N.eqb c CR then
        match r with
        | c2 :: r2 => if N.eqb c2 LF && Nat.leb col QP_MAXLINE then
                        match qp_decode 0 true r2 with Some o => Some (CR :: LF :: o) | None => None end
                      else None
        | [] => None
        end
      else if N.eqb c EQ then
        match r with
        | a :: r1 =>
            match r1 with
            | b :: r2 =>
                if N.eqb a CR && N.eqb b LF then
                  if Nat.leb (S col) QP_MAXLINE then qp_decode 0 true r2 else None
                else
                  match hexval a, hexval b with
                  | Some x, Some y =>
                      match qp_decode (col + 3) false r2 with Some o => Some ((16 * x + y)%N :: o) | None => None end
                  | _, _ => None
                  end
            | [] => None
            end
        | [] => None
        end
      else if qp_literal c then
        match r with
        | c2 :: _ =>
            if (N.eqb c SP || N.eqb c HT) && N.eqb c2 CR then None
            else match qp_decode (S col) false r with Some o => Some (c :: o) | None => None end
        | [] => None
        end
      else None.
Proof. reflexivity. Qed.

Lemma dec_crlf col bol Y y :
  col <= QP_MAXLINE -> qp_decode 0 true Y = Some y -> qp_decode col bol (CR :: LF :: Y) = Some (CR :: LF :: y).
Proof.
  intros Hc HY. rewrite qp_decode_cons. change (N.eqb CR DOT) with false. rewrite Bool.andb_false_r.
  change (N.eqb CR CR) with true. change (N.eqb LF LF) with true. cbv iota. cbn [andb].
  destruct (Nat.leb_spec col QP_MAXLINE); [|lia]. now rewrite HY.
Qed.

Lemma dec_soft col bol Y y :
  S col <= QP_MAXLINE -> qp_decode 0 true Y = Some y -> qp_decode col bol (EQUALS :: CR :: LF :: Y) = Some y.
Proof.
  intros Hc HY. rewrite qp_decode_cons. change (N.eqb EQUALS DOT) with false. rewrite Bool.andb_false_r.
  change (N.eqb EQUALS CR) with false. change (N.eqb EQUALS EQ) with true.
  change (N.eqb CR CR) with true. change (N.eqb LF LF) with true. cbv iota. cbn [andb].
  destruct (Nat.leb_spec (S col) QP_MAXLINE); [|lia]. exact HY.
Qed.

Definition lit_plain (c : N) : Prop := qp_literal c = true /\ c <> SP /\ c <> HT.

Lemma lit_facts c : qp_literal c = true -> N.eqb c CR = false /\ N.eqb c EQ = false.
Proof.
  unfold qp_literal. intros H. split; apply N.eqb_neq; intros ->; cbn in H; discriminate.
Qed.

(** a literal that is no blank, not at the beginning of a line or no dot *)
Lemma dec_lit col bol c Y y :
  qp_literal c = true -> is_blank c = false -> bol && N.eqb c DOT = false ->
  qp_decode (S col) false Y = Some y -> qp_decode col bol (c :: Y) = Some (c :: y).
Proof.
  intros Hl Hb Hd HY. destruct (lit_facts c Hl) as [H1 H2].
  destruct Y as [|c2 Y'].
  { cbn [qp_decode] in HY. discriminate. }
  rewrite qp_decode_cons. rewrite Hd, H1, H2, Hl.
  unfold is_blank in Hb. apply Bool.orb_false_elim in Hb as [Hb1 Hb2]. rewrite Hb1, Hb2. cbn [orb andb].
  now rewrite HY.
Qed.

(** a literal blank inside a line; what follows must not be the line end *)
Lemma dec_blank col bol c c2 Y y :
  is_blank c = true -> N.eqb c2 CR = false ->
  qp_decode (S col) false (c2 :: Y) = Some y -> qp_decode col bol (c :: c2 :: Y) = Some (c :: y).
Proof.
  intros Hb Hn HY.
  assert (Hl : qp_literal c = true).
  { unfold is_blank in Hb. unfold qp_literal. apply Bool.orb_prop in Hb as [H|H]; apply N.eqb_eq in H; subst c; reflexivity. }
  destruct (lit_facts c Hl) as [H1 H2].
  assert (Hd : N.eqb c DOT = false).
  { unfold is_blank in Hb. apply Bool.orb_prop in Hb as [H|H]; apply N.eqb_eq in H; subst c; reflexivity. }
  rewrite qp_decode_cons. rewrite Hd, Bool.andb_false_r, H1, H2, Hl, Hn, Bool.andb_false_r. now rewrite HY.
Qed.

Lemma hexval_hexchar n : (n < 16)%N -> hexval (hexchar n) = Some n /\ N.eqb (hexchar n) CR = false /\ N.eqb (hexchar n) LF = false.
Proof.
  intros Hn.
  assert (H : (n = 0 \/ n = 1 \/ n = 2 \/ n = 3 \/ n = 4 \/ n = 5 \/ n = 6 \/ n = 7 \/ n = 8 \/ n = 9 \/
               n = 10 \/ n = 11 \/ n = 12 \/ n = 13 \/ n = 14 \/ n = 15)%N) by lia.
  repeat (destruct H as [H|H]; [subst n; repeat split; reflexivity|]). subst n; repeat split; reflexivity.
Qed.

Lemma byte_split c : (c < 256)%N -> (16 * N.land (N.shiftr c 4) 15 + N.land c 15)%N = c.
Proof.
  intros Hc. change 15%N with (N.ones 4). rewrite !N.land_ones. rewrite N.shiftr_div_pow2.
  change (2 ^ 4)%N with 16%N.
  assert (H1 : (c / 16 < 16)%N) by (apply N.div_lt_upper_bound; lia).
  rewrite (N.mod_small (c / 16) 16) by exact H1.
  rewrite (N.div_mod c 16) at 3 by discriminate. reflexivity.
Qed.

Lemma land15_lt c : (N.land c 15 < 16)%N.
Proof. change 15%N with (N.ones 4). rewrite N.land_ones. apply N.mod_upper_bound. discriminate. Qed.

Lemma dec_hex col bol c Y y :
  (c < 256)%N -> qp_decode (col + 3) false Y = Some y ->
  qp_decode col bol (hex_code c ++ Y) = Some (c :: y).
Proof.
  intros Hc HY. unfold hex_code. cbn [app]. rewrite qp_decode_cons.
  change (N.eqb EQUALS DOT) with false. rewrite Bool.andb_false_r.
  destruct (hexval_hexchar (N.land (N.shiftr c 4) 15) (land15_lt _)) as (Hh1 & Hn1 & _).
  destruct (hexval_hexchar (N.land c 15) (land15_lt _)) as (Hh2 & _ & _).
  change (N.eqb EQUALS CR) with false. change (N.eqb EQUALS EQ) with true. cbv iota.
  rewrite Hn1. cbn [andb]. rewrite Hh1, Hh2, HY. now rewrite byte_split.
Qed.

(** "=20" / "=09" *)
Lemma dec_blank_code col bol hb Y y :
  is_blank hb = true -> qp_decode (col + 3) false Y = Some y ->
  qp_decode col bol (blank_code hb ++ Y) = Some (hb :: y).
Proof.
  intros Hb HY. unfold is_blank in Hb. unfold blank_code.
  destruct (N.eqb_spec hb HT) as [->|Hn].
  - cbn [app]. rewrite qp_decode_cons. change (N.eqb EQUALS DOT) with false. rewrite Bool.andb_false_r.
    change (N.eqb EQUALS CR) with false. change (N.eqb EQUALS EQ) with true. cbv iota.
    change (N.eqb 48 CR && N.eqb 57 LF) with false. cbv iota.
    change (hexval 48) with (Some 0%N). change (hexval 57) with (Some 9%N). cbv iota. rewrite HY. reflexivity.
  - cbn [orb] in Hb. apply N.eqb_eq in Hb. subst hb.
    cbn [app]. rewrite qp_decode_cons. change (N.eqb EQUALS DOT) with false. rewrite Bool.andb_false_r.
    change (N.eqb EQUALS CR) with false. change (N.eqb EQUALS EQ) with true. cbv iota.
    change (N.eqb 50 CR && N.eqb 48 LF) with false. cbv iota.
    change (hexval 50) with (Some 2%N). change (hexval 48) with (Some 0%N). cbv iota. rewrite HY. reflexivity.
Qed.

(** the doubled dot at the beginning of a line *)
Lemma dec_dotdot Y y :
  qp_decode 1 false Y = Some y -> qp_decode 0 true (DOT :: DOT :: Y) = Some (DOT :: y).
Proof.
  intros HY. rewrite qp_decode_cons. change (N.eqb DOT DOT) with true. cbn [andb].
  change (N.eqb DOT CR) with false. cbv iota.
  apply (dec_lit 0 false DOT Y y); try reflexivity. exact HY.
Qed.

(* ------------------------------------------------------------------ encoder state, and what is claimed about it *)
Definition hlen (h : option N) : nat := match h with Some _ => 1 | None => 0 end.

Definition EInv (llen : nat) (held : option N) (rest : bytes) : Prop :=
  llen <= QP_SOFT + 3 /\
  (forall hb, held = Some hb ->
     is_blank hb = true /\ 1 <= llen <= QP_SOFT + 1 /\ exists n r, rest = n :: r /\ is_eol n = false).

(** is the decoder at the beginning of a line after [O], having been at column [col] before *)
Definition at_bol (col : nat) (O : bytes) : bool :=
  match O with [] => Nat.eqb col 0 | _ => last_is_lf O end.

Lemma at_bol_app col e col1 O' :
  e <> [] -> last_is_lf e = Nat.eqb col1 0 -> at_bol col (e ++ O') = at_bol col1 O'.
Proof.
  intros He Hl. destruct O' as [|x O'].
  - rewrite app_nil_r. destruct e; [contradiction|]. exact Hl.
  - unfold at_bol. destruct (e ++ x :: O') eqn:E; [destruct e; discriminate|]. rewrite <- E.
    apply last_is_lf_app. discriminate.
Qed.

Definition Good (O : bytes) (col : nat) (pre : bytes) (rest : bytes) : Prop :=
  exists col', col' <= QP_MAXLINE /\
    Nat.eqb col' 0 = at_bol col O /\
    (closed_end rest = true -> col' = 0) /\
    forall T t, (T = [] \/ T = CRLF) -> qp_decode col' (Nat.eqb col' 0) T = Some t ->
      qp_decode col (Nat.eqb col 0) (O ++ T) = Some (pre ++ qp_meaning rest ++ t).

(** prepending tokens [e] that take the decoder from [col] to [col1] and mean [d] *)
Lemma Good_pre e d col col1 O pre rest rest0 pre0 :
  e <> [] -> last_is_lf e = Nat.eqb col1 0 ->
  (closed_end rest0 = true -> closed_end rest = true \/ (O = [] /\ col1 = 0)) ->
  (forall T y, (T = [] \/ T = CRLF) -> qp_decode col1 (Nat.eqb col1 0) (O ++ T) = Some y ->
               qp_decode col (Nat.eqb col 0) (e ++ O ++ T) = Some (d ++ y)) ->
  (forall t, pre0 ++ qp_meaning rest0 ++ t = d ++ pre ++ qp_meaning rest ++ t) ->
  Good O col1 pre rest ->
  Good (e ++ O) col pre0 rest0.
Proof.
  intros He Hl Hc Hd Hm (col' & H1 & H2 & H3 & H4).
  exists col'. split; [exact H1|]. split; [rewrite (at_bol_app col e col1 O He Hl); exact H2|]. split.
  - intros Hce. destruct (Hc Hce) as [Hr|[Hr Hz]]; [auto|].
    subst O col1. cbn [at_bol] in H2. apply Nat.eqb_eq. exact H2.
  - intros T t HT Ht. rewrite <- app_assoc. rewrite Hm.
    apply Hd; [exact HT|]. apply H4; assumption.
Qed.

Lemma Good_shift O col pre rest pre0 rest0 :
  Good O col pre rest ->
  (forall t, pre0 ++ qp_meaning rest0 ++ t = pre ++ qp_meaning rest ++ t) ->
  (closed_end rest0 = true -> closed_end rest = true) ->
  Good O col pre0 rest0.
Proof.
  intros (col' & H1 & H2 & H3 & H4) Hm Hc. exists col'. repeat split; auto.
  intros T t HT Ht. rewrite Hm. apply H4; assumption.
Qed.

Lemma Good_nil col : col <= QP_MAXLINE -> Good [] col [] [].
Proof.
  intros Hc. exists col. split; [exact Hc|]. split; [reflexivity|]. split; [discriminate|].
  intros T t _ Ht. cbn [app qp_meaning]. exact Ht.
Qed.

(* ------------------------------------------------------------------ shapes of the encoder output *)
Lemma enc_eol vs llen held c r :
  is_eol c = true -> qp_enc vs llen held (c :: r) = olist held ++ CR :: LF :: qp_enc vs 0 None (after_eol c r).
Proof.
  intros He. rewrite qp_enc_cons. unfold is_eol in He. unfold after_eol.
  destruct (N.eqb_spec c CR) as [->|Hn].
  - destruct r as [|c2 r2]; [reflexivity|]. cbn [N.eqb Pos.eqb andb]. destruct (N.eqb c2 LF); reflexivity.
  - cbn [orb] in He. rewrite He. destruct r as [|c2 r2]; [reflexivity|]. reflexivity.
Qed.

Lemma meaning_eol c r : is_eol c = true -> qp_meaning (c :: r) = CR :: LF :: qp_meaning (after_eol c r).
Proof.
  intros He. cbn [qp_meaning]. unfold is_eol in He. unfold after_eol.
  destruct (N.eqb_spec c CR) as [->|Hn].
  - destruct r as [|c2 r2]; [reflexivity|]. cbn [N.eqb Pos.eqb andb]. destruct (N.eqb c2 LF); reflexivity.
  - cbn [orb] in He. rewrite He. destruct r as [|c2 r2]; reflexivity.
Qed.

Lemma closed_end_eol c r : is_eol c = true -> after_eol c r <> [] -> closed_end (c :: r) = closed_end (after_eol c r).
Proof.
  intros He Hne. unfold after_eol in *. destruct r as [|c2 r2]; [contradiction|].
  rewrite closed_end_cons by discriminate.
  destruct (N.eqb c CR && N.eqb c2 LF); [|reflexivity]. apply closed_end_cons. exact Hne.
Qed.

Lemma enc_held_head vs llen hb n r :
  is_eol n = false -> exists y Y, qp_enc vs llen (Some hb) (n :: r) = y :: Y /\ (y = hb \/ y = EQUALS).
Proof.
  intros He. rewrite qp_enc_cons. unfold is_eol in He. apply Bool.orb_false_elim in He as [H1 H2]. rewrite H1, H2.
  destruct (Nat.ltb QP_SOFT llen).
  - destruct vs as [|[|] vs'].
    + rewrite qp_norm_pre. cbn [app]. eauto.
    + destruct (qp_plain_next n).
      * eauto.
      * rewrite qp_norm_pre. unfold blank_code. destruct (N.eqb hb HT); cbn [app]; eauto.
    + rewrite qp_norm_pre. cbn [app]. eauto.
  - rewrite qp_norm_pre. cbn [olist app]. eauto.
Qed.

Lemma blank_not_cr hb : is_blank hb = true -> N.eqb hb CR = false.
Proof. unfold is_blank. intros H. apply Bool.orb_prop in H as [H|H]; apply N.eqb_eq in H; subst hb; reflexivity. Qed.

Lemma norm_head c r vs l : is_eol c = false -> exists y Y, qp_norm c r [] vs l = y :: Y /\ N.eqb y CR = false.
Proof.
  intros He. unfold qp_norm. cbn [app].
  destruct (Nat.eqb l 0 && N.eqb c DOT); [eauto|].
  destruct (is_blank c) eqn:Eb.
  - destruct r as [|c2 r2].
    + unfold blank_code. destruct (N.eqb c HT); cbn [app]; eauto.
    + destruct (N.eqb c2 CR) eqn:E1; [unfold blank_code; destruct (N.eqb c HT); cbn [app]; eauto|].
      destruct (N.eqb c2 LF) eqn:E2; [unfold blank_code; destruct (N.eqb c HT); cbn [app]; eauto|].
      destruct (enc_held_head vs (S l) c c2 r2) as (y & Y & E & Hy); [unfold is_eol; now rewrite E1, E2|].
      exists y, Y. split; [exact E|]. destruct Hy as [->| ->]; [now apply blank_not_cr|reflexivity].
  - destruct (qp_must_encode c); [unfold hex_code; cbn [app]; eauto|].
    exists c, (qp_enc vs (S l) None r). split; [reflexivity|].
    unfold is_eol in He. apply Bool.orb_false_elim in He as [H1 _]. exact H1.
Qed.

Lemma last_is_lf_hex c : last_is_lf (hex_code c) = false.
Proof.
  unfold hex_code, last_is_lf. cbn [rev app].
  destruct (hexval_hexchar (N.land c 15) (land15_lt _)) as (_ & _ & H). exact H.
Qed.

Lemma last_is_lf_code_crlf c : last_is_lf (blank_code c ++ CRLF) = true.
Proof. unfold blank_code. destruct (N.eqb c HT); reflexivity. Qed.

Lemma literal_of c : is_eol c = false -> is_blank c = false -> qp_must_encode c = false -> qp_literal c = true.
Proof.
  unfold is_eol, is_blank, qp_must_encode, qp_literal. intros H1 H2 H3.
  apply Bool.orb_false_elim in H3 as [H3 H5]. apply Bool.orb_false_elim in H3 as [H3 H4].
  apply Bool.orb_false_elim in H2 as [H6 H7].
  apply N.ltb_ge in H3, H5. apply N.eqb_neq in H4, H6, H7.
  change EQUALS with EQ in H4. change 61%N with EQ.
  replace (N.eqb c EQ) with false by (symmetry; now apply N.eqb_neq).
  replace (N.leb 33 c) with true by (symmetry; apply N.leb_le; unfold SP in *; lia).
  replace (N.leb c 126) with true by (symmetry; apply N.leb_le; lia). reflexivity.
Qed.

Lemma literal_of_plain c : qp_plain_next c = true -> qp_literal c = true /\ is_blank c = false /\ is_eol c = false.
Proof.
  unfold qp_plain_next, qp_literal, is_blank, is_eol. intros H.
  apply andb_prop in H as [H H3]. apply andb_prop in H as [H1 H2].
  apply N.ltb_lt in H1, H2. apply Bool.negb_true_iff in H3.
  change EQUALS with EQ in H3. rewrite H3.
  replace (N.leb 33 c) with true by (symmetry; apply N.leb_le; lia).
  replace (N.leb c 126) with true by (symmetry; apply N.leb_le; lia).
  repeat split; try reflexivity.
  - apply Bool.orb_false_iff. split; apply N.eqb_neq; unfold HT, SP; lia.
  - apply Bool.orb_false_iff. split; apply N.eqb_neq; unfold CR, LF; lia.
Qed.

(* ------------------------------------------------------------------ the main induction *)
Definition byte_list (l : bytes) : Prop := Forall (fun c => (c < 256)%N) l.

Lemma byte_list_after_eol c r : byte_list r -> byte_list (after_eol c r).
Proof.
  intros H. unfold after_eol. destruct r as [|c2 r2]; [exact H|].
  destruct (N.eqb c CR && N.eqb c2 LF); [now inversion H|exact H].
Qed.

Theorem qp_enc_good : forall rest, byte_list rest -> forall vs llen held,
  EInv llen held rest -> Good (qp_enc vs llen held rest) (llen - hlen held) (olist held) rest.
Proof.
  intros rest. remember (length rest) as n eqn:En. revert rest En.
  induction n as [n IH] using lt_wf_ind. intros rest En Hbytes vs llen held (Hll & Hheld).
  destruct rest as [|c r].
  { (* nothing left *)
    destruct held as [hb|].
    - destruct (Hheld hb eq_refl) as (_ & _ & nn & rr & E & _). discriminate.
    - cbn [qp_enc olist hlen]. rewrite Nat.sub_0_r. apply Good_nil. dconsts. lia. }
  inversion Hbytes as [|? ? Hc256 Hbr]; subst.
  assert (IHr : forall rest', length rest' <= length r -> byte_list rest' -> forall vs llen held,
            EInv llen held rest' -> Good (qp_enc vs llen held rest') (llen - hlen held) (olist held) rest').
  { intros rest' Hl Hb vs0 l0 h0 HI. eapply IH; [|reflexivity|exact Hb|exact HI]. cbn [length]. lia. }
  clear IH.
  destruct (is_eol c) eqn:Heol.
  { (* line end *)
    assert (held = None) as ->.
    { destruct held as [hb|]; [|reflexivity]. destruct (Hheld hb eq_refl) as (_ & _ & nn & rr & E & He).
      inversion E; subst nn. rewrite Heol in He. discriminate. }
    rewrite enc_eol by exact Heol. cbn [olist hlen app]. rewrite Nat.sub_0_r.
    pose proof (after_eol_length c r) as Hal.
    change (CR :: LF :: qp_enc vs 0 None (after_eol c r)) with ([CR; LF] ++ qp_enc vs 0 None (after_eol c r)).
    eapply (Good_pre [CR; LF] [CR; LF] llen 0 _ [] (after_eol c r)).
    - discriminate.
    - reflexivity.
    - intros Hce. destruct (after_eol c r) as [|x rr] eqn:Ea.
      + right. split; reflexivity.
      + left. rewrite <- Ea. rewrite <- closed_end_eol; [exact Hce|exact Heol|rewrite Ea; discriminate].
    - intros T y _ HY. cbn [app]. apply dec_crlf; [dconsts; lia|exact HY].
    - intros t. rewrite meaning_eol by exact Heol. reflexivity.
    - apply (IHr (after_eol c r) Hal (byte_list_after_eol c r Hbr) vs 0 None).
      split; [dconsts; lia|discriminate]. }
  (* ---- [c] is no line end: first what qp_norm does at a column l <= QP_SOFT with nothing held *)
  assert (GoodN : forall vs l, l <= QP_SOFT -> Good (qp_norm c r [] vs l) l [] (c :: r)).
  { intros vs0 l Hl. unfold qp_norm. cbn [app].
    destruct (Nat.eqb l 0 && N.eqb c DOT) eqn:Edot.
    { (* doubled dot *)
      apply andb_prop in Edot as [El Ed]. apply Nat.eqb_eq in El. apply N.eqb_eq in Ed. subst l c.
      change (DOT :: DOT :: qp_enc vs0 1 None r) with ([DOT; DOT] ++ qp_enc vs0 1 None r).
      eapply (Good_pre [DOT; DOT] [DOT] 0 1 _ [] r).
      - discriminate.
      - reflexivity.
      - intros Hce. destruct r as [|x rr]; [cbn in Hce; discriminate|]. left. exact Hce.
      - intros T y _ HY. cbn [app]. apply dec_dotdot. exact HY.
      - intros t. rewrite qp_meaning_other by (auto). reflexivity.
      - apply (IHr r (le_n _) Hbr vs0 1 None). split; [dconsts; lia|discriminate]. }
    destruct (is_blank c) eqn:Ebl.
    { (* blank or tab *)
      destruct r as [|c2 r2].
      { (* the last octet *)
        rewrite <- (app_nil_r (blank_code c ++ CRLF)).
        eapply (Good_pre (blank_code c ++ CRLF) (c :: CRLF) l 0 [] [] []).
        - unfold blank_code. destruct (N.eqb c HT); discriminate.
        - apply last_is_lf_code_crlf.
        - intros _. right. split; reflexivity.
        - intros T y _ HY. cbn [app] in HY. rewrite <- app_assoc. cbn [app].
          apply dec_blank_code; [exact Ebl|]. apply dec_crlf; [dconsts; lia|exact HY].
        - intros t. cbn [qp_meaning]. unfold is_eol in Heol. apply Bool.orb_false_elim in Heol as [H1 H2].
          rewrite H1, H2, Ebl. reflexivity.
        - apply Good_nil. dconsts. lia. }
      destruct (is_eol c2) eqn:Heol2.
      { (* blank in front of a line end *)
        match goal with |- Good ?X _ _ _ =>
          assert (EO : X = (blank_code c ++ CRLF) ++ qp_enc vs0 0 None (after_eol c2 r2)) end.
        { unfold after_eol. unfold is_eol in Heol2.
          destruct (N.eqb_spec c2 CR) as [->|Hn].
          - rewrite <- app_assoc. destruct r2 as [|c3 r3]; [reflexivity|]. cbn [N.eqb Pos.eqb andb].
            destruct (N.eqb c3 LF); reflexivity.
          - cbn [orb] in Heol2. rewrite Heol2. rewrite <- app_assoc. destruct r2; reflexivity. }
        rewrite EO.
        pose proof (after_eol_length c2 r2) as Hal.
        eapply (Good_pre (blank_code c ++ CRLF) (c :: CRLF) l 0 _ [] (after_eol c2 r2)).
        - unfold blank_code. destruct (N.eqb c HT); discriminate.
        - apply last_is_lf_code_crlf.
        - intros Hce. rewrite closed_end_cons in Hce by discriminate.
          destruct (after_eol c2 r2) as [|x rr] eqn:Ea.
          + right. split; reflexivity.
          + left. rewrite <- Ea. rewrite <- closed_end_eol; [exact Hce|exact Heol2|rewrite Ea; discriminate].
        - intros T y _ HY. rewrite <- app_assoc. cbn [app].
          apply dec_blank_code; [exact Ebl|]. apply dec_crlf; [dconsts; lia|exact HY].
        - intros t. rewrite qp_meaning_other by (auto; right; discriminate).
          rewrite meaning_eol by exact Heol2. reflexivity.
        - apply (IHr (after_eol c2 r2)); [cbn [length]; lia| |split; [dconsts; lia|discriminate]].
          apply byte_list_after_eol. now inversion Hbr. }
      (* the blank stays literal for the moment *)
      unfold is_eol in Heol2. apply Bool.orb_false_elim in Heol2 as [H1 H2]. rewrite H1, H2.
      eapply (Good_shift _ l [c] (c2 :: r2)).
      - assert (HI : EInv (S l) (Some c) (c2 :: r2)).
        { split; [dconsts; lia|]. intros hb Hhb. inversion Hhb; subst hb.
          split; [exact Ebl|]. split; [dconsts; lia|]. exists c2, r2. split; [reflexivity|].
          unfold is_eol. now rewrite H1, H2. }
        assert (G := IHr (c2 :: r2) (le_n _) Hbr vs0 (S l) (Some c) HI).
        cbn [hlen olist] in G. replace (S l - 1) with l in G by lia. exact G.
      - intros t. rewrite qp_meaning_other by (auto; right; discriminate). reflexivity.
      - intros Hce. rewrite closed_end_cons in Hce by discriminate. exact Hce. }
    destruct (qp_must_encode c) eqn:Eenc.
    { (* =XX *)
      eapply (Good_pre (hex_code c) [c] l (l + 3) _ [] r).
      - discriminate.
      - rewrite last_is_lf_hex. symmetry. apply Nat.eqb_neq. lia.
      - intros Hce. destruct r as [|x rr]; [cbn in Hce; rewrite Heol, Ebl in Hce; discriminate|]. left. exact Hce.
      - intros T y _ HY. replace (Nat.eqb (l + 3) 0) with false in HY by (symmetry; apply Nat.eqb_neq; lia).
        apply dec_hex; [exact Hc256|exact HY].
      - intros t. rewrite qp_meaning_other by auto. reflexivity.
      - assert (G := IHr r (le_n _) Hbr vs0 (l + 3) None ltac:(split; [dconsts; lia|discriminate])).
        cbn [hlen olist] in G. rewrite Nat.sub_0_r in G. exact G. }
    (* literal *)
    change (c :: qp_enc vs0 (S l) None r) with ([c] ++ qp_enc vs0 (S l) None r).
    eapply (Good_pre [c] [c] l (S l) _ [] r).
    - discriminate.
    - unfold last_is_lf. cbn [rev app]. unfold is_eol in Heol. apply Bool.orb_false_elim in Heol as [_ H2]. exact H2.
    - intros Hce. destruct r as [|x rr]; [cbn in Hce; rewrite Heol, Ebl in Hce; discriminate|]. left. exact Hce.
    - intros T y _ HY. cbn [app]. apply dec_lit; [apply literal_of; assumption|exact Ebl|exact Edot|exact HY].
    - intros t. rewrite qp_meaning_other by auto. reflexivity.
    - assert (G := IHr r (le_n _) Hbr vs0 (S l) None ltac:(split; [dconsts; lia|discriminate])).
      cbn [hlen olist] in G. rewrite Nat.sub_0_r in G. exact G. }
  (* ---- now the step of qp_enc itself *)
  assert (Hne : N.eqb c CR = false /\ N.eqb c LF = false) by (unfold is_eol in Heol; now apply Bool.orb_false_elim in Heol).
  destruct Hne as [HnCR HnLF].
  rewrite qp_enc_cons. rewrite HnCR, HnLF.
  destruct (Nat.ltb_spec QP_SOFT llen) as [Hsoft|Hnsoft].
  2: { (* no soft break due *)
    rewrite qp_norm_pre.
    destruct held as [hb|]; cbn [olist hlen app].
    - destruct (Hheld hb eq_refl) as (Hbl & Hl1 & _).
      change (hb :: qp_norm c r [] vs llen) with ([hb] ++ qp_norm c r [] vs llen).
      eapply (Good_pre [hb] [hb] (llen - 1) llen _ [] (c :: r)).
      + discriminate.
      + unfold last_is_lf. cbn [rev app]. unfold is_blank in Hbl.
        replace (N.eqb hb LF) with false by (apply Bool.orb_prop in Hbl as [H|H]; apply N.eqb_eq in H; subst hb; reflexivity).
        symmetry. apply Nat.eqb_neq. lia.
      + intros Hce. left. exact Hce.
      + intros T y _ HY. destruct (norm_head c r vs llen Heol) as (y0 & Y0 & EY & Hy0).
        rewrite EY in HY |- *. cbn [app] in HY |- *.
        replace llen with (S (llen - 1)) in HY by lia.
        replace (Nat.eqb (S (llen - 1)) 0) with false in HY by reflexivity.
        apply dec_blank; [exact Hbl|exact Hy0|exact HY].
      + intros t. reflexivity.
      + apply GoodN. exact Hnsoft.
    - rewrite Nat.sub_0_r. apply GoodN. exact Hnsoft. }
  (* soft line break *)
  destruct held as [hb|]; cbn [olist hlen].
  2: { rewrite Nat.sub_0_r. rewrite qp_norm_pre.
       eapply (Good_pre SOFT [] llen 0 _ [] (c :: r)).
       - discriminate.
       - reflexivity.
       - intros Hce. left. exact Hce.
       - intros T y _ HY. unfold SOFT. cbn [app]. apply dec_soft; [dconsts; lia|exact HY].
       - intros t. reflexivity.
       - apply GoodN. lia. }
  destruct (Hheld hb eq_refl) as (Hbl & Hl1 & _).
  assert (Hcol : llen - 1 + 1 = llen) by lia.
  assert (HnotLF : last_is_lf [hb] = false).
  { unfold last_is_lf. cbn [rev app]. unfold is_blank in Hbl.
    apply Bool.orb_prop in Hbl as [H|H]; apply N.eqb_eq in H; subst hb; reflexivity. }
  (* the three ways a held blank meets a soft break *)
  assert (Case_invisible : forall vs', Good (qp_norm c r (hb :: SOFT) vs' 0) (llen - 1) [hb] (c :: r)).
  { intros vs'. rewrite qp_norm_pre.
    eapply (Good_pre (hb :: SOFT) [hb] (llen - 1) 0 _ [] (c :: r)).
    - discriminate.
    - reflexivity.
    - intros Hce. left. exact Hce.
    - intros T y _ HY. unfold SOFT. cbn [app].
      apply dec_blank; [exact Hbl|reflexivity|]. apply dec_soft; [dconsts; lia|exact HY].
    - intros t. reflexivity.
    - apply GoodN. lia. }
  destruct vs as [|[|] vs']; [apply Case_invisible| |apply Case_invisible].
  destruct (qp_plain_next c) eqn:Epl.
  - (* the next plain character joins the blank *)
    destruct (literal_of_plain c Epl) as (Hlit & Hnb & _).
    change (hb :: c :: SOFT ++ qp_enc vs' 0 None r) with ((hb :: c :: SOFT) ++ qp_enc vs' 0 None r).
    eapply (Good_pre (hb :: c :: SOFT) [hb; c] (llen - 1) 0 _ [] r).
    + discriminate.
    + reflexivity.
    + intros Hce. destruct r as [|x rr]; [cbn in Hce; rewrite Heol, Hnb in Hce; discriminate|]. left. exact Hce.
    + intros T y _ HY. unfold SOFT. cbn [app].
      apply dec_blank; [exact Hbl|exact HnCR|].
      apply dec_lit; [exact Hlit|exact Hnb|reflexivity|].
      apply dec_soft; [dconsts; lia|exact HY].
    + intros t. rewrite qp_meaning_other by auto. reflexivity.
    + apply (IHr r (le_n _) Hbr vs' 0 None). split; [dconsts; lia|discriminate].
  - (* the blank is recoded *)
    rewrite qp_norm_pre.
    eapply (Good_pre (blank_code hb ++ SOFT) [hb] (llen - 1) 0 _ [] (c :: r)).
    + unfold blank_code. destruct (N.eqb hb HT); discriminate.
    + unfold blank_code. destruct (N.eqb hb HT); reflexivity.
    + intros Hce. left. exact Hce.
    + intros T y _ HY. rewrite <- app_assoc.
      apply dec_blank_code; [exact Hbl|]. unfold SOFT. cbn [app]. apply dec_soft; [dconsts; lia|exact HY].
    + intros t. reflexivity.
    + apply GoodN. lia.
Qed.

(* ------------------------------------------------------------------ meaning versus the normalised message *)
Lemma split_lines_nonempty c r : split_lines (c :: r) <> [].
Proof.
  rewrite split_lines_cons. destruct (is_eol c); [discriminate|]. destruct (split_lines r); discriminate.
Qed.

Definition closing (w : bytes) : bytes :=
  match w with [] => [] | _ => if closed_end w then [] else CRLF end.

Lemma meaning_normalise : forall w, qp_meaning w ++ closing w = normalise w.
Proof.
  intros w. remember (length w) as n eqn:En. revert w En.
  induction n as [n IH] using lt_wf_ind. intros w En.
  destruct w as [|c r]; [reflexivity|].
  unfold normalise. rewrite split_lines_cons. destruct (is_eol c) eqn:He.
  - rewrite meaning_eol by exact He. pose proof (after_eol_length c r) as Hal.
    unfold join_crlf. cbn [map concat app]. fold (join_crlf (split_lines (after_eol c r))).
    change (join_crlf (split_lines (after_eol c r))) with (normalise (after_eol c r)).
    rewrite <- (IH (length (after_eol c r))) by (cbn [length] in En; lia || reflexivity).
    f_equal. f_equal. f_equal.
    destruct (after_eol c r) as [|x rr] eqn:Ea.
    + cbn [closing]. unfold after_eol in Ea. destruct r as [|c2 r2]; [cbn; now rewrite He|].
      destruct (N.eqb c CR && N.eqb c2 LF) eqn:E; [|discriminate]. subst r2.
      apply andb_prop in E as [_ E2]. apply N.eqb_eq in E2. subst c2. reflexivity.
    + unfold closing. rewrite <- Ea. rewrite closed_end_eol by (assumption || (rewrite Ea; discriminate)).
      rewrite Ea. reflexivity.
  - destruct r as [|c2 r2].
    + cbn [split_lines]. unfold join_crlf. cbn [map concat closing closed_end qp_meaning].
      rewrite He. unfold is_eol in He. apply Bool.orb_false_elim in He as [H1 H2]. rewrite H1, H2. cbn [orb].
      destruct (is_blank c); reflexivity.
    + rewrite qp_meaning_other by (auto; right; discriminate).
      assert (IH' := IH (length (c2 :: r2)) ltac:(cbn [length] in En |- *; lia) (c2 :: r2) eq_refl).
      unfold normalise in IH'.
      destruct (split_lines (c2 :: r2)) as [|l ls] eqn:Es; [exfalso; exact (split_lines_nonempty c2 r2 Es)|].
      unfold join_crlf in *. cbn [map concat] in *. cbn [app]. rewrite <- IH'.
      unfold closing. rewrite closed_end_cons by discriminate. reflexivity.
Qed.

Lemma meaning_nil w : qp_meaning w = [] -> w = [].
Proof.
  destruct w as [|c r]; [reflexivity|]. cbn [qp_meaning].
  destruct (N.eqb c CR); [discriminate|]. destruct (N.eqb c LF); [discriminate|].
  destruct r; [destruct (is_blank c)|]; discriminate.
Qed.

(** what recode_qp puts on the wire for the window [w], completed by the CRLF of the terminator when the
    last line is open, is decoded to the normalised window *)
Theorem qp_enc_roundtrip (w : bytes) (vs : list bool) :
  byte_list w ->
  let O := qp_enc vs 0 None w in
  (w <> [] -> O <> []) /\
  qp_roundtrip w (O ++ (if at_bol 0 O then [] else CRLF)).
Proof.
  intros Hb O.
  destruct (qp_enc_good w Hb vs 0 None) as (col' & H1 & H2 & H3 & H4).
  { split; [dconsts; lia|discriminate]. }
  cbn [hlen olist] in *. rewrite Nat.sub_0_r in *. fold O in H2, H4.
  assert (Hne : w <> [] -> O <> []).
  { intros Hw HO. rewrite HO in H2, H4. cbn [at_bol] in H2. apply Nat.eqb_eq in H2. subst col'.
    specialize (H4 [] [] (or_introl eq_refl) eq_refl). cbn [app] in H4.
    change (Nat.eqb 0 0) with true in H4. cbn [qp_decode] in H4. inversion H4 as [E].
    symmetry in E. rewrite app_nil_r in E. apply meaning_nil in E. contradiction. }
  split; [exact Hne|].
  rewrite <- H2. unfold qp_roundtrip, same_upto_final_crlf. rewrite <- (meaning_normalise w).
  destruct (Nat.eqb_spec col' 0) as [Hz|Hnz].
  - subst col'. specialize (H4 [] [] (or_introl eq_refl) eq_refl). cbn [app] in H4. rewrite app_nil_r in H4 |- *.
    rewrite app_nil_r in H4. exists (qp_meaning w). split; [exact H4|].
    unfold closing. destruct w as [|c r]; [left; now rewrite app_nil_r|].
    destruct (closed_end (c :: r)); [left; now rewrite app_nil_r|right; reflexivity].
  - assert (Hcl : closed_end w = false).
    { destruct (closed_end w) eqn:E; [|reflexivity]. exfalso. apply Hnz. apply H3. reflexivity. }
    assert (Hdec : qp_decode col' false CRLF = Some CRLF).
    { unfold CRLF. rewrite <- (app_nil_r [CR; LF]). cbn [app]. apply dec_crlf; [exact H1|reflexivity]. }
    specialize (H4 CRLF CRLF (or_intror eq_refl) Hdec).
    replace (Nat.eqb 0 0) with true in H4 by reflexivity.
    exists (qp_meaning w ++ CRLF). split; [exact H4|]. left.
    unfold closing. destruct w as [|c r].
    + exfalso. cbn [qp_enc olist] in O. subst O. cbn [at_bol] in H2. discriminate.
    + rewrite Hcl. reflexivity.
Qed.

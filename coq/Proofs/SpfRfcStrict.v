(** The strict reference (Spec/SpfRfc.v with [strict = true], the class of the agreement theorem) is
    a restriction of the plain RFC 7208 reference: where it gives a result, the plain one gives the same. *)
From Coq Require Import Lia.
From Qv Require Import Common.Bytes Gen.GenSpf Model.SpfBase Model.SpfEnv Spec.SpfRfc.
Local Open Scope N_scope.

Section Refine.
Variable D : dns.
Variable X : sess.
Variable recT recF : bytes -> nat -> rres * nat.
Variable rec_ref : forall n c, fst (recT n c) = RSkip \/ recT n c = recF n c.

Definition mref (a b : mout * nat) : Prop := fst a = Abort RSkip \/ a = b.

Lemma eval_dns_mech_ref domain m c : mref (eval_dns_mech D X true recT domain m c) (eval_dns_mech D X false recF domain m c).
Proof.
  unfold mref. destruct m; cbn [eval_dns_mech]; try (right; reflexivity).
  - (* include *)
    destruct (rec_ref d c) as [E|E].
    + left. destruct (recT d c) as [sr c']. cbn in E. subst sr. reflexivity.
    + rewrite E. right. reflexivity.
  - (* mx *)
    destruct (d_mx D (target_of domain d)) as [e| | |l]; try (right; reflexivity).
    destruct (65536 <=? fst (hd (0, []) l)); [right; reflexivity|]. cbn [andb].
    destruct (Nat.leb 10 (length l)); [left; reflexivity|right; reflexivity].
  - (* ptr *)
    destruct (s_remotehost X); [right; reflexivity|].
    destruct (d_name D (s_client X)) as [e|names]; [left; reflexivity|right; reflexivity].
Qed.

Lemma eval_mech_ref domain m c : mref (eval_mech D X true recT domain m c) (eval_mech D X false recF domain m c).
Proof.
  destruct m; cbn [eval_mech andb]; try (destruct (Nat.leb 10 c); [right; reflexivity|apply eval_dns_mech_ref]).
  - right; reflexivity.
  - destruct (len <? 8); [left; reflexivity|right; reflexivity].
  - destruct ((len <? 8) || short); [left; reflexivity|right; reflexivity].
Qed.

Lemma eval_terms_ref domain : forall ts c,
  fst (eval_terms D X true recT domain ts c) = Some RSkip
  \/ eval_terms D X true recT domain ts c = eval_terms D X false recF domain ts c.
Proof.
  induction ts as [|t ts IH]; intros c; [right; reflexivity|].
  destruct t as [q m|d|d|]; cbn [eval_terms]; try apply IH.
  destruct (eval_mech_ref domain m c) as [E|E].
  - left. destruct (eval_mech D X true recT domain m c) as [mo c']. cbn in E. subst mo. reflexivity.
  - rewrite E. destruct (eval_mech D X false recF domain m c) as [[| |x] c']; [right; reflexivity|apply IH|right; reflexivity].
Qed.

Lemma eval_redirect_ref ts c :
  fst (eval_redirect true recT ts c) = RSkip \/ eval_redirect true recT ts c = eval_redirect false recF ts c.
Proof.
  unfold eval_redirect. destruct (first_redirect ts) as [d|]; [|right; reflexivity].
  destruct (Nat.leb 10 c); [right; reflexivity|].
  destruct (rec_ref d (S c)) as [E|E].
  - left. destruct (recT d (S c)) as [sr c']. cbn in E. subst sr. reflexivity.
  - rewrite E. destruct (recF d (S c)) as [[z| |] c']; [|right; reflexivity|right; reflexivity].
    destruct (z =? SPF_NONE)%Z; [left; reflexivity|right; reflexivity].
Qed.

Lemma rfc_body_ref domain c :
  fst (rfc_body D X true recT domain c) = RSkip \/ rfc_body D X true recT domain c = rfc_body D X false recF domain c.
Proof.
  unfold rfc_body. destruct (d_txt D domain) as [e|recs]; [right; reflexivity|].
  destruct (select_record recs) as [r|[body|]]; try (right; reflexivity).
  unfold eval_record. destruct (parse_record body) as [ts|]; [|right; reflexivity].
  destruct (Nat.ltb 1 (count_redirect ts) || Nat.ltb 1 (count_exp ts)); [right; reflexivity|].
  destruct (eval_terms_ref domain ts c) as [E|E].
  - left. destruct (eval_terms D X true recT domain ts c) as [o c']. cbn in E. subst o. reflexivity.
  - rewrite E. destruct (eval_terms D X false recF domain ts c) as [[r|] c']; [right; reflexivity|apply eval_redirect_ref].
Qed.

End Refine.

Lemma rfc_check_ref D X : forall fuel domain c,
  fst (rfc_check_gen D X true fuel domain c) = RSkip
  \/ rfc_check_gen D X true fuel domain c = rfc_check_gen D X false fuel domain c.
Proof.
  induction fuel as [|f IH]; intros domain c; [left; reflexivity|].
  cbn [rfc_check_gen]. apply rfc_body_ref. intros n c0. apply IH.
Qed.

(** a result of the strict reference is the result of RFC 7208 as stated in Spec/SpfRfc.v *)
Theorem strict_is_rfc D X domain :
  rfc_check_host_strict D X domain = RSkip \/ rfc_check_host_strict D X domain = rfc_check_host D X domain.
Proof.
  unfold rfc_check_host_strict, rfc_check_host, rfc_check_host_gen.
  destruct (domain_invalid domain); [left; reflexivity|].
  destruct (rfc_check_ref D X 13 domain 0) as [E|E]; [left; exact E|right; rewrite E; reflexivity].
Qed.

(** Which header fields the scan of qp_header records: the LAST field with the name at the start of a
    line of the header, and none is overlooked. *)
From Qv Require Import Common.Bytes Gen.GenQrdata Model.Mime Model.QrData Proofs.QrMemLemmas
  Proofs.QrNeedRecodeProofs Proofs.QrPlainSpecProofs Proofs.QrPhaseProofs Proofs.MimeTotalProofs Proofs.QrHeaderTotalProofs Proofs.QrScanProofs
  Proofs.QrEntityProofs.
Require Import Lia.

(* ------------------------------------------------------------------ getfieldlen: inside a field *)
Section Gfl.
Variable m : bytes.
Variables msg n : nat.
Variable Hw : msg + n <= length m.

(** behind a line end inside the field comes a blank (a continuation line) — or the LF of a CRLF *)
Definition interior (k : nat) : Prop :=
  is_eol (at_ m (msg + k - 1)) = true ->
  is_blank (at_ m (msg + k)) = true \/ (at_ m (msg + k - 1) = CR /\ at_ m (msg + k) = LF).

Lemma gfl_interior : forall fuel cr r fl, gfl fuel m msg n cr r = Ok fl -> cr + r = n ->
  (forall k, 0 < k <= cr -> interior k) -> forall k, 0 < k < fl -> interior k.
Proof.
  induction fuel as [|fuel IH]; intros cr r fl E Hcr HJ; [discriminate|]. cbn [gfl] in E.
  assert (Ret : forall cr2 r2, cr2 + r2 = n -> (forall k, 0 < k < cr2 -> interior k) ->
            (if Nat.eqb cr2 0 then Crash 25%N else do z0 <- rd m (msg + cr2 - 1); Ok (if is_eol z0 then n - r2 else 0)) = Ok fl ->
            forall k, 0 < k < fl -> interior k).
  { intros cr2 r2 Hc2 H2 E2 k Hk. destruct (Nat.eqb_spec cr2 0); [discriminate|].
    rewrite rd_at in E2 by lia. cbn [bind] in E2. inversion E2 as [E3].
    destruct (is_eol (at_ m (msg + cr2 - 1))); [|subst fl; lia]. apply H2. lia. }
  (* the steps behind a line end at [cr]: [cr2] = behind the line end *)
  assert (After : forall cr2, cr < cr2 <= n -> (forall k, 0 < k < cr2 -> interior k) ->
            is_eol (at_ m (msg + cr2 - 1)) = true ->
            (do again <- (if Nat.eqb (n - cr2) 0 then Ok false else do x <- rd m (msg + cr2); Ok (N.eqb x SP || N.eqb x HT));
             if again then gfl fuel m msg n cr2 (n - cr2) else
             if Nat.eqb cr2 0 then Crash 25%N else
             do z0 <- rd m (msg + cr2 - 1); Ok (if is_eol z0 then n - (n - cr2) else 0)) = Ok fl ->
            forall k, 0 < k < fl -> interior k).
  { intros cr2 Hc2 H2 He2 E2. destruct (Nat.eqb_spec (n - cr2) 0) as [Hz|Hnz]; cbn [bind] in E2.
    - apply (Ret cr2 (n - cr2)); [lia|exact H2|exact E2].
    - rewrite rd_at in E2 by lia. cbn [bind] in E2.
      destruct (N.eqb (at_ m (msg + cr2)) SP || N.eqb (at_ m (msg + cr2)) HT) eqn:Eb.
      + apply (IH cr2 (n - cr2) fl E2); [lia|]. intros k Hk. destruct (Nat.eq_dec k cr2) as [->|]; [|apply H2; lia].
        intros _. left. unfold is_blank. rewrite Bool.orb_comm. exact Eb.
      + apply (Ret cr2 (n - cr2)); [lia|exact H2|exact E2]. }
  destruct (Nat.eqb_spec r 0) as [Hr0|Hrn].
  - subst r. cbn [bind negb Nat.eqb] in E. apply (Ret cr 0); [lia| |exact E]. intros k Hk. apply HJ. lia.
  - rewrite rd_at in E by lia. cbn [bind] in E.
    destruct (is_eol (at_ m (msg + cr))) eqn:Ee; cbn [negb] in E.
    2: { apply (IH (S cr) (r - 1) fl E); [lia|]. intros k Hk. destruct (Nat.eq_dec k (S cr)) as [->|]; [|apply HJ; lia].
         intros F. replace (msg + S cr - 1) with (msg + cr) in F by lia. rewrite Ee in F. discriminate. }
    cbn [bind] in E.
    destruct (N.eqb_spec (at_ m (msg + cr)) CR) as [Ecr|Ncr]; cbn [bind] in E.
    + destruct (Nat.eqb_spec (r - 1) 0) as [Hz|Hnz]; cbn [bind] in E.
      * apply (After (S cr)); [lia| |replace (msg + S cr - 1) with (msg + cr) by lia; exact Ee|].
        -- intros k Hk. apply HJ. lia.
        -- replace (n - S cr) with (r - 1) by lia. exact E.
      * rewrite rd_at in E by lia. cbn [bind] in E.
        destruct (N.eqb_spec (at_ m (msg + S cr)) LF) as [Elf|Nlf]; cbn [bind] in E.
        -- apply (After (S (S cr))); [lia| | |].
           ++ intros k Hk. destruct (Nat.eq_dec k (S cr)) as [->|]; [|apply HJ; lia].
              intros _. right. replace (msg + S cr - 1) with (msg + cr) by lia. auto.
           ++ replace (msg + S (S cr) - 1) with (msg + S cr) by lia. rewrite Elf. reflexivity.
           ++ replace (n - S (S cr)) with (r - 1 - 1) by lia. exact E.
        -- apply (After (S cr)); [lia| |replace (msg + S cr - 1) with (msg + cr) by lia; exact Ee|].
           ++ intros k Hk. apply HJ. lia.
           ++ replace (n - S cr) with (r - 1) by lia. exact E.
    + assert (Elf : at_ m (msg + cr) = LF) by (destruct (eol_cases _ Ee); [contradiction|assumption]).
      destruct (Nat.eqb_spec r 0); [contradiction|]. rewrite rd_at in E by lia. cbn [bind] in E.
      rewrite Elf in E. change (N.eqb LF LF) with true in E. cbv iota in E. cbn [bind] in E.
      apply (After (S cr)); [lia| |replace (msg + S cr - 1) with (msg + cr) by lia; exact Ee|].
      * intros k Hk. apply HJ. lia.
      * replace (n - S cr) with (r - 1) by lia. exact E.
Qed.

(** a field of length 0 = the data ran out inside its last line *)
Lemma gfl_zero : forall fuel cr r, gfl fuel m msg n cr r = Ok 0 -> cr + r = n -> 1 <= n ->
  is_eol (at_ m (msg + n - 1)) = false.
Proof.
  induction fuel as [|fuel IH]; intros cr r E Hcr Hn; [discriminate|]. cbn [gfl] in E.
  assert (Ret : forall cr2 r2, cr2 + r2 = n -> is_eol (at_ m (msg + cr2 - 1)) = true -> 1 <= cr2 ->
            (if Nat.eqb cr2 0 then Crash 25%N else do z0 <- rd m (msg + cr2 - 1); Ok (if is_eol z0 then n - r2 else 0)) = Ok 0 -> False).
  { intros cr2 r2 Hc2 He2 H1 E2. destruct (Nat.eqb_spec cr2 0); [lia|].
    rewrite rd_at in E2 by lia. cbn [bind] in E2. rewrite He2 in E2. inversion E2. lia. }
  assert (After : forall cr2, cr < cr2 <= n -> is_eol (at_ m (msg + cr2 - 1)) = true ->
            (do again <- (if Nat.eqb (n - cr2) 0 then Ok false else do x <- rd m (msg + cr2); Ok (N.eqb x SP || N.eqb x HT));
             if again then gfl fuel m msg n cr2 (n - cr2) else
             if Nat.eqb cr2 0 then Crash 25%N else
             do z0 <- rd m (msg + cr2 - 1); Ok (if is_eol z0 then n - (n - cr2) else 0)) = Ok 0 ->
            is_eol (at_ m (msg + n - 1)) = false).
  { intros cr2 Hc2 He2 E2. destruct (Nat.eqb_spec (n - cr2) 0) as [Hz|Hnz]; cbn [bind] in E2.
    - exfalso. apply (Ret cr2 (n - cr2)); [lia|exact He2|lia|exact E2].
    - rewrite rd_at in E2 by lia. cbn [bind] in E2.
      destruct (N.eqb (at_ m (msg + cr2)) SP || N.eqb (at_ m (msg + cr2)) HT).
      + apply (IH cr2 (n - cr2) E2); lia.
      + exfalso. apply (Ret cr2 (n - cr2)); [lia|exact He2|lia|exact E2]. }
  destruct (Nat.eqb_spec r 0) as [Hr0|Hrn].
  - subst r. cbn [bind negb Nat.eqb] in E. destruct (Nat.eqb_spec cr 0); [lia|].
    rewrite rd_at in E by lia. cbn [bind] in E. replace (msg + n - 1) with (msg + cr - 1) by lia.
    destruct (is_eol (at_ m (msg + cr - 1))); [inversion E; lia|reflexivity].
  - rewrite rd_at in E by lia. cbn [bind] in E.
    destruct (is_eol (at_ m (msg + cr))) eqn:Ee; cbn [negb] in E.
    2: { apply (IH (S cr) (r - 1) E); lia. }
    cbn [bind] in E.
    destruct (N.eqb_spec (at_ m (msg + cr)) CR) as [Ecr|Ncr]; cbn [bind] in E.
    + destruct (Nat.eqb_spec (r - 1) 0) as [Hz|Hnz]; cbn [bind] in E.
      * apply (After (S cr)); [lia|replace (msg + S cr - 1) with (msg + cr) by lia; exact Ee|].
        replace (n - S cr) with (r - 1) by lia. exact E.
      * rewrite rd_at in E by lia. cbn [bind] in E.
        destruct (N.eqb_spec (at_ m (msg + S cr)) LF) as [Elf|Nlf]; cbn [bind] in E.
        -- apply (After (S (S cr))); [lia|replace (msg + S (S cr) - 1) with (msg + S cr) by lia; rewrite Elf; reflexivity|].
           replace (n - S (S cr)) with (r - 1 - 1) by lia. exact E.
        -- apply (After (S cr)); [lia|replace (msg + S cr - 1) with (msg + cr) by lia; exact Ee|].
           replace (n - S cr) with (r - 1) by lia. exact E.
    + assert (Elf : at_ m (msg + cr) = LF) by (destruct (eol_cases _ Ee); [contradiction|assumption]).
      destruct (Nat.eqb_spec r 0); [contradiction|]. rewrite rd_at in E by lia. cbn [bind] in E.
      rewrite Elf in E. change (N.eqb LF LF) with true in E. cbv iota in E. cbn [bind] in E.
      apply (After (S cr)); [lia|replace (msg + S cr - 1) with (msg + cr) by lia; exact Ee|].
      replace (n - S cr) with (r - 1) by lia. exact E.
Qed.

End Gfl.

(* ------------------------------------------------------------------ small facts *)
Lemma skipline_noeol m b len : forall fuel2 off off1,
    (fix skipline (fuel2 : nat) (off : nat) : Cres nat :=
       match fuel2 with
       | O => OutOfFuel
       | S f2 =>
           if Nat.ltb off len then
             do x <- rd m (b + off);
             if is_eol x then Ok off else skipline f2 (S off)
           else Ok off
       end) fuel2 off = Ok off1 -> off <= off1 /\ forall k, off <= k < off1 -> is_eol (at_ m (b + k)) = false.
Proof.
  induction fuel2 as [|f2 IH]; intros off off1 E; [discriminate|].
  destruct (Nat.ltb off len); [|inversion E; split; [lia|intros; lia]].
  destruct (rd m (b + off)) as [x| |] eqn:Ex; cbn [bind] in E; try discriminate.
  destruct (is_eol x) eqn:Hx; [inversion E; split; [lia|intros; lia]|].
  apply IH in E as (H1 & H2). split; [lia|]. intros k Hk.
  destruct (Nat.eq_dec k off) as [->|]; [|apply H2; lia]. apply rd_inv in Ex as (_ & ->). exact Hx.
Qed.

Lemma casecmp_false m : forall lit p, casecmp_at m p lit = Ok false ->
  map to_lower (sub m p (length lit)) <> map to_lower lit.
Proof.
  induction lit as [|x lit IH]; intros p E; [discriminate|].
  cbn [casecmp_at] in E. destruct (rd m p) as [c| |] eqn:Ec; cbn [bind] in E; try discriminate.
  apply rd_inv in Ec as (Hp & ->).
  assert (Hs : sub m p (S (length lit)) = at_ m p :: sub m (S p) (length lit)).
  { unfold sub. rewrite (skipn_nth_cons m p 0%N Hp). reflexivity. }
  cbn [length]. rewrite Hs. cbn [map]. intros F. inversion F as [[F1 F2]].
  rewrite F1, N.eqb_refl in E. apply (IH (S p) E). exact F2.
Qed.

Lemma lower_c (c : N) : to_lower c = 99%N -> c = 99%N \/ c = 67%N.
Proof.
  unfold to_lower, is_upper. destruct (N.leb 65 c && N.leb c 90) eqn:E; intros H; [right; lia|left; exact H].
Qed.



(* ------------------------------------------------------------------ the scan overlooks nothing *)
Section Complete.
Variable m : bytes.
Variables b len : nat.
Variable Hw : b + len <= length m.

(** [j] is the first octet of a line of the window *)
Definition lstart (j : nat) : Prop := j = 0 \/ is_eol (at_ m (b + j - 1)) = true.
(** the line starting at [j] begins with the field name [N] (lower case), in any case *)
Definition named (N : bytes) (j : nat) : Prop := j + length N <= len /\ map to_lower (sub m (b + j) (length N)) = N.
(** some field of that name is the unterminated last line of the window *)
Definition unterm (N : bytes) : Prop := exists j, named N j /\ getfieldlen m (b + j) (len - j) = Ok 0.
(** [f] accounts for the field starting at [j] *)
Definition recd (N : bytes) (f : nat * nat) (j : nat) : Prop := (snd f <> 0 /\ j <= fst f) \/ unterm N.

Definition seen (off : nat) (ct ce : nat * nat) : Prop :=
  forall j, j < off -> lstart j -> (named CT_LOWER j -> recd CT_LOWER ct j) /\ (named CTE_LOWER j -> recd CTE_LOWER ce j).
Definition sinv (off : nat) (ct ce : nat * nat) : Prop :=
  (snd ct <> 0 -> fst ct <= off) /\ (snd ce <> 0 -> fst ce <= off) /\ seen off ct ce.

Lemma named_first N0 N j : named (99%N :: N0) j -> N = 99%N :: N0 -> to_lower (at_ m (b + j)) = 99%N.
Proof.
  intros (Hfit & Hmap) _. cbn [length] in *.
  assert (Hs : sub m (b + j) (S (length N0)) = at_ m (b + j) :: sub m (S (b + j)) (length N0)).
  { unfold sub. rewrite (skipn_nth_cons m (b + j) 0%N) by lia. reflexivity. }
  rewrite Hs in Hmap. cbn [map] in Hmap. inversion Hmap. reflexivity.
Qed.

Lemma named_c N0 j : named (99%N :: N0) j -> at_ m (b + j) = 99%N \/ at_ m (b + j) = 67%N.
Proof. intros H. apply lower_c. apply (named_first N0 _ j H eq_refl). Qed.

Lemma CT_LOWER_c : exists N0, CT_LOWER = 99%N :: N0.
Proof. eexists. reflexivity. Qed.
Lemma CTE_LOWER_c : exists N0, CTE_LOWER = 99%N :: N0.
Proof. eexists. reflexivity. Qed.

(** an octet that is no c/C starts no such field *)
Lemma not_named_char j : at_ m (b + j) <> 99%N -> at_ m (b + j) <> 67%N ->
  ~ named CT_LOWER j /\ ~ named CTE_LOWER j.
Proof.
  intros A B. split; intros H.
  - destruct CT_LOWER_c as (N0 & E). rewrite E in H. destruct (named_c N0 j H); contradiction.
  - destruct CTE_LOWER_c as (N0 & E). rewrite E in H. destruct (named_c N0 j H); contradiction.
Qed.

Lemma eol_not_c c : is_eol c = true -> c <> 99%N /\ c <> 67%N.
Proof. intros H. destruct (eol_cases _ H) as [->| ->]; split; discriminate. Qed.

Lemma blank_not_c c : is_blank c = true -> c <> 99%N /\ c <> 67%N.
Proof.
  unfold is_blank. intros H. apply Bool.orb_prop in H as [H|H]; apply N.eqb_eq in H; subst c; split; discriminate.
Qed.

(** the two names exclude each other *)
Lemma names_disjoint j : named CT_LOWER j -> named CTE_LOWER j -> False.
Proof.
  intros (F1 & H1) (F2 & H2).
  assert (E : firstn (length CT_LOWER) (map to_lower (sub m (b + j) (length CTE_LOWER))) = map to_lower (sub m (b + j) (length CT_LOWER))).
  { rewrite firstn_map. f_equal. unfold sub. rewrite firstn_firstn. reflexivity. }
  rewrite H1, H2 in E. vm_compute in E. discriminate.
Qed.

(** the test of the scan for a name at [off] *)
Lemma name_test (TAIL : bytes) (N : bytes) off c r :
  N = map to_lower (67%N :: TAIL) -> rd m (b + off) = Ok c -> c = 99%N \/ c = 67%N ->
  (if Nat.ltb (length TAIL) (len - off) then casecmp_at m (b + S off) TAIL else Ok false) = Ok r ->
  (r = true -> named N off) /\ (r = false -> ~ named N off).
Proof.
  intros EN Ec Hc E. apply rd_inv in Ec as (Hlt & Ec). subst c.
  assert (Hs : sub m (b + off) (S (length TAIL)) = at_ m (b + off) :: sub m (b + S off) (length TAIL)).
  { unfold sub. rewrite (skipn_nth_cons m (b + off) 0%N Hlt). replace (S (b + off)) with (b + S off) by lia. reflexivity. }
  assert (HN : length N = S (length TAIL)) by (subst N; cbn [map length]; now rewrite map_length).
  destruct (Nat.ltb_spec (length TAIL) (len - off)) as [Hfit|Hnf].
  - destruct r.
    + split; [intros _|discriminate]. destruct (casecmp_true m TAIL (b + S off) E) as (_ & Hm).
      split; [rewrite HN; lia|]. rewrite HN, Hs. cbn [map]. rewrite Hm. subst N. cbn [map]. f_equal.
      destruct Hc as [-> | ->]; reflexivity.
    + split; [discriminate|intros _]. intros (_ & Hm). rewrite HN, Hs in Hm. subst N. cbn [map] in Hm. inversion Hm as [[Hh0 Ht]].
      apply (casecmp_false m TAIL (b + S off) E). exact Ht.
  - inversion E; subst r. split; [discriminate|intros _]. intros (Hf & _). rewrite HN in Hf. lia.
Qed.

Lemma seen_ext off off1 ct ce : off <= off1 -> seen off ct ce ->
  (forall j, off <= j < off1 -> lstart j -> ~ named CT_LOWER j /\ ~ named CTE_LOWER j) -> seen off1 ct ce.
Proof.
  intros Hle Hs Hno j Hj Hl. destruct (Nat.lt_ge_cases j off) as [Hlo|Hhi]; [apply Hs; assumption|].
  destruct (Hno j ltac:(lia) Hl) as (A & B). split; intros F; contradiction.
Qed.

Lemma recd_mono N f f' j : (snd f <> 0 -> snd f' <> 0 /\ fst f <= fst f') -> recd N f j -> recd N f' j.
Proof. intros H [(A & B)|U]; [left; destruct (H A); split; [assumption|lia]|right; exact U]. Qed.

Theorem qh_scan_complete : forall fuel off ct ce hd o' ct' ce',
  qh_scan fuel m b len off ct ce = Ok (hd, o', ct', ce') -> sinv off ct ce ->
  (hd <> 0 -> seen hd ct' ce') /\ (hd = 0 -> seen len ct' ce').
Proof.
  induction fuel as [|fuel IH]; intros off ct ce hd o' ct' ce' E (Hfct & Hfce & Hseen); [discriminate|].
  rewrite qh_scan_S in E.
  destruct (Nat.ltb_spec off len) as [Holt|Hoge].
  2: { inversion E; subst. split; [intros F; contradiction|intros _]. intros j Hj. apply Hseen. lia. }
  destruct (rd m (b + off)) as [c| |] eqn:Erd; cbn [bind] in E; try discriminate.
  pose proof (rd_inv _ _ _ Erd) as (Hlt & Hc).
  (* stepping over octets that start no field *)
  assert (Step : forall off1 ct1 ce1, off <= off1 -> (snd ct1 <> 0 -> fst ct1 <= off1) -> (snd ce1 <> 0 -> fst ce1 <= off1) ->
            seen off1 ct1 ce1 -> qh_scan fuel m b len off1 ct1 ce1 = Ok (hd, o', ct', ce') ->
            (hd <> 0 -> seen hd ct' ce') /\ (hd = 0 -> seen len ct' ce')).
  { intros off1 ct1 ce1 _ A B C E1. apply (IH off1 ct1 ce1 hd o' ct' ce' E1). split; [exact A|]. split; [exact B|exact C]. }
  assert (Fct1 : forall o1, off <= o1 -> snd ct <> 0 -> fst ct <= o1) by (intros o1 Ho1 Hn; specialize (Hfct Hn); lia).
  assert (Fce1 : forall o1, off <= o1 -> snd ce <> 0 -> fst ce <= o1) by (intros o1 Ho1 Hn; specialize (Hfce Hn); lia).
  destruct (N.eqb_spec c CR) as [Ecr|Ncr].
  { cbv zeta in E.
    destruct (if Nat.ltb (S off) len then do c2 <- rd m (b + S off); Ok (if N.eqb c2 LF then S (S off) else S off) else Ok (S off)) as [off1| |] eqn:Eo; cbn [bind] in E; try discriminate.
    assert (Ho1 : seen off1 ct ce /\ off < off1).
    { destruct (Nat.ltb (S off) len).
      - destruct (rd m (b + S off)) as [c2| |] eqn:E2; cbn [bind] in Eo; try discriminate.
        apply rd_inv in E2 as (_ & E2). destruct (N.eqb_spec c2 LF) as [Elf|Nlf]; inversion Eo; subst off1; (split; [|lia]).
        + apply (seen_ext off); [lia|exact Hseen|]. intros j Hj _. apply not_named_char.
          * destruct (Nat.eq_dec j off) as [->|]; [rewrite <- Hc, Ecr; discriminate|]. replace j with (S off) by lia. rewrite <- E2, Elf. discriminate.
          * destruct (Nat.eq_dec j off) as [->|]; [rewrite <- Hc, Ecr; discriminate|]. replace j with (S off) by lia. rewrite <- E2, Elf. discriminate.
        + apply (seen_ext off); [lia|exact Hseen|]. intros j Hj _. replace j with off by lia. apply not_named_char; rewrite <- Hc, Ecr; discriminate.
      - inversion Eo; subst off1. split; [|lia]. apply (seen_ext off); [lia|exact Hseen|]. intros j Hj _. replace j with off by lia.
        apply not_named_char; rewrite <- Hc, Ecr; discriminate. }
    destruct Ho1 as (Hs1 & Hlt1).
    destruct (Nat.eqb off1 len); [apply (Step off1 ct ce); [lia|apply Fct1; lia|apply Fce1; lia|exact Hs1|exact E]|].
    destruct (rd m (b + off1)) as [c3| |]; cbn [bind] in E; try discriminate.
    destruct (is_eol c3); [|apply (Step off1 ct ce); [lia|apply Fct1; lia|apply Fce1; lia|exact Hs1|exact E]].
    inversion E; subst. split; [intros _; exact Hs1|intros F; lia]. }
  destruct (N.eqb_spec c LF) as [Elf|Nlf].
  { cbv zeta in E.
    assert (Hs1 : seen (S off) ct ce).
    { apply (seen_ext off); [lia|exact Hseen|]. intros j Hj _. replace j with off by lia. apply not_named_char; rewrite <- Hc, Elf; discriminate. }
    destruct (Nat.eqb (S off) len); [apply (Step (S off) ct ce); [lia|apply Fct1; lia|apply Fce1; lia|exact Hs1|exact E]|].
    destruct (rd m (b + S off)) as [c3| |]; cbn [bind] in E; try discriminate.
    destruct (is_eol c3); [|apply (Step (S off) ct ce); [lia|apply Fct1; lia|apply Fce1; lia|exact Hs1|exact E]].
    inversion E; subst. split; [intros _; exact Hs1|intros F; lia]. }
  assert (Hcne : is_eol c = false) by (unfold is_eol; apply N.eqb_neq in Ncr, Nlf; now rewrite Ncr, Nlf).
  pose proof (skipline_noeol m b len (S len) (S off)) as Hsk. cbn [bind] in Hsk.
  match type of E with context [bind ?sk (fun off1 => qh_scan fuel m b len off1 (fst ct, 0) ce)] => set (skip := sk) in E, Hsk end.
  cbv zeta in E.
  (* the default: on to the end of the line, given that no field starts at [off] or that it is accounted for *)
  assert (D : forall ct1 ce1, (snd ct1 <> 0 -> fst ct1 <= off) -> (snd ce1 <> 0 -> fst ce1 <= off) -> seen (S off) ct1 ce1 ->
            (do off1 <- skip; qh_scan fuel m b len off1 ct1 ce1) = Ok (hd, o', ct', ce') ->
            (hd <> 0 -> seen hd ct' ce') /\ (hd = 0 -> seen len ct' ce')).
  { intros ct1 ce1 A B C E1. destruct skip as [off1| |]; cbn [bind] in E1; try discriminate.
    destruct (Hsk off1 eq_refl) as (Hge & Hne).
    apply (Step off1 ct1 ce1); [lia|intros H; specialize (A H); lia|intros H; specialize (B H); lia| |exact E1].
    apply (seen_ext (S off)); [lia|exact C|]. intros j Hj [Hj0|Hjl]; [lia|]. exfalso.
    destruct (Nat.eq_dec j (S off)) as [->|].
    - replace (b + S off - 1) with (b + off) in Hjl by lia. rewrite <- Hc, Hcne in Hjl. discriminate.
    - replace (b + j - 1) with (b + (j - 1)) in Hjl by lia. rewrite (Hne (j - 1)) in Hjl by lia. discriminate. }
  clearbody skip.
  (* nothing starts at [off] *)
  assert (Plain : (~ named CT_LOWER off /\ ~ named CTE_LOWER off) -> seen (S off) ct ce).
  { intros Hno. apply (seen_ext off); [lia|exact Hseen|]. intros j Hj _. replace j with off by lia. exact Hno. }
  destruct (N.eqb c 99 || N.eqb c 67) eqn:Ecc.
  2: { apply (D ct ce); [exact Hfct|exact Hfce| |exact E]. apply Plain. apply Bool.orb_false_elim in Ecc as [A B]. apply N.eqb_neq in A, B.
       apply not_named_char; rewrite <- Hc; assumption. }
  assert (Hcc : c = 99%N \/ c = 67%N) by (apply Bool.orb_prop in Ecc as [A|A]; apply N.eqb_eq in A; auto).
  match type of E with context [bind ?x _] => destruct x as [isct| |] eqn:Ect; cbn [bind] in E; try discriminate end.
  destruct (name_test CT_TAIL CT_LOWER off c isct eq_refl Erd Hcc Ect) as (Hct1 & Hct0).
  destruct isct.
  - specialize (Hct1 eq_refl).
    assert (Hnocte : ~ named CTE_LOWER off) by (intros F; apply (names_disjoint off Hct1 F)).
    destruct (getfieldlen m (b + off) (len - off)) as [fl| |] eqn:Egf; cbn [bind] in E; try discriminate.
    destruct (Nat.eqb_spec fl 0) as [Hz|Hnz]; cbn [negb] in E.
    + (* unterminated: recorded as absent, and that accounts for every field of the name *)
      subst fl. apply (D (fst ct, 0) ce); [intros F; cbn in F; contradiction|exact Hfce| |exact E].
      intros j Hj Hl. assert (Hu : unterm CT_LOWER) by (exists off; split; assumption).
      split; [intros _; right; exact Hu|].
      destruct (Nat.eq_dec j off) as [->|]; [intros F; contradiction|]. apply Hseen; [lia|exact Hl].
    + destruct (Nat.ltb_spec fl 2); [discriminate|].
      apply (Step (off + fl - 2) (off, fl) ce); [lia|intros _; cbn; lia|intros H1; specialize (Hfce H1); lia| |exact E].
      intros j Hj Hl. destruct (Nat.lt_ge_cases j off) as [Hlo|Hhi].
      * destruct (Hseen j Hlo Hl) as (A & B). split; [|exact B]. intros _. left. cbn [fst snd]. split; [exact Hnz|lia].
      * destruct (Nat.eq_dec j off) as [->|Hne].
        -- split; [intros _; left; cbn [fst snd]; split; [exact Hnz|lia]|intros F; contradiction].
        -- (* inside the field: a continuation line or the LF of a CRLF *)
           destruct Hl as [Hj0|Hjl]; [lia|].
           assert (Hint : interior m (b + off) (j - off)).
           { apply (gfl_interior m (b + off) (len - off) ltac:(lia) _ 0 (len - off) fl Egf); [lia|intros k Hk; lia|lia]. }
           replace (b + off + (j - off) - 1) with (b + j - 1) in Hint by lia. replace (b + off + (j - off)) with (b + j) in Hint by lia.
           unfold interior in Hint. replace (b + off + (j - off) - 1) with (b + j - 1) in Hint by lia.
           replace (b + off + (j - off)) with (b + j) in Hint by lia.
           assert (Hno : ~ named CT_LOWER j /\ ~ named CTE_LOWER j).
           { destruct (Hint Hjl) as [Hb|(_ & Hlf)].
             - destruct (blank_not_c _ Hb). apply not_named_char; assumption.
             - apply not_named_char; rewrite Hlf; discriminate. }
           destruct Hno. split; intros F; contradiction.
  - specialize (Hct0 eq_refl).
    match type of E with context [bind ?x _] => destruct x as [iscte| |] eqn:Ecte; cbn [bind] in E; try discriminate end.
    destruct (name_test CTE_TAIL CTE_LOWER off c iscte eq_refl Erd Hcc Ecte) as (Hce1 & Hce0).
    destruct iscte; [|apply (D ct ce); [exact Hfct|exact Hfce|apply Plain; split; [exact Hct0|exact (Hce0 eq_refl)]|exact E]].
    specialize (Hce1 eq_refl).
    destruct (getfieldlen m (b + off) (len - off)) as [fl| |] eqn:Egf; cbn [bind] in E; try discriminate.
    destruct (Nat.eqb_spec fl 0) as [Hz|Hnz]; cbn [negb] in E.
    + subst fl. apply (D ct (fst ce, 0)); [exact Hfct|intros F; cbn in F; contradiction| |exact E].
      intros j Hj Hl. assert (Hu : unterm CTE_LOWER) by (exists off; split; assumption).
      split; [|intros _; right; exact Hu].
      destruct (Nat.eq_dec j off) as [->|]; [intros F; contradiction|]. apply Hseen; [lia|exact Hl].
    + destruct (Nat.ltb_spec fl 2); [discriminate|].
      apply (Step (off + fl - 2) ct (off, fl)); [lia|intros H1; specialize (Hfct H1); lia|intros _; cbn; lia| |exact E].
      intros j Hj Hl. destruct (Nat.lt_ge_cases j off) as [Hlo|Hhi].
      * destruct (Hseen j Hlo Hl) as (A & B). split; [exact A|]. intros _. left. cbn [fst snd]. split; [exact Hnz|lia].
      * destruct (Nat.eq_dec j off) as [->|Hne].
        -- split; [intros F; contradiction|intros _; left; cbn [fst snd]; split; [exact Hnz|lia]].
        -- destruct Hl as [Hj0|Hjl]; [lia|].
           assert (Hint : interior m (b + off) (j - off)).
           { apply (gfl_interior m (b + off) (len - off) ltac:(lia) _ 0 (len - off) fl Egf); [lia|intros k Hk; lia|lia]. }
           unfold interior in Hint. replace (b + off + (j - off) - 1) with (b + j - 1) in Hint by lia.
           replace (b + off + (j - off)) with (b + j) in Hint by lia.
           assert (Hno : ~ named CT_LOWER j /\ ~ named CTE_LOWER j).
           { destruct (Hint Hjl) as [Hb|(_ & Hlf)].
             - destruct (blank_not_c _ Hb). apply not_named_char; assumption.
             - apply not_named_char; rewrite Hlf; discriminate. }
           destruct Hno. split; intros F; contradiction.
Qed.

End Complete.

(* ------------------------------------------------------------------ the header analysis of qp_header *)
Theorem header_fields (m : bytes) (b len : nat) : b + len <= length m -> 1 <= len ->
  forall h ct ce, qh_view m b len = Ok (h, ct, ce) -> seen m b len h ct ce.
Proof.
  intros Hw Hl h ct ce Ev.
  destruct (qh_front_cases m b len Hw Hl (fun h ct ce => Ok (h, ct, ce))
              (fun v => let '(h, ct, ce) := v in seen m b len h ct ce)) as (v & E & HQ).
  - intros c0 r h0 Ew He Hh Hhl Hsk Hends. eexists. split; [reflexivity|]. cbv beta iota.
    intros j Hj _.
    assert (Hj0 : is_eol (at_ m (b + j)) = true).
    { assert (Ha : at_ m (b + j) = nth j (sub m b len) 0%N) by (unfold at_; rewrite nth_sub by lia; reflexivity).
      rewrite Ha, Ew. destruct (Nat.eq_dec j 0) as [->|]; [exact He|].
      assert (j = 1 /\ h0 = 2) as (-> & ->) by lia. rewrite Ew in Hends.
      destruct r as [|c1 r1]; [cbn in Hends; pose proof (sub_length m b len Hw) as Hlen; rewrite Ew in Hlen; cbn in Hlen; lia|].
      cbn [firstn ends_eol] in Hends. exact Hends. }
    destruct (eol_not_c _ Hj0). destruct (not_named_char m b len Hw j); [assumption|assumption|].
    split; intros F; contradiction.
  - intros hd o' ct' ce' Esc _ _ _ _ _ _. eexists. split; [reflexivity|]. cbv beta iota.
    destruct (qh_scan_complete m b len Hw _ 0 (0, 0) (0, 0) hd o' ct' ce' Esc) as (A & B).
    { split; [intros F; cbn in F; contradiction|]. split; [intros F; cbn in F; contradiction|]. intros j Hj. lia. }
    destruct (Nat.eqb_spec hd 0) as [Hz|Hnz]; [apply B; exact Hz|apply A; exact Hnz].
  - unfold qh_view in Ev. rewrite Ev in E. inversion E; subst v. exact HQ.
Qed.

(** a window that ends with a line end has no unterminated field *)
Lemma no_unterm m b len N : b + len <= length m -> ends_eol (sub m b len) = true -> ~ unterm m b len N.
Proof.
  intros Hw He (j & (Hfit & _) & Hg).
  assert (Hlj : 1 <= len - j).
  { destruct (Nat.eq_dec (len - j) 0) as [Hz|]; [|lia]. exfalso. rewrite Hz in Hg. vm_compute in Hg. discriminate. }
  unfold getfieldlen in Hg. pose proof (gfl_zero m (b + j) (len - j) ltac:(lia) _ 0 (len - j) Hg ltac:(lia) Hlj) as Hz.
  set (w := sub m b len) in *. assert (Hwl : length w = len) by (apply sub_length; exact Hw).
  rewrite ends_eol_last in He by (intros Ee; rewrite Ee in Hwl; cbn in Hwl; lia).
  rewrite Hwl in He. unfold w in He. rewrite nth_sub in He by lia. unfold at_ in Hz.
  replace (b + j + (len - j) - 1) with (b + (len - 1)) in Hz by lia. rewrite Hz in He. discriminate.
Qed.

(** everything about the header analysis in one place *)
Theorem header_view_spec (m : bytes) (b len : nat) : b + len <= length m -> 1 <= len ->
  forall h ct ce, qh_view m b len = Ok (h, ct, ce) ->
  1 <= h <= len /\ hdr_pos m b len h /\
  fld_inv2 m b len ct /\ ct_named m b len ct /\ (snd ct <> 0 -> fst ct <= h) /\
  fld_inv2 m b len ce /\ cte_named m b len ce /\ (snd ce <> 0 -> fst ce <= h) /\
  seen m b len h ct ce.
Proof.
  intros Hw Hl h ct ce Ev. pose proof (header_fields m b len Hw Hl h ct ce Ev) as Hseen.
  set (w := sub m b len). assert (Hwl : length w = len) by (apply sub_length; exact Hw).
  destruct (qh_front_cases m b len Hw Hl (fun h ct ce => Ok (h, ct, ce))
              (fun v => let '(h, ct, ce) := v in
                 1 <= h <= len /\ hdr_pos m b len h /\
                 fld_inv2 m b len ct /\ ct_named m b len ct /\ (snd ct <> 0 -> fst ct <= h) /\
                 fld_inv2 m b len ce /\ cte_named m b len ce /\ (snd ce <> 0 -> fst ce <= h))) as (v & E & HQ).
  - intros c0 r h0 Ew He Hh Hhl Hsk Hends. eexists. split; [reflexivity|]. cbv beta iota.
    assert (Z : fld_inv2 m b len (0, 0)) by (split; [left; reflexivity|intros F; cbn in F; contradiction]).
    split; [lia|]. split; [right; exists c0, r; auto|].
    assert (Zn : forall P : Prop, snd (0, 0) <> 0 -> P) by (intros P F; cbn in F; contradiction).
    split; [exact Z|]. split; [intros F; apply Zn; exact F|]. split; [apply Zn|]. split; [exact Z|]. split; [intros F; apply Zn; exact F|apply Zn].
  - intros hd o' ct' ce' Esc Hc0 Hpost Fct Fce _ Hnamed. eexists. split; [reflexivity|]. cbv beta iota.
    destruct Hpost as (Hhd & Hnz & Hz). fold w in Hnz, Hz, Hc0.
    set (h1 := if Nat.eqb hd 0 then len else hd).
    assert (HhP : h1 = hpos 0 w).
    { unfold h1. destruct (Nat.eqb_spec hd 0) as [E0|E0]; [symmetry; apply Hz; exact E0|apply Hnz; exact E0]. }
    assert (HP1 : 1 <= hpos 0 w).
    { destruct w as [|c0 r] eqn:Ew; [cbn in Hwl; lia|]. cbn [nth] in Hc0. rewrite (hpos_noneol c0 r 0 Hc0). lia. }
    assert (HPl : hpos 0 w <= len) by (rewrite <- Hwl; apply hpos_le).
    assert (Hmono : hd <> 0 -> fle hd ct' /\ fle hd ce').
    { intros Hn. apply (qh_scan_mono m b len _ 0 (0, 0) (0, 0) hd o' ct' ce' Esc Hn); intros F; cbn in F; contradiction. }
    assert (Hle : forall f, fld_inv2 m b len f -> (hd <> 0 -> fle hd f) -> snd f <> 0 -> fst f <= h1).
    { intros f (Fi & _) Hm Hn. destruct Fi as [Hz0|(_ & Hel & _)]; [contradiction|].
      unfold h1. destruct (Nat.eqb_spec hd 0) as [E0|E0]; [lia|]. apply (Hm E0). exact Hn. }
    split; [lia|]. split; [left; exact HhP|]. split; [exact Fct|]. split.
    { apply (qh_scan_ctn m b len _ 0 (0, 0) (0, 0) hd o' ct' ce' Esc). intros F. cbn in F. contradiction. }
    split; [apply Hle; [exact Fct|intros Hn; apply (Hmono Hn)]|]. split; [exact Fce|]. split; [exact Hnamed|].
    apply Hle; [exact Fce|intros Hn; apply (Hmono Hn)].
  - unfold qh_view in Ev. rewrite Ev in E. inversion E; subst v.
    destruct HQ as (A & B & C & D & F & G & H & I).
    split; [exact A|]. split; [exact B|]. split; [exact C|]. split; [exact D|]. split; [exact F|]. split; [exact G|]. split; [exact H|]. split; [exact I|exact Hseen].
Qed.

(** the same, spelled out on the octets *)
Theorem header_fields_plain (m : bytes) (b len h : nat) (ct ce : nat * nat) :
  b + len <= length m -> 1 <= len -> qh_view m b len = Ok (h, ct, ce) ->
  let lst j := j = 0 \/ is_eol (nth (b + j - 1) m 0%N) = true in
  let nam (N : bytes) j := j + length N <= len /\ map to_lower (sub m (b + j) (length N)) = N in
  1 <= h <= len /\
  (h = hpos 0 (sub m b len) \/
   exists c0 r, sub m b len = c0 :: r /\ is_eol c0 = true /\ skipn h (sub m b len) = after_eol c0 r) /\
  (snd ct <> 0 -> lst (fst ct) /\ map to_lower (sub m (b + fst ct) (length CT_LOWER)) = CT_LOWER /\ fst ct <= h /\
                  fst ct + snd ct <= len /\ getfieldlen m (b + fst ct) (len - fst ct) = Ok (snd ct)) /\
  (snd ce <> 0 -> lst (fst ce) /\ map to_lower (sub m (b + fst ce) (length CTE_LOWER)) = CTE_LOWER /\ fst ce <= h /\
                  fst ce + snd ce <= len /\ getfieldlen m (b + fst ce) (len - fst ce) = Ok (snd ce)) /\
  (ends_eol (sub m b len) = true -> forall j, j < h -> lst j ->
     (nam CT_LOWER j -> snd ct <> 0 /\ j <= fst ct) /\ (nam CTE_LOWER j -> snd ce <> 0 /\ j <= fst ce)).
Proof.
  intros Hw Hl Ev lst nam.
  destruct (header_view_spec m b len Hw Hl h ct ce Ev) as (Hh & Hpos & Fct & Nct & Lct & Fce & Nce & Lce & Hseen).
  assert (Fld : forall f, fld_inv2 m b len f -> snd f <> 0 -> lst (fst f) /\ fst f + snd f <= len).
  { intros f (Fi & F2) Hn. destruct (F2 Hn) as (Hls & _). destruct Fi as [Hz|(_ & Hle & _)]; [contradiction|].
    split; [|exact Hle]. destruct Hls as [H0|He]; [left; exact H0|].
    destruct (Nat.eq_dec (fst f) 0) as [H0|Hn0]; [left; exact H0|]. right.
    rewrite nth_sub in He by lia. replace (b + fst f - 1) with (b + (fst f - 1)) by lia. exact He. }
  split; [exact Hh|]. split; [exact Hpos|]. split; [|split].
  - intros Hn. destruct (Fld ct Fct Hn) as (A & B). destruct (Nct Hn) as (C & D). auto.
  - intros Hn. destruct (Fld ce Fce Hn) as (A & B). destruct (Nce Hn) as (C & D). auto.
  - intros He j Hj Hls. destruct (Hseen j Hj Hls) as (A & B). split; intros Hnm.
    + destruct (A Hnm) as [R|U]; [exact R|]. exfalso. apply (no_unterm m b len CT_LOWER Hw He U).
    + destruct (B Hnm) as [R|U]; [exact R|]. exfalso. apply (no_unterm m b len CTE_LOWER Hw He U).
Qed.

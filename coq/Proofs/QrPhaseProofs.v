(** need_recode tells header from body by the first empty line: [hpos 0 w] is the offset of the line end
    that forms it (or the length of [w] if there is none).  For data without 8-bit octets the
    recode_long_line flag says exactly that a line behind that offset is too long. *)
From Qv Require Import Common.Bytes Gen.GenQrdata Model.Mime Model.QrData Model.QrDataL2 Proofs.QrMemLemmas
  Spec.SmtpDataSpec Proofs.QrNeedRecodeProofs.
Require Import Lia.

(** offset of the first line end that is met with an empty current line ([llen] = its length so far) *)
Fixpoint hpos (llen : nat) (l : bytes) : nat :=
  match l with
  | [] => 0
  | c :: r =>
      if is_eol c then
        if Nat.eqb llen 0 then 0
        else match r with
             | c2 :: r2 => if N.eqb c CR && N.eqb c2 LF then 2 + hpos 0 r2 else 1 + hpos 0 r
             | [] => 1
             end
      else S (hpos (S llen) r)
  end.

Lemma hpos_le : forall l llen, hpos llen l <= length l.
Proof.
  intros l. remember (length l) as n eqn:En. revert l En.
  induction n as [n IH] using lt_wf_ind. intros l En llen.
  destruct l as [|c r]; [cbn; lia|]. cbn [hpos length] in *.
  destruct (is_eol c).
  - destruct (Nat.eqb llen 0); [lia|]. destruct r as [|c2 r2]; [cbn; lia|]. cbn [length] in En.
    destruct (N.eqb c CR && N.eqb c2 LF).
    + pose proof (IH (length r2) ltac:(lia) r2 eq_refl 0). lia.
    + pose proof (IH (length (c2 :: r2)) ltac:(cbn [length]; lia) (c2 :: r2) eq_refl 0). cbn [length] in *. lia.
  - pose proof (IH (length r) ltac:(lia) r eq_refl (S llen)). lia.
Qed.

Lemma hpos_eol c r llen : is_eol c = true -> llen <> 0 ->
  hpos llen (c :: r) = (length (c :: r) - length (after_eol c r)) + hpos 0 (after_eol c r) /\
  skipn (length (c :: r) - length (after_eol c r)) (c :: r) = after_eol c r.
Proof.
  intros He Hl. cbn [hpos]. rewrite He. destruct (Nat.eqb_spec llen 0); [contradiction|].
  unfold after_eol. destruct r as [|c2 r2]; [cbn; auto|].
  destruct (N.eqb c CR && N.eqb c2 LF); cbn [length].
  - replace (S (S (length r2)) - length r2) with 2 by lia. auto.
  - replace (S (S (length r2)) - S (length r2)) with 1 by lia. auto.
Qed.

Lemma longrun_big : forall rest llen, MAXLINE < llen -> longrun llen rest = true.
Proof.
  induction rest as [|x r IH]; intros llen H; cbn [longrun].
  - apply Nat.ltb_lt. exact H.
  - destruct (is_eol x); [|apply IH; lia].
    replace (Nat.ltb MAXLINE llen) with true by (symmetry; apply Nat.ltb_lt; exact H). reflexivity.
Qed.

Lemma fline_final res llen inbody : fline (nr_final res llen inbody) = fline res || (inbody && Nat.ltb NR_LIMIT llen).
Proof.
  unfold nr_final, set_long. destruct res as [a bl c]. destruct (Nat.ltb NR_LIMIT llen), inbody; cbn [fline f8 fhdr andb]; rewrite ?Bool.orb_false_r, ?Bool.orb_true_r; reflexivity.
Qed.

(** no 8-bit octet anywhere: the scan of need_recode never stops early *)
Lemma nr_phase : forall rest, existsb is8 rest = false -> forall res llen inbody, f8 res = false ->
  let fl := nr_fun rest res llen inbody in
  f8 fl = false /\
  fline fl = fline res || (if inbody then longrun llen rest else longrun 0 (skipn (hpos llen rest) rest)).
Proof.
  intros rest. remember (length rest) as n eqn:En. revert rest En.
  induction n as [n IH] using lt_wf_ind. intros rest En H7 res llen inbody H8.
  destruct rest as [|c r].
  - cbn [nr_fun hpos skipn longrun]. rewrite f8_final, fline_final. split; [exact H8|].
    destruct inbody; cbn [andb]; reflexivity.
  - cbn [existsb] in H7. apply Bool.orb_false_elim in H7 as [Hc7 Hr7].
    assert (Hboth : f8 res && fline res = false) by (rewrite H8; reflexivity).
    set (res1 := nr_final res llen inbody).
    assert (H81 : f8 res1 = false) by (unfold res1; rewrite f8_final; exact H8).
    assert (Hfl1 : fline res1 = fline res || (inbody && Nat.ltb NR_LIMIT llen)) by apply fline_final.
    destruct (is_eol c) eqn:He.
    + (* line end *)
      rewrite (nr_fun_eol c r res llen inbody Hboth Hc7 He). cbv zeta. fold res1. rewrite H81, Bool.andb_false_r.
      pose proof (after_eol_length c r) as Hal.
      assert (Ha7 : existsb is8 (after_eol c r) = false).
      { unfold after_eol. destruct r as [|c2 r2]; [reflexivity|]. destruct (N.eqb c CR && N.eqb c2 LF); [|exact Hr7].
        cbn [existsb] in Hr7. apply Bool.orb_false_elim in Hr7 as [_ A]. exact A. }
      destruct (IH (length (after_eol c r)) ltac:(cbn [length] in En; lia) (after_eol c r) eq_refl Ha7 res1 0
                   (if Nat.eqb llen 0 then true else inbody) H81) as [A B].
      split; [exact A|]. rewrite B, Hfl1. rewrite longrun_cons, He.
      destruct inbody.
      * replace (if Nat.eqb llen 0 then true else true) with true by (destruct (Nat.eqb llen 0); reflexivity).
        cbn [andb]. unfold NR_LIMIT, MAXLINE. now rewrite Bool.orb_assoc.
      * cbn [andb]. rewrite Bool.orb_false_r.
        destruct (Nat.eqb_spec llen 0) as [Hz|Hnz].
        -- subst llen. cbn [hpos]. rewrite He. cbn [Nat.eqb skipn]. rewrite longrun_cons, He.
           unfold MAXLINE. cbn [Nat.ltb Nat.leb orb]. reflexivity.
        -- destruct (hpos_eol c r llen He Hnz) as [E1 E2]. rewrite E1.
           rewrite <- skipn_skipn'. rewrite E2. reflexivity.
    + (* ordinary octet *)
      cbn [nr_fun]. rewrite Hboth, Hc7, He. cbv zeta. fold res1.
      destruct (IH (length r) ltac:(cbn [length] in En; lia) r eq_refl Hr7 res1 (S llen) inbody H81) as [A B].
      split; [exact A|]. rewrite B, Hfl1. rewrite longrun_cons, He. cbn [hpos]. rewrite He. cbn [skipn].
      destruct inbody; cbn [andb]; [|now rewrite Bool.orb_false_r].
      destruct (Nat.ltb_spec NR_LIMIT llen) as [Hbig|]; [|now rewrite Bool.orb_false_r].
      rewrite (longrun_big r (S llen)) by (unfold NR_LIMIT, MAXLINE in *; lia). now rewrite !Bool.orb_true_r.
Qed.

(* ------------------------------------------------------------------ data without an empty line *)
Lemma hpos_cons a c r :
  hpos a (c :: r) =
  if is_eol c then
    if Nat.eqb a 0 then 0
    else match r with
         | c2 :: r2 => if N.eqb c CR && N.eqb c2 LF then 2 + hpos 0 r2 else 1 + hpos 0 r
         | [] => 1
         end
  else S (hpos (S a) r).
Proof. reflexivity. Qed.

Lemma hpos_firstn_self : forall l a, hpos a (firstn (hpos a l) l) = hpos a l.
Proof.
  intros l. remember (length l) as n eqn:En. revert l En.
  induction n as [n IH] using lt_wf_ind. intros l En a.
  destruct l as [|c r]; [reflexivity|]. cbn [length] in En. rewrite (hpos_cons a c r).
  destruct (is_eol c) eqn:He.
  - destruct (Nat.eqb_spec a 0) as [Hz|Hnz]; [reflexivity|].
    destruct r as [|c2 r2].
    + change (firstn 1 [c]) with [c]. rewrite hpos_cons, He. destruct (Nat.eqb_spec a 0); [contradiction|reflexivity].
    + cbn [length] in En. destruct (N.eqb c CR && N.eqb c2 LF) eqn:E.
      * change (firstn (2 + hpos 0 r2) (c :: c2 :: r2)) with (c :: c2 :: firstn (hpos 0 r2) r2).
        rewrite hpos_cons, He, E. destruct (Nat.eqb_spec a 0); [contradiction|].
        rewrite (IH (length r2)) by (lia || reflexivity). reflexivity.
      * change (firstn (1 + hpos 0 (c2 :: r2)) (c :: c2 :: r2)) with (c :: firstn (hpos 0 (c2 :: r2)) (c2 :: r2)).
        rewrite hpos_cons, He. destruct (Nat.eqb_spec a 0); [contradiction|].
        destruct (hpos 0 (c2 :: r2)) as [|h] eqn:Eh; [reflexivity|].
        change (firstn (S h) (c2 :: r2)) with (c2 :: firstn h r2). cbv iota. rewrite E.
        change (c2 :: firstn h r2) with (firstn (S h) (c2 :: r2)). rewrite <- Eh.
        rewrite (IH (length (c2 :: r2))) by (cbn [length]; lia || reflexivity). reflexivity.
  - change (firstn (S (hpos (S a) r)) (c :: r)) with (c :: firstn (hpos (S a) r) r).
    rewrite hpos_cons, He. rewrite (IH (length r)) by (lia || reflexivity). reflexivity.
Qed.

Definition noempty (l : bytes) : Prop := hpos 0 l = length l.

Lemma noempty_header (w : bytes) : noempty (firstn (hpos 0 w) w).
Proof.
  unfold noempty. rewrite hpos_firstn_self. rewrite firstn_length. pose proof (hpos_le w 0). lia.
Qed.

Lemma hpos_full_prefix : forall l a, hpos a l = length l -> forall k, hpos a (firstn k l) = length (firstn k l).
Proof.
  intros l. remember (length l) as n eqn:En. revert l En.
  induction n as [n IH] using lt_wf_ind. intros l En a H k.
  destruct l as [|c r]; [now rewrite firstn_nil|]. destruct k as [|k]; [reflexivity|].
  cbn [length] in En. rewrite hpos_cons in H. cbn [length] in H.
  change (firstn (S k) (c :: r)) with (c :: firstn k r). rewrite hpos_cons. cbn [length].
  destruct (is_eol c) eqn:He.
  - destruct (Nat.eqb_spec a 0) as [Hz|Hnz]; [lia|].
    destruct r as [|c2 r2]; [rewrite firstn_nil; reflexivity|]. cbn [length] in En, H.
    destruct k as [|k]; [reflexivity|]. change (firstn (S k) (c2 :: r2)) with (c2 :: firstn k r2). cbn [length].
    destruct (N.eqb c CR && N.eqb c2 LF) eqn:E.
    + rewrite (IH (length r2) ltac:(lia) r2 eq_refl 0 ltac:(lia) k). reflexivity.
    + change (c2 :: firstn k r2) with (firstn (S k) (c2 :: r2)).
      rewrite (IH (length (c2 :: r2)) ltac:(cbn [length]; lia) (c2 :: r2) eq_refl 0 ltac:(cbn [length]; lia) (S k)).
      cbn [firstn length]. reflexivity.
  - rewrite (IH (length r) ltac:(lia) r eq_refl (S a) ltac:(lia) k). reflexivity.
Qed.

Lemma noempty_prefix l k : noempty l -> noempty (firstn k l).
Proof. unfold noempty. intros H. apply hpos_full_prefix. exact H. Qed.

(** behind a complete line end of data without an empty line there is again no empty line *)
Lemma hpos_full_suffix : forall l a, hpos a l = length l -> forall e, 1 <= e <= length l ->
  is_eol (nth (e - 1) l 0%N) = true -> (nth (e - 1) l 0%N = CR -> e < length l -> nth e l 0%N <> LF) ->
  hpos 0 (skipn e l) = length l - e.
Proof.
  intros l. assert (Hn : length l <= length l) by lia. revert Hn. generalize (length l) at 2. intros n. revert l.
  induction n as [|n IH]; intros l Hn a H e He Heol Hns.
  { destruct l; cbn [length] in *; lia. }
  destruct l as [|c r]; [cbn [length] in He; lia|]. cbn [length] in Hn, He. rewrite hpos_cons in H. cbn [length] in H.
  destruct (is_eol c) eqn:Hc.
  - destruct (Nat.eqb_spec a 0) as [Hz|Hnz]; [lia|].
    destruct r as [|c2 r2].
    + assert (e = 1) by (cbn [length] in He; lia). subst e. reflexivity.
    + cbn [length] in Hn, He, H. destruct (N.eqb c CR && N.eqb c2 LF) eqn:E.
      * apply andb_prop in E as [E1 E2]. apply N.eqb_eq in E1, E2.
        destruct e as [|[|e]]; [lia| |].
        -- exfalso. cbn in Hns. apply Hns; [exact E1|cbn [length]; lia|exact E2].
        -- destruct e as [|e]; [cbn [skipn length]; lia|].
           change (skipn (S (S (S e))) (c :: c2 :: r2)) with (skipn (S e) r2).
           replace (length (c :: c2 :: r2) - S (S (S e))) with (length r2 - S e) by (cbn [length]; lia).
           apply (IH r2 ltac:(lia) 0 ltac:(lia) (S e)); [lia| |].
           ++ replace (S e - 1) with e by lia. cbn in Heol. exact Heol.
           ++ replace (S e - 1) with e by lia. cbn in Hns. intros A B. apply Hns; [exact A|cbn [length]; lia].
      * destruct e as [|[|e]]; [lia|cbn [skipn length]; lia|].
        change (skipn (S (S e)) (c :: c2 :: r2)) with (skipn (S e) (c2 :: r2)).
        replace (length (c :: c2 :: r2) - S (S e)) with (length (c2 :: r2) - S e) by (cbn [length]; lia).
        apply (IH (c2 :: r2) ltac:(cbn [length]; lia) 0 ltac:(cbn [length]; lia) (S e)); [cbn [length]; lia| |].
        -- replace (S e - 1) with e by lia. cbn in Heol. exact Heol.
        -- replace (S e - 1) with e by lia. cbn in Hns. intros A B. apply Hns; [exact A|cbn [length] in *; lia].
  - destruct e as [|[|e]]; [lia| |].
    + cbn in Heol. rewrite Hc in Heol. discriminate.
    + change (skipn (S (S e)) (c :: r)) with (skipn (S e) r).
      replace (length (c :: r) - S (S e)) with (length r - S e) by (cbn [length]; lia).
      apply (IH r ltac:(lia) (S a) ltac:(lia) (S e)); [lia| |].
      * replace (S e - 1) with e by lia. cbn in Heol. exact Heol.
      * replace (S e - 1) with e by lia. cbn in Hns. intros A B. apply Hns; [exact A|cbn [length]; lia].
Qed.

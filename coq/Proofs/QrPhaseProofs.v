(** need_recode tells header from body by the first empty line: [hpos 0 w] is the offset of the line end
    that forms it (or the length of [w] if there is none).  For data without 8-bit octets the
    recode_long_line flag says exactly that a line behind that offset is too long. *)
From Qv Require Import Common.Bytes Gen.GenQrdata Model.Mime Model.QrData Model.QrDataL2 Proofs.QrMemLemmas
  Spec.SmtpDataSpec Proofs.QrNeedRecodeProofs.
Require Import Lia.

(** offset of the first line end that is met with an empty current line ([llen] = its length so far) *)
Fixpoint hpos (llen : nat) (l : bytes) : nat :=
  match l with
  | [] => 0
  | c :: r =>
      if is_eol c then
        if Nat.eqb llen 0 then 0
        else match r with
             | c2 :: r2 => if N.eqb c CR && N.eqb c2 LF then 2 + hpos 0 r2 else 1 + hpos 0 r
             | [] => 1
             end
      else S (hpos (S llen) r)
  end.

Lemma hpos_le : forall l llen, hpos llen l <= length l.
Proof.
  intros l. remember (length l) as n eqn:En. revert l En.
  induction n as [n IH] using lt_wf_ind. intros l En llen.
  destruct l as [|c r]; [cbn; lia|]. cbn [hpos length] in *.
  destruct (is_eol c).
  - destruct (Nat.eqb llen 0); [lia|]. destruct r as [|c2 r2]; [cbn; lia|]. cbn [length] in En.
    destruct (N.eqb c CR && N.eqb c2 LF).
    + pose proof (IH (length r2) ltac:(lia) r2 eq_refl 0). lia.
    + pose proof (IH (length (c2 :: r2)) ltac:(cbn [length]; lia) (c2 :: r2) eq_refl 0). cbn [length] in *. lia.
  - pose proof (IH (length r) ltac:(lia) r eq_refl (S llen)). lia.
Qed.

Lemma hpos_eol c r llen : is_eol c = true -> llen <> 0 ->
  hpos llen (c :: r) = (length (c :: r) - length (after_eol c r)) + hpos 0 (after_eol c r) /\
  skipn (length (c :: r) - length (after_eol c r)) (c :: r) = after_eol c r.
Proof.
  intros He Hl. cbn [hpos]. rewrite He. destruct (Nat.eqb_spec llen 0); [contradiction|].
  unfold after_eol. destruct r as [|c2 r2]; [cbn; auto|].
  destruct (N.eqb c CR && N.eqb c2 LF); cbn [length].
  - replace (S (S (length r2)) - length r2) with 2 by lia. auto.
  - replace (S (S (length r2)) - S (length r2)) with 1 by lia. auto.
Qed.

Lemma longrun_big : forall rest llen, MAXLINE < llen -> longrun llen rest = true.
Proof.
  induction rest as [|x r IH]; intros llen H; cbn [longrun].
  - apply Nat.ltb_lt. exact H.
  - destruct (is_eol x); [|apply IH; lia].
    replace (Nat.ltb MAXLINE llen) with true by (symmetry; apply Nat.ltb_lt; exact H). reflexivity.
Qed.

Lemma fline_final res llen inbody : fline (nr_final res llen inbody) = fline res || (inbody && Nat.ltb NR_LIMIT llen).
Proof.
  unfold nr_final, set_long. destruct res as [a bl c]. destruct (Nat.ltb NR_LIMIT llen), inbody; cbn [fline f8 fhdr andb]; rewrite ?Bool.orb_false_r, ?Bool.orb_true_r; reflexivity.
Qed.

(** no 8-bit octet anywhere: the scan of need_recode never stops early *)
Lemma nr_phase : forall rest, existsb is8 rest = false -> forall res llen inbody, f8 res = false ->
  let fl := nr_fun rest res llen inbody in
  f8 fl = false /\
  fline fl = fline res || (if inbody then longrun llen rest else longrun 0 (skipn (hpos llen rest) rest)).
Proof.
  intros rest. remember (length rest) as n eqn:En. revert rest En.
  induction n as [n IH] using lt_wf_ind. intros rest En H7 res llen inbody H8.
  destruct rest as [|c r].
  - cbn [nr_fun hpos skipn longrun]. rewrite f8_final, fline_final. split; [exact H8|].
    destruct inbody; cbn [andb]; reflexivity.
  - cbn [existsb] in H7. apply Bool.orb_false_elim in H7 as [Hc7 Hr7].
    assert (Hboth : f8 res && fline res = false) by (rewrite H8; reflexivity).
    set (res1 := nr_final res llen inbody).
    assert (H81 : f8 res1 = false) by (unfold res1; rewrite f8_final; exact H8).
    assert (Hfl1 : fline res1 = fline res || (inbody && Nat.ltb NR_LIMIT llen)) by apply fline_final.
    destruct (is_eol c) eqn:He.
    + (* line end *)
      rewrite (nr_fun_eol c r res llen inbody Hboth Hc7 He). cbv zeta. fold res1. rewrite H81, Bool.andb_false_r.
      pose proof (after_eol_length c r) as Hal.
      assert (Ha7 : existsb is8 (after_eol c r) = false).
      { unfold after_eol. destruct r as [|c2 r2]; [reflexivity|]. destruct (N.eqb c CR && N.eqb c2 LF); [|exact Hr7].
        cbn [existsb] in Hr7. apply Bool.orb_false_elim in Hr7 as [_ A]. exact A. }
      destruct (IH (length (after_eol c r)) ltac:(cbn [length] in En; lia) (after_eol c r) eq_refl Ha7 res1 0
                   (if Nat.eqb llen 0 then true else inbody) H81) as [A B].
      split; [exact A|]. rewrite B, Hfl1. rewrite longrun_cons, He.
      destruct inbody.
      * replace (if Nat.eqb llen 0 then true else true) with true by (destruct (Nat.eqb llen 0); reflexivity).
        cbn [andb]. unfold NR_LIMIT, MAXLINE. now rewrite Bool.orb_assoc.
      * cbn [andb]. rewrite Bool.orb_false_r.
        destruct (Nat.eqb_spec llen 0) as [Hz|Hnz].
        -- subst llen. cbn [hpos]. rewrite He. cbn [Nat.eqb skipn]. rewrite longrun_cons, He.
           unfold MAXLINE. cbn [Nat.ltb Nat.leb orb]. reflexivity.
        -- destruct (hpos_eol c r llen He Hnz) as [E1 E2]. rewrite E1.
           rewrite <- skipn_skipn'. rewrite E2. reflexivity.
    + (* ordinary octet *)
      cbn [nr_fun]. rewrite Hboth, Hc7, He. cbv zeta. fold res1.
      destruct (IH (length r) ltac:(cbn [length] in En; lia) r eq_refl Hr7 res1 (S llen) inbody H81) as [A B].
      split; [exact A|]. rewrite B, Hfl1. rewrite longrun_cons, He. cbn [hpos]. rewrite He. cbn [skipn].
      destruct inbody; cbn [andb]; [|now rewrite Bool.orb_false_r].
      destruct (Nat.ltb_spec NR_LIMIT llen) as [Hbig|]; [|now rewrite Bool.orb_false_r].
      rewrite (longrun_big r (S llen)) by (unfold NR_LIMIT, MAXLINE in *; lia). now rewrite !Bool.orb_true_r.
Qed.

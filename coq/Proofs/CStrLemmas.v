(** Facts about the C-string primitives of Model/Addr.v on a buffer [s ++ NUL :: rest]
    whose string part [s] is free of NUL: they never run past the terminator. *)
From Qv Require Import Common.Bytes Gen.GenAddr Model.Addr Spec.AddrSpec.

Ltac ulia := unfold bytes, byte in *; lia.
Local Arguments N.eqb : simpl never.

Lemma first_nul p : In NUL p -> exists s rest, p = s ++ NUL :: rest /\ ~ In NUL s.
Proof.
  induction p as [|c p IH]; intros H; [destruct H|].
  destruct (N.eq_dec c NUL) as [->|Hc].
  - exists [], p. split; [reflexivity|intros []].
  - destruct H as [H|H]; [congruence|].
    destruct (IH H) as (s & rest & -> & Hs).
    exists (c :: s), rest. split; [reflexivity|]. intros [X|X]; [congruence|contradiction].
Qed.

Lemma skipn_buf (s rest : bytes) k : k <= length s ->
  skipn k (s ++ NUL :: rest) = skipn k s ++ NUL :: rest.
Proof. intros H. rewrite skipn_app. replace (k - length s) with 0 by ulia. reflexivity. Qed.

Lemma skipn_app_exact {A} (a b : list A) : skipn (length a) (a ++ b) = b.
Proof. induction a; simpl; auto. Qed.

Lemma skipn_app_plus {A} (a b : list A) k : skipn (length a + k) (a ++ b) = skipn k b.
Proof. induction a; simpl; auto. Qed.

Lemma firstn_app_exact {A} (a b : list A) : firstn (length a) (a ++ b) = a.
Proof. induction a; simpl; f_equal; auto. Qed.

Lemma nth_error_app_exact {A} (a b : list A) k : nth_error (a ++ b) (length a + k) = nth_error b k.
Proof. induction a; simpl; auto. Qed.

Lemma not_in_app {A} (x : A) a b : ~ In x (a ++ b) <-> ~ In x a /\ ~ In x b.
Proof. rewrite in_app_iff. tauto. Qed.

Lemma not_in_cons {A} (x y : A) l : ~ In x (y :: l) <-> y <> x /\ ~ In x l.
Proof. simpl. tauto. Qed.

(** strchr: the first occurrence, or none; never past the terminator *)
Lemma strchr_spec s rest c base : ~ In NUL s -> c <> NUL ->
  (exists a b, s = a ++ c :: b /\ ~ In c a /\ strchr (s ++ NUL :: rest) c base = Ok (Some (base + length a)))
  \/ (~ In c s /\ strchr (s ++ NUL :: rest) c base = Ok None).
Proof.
  intros Hs Hc. revert base. induction s as [|x s IH]; intros base.
  - right. split; [intros []|]. simpl. destruct (N.eqb_spec NUL c); [congruence|reflexivity].
  - apply not_in_cons in Hs as [Hx Hs]. cbn [app strchr].
    destruct (N.eqb_spec x c) as [->|Hxc].
    + left. exists [], s. split; [reflexivity|]. split; [intros []|]. simpl. now rewrite Nat.add_0_r.
    + destruct (N.eqb_spec x NUL) as [E|_]; [congruence|].
      destruct (IH Hs (S base)) as [(a & b & -> & Ha & Hr)|(Hn & Hr)].
      * left. exists (x :: a), b. split; [reflexivity|]. split; [intros [X|X]; [congruence|contradiction]|].
        rewrite Hr. simpl. do 2 f_equal. ulia.
      * right. split; [intros [X|X]; [congruence|contradiction]|exact Hr].
Qed.

Lemma cstr_run s rest : ~ In NUL s -> cstr (s ++ NUL :: rest) = Ok s.
Proof.
  induction s as [|x s IH]; intros Hs; [reflexivity|].
  apply not_in_cons in Hs as [Hx Hs]. cbn [app cstr].
  destruct (N.eqb_spec x NUL); [congruence|]. rewrite IH by assumption. reflexivity.
Qed.

(** strncmp(x, t, |t|) == 0 iff t is a prefix of the string x (t without NUL) *)
Lemma strncmp_prefix t : forall x rest, ~ In NUL x -> ~ In NUL t ->
  strncmp_eq (x ++ NUL :: rest) (t ++ [NUL]) (length t) = Ok (bytes_eqb (firstn (length t) x) t).
Proof.
  induction t as [|y t IH]; intros x rest Hx Ht; [reflexivity|].
  apply not_in_cons in Ht as [Hy Ht]. cbn [length strncmp_eq app].
  destruct x as [|c x].
  - cbn [app firstn bytes_eqb]. destruct (N.eqb_spec NUL y); [congruence|reflexivity].
  - apply not_in_cons in Hx as [Hc Hx]. cbn [app firstn bytes_eqb].
    destruct (N.eqb_spec c y) as [->|Hcy]; [|reflexivity].
    destruct (N.eqb_spec y NUL); [congruence|]. cbn [andb]. apply IH; assumption.
Qed.

(** strcmp(x, t) == 0 iff the strings are equal *)
Lemma strcmp_run t : forall x rest, ~ In NUL x -> ~ In NUL t ->
  strcmp_eq (x ++ NUL :: rest) (t ++ [NUL]) = Ok (bytes_eqb x t).
Proof.
  induction t as [|y t IH]; intros x rest Hx Ht.
  - destruct x as [|c x]; [reflexivity|]. apply not_in_cons in Hx as [Hc Hx].
    cbn [app strcmp_eq bytes_eqb]. destruct (N.eqb_spec c NUL); [congruence|reflexivity].
  - apply not_in_cons in Ht as [Hy Ht]. destruct x as [|c x].
    + cbn [app strcmp_eq bytes_eqb]. destruct (N.eqb_spec NUL y); [congruence|reflexivity].
    + apply not_in_cons in Hx as [Hc Hx]. cbn [app strcmp_eq bytes_eqb].
      destruct (N.eqb_spec c y) as [->|Hcy]; [|reflexivity].
      destruct (N.eqb_spec y NUL); [congruence|]. cbn [andb]. apply IH; assumption.
Qed.

Lemma to_lower_nul c : to_lower c = NUL -> c = NUL.
Proof.
  unfold to_lower, is_upper. destruct (N.leb_spec 65 c); destruct (N.leb_spec c 90); simpl; intros X; unfold NUL in *; lia.
Qed.

(** strcasecmp(x, t) == 0 iff equal after lower-casing (t without NUL) *)
Lemma strcase_run t : forall x rest, ~ In NUL x -> ~ In NUL t ->
  strcase_eq (x ++ NUL :: rest) (t ++ [NUL]) = Ok (bytes_eqb (map to_lower x) (map to_lower t)).
Proof.
  induction t as [|y t IH]; intros x rest Hx Ht.
  - destruct x as [|c x]; [reflexivity|]. apply not_in_cons in Hx as [Hc Hx].
    cbn [app strcase_eq map bytes_eqb].
    destruct (N.eqb_spec (to_lower c) (to_lower NUL)) as [E|_]; [apply to_lower_nul in E; congruence|reflexivity].
  - apply not_in_cons in Ht as [Hy Ht]. destruct x as [|c x].
    + cbn [app strcase_eq map bytes_eqb].
      destruct (N.eqb_spec (to_lower NUL) (to_lower y)) as [E|_]; [symmetry in E; apply to_lower_nul in E; congruence|reflexivity].
    + apply not_in_cons in Hx as [Hc Hx]. cbn [app strcase_eq map bytes_eqb].
      destruct (N.eqb_spec (to_lower c) (to_lower y)) as [E|_]; [|reflexivity].
      destruct (N.eqb_spec c NUL); [congruence|]. cbn [andb]. apply IH; assumption.
Qed.

Lemma rd_app_exact (a b : bytes) k : rd (a ++ b) (length a + k) = rd b k.
Proof. unfold rd. now rewrite nth_error_app_exact. Qed.

Lemma rd_head (c : N) (p : bytes) : rd (c :: p) 0 = Ok c.
Proof. reflexivity. Qed.

Lemma upd_app (a : bytes) c b v : upd (a ++ c :: b) (length a) v = Ok (a ++ v :: b).
Proof.
  unfold upd. rewrite app_length. cbn [length].
  destruct (Nat.ltb_spec (length a) (length a + S (length b))); [|ulia].
  rewrite firstn_app_exact.
  replace (S (length a)) with (length a + 1) by ulia. rewrite skipn_app_plus. reflexivity.
Qed.

Lemma bytes_eqb_refl a : bytes_eqb a a = true.
Proof. now apply bytes_eqb_eq. Qed.

(** C11, stage 3 (proved part): one term of a record — the model's mech_eval() on a term of the
    strict grammar does what Spec/SpfRfc.v's eval_mech does with the parsed term. *)
From Coq Require Import Lia ZifyBool ZifyN.
From Qv Require Import Common.Bytes Gen.GenSpf Model.SpfBase Model.SpfEnv Model.SpfMacro Model.Spf Spec.SpfRfc
  Proofs.SpfStr Proofs.SpfAgreeParse.
Local Open Scope N_scope.

Ltac codes := unfold SPF_NONE, SPF_PASS, SPF_NEUTRAL, SPF_SOFTFAIL, SPF_FAIL, SPF_PERMERROR, SPF_TEMPERROR,
  SPF_DNS_HARD_ERROR in *.

(* ------------------------------------------------------------------ keywords *)
Lemma to_lower_eq_nonalpha c x : to_lower c = x -> is_lower x = false -> c = x.
Proof. unfold to_lower, is_upper, is_lower. intros H L. destruct ((65 <=? c) && (c <=? 90)) eqn:E; lia. Qed.

Lemma kw_colon K k : lowerb k = K ++ [58] -> exists k', k = k' ++ [58] /\ lowerb k' = K.
Proof.
  intros H. destruct k as [|c0 k0] using rev_ind; [destruct K; discriminate|].
  rewrite lowerb_app in H. cbn in H. apply app_inj_tail in H as [H1 H2].
  apply to_lower_eq_nonalpha in H2; [|reflexivity]. subst. eauto.
Qed.

Lemma mm_kw (name delims : list N) k x : lowerb name = name -> lowerb k = name ->
  match_mechanism (k ++ x) (name, delims) = if at_end x || mem (hd0 x) delims then Some x else None.
Proof.
  intros Hn Hk. unfold match_mechanism. rewrite (case_prefix_kw name k x Hn Hk).
  assert (L : length k = length name) by (rewrite <- Hk; symmetry; apply lowerb_length).
  rewrite <- L, skipn_app_exact. reflexivity.
Qed.
Lemma mm_no (name delims : list N) s : is_prefix (lowerb name) (lowerb s) = false -> match_mechanism s (name, delims) = None.
Proof. intros H. unfold match_mechanism. rewrite case_prefix_lower, H. reflexivity. Qed.

(** the text of a modifier is no mechanism of the model *)
Lemma name_char_not_delim c : name_char c = true -> (c =? 58) = false /\ (c =? 47) = false /\ wspace c = false /\ (c =? 61) = false.
Proof. unfold name_char, is_alpha, is_upper, is_lower, is_digit, wspace. lia. Qed.

Lemma mm_modifier (name delims : list N) n v rest :
  forallb name_char n = true -> forallb name_char name = true -> n <> [] ->
  (forall c, mem c delims = true -> c = 58 \/ c = 47) ->
  match_mechanism (n ++ 61 :: v ++ rest) (name, delims) = None.
Proof.
  intros Hn Hname Hne Hd. unfold match_mechanism.
  destruct (case_prefix name (n ++ 61 :: v ++ rest)) eqn:E; [|reflexivity].
  set (s := n ++ 61 :: v ++ rest) in *.
  (* the character behind the name is one of n or the '=' *)
  assert (Hnx : exists c t, skipn (length name) s = c :: t /\ (name_char c = true \/ c = 61)).
  { clear Hd. unfold s in *. clear s. revert n Hn Hne E. induction name as [|a name IH]; intros n Hn Hne E.
    - destruct n as [|c n]; [congruence|]. cbn in Hn. apply andb_true_iff in Hn as [Hc _]. cbn. eauto.
    - cbn in Hname. apply andb_true_iff in Hname as [Ha Hname].
      destruct n as [|c n]; [congruence|]. cbn in E. apply andb_true_iff in E as [E1 E2].
      cbn in Hn. apply andb_true_iff in Hn as [Hc Hn].
      destruct n as [|c' n'].
      + (* the name goes on behind the '=' : impossible, '=' is no name character *)
        cbn in E2. destruct name as [|b name']; [cbn; eauto|].
        cbn in E2. apply andb_true_iff in E2 as [E3 _]. cbn in Hname. apply andb_true_iff in Hname as [Hb _].
        exfalso. apply N.eqb_eq in E3.
        apply to_lower_eq_nonalpha in E3; [|reflexivity]. subst b. discriminate.
      + cbn [length skipn app]. apply (IH Hname (c' :: n')); [exact Hn|discriminate|exact E2]. }
  destruct Hnx as (c & t & Hs & Hc). rewrite Hs. cbn [at_end hd0].
  assert (W : wspace c = false) by (destruct Hc as [Hc|Hc]; [apply name_char_not_delim, Hc|subst; reflexivity]).
  rewrite W. cbn [orb]. destruct (mem c delims) eqn:M; [|reflexivity].
  exfalso. destruct (Hd c M) as [->| ->]; destruct Hc as [Hc|Hc]; try discriminate.
Qed.

Lemma ci_eq_length a b : ci_eq a b = true -> length a = length b.
Proof.
  unfold ci_eq, lower. intros H. apply bytes_eqb_eq in H.
  rewrite <- (map_length to_lower a), <- (map_length to_lower b), H. reflexivity.
Qed.

Lemma ptr_match_ci t v : ptr_match t v = name_under t v.
Proof.
  unfold ptr_match, name_under, name_under_gen. change ci_eqb with ci_eq.
  destruct (Nat.ltb (length v) (length t)) eqn:E1.
  - apply Nat.ltb_lt in E1. destruct (ci_eq v t) eqn:E2; [apply ci_eq_length in E2; lia|].
    destruct (Nat.ltb (length t) (length v)) eqn:E3; [apply Nat.ltb_lt in E3; lia|reflexivity].
  - apply Nat.ltb_ge in E1. destruct (Nat.eqb (length v) (length t)) eqn:E2.
    + apply Nat.eqb_eq in E2. destruct (Nat.ltb (length t) (length v)) eqn:E3; [apply Nat.ltb_lt in E3; lia|].
      cbn. rewrite orb_false_r. reflexivity.
    + apply Nat.eqb_neq in E2. destruct (ci_eq v t) eqn:E4; [apply ci_eq_length in E4; lia|].
      destruct (Nat.ltb (length t) (length v)) eqn:E3; [|apply Nat.ltb_ge in E3; lia].
      cbn. rewrite andb_comm. reflexivity.
Qed.

Lemma existsb_ext' {A} (f g : A -> bool) l : (forall x, f x = g x) -> existsb f l = existsb g l.
Proof. intros H. induction l; cbn; [reflexivity|]. rewrite H, IHl. reflexivity. Qed.

(** ip4 / ip6: [arg] is network [ "/" length ] *)
Lemma ip_prefix_plain r rest len lo hi :
  (r = [] /\ len = hi \/ exists n, r = 47 :: n /\ cidr_num n hi = Some len /\ lo <= len) -> hi <= 128 ->
  sp_tail rest = true -> ip_prefix (r ++ rest) lo hi = Some len.
Proof.
  intros H Hh Hr. unfold ip_prefix. destruct H as [[-> ->]|(n & -> & Hn & Hlo)].
  - cbn [app]. destruct (sp_tail_hd rest Hr) as [E|E]; rewrite E; cbn; rewrite (sp_tail_at_end _ Hr); reflexivity.
  - cbn [app hd0 tl]. change (47 =? 47) with true. cbn iota.
    destruct (cidr_num_spec _ _ _ Hn) as (Hne & Hd & -> & Hv).
    rewrite strtoul_digits; auto; [|apply stops_digit_sp, Hr|lia].
    rewrite (sp_tail_at_end _ Hr). cbn [negb orb].
    destruct ((fst (digits_val n 0) <? lo) || (hi <? fst (digits_val n 0)) || false) eqn:Q; [lia|reflexivity].
Qed.

Lemma stops_ip4_tail r rest : (r = [] \/ exists n, r = 47 :: n) -> sp_tail rest = true -> stops ip4_char (r ++ rest) = true.
Proof. intros [->|(n & ->)] Hr; [apply sp_tail_stops; [reflexivity|exact Hr]|reflexivity]. Qed.
Lemma stops_ip6_tail r rest : (r = [] \/ exists n, r = 47 :: n) -> sp_tail rest = true -> stops ip6_char (r ++ rest) = true.
Proof. intros [->|(n & ->)] Hr; [apply sp_tail_stops; [reflexivity|exact Hr]|reflexivity]. Qed.

(* ------------------------------------------------------------------ the leaf functions on strict arguments *)
Section Leaf.
Variable D : dns.
Variable X : sess.
Let mk := spf_makro D X.

Lemma ds_a_mx_plain domain args rest d a b :
  opt_domain_cidr args = Some (d, a, b) -> sp_tail rest = true ->
  ds_a_mx mk domain (args ++ rest) = Ok (inr (target_of domain d, a, b), []).
Proof.
  intros H Hr. unfold opt_domain_cidr in H.
  destruct (hd0 args =? 58) eqn:E.
  - destruct args as [|c t]; [discriminate|]. cbn in E. apply N.eqb_eq in E. subst c. cbn [tl] in H.
    set (n := take_while not_slash t) in *. set (cd := drop_while not_slash t) in *.
    assert (Et : t = n ++ cd) by (symmetry; apply take_drop).
    assert (Hcd : stops not_slash cd = true) by apply drop_while_stops.
    destruct (domain_spec n) eqn:Hn; [|discriminate].
    destruct (dual_cidr cd) as [[a' b']|] eqn:Hc; [|discriminate]. injection H as Hd Ha Hb; subst d a b.
    clearbody n cd. subst t.
    destruct (domain_spec_hd n Hn) as (c & t' & -> & Hch). unfold ds_char in Hch.
    unfold ds_a_mx.
    assert (M : may_have_domainspec ((58 :: (c :: t') ++ cd) ++ rest) = 1%Z).
    { cbn. assert (W : wspace c = false) by (unfold wspace; lia). rewrite W. reflexivity. }
    rewrite M. cbn [Z.eqb Pos.eqb app hd0 tl N.eqb].
    change (58 =? 58) with true. cbn iota.
    change (c :: (t' ++ cd) ++ rest) with (((c :: t') ++ cd) ++ rest). rewrite <- app_assoc.
    unfold mk. rewrite spf_domainspec_plain; auto.
    2:{ destruct cd as [|e cd']; [cbn; apply sp_tail_ds_tail, Hr|]. cbn in Hcd |- *. unfold not_slash in Hcd. lia. }
    cbn [bind]. unfold cidr_res.
    destruct (parse_cidr_dual cd rest a' b' Hc Hr) as (i4 & i6 & P & L4 & L6). rewrite P.
    unfold lenmap in L4, L6. rewrite L4, L6. reflexivity.
  - destruct (dual_cidr args) as [[a' b']|] eqn:Hc; [|discriminate]. injection H as Hd Ha Hb; subst d a b.
    unfold ds_a_mx. destruct args as [|c t].
    + cbn in Hc. injection Hc as Ha Hb; subst a' b'. cbn [app].
      assert (M : may_have_domainspec rest = 0%Z).
      { destruct rest as [|e r]; [reflexivity|]. cbn in Hr. apply N.eqb_eq in Hr. subst. reflexivity. }
      rewrite M. reflexivity.
    + assert (C : c = 47).
      { cbn in Hc. destruct (negb (c =? 47)) eqn:Q; [discriminate|]. apply negb_false_iff, N.eqb_eq in Q. exact Q. }
      subst c.
      assert (M : may_have_domainspec ((47 :: t) ++ rest) = 1%Z) by reflexivity. rewrite M.
      cbn [Z.eqb Pos.eqb app hd0 N.eqb]. change (47 =? 58) with false. cbn iota.
      unfold spf_domainspec. cbn [at_end hd0]. change (wspace 47) with false. change (47 =? 47) with true. cbn iota.
      cbn [bind]. unfold cidr_res.
      destruct (parse_cidr_dual (47 :: t) rest a' b' Hc Hr) as (i4 & i6 & P & L4 & L6). cbn [app] in P. rewrite P.
      unfold lenmap in L4, L6. rewrite L4, L6. reflexivity.
Qed.

(** what the address comparison of a and mx yields *)
Definition res_match (l : list N) (a b : N) : Z := if addr_match X l a b then SPF_PASS else SPF_NONE.

Lemma spfa_plain domain args rest d a b :
  opt_domain_cidr args = Some (d, a, b) -> sp_tail rest = true ->
  exists ql, spfa D X mk domain (args ++ rest) =
    Ok (match addr_lookup D X (target_of domain d) with AErr e => addr_result e | AList l => res_match l a b end, ql).
Proof.
  intros H Hr. unfold spfa. fold mk. rewrite (ds_a_mx_plain domain args rest d a b H Hr). cbn [bind].
  unfold ask_client_family, addr_lookup, res_match, addr_match.
  destruct (client_v4 X); eexists; reflexivity.
Qed.

Lemma spfmx_plain domain args rest d a b :
  opt_domain_cidr args = Some (d, a, b) -> sp_tail rest = true ->
  exists ql, spfmx D X mk domain (args ++ rest) =
    Ok (match d_mx D (target_of domain d) with
        | MxNoHost | MxNull => SPF_NONE
        | MxErr e => addr_result e
        | MxList l => if 65536 <=? fst (hd (0, []) l) then SPF_NONE
                      else if Nat.leb 10 (length l) then SPF_FAIL
                      else res_match (concat (map snd l)) a b
        end, ql).
Proof.
  intros H Hr. unfold spfmx. fold mk. rewrite (ds_a_mx_plain domain args rest d a b H Hr). cbn [bind].
  eexists. f_equal. f_equal.
  destruct (d_mx D (target_of domain d)) as [e| | |l]; try reflexivity; try (destruct e; reflexivity).
  destruct l as [|[prio ads] l']; [unfold res_match, addr_match; destruct (client_v4 X); reflexivity|]. cbn [hd fst length].
  destruct (65536 <=? prio); [reflexivity|].
  unfold SPF_MX_LIMIT. change (Nat.ltb 10 (S (S (length l')))) with (Nat.leb 10 (S (length l'))).
  destruct (Nat.leb 10 (S (length l'))); [reflexivity|].
  unfold res_match, addr_match. destruct (client_v4 X); reflexivity.
Qed.

Lemma spfexists_plain domain d rest :
  domain_spec d = true -> sp_tail rest = true ->
  exists ql, spfexists D mk domain (d ++ rest) =
    Ok (match d_a D d with AList [] => SPF_NONE | AErr e => addr_result e | AList _ => SPF_PASS end, ql).
Proof.
  intros H Hr. unfold spfexists. unfold mk. rewrite spf_domainspec_plain; auto using sp_tail_ds_tail.
  cbn [bind]. unfold cidr_res. rewrite (parse_cidr_tail rest Hr). cbn. eexists. reflexivity.
Qed.

Lemma vd_loop_validated names : fst (vd_loop D X names) = ptr_validated D X names.
Proof.
  induction names as [|n r IH]; [reflexivity|]. cbn [vd_loop ptr_validated].
  unfold ask_client_family, addr_lookup. destruct (vd_loop D X r) as [vs qs]. cbn [fst] in IH. subst vs.
  destruct (client_v4 X).
  - destruct (d_a D n) as [e|l]; [reflexivity|]. destruct (existsb _ l); reflexivity.
  - destruct (d_aaaa D n) as [e|l]; [reflexivity|]. destruct (existsb _ l); reflexivity.
Qed.

(** ptr: [args] is nothing or ":" domain-spec *)
Lemma spfptr_plain domain args rest d :
  (args = [] /\ d = None \/ exists n, args = 58 :: n /\ d = Some n /\ domain_spec n = true) -> sp_tail rest = true ->
  exists ql, spfptr D X mk domain (args ++ rest) =
    Ok (match s_remotehost X with
        | [] => SPF_NONE
        | _ => match d_name D (s_client X) with
               | NErr e => addr_result e
               | NList names => if existsb (name_under (target_of domain d)) (ptr_validated D X (firstn 10 names))
                                then SPF_PASS else SPF_NONE
               end
        end, ql).
Proof.
  intros H Hr.
  assert (Tail : forall q0, exists ql,
    (match s_remotehost X with
     | [] => Ok (SPF_NONE, q0)
     | _ :: _ =>
         let '(v, qv) := validate_domain D X in
         Ok (match v with
             | inl e => addr_result e
             | inr vs => if existsb (ptr_match (match d with Some n => n | None => domain end)) vs then SPF_PASS else SPF_NONE
             end, q0 ++ qv)
     end : Cres (Z * list qev)) =
    Ok (match s_remotehost X with
        | [] => SPF_NONE
        | _ => match d_name D (s_client X) with
               | NErr e => addr_result e
               | NList names => if existsb (name_under (target_of domain d)) (ptr_validated D X (firstn 10 names))
                                then SPF_PASS else SPF_NONE
               end
        end, ql)).
  { intros q0. destruct (s_remotehost X); [eexists; reflexivity|].
    unfold validate_domain. destruct (d_name D (s_client X)) as [e|names]; [eexists; reflexivity|].
    unfold SPF_PTR_LIMIT.
    pose proof (vd_loop_validated (firstn 10 names)) as V.
    destruct (vd_loop D X (firstn 10 names)) as [vs qs]. cbn [fst] in V. subst vs.
    eexists. f_equal. f_equal.
    rewrite (existsb_ext' (ptr_match (match d with Some n0 => n0 | None => domain end)) (name_under (target_of domain d))).
    - reflexivity.
    - intros x. apply ptr_match_ci. }
  unfold spfptr. cbv zeta.
  destruct H as [[-> ->]|(n & -> & -> & Hn)].
  - cbn [app]. assert (M : may_have_domainspec rest = 0%Z).
    { destruct rest as [|e r]; [reflexivity|]. cbn in Hr. apply N.eqb_eq in Hr. subst. reflexivity. }
    rewrite M. cbn [Z.eqb bind]. apply Tail.
  - destruct (domain_spec_hd n Hn) as (c & t' & -> & Hch). unfold ds_char in Hch.
    assert (M : may_have_domainspec ((58 :: c :: t') ++ rest) = 1%Z).
    { cbn. assert (W : wspace c = false) by (unfold wspace; lia). rewrite W. reflexivity. }
    rewrite M. cbn [Z.eqb Pos.eqb app hd0 tl N.eqb]. change (58 =? 58) with true. cbn iota.
    change (c :: t' ++ rest) with ((c :: t') ++ rest).
    unfold mk. rewrite spf_domainspec_plain; auto using sp_tail_ds_tail.
    cbn [bind]. unfold cidr_res. rewrite (parse_cidr_tail rest Hr). cbn [Z.leb Z.compare orb bind]. apply Tail.
Qed.

End Leaf.

(* ------------------------------------------------------------------ one mechanism *)
Lemma limit_consts : SPF_TERM_LIMIT = 10%nat /\ SPF_INCLUDE_KEEP_FAIL = 10%nat /\ IP4_MINLEN = 7%nat /\ IP6_MINLEN = 3%nat
  /\ IP4_PREFIX_MIN = 8 /\ IP4_PREFIX_MAX = 32 /\ IP6_PREFIX_MIN = 8 /\ IP6_PREFIX_MAX = 128.
Proof. repeat split; reflexivity. Qed.

Lemma dns_mech_inv f name g tr : dns_mech f name g = Ok tr ->
  (Nat.leb 10 (g_q g) = true /\ exists g1, tr = TRes SPF_FAIL (Some name) g1 /\ g_q g1 = S (g_q g)) \/
  (Nat.leb 10 (g_q g) = false /\ exists res ql g', f = Ok (res, ql) /\ tr = TRes res (Some name) g' /\ g_q g' = S (g_q g)).
Proof.
  unfold dns_mech, g_limit. destruct limit_consts as (L & _). rewrite L.
  change (Nat.ltb 10 (S (g_q g))) with (Nat.leb 10 (g_q g)).
  destruct (Nat.leb 10 (g_q g)).
  - intros H. injection H as <-. left. split; [reflexivity|]. eexists. split; reflexivity.
  - destruct f as [[res ql]|w|]; cbn [bind]; try discriminate.
    intros H. injection H as <-. right. split; [reflexivity|]. eexists _, _, _. split; [reflexivity|]. split; reflexivity.
Qed.

Lemma to_lower_alpha c x : to_lower c = x -> is_lower x = true -> is_alpha c = true.
Proof. unfold to_lower, is_upper, is_lower, is_alpha, is_upper, is_lower. intros H L. destruct ((65 <=? c) && (c <=? 90)) eqn:E; lia. Qed.

Lemma opt_domain_cidr_hd args r : opt_domain_cidr args = Some r -> args = [] \/ hd0 args = 58 \/ hd0 args = 47.
Proof.
  unfold opt_domain_cidr. destruct (hd0 args =? 58) eqn:E; [intros _; right; left; apply N.eqb_eq, E|].
  destruct args as [|c t]; [left; reflexivity|]. cbn [dual_cidr].
  destruct (negb (c =? 47)) eqn:Q; [discriminate|]. intros _. right. right. apply negb_false_iff, N.eqb_eq in Q. exact Q.
Qed.

(** the codes the reference yields *)
Definition zok (z : Z) : bool :=
  existsb (Z.eqb z) [SPF_NONE; SPF_PASS; SPF_NEUTRAL; SPF_SOFTFAIL; SPF_FAIL; SPF_PERMERROR; SPF_TEMPERROR].

Section Sim.
Variable D : dns.
Variable X : sess.
Let mk := spf_makro D X.
Variable recM : bytes -> gst -> Cres (Z * gst).
Variable recS : bytes -> nat -> rres * nat.

(** how a result of the model relates to one of the reference, with the counters behind them *)
Definition rel (sr : rres * nat) (r : Z) (q' : nat) : Prop :=
  match fst sr with
  | RSkip => True
  | RCode z => r = z /\ zok z = true /\ q' = snd sr /\ (snd sr <= 10)%nat
  | RLimit => r = SPF_FAIL /\ q' = snd sr /\ snd sr = 11%nat
  end.

Variable rec_ok : forall n g, domain_spec n = true -> (1 <= g_q g)%nat -> (g_q g <= 10)%nat ->
  forall r g', recM n g = Ok (r, g') -> rel (recS n (g_q g)) r (g_q g').

Definition mrel (mo : mout * nat) (res : Z) (q' : nat) : Prop :=
  match fst mo with
  | Abort RSkip => True
  | Match => res = SPF_PASS /\ q' = snd mo /\ (snd mo <= 10)%nat
  | NoMatch => res = SPF_NONE /\ q' = snd mo /\ (snd mo <= 10)%nat
  | Abort (RCode z) => res = z /\ (z = SPF_TEMPERROR \/ z = SPF_PERMERROR) /\ q' = snd mo /\ (snd mo <= 10)%nat
  | Abort RLimit => res = SPF_FAIL /\ q' = snd mo /\ snd mo = 11%nat
  end.

Lemma addr_result_mrel e c res q' : res = addr_result e -> q' = c -> (c <= 10)%nat ->
  mrel (match e with ETemp => (Abort (RCode SPF_TEMPERROR), c) | _ => (Abort RSkip, c) end) res q'.
Proof. intros -> -> L. destruct e; cbn; auto. Qed.

(** the result of an included record, seen from the including one *)
Lemma include_map z c' : zok z = true -> (c' <= 10)%nat ->
  mrel (if (z =? SPF_PASS)%Z then (Match, c')
        else if (z =? SPF_FAIL)%Z || (z =? SPF_SOFTFAIL)%Z || (z =? SPF_NEUTRAL)%Z then (NoMatch, c')
        else if (z =? SPF_TEMPERROR)%Z then (Abort (RCode SPF_TEMPERROR), c')
        else (Abort (RCode SPF_PERMERROR), c')) (include_result z c') c'.
Proof.
  intros Hz Hc. unfold include_result. destruct limit_consts as (_ & LK & _). rewrite LK.
  assert (Q : Nat.ltb 10 c' = false) by (apply Nat.ltb_ge; lia). rewrite Q, andb_false_r.
  unfold zok in Hz. cbn [existsb] in Hz. codes.
  assert (C : (z = 0 \/ z = 1 \/ z = 2 \/ z = 3 \/ z = 4 \/ z = 5 \/ z = 7)%Z) by lia.
  destruct C as [C|[C|[C|[C|[C|[C|C]]]]]]; subst z; cbn; auto 6.
Qed.

(** spfip4() / spfip6() on a strict argument *)
Lemma spfip4_plain arg rest net len : parse_ip4 arg = Some (MIp4 net len) -> 8 <= len -> sp_tail rest = true ->
  spfip4 X (arg ++ rest) = if client_v4 X && ip4_matchnet (s_client X) net len then SPF_PASS else SPF_NONE.
Proof.
  intros H H8 Hr. unfold parse_ip4 in H.
  set (a := take_while not_slash arg) in *. set (r := drop_while not_slash arg) in *.
  assert (Ea : arg = a ++ r) by (symmetry; apply take_drop).
  assert (Hsr : stops not_slash r = true) by apply drop_while_stops.
  clearbody a r. subst arg.
  destruct (forallb ip4_char a && Nat.leb 7 (length a) && Nat.leb (length a) 15) eqn:C; cbn [negb] in H; [|discriminate].
  apply andb_true_iff in C as [C C3]. apply andb_true_iff in C as [C1 C2].
  apply Nat.leb_le in C2, C3.
  destruct (inet_pton4 a) as [o|] eqn:P; [|discriminate].
  assert (R : (r = [] /\ len = 32 \/ exists n, r = 47 :: n /\ cidr_num n 32 = Some len /\ 8 <= len) /\ net = octets_to_N o).
  { destruct r as [|c n]; [injection H as <- <-; split; [left; split; reflexivity|reflexivity]|].
    assert (c = 47) by (cbn in Hsr; unfold not_slash in Hsr; lia). subst c.
    destruct (cidr_num n 32) as [v|] eqn:Q; [|discriminate]. injection H as <- <-.
    split; [right; exists n; split; [reflexivity|split; [exact Q|exact H8]]|reflexivity]. }
  destruct R as [R ->].
  unfold spfip4. destruct (client_v4 X); [|reflexivity]. cbn [negb andb].
  assert (T : r = [] \/ exists n, r = 47 :: n) by (destruct R as [[-> _]|(n & -> & _)]; eauto).
  rewrite <- app_assoc.
  rewrite take_while_app, drop_while_app; auto using stops_ip4_tail.
  destruct limit_consts as (_ & _ & M4 & _ & P4 & Q4 & _). rewrite M4, P4, Q4.
  assert (L1 : Nat.leb 16 (length a) = false) by (apply Nat.leb_gt; lia).
  assert (L2 : Nat.ltb (length a) 7 = false) by (apply Nat.ltb_ge; lia).
  rewrite L1, L2. cbn [orb].
  rewrite (ip_prefix_plain r rest len 8 32 R ltac:(lia) Hr), P. reflexivity.
Qed.

Lemma spfip6_plain arg rest net len : parse_ip6 arg = Some (MIp6 net len false) -> 8 <= len -> sp_tail rest = true ->
  spfip6 X (arg ++ rest) = if negb (client_v4 X) && ip6_matchnet (s_client X) net len then SPF_PASS else SPF_NONE.
Proof.
  intros H H8 Hr. unfold parse_ip6 in H.
  set (a := take_while not_slash arg) in *. set (r := drop_while not_slash arg) in *.
  assert (Ea : arg = a ++ r) by (symmetry; apply take_drop).
  assert (Hsr : stops not_slash r = true) by apply drop_while_stops.
  clearbody a r. subst arg.
  destruct (forallb ip6_char a && Nat.leb (length a) 45) eqn:C; cbn [negb] in H; [|discriminate].
  apply andb_true_iff in C as [C1 C2]. apply Nat.leb_le in C2.
  destruct (inet_pton6 a) as [o|] eqn:P; [|discriminate].
  assert (R : ((r = [] /\ len = 128 \/ exists n, r = 47 :: n /\ cidr_num n 128 = Some len /\ 8 <= len) /\ net = octets_to_N o)
              /\ Nat.ltb (length a) 3 = false).
  { destruct r as [|c n]; [injection H as <- <- C3; split; [split; [left; split; reflexivity|reflexivity]|exact C3]|].
    assert (c = 47) by (cbn in Hsr; unfold not_slash in Hsr; lia). subst c.
    destruct (cidr_num n 128) as [v|] eqn:Q; [|discriminate]. injection H as <- <- C3.
    split; [split; [right; exists n; split; [reflexivity|split; [exact Q|exact H8]]|reflexivity]|exact C3]. }
  destruct R as [R C3]. apply Nat.ltb_ge in C3.
  destruct R as [R ->].
  unfold spfip6. destruct (client_v4 X); [reflexivity|]. cbn [negb andb].
  assert (T : r = [] \/ exists n, r = 47 :: n) by (destruct R as [[-> _]|(n & -> & _)]; eauto).
  rewrite <- app_assoc.
  rewrite take_while_app, drop_while_app; auto using stops_ip6_tail.
  destruct limit_consts as (_ & _ & _ & M6 & _ & _ & P6 & Q6). rewrite M6, P6, Q6.
  assert (L1 : Nat.leb 46 (length a) = false) by (apply Nat.leb_gt; lia).
  assert (L2 : Nat.ltb (length a) 3 = false) by (apply Nat.ltb_ge; lia).
  rewrite L1, L2. cbn [orb].
  rewrite (ip_prefix_plain r rest len 8 128 R ltac:(lia) Hr), P. reflexivity.
Qed.


Lemma modname_scan_plain n x : forall k, forallb name_char n = true ->
  modname_scan (n ++ 61 :: x) k = (k + length n)%nat.
Proof.
  induction n as [|e n IH]; intros k Hn.
  - cbn. lia.
  - cbn in Hn. apply andb_true_iff in Hn as [He Hn]. cbn [app modname_scan length].
    destruct (name_char_not_delim e He) as (_ & _ & W & Q). rewrite W, Q.
    assert (M : modname_char e = true) by (unfold modname_char, name_char in *; lia). rewrite M.
    rewrite IH; auto. lia.
Qed.
Lemma spf_modifier_name_plain n x : is_alpha (hd0 n) = true -> forallb name_char n = true ->
  spf_modifier_name (n ++ 61 :: x) = length n /\ n <> [].
Proof.
  intros Ha Hn. destruct n as [|c n]; [discriminate|]. split; [|discriminate].
  cbn in Ha. cbn [app spf_modifier_name]. rewrite Ha. cbn in Hn. apply andb_true_iff in Hn as [_ Hn].
  rewrite modname_scan_plain; auto.
Qed.

(** a term that is a modifier *)
Lemma modifier_sim domain tok rest t mechl g :
  parse_modifier tok = Some t -> sp_tail rest = true ->
  forall tr, mech_eval D X mk recM domain (tok ++ rest) (tok ++ rest) mechl g = Ok tr ->
  exists g', tr = TRes SPF_NONE mechl g' /\ g_q g' = g_q g.
Proof.
  intros H Hr tr. unfold parse_modifier in H.
  set (n := take_while not_eq_sign tok) in *. set (r := drop_while not_eq_sign tok) in *.
  assert (Et : tok = n ++ r) by (symmetry; apply take_drop).
  assert (Hsr : stops not_eq_sign r = true) by apply drop_while_stops.
  clearbody n r. subst tok.
  destruct r as [|c v]; [discriminate|].
  assert (c = 61) by (cbn in Hsr; unfold not_eq_sign in Hsr; lia). subst c.
  destruct (is_alpha (hd0 n) && forallb name_char n) eqn:C; cbn [negb] in H; [|discriminate].
  apply andb_true_iff in C as [Ca Cn].
  assert (Hv : forallb mod_value_char v = true).
  { destruct (str_eq (lower n) N_REDIRECT); [|destruct (str_eq (lower n) N_EXP)].
    - destruct (domain_spec v) eqn:Dv; [|discriminate]. destruct (domain_spec_parts v Dv) as (A & _).
      eapply forallb_impl'; [|exact A]. unfold ds_char, mod_value_char. intros x. lia.
    - destruct (domain_spec v) eqn:Dv; [|discriminate]. destruct (domain_spec_parts v Dv) as (A & _).
      eapply forallb_impl'; [|exact A]. unfold ds_char, mod_value_char. intros x. lia.
    - destruct (forallb mod_value_char v); [reflexivity|discriminate]. }
  clear H.
  destruct (spf_modifier_name_plain n (v ++ rest) Ca Cn) as [Em Hne].
  rewrite <- app_assoc. cbn [app].
  unfold mech_eval, MECH_mx, MECH_ptr, MECH_exists, MECH_all, MECH_a, MECH_ip4, MECH_ip6, MECH_include.
  repeat (rewrite mm_modifier; [|exact Cn|reflexivity|exact Hne|cbn; intros x Hx; lia]).
  unfold modifier_eval. rewrite Em.
  assert (E0 : Nat.eqb (length n) 0 = false) by (destruct n; [congruence|reflexivity]). rewrite E0.
  assert (Eh : hd0 (n ++ 61 :: v ++ rest) = hd0 n) by (destruct n; [congruence|reflexivity]).
  rewrite Eh, Ca. cbn [negb].
  replace (skipn (S (length n)) (n ++ 61 :: v ++ rest)) with (v ++ rest)
    by (change (n ++ 61 :: v ++ rest) with (n ++ [61] ++ v ++ rest); rewrite app_assoc;
        replace (S (length n)) with (length (n ++ [61])) by (rewrite app_length; cbn; lia);
        rewrite skipn_app_exact; reflexivity).
  destruct (spf_makro_value D X domain v rest Hv Hr) as [out Eo]. fold mk in Eo. rewrite Eo. cbn [bind].
  intros Htr. injection Htr as <-. eexists. split; reflexivity.
Qed.

(** a mechanism that counts as DNS term: the limit test of both sides, then the evaluation *)
Lemma dns_sim f name g tr domain m resv ql :
  (forall q, eval_mech D X true recS domain m q =
             if Nat.leb 10 q then (Abort RLimit, S q) else eval_dns_mech D X true recS domain m (S q)) ->
  f = Ok (resv, ql) -> (g_q g <= 10)%nat ->
  (Nat.leb 10 (g_q g) = false -> mrel (eval_dns_mech D X true recS domain m (S (g_q g))) resv (S (g_q g))) ->
  dns_mech f name g = Ok tr ->
  exists res ml g', tr = TRes res ml g' /\ mrel (eval_mech D X true recS domain m (g_q g)) res (g_q g').
Proof.
  intros Hm Hf Hq Hrel Htr. rewrite Hm.
  destruct (dns_mech_inv f name g tr Htr) as [(E & g1 & -> & Q)|(E & res & ql' & g' & Ef & -> & Q)]; rewrite E.
  - eexists _, _, _. split; [reflexivity|]. apply Nat.leb_le in E. cbn. repeat split; lia.
  - rewrite Hf in Ef. injection Ef as <- <-. eexists _, _, _. split; [reflexivity|]. rewrite Q. apply Hrel, E.
Qed.

Lemma res_match_mrel l a b c : (c <= 10)%nat ->
  mrel (if addr_match X l a b then Match else NoMatch, c) (res_match X l a b) c.
Proof. intros L. unfold res_match. destruct (addr_match X l a b); cbn; auto. Qed.

(** a term that is a mechanism; [tk]: the whole term as the model sees it *)
Lemma mech_sim domain tk tok rest m mechl g :
  parse_mech tok = Some m -> sp_tail rest = true -> (g_q g <= 10)%nat ->
  forall tr, mech_eval D X mk recM domain tk (tok ++ rest) mechl g = Ok tr ->
  is_alpha (hd0 tok) = true /\
  exists res ml g', tr = TRes res ml g' /\ mrel (eval_mech D X true recS domain m (g_q g)) res (g_q g').
Proof.
  intros H Hr Hq tr. unfold parse_mech in H. change (lower tok) with (lowerb tok) in H.
  unfold mech_eval, MECH_mx, MECH_ptr, MECH_exists, MECH_all, MECH_a, MECH_ip4, MECH_ip6, MECH_include.
  (* all *)
  destruct (str_eq (lowerb tok) KW_ALL) eqn:Eall.
  { apply bytes_eqb_eq in Eall. injection H as <-.
    rewrite (mm_no [109; 120]), (mm_no [112; 116; 114]), (mm_no [101; 120; 105; 115; 116; 115]) by (rewrite lowerb_app, Eall; reflexivity).
    rewrite (mm_kw [97; 108; 108] [] tok rest eq_refl Eall), (sp_tail_at_end _ Hr). cbn [orb].
    intros Htr. injection Htr as <-.
    split; [destruct tok as [|c t]; [discriminate|]; injection Eall as E1 _; eapply to_lower_alpha; [exact E1|reflexivity]|].
    eexists _, _, _. split; [reflexivity|]. cbn. auto. }
  (* include *)
  destruct (is_prefix KW_INCLUDE (lowerb tok)) eqn:Einc.
  { destruct (lower_kw_split _ _ Einc) as (Ek & Et & _). set (k := firstn (length KW_INCLUDE) tok) in *.
    change (skipn 8 tok) with (skipn (length KW_INCLUDE) tok) in H. set (d := skipn (length KW_INCLUDE) tok) in *.
    clearbody k d. subst tok. destruct (domain_spec d) eqn:Hd; [|discriminate]. injection H as <-.
    destruct (kw_colon [105; 110; 99; 108; 117; 100; 101] k Ek) as (k' & -> & Ek').
    rewrite <- !app_assoc. cbn [app].
    rewrite (mm_no [109; 120]), (mm_no [112; 116; 114]), (mm_no [101; 120; 105; 115; 116; 115]), (mm_no [97; 108; 108]), (mm_no [97]),
      (mm_no [105; 112; 52]), (mm_no [105; 112; 54]) by (rewrite lowerb_app, Ek'; reflexivity).
    rewrite (mm_kw [105; 110; 99; 108; 117; 100; 101] [58] k' _ eq_refl Ek'). cbn [at_end hd0 mem existsb wspace N.eqb Pos.eqb orb].
    intros Htr. split; [destruct k' as [|c t]; [discriminate|]; injection Ek' as E1 _; eapply to_lower_alpha; [exact E1|reflexivity]|].
    revert Htr. unfold include_eval.
    destruct (domain_spec_hd d Hd) as (c & t' & -> & Hch). unfold ds_char in Hch.
    assert (M : may_have_domainspec (58 :: (c :: t') ++ rest) = 1%Z).
    { cbn. assert (W : wspace c = false) by (unfold wspace; lia). rewrite W. reflexivity. }
    rewrite M. cbn [Z.eqb Pos.eqb tl].
    fold mk. unfold mk at 1. rewrite spf_domainspec_plain; auto using sp_tail_ds_tail. cbn [bind].
    unfold cidr_res. rewrite (parse_cidr_tail rest Hr). cbn [Z.leb Z.compare orb].
    unfold g_limit. destruct limit_consts as (L & LK & _). rewrite L.
    cbn [g_q g_addq]. change (Nat.ltb 10 (S (g_q g))) with (Nat.leb 10 (g_q g)).
    unfold eval_mech. destruct (Nat.leb 10 (g_q g)) eqn:Eq.
    - cbn [bind]. intros Htr. injection Htr as <-. eexists _, _, _. split; [reflexivity|].
      apply Nat.leb_le in Eq. unfold include_result. cbn [g_q]. rewrite LK.
      assert (Q1 : Nat.ltb 10 (S (g_q g)) = true) by (apply Nat.ltb_lt; lia). rewrite Q1.
      cbn. repeat split; lia.
    - apply Nat.leb_gt in Eq.
      set (g1 := g_term _).
      assert (Q1 : g_q g1 = S (g_q g)) by reflexivity.
      pose proof (rec_ok (c :: t') g1 Hd ltac:(lia) ltac:(lia)) as R. rewrite Q1 in R.
      destruct (recM (c :: t') g1) as [[r g2]|w|]; cbn [bind]; try discriminate.
      intros Htr. injection Htr as <-. eexists _, _, _. split; [reflexivity|].
      specialize (R r g2 eq_refl). unfold rel in R. unfold eval_dns_mech.
      destruct (recS (c :: t') (S (g_q g))) as [sr c']. cbn [fst snd] in R.
      destruct sr as [z| |]; [| |exact I].
      + destruct R as (-> & Hz & -> & Lc). apply include_map; auto.
      + destruct R as (-> & -> & Lc). unfold include_result, mrel. rewrite LK. cbn [fst snd].
        assert (Q2 : Nat.ltb 10 c' = true) by (apply Nat.ltb_lt; lia). rewrite Q2. cbn. auto. }
  (* exists *)
  destruct (is_prefix KW_EXISTS (lowerb tok)) eqn:Eex.
  { destruct (lower_kw_split _ _ Eex) as (Ek & Et & _). set (k := firstn (length KW_EXISTS) tok) in *.
    change (skipn 7 tok) with (skipn (length KW_EXISTS) tok) in H. set (d := skipn (length KW_EXISTS) tok) in *.
    clearbody k d. subst tok. destruct (domain_spec d) eqn:Hd; [|discriminate]. injection H as <-.
    destruct (kw_colon [101; 120; 105; 115; 116; 115] k Ek) as (k' & -> & Ek').
    rewrite <- !app_assoc. cbn [app].
    rewrite (mm_no [109; 120]), (mm_no [112; 116; 114]) by (rewrite lowerb_app, Ek'; reflexivity).
    rewrite (mm_kw [101; 120; 105; 115; 116; 115] [58] k' _ eq_refl Ek'). cbn [at_end hd0 mem existsb wspace N.eqb Pos.eqb orb tl].
    intros Htr. split; [destruct k' as [|c t]; [discriminate|]; injection Ek' as E1 _; eapply to_lower_alpha; [exact E1|reflexivity]|].
    destruct (spfexists_plain D X domain d rest Hd Hr) as [ql Ef]. fold mk in Ef.
    eapply dns_sim; [reflexivity|exact Ef|exact Hq| |exact Htr].
    intros E. apply Nat.leb_gt in E. clear - E. unfold eval_dns_mech.
    destruct (d_a D d) as [e|[|x l]]; [apply addr_result_mrel; auto; lia|cbn; repeat split; lia|cbn; repeat split; lia]. }
  (* ip4 *)
  destruct (is_prefix KW_IP4 (lowerb tok)) eqn:Eip4.
  { destruct (lower_kw_split _ _ Eip4) as (Ek & Et & _). set (k := firstn (length KW_IP4) tok) in *.
    change (skipn 4 tok) with (skipn (length KW_IP4) tok) in H. set (arg := skipn (length KW_IP4) tok) in *.
    clearbody k arg. subst tok.
    destruct (kw_colon [105; 112; 52] k Ek) as (k' & -> & Ek').
    rewrite <- !app_assoc. cbn [app].
    rewrite (mm_no [109; 120]), (mm_no [112; 116; 114]), (mm_no [101; 120; 105; 115; 116; 115]), (mm_no [97; 108; 108]), (mm_no [97])
      by (rewrite lowerb_app, Ek'; reflexivity).
    rewrite (mm_kw [105; 112; 52] [58; 47] k' _ eq_refl Ek'). cbn [at_end hd0 mem existsb wspace N.eqb Pos.eqb orb tl].
    intros Htr. split; [destruct k' as [|c t]; [discriminate|]; injection Ek' as E1 _; eapply to_lower_alpha; [exact E1|reflexivity]|].
    injection Htr as <-.
    assert (Hm : exists net len, m = MIp4 net len).
    { unfold parse_ip4 in H. destruct (negb _); [discriminate|]. destruct (inet_pton4 _); [|discriminate].
      destruct (drop_while not_slash arg); [injection H as <-; eauto|].
      destruct (cidr_num _ 32); [|discriminate]. injection H as <-; eauto. }
    destruct Hm as (net & len & ->).
    eexists _, _, _. split; [reflexivity|]. cbn [eval_mech andb].
    destruct (len <? 8) eqn:L8; [exact I|].
    rewrite (spfip4_plain arg rest net len H ltac:(lia) Hr).
    destruct (client_v4 X && ip4_matchnet (s_client X) net len); cbn; auto. }
  (* ip6 *)
  destruct (is_prefix KW_IP6 (lowerb tok)) eqn:Eip6.
  { destruct (lower_kw_split _ _ Eip6) as (Ek & Et & _). set (k := firstn (length KW_IP6) tok) in *.
    change (skipn 4 tok) with (skipn (length KW_IP6) tok) in H. set (arg := skipn (length KW_IP6) tok) in *.
    clearbody k arg. subst tok.
    destruct (kw_colon [105; 112; 54] k Ek) as (k' & -> & Ek').
    rewrite <- !app_assoc. cbn [app].
    rewrite (mm_no [109; 120]), (mm_no [112; 116; 114]), (mm_no [101; 120; 105; 115; 116; 115]), (mm_no [97; 108; 108]), (mm_no [97]),
      (mm_no [105; 112; 52]) by (rewrite lowerb_app, Ek'; reflexivity).
    rewrite (mm_kw [105; 112; 54] [58; 47] k' _ eq_refl Ek'). cbn [at_end hd0 mem existsb wspace N.eqb Pos.eqb orb tl].
    intros Htr. split; [destruct k' as [|c t]; [discriminate|]; injection Ek' as E1 _; eapply to_lower_alpha; [exact E1|reflexivity]|].
    injection Htr as <-.
    assert (Hm : exists net len short, m = MIp6 net len short).
    { unfold parse_ip6 in H. destruct (negb _); [discriminate|].
      destruct (inet_pton6 _); [|discriminate].
      destruct (drop_while not_slash arg); [injection H as <-; eauto|].
      destruct (cidr_num _ 128); [|discriminate]. injection H as <-; eauto. }
    destruct Hm as (net & len & short & ->).
    eexists _, _, _. split; [reflexivity|]. cbn [eval_mech andb].
    destruct (len <? 8) eqn:L8; [exact I|]. destruct short; [exact I|]. cbn [orb].
    rewrite (spfip6_plain arg rest net len H ltac:(lia) Hr).
    destruct (negb (client_v4 X) && ip6_matchnet (s_client X) net len); cbn; auto. }
  (* ptr *)
  destruct (is_prefix KW_PTR (lowerb tok)) eqn:Eptr.
  { destruct (lower_kw_split _ _ Eptr) as (Ek & Et & _). set (k := firstn (length KW_PTR) tok) in *.
    change (skipn 3 tok) with (skipn (length KW_PTR) tok) in H. set (args := skipn (length KW_PTR) tok) in *.
    clearbody k args. subst tok.
    assert (Sh : exists d, m = MPtr d /\ (args = [] /\ d = None \/ exists n, args = 58 :: n /\ d = Some n /\ domain_spec n = true)).
    { destruct args as [|c n]; [injection H as <-; eexists; split; [reflexivity|left; split; reflexivity]|].
      destruct ((c =? 58) && domain_spec n) eqn:Q; [|discriminate]. apply andb_true_iff in Q as [Q1 Q2].
      apply N.eqb_eq in Q1. subst c. injection H as <-. eexists; split; [reflexivity|right; eauto]. }
    destruct Sh as (d & -> & Sh).
    rewrite <- !app_assoc.
    rewrite (mm_no [109; 120]) by (rewrite lowerb_app, Ek; reflexivity).
    rewrite (mm_kw [112; 116; 114] [58; 47] k _ eq_refl Ek).
    assert (Enx : at_end (args ++ rest) || mem (hd0 (args ++ rest)) [58; 47] = true).
    { destruct Sh as [[-> _]|(n & -> & _)]; [cbn [app]; rewrite (sp_tail_at_end _ Hr); reflexivity|reflexivity]. }
    rewrite Enx.
    intros Htr. split; [destruct k as [|c t]; [discriminate|]; injection Ek as E1 _; eapply to_lower_alpha; [exact E1|reflexivity]|].
    destruct (spfptr_plain D X domain args rest d Sh Hr) as [ql Ef]. fold mk in Ef.
    eapply dns_sim; [reflexivity|exact Ef|exact Hq| |exact Htr].
    intros E. apply Nat.leb_gt in E. clear - E. unfold eval_dns_mech.
    destruct (s_remotehost X); [cbn; repeat split; lia|].
    destruct (d_name D (s_client X)) as [e|names]; [exact I|]. cbn [andb].
    destruct (existsb (name_under (target_of domain d)) (ptr_validated D X (firstn 10 names))); cbn; repeat split; lia. }
  (* mx *)
  destruct (is_prefix KW_MX (lowerb tok)) eqn:Emx.
  { destruct (lower_kw_split _ _ Emx) as (Ek & Et & _). set (k := firstn (length KW_MX) tok) in *.
    change (skipn 2 tok) with (skipn (length KW_MX) tok) in H. set (args := skipn (length KW_MX) tok) in *.
    clearbody k args. subst tok.
    destruct (opt_domain_cidr args) as [[[d a] b]|] eqn:Ho; [|discriminate]. injection H as <-.
    rewrite <- !app_assoc.
    rewrite (mm_kw [109; 120] [58; 47] k _ eq_refl Ek).
    assert (Enx : at_end (args ++ rest) || mem (hd0 (args ++ rest)) [58; 47] = true).
    { destruct (opt_domain_cidr_hd _ _ Ho) as [->|[E|E]].
      - cbn [app]. rewrite (sp_tail_at_end _ Hr). reflexivity.
      - destruct args as [|c t]; [discriminate|]. cbn in E. subst c. reflexivity.
      - destruct args as [|c t]; [discriminate|]. cbn in E. subst c. reflexivity. }
    rewrite Enx.
    intros Htr. split; [destruct k as [|c t]; [discriminate|]; injection Ek as E1 _; eapply to_lower_alpha; [exact E1|reflexivity]|].
    destruct (spfmx_plain D X domain args rest d a b Ho Hr) as [ql Ef]. fold mk in Ef.
    eapply dns_sim; [reflexivity|exact Ef|exact Hq| |exact Htr].
    intros E. apply Nat.leb_gt in E. clear - E. unfold eval_dns_mech.
    destruct (d_mx D (target_of domain d)) as [e| | |l]; [apply addr_result_mrel; auto; lia|cbn; repeat split; lia|cbn; repeat split; lia|].
    destruct (65536 <=? fst (hd (0, []) l)); [cbn; repeat split; lia|]. cbn [andb].
    destruct (Nat.leb 10 (length l)) eqn:Q; [exact I|].
    assert (Q2 : Nat.ltb 10 (length l) = false) by (apply Nat.leb_gt in Q; apply Nat.ltb_ge; lia). rewrite Q2.
    apply res_match_mrel. lia. }
  (* a *)
  destruct (is_prefix KW_A (lowerb tok)) eqn:Ea; [|discriminate].
  destruct (lower_kw_split _ _ Ea) as (Ek & Et & _). set (k := firstn (length KW_A) tok) in *.
  change (skipn 1 tok) with (skipn (length KW_A) tok) in H. set (args := skipn (length KW_A) tok) in *.
  clearbody k args. subst tok.
  destruct (opt_domain_cidr args) as [[[d a] b]|] eqn:Ho; [|discriminate]. injection H as <-.
  rewrite <- !app_assoc.
  rewrite (mm_no [109; 120]), (mm_no [112; 116; 114]), (mm_no [101; 120; 105; 115; 116; 115]) by (rewrite lowerb_app, Ek; reflexivity).
  assert (Sh : (args = [] \/ hd0 args = 58 \/ hd0 args = 47)) by (eapply opt_domain_cidr_hd; eauto).
  assert (Eall' : match_mechanism (k ++ args ++ rest) ([97; 108; 108], []) = None).
  { apply mm_no. rewrite lowerb_app, Ek.
    destruct Sh as [->|[E|E]].
    - cbn [app]. destruct rest as [|e r]; [reflexivity|]. cbn in Hr. apply N.eqb_eq in Hr. subst e. reflexivity.
    - destruct args as [|c t]; [discriminate|]. cbn in E. subst c. reflexivity.
    - destruct args as [|c t]; [discriminate|]. cbn in E. subst c. reflexivity. }
  rewrite Eall'.
  rewrite (mm_kw [97] [58; 47] k _ eq_refl Ek).
  assert (Enx : at_end (args ++ rest) || mem (hd0 (args ++ rest)) [58; 47] = true).
  { destruct Sh as [->|[E|E]].
    - cbn [app]. rewrite (sp_tail_at_end _ Hr). reflexivity.
    - destruct args as [|c t]; [discriminate|]. cbn in E. subst c. reflexivity.
    - destruct args as [|c t]; [discriminate|]. cbn in E. subst c. reflexivity. }
  rewrite Enx.
  intros Htr. split; [destruct k as [|c t]; [discriminate|]; injection Ek as E1 _; eapply to_lower_alpha; [exact E1|reflexivity]|].
  destruct (spfa_plain D X domain args rest d a b Ho Hr) as [ql Ef]. fold mk in Ef.
  eapply dns_sim; [reflexivity|exact Ef|exact Hq| |exact Htr].
  intros E. apply Nat.leb_gt in E. clear - E. unfold eval_dns_mech.
  destruct (addr_lookup D X (target_of domain d)) as [e|l]; [apply addr_result_mrel; auto; lia|].
  apply res_match_mrel. lia.
Qed.

End Sim.
